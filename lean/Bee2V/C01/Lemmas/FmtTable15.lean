/- kernel-checked rows of the beltFMTCalcB table: alphabet sizes 10242..11265, all counts 1..300 (static file; the
   constants come from the regenerated Bee2V.Gen.C01Tables through `calcB`) -/
import Bee2V.C01.Lemmas.FmtTable
set_option Elab.async false
namespace Bee2V.C01

set_option maxRecDepth 100000 in
theorem fmtRows_10242 : checkMods 64 10242 = true := by decide +kernel

set_option maxRecDepth 100000 in
theorem fmtRows_10306 : checkMods 64 10306 = true := by decide +kernel

set_option maxRecDepth 100000 in
theorem fmtRows_10370 : checkMods 64 10370 = true := by decide +kernel

set_option maxRecDepth 100000 in
theorem fmtRows_10434 : checkMods 64 10434 = true := by decide +kernel

set_option maxRecDepth 100000 in
theorem fmtRows_10498 : checkMods 64 10498 = true := by decide +kernel

set_option maxRecDepth 100000 in
theorem fmtRows_10562 : checkMods 64 10562 = true := by decide +kernel

set_option maxRecDepth 100000 in
theorem fmtRows_10626 : checkMods 64 10626 = true := by decide +kernel

set_option maxRecDepth 100000 in
theorem fmtRows_10690 : checkMods 64 10690 = true := by decide +kernel

set_option maxRecDepth 100000 in
theorem fmtRows_10754 : checkMods 64 10754 = true := by decide +kernel

set_option maxRecDepth 100000 in
theorem fmtRows_10818 : checkMods 64 10818 = true := by decide +kernel

set_option maxRecDepth 100000 in
theorem fmtRows_10882 : checkMods 64 10882 = true := by decide +kernel

set_option maxRecDepth 100000 in
theorem fmtRows_10946 : checkMods 64 10946 = true := by decide +kernel

set_option maxRecDepth 100000 in
theorem fmtRows_11010 : checkMods 64 11010 = true := by decide +kernel

set_option maxRecDepth 100000 in
theorem fmtRows_11074 : checkMods 64 11074 = true := by decide +kernel

set_option maxRecDepth 100000 in
theorem fmtRows_11138 : checkMods 64 11138 = true := by decide +kernel

set_option maxRecDepth 100000 in
theorem fmtRows_11202 : checkMods 64 11202 = true := by decide +kernel

theorem fmtFile_15 (mod count : Nat) (h1 : 10242 ≤ mod) (h2 : mod < 11266) (hc : 1 ≤ count) (hc' : count ≤ 300) :
    IsBlockCount mod count (calcB mod count) := by
  by_cases a0 : mod < 10306
  · exact checkMods_spec 64 10242 fmtRows_10242 mod count (by omega) (by omega) hc hc'
  by_cases a1 : mod < 10370
  · exact checkMods_spec 64 10306 fmtRows_10306 mod count (by omega) (by omega) hc hc'
  by_cases a2 : mod < 10434
  · exact checkMods_spec 64 10370 fmtRows_10370 mod count (by omega) (by omega) hc hc'
  by_cases a3 : mod < 10498
  · exact checkMods_spec 64 10434 fmtRows_10434 mod count (by omega) (by omega) hc hc'
  by_cases a4 : mod < 10562
  · exact checkMods_spec 64 10498 fmtRows_10498 mod count (by omega) (by omega) hc hc'
  by_cases a5 : mod < 10626
  · exact checkMods_spec 64 10562 fmtRows_10562 mod count (by omega) (by omega) hc hc'
  by_cases a6 : mod < 10690
  · exact checkMods_spec 64 10626 fmtRows_10626 mod count (by omega) (by omega) hc hc'
  by_cases a7 : mod < 10754
  · exact checkMods_spec 64 10690 fmtRows_10690 mod count (by omega) (by omega) hc hc'
  by_cases a8 : mod < 10818
  · exact checkMods_spec 64 10754 fmtRows_10754 mod count (by omega) (by omega) hc hc'
  by_cases a9 : mod < 10882
  · exact checkMods_spec 64 10818 fmtRows_10818 mod count (by omega) (by omega) hc hc'
  by_cases a10 : mod < 10946
  · exact checkMods_spec 64 10882 fmtRows_10882 mod count (by omega) (by omega) hc hc'
  by_cases a11 : mod < 11010
  · exact checkMods_spec 64 10946 fmtRows_10946 mod count (by omega) (by omega) hc hc'
  by_cases a12 : mod < 11074
  · exact checkMods_spec 64 11010 fmtRows_11010 mod count (by omega) (by omega) hc hc'
  by_cases a13 : mod < 11138
  · exact checkMods_spec 64 11074 fmtRows_11074 mod count (by omega) (by omega) hc hc'
  by_cases a14 : mod < 11202
  · exact checkMods_spec 64 11138 fmtRows_11138 mod count (by omega) (by omega) hc hc'
  exact checkMods_spec 64 11202 fmtRows_11202 mod count (by omega) (by omega) hc hc'

end Bee2V.C01

/- kernel-checked rows of the beltFMTCalcB table: alphabet sizes 4098..5121, all counts 1..300 (static file; the
   constants come from the regenerated Bee2V.Gen.C01Tables through `calcB`) -/
import Bee2V.C01.Lemmas.FmtTable
set_option Elab.async false
namespace Bee2V.C01

set_option maxRecDepth 100000 in
theorem fmtRows_4098 : checkMods 64 4098 = true := by decide +kernel

set_option maxRecDepth 100000 in
theorem fmtRows_4162 : checkMods 64 4162 = true := by decide +kernel

set_option maxRecDepth 100000 in
theorem fmtRows_4226 : checkMods 64 4226 = true := by decide +kernel

set_option maxRecDepth 100000 in
theorem fmtRows_4290 : checkMods 64 4290 = true := by decide +kernel

set_option maxRecDepth 100000 in
theorem fmtRows_4354 : checkMods 64 4354 = true := by decide +kernel

set_option maxRecDepth 100000 in
theorem fmtRows_4418 : checkMods 64 4418 = true := by decide +kernel

set_option maxRecDepth 100000 in
theorem fmtRows_4482 : checkMods 64 4482 = true := by decide +kernel

set_option maxRecDepth 100000 in
theorem fmtRows_4546 : checkMods 64 4546 = true := by decide +kernel

set_option maxRecDepth 100000 in
theorem fmtRows_4610 : checkMods 64 4610 = true := by decide +kernel

set_option maxRecDepth 100000 in
theorem fmtRows_4674 : checkMods 64 4674 = true := by decide +kernel

set_option maxRecDepth 100000 in
theorem fmtRows_4738 : checkMods 64 4738 = true := by decide +kernel

set_option maxRecDepth 100000 in
theorem fmtRows_4802 : checkMods 64 4802 = true := by decide +kernel

set_option maxRecDepth 100000 in
theorem fmtRows_4866 : checkMods 64 4866 = true := by decide +kernel

set_option maxRecDepth 100000 in
theorem fmtRows_4930 : checkMods 64 4930 = true := by decide +kernel

set_option maxRecDepth 100000 in
theorem fmtRows_4994 : checkMods 64 4994 = true := by decide +kernel

set_option maxRecDepth 100000 in
theorem fmtRows_5058 : checkMods 64 5058 = true := by decide +kernel

theorem fmtFile_9 (mod count : Nat) (h1 : 4098 ≤ mod) (h2 : mod < 5122) (hc : 1 ≤ count) (hc' : count ≤ 300) :
    IsBlockCount mod count (calcB mod count) := by
  by_cases a0 : mod < 4162
  · exact checkMods_spec 64 4098 fmtRows_4098 mod count (by omega) (by omega) hc hc'
  by_cases a1 : mod < 4226
  · exact checkMods_spec 64 4162 fmtRows_4162 mod count (by omega) (by omega) hc hc'
  by_cases a2 : mod < 4290
  · exact checkMods_spec 64 4226 fmtRows_4226 mod count (by omega) (by omega) hc hc'
  by_cases a3 : mod < 4354
  · exact checkMods_spec 64 4290 fmtRows_4290 mod count (by omega) (by omega) hc hc'
  by_cases a4 : mod < 4418
  · exact checkMods_spec 64 4354 fmtRows_4354 mod count (by omega) (by omega) hc hc'
  by_cases a5 : mod < 4482
  · exact checkMods_spec 64 4418 fmtRows_4418 mod count (by omega) (by omega) hc hc'
  by_cases a6 : mod < 4546
  · exact checkMods_spec 64 4482 fmtRows_4482 mod count (by omega) (by omega) hc hc'
  by_cases a7 : mod < 4610
  · exact checkMods_spec 64 4546 fmtRows_4546 mod count (by omega) (by omega) hc hc'
  by_cases a8 : mod < 4674
  · exact checkMods_spec 64 4610 fmtRows_4610 mod count (by omega) (by omega) hc hc'
  by_cases a9 : mod < 4738
  · exact checkMods_spec 64 4674 fmtRows_4674 mod count (by omega) (by omega) hc hc'
  by_cases a10 : mod < 4802
  · exact checkMods_spec 64 4738 fmtRows_4738 mod count (by omega) (by omega) hc hc'
  by_cases a11 : mod < 4866
  · exact checkMods_spec 64 4802 fmtRows_4802 mod count (by omega) (by omega) hc hc'
  by_cases a12 : mod < 4930
  · exact checkMods_spec 64 4866 fmtRows_4866 mod count (by omega) (by omega) hc hc'
  by_cases a13 : mod < 4994
  · exact checkMods_spec 64 4930 fmtRows_4930 mod count (by omega) (by omega) hc hc'
  by_cases a14 : mod < 5058
  · exact checkMods_spec 64 4994 fmtRows_4994 mod count (by omega) (by omega) hc hc'
  exact checkMods_spec 64 5058 fmtRows_5058 mod count (by omega) (by omega) hc hc'

end Bee2V.C01

/-
Kernel-checked rows of the block-count table of beltFMTCalcB: a Bool-valued checker walks
count = 1..300 for one alphabet size carrying p = mod^count, and compares `calcB mod count` (the model
of the C routine, constants regenerated from the source) with the exact count through the two
inequalities  mod^count ≤ 2^(64 b)  and  2^(64 (b-1)) < mod^count.
-/
import Bee2V.C01.Model.FmtB
namespace Bee2V.C01

/-- `b` is the least number of 64-bit blocks that hold a word of `Z_mod^count` -/
def IsBlockCount (mod count b : Nat) : Prop :=
  mod ^ count ≤ 2 ^ (64 * b) ∧ (b = 0 ∨ 2 ^ (64 * (b - 1)) < mod ^ count)

def okPoint (mod count p : Nat) : Bool :=
  let b := calcB mod count
  Nat.ble p (2 ^ (64 * b)) && (b == 0 || Nat.blt (2 ^ (64 * (b - 1))) p)

def checkRow (mod : Nat) : Nat → Nat → Nat → Bool
  | 0, _, _ => true
  | fuel + 1, count, p => okPoint mod count p && checkRow mod fuel (count + 1) (p * mod)

def checkMods : Nat → Nat → Bool
  | 0, _ => true
  | n + 1, mod => checkRow mod 300 1 mod && checkMods n (mod + 1)

theorem okPoint_sound (mod count : Nat) (h : okPoint mod count (mod ^ count) = true) :
    IsBlockCount mod count (calcB mod count) := by
  simp only [okPoint, Bool.and_eq_true, Bool.or_eq_true, beq_iff_eq] at h
  refine ⟨Nat.le_of_ble_eq_true h.1, ?_⟩
  rcases h.2 with h0 | h1
  · exact Or.inl h0
  · exact Or.inr (by have := Nat.le_of_ble_eq_true h1; omega)

theorem checkRow_sound (mod : Nat) (fuel count p : Nat) (h : checkRow mod fuel count p = true) :
    ∀ j, j < fuel → okPoint mod (count + j) (p * mod ^ j) = true := by
  induction fuel generalizing count p with
  | zero => intro j hj; omega
  | succ f ih =>
    simp only [checkRow, Bool.and_eq_true] at h
    intro j hj
    match j with
    | 0 => simpa using h.1
    | j + 1 =>
      have := ih (count + 1) (p * mod) h.2 j (by omega)
      have e1 : count + (j + 1) = count + 1 + j := by omega
      have e2 : p * mod ^ (j + 1) = p * mod * mod ^ j := by rw [Nat.pow_succ, Nat.mul_assoc, Nat.mul_comm (mod ^ j)]
      rw [e1, e2]; exact this

theorem checkMods_sound (n m : Nat) (h : checkMods n m = true) :
    ∀ i, i < n → checkRow (m + i) 300 1 (m + i) = true := by
  induction n generalizing m with
  | zero => intro i hi; omega
  | succ k ih =>
    simp only [checkMods, Bool.and_eq_true] at h
    intro i hi
    match i with
    | 0 => simpa using h.1
    | i + 1 =>
      have := ih (m + 1) h.2 i (by omega)
      have e : m + (i + 1) = m + 1 + i := by omega
      rw [e]; exact this

/-- a checked range of alphabet sizes gives the exact block count on all of 1 ≤ count ≤ 300 -/
theorem checkMods_spec (n m : Nat) (h : checkMods n m = true) (mod count : Nat)
    (hm : m ≤ mod) (hm' : mod < m + n) (hc : 1 ≤ count) (hc' : count ≤ 300) :
    IsBlockCount mod count (calcB mod count) := by
  have hrow := checkMods_sound n m h (mod - m) (by omega)
  have e : m + (mod - m) = mod := by omega
  rw [e] at hrow
  have hp := checkRow_sound mod 300 1 mod hrow (count - 1) (by omega)
  have e1 : 1 + (count - 1) = count := by omega
  have e2 : mod * mod ^ (count - 1) = mod ^ count := by
    have : count = (count - 1) + 1 := by omega
    conv => rhs; rw [this, Nat.pow_succ, Nat.mul_comm]
  rw [e1, e2] at hp
  exact okPoint_sound mod count hp

end Bee2V.C01

/-
C01: the DWP / CHE tag as the polynomial MAC of the standard over GF(2^128); `beltBlockMulC` as
multiplication by x.  Standards-level definitions (`Spec.polyAbsorb`, `Spec.polyMac`) and helper lemmas
(namespace `Bee2V.C01.TagL`).
-/
import Bee2V.C01.Lemmas.Aead
import Bee2V.C01.PropsPoly

namespace Bee2V.C01.Spec
open Bee2V.C01 Bee2V.Gen.C01 Bee2V.C01.Poly

/-- absorb an octet string into the accumulator `t`: for every 128-bit block `B_i` (octets `16 i ..< 16 i + 16`,
the last block may be shorter = zero-padded, which does not change its little-endian value; no block at all for
the empty string) `t ← (t ⊕ ⟦B_i⟧) * r` in GF(2^128) -/
def polyAbsorb (r : Nat) (t : Nat) (X : Bytes) : Nat :=
  (List.range ((X.length + 15) / 16)).foldl (fun t i => gfMul (t ^^^ leNat ((X.drop (16 * i)).take 16)) r) t

/-- the polynomial MAC of belt-dwp / belt-che before the final encryption: `t ← ⟦H[0..16)⟧` (octets B194BAC8…),
absorb the open data `I`, absorb the critical data `X`, then `t ← (t ⊕ ⟦⟨|I|⟩_64 ‖ ⟨|X|⟩_64⟧) * r` with the bit
lengths as 8 little-endian octets each -/
def polyMac (r : Nat) (I X : Bytes) : Nat :=
  gfMul (polyAbsorb r (polyAbsorb r (leNat (H.toList.take 16)) I) X
    ^^^ leNat (natLE 8 (8 * I.length) ++ natLE 8 (8 * X.length))) r

end Bee2V.C01.Spec

namespace Bee2V.C01.TagL
open Bee2V.C01 Bee2V.Gen.C01 Bee2V.C01.Aead Bee2V.C01.Spec
open Bee2V.C01.Poly (gfMul gfMul_lt polyMul_gf polyMul_eq beltP beltP_ne beltP_log2)

/-! ### Nat xor, limb-wise -/

theorem xor_limb (k a b c d : Nat) (ha : a < 2 ^ k) (hc : c < 2 ^ k) :
    (a + 2 ^ k * b) ^^^ (c + 2 ^ k * d) = (a ^^^ c) + 2 ^ k * (b ^^^ d) := by
  have hp : 0 < 2 ^ k := Nat.two_pow_pos k
  have hm : ((a + 2 ^ k * b) ^^^ (c + 2 ^ k * d)) % 2 ^ k = a ^^^ c := by
    rw [Nat.xor_mod_two_pow, Nat.add_mul_mod_self_left, Nat.add_mul_mod_self_left, Nat.mod_eq_of_lt ha,
      Nat.mod_eq_of_lt hc]
  have hd : ((a + 2 ^ k * b) ^^^ (c + 2 ^ k * d)) / 2 ^ k = b ^^^ d := by
    rw [Nat.xor_div_two_pow, Nat.add_mul_div_left _ _ hp, Nat.add_mul_div_left _ _ hp, Nat.div_eq_of_lt ha,
      Nat.div_eq_of_lt hc, Nat.zero_add, Nat.zero_add]
  rw [← Nat.mod_add_div ((a + 2 ^ k * b) ^^^ (c + 2 ^ k * d)) (2 ^ k), hm, hd]

theorem leNat_xorb (a b : Bytes) (h : a.length = b.length) : leNat (xorb a b) = leNat a ^^^ leNat b := by
  induction a generalizing b with
  | nil => cases b with
    | nil => rfl
    | cons y b => simp only [List.length_nil, List.length_cons] at h; omega
  | cons x a ih => cases b with
    | nil => simp only [List.length_nil, List.length_cons] at h; omega
    | cons y b =>
      simp only [List.length_cons, Nat.add_right_cancel_iff] at h
      have e : xorb (x :: a) (y :: b) = (x ^^^ y) :: xorb a b := rfl
      rw [e]
      simp only [leNat, ih b h, UInt8.toNat_xor]
      exact (xor_limb 8 x.toNat (leNat a) y.toNat (leNat b) x.toNat_lt y.toNat_lt).symm

theorem leNat_zeros (n : Nat) : leNat (zeros n) = 0 := by
  induction n with
  | zero => rfl
  | succ n ih =>
    have e : zeros (n + 1) = 0 :: zeros n := rfl
    rw [e, leNat, ih]; rfl

theorem leNat_pad (b : Bytes) (n : Nat) : leNat (b ++ zeros n) = leNat b := by
  rw [leNat_append, leNat_zeros, Nat.mul_zero, Nat.add_zero]

theorem leNat_lt128 (b : Bytes) (h : b.length = 16) : leNat b < 2 ^ 128 := by
  have := Aead.leNat_lt b
  rw [h] at this
  exact this

/-! ### unfolding `polyAbsorb` -/

theorem polyAbsorb_nil (r t : Nat) (X : Bytes) (h : X.length = 0) : polyAbsorb r t X = t := by
  simp only [polyAbsorb, h, Nat.zero_add, Nat.reduceDiv, List.range_zero, List.foldl_nil]

theorem polyAbsorb_step (r t : Nat) (X : Bytes) (h : X.length ≠ 0) :
    polyAbsorb r t X = polyAbsorb r (gfMul (t ^^^ leNat (X.take 16)) r) (X.drop 16) := by
  have hn : (X.length + 15) / 16 = ((X.drop 16).length + 15) / 16 + 1 := by
    simp only [List.length_drop]; omega
  simp only [polyAbsorb]
  rw [hn, List.range_succ_eq_map, List.foldl_cons, List.foldl_map]
  simp only [Nat.mul_zero, List.drop_zero, List.drop_drop, Nat.succ_eq_add_one, Nat.mul_add, Nat.mul_one]
  have e : ∀ i, 16 + 16 * i = 16 * i + 16 := fun i => Nat.add_comm _ _
  simp only [e]

/-- a string shorter than one block -/
theorem polyAbsorb_short (r t : Nat) (X : Bytes) (h : X.length < 16) :
    polyAbsorb r t X = if X.length = 0 then t else gfMul (t ^^^ leNat X) r := by
  by_cases h0 : X.length = 0
  · rw [if_pos h0, polyAbsorb_nil r t X h0]
  · rw [if_neg h0, polyAbsorb_step r t X h0, polyAbsorb_nil _ _ _ (by simp only [List.length_drop]; omega),
      List.take_of_length_le (by omega)]

/-! ### the accumulator -/

theorem polyStep_val (r t b : Bytes) (ht : t.length = 16) (hb : b.length = 16) (hr : r.length = 16) :
    leNat (polyStep r t b) = gfMul (leNat t ^^^ leNat b) (leNat r) ∧ (polyStep r t b).length = 16 := by
  unfold polyStep
  have hx : (xorb t b).length = 16 := by rw [length_xorb, ht, hb]; rfl
  have := polyMul_gf (xorb t b) r hx hr
  rw [leNat_xorb t b (by rw [ht, hb])] at this
  exact this

theorem fullBlocks_poly (r : Bytes) (hr : r.length = 16) :
    ∀ (n : Nat) (t blk buf : Bytes), buf.length ≤ n → t.length = 16 → blk.length = 16 →
      (fullBlocks 16 (fun (tb : Bytes × Bytes) b => ((polyStep r tb.1 b, b), ([] : Bytes))) (t, blk) buf).1.1.length = 16 ∧
      (fullBlocks 16 (fun (tb : Bytes × Bytes) b => ((polyStep r tb.1 b, b), ([] : Bytes))) (t, blk) buf).1.2.length = 16 ∧
      (fullBlocks 16 (fun (tb : Bytes × Bytes) b => ((polyStep r tb.1 b, b), ([] : Bytes))) (t, blk) buf).2.2.length < 16 ∧
      ∀ Y : Bytes, polyAbsorb (leNat r)
          (leNat (fullBlocks 16 (fun (tb : Bytes × Bytes) b => ((polyStep r tb.1 b, b), ([] : Bytes))) (t, blk) buf).1.1)
          ((fullBlocks 16 (fun (tb : Bytes × Bytes) b => ((polyStep r tb.1 b, b), ([] : Bytes))) (t, blk) buf).2.2 ++ Y)
        = polyAbsorb (leNat r) (leNat t) (buf ++ Y) := by
  intro n
  induction n with
  | zero =>
    intro t blk buf hn ht hblk
    have hb : buf.length < 16 := by omega
    rw [fullBlocks_short _ _ _ hb]
    exact ⟨ht, hblk, hb, fun _ => rfl⟩
  | succ n ih =>
    intro t blk buf hn ht hblk
    by_cases hb : buf.length < 16
    · rw [fullBlocks_short _ _ _ hb]
      exact ⟨ht, hblk, hb, fun _ => rfl⟩
    · have h16 : (buf.take 16).length = 16 := by simp only [List.length_take]; omega
      have hdl : (buf.drop 16).length ≤ n := by simp only [List.length_drop]; omega
      have hps := polyStep_val r t (buf.take 16) ht h16 hr
      have hrec := ih (polyStep r t (buf.take 16)) (buf.take 16) (buf.drop 16) hdl hps.2 h16
      have hfb := fullBlocks_cons (fun (tb : Bytes × Bytes) b => ((polyStep r tb.1 b, b), ([] : Bytes))) (t, blk)
        (buf.take 16) (buf.drop 16) h16
      rw [List.take_append_drop] at hfb
      rw [hfb]
      dsimp only
      generalize fullBlocks 16 (fun (tb : Bytes × Bytes) b => ((polyStep r tb.1 b, b), ([] : Bytes)))
        (polyStep r t (buf.take 16), buf.take 16) (buf.drop 16) = l at hrec
      rcases hrec with ⟨r1, r2, r3, r4⟩
      refine ⟨r1, r2, r3, ?_⟩
      intro Y
      rw [r4 Y, hps.1]
      have hne : (buf ++ Y).length ≠ 0 := by simp only [List.length_append]; omega
      rw [polyAbsorb_step _ _ (buf ++ Y) hne]
      have e1 : (buf ++ Y).take 16 = buf.take 16 := by
        rw [List.take_append_of_le_length (by omega)]
      have e2 : (buf ++ Y).drop 16 = buf.drop 16 ++ Y := by
        rw [List.drop_append_of_le_length (by omega)]
      rw [e1, e2]

/-- pending octets of the accumulator -/
def pend (st : PolySt) : Bytes := st.block.take st.filled

def Inv (st : PolySt) : Prop := st.t.length = 16 ∧ st.block.length = 16 ∧ st.filled < 16 ∧ st.r.length = 16

/-- the common tail of `absorb16`: full blocks from `(t0, blk0)`, then buffer the rest -/
def absorbCore (st : PolySt) (t0 blk0 buf : Bytes) : PolySt :=
  let l := fullBlocks 16 (fun (tb : Bytes × Bytes) b => ((polyStep st.r tb.1 b, b), ([] : Bytes))) (t0, blk0) buf
  if l.2.2.length ≠ 0 then { st with t := l.1.1, block := putAt l.1.2 0 l.2.2, filled := l.2.2.length }
  else { st with t := l.1.1, block := l.1.2, filled := 0 }

theorem absorb16_eq (st : PolySt) (buf : Bytes) :
    absorb16 st buf =
      if st.filled ≠ 0 ∧ buf.length < 16 - st.filled then
        { st with block := putAt st.block st.filled buf, filled := st.filled + buf.length }
      else if st.filled ≠ 0 then
        absorbCore st (polyStep st.r st.t (putAt st.block st.filled (buf.take (16 - st.filled))))
          (putAt st.block st.filled (buf.take (16 - st.filled))) (buf.drop (16 - st.filled))
      else absorbCore st st.t st.block buf := by
  unfold absorb16
  by_cases h1 : st.filled ≠ 0 ∧ buf.length < 16 - st.filled
  · rw [if_pos h1, if_pos h1]
  · rw [if_neg h1, if_neg h1]
    by_cases h0 : st.filled ≠ 0
    · simp only [if_pos h0]; rfl
    · simp only [if_neg h0, List.drop_zero]; rfl

theorem absorbCore_spec (st : PolySt) (t0 blk0 buf : Bytes) (hr : st.r.length = 16) (ht : t0.length = 16)
    (hb : blk0.length = 16) :
    Inv (absorbCore st t0 blk0 buf) ∧ (absorbCore st t0 blk0 buf).r = st.r ∧
      (absorbCore st t0 blk0 buf).len = st.len ∧
      ∀ Y : Bytes, polyAbsorb (leNat st.r) (leNat (absorbCore st t0 blk0 buf).t) (pend (absorbCore st t0 blk0 buf) ++ Y)
        = polyAbsorb (leNat st.r) (leNat t0) (buf ++ Y) := by
  have hk := fullBlocks_poly st.r hr buf.length t0 blk0 buf (Nat.le_refl _) ht hb
  unfold absorbCore
  dsimp only
  generalize fullBlocks 16 (fun (tb : Bytes × Bytes) b => ((polyStep st.r tb.1 b, b), ([] : Bytes))) (t0, blk0) buf = l
    at hk
  rcases hk with ⟨k1, k2, k3, k4⟩
  by_cases h2 : l.2.2.length ≠ 0
  · rw [if_pos h2]
    have hp : putAt l.1.2 0 l.2.2 = l.2.2 ++ l.1.2.drop l.2.2.length := by
      simp only [putAt, List.take_zero, List.nil_append, Nat.zero_add]
    refine ⟨⟨k1, ?_, k3, hr⟩, rfl, rfl, ?_⟩
    · show (putAt l.1.2 0 l.2.2).length = 16
      rw [hp, List.length_append, List.length_drop, k2]; omega
    · intro Y
      have : pend { st with t := l.1.1, block := putAt l.1.2 0 l.2.2, filled := l.2.2.length } = l.2.2 := by
        show (putAt l.1.2 0 l.2.2).take l.2.2.length = l.2.2
        rw [hp]; exact List.take_left' rfl
      rw [this]; exact k4 Y
  · rw [if_neg h2]
    refine ⟨⟨k1, k2, by show 0 < 16; omega, hr⟩, rfl, rfl, ?_⟩
    intro Y
    have hnil : l.2.2 = [] := List.eq_nil_of_length_eq_zero (by omega)
    have : pend { st with t := l.1.1, block := l.1.2, filled := 0 } = [] := by
      show l.1.2.take 0 = []
      rfl
    rw [this, ← k4 Y, hnil]

theorem absorb16_spec (st : PolySt) (buf : Bytes) (hI : Inv st) :
    Inv (absorb16 st buf) ∧ (absorb16 st buf).r = st.r ∧ (absorb16 st buf).len = st.len ∧
      ∀ Y : Bytes, polyAbsorb (leNat st.r) (leNat (absorb16 st buf).t) (pend (absorb16 st buf) ++ Y)
        = polyAbsorb (leNat st.r) (leNat st.t) (pend st ++ (buf ++ Y)) := by
  rcases hI with ⟨ht, hb, hf, hr⟩
  rw [absorb16_eq]
  by_cases h1 : st.filled ≠ 0 ∧ buf.length < 16 - st.filled
  · rw [if_pos h1]
    have hp : pend { st with block := putAt st.block st.filled buf, filled := st.filled + buf.length }
        = pend st ++ buf := by
      show (putAt st.block st.filled buf).take (st.filled + buf.length) = st.block.take st.filled ++ buf
      unfold putAt
      rw [List.append_assoc, ← List.append_assoc]
      exact List.take_left' (by simp only [List.length_append, List.length_take, hb]; omega)
    refine ⟨⟨ht, ?_, by show st.filled + buf.length < 16; omega, hr⟩, rfl, rfl, ?_⟩
    · show (putAt st.block st.filled buf).length = 16
      simp only [putAt, List.length_append, List.length_take, List.length_drop, hb]; omega
    · intro Y
      rw [hp, List.append_assoc]
  · rw [if_neg h1]
    by_cases h0 : st.filled ≠ 0
    · rw [if_pos h0]
      have hle : 16 - st.filled ≤ buf.length := by
        have : ¬ buf.length < 16 - st.filled := fun h => h1 ⟨h0, h⟩
        omega
      have hblk0 : putAt st.block st.filled (buf.take (16 - st.filled)) = pend st ++ buf.take (16 - st.filled) := by
        unfold putAt pend
        have : st.block.drop (st.filled + (buf.take (16 - st.filled)).length) = [] := by
          apply List.drop_eq_nil_of_le
          simp only [List.length_take, hb]; omega
        rw [this, List.append_nil]
      have hpl : (pend st).length = st.filled := by
        unfold pend; simp only [List.length_take, hb]; omega
      have hbl : (pend st ++ buf.take (16 - st.filled)).length = 16 := by
        simp only [List.length_append, hpl, List.length_take]; omega
      rw [hblk0]
      have hps := polyStep_val st.r st.t (pend st ++ buf.take (16 - st.filled)) ht hbl hr
      have hc := absorbCore_spec st (polyStep st.r st.t (pend st ++ buf.take (16 - st.filled)))
        (pend st ++ buf.take (16 - st.filled)) (buf.drop (16 - st.filled)) hr hps.2 hbl
      refine ⟨hc.1, hc.2.1, hc.2.2.1, ?_⟩
      intro Y
      rw [hc.2.2.2 Y, hps.1]
      have hsplit : pend st ++ (buf ++ Y) =
          (pend st ++ buf.take (16 - st.filled)) ++ (buf.drop (16 - st.filled) ++ Y) := by
        rw [List.append_assoc, ← List.append_assoc (buf.take _), List.take_append_drop]
      have hne : (pend st ++ (buf ++ Y)).length ≠ 0 := by
        simp only [List.length_append, hpl]; omega
      rw [polyAbsorb_step _ _ _ hne, hsplit, List.take_left' hbl, List.drop_left' hbl]
    · rw [if_neg h0]
      have hf0 : st.filled = 0 := by omega
      have hc := absorbCore_spec st st.t st.block buf hr ht hb
      refine ⟨hc.1, hc.2.1, hc.2.2.1, ?_⟩
      intro Y
      have : pend st = [] := by unfold pend; rw [hf0]; rfl
      rw [hc.2.2.2 Y, this, List.nil_append]

/-! ### the length block -/

theorem zeros8_eq : zeros 8 = natLE 8 0 := by decide

theorem addBitSizeW_natLE (w a n : Nat) (hn : n < 2 ^ 64) : addBitSizeW w (natLE 8 a) n = natLE 8 (a + 8 * n) := by
  rw [addBitSizeW_eq_W64 w _ _ (Aead.length_natLE 8 a) hn]
  apply eq_of_leNat_eq
  · rw [length_addBitSizeW64, Aead.length_natLE]
  · rw [addBitSizeW64_val, Aead.leNat_natLE, Aead.leNat_natLE]
    simp only [Nat.reducePow]
    omega

theorem natLE8_ne_zeros (v : Nat) (h : v % 2 ^ 64 ≠ 0) : natLE 8 v ≠ zeros 8 := by
  intro e
  have := congrArg leNat e
  rw [Aead.leNat_natLE, leNat_zeros] at this
  simp only [Nat.reducePow] at this h
  omega

/-! ### phases of the accumulator -/

/-- open data `D` absorbed so far, no critical data yet -/
def PhaseI (st : PolySt) (h : Nat) (D : Bytes) : Prop :=
  Inv st ∧ st.len = natLE 8 (8 * D.length) ++ zeros 8 ∧
    ∀ Y : Bytes, polyAbsorb (leNat st.r) (leNat st.t) (pend st ++ Y) = polyAbsorb (leNat st.r) h (D ++ Y)

/-- all open data `I` and the non-empty critical data `D` absorbed so far -/
def PhaseA (st : PolySt) (h : Nat) (I D : Bytes) : Prop :=
  Inv st ∧ st.len = natLE 8 (8 * I.length) ++ natLE 8 (8 * D.length) ∧ D.length ≠ 0 ∧
    ∀ Y : Bytes, polyAbsorb (leNat st.r) (leNat st.t) (pend st ++ Y)
      = polyAbsorb (leNat st.r) (polyAbsorb (leNat st.r) h I) (D ++ Y)

def PhaseIA (st : PolySt) (h : Nat) (I D : Bytes) : Prop :=
  if D.length = 0 then PhaseI st h I else PhaseA st h I D

theorem polyStepI_phase (w : Nat) (st : PolySt) (h : Nat) (D buf : Bytes) (hb : buf.length < 2 ^ 64)
    (hP : PhaseI st h D) : PhaseI (polyStepI w st buf) h (D ++ buf) ∧ (polyStepI w st buf).r = st.r := by
  rcases hP with ⟨hI, hl, hA⟩
  unfold polyStepI
  have h8 : (natLE 8 (8 * D.length)).length = 8 := Aead.length_natLE _ _
  have hlen : addBitSizeW w (st.len.take 8) buf.length ++ st.len.drop 8
      = natLE 8 (8 * (D ++ buf).length) ++ zeros 8 := by
    rw [hl, List.take_left' h8, List.drop_left' h8, addBitSizeW_natLE w _ _ hb, List.length_append, Nat.mul_add]
  rw [hlen]
  have hs := absorb16_spec { st with len := natLE 8 (8 * (D ++ buf).length) ++ zeros 8 } buf hI
  refine ⟨⟨hs.1, hs.2.2.1, ?_⟩, hs.2.1⟩
  intro Y
  rw [hs.2.1]
  have := hs.2.2.2 Y
  rw [this]
  have e := hA (buf ++ Y)
  rw [List.append_assoc]
  exact e

theorem pend_length (st : PolySt) (hI : Inv st) : (pend st).length = st.filled := by
  rcases hI with ⟨_, hb, hf, _⟩
  unfold pend; simp only [List.length_take, hb]; omega

/-- value of the accumulator after padding the pending block -/
theorem flush_val (st : PolySt) (hI : Inv st) (hf : st.filled ≠ 0) :
    leNat (polyStep st.r st.t (st.block.take st.filled ++ zeros (16 - st.filled)))
      = polyAbsorb (leNat st.r) (leNat st.t) (pend st) ∧
    (polyStep st.r st.t (st.block.take st.filled ++ zeros (16 - st.filled))).length = 16 ∧
    (st.block.take st.filled ++ zeros (16 - st.filled)).length = 16 := by
  have hpl := pend_length st hI
  rcases hI with ⟨ht, hb, hf', hr⟩
  have hbl : (st.block.take st.filled ++ zeros (16 - st.filled)).length = 16 := by
    simp only [List.length_append, List.length_take, hb, zeros, List.length_replicate]; omega
  have hps := polyStep_val st.r st.t _ ht hbl hr
  refine ⟨?_, hps.2, hbl⟩
  rw [hps.1, leNat_pad, polyAbsorb_short _ _ (pend st) (by rw [hpl]; exact hf'), if_neg (by rw [hpl]; exact hf)]
  rfl

theorem polyStepA_phaseI_nil (w : Nat) (st : PolySt) (h : Nat) (I : Bytes) (hP : PhaseI st h I) :
    PhaseI (polyStepA w st []) h I ∧ (polyStepA w st []).r = st.r := by
  rcases hP with ⟨hI, hl, hA⟩
  unfold polyStepA
  have hc : ¬(([] : Bytes).length ≠ 0 ∧ st.len.drop 8 = zeros 8 ∧ st.filled ≠ 0) := fun h => h.1 rfl
  simp only [if_neg hc]
  have h8 : (natLE 8 (8 * I.length)).length = 8 := Aead.length_natLE _ _
  have hlen : st.len.take 8 ++ addBitSizeW w (st.len.drop 8) ([] : Bytes).length = st.len := by
    rw [hl, List.take_left' h8, List.drop_left' h8, zeros8_eq, addBitSizeW_natLE w _ _ (by decide)]
    rfl
  rw [hlen]
  have hs := absorb16_spec { st with len := st.len } [] hI
  refine ⟨⟨hs.1, by rw [hs.2.2.1]; exact hl, ?_⟩, hs.2.1⟩
  intro Y
  rw [hs.2.1]
  have := hs.2.2.2 Y
  rw [this]
  exact hA Y

theorem polyStepA_phaseI_cons (w : Nat) (st : PolySt) (h : Nat) (I buf : Bytes) (hb : buf.length < 2 ^ 64)
    (hne : buf.length ≠ 0) (hP : PhaseI st h I) :
    PhaseA (polyStepA w st buf) h I buf ∧ (polyStepA w st buf).r = st.r := by
  rcases hP with ⟨hI, hl, hA⟩
  have h8 : (natLE 8 (8 * I.length)).length = 8 := Aead.length_natLE _ _
  have hd8 : st.len.drop 8 = zeros 8 := by rw [hl, List.drop_left' h8]
  have ht8 : st.len.take 8 = natLE 8 (8 * I.length) := by rw [hl, List.take_left' h8]
  unfold polyStepA
  by_cases hf : st.filled ≠ 0
  · have hc : buf.length ≠ 0 ∧ st.len.drop 8 = zeros 8 ∧ st.filled ≠ 0 := ⟨hne, hd8, hf⟩
    simp only [if_pos hc]
    have hfl := flush_val st hI hf
    have hlen : st.len.take 8 ++ addBitSizeW w (st.len.drop 8) buf.length
        = natLE 8 (8 * I.length) ++ natLE 8 (8 * buf.length) := by
      rw [ht8, hd8, zeros8_eq, addBitSizeW_natLE w _ _ hb, Nat.zero_add]
    rw [hlen]
    have hI2 : Inv ⟨st.r, polyStep st.r st.t (st.block.take st.filled ++ zeros (16 - st.filled)), st.t1,
        natLE 8 (8 * I.length) ++ natLE 8 (8 * buf.length), st.block.take st.filled ++ zeros (16 - st.filled), 0⟩ :=
      ⟨hfl.2.1, hfl.2.2, by show 0 < 16; omega, hI.2.2.2⟩
    have hs := absorb16_spec _ buf hI2
    refine ⟨⟨hs.1, hs.2.2.1, hne, ?_⟩, hs.2.1⟩
    intro Y
    rw [hs.2.1]
    have := hs.2.2.2 Y
    rw [this]
    show polyAbsorb (leNat st.r) (leNat (polyStep st.r st.t (st.block.take st.filled ++ zeros (16 - st.filled))))
      ((st.block.take st.filled ++ zeros (16 - st.filled)).take 0 ++ (buf ++ Y)) = _
    rw [hfl.1, List.take_zero, List.nil_append]
    have e := hA []
    rw [List.append_nil, List.append_nil] at e
    rw [e]
  · have hc : ¬(buf.length ≠ 0 ∧ st.len.drop 8 = zeros 8 ∧ st.filled ≠ 0) := fun h => hf h.2.2
    simp only [if_neg hc]
    have hlen : st.len.take 8 ++ addBitSizeW w (st.len.drop 8) buf.length
        = natLE 8 (8 * I.length) ++ natLE 8 (8 * buf.length) := by
      rw [ht8, hd8, zeros8_eq, addBitSizeW_natLE w _ _ hb, Nat.zero_add]
    rw [hlen]
    have hs := absorb16_spec { st with len := natLE 8 (8 * I.length) ++ natLE 8 (8 * buf.length) } buf hI
    refine ⟨⟨hs.1, hs.2.2.1, hne, ?_⟩, hs.2.1⟩
    intro Y
    rw [hs.2.1]
    have := hs.2.2.2 Y
    rw [this]
    have hf0 : st.filled = 0 := by omega
    have hp : pend st = [] := by unfold pend; rw [hf0]; rfl
    show polyAbsorb (leNat st.r) (leNat st.t) (pend st ++ (buf ++ Y)) = _
    have e := hA []
    rw [hp, List.nil_append, List.append_nil, polyAbsorb_nil _ _ [] rfl] at e
    rw [hp, List.nil_append, e]

theorem polyStepA_phaseA (w : Nat) (st : PolySt) (h : Nat) (I D buf : Bytes) (hD : D.length < 2 ^ 61)
    (hb : buf.length < 2 ^ 64) (hP : PhaseA st h I D) :
    PhaseA (polyStepA w st buf) h I (D ++ buf) ∧ (polyStepA w st buf).r = st.r := by
  rcases hP with ⟨hI, hl, hD0, hA⟩
  have h8 : (natLE 8 (8 * I.length)).length = 8 := Aead.length_natLE _ _
  have hd8 : st.len.drop 8 = natLE 8 (8 * D.length) := by rw [hl, List.drop_left' h8]
  have ht8 : st.len.take 8 = natLE 8 (8 * I.length) := by rw [hl, List.take_left' h8]
  have hnz : st.len.drop 8 ≠ zeros 8 := by
    rw [hd8]; exact natLE8_ne_zeros _ (by omega)
  unfold polyStepA
  have hc : ¬(buf.length ≠ 0 ∧ st.len.drop 8 = zeros 8 ∧ st.filled ≠ 0) := fun h => hnz h.2.1
  simp only [if_neg hc]
  have hlen : st.len.take 8 ++ addBitSizeW w (st.len.drop 8) buf.length
      = natLE 8 (8 * I.length) ++ natLE 8 (8 * (D ++ buf).length) := by
    rw [ht8, hd8, addBitSizeW_natLE w _ _ hb, List.length_append, Nat.mul_add]
  rw [hlen]
  have hs := absorb16_spec { st with len := natLE 8 (8 * I.length) ++ natLE 8 (8 * (D ++ buf).length) } buf hI
  refine ⟨⟨hs.1, hs.2.2.1, by simp only [List.length_append]; omega, ?_⟩, hs.2.1⟩
  intro Y
  rw [hs.2.1]
  have := hs.2.2.2 Y
  rw [this]
  have e := hA (buf ++ Y)
  rw [List.append_assoc]
  exact e

theorem polyStepA_phase (w : Nat) (st : PolySt) (h : Nat) (I D buf : Bytes) (hD : D.length < 2 ^ 61)
    (hb : buf.length < 2 ^ 64) (hP : PhaseIA st h I D) :
    PhaseIA (polyStepA w st buf) h I (D ++ buf) ∧ (polyStepA w st buf).r = st.r := by
  unfold PhaseIA at hP ⊢
  by_cases hD0 : D.length = 0
  · rw [if_pos hD0] at hP
    have hDn : D = [] := List.eq_nil_of_length_eq_zero hD0
    subst hDn
    by_cases hb0 : buf.length = 0
    · have hbn : buf = [] := List.eq_nil_of_length_eq_zero hb0
      subst hbn
      rw [if_pos (by rfl)]
      exact polyStepA_phaseI_nil w st h I hP
    · rw [if_neg (by simp only [List.nil_append]; exact hb0), List.nil_append]
      exact polyStepA_phaseI_cons w st h I buf hb hb0 hP
  · rw [if_neg hD0] at hP
    rw [if_neg (by simp only [List.length_append]; omega)]
    exact polyStepA_phaseA w st h I D buf hD hb hP

/-! ### finish -/

theorem polyFinish_val (st : PolySt) (hI : Inv st) (hl : st.len.length = 16) :
    (polyFinish st).2 = natLE 16 (gfMul (polyAbsorb (leNat st.r) (leNat st.t) (pend st) ^^^ leNat st.len) (leNat st.r)) := by
  have hr := hI.2.2.2
  have ht := hI.1
  unfold polyFinish
  by_cases hf : st.filled ≠ 0
  · simp only [if_pos hf]
    have hfl := flush_val st hI hf
    show polyStep st.r (polyStep st.r st.t (st.block.take st.filled ++ zeros (16 - st.filled))) st.len = _
    have hx : (xorb (polyStep st.r st.t (st.block.take st.filled ++ zeros (16 - st.filled))) st.len).length = 16 := by
      rw [length_xorb, hfl.2.1, hl]; rfl
    unfold polyStep at hx ⊢
    rw [polyMul_eq _ _ hx hr, leNat_xorb _ _ (by rw [hl]; exact hfl.2.1)]
    have e := hfl.1
    unfold polyStep at e
    rw [e]
  · simp only [if_neg hf]
    have hf0 : st.filled = 0 := by omega
    have hp : pend st = [] := by unfold pend; rw [hf0]; rfl
    show polyStep st.r st.t st.len = _
    have hx : (xorb st.t st.len).length = 16 := by rw [length_xorb, ht, hl]; rfl
    unfold polyStep
    rw [polyMul_eq _ _ hx hr, leNat_xorb _ _ (by rw [hl]; exact ht), hp, polyAbsorb_nil _ _ [] rfl]

theorem polyFinish_phase (st : PolySt) (h : Nat) (I D : Bytes) (hP : PhaseIA st h I D) :
    (polyFinish st).2 = natLE 16 (gfMul (polyAbsorb (leNat st.r) (polyAbsorb (leNat st.r) h I) D
      ^^^ leNat (natLE 8 (8 * I.length) ++ natLE 8 (8 * D.length))) (leNat st.r)) := by
  unfold PhaseIA at hP
  by_cases hD0 : D.length = 0
  · rw [if_pos hD0] at hP
    rcases hP with ⟨hI, hl, hA⟩
    have hll : st.len.length = 16 := by
      rw [hl, List.length_append, Aead.length_natLE]; rfl
    rw [polyFinish_val st hI hll, hl, hD0, Nat.mul_zero, ← zeros8_eq, polyAbsorb_nil _ _ D hD0]
    have e := hA []
    rw [List.append_nil, List.append_nil] at e
    rw [e]
  · rw [if_neg hD0] at hP
    rcases hP with ⟨hI, hl, _, hA⟩
    have hll : st.len.length = 16 := by
      rw [hl, List.length_append, Aead.length_natLE, Aead.length_natLE]
    rw [polyFinish_val st hI hll, hl]
    have e := hA []
    rw [List.append_nil, List.append_nil] at e
    rw [e]

/-! ### runs of StepI / StepA calls -/

theorem foldl_polyStepI_phase (w : Nat) (h : Nat) : ∀ (ads : List Bytes) (st : PolySt) (D : Bytes),
    (D ++ ads.flatten).length < 2 ^ 64 → PhaseI st h D →
      PhaseI (ads.foldl (polyStepI w) st) h (D ++ ads.flatten) ∧ (ads.foldl (polyStepI w) st).r = st.r := by
  intro ads
  induction ads with
  | nil =>
    intro st D _ hP
    simp only [List.flatten_nil, List.append_nil, List.foldl_nil, and_true]
    exact hP
  | cons a ads ih =>
    intro st D hlen hP
    simp only [List.flatten_cons, List.foldl_cons, List.length_append] at hlen ⊢
    have h1 := polyStepI_phase w st h D a (by omega) hP
    have h2 := ih (polyStepI w st a) (D ++ a) (by simp only [List.length_append]; omega) h1.1
    rw [List.append_assoc] at h2
    exact ⟨h2.1, by rw [h2.2, h1.2]⟩

theorem foldl_polyStepA_phase (w : Nat) (h : Nat) (I : Bytes) : ∀ (cts : List Bytes) (st : PolySt) (D : Bytes),
    (D ++ cts.flatten).length < 2 ^ 61 → PhaseIA st h I D →
      PhaseIA (cts.foldl (polyStepA w) st) h I (D ++ cts.flatten) ∧ (cts.foldl (polyStepA w) st).r = st.r := by
  intro cts
  induction cts with
  | nil =>
    intro st D _ hP
    simp only [List.flatten_nil, List.append_nil, List.foldl_nil, and_true]
    exact hP
  | cons a cts ih =>
    intro st D hlen hP
    simp only [List.flatten_cons, List.foldl_cons, List.length_append] at hlen ⊢
    have h1 := polyStepA_phase w st h I D a (by omega) (by omega) hP
    have h2 := ih (polyStepA w st a) (D ++ a) (by simp only [List.length_append]; omega) h1.1
    rw [List.append_assoc] at h2
    exact ⟨h2.1, by rw [h2.2, h1.2]⟩

/-- the start state of the accumulator -/
theorem phase_start (r t1 : Bytes) (hr : r.length = 16) :
    PhaseI ⟨r, H.toList.take 16, t1, zeros 16, zeros 16, 0⟩ (leNat (H.toList.take 16)) [] := by
  have h1 : (H.toList.take 16).length = 16 := by decide
  have h2 : (zeros 16).length = 16 := by decide
  have h3 : zeros 16 = natLE 8 (8 * ([] : Bytes).length) ++ zeros 8 := by decide
  exact ⟨⟨h1, h2, by show 0 < 16; omega, hr⟩, h3, fun _ => rfl⟩

/-- Start; StepI on each fragment of `ads`; StepA on each fragment of `cts`; finish -/
theorem poly_run (w : Nat) (r t1 : Bytes) (hr : r.length = 16) (ads cts : List Bytes)
    (ha : ads.flatten.length < 2 ^ 64) (hc : cts.flatten.length < 2 ^ 61) :
    (polyFinish (cts.foldl (polyStepA w) (ads.foldl (polyStepI w)
        ⟨r, H.toList.take 16, t1, zeros 16, zeros 16, 0⟩))).2
      = natLE 16 (polyMac (leNat r) ads.flatten cts.flatten) := by
  have h0 := phase_start r t1 hr
  have h1 := foldl_polyStepI_phase w _ ads _ [] (by rw [List.nil_append]; exact ha) h0
  rw [List.nil_append] at h1
  have h1' : PhaseIA (ads.foldl (polyStepI w) ⟨r, H.toList.take 16, t1, zeros 16, zeros 16, 0⟩)
      (leNat (H.toList.take 16)) ads.flatten [] := by
    unfold PhaseIA; rw [if_pos (show ([] : Bytes).length = 0 from rfl)]; exact h1.1
  have h2 := foldl_polyStepA_phase w _ ads.flatten cts _ [] (by rw [List.nil_append]; exact hc) h1'
  rw [List.nil_append] at h2
  rw [polyFinish_phase _ _ _ _ h2.1, h2.2, h1.2]
  rfl

/-! ### DWP / CHE runs -/

theorem foldl_dwpStepI (w : Nat) : ∀ (ads : List Bytes) (st : DwpSt),
    (ads.foldl (dwpStepI w) st).p = ads.foldl (polyStepI w) st.p ∧ (ads.foldl (dwpStepI w) st).ctr = st.ctr := by
  intro ads
  induction ads with
  | nil => intro st; exact ⟨rfl, rfl⟩
  | cons a ads ih =>
    intro st
    simp only [List.foldl_cons]
    have := ih (dwpStepI w st a)
    exact ⟨this.1, this.2⟩

theorem foldl_dwpStepA (w : Nat) : ∀ (cts : List Bytes) (st : DwpSt),
    (cts.foldl (dwpStepA w) st).p = cts.foldl (polyStepA w) st.p ∧ (cts.foldl (dwpStepA w) st).ctr = st.ctr := by
  intro cts
  induction cts with
  | nil => intro st; exact ⟨rfl, rfl⟩
  | cons a cts ih =>
    intro st
    simp only [List.foldl_cons]
    have := ih (dwpStepA w st a)
    exact ⟨this.1, this.2⟩

theorem foldl_cheStepI (w : Nat) : ∀ (ads : List Bytes) (st : CheSt),
    (ads.foldl (cheStepI w) st).p = ads.foldl (polyStepI w) st.p ∧ (ads.foldl (cheStepI w) st).key = st.key := by
  intro ads
  induction ads with
  | nil => intro st; exact ⟨rfl, rfl⟩
  | cons a ads ih =>
    intro st
    simp only [List.foldl_cons]
    have := ih (cheStepI w st a)
    exact ⟨this.1, this.2⟩

theorem foldl_cheStepA (w : Nat) : ∀ (cts : List Bytes) (st : CheSt),
    (cts.foldl (cheStepA w) st).p = cts.foldl (polyStepA w) st.p ∧ (cts.foldl (cheStepA w) st).key = st.key := by
  intro cts
  induction cts with
  | nil => intro st; exact ⟨rfl, rfl⟩
  | cons a cts ih =>
    intro st
    simp only [List.foldl_cons]
    have := ih (cheStepA w st a)
    exact ⟨this.1, this.2⟩

theorem dwp_run (C : Cipher) (hlen : ∀ k x, x.length = 16 → (C.enc k x).length = 16) (w : Nat)
    (cts ads : List Bytes) (key iv : Bytes) (hiv : iv.length = 16)
    (ha : ads.flatten.length < 2 ^ 64) (hc : cts.flatten.length < 2 ^ 61) :
    (dwpStepG C (cts.foldl (dwpStepA w) (ads.foldl (dwpStepI w) (dwpStart C key iv)))).2 =
      (C.enc (fmtKey key) (natLE 16 (polyMac (leNat (C.enc (fmtKey key) (C.enc (fmtKey key) iv)))
        ads.flatten cts.flatten))).take 8 := by
  rw [dwpStepG_tag, (foldl_dwpStepA w cts _).1, (foldl_dwpStepA w cts _).2, (foldl_dwpStepI w ads _).1,
    (foldl_dwpStepI w ads _).2]
  have hr : (C.enc (fmtKey key) (C.enc (fmtKey key) iv)).length = 16 := hlen _ _ (hlen _ _ hiv)
  have := poly_run w (C.enc (fmtKey key) (C.enc (fmtKey key) iv)) (zeros 16) hr ads cts ha hc
  show (C.enc (fmtKey key) (polyFinish (cts.foldl (polyStepA w) (ads.foldl (polyStepI w)
    ⟨C.enc (fmtKey key) (C.enc (fmtKey key) iv), H.toList.take 16, zeros 16, zeros 16, zeros 16, 0⟩))).2).take 8 = _
  rw [this]

theorem che_run (C : Cipher) (hlen : ∀ k x, x.length = 16 → (C.enc k x).length = 16) (w : Nat)
    (cts ads : List Bytes) (key iv : Bytes) (hiv : iv.length = 16)
    (ha : ads.flatten.length < 2 ^ 64) (hc : cts.flatten.length < 2 ^ 61) :
    (cheStepG C (cts.foldl (cheStepA w) (ads.foldl (cheStepI w) (cheStart C key iv)))).2 =
      (C.enc (fmtKey key) (natLE 16 (polyMac (leNat (C.enc (fmtKey key) iv)) ads.flatten cts.flatten))).take 8 := by
  rw [cheStepG_tag, (foldl_cheStepA w cts _).1, (foldl_cheStepA w cts _).2, (foldl_cheStepI w ads _).1,
    (foldl_cheStepI w ads _).2]
  have hr : (C.enc (fmtKey key) iv).length = 16 := hlen _ _ hiv
  have := poly_run w (C.enc (fmtKey key) iv) (zeros 16) hr ads cts ha hc
  show (C.enc (fmtKey key) (polyFinish (cts.foldl (polyStepA w) (ads.foldl (polyStepI w)
    ⟨C.enc (fmtKey key) iv, H.toList.take 16, zeros 16, zeros 16, zeros 16, 0⟩))).2).take 8 = _
  rw [this]

/-! ### beltBlockMulC -/

/-- multiplication by x in GF(2^128) -/
theorem gfMul_two (v : Nat) (hv : v < 2 ^ 128) :
    gfMul v 2 = (2 * v % 2 ^ 128) ^^^ (if v < 2 ^ 127 then 0 else 0x87) := by
  unfold gfMul
  rw [Bee2V.C05.Pp.clmul_two]
  by_cases h : v < 2 ^ 127
  · rw [if_pos h, Nat.xor_zero, Nat.mod_eq_of_lt (by omega)]
    exact Bee2V.C05.Pp.pmod_of_lt beltP_ne (by rw [beltP_log2]; omega)
  · rw [if_neg h]
    have hm : 2 * v % 2 ^ 128 < 2 ^ 128 := Nat.mod_lt _ (Nat.two_pow_pos _)
    have e1 : 2 * v = 2 * v % 2 ^ 128 + 2 ^ 128 * 1 := by omega
    have e2 : beltP = 0x87 + 2 ^ 128 * 1 := by decide
    have hx : 2 * v ^^^ beltP = (2 * v % 2 ^ 128) ^^^ 0x87 := by
      conv => lhs; rw [e1, e2]
      rw [xor_limb 128 _ 1 0x87 1 hm (by decide), Nat.xor_self, Nat.mul_zero, Nat.add_zero]
    have hlt : (2 * v % 2 ^ 128) ^^^ 0x87 < 2 ^ 128 := Nat.xor_lt_two_pow hm (by decide)
    have hc : Bee2V.C05.Pp.Cong beltP (2 * v) ((2 * v % 2 ^ 128) ^^^ 0x87) := by
      refine ⟨1, ?_⟩
      rw [← hx, ← Nat.xor_assoc, Nat.xor_self, Nat.zero_xor, Bee2V.C05.Pp.one_clmul]
    rw [Bee2V.C05.Pp.pmod_cong beltP_ne hc]
    exact Bee2V.C05.Pp.pmod_of_lt beltP_ne (by rw [beltP_log2]; exact hlt)

theorem u32_shl1 (w : UInt32) : (w <<< 1).toNat = 2 * w.toNat % 2 ^ 32 := by
  rw [UInt32.toNat_shiftLeft]
  have h : (1 : UInt32).toNat % 32 = 1 := by decide
  rw [h, Nat.shiftLeft_eq]
  omega

theorem u32_shr31 (w : UInt32) : (w >>> 31).toNat = w.toNat / 2 ^ 31 := by
  rw [UInt32.toNat_shiftRight]
  have h : (31 : UInt32).toNat % 32 = 31 := by decide
  rw [h, Nat.shiftRight_eq_div_pow]

theorem even_xor_bit (x c : Nat) (hx : x % 2 = 0) (hc : c < 2) : x ^^^ c = x + c := by
  have h := Bee2V.C05.Pp.bit_decomp (x + c)
  have h1 : 2 * ((x + c) / 2) = x := by omega
  have h2 : (x + c) % 2 = c := by omega
  rw [h1, h2] at h
  exact h

theorem u32_shl_carry (w v : UInt32) : ((w <<< 1) ^^^ (v >>> 31)).toNat = 2 * w.toNat % 2 ^ 32 + v.toNat / 2 ^ 31 := by
  have := v.toNat_lt
  rw [UInt32.toNat_xor, u32_shl1, u32_shr31]
  exact even_xor_bit _ _ (by omega) (by omega)

theorem mulC_mask (w3 : UInt32) :
    (~~~((w3 >>> 31) - 1) &&& 0x00000087).toNat = if w3.toNat < 2 ^ 31 then 0 else 0x87 := by
  have hlt := w3.toNat_lt
  have hs := u32_shr31 w3
  by_cases h : w3.toNat < 2 ^ 31
  · have e : w3 >>> 31 = 0 := UInt32.toNat_inj.mp (by rw [hs, Nat.div_eq_of_lt h]; rfl)
    rw [e, if_pos h]; decide
  · have e : w3 >>> 31 = 1 := UInt32.toNat_inj.mp (by rw [hs]; show w3.toNat / 2 ^ 31 = 1; omega)
    rw [e, if_neg h]; decide

theorem mulCW_val (w0 w1 w2 w3 : UInt32) :
    u32Val (mulCW [w0, w1, w2, w3]) = gfMul (u32Val [w0, w1, w2, w3]) 2 ∧ (mulCW [w0, w1, w2, w3]).length = 4 := by
  refine ⟨?_, rfl⟩
  have h0 := w0.toNat_lt; have h1 := w1.toNat_lt; have h2 := w2.toNat_lt; have h3 := w3.toNat_lt
  simp only [mulCW, u32Val, u32_shl_carry, Nat.mul_zero, Nat.add_zero]
  have hv : w0.toNat + 2 ^ 32 * (w1.toNat + 2 ^ 32 * (w2.toNat + 2 ^ 32 * w3.toNat)) < 2 ^ 128 := by omega
  rw [gfMul_two _ hv]
  simp only [UInt32.toNat_xor, u32_shl1, mulC_mask]
  have hA : 2 * w0.toNat % 2 ^ 32 < 2 ^ 32 := Nat.mod_lt _ (Nat.two_pow_pos _)
  have ht : (if w3.toNat < 2 ^ 31 then 0 else 0x87) < 2 ^ 32 := by split <;> decide
  have e := xor_limb 32 (2 * w0.toNat % 2 ^ 32)
    (2 * w1.toNat % 2 ^ 32 + w0.toNat / 2 ^ 31 + 2 ^ 32 * (2 * w2.toNat % 2 ^ 32 + w1.toNat / 2 ^ 31
      + 2 ^ 32 * (2 * w3.toNat % 2 ^ 32 + w2.toNat / 2 ^ 31)))
    (if w3.toNat < 2 ^ 31 then 0 else 0x87) 0 hA ht
  rw [Nat.xor_zero, Nat.mul_zero, Nat.add_zero] at e
  rw [← e]
  have hc : (w0.toNat + 2 ^ 32 * (w1.toNat + 2 ^ 32 * (w2.toNat + 2 ^ 32 * w3.toNat)) < 2 ^ 127) ↔ w3.toNat < 2 ^ 31 := by
    omega
  simp only [hc]
  congr 1
  omega

theorem mulC_val (b : Bytes) (h : b.length = 16) : leNat (mulC b) = gfMul (leNat b) 2 ∧ (mulC b).length = 16 := by
  rcases u32From_16 b h with ⟨w0, w1, w2, w3, hw⟩
  refine ⟨?_, length_mulC b h⟩
  rw [mulC, leNat_u32To, hw, (mulCW_val w0 w1 w2 w3).1, ← hw, u32Val_u32From b h]

theorem cheNextS_val (s : Bytes) (h : s.length = 16) :
    leNat (cheNextS s) = gfMul (leNat s) 2 ^^^ 1 ∧ (cheNextS s).length = 16 := by
  refine ⟨?_, length_cheNextS s h⟩
  have hm := mulC_val s h
  unfold cheNextS
  cases hc : mulC s with
  | nil => rw [hc] at hm; simp only [List.length_nil] at hm; omega
  | cons b0 rest =>
    rw [hc] at hm
    simp only [leNat] at hm ⊢
    rw [← hm.1, UInt8.toNat_xor]
    have e := xor_limb 8 b0.toNat (leNat rest) 1 0 b0.toNat_lt (by decide)
    rw [Nat.xor_zero, Nat.mul_zero, Nat.add_zero] at e
    simp only [Nat.reducePow] at e
    have e1 : (1 : UInt8).toNat = 1 := rfl
    rw [e1, e]

theorem mulC_iterate (s : Bytes) (h : s.length = 16) (i : Nat) :
    leNat (Nat.iterate mulC i s) = Nat.iterate (fun v => gfMul v 2) i (leNat s) ∧ (Nat.iterate mulC i s).length = 16 := by
  induction i generalizing s with
  | zero => exact ⟨rfl, h⟩
  | succ i ih =>
    have hm := mulC_val s h
    have := ih (mulC s) hm.2
    simp only [Nat.iterate]
    rw [← hm.1]
    exact this

end Bee2V.C01.TagL

/-
C01 helper lemmas for the stream-like modes CFB, CTR, BDE (belt_cfb.c, belt_ctr.c, belt_bde.c):
xor of buffers, the `while (count >= 16)` loop, the counter increment.
-/
import Bee2V.C01.Model.Modes
import Bee2V.C01.Lemmas.Bytes
namespace Bee2V.C01

/-! ### xor of buffers -/

theorem length_xorb (a b : Bytes) : (xorb a b).length = min a.length b.length := by
  simp [xorb]

theorem xorb_nil_left (b : Bytes) : xorb [] b = [] := by simp [xorb]
theorem xorb_nil_right (a : Bytes) : xorb a [] = [] := by simp [xorb]

theorem xorb_comm (a b : Bytes) : xorb a b = xorb b a := by
  unfold xorb
  induction a generalizing b with
  | nil => cases b <;> simp
  | cons x xs ih =>
    cases b with
    | nil => simp
    | cons y ys => simp only [List.zipWith_cons_cons, UInt8.xor_comm x y, ih ys]

/-- `(a ^ b) ^ b = a` when `b` covers `a` -/
theorem xorb_cancel_right (a b : Bytes) (h : a.length ≤ b.length) : xorb (xorb a b) b = a := by
  unfold xorb
  induction a generalizing b with
  | nil => simp
  | cons x xs ih =>
    cases b with
    | nil => simp at h
    | cons y ys =>
      simp only [List.length_cons] at h
      simp only [List.zipWith_cons_cons, UInt8.xor_assoc, UInt8.xor_self, UInt8.xor_zero, ih ys (by omega)]

/-- `(g ^ b) ^ g = b` when `g` covers `b` -/
theorem xorb_cancel_mid (g b : Bytes) (h : b.length ≤ g.length) : xorb (xorb g b) g = b := by
  rw [xorb_comm g b]; exact xorb_cancel_right b g h

/-- `g ^ (b ^ g) = b` when `g` covers `b` -/
theorem xorb_cancel_left (g b : Bytes) (h : b.length ≤ g.length) : xorb g (xorb b g) = b := by
  rw [xorb_comm g]; exact xorb_cancel_right b g h

/-- `g ^ (g ^ b) = b` when `g` covers `b` -/
theorem xorb_cancel_left' (g b : Bytes) (h : b.length ≤ g.length) : xorb g (xorb g b) = b := by
  rw [xorb_comm g b]; exact xorb_cancel_left g b h

/-- xor with a key stream longer than the data only uses its prefix -/
theorem xorb_take_right (a g : Bytes) : xorb a (g.take a.length) = xorb a g := by
  unfold xorb
  induction a generalizing g with
  | nil => simp
  | cons x xs ih =>
    cases g with
    | nil => simp
    | cons y ys => simp only [List.length_cons, List.take_succ_cons, List.zipWith_cons_cons, ih ys]

theorem take_append_len (a b : Bytes) (n : Nat) (h : a.length = n) : (a ++ b).take n = a := by
  subst h; simp

theorem drop_append_len (a b : Bytes) (n : Nat) (h : a.length = n) : (a ++ b).drop n = b := by
  subst h; simp

/-! ### the loop `while (count >= bs)` -/

theorem blockLoop_fuel {σ : Type} (bs : Nat) (hbs : 0 < bs) (body : σ → Bytes → σ × Bytes) :
    ∀ (f1 f2 : Nat) (s : σ) (rest : Bytes), rest.length ≤ f1 → rest.length ≤ f2 →
      blockLoop bs (fun n => decide (bs ≤ n)) body f1 s rest =
      blockLoop bs (fun n => decide (bs ≤ n)) body f2 s rest := by
  intro f1
  induction f1 with
  | zero =>
    intro f2 s rest h1 h2
    cases f2 with
    | zero => rfl
    | succ f2 =>
      simp only [blockLoop]
      rw [if_neg]
      simp only [decide_eq_true_eq]; omega
  | succ f1 ih =>
    intro f2 s rest h1 h2
    cases f2 with
    | zero =>
      simp only [blockLoop]
      rw [if_neg]
      simp only [decide_eq_true_eq]; omega
    | succ f2 =>
      simp only [blockLoop]
      split
      · rename_i hc
        simp only [decide_eq_true_eq] at hc
        rw [ih f2 _ _ (by simp only [List.length_drop]; omega) (by simp only [List.length_drop]; omega)]
      · rfl

theorem fullBlocks_lt {σ : Type} (bs : Nat) (body : σ → Bytes → σ × Bytes) (s : σ) (buf : Bytes)
    (h : buf.length < bs) : fullBlocks bs body s buf = (s, [], buf) := by
  unfold fullBlocks
  cases hn : buf.length with
  | zero => rfl
  | succ n =>
    simp only [blockLoop]
    rw [if_neg]
    simp only [decide_eq_true_eq]; omega

theorem fullBlocks_ge {σ : Type} (bs : Nat) (hbs : 0 < bs) (body : σ → Bytes → σ × Bytes) (s : σ) (buf : Bytes)
    (h : bs ≤ buf.length) :
    fullBlocks bs body s buf =
      ((fullBlocks bs body (body s (buf.take bs)).1 (buf.drop bs)).1,
       (body s (buf.take bs)).2 ++ (fullBlocks bs body (body s (buf.take bs)).1 (buf.drop bs)).2.1,
       (fullBlocks bs body (body s (buf.take bs)).1 (buf.drop bs)).2.2) := by
  unfold fullBlocks
  cases hn : buf.length with
  | zero => omega
  | succ n =>
    simp only [blockLoop]
    rw [if_pos (by simp only [decide_eq_true_eq]; omega)]
    rw [blockLoop_fuel bs hbs body n (buf.drop bs).length _ _ (by simp only [List.length_drop]; omega) (Nat.le_refl _)]

/-- lengths of the processed part and of the ragged tail, under a state invariant `I` that makes every
iteration return `bs` octets -/
theorem fullBlocks_lengths {σ : Type} (bs : Nat) (hbs : 0 < bs) (f : σ → Bytes → σ × Bytes) (I : σ → Prop)
    (hI : ∀ s b, I s → b.length = bs → I (f s b).1 ∧ (f s b).2.length = bs) :
    ∀ (n : Nat) (buf : Bytes) (s : σ), buf.length ≤ n → I s →
      I (fullBlocks bs f s buf).1 ∧
      (fullBlocks bs f s buf).2.1.length + (fullBlocks bs f s buf).2.2.length = buf.length ∧
      (fullBlocks bs f s buf).2.2.length < bs ∧
      (bs ≤ buf.length → bs ≤ (fullBlocks bs f s buf).2.1.length) := by
  intro n
  induction n with
  | zero =>
    intro buf s hn hs
    rw [fullBlocks_lt bs f s buf (by omega)]
    exact ⟨hs, by simp, by simp only []; omega, by omega⟩
  | succ n ih =>
    intro buf s hn hs
    by_cases hlt : buf.length < bs
    · rw [fullBlocks_lt bs f s buf hlt]
      exact ⟨hs, by simp, hlt, by omega⟩
    · rw [fullBlocks_ge bs hbs f s buf (by omega)]
      have hb : (buf.take bs).length = bs := by simp only [List.length_take]; omega
      obtain ⟨h1, h2⟩ := hI s (buf.take bs) hs hb
      obtain ⟨i1, i2, i3, _⟩ := ih (buf.drop bs) (f s (buf.take bs)).1 (by simp only [List.length_drop]; omega) h1
      refine ⟨i1, ?_, i3, ?_⟩
      · simp only [List.length_append, List.length_drop] at i2 ⊢; omega
      · intro _; simp only [List.length_append]; omega

/-- round trip of two `while (count >= bs)` loops: if one iteration of `g` undoes one iteration of `f`
and keeps the two states related by `R`, then `g` over the output of `f` (with any replaced tail)
returns the input blocks, leaves the tail untouched and ends in related states -/
theorem fullBlocks_roundtrip {σ τ : Type} (bs : Nat) (hbs : 0 < bs) (f : σ → Bytes → σ × Bytes)
    (g : τ → Bytes → τ × Bytes) (R : σ → τ → Prop)
    (hstep : ∀ s t b, R s t → b.length = bs →
      (f s b).2.length = bs ∧ (g t (f s b).2).2 = b ∧ R (f s b).1 (g t (f s b).2).1) :
    ∀ (n : Nat) (buf : Bytes) (s : σ) (t : τ) (tail' : Bytes), buf.length ≤ n → R s t → tail'.length < bs →
      (fullBlocks bs g t ((fullBlocks bs f s buf).2.1 ++ tail')).2.1 ++ (fullBlocks bs f s buf).2.2 = buf ∧
      (fullBlocks bs g t ((fullBlocks bs f s buf).2.1 ++ tail')).2.2 = tail' ∧
      R (fullBlocks bs f s buf).1 (fullBlocks bs g t ((fullBlocks bs f s buf).2.1 ++ tail')).1 := by
  intro n
  induction n with
  | zero =>
    intro buf s t tail' hn hR ht
    rw [fullBlocks_lt bs f s buf (by omega)]
    simp only [List.nil_append]
    rw [fullBlocks_lt bs g t tail' ht]
    exact ⟨by simp, rfl, hR⟩
  | succ n ih =>
    intro buf s t tail' hn hR ht
    by_cases hlt : buf.length < bs
    · rw [fullBlocks_lt bs f s buf hlt]
      simp only [List.nil_append]
      rw [fullBlocks_lt bs g t tail' ht]
      exact ⟨by simp, rfl, hR⟩
    · rw [fullBlocks_ge bs hbs f s buf (by omega)]
      have hb : (buf.take bs).length = bs := by simp only [List.length_take]; omega
      obtain ⟨h1, h2, h3⟩ := hstep s t (buf.take bs) hR hb
      obtain ⟨i1, i2, i3⟩ := ih (buf.drop bs) (f s (buf.take bs)).1 (g t (f s (buf.take bs)).2).1 tail'
        (by simp only [List.length_drop]; omega) h3 ht
      simp only [List.append_assoc]
      have htk : ((f s (buf.take bs)).2 ++ ((fullBlocks bs f (f s (buf.take bs)).1 (buf.drop bs)).2.1 ++ tail')).take bs
          = (f s (buf.take bs)).2 := by
        exact take_append_len _ _ _ h1
      have hdr : ((f s (buf.take bs)).2 ++ ((fullBlocks bs f (f s (buf.take bs)).1 (buf.drop bs)).2.1 ++ tail')).drop bs
          = (fullBlocks bs f (f s (buf.take bs)).1 (buf.drop bs)).2.1 ++ tail' := by
        exact drop_append_len _ _ _ h1
      rw [fullBlocks_ge bs hbs g t _ (by simp only [List.length_append]; omega)]
      rw [htk, hdr]
      refine ⟨?_, i2, i3⟩
      simp only [h2, List.append_assoc, i1, List.take_append_drop]

/-! ### the counter of CTR -/

/-- value of a little-endian array of u32 words -/
def wordsNat : List UInt32 → Nat
  | [] => 0
  | w :: ws => w.toNat + 4294967296 * wordsNat ws

theorem leNat_st32_append (w : UInt32) (rest : Bytes) :
    leNat (st32 w ++ rest) = w.toNat + 4294967296 * leNat rest := by
  have := w.toNat_lt
  simp only [st32, List.cons_append, List.nil_append, leNat, UInt8.toNat_ofNat']
  omega

theorem leNat_u32To (ws : List UInt32) : leNat (u32To ws) = wordsNat ws := by
  induction ws with
  | nil => rfl
  | cons w ws ih => simp only [u32To, leNat_st32_append, ih, wordsNat]

theorem leNat_eq_wordsNat_16 (b : Bytes) (h : b.length = 16) : leNat b = wordsNat (u32From b) := by
  rw [← leNat_u32To, u32To_u32From_16 b h]

theorem u32_succ_eq_zero (w : UInt32) (h : (w + 1 == 0) = true) : w.toNat = 4294967295 := by
  have h1 : w + 1 = 0 := eq_of_beq h
  have h2 := congrArg UInt32.toNat h1
  have := w.toNat_lt
  simp only [UInt32.toNat_add, UInt32.toNat_one, UInt32.toNat_zero] at h2
  omega

theorem u32_succ_ne_zero (w : UInt32) (h : ¬ (w + 1 == 0) = true) : (w + 1).toNat = w.toNat + 1 := by
  have h1 : w + 1 ≠ 0 := fun e => h (by rw [e]; rfl)
  have h2 : (w + 1).toNat ≠ 0 := fun e => h1 (UInt32.toNat_inj.mp (by rw [e]; rfl))
  have := w.toNat_lt
  simp only [UInt32.toNat_add, UInt32.toNat_one] at h2 ⊢
  omega

theorem u32_succ_toNat (w : UInt32) : (w + 1).toNat = (w.toNat + 1) % 4294967296 := by
  simp only [UInt32.toNat_add, UInt32.toNat_one]

/-- the short-circuit carry chain of `beltBlockIncU32` is the increment modulo 2^128 -/
theorem wordsNat_incU32 (w0 w1 w2 w3 : UInt32) :
    wordsNat (incU32 [w0, w1, w2, w3]) = (wordsNat [w0, w1, w2, w3] + 1) % 2 ^ 128 := by
  have h0 := w0.toNat_lt; have h1 := w1.toNat_lt; have h2 := w2.toNat_lt; have h3 := w3.toNat_lt
  simp only [incU32]
  split
  · rename_i c0
    have e0 := u32_succ_eq_zero w0 c0
    have z0 : (w0 + 1).toNat = 0 := by rw [eq_of_beq c0]; rfl
    split
    · rename_i c1
      have e1 := u32_succ_eq_zero w1 c1
      have z1 : (w1 + 1).toNat = 0 := by rw [eq_of_beq c1]; rfl
      split
      · rename_i c2
        have e2 := u32_succ_eq_zero w2 c2
        have z2 : (w2 + 1).toNat = 0 := by rw [eq_of_beq c2]; rfl
        have s3 := u32_succ_toNat w3
        simp only [wordsNat, z0, z1, z2, s3]
        omega
      · rename_i c2
        have s2 := u32_succ_ne_zero w2 c2
        have := (w2 + 1).toNat_lt
        simp only [wordsNat, z0, z1, s2]
        omega
    · rename_i c1
      have s1 := u32_succ_ne_zero w1 c1
      have := (w1 + 1).toNat_lt
      simp only [wordsNat, z0, s1]
      omega
  · rename_i c0
    have s0 := u32_succ_ne_zero w0 c0
    have := (w0 + 1).toNat_lt
    simp only [wordsNat, s0]
    omega

theorem length_incU32 (w0 w1 w2 w3 : UInt32) : (incU32 [w0, w1, w2, w3]).length = 4 := by
  simp only [incU32]
  repeat' split
  all_goals rfl

theorem length_incBlock (b : Bytes) (h : b.length = 16) : (incBlock b).length = 16 := by
  obtain ⟨w0, w1, w2, w3, hw⟩ := u32From_16 b h
  simp only [incBlock, hw, length_u32To, length_incU32]

theorem leNat_incBlock (b : Bytes) (h : b.length = 16) : leNat (incBlock b) = (leNat b + 1) % 2 ^ 128 := by
  obtain ⟨w0, w1, w2, w3, hw⟩ := u32From_16 b h
  rw [leNat_eq_wordsNat_16 b h]
  simp only [incBlock, hw, leNat_u32To, wordsNat_incU32]

theorem natLE_leNat (b : Bytes) : natLE b.length (leNat b) = b := by
  induction b with
  | nil => rfl
  | cons x xs ih =>
    have hx := x.toNat_lt
    simp only [List.length_cons, natLE, leNat]
    rw [u8_ofNat_eq _ x (by omega)]
    rw [show (x.toNat + 256 * leNat xs) / 256 = leNat xs by omega, ih]

theorem natLE_leNat_16 (b : Bytes) (h : b.length = 16) : natLE 16 (leNat b) = b := by
  rw [← h]; exact natLE_leNat b

theorem leNat_lt (b : Bytes) : leNat b < 256 ^ b.length := by
  induction b with
  | nil => simp [leNat]
  | cons x xs ih =>
    have hx := x.toNat_lt
    simp only [List.length_cons, leNat, Nat.pow_succ]
    omega

/-! ### mulC -/

theorem length_mulC (b : Bytes) (h : b.length = 16) : (mulC b).length = 16 := by
  obtain ⟨w0, w1, w2, w3, hw⟩ := u32From_16 b h
  simp only [mulC, hw, mulCW, length_u32To, List.length_cons, List.length_nil]

/-! ### CTR -/

/-- one iteration of the `while (count >= 16)` loop of `beltCTRStepE` on the state (ctr, block) -/
def ctrBody (C : Cipher) (key : Bytes) : Bytes × Bytes → Bytes → (Bytes × Bytes) × Bytes :=
  fun s b => ((incBlock s.1, C.enc key (incBlock s.1)), xorb b (C.enc key (incBlock s.1)))

/-- `beltCTRStepE` after the reserve of the key stream has been used up -/
def ctrMain (C : Cipher) (st : CtrSt) (buf : Bytes) : CtrSt × Bytes :=
  let l := fullBlocks 16 (ctrBody C st.key) (st.ctr, st.block) buf
  if l.2.2.length ≠ 0 then
    ({ st with ctr := incBlock l.1.1, block := C.enc st.key (incBlock l.1.1), reserved := 16 - l.2.2.length },
      l.2.1 ++ xorb l.2.2 ((C.enc st.key (incBlock l.1.1)).take l.2.2.length))
  else ({ st with ctr := l.1.1, block := l.1.2, reserved := 0 }, l.2.1)

theorem ctrStepE_main (C : Cipher) (st : CtrSt) (buf : Bytes) (hb : st.block.length = 16)
    (h : ¬ (st.reserved ≠ 0 ∧ st.reserved ≥ buf.length)) :
    ctrStepE C st buf = ((ctrMain C st (buf.drop st.reserved)).1,
      xorb (buf.take st.reserved) (st.block.drop (16 - st.reserved)) ++ (ctrMain C st (buf.drop st.reserved)).2) := by
  unfold ctrStepE ctrMain ctrBody
  rw [if_neg h]
  by_cases hr : st.reserved = 0
  · simp only [hr, ne_eq, not_true_eq_false, if_false, List.take_zero, xorb_nil_left, List.drop_zero, List.nil_append]
  · simp only [hr, ne_eq, not_false_eq_true, if_true]
    split <;> simp only [List.append_assoc]

end Bee2V.C01

/-
C01 helper lemmas for the stream-like modes CFB, CTR, BDE (belt_cfb.c, belt_ctr.c, belt_bde.c):
xor of buffers, the `while (count >= 16)` loop, the counter increment.
-/
import Bee2V.C01.Model.Modes
import Bee2V.C01.Lemmas.Bytes
namespace Bee2V.C01.Stream

/-! ### xor of buffers -/

theorem length_xorb (a b : Bytes) : (xorb a b).length = min a.length b.length := by
  simp [xorb]

theorem xorb_nil_left (b : Bytes) : xorb [] b = [] := by simp [xorb]
theorem xorb_nil_right (a : Bytes) : xorb a [] = [] := by simp [xorb]

theorem xorb_comm (a b : Bytes) : xorb a b = xorb b a := by
  unfold xorb
  induction a generalizing b with
  | nil => cases b <;> simp
  | cons x xs ih =>
    cases b with
    | nil => simp
    | cons y ys => simp only [List.zipWith_cons_cons, UInt8.xor_comm x y, ih ys]

/-- `(a ^ b) ^ b = a` when `b` covers `a` -/
theorem xorb_cancel_right (a b : Bytes) (h : a.length ≤ b.length) : xorb (xorb a b) b = a := by
  unfold xorb
  induction a generalizing b with
  | nil => simp
  | cons x xs ih =>
    cases b with
    | nil => simp at h
    | cons y ys =>
      simp only [List.length_cons] at h
      simp only [List.zipWith_cons_cons, UInt8.xor_assoc, UInt8.xor_self, UInt8.xor_zero, ih ys (by omega)]

/-- `(g ^ b) ^ g = b` when `g` covers `b` -/
theorem xorb_cancel_mid (g b : Bytes) (h : b.length ≤ g.length) : xorb (xorb g b) g = b := by
  rw [xorb_comm g b]; exact xorb_cancel_right b g h

/-- `g ^ (b ^ g) = b` when `g` covers `b` -/
theorem xorb_cancel_left (g b : Bytes) (h : b.length ≤ g.length) : xorb g (xorb b g) = b := by
  rw [xorb_comm g]; exact xorb_cancel_right b g h

/-- `g ^ (g ^ b) = b` when `g` covers `b` -/
theorem xorb_cancel_left' (g b : Bytes) (h : b.length ≤ g.length) : xorb g (xorb g b) = b := by
  rw [xorb_comm g b]; exact xorb_cancel_left g b h

/-- xor with a key stream longer than the data only uses its prefix -/
theorem xorb_take_right (a g : Bytes) : xorb a (g.take a.length) = xorb a g := by
  unfold xorb
  induction a generalizing g with
  | nil => simp
  | cons x xs ih =>
    cases g with
    | nil => simp
    | cons y ys => simp only [List.length_cons, List.take_succ_cons, List.zipWith_cons_cons, ih ys]

theorem take_append_len (a b : Bytes) (n : Nat) (h : a.length = n) : (a ++ b).take n = a := by
  subst h; simp

theorem drop_append_len (a b : Bytes) (n : Nat) (h : a.length = n) : (a ++ b).drop n = b := by
  subst h; simp

/-! ### the loop `while (count >= bs)` -/

theorem blockLoop_fuel {σ : Type} (bs : Nat) (hbs : 0 < bs) (body : σ → Bytes → σ × Bytes) :
    ∀ (f1 f2 : Nat) (s : σ) (rest : Bytes), rest.length ≤ f1 → rest.length ≤ f2 →
      blockLoop bs (fun n => decide (bs ≤ n)) body f1 s rest =
      blockLoop bs (fun n => decide (bs ≤ n)) body f2 s rest := by
  intro f1
  induction f1 with
  | zero =>
    intro f2 s rest h1 h2
    cases f2 with
    | zero => rfl
    | succ f2 =>
      simp only [blockLoop]
      rw [if_neg]
      simp only [decide_eq_true_eq]; omega
  | succ f1 ih =>
    intro f2 s rest h1 h2
    cases f2 with
    | zero =>
      simp only [blockLoop]
      rw [if_neg]
      simp only [decide_eq_true_eq]; omega
    | succ f2 =>
      simp only [blockLoop]
      split
      · rename_i hc
        simp only [decide_eq_true_eq] at hc
        rw [ih f2 _ _ (by simp only [List.length_drop]; omega) (by simp only [List.length_drop]; omega)]
      · rfl

theorem fullBlocks_lt {σ : Type} (bs : Nat) (body : σ → Bytes → σ × Bytes) (s : σ) (buf : Bytes)
    (h : buf.length < bs) : fullBlocks bs body s buf = (s, [], buf) := by
  unfold fullBlocks
  cases hn : buf.length with
  | zero => rfl
  | succ n =>
    simp only [blockLoop]
    rw [if_neg]
    simp only [decide_eq_true_eq]; omega

theorem fullBlocks_ge {σ : Type} (bs : Nat) (hbs : 0 < bs) (body : σ → Bytes → σ × Bytes) (s : σ) (buf : Bytes)
    (h : bs ≤ buf.length) :
    fullBlocks bs body s buf =
      ((fullBlocks bs body (body s (buf.take bs)).1 (buf.drop bs)).1,
       (body s (buf.take bs)).2 ++ (fullBlocks bs body (body s (buf.take bs)).1 (buf.drop bs)).2.1,
       (fullBlocks bs body (body s (buf.take bs)).1 (buf.drop bs)).2.2) := by
  unfold fullBlocks
  cases hn : buf.length with
  | zero => omega
  | succ n =>
    simp only [blockLoop]
    rw [if_pos (by simp only [decide_eq_true_eq]; omega)]
    rw [blockLoop_fuel bs hbs body n (buf.drop bs).length _ _ (by simp only [List.length_drop]; omega) (Nat.le_refl _)]

/-- lengths of the processed part and of the ragged tail, under a state invariant `I` that makes every
iteration return `bs` octets -/
theorem fullBlocks_lengths {σ : Type} (bs : Nat) (hbs : 0 < bs) (f : σ → Bytes → σ × Bytes) (I : σ → Prop)
    (hI : ∀ s b, I s → b.length = bs → I (f s b).1 ∧ (f s b).2.length = bs) :
    ∀ (n : Nat) (buf : Bytes) (s : σ), buf.length ≤ n → I s →
      I (fullBlocks bs f s buf).1 ∧
      (fullBlocks bs f s buf).2.1.length + (fullBlocks bs f s buf).2.2.length = buf.length ∧
      (fullBlocks bs f s buf).2.2.length < bs ∧
      (bs ≤ buf.length → bs ≤ (fullBlocks bs f s buf).2.1.length) := by
  intro n
  induction n with
  | zero =>
    intro buf s hn hs
    rw [fullBlocks_lt bs f s buf (by omega)]
    exact ⟨hs, by simp, by simp only []; omega, by omega⟩
  | succ n ih =>
    intro buf s hn hs
    by_cases hlt : buf.length < bs
    · rw [fullBlocks_lt bs f s buf hlt]
      exact ⟨hs, by simp, hlt, by omega⟩
    · rw [fullBlocks_ge bs hbs f s buf (by omega)]
      have hb : (buf.take bs).length = bs := by simp only [List.length_take]; omega
      obtain ⟨h1, h2⟩ := hI s (buf.take bs) hs hb
      obtain ⟨i1, i2, i3, _⟩ := ih (buf.drop bs) (f s (buf.take bs)).1 (by simp only [List.length_drop]; omega) h1
      refine ⟨i1, ?_, i3, ?_⟩
      · simp only [List.length_append, List.length_drop] at i2 ⊢; omega
      · intro _; simp only [List.length_append]; omega

/-- round trip of two `while (count >= bs)` loops: if one iteration of `g` undoes one iteration of `f`
and keeps the two states related by `R`, then `g` over the output of `f` (with any replaced tail)
returns the input blocks, leaves the tail untouched and ends in related states -/
theorem fullBlocks_roundtrip {σ τ : Type} (bs : Nat) (hbs : 0 < bs) (f : σ → Bytes → σ × Bytes)
    (g : τ → Bytes → τ × Bytes) (R : σ → τ → Prop)
    (hstep : ∀ s t b, R s t → b.length = bs →
      (f s b).2.length = bs ∧ (g t (f s b).2).2 = b ∧ R (f s b).1 (g t (f s b).2).1) :
    ∀ (n : Nat) (buf : Bytes) (s : σ) (t : τ) (tail' : Bytes), buf.length ≤ n → R s t → tail'.length < bs →
      (fullBlocks bs g t ((fullBlocks bs f s buf).2.1 ++ tail')).2.1 ++ (fullBlocks bs f s buf).2.2 = buf ∧
      (fullBlocks bs g t ((fullBlocks bs f s buf).2.1 ++ tail')).2.2 = tail' ∧
      R (fullBlocks bs f s buf).1 (fullBlocks bs g t ((fullBlocks bs f s buf).2.1 ++ tail')).1 := by
  intro n
  induction n with
  | zero =>
    intro buf s t tail' hn hR ht
    rw [fullBlocks_lt bs f s buf (by omega)]
    simp only [List.nil_append]
    rw [fullBlocks_lt bs g t tail' ht]
    exact ⟨by simp, rfl, hR⟩
  | succ n ih =>
    intro buf s t tail' hn hR ht
    by_cases hlt : buf.length < bs
    · rw [fullBlocks_lt bs f s buf hlt]
      simp only [List.nil_append]
      rw [fullBlocks_lt bs g t tail' ht]
      exact ⟨by simp, rfl, hR⟩
    · rw [fullBlocks_ge bs hbs f s buf (by omega)]
      have hb : (buf.take bs).length = bs := by simp only [List.length_take]; omega
      obtain ⟨h1, h2, h3⟩ := hstep s t (buf.take bs) hR hb
      obtain ⟨i1, i2, i3⟩ := ih (buf.drop bs) (f s (buf.take bs)).1 (g t (f s (buf.take bs)).2).1 tail'
        (by simp only [List.length_drop]; omega) h3 ht
      simp only [List.append_assoc]
      have htk : ((f s (buf.take bs)).2 ++ ((fullBlocks bs f (f s (buf.take bs)).1 (buf.drop bs)).2.1 ++ tail')).take bs
          = (f s (buf.take bs)).2 := by
        exact take_append_len _ _ _ h1
      have hdr : ((f s (buf.take bs)).2 ++ ((fullBlocks bs f (f s (buf.take bs)).1 (buf.drop bs)).2.1 ++ tail')).drop bs
          = (fullBlocks bs f (f s (buf.take bs)).1 (buf.drop bs)).2.1 ++ tail' := by
        exact drop_append_len _ _ _ h1
      rw [fullBlocks_ge bs hbs g t _ (by simp only [List.length_append]; omega)]
      rw [htk, hdr]
      refine ⟨?_, i2, i3⟩
      simp only [h2, List.append_assoc, i1, List.take_append_drop]

/-! ### the counter of CTR -/

/-- value of a little-endian array of u32 words -/
def wordsNat : List UInt32 → Nat
  | [] => 0
  | w :: ws => w.toNat + 4294967296 * wordsNat ws

theorem leNat_st32_append (w : UInt32) (rest : Bytes) :
    leNat (st32 w ++ rest) = w.toNat + 4294967296 * leNat rest := by
  have := w.toNat_lt
  simp only [st32, List.cons_append, List.nil_append, leNat, UInt8.toNat_ofNat']
  omega

theorem leNat_u32To (ws : List UInt32) : leNat (u32To ws) = wordsNat ws := by
  induction ws with
  | nil => rfl
  | cons w ws ih => simp only [u32To, leNat_st32_append, ih, wordsNat]

theorem leNat_eq_wordsNat_16 (b : Bytes) (h : b.length = 16) : leNat b = wordsNat (u32From b) := by
  rw [← leNat_u32To, u32To_u32From_16 b h]

theorem u32_succ_eq_zero (w : UInt32) (h : (w + 1 == 0) = true) : w.toNat = 4294967295 := by
  have h1 : w + 1 = 0 := eq_of_beq h
  have h2 := congrArg UInt32.toNat h1
  have := w.toNat_lt
  simp only [UInt32.toNat_add, UInt32.toNat_one, UInt32.toNat_zero] at h2
  omega

theorem u32_succ_ne_zero (w : UInt32) (h : ¬ (w + 1 == 0) = true) : (w + 1).toNat = w.toNat + 1 := by
  have h1 : w + 1 ≠ 0 := fun e => h (by rw [e]; rfl)
  have h2 : (w + 1).toNat ≠ 0 := fun e => h1 (UInt32.toNat_inj.mp (by rw [e]; rfl))
  have := w.toNat_lt
  simp only [UInt32.toNat_add, UInt32.toNat_one] at h2 ⊢
  omega

theorem u32_succ_toNat (w : UInt32) : (w + 1).toNat = (w.toNat + 1) % 4294967296 := by
  simp only [UInt32.toNat_add, UInt32.toNat_one]

/-- the short-circuit carry chain of `beltBlockIncU32` is the increment modulo 2^128 -/
theorem wordsNat_incU32 (w0 w1 w2 w3 : UInt32) :
    wordsNat (incU32 [w0, w1, w2, w3]) = (wordsNat [w0, w1, w2, w3] + 1) % 2 ^ 128 := by
  have h0 := w0.toNat_lt; have h1 := w1.toNat_lt; have h2 := w2.toNat_lt; have h3 := w3.toNat_lt
  simp only [incU32]
  split
  · rename_i c0
    have e0 := u32_succ_eq_zero w0 c0
    have z0 : (w0 + 1).toNat = 0 := by rw [eq_of_beq c0]; rfl
    split
    · rename_i c1
      have e1 := u32_succ_eq_zero w1 c1
      have z1 : (w1 + 1).toNat = 0 := by rw [eq_of_beq c1]; rfl
      split
      · rename_i c2
        have e2 := u32_succ_eq_zero w2 c2
        have z2 : (w2 + 1).toNat = 0 := by rw [eq_of_beq c2]; rfl
        have s3 := u32_succ_toNat w3
        simp only [wordsNat, z0, z1, z2, s3]
        omega
      · rename_i c2
        have s2 := u32_succ_ne_zero w2 c2
        have := (w2 + 1).toNat_lt
        simp only [wordsNat, z0, z1, s2]
        omega
    · rename_i c1
      have s1 := u32_succ_ne_zero w1 c1
      have := (w1 + 1).toNat_lt
      simp only [wordsNat, z0, s1]
      omega
  · rename_i c0
    have s0 := u32_succ_ne_zero w0 c0
    have := (w0 + 1).toNat_lt
    simp only [wordsNat, s0]
    omega

theorem length_incU32 (w0 w1 w2 w3 : UInt32) : (incU32 [w0, w1, w2, w3]).length = 4 := by
  simp only [incU32]
  repeat' split
  all_goals rfl

theorem length_incBlock (b : Bytes) (h : b.length = 16) : (incBlock b).length = 16 := by
  obtain ⟨w0, w1, w2, w3, hw⟩ := u32From_16 b h
  simp only [incBlock, hw, length_u32To, length_incU32]

theorem leNat_incBlock (b : Bytes) (h : b.length = 16) : leNat (incBlock b) = (leNat b + 1) % 2 ^ 128 := by
  obtain ⟨w0, w1, w2, w3, hw⟩ := u32From_16 b h
  rw [leNat_eq_wordsNat_16 b h]
  simp only [incBlock, hw, leNat_u32To, wordsNat_incU32]

theorem natLE_leNat (b : Bytes) : natLE b.length (leNat b) = b := by
  induction b with
  | nil => rfl
  | cons x xs ih =>
    have hx := x.toNat_lt
    simp only [List.length_cons, natLE, leNat]
    rw [u8_ofNat_eq _ x (by omega)]
    rw [show (x.toNat + 256 * leNat xs) / 256 = leNat xs by omega, ih]

theorem natLE_leNat_16 (b : Bytes) (h : b.length = 16) : natLE 16 (leNat b) = b := by
  rw [← h]; exact natLE_leNat b

theorem leNat_lt (b : Bytes) : leNat b < 256 ^ b.length := by
  induction b with
  | nil => simp [leNat]
  | cons x xs ih =>
    have hx := x.toNat_lt
    simp only [List.length_cons, leNat, Nat.pow_succ]
    omega

/-! ### mulC -/

theorem length_mulC (b : Bytes) (h : b.length = 16) : (mulC b).length = 16 := by
  obtain ⟨w0, w1, w2, w3, hw⟩ := u32From_16 b h
  simp only [mulC, hw, mulCW, length_u32To, List.length_cons, List.length_nil]

/-! ### CTR -/

/-- one iteration of the `while (count >= 16)` loop of `beltCTRStepE` on the state (ctr, block) -/
def ctrBody (C : Cipher) (key : Bytes) : Bytes × Bytes → Bytes → (Bytes × Bytes) × Bytes :=
  fun s b => ((incBlock s.1, C.enc key (incBlock s.1)), xorb b (C.enc key (incBlock s.1)))

/-- `beltCTRStepE` after the reserve of the key stream has been used up -/
def ctrMain (C : Cipher) (st : CtrSt) (buf : Bytes) : CtrSt × Bytes :=
  let l := fullBlocks 16 (ctrBody C st.key) (st.ctr, st.block) buf
  if l.2.2.length ≠ 0 then
    ({ st with ctr := incBlock l.1.1, block := C.enc st.key (incBlock l.1.1), reserved := 16 - l.2.2.length },
      l.2.1 ++ xorb l.2.2 ((C.enc st.key (incBlock l.1.1)).take l.2.2.length))
  else ({ st with ctr := l.1.1, block := l.1.2, reserved := 0 }, l.2.1)

theorem ctrStepE_main (C : Cipher) (st : CtrSt) (buf : Bytes)
    (h : ¬ (st.reserved ≠ 0 ∧ st.reserved ≥ buf.length)) :
    ctrStepE C st buf = ((ctrMain C st (buf.drop st.reserved)).1,
      xorb (buf.take st.reserved) (st.block.drop (16 - st.reserved)) ++ (ctrMain C st (buf.drop st.reserved)).2) := by
  unfold ctrStepE ctrMain ctrBody
  rw [if_neg h]
  by_cases hr : st.reserved = 0
  · simp only [hr, ne_eq, not_true_eq_false, if_false, List.take_zero, xorb_nil_left, List.drop_zero, List.nil_append]
  · simp only [hr, ne_eq, not_false_eq_true, if_true]
    split <;> simp only [List.append_assoc]

theorem ctrBody_step (C : Cipher) (key : Bytes) (hlen : ∀ k x, x.length = 16 → (C.enc k x).length = 16) :
    ∀ (s t : Bytes × Bytes) (b : Bytes), (s = t ∧ s.1.length = 16) → b.length = 16 →
      (ctrBody C key s b).2.length = 16 ∧ (ctrBody C key t (ctrBody C key s b).2).2 = b ∧
      ((ctrBody C key s b).1 = (ctrBody C key t (ctrBody C key s b).2).1 ∧ (ctrBody C key s b).1.1.length = 16) := by
  rintro s t b ⟨rfl, hs⟩ hb
  have hi := length_incBlock s.1 hs
  have hg := hlen key _ hi
  simp only [ctrBody]
  exact ⟨by rw [length_xorb]; omega, xorb_cancel_right _ _ (by omega), trivial, hi⟩

theorem ctrMain_out (C : Cipher) (st : CtrSt) (buf : Bytes) :
    (ctrMain C st buf).2 = (fullBlocks 16 (ctrBody C st.key) (st.ctr, st.block) buf).2.1 ++
      xorb (fullBlocks 16 (ctrBody C st.key) (st.ctr, st.block) buf).2.2
        ((C.enc st.key (incBlock (fullBlocks 16 (ctrBody C st.key) (st.ctr, st.block) buf).1.1)).take
          (fullBlocks 16 (ctrBody C st.key) (st.ctr, st.block) buf).2.2.length) := by
  unfold ctrMain
  simp only []
  split
  · rfl
  · rename_i h
    have : (fullBlocks 16 (ctrBody C st.key) (st.ctr, st.block) buf).2.2 = [] := by
      apply List.eq_nil_of_length_eq_zero; simpa using h
    rw [this, xorb_nil_left, List.append_nil]

theorem ctrMain_roundtrip (C : Cipher) (hlen : ∀ k x, x.length = 16 → (C.enc k x).length = 16)
    (st : CtrSt) (hc : st.ctr.length = 16) (buf : Bytes) :
    (ctrMain C st buf).2.length = buf.length ∧
    (ctrMain C st (ctrMain C st buf).2).2 = buf ∧
    (ctrMain C st (ctrMain C st buf).2).1 = (ctrMain C st buf).1 := by
  have hL := fullBlocks_lengths 16 (by omega) (ctrBody C st.key) (fun s => s.1.length = 16)
    (fun s b hs hb => ⟨length_incBlock s.1 hs, by
      simp only [ctrBody, length_xorb, hlen _ _ (length_incBlock s.1 hs)]; omega⟩)
    buf.length buf (st.ctr, st.block) (Nat.le_refl _) hc
  have hout := ctrMain_out C st buf
  have hRT := fullBlocks_roundtrip 16 (by omega) (ctrBody C st.key) (ctrBody C st.key)
    (fun s t => s = t ∧ s.1.length = 16) (ctrBody_step C st.key hlen) buf.length buf (st.ctr, st.block)
    (st.ctr, st.block)
  rcases hl : fullBlocks 16 (ctrBody C st.key) (st.ctr, st.block) buf with ⟨⟨c1, b1⟩, p, r⟩
  rw [hl] at hL hout hRT
  simp only [] at hL hout hRT
  obtain ⟨hc1, hpl, hr16, _⟩ := hL
  have hg : (C.enc st.key (incBlock c1)).length = 16 := hlen _ _ (length_incBlock c1 hc1)
  have htl : (xorb r ((C.enc st.key (incBlock c1)).take r.length)).length = r.length := by
    simp only [length_xorb, List.length_take, hg]; omega
  have hRT' := hRT _ (Nat.le_refl _) ⟨trivial, hc⟩ (by rw [htl]; exact hr16)
  have hout2 := ctrMain_out C st (ctrMain C st buf).2
  rw [hout] at hout2 ⊢
  rcases hl' : fullBlocks 16 (ctrBody C st.key) (st.ctr, st.block)
    (p ++ xorb r ((C.enc st.key (incBlock c1)).take r.length)) with ⟨⟨c2, b2⟩, p', r'⟩
  rw [hl'] at hRT' hout2
  simp only [] at hRT' hout2
  obtain ⟨h1, h2, h3, _⟩ := hRT'
  injection h3 with h3a h3b
  subst h3a h3b h2
  refine ⟨by simp only [List.length_append, htl]; omega, ?_, ?_⟩
  · rw [hout2, htl, xorb_cancel_right _ _ (by simp only [List.length_take, hg]; omega), h1]
  · unfold ctrMain
    simp only [hl, hl', htl]
    split <;> rfl

theorem ctrStepE_res (C : Cipher) (st : CtrSt) (buf : Bytes)
    (h : st.reserved ≠ 0 ∧ st.reserved ≥ buf.length) :
    ctrStepE C st buf = ({ st with reserved := st.reserved - buf.length },
      xorb buf ((st.block.drop (16 - st.reserved)).take buf.length)) := by
  unfold ctrStepE
  rw [if_pos h]

theorem ctrStepE_roundtrip (C : Cipher) (hlen : ∀ k x, x.length = 16 → (C.enc k x).length = 16)
    (st : CtrSt) (hr : st.reserved ≤ 16) (hb : st.block.length = 16) (hc : st.ctr.length = 16) (buf : Bytes) :
    (ctrStepE C st buf).2.length = buf.length ∧
    (ctrStepE C st (ctrStepE C st buf).2).2 = buf ∧
    (ctrStepE C st (ctrStepE C st buf).2).1 = (ctrStepE C st buf).1 := by
  by_cases h : st.reserved ≠ 0 ∧ st.reserved ≥ buf.length
  · have hG : ((st.block.drop (16 - st.reserved)).take buf.length).length = buf.length := by
      simp only [List.length_take, List.length_drop, hb]; omega
    have hol : (xorb buf ((st.block.drop (16 - st.reserved)).take buf.length)).length = buf.length := by
      rw [length_xorb, hG]; omega
    rw [ctrStepE_res C st buf h]
    simp only []
    rw [ctrStepE_res C st _ (by rw [hol]; exact h)]
    simp only [hol]
    exact ⟨trivial, xorb_cancel_right _ _ (by omega), trivial⟩
  · have hD : (st.block.drop (16 - st.reserved)).length = st.reserved := by
      simp only [List.length_drop, hb]; omega
    have hrl : st.reserved ≤ buf.length := by
      by_cases h0 : st.reserved = 0
      · omega
      · have : ¬ st.reserved ≥ buf.length := fun h' => h ⟨h0, h'⟩
        omega
    have hhead : (xorb (buf.take st.reserved) (st.block.drop (16 - st.reserved))).length = st.reserved := by
      simp only [length_xorb, List.length_take, hD]; omega
    obtain ⟨m1, m2, m3⟩ := ctrMain_roundtrip C hlen st hc (buf.drop st.reserved)
    rw [ctrStepE_main C st buf h]
    simp only []
    have hol : (xorb (buf.take st.reserved) (st.block.drop (16 - st.reserved)) ++
        (ctrMain C st (buf.drop st.reserved)).2).length = buf.length := by
      simp only [List.length_append, hhead, m1, List.length_drop]; omega
    rw [ctrStepE_main C st _ (by rw [hol]; exact h)]
    simp only []
    rw [take_append_len _ _ _ hhead, drop_append_len _ _ _ hhead, m2, m3,
      xorb_cancel_right _ _ (by simp only [List.length_take, hD]; omega), List.take_append_drop]
    exact ⟨hol, rfl, rfl⟩

/-! ### CFB -/

def cfbBodyE (C : Cipher) (key : Bytes) : Bytes → Bytes → Bytes × Bytes :=
  fun blk b => (xorb (C.enc key blk) b, xorb (C.enc key blk) b)

def cfbBodyD (C : Cipher) (key : Bytes) : Bytes → Bytes → Bytes × Bytes :=
  fun blk b => (xorb (C.enc key blk) (xorb b (C.enc key blk)), xorb b (C.enc key blk))

/-- `beltCFBStepE` after the reserve of the key stream has been used up; `blk0` = `st->block` at that point -/
def cfbMainE (C : Cipher) (st : CfbSt) (blk0 buf : Bytes) : CfbSt × Bytes :=
  let l := fullBlocks 16 (cfbBodyE C st.key) blk0 buf
  if l.2.2.length ≠ 0 then
    ({ st with block := xorb ((C.enc st.key l.1).take l.2.2.length) l.2.2 ++ (C.enc st.key l.1).drop l.2.2.length,
               reserved := 16 - l.2.2.length },
      l.2.1 ++ xorb ((C.enc st.key l.1).take l.2.2.length) l.2.2)
  else ({ st with block := l.1, reserved := 0 }, l.2.1)

def cfbMainD (C : Cipher) (st : CfbSt) (blk0 buf : Bytes) : CfbSt × Bytes :=
  let l := fullBlocks 16 (cfbBodyD C st.key) blk0 buf
  if l.2.2.length ≠ 0 then
    ({ st with block := xorb ((C.enc st.key l.1).take l.2.2.length) (xorb l.2.2 ((C.enc st.key l.1).take l.2.2.length))
                 ++ (C.enc st.key l.1).drop l.2.2.length,
               reserved := 16 - l.2.2.length },
      l.2.1 ++ xorb l.2.2 ((C.enc st.key l.1).take l.2.2.length))
  else ({ st with block := l.1, reserved := 0 }, l.2.1)

theorem putAt_nil (blk : Bytes) (off : Nat) : putAt blk off [] = blk := by
  simp only [putAt, List.append_nil, List.length_nil, Nat.add_zero, List.take_append_drop]

theorem length_putAt (blk x : Bytes) (off : Nat) (h : off + x.length ≤ blk.length) :
    (putAt blk off x).length = blk.length := by
  simp only [putAt, List.length_append, List.length_take, List.length_drop]; omega

theorem cfbStepE_main (C : Cipher) (st : CfbSt) (buf : Bytes)
    (h : ¬ (st.reserved ≠ 0 ∧ st.reserved ≥ buf.length)) :
    cfbStepE C st buf =
      ((cfbMainE C st (putAt st.block (16 - st.reserved)
          (xorb (st.block.drop (16 - st.reserved)) (buf.take st.reserved))) (buf.drop st.reserved)).1,
        xorb (st.block.drop (16 - st.reserved)) (buf.take st.reserved) ++
        (cfbMainE C st (putAt st.block (16 - st.reserved)
          (xorb (st.block.drop (16 - st.reserved)) (buf.take st.reserved))) (buf.drop st.reserved)).2) := by
  unfold cfbStepE cfbMainE cfbBodyE
  rw [if_neg h]
  by_cases hr : st.reserved = 0
  · simp only [hr, ne_eq, not_true_eq_false, if_false, List.take_zero, xorb_nil_right, List.drop_zero,
      List.nil_append, putAt_nil]
  · simp only [hr, ne_eq, not_false_eq_true, if_true]
    split <;> simp only [List.append_assoc]

theorem cfbStepD_main (C : Cipher) (st : CfbSt) (buf : Bytes)
    (h : ¬ (st.reserved ≠ 0 ∧ st.reserved ≥ buf.length)) :
    cfbStepD C st buf =
      ((cfbMainD C st (putAt st.block (16 - st.reserved)
          (xorb (st.block.drop (16 - st.reserved))
            (xorb (buf.take st.reserved) (st.block.drop (16 - st.reserved))))) (buf.drop st.reserved)).1,
        xorb (buf.take st.reserved) (st.block.drop (16 - st.reserved)) ++
        (cfbMainD C st (putAt st.block (16 - st.reserved)
          (xorb (st.block.drop (16 - st.reserved))
            (xorb (buf.take st.reserved) (st.block.drop (16 - st.reserved))))) (buf.drop st.reserved)).2) := by
  unfold cfbStepD cfbMainD cfbBodyD
  rw [if_neg h]
  by_cases hr : st.reserved = 0
  · simp only [hr, ne_eq, not_true_eq_false, if_false, List.take_zero, xorb_nil_left, xorb_nil_right, List.drop_zero,
      List.nil_append, putAt_nil]
  · simp only [hr, ne_eq, not_false_eq_true, if_true]
    split <;> simp only [List.append_assoc]

theorem cfbBody_step (C : Cipher) (key : Bytes) (hlen : ∀ k x, x.length = 16 → (C.enc k x).length = 16) :
    ∀ (s t b : Bytes), (s = t ∧ s.length = 16) → b.length = 16 →
      (cfbBodyE C key s b).2.length = 16 ∧ (cfbBodyD C key t (cfbBodyE C key s b).2).2 = b ∧
      ((cfbBodyE C key s b).1 = (cfbBodyD C key t (cfbBodyE C key s b).2).1 ∧
        (cfbBodyE C key s b).1.length = 16) := by
  rintro s t b ⟨rfl, hs⟩ hb
  have hg := hlen key s hs
  have e : xorb (xorb (C.enc key s) b) (C.enc key s) = b := xorb_cancel_mid _ _ (by omega)
  have hl : (xorb (C.enc key s) b).length = 16 := by rw [length_xorb]; omega
  simp only [cfbBodyE, cfbBodyD, e, hl]
  exact ⟨trivial, trivial, trivial, trivial⟩

theorem cfbMainE_out (C : Cipher) (st : CfbSt) (blk0 buf : Bytes) :
    (cfbMainE C st blk0 buf).2 = (fullBlocks 16 (cfbBodyE C st.key) blk0 buf).2.1 ++
      xorb ((C.enc st.key (fullBlocks 16 (cfbBodyE C st.key) blk0 buf).1).take
          (fullBlocks 16 (cfbBodyE C st.key) blk0 buf).2.2.length)
        (fullBlocks 16 (cfbBodyE C st.key) blk0 buf).2.2 := by
  unfold cfbMainE
  simp only []
  split
  · rfl
  · rename_i h
    have : (fullBlocks 16 (cfbBodyE C st.key) blk0 buf).2.2 = [] := by
      apply List.eq_nil_of_length_eq_zero; simpa using h
    rw [this, xorb_nil_right, List.append_nil]

theorem cfbMainD_out (C : Cipher) (st : CfbSt) (blk0 buf : Bytes) :
    (cfbMainD C st blk0 buf).2 = (fullBlocks 16 (cfbBodyD C st.key) blk0 buf).2.1 ++
      xorb (fullBlocks 16 (cfbBodyD C st.key) blk0 buf).2.2
        ((C.enc st.key (fullBlocks 16 (cfbBodyD C st.key) blk0 buf).1).take
          (fullBlocks 16 (cfbBodyD C st.key) blk0 buf).2.2.length) := by
  unfold cfbMainD
  simp only []
  split
  · rfl
  · rename_i h
    have : (fullBlocks 16 (cfbBodyD C st.key) blk0 buf).2.2 = [] := by
      apply List.eq_nil_of_length_eq_zero; simpa using h
    rw [this, xorb_nil_left, List.append_nil]

theorem cfbMain_roundtrip (C : Cipher) (hlen : ∀ k x, x.length = 16 → (C.enc k x).length = 16)
    (st : CfbSt) (blk0 : Bytes) (h0 : blk0.length = 16) (buf : Bytes) :
    (cfbMainE C st blk0 buf).2.length = buf.length ∧
    (cfbMainD C st blk0 (cfbMainE C st blk0 buf).2).2 = buf ∧
    (cfbMainD C st blk0 (cfbMainE C st blk0 buf).2).1 = (cfbMainE C st blk0 buf).1 ∧
    (cfbMainE C st blk0 buf).1.block.length = 16 ∧ (cfbMainE C st blk0 buf).1.reserved ≤ 16 := by
  have hL := fullBlocks_lengths 16 (by omega) (cfbBodyE C st.key) (fun s => s.length = 16)
    (fun s b hs hb => by
      have : (xorb (C.enc st.key s) b).length = 16 := by rw [length_xorb, hlen _ _ hs]; omega
      exact ⟨this, this⟩)
    buf.length buf blk0 (Nat.le_refl _) h0
  have hout := cfbMainE_out C st blk0 buf
  have hRT := fullBlocks_roundtrip 16 (by omega) (cfbBodyE C st.key) (cfbBodyD C st.key)
    (fun s t => s = t ∧ s.length = 16) (cfbBody_step C st.key hlen) buf.length buf blk0 blk0
  rcases hl : fullBlocks 16 (cfbBodyE C st.key) blk0 buf with ⟨c1, p, r⟩
  rw [hl] at hL hout hRT
  simp only [] at hL hout hRT
  obtain ⟨hc1, hpl, hr16, _⟩ := hL
  have hg : (C.enc st.key c1).length = 16 := hlen _ _ hc1
  have htk : ((C.enc st.key c1).take r.length).length = r.length := by
    simp only [List.length_take, hg]; omega
  have htl : (xorb ((C.enc st.key c1).take r.length) r).length = r.length := by
    rw [length_xorb, htk]; omega
  have hRT' := hRT _ (Nat.le_refl _) ⟨trivial, h0⟩ (by rw [htl]; exact hr16)
  have hout2 := cfbMainD_out C st blk0 (cfbMainE C st blk0 buf).2
  rw [hout] at hout2 ⊢
  rcases hl' : fullBlocks 16 (cfbBodyD C st.key) blk0
    (p ++ xorb ((C.enc st.key c1).take r.length) r) with ⟨c2, p', r'⟩
  rw [hl'] at hRT' hout2
  simp only [] at hRT' hout2
  obtain ⟨h1, h2, h3, _⟩ := hRT'
  subst h3 h2
  have hcan : xorb (xorb ((C.enc st.key c1).take r.length) r) ((C.enc st.key c1).take r.length) = r :=
    xorb_cancel_mid _ _ (by omega)
  refine ⟨by simp only [List.length_append, htl]; omega, ?_, ?_, ?_, ?_⟩
  · rw [hout2, htl, hcan, h1]
  · unfold cfbMainD cfbMainE
    simp only [hl, hl', htl, hcan]
    split <;> rfl
  · unfold cfbMainE
    simp only [hl]
    split
    · simp only [List.length_append, htl, List.length_drop, hg]; omega
    · exact hc1
  · unfold cfbMainE
    simp only [hl]
    split
    · simp only []; omega
    · simp only []; omega

theorem cfbStepE_res (C : Cipher) (st : CfbSt) (buf : Bytes)
    (h : st.reserved ≠ 0 ∧ st.reserved ≥ buf.length) :
    cfbStepE C st buf =
      ({ st with block := putAt st.block (16 - st.reserved)
                   (xorb ((st.block.drop (16 - st.reserved)).take buf.length) buf),
                 reserved := st.reserved - buf.length },
        xorb ((st.block.drop (16 - st.reserved)).take buf.length) buf) := by
  unfold cfbStepE
  rw [if_pos h]

theorem cfbStepD_res (C : Cipher) (st : CfbSt) (buf : Bytes)
    (h : st.reserved ≠ 0 ∧ st.reserved ≥ buf.length) :
    cfbStepD C st buf =
      ({ st with block := putAt st.block (16 - st.reserved)
                   (xorb ((st.block.drop (16 - st.reserved)).take buf.length)
                     (xorb buf ((st.block.drop (16 - st.reserved)).take buf.length))),
                 reserved := st.reserved - buf.length },
        xorb buf ((st.block.drop (16 - st.reserved)).take buf.length)) := by
  unfold cfbStepD
  rw [if_pos h]

/-- decryption of an encrypted fragment from the same state: data, final state, and the state invariant -/
theorem cfbStep_roundtrip (C : Cipher) (hlen : ∀ k x, x.length = 16 → (C.enc k x).length = 16)
    (st : CfbSt) (hr : st.reserved ≤ 16) (hb : st.block.length = 16) (buf : Bytes) :
    (cfbStepE C st buf).2.length = buf.length ∧
    (cfbStepD C st (cfbStepE C st buf).2).2 = buf ∧
    (cfbStepD C st (cfbStepE C st buf).2).1 = (cfbStepE C st buf).1 ∧
    (cfbStepE C st buf).1.block.length = 16 ∧ (cfbStepE C st buf).1.reserved ≤ 16 := by
  by_cases h : st.reserved ≠ 0 ∧ st.reserved ≥ buf.length
  · have hG : ((st.block.drop (16 - st.reserved)).take buf.length).length = buf.length := by
      simp only [List.length_take, List.length_drop, hb]; omega
    have hol : (xorb ((st.block.drop (16 - st.reserved)).take buf.length) buf).length = buf.length := by
      rw [length_xorb, hG]; omega
    have hcan : xorb (xorb ((st.block.drop (16 - st.reserved)).take buf.length) buf)
        ((st.block.drop (16 - st.reserved)).take buf.length) = buf := xorb_cancel_mid _ _ (by omega)
    rw [cfbStepE_res C st buf h]
    simp only []
    rw [cfbStepD_res C st _ (by rw [hol]; exact h)]
    simp only [hol, hcan]
    refine ⟨trivial, trivial, trivial, ?_, by omega⟩
    rw [length_putAt _ _ _ (by rw [hol, hb]; omega)]; exact hb
  · have hD : (st.block.drop (16 - st.reserved)).length = st.reserved := by
      simp only [List.length_drop, hb]; omega
    have hrl : st.reserved ≤ buf.length := by
      by_cases h0 : st.reserved = 0
      · omega
      · have : ¬ st.reserved ≥ buf.length := fun h' => h ⟨h0, h'⟩
        omega
    have htk : (buf.take st.reserved).length = st.reserved := by
      simp only [List.length_take]; omega
    have hhead : (xorb (st.block.drop (16 - st.reserved)) (buf.take st.reserved)).length = st.reserved := by
      rw [length_xorb, hD, htk]; omega
    have hblk0 : (putAt st.block (16 - st.reserved)
        (xorb (st.block.drop (16 - st.reserved)) (buf.take st.reserved))).length = 16 := by
      rw [length_putAt _ _ _ (by rw [hhead, hb]; omega)]; exact hb
    obtain ⟨m1, m2, m3, m4, m5⟩ := cfbMain_roundtrip C hlen st _ hblk0 (buf.drop st.reserved)
    rw [cfbStepE_main C st buf h]
    simp only []
    have hol : (xorb (st.block.drop (16 - st.reserved)) (buf.take st.reserved) ++
        (cfbMainE C st (putAt st.block (16 - st.reserved)
          (xorb (st.block.drop (16 - st.reserved)) (buf.take st.reserved))) (buf.drop st.reserved)).2).length
          = buf.length := by
      simp only [List.length_append, hhead, m1, List.length_drop]; omega
    rw [cfbStepD_main C st _ (by rw [hol]; exact h)]
    simp only []
    rw [take_append_len _ _ _ hhead, drop_append_len _ _ _ hhead,
      xorb_cancel_mid _ _ (by rw [htk, hD]; omega), m2, m3, List.take_append_drop]
    exact ⟨hol, rfl, rfl, m4, m5⟩

/-! ### BDE -/

/-- one iteration of `beltBDEStepE` (`F = C.enc`) / `beltBDEStepD` (`F = C.dec`) -/
def bdeBody (F : Bytes → Bytes → Bytes) (key : Bytes) : Bytes → Bytes → Bytes × Bytes :=
  fun s b => (mulC s, xorb (F key (xorb b (mulC s))) (mulC s))

theorem bdeStepE_eq (C : Cipher) (st : BdeSt) (buf : Bytes) :
    bdeStepE C st buf =
      ({ st with s := (fullBlocks 16 (bdeBody C.enc st.key) st.s buf).1,
                 block := if buf.length ≥ 16 then (fullBlocks 16 (bdeBody C.enc st.key) st.s buf).1 else st.block },
        (fullBlocks 16 (bdeBody C.enc st.key) st.s buf).2.1 ++ (fullBlocks 16 (bdeBody C.enc st.key) st.s buf).2.2) := rfl

theorem bdeStepD_eq (C : Cipher) (st : BdeSt) (buf : Bytes) :
    bdeStepD C st buf =
      ({ st with s := (fullBlocks 16 (bdeBody C.dec st.key) st.s buf).1,
                 block := if buf.length ≥ 16 then (fullBlocks 16 (bdeBody C.dec st.key) st.s buf).1 else st.block },
        (fullBlocks 16 (bdeBody C.dec st.key) st.s buf).2.1 ++ (fullBlocks 16 (bdeBody C.dec st.key) st.s buf).2.2) := rfl

theorem bdeBody_step (F G : Bytes → Bytes → Bytes) (key : Bytes)
    (hlen : ∀ k x, x.length = 16 → (F k x).length = 16)
    (hGF : ∀ k x, x.length = 16 → G k (F k x) = x) :
    ∀ (s t b : Bytes), (s = t ∧ s.length = 16) → b.length = 16 →
      (bdeBody F key s b).2.length = 16 ∧ (bdeBody G key t (bdeBody F key s b).2).2 = b ∧
      ((bdeBody F key s b).1 = (bdeBody G key t (bdeBody F key s b).2).1 ∧ (bdeBody F key s b).1.length = 16) := by
  rintro s t b ⟨rfl, hs⟩ hb
  have hm := length_mulC s hs
  have hx : (xorb b (mulC s)).length = 16 := by rw [length_xorb]; omega
  have hf := hlen key _ hx
  have e1 : xorb (xorb (F key (xorb b (mulC s))) (mulC s)) (mulC s) = F key (xorb b (mulC s)) :=
    xorb_cancel_right _ _ (by omega)
  have e2 : xorb (xorb b (mulC s)) (mulC s) = b := xorb_cancel_right _ _ (by omega)
  have hl : (xorb (F key (xorb b (mulC s))) (mulC s)).length = 16 := by rw [length_xorb]; omega
  simp only [bdeBody, e1, hGF key _ hx, e2, hl, hm]
  exact ⟨trivial, trivial, trivial, trivial⟩

/-- the loop of `beltBDEStepD` undoes the loop of `beltBDEStepE` (and vice versa, by the choice of `F`, `G`) -/
theorem bdeLoop_roundtrip (F G : Bytes → Bytes → Bytes) (key : Bytes)
    (hlen : ∀ k x, x.length = 16 → (F k x).length = 16)
    (hGF : ∀ k x, x.length = 16 → G k (F k x) = x) (s : Bytes) (hs : s.length = 16) (buf : Bytes) :
    ((fullBlocks 16 (bdeBody F key) s buf).2.1 ++ (fullBlocks 16 (bdeBody F key) s buf).2.2).length = buf.length ∧
    (fullBlocks 16 (bdeBody G key) s
      ((fullBlocks 16 (bdeBody F key) s buf).2.1 ++ (fullBlocks 16 (bdeBody F key) s buf).2.2)).2.1 ++
    (fullBlocks 16 (bdeBody G key) s
      ((fullBlocks 16 (bdeBody F key) s buf).2.1 ++ (fullBlocks 16 (bdeBody F key) s buf).2.2)).2.2 = buf ∧
    (fullBlocks 16 (bdeBody G key) s
      ((fullBlocks 16 (bdeBody F key) s buf).2.1 ++ (fullBlocks 16 (bdeBody F key) s buf).2.2)).1 =
    (fullBlocks 16 (bdeBody F key) s buf).1 := by
  have hL := fullBlocks_lengths 16 (by omega) (bdeBody F key) (fun s => s.length = 16)
    (fun s b hs hb => by
      have hm := length_mulC s hs
      have hx : (xorb b (mulC s)).length = 16 := by rw [length_xorb]; omega
      have hf := hlen key _ hx
      exact ⟨hm, by simp only [bdeBody, length_xorb]; omega⟩)
    buf.length buf s (Nat.le_refl _) hs
  have hRT := fullBlocks_roundtrip 16 (by omega) (bdeBody F key) (bdeBody G key)
    (fun s t => s = t ∧ s.length = 16) (bdeBody_step F G key hlen hGF) buf.length buf s s
  rcases hl : fullBlocks 16 (bdeBody F key) s buf with ⟨c1, p, r⟩
  rw [hl] at hL hRT
  simp only [] at hL hRT ⊢
  obtain ⟨hc1, hpl, hr16, _⟩ := hL
  obtain ⟨h1, h2, h3, _⟩ := hRT r (Nat.le_refl _) ⟨trivial, hs⟩ hr16
  refine ⟨by simp only [List.length_append]; omega, ?_, h3.symm⟩
  rw [h2, h1]

/-- the state invariant of CTR is kept by `beltCTRStepE` -/
theorem ctrStepE_inv (C : Cipher) (hlen : ∀ k x, x.length = 16 → (C.enc k x).length = 16)
    (st : CtrSt) (hr : st.reserved ≤ 16) (hb : st.block.length = 16) (hc : st.ctr.length = 16) (buf : Bytes) :
    (ctrStepE C st buf).1.reserved ≤ 16 ∧ (ctrStepE C st buf).1.block.length = 16 ∧
    (ctrStepE C st buf).1.ctr.length = 16 := by
  by_cases h : st.reserved ≠ 0 ∧ st.reserved ≥ buf.length
  · rw [ctrStepE_res C st buf h]
    exact ⟨by simp only []; omega, hb, hc⟩
  · rw [ctrStepE_main C st buf h]
    have hL := fullBlocks_lengths 16 (by omega) (ctrBody C st.key) (fun s => s.1.length = 16 ∧ s.2.length = 16)
      (fun s b hs hb => by
        have h1 := length_incBlock s.1 hs.1
        have h2 := hlen st.key _ h1
        exact ⟨⟨h1, h2⟩, by simp only [ctrBody, length_xorb, h2]; omega⟩)
      (buf.drop st.reserved).length (buf.drop st.reserved) (st.ctr, st.block) (Nat.le_refl _) ⟨hc, hb⟩
    obtain ⟨⟨i1, i2⟩, _, _, _⟩ := hL
    unfold ctrMain
    simp only []
    split
    · have h1 := length_incBlock _ i1
      exact ⟨by simp only []; omega, hlen _ _ h1, h1⟩
    · exact ⟨by simp only []; omega, i2, i1⟩

/-! ### CTR: the key stream -/

theorem ctrMain_nil (C : Cipher) (st : CtrSt) : (ctrMain C st []).2 = [] := by
  rw [ctrMain_out, fullBlocks_lt 16 _ _ [] (by simp)]
  simp only [xorb_nil_left, List.append_nil]

theorem ctrMain_step (C : Cipher) (st : CtrSt) (buf : Bytes) (h : 0 < buf.length) :
    (ctrMain C st buf).2 = xorb (buf.take 16) (C.enc st.key (incBlock st.ctr)) ++
      (ctrMain C { st with ctr := incBlock st.ctr, block := C.enc st.key (incBlock st.ctr) } (buf.drop 16)).2 := by
  by_cases hlt : buf.length < 16
  · have hd : buf.drop 16 = [] := List.drop_eq_nil_of_le (by omega)
    have ht : buf.take 16 = buf := List.take_of_length_le (by omega)
    rw [hd, ctrMain_nil, ctrMain_out, fullBlocks_lt 16 _ _ buf hlt]
    simp only [List.nil_append, List.append_nil, xorb_take_right, ht]
  · rw [ctrMain_out, ctrMain_out, fullBlocks_ge 16 (by omega) _ _ buf (by omega)]
    simp only [ctrBody, List.append_assoc]

theorem ctrMain_block (C : Cipher) (hlen : ∀ k x, x.length = 16 → (C.enc k x).length = 16) :
    ∀ (i : Nat) (st : CtrSt) (buf : Bytes), st.ctr.length = 16 →
      ((ctrMain C st buf).2.drop (16 * i)).take 16 =
        xorb ((buf.drop (16 * i)).take 16)
          (C.enc st.key (natLE 16 ((leNat st.ctr + i + 1) % 2 ^ 128))) := by
  intro i
  induction i with
  | zero =>
    intro st buf hc
    have hi := length_incBlock st.ctr hc
    have hctr : natLE 16 ((leNat st.ctr + 0 + 1) % 2 ^ 128) = incBlock st.ctr := by
      rw [Nat.add_zero, ← leNat_incBlock st.ctr hc, natLE_leNat_16 _ hi]
    rw [hctr]
    by_cases h0 : buf.length = 0
    · have : buf = [] := List.eq_nil_of_length_eq_zero h0
      subst this
      simp only [ctrMain_nil, List.drop_nil, List.take_nil, xorb_nil_left]
    · rw [ctrMain_step C st buf (by omega)]
      simp only [Nat.mul_zero, List.drop_zero]
      by_cases hlt : buf.length < 16
      · have hd : buf.drop 16 = [] := List.drop_eq_nil_of_le (by omega)
        rw [hd, ctrMain_nil, List.append_nil]
        exact List.take_of_length_le (by rw [length_xorb, List.length_take]; omega)
      · exact take_append_len _ _ _ (by rw [length_xorb, List.length_take, hlen _ _ hi]; omega)
  | succ i ih =>
    intro st buf hc
    have hi := length_incBlock st.ctr hc
    by_cases hlt : buf.length < 16
    · have h1 : (ctrMain C st buf).2.drop (16 * (i + 1)) = [] :=
        List.drop_eq_nil_of_le (by rw [(ctrMain_roundtrip C hlen st hc buf).1]; omega)
      have h2 : buf.drop (16 * (i + 1)) = [] := List.drop_eq_nil_of_le (by omega)
      rw [h1, h2]
      simp only [List.take_nil, xorb_nil_left]
    · rw [ctrMain_step C st buf (by omega)]
      have hx : (xorb (buf.take 16) (C.enc st.key (incBlock st.ctr))).length = 16 := by
        rw [length_xorb, List.length_take, hlen _ _ hi]; omega
      have hsplit : 16 * (i + 1) = 16 + 16 * i := by omega
      rw [hsplit, ← List.drop_drop, drop_append_len _ _ _ hx, ← List.drop_drop]
      rw [ih { st with ctr := incBlock st.ctr, block := C.enc st.key (incBlock st.ctr) } (buf.drop 16) hi]
      simp only [leNat_incBlock st.ctr hc]
      have : ((leNat st.ctr + 1) % 2 ^ 128 + i + 1) % 2 ^ 128 = (leNat st.ctr + (i + 1) + 1) % 2 ^ 128 := by omega
      rw [this]

end Bee2V.C01.Stream

/-
C01 helper lemmas for belt_wbl.c / belt_kwp.c / belt_sde.c (self-contained: generic list / xor lemmas
live in the namespace `Bee2V.C01.Wbl` so that they cannot clash with other lemma files).
-/
import Bee2V.C01.Model.Wbl
namespace Bee2V.C01.Wbl

/-! ### xor of octet strings -/

theorem length_xorb (a b : Bytes) : (xorb a b).length = min a.length b.length := by
  simp [xorb]

theorem xorb_nil_left (b : Bytes) : xorb [] b = [] := by simp [xorb]
theorem xorb_nil_right (a : Bytes) : xorb a [] = [] := by simp [xorb]

theorem xorb_cons (x y : UInt8) (a b : Bytes) : xorb (x :: a) (y :: b) = (x ^^^ y) :: xorb a b := by
  simp [xorb]

theorem xorb_comm (a b : Bytes) : xorb a b = xorb b a := by
  induction a generalizing b with
  | nil => simp [xorb]
  | cons x a ih =>
    cases b with
    | nil => simp [xorb]
    | cons y b => rw [xorb_cons, xorb_cons, ih, UInt8.xor_comm]

theorem xorb_assoc (a b c : Bytes) : xorb (xorb a b) c = xorb a (xorb b c) := by
  induction a generalizing b c with
  | nil => simp [xorb]
  | cons x a ih =>
    cases b with
    | nil => simp [xorb]
    | cons y b =>
      cases c with
      | nil => simp [xorb]
      | cons z c => simp only [xorb_cons, ih, UInt8.xor_assoc]

theorem xorb_right_comm (a b c : Bytes) : xorb (xorb a b) c = xorb (xorb a c) b := by
  rw [xorb_assoc, xorb_comm b c, ← xorb_assoc]

theorem xorb_cancel (a b : Bytes) (h : a.length ≤ b.length) : xorb (xorb a b) b = a := by
  induction a generalizing b with
  | nil => simp [xorb]
  | cons x a ih =>
    cases b with
    | nil => simp at h
    | cons y b =>
      simp only [List.length_cons] at h
      rw [xorb_cons, xorb_cons, ih b (by omega), UInt8.xor_assoc, UInt8.xor_self, UInt8.xor_zero]

theorem xorb_zeros (a : Bytes) (n : Nat) (h : a.length ≤ n) : xorb a (zeros n) = a := by
  induction a generalizing n with
  | nil => simp [xorb]
  | cons x a ih =>
    cases n with
    | zero => simp at h
    | succ n =>
      simp only [List.length_cons] at h
      have : zeros (n + 1) = 0 :: zeros n := by simp [zeros, List.replicate_succ]
      rw [this, xorb_cons, ih n (by omega), UInt8.xor_zero]

theorem zeros_xorb (a : Bytes) (n : Nat) (h : a.length ≤ n) : xorb (zeros n) a = a := by
  rw [xorb_comm, xorb_zeros a n h]

theorem length_zeros (n : Nat) : (zeros n).length = n := by simp [zeros]

theorem xorb_append (a1 a2 b1 b2 : Bytes) (h : a1.length = b1.length) :
    xorb (a1 ++ a2) (b1 ++ b2) = xorb a1 b1 ++ xorb a2 b2 := by
  induction a1 generalizing b1 with
  | nil =>
    cases b1 with
    | nil => simp [xorb]
    | cons y b1 => simp at h
  | cons x a1 ih =>
    cases b1 with
    | nil => simp at h
    | cons y b1 =>
      simp only [List.length_cons, Nat.add_right_cancel_iff] at h
      simp only [List.cons_append, xorb_cons, ih b1 h]

theorem length_natLE (n v : Nat) : (natLE n v).length = n := by
  induction n generalizing v with
  | zero => simp [natLE]
  | succ n ih => simp [natLE, ih]

theorem length_xorPrefix (d s : Bytes) (h : s.length ≤ d.length) : (xorPrefix d s).length = d.length := by
  simp only [xorPrefix, List.length_append, length_xorb, List.length_drop]; omega

theorem length_encRound (C : Cipher) (hlen : ∀ k x, x.length = 16 → (C.enc k x).length = 16)
    (key blk : Bytes) (round : Nat) (h : blk.length = 16) : (encRound C key blk round).length = 16 := by
  unfold encRound
  rw [length_xorPrefix _ _ (by rw [length_natLE, hlen key blk h]; omega), hlen key blk h]

/-! ### getBlk / putAt / xorAt on decomposed buffers -/

theorem length_getBlk (buf : Bytes) (i : Nat) : (getBlk buf i).length = min 16 (buf.length - i) := by
  simp [getBlk]

theorem getBlk_append (A B Z : Bytes) (i : Nat) (hi : i = A.length) (hB : B.length = 16) :
    getBlk (A ++ (B ++ Z)) i = B := by
  subst hi
  simp only [getBlk, List.drop_left]
  exact List.take_left' hB

theorem putAt_append (A B Z x : Bytes) (i : Nat) (hi : i = A.length) (hx : x.length = B.length) :
    putAt (A ++ (B ++ Z)) i x = A ++ (x ++ Z) := by
  subst hi
  simp only [putAt, List.take_left, List.append_assoc, List.append_cancel_left_eq]
  rw [← List.append_assoc, List.drop_left' (by simp [hx])]

theorem xorAt_append (A B Z x : Bytes) (i : Nat) (hi : i = A.length) (hB : B.length = 16)
    (hx : x.length = 16) : xorAt (A ++ (B ++ Z)) i x = A ++ (xorb B x ++ Z) := by
  unfold xorAt
  rw [getBlk_append A B Z i hi hB, putAt_append A B Z _ i hi (by rw [length_xorb]; omega)]

theorem length_putAt (buf x : Bytes) (i : Nat) (h : i + x.length ≤ buf.length) :
    (putAt buf i x).length = buf.length := by
  simp only [putAt, List.length_append, List.length_take, List.length_drop]; omega

theorem length_xorAt (buf x : Bytes) (i : Nat) (h : i + 16 ≤ buf.length) :
    (xorAt buf i x).length = buf.length := by
  unfold xorAt
  apply length_putAt
  rw [length_xorb, length_getBlk]; omega

/-- a buffer of at least 32 octets is head block ++ middle ++ tail block -/
theorem split3 (buf : Bytes) (h : 32 ≤ buf.length) :
    ∃ H M T : Bytes, buf = H ++ (M ++ T) ∧ H.length = 16 ∧ T.length = 16 := by
  refine ⟨buf.take 16, (buf.drop 16).take (buf.length - 32), (buf.drop 16).drop (buf.length - 32), ?_, ?_, ?_⟩
  · rw [List.take_append_drop, List.take_append_drop]
  · simp; omega
  · simp; omega

theorem split3' (buf : Bytes) (h : 32 ≤ buf.length) :
    ∃ M T S : Bytes, buf = M ++ (T ++ S) ∧ T.length = 16 ∧ S.length = 16 := by
  refine ⟨buf.take (buf.length - 32), (buf.drop (buf.length - 32)).take 16, (buf.drop (buf.length - 32)).drop 16, ?_, ?_, ?_⟩
  · rw [List.take_append_drop, List.take_append_drop]
  · simp; omega
  · simp; omega

/-! ### the block-sum loop -/

theorem xbf_stop (b : Bytes) (stop f i : Nat) (acc : Bytes) (h : ¬ i + stop < b.length) :
    xorBlocksFrom b stop f i acc = (acc, i) := by
  cases f with
  | zero => rfl
  | succ f => simp only [xorBlocksFrom, h, if_false]

theorem getBlk_congr (b b' : Bytes) (k i : Nat) (hd : b.drop k = b'.drop k) (hk : k ≤ i) :
    getBlk b i = getBlk b' i := by
  have : i = k + (i - k) := by omega
  unfold getBlk
  rw [this, ← List.drop_drop, ← List.drop_drop, hd]

/-- the loop only reads the octets from offset `i` on -/
theorem xbf_congr (b b' : Bytes) (stop k : Nat) (hl : b.length = b'.length) (hd : b.drop k = b'.drop k) :
    ∀ (f i : Nat) (acc : Bytes), k ≤ i → xorBlocksFrom b stop f i acc = xorBlocksFrom b' stop f i acc := by
  intro f
  induction f with
  | zero => intro i acc _; rfl
  | succ f ih =>
    intro i acc hk
    simp only [xorBlocksFrom, hl]
    rw [getBlk_congr b b' k i hd hk, ih (i + 16) _ (by omega)]

theorem xbf_xorb (b : Bytes) (stop : Nat) : ∀ (f i : Nat) (a z : Bytes),
    (xorBlocksFrom b stop f i (xorb a z)).1 = xorb (xorBlocksFrom b stop f i a).1 z := by
  intro f
  induction f with
  | zero => intro i a z; rfl
  | succ f ih =>
    intro i a z
    simp only [xorBlocksFrom]
    split
    · rw [xorb_right_comm, ih]
    · rfl

theorem length_xbf (b : Bytes) (stop : Nat) (hs : 16 ≤ stop) : ∀ (f i : Nat) (a : Bytes), a.length ≤ 16 →
    (xorBlocksFrom b stop f i a).1.length = a.length := by
  intro f
  induction f with
  | zero => intro i a _; rfl
  | succ f ih =>
    intro i a ha
    simp only [xorBlocksFrom]
    split
    · rename_i hc
      have hl : (xorb a (getBlk b i)).length = a.length := by
        rw [length_xorb, length_getBlk]; omega
      rw [ih _ _ (by omega), hl]
    · rfl

/-- `acc + r_i + r_{i+16} + …  =  acc + (0 + r_i + r_{i+16} + …)` -/
theorem xbf_acc (b : Bytes) (stop f i : Nat) (a : Bytes) (ha : a.length ≤ 16) :
    (xorBlocksFrom b stop f i a).1 = xorb a (xorBlocksFrom b stop f i (zeros 16)).1 := by
  have h := xbf_xorb b stop f i (zeros 16) a
  rw [zeros_xorb a 16 ha] at h
  rw [h, xorb_comm]

/-- the block sum is an involution in its accumulator -/
theorem xbf_xbf (b : Bytes) (stop : Nat) (hs : 16 ≤ stop) (f i : Nat) (a : Bytes) (ha : a.length ≤ 16) :
    (xorBlocksFrom b stop f i (xorBlocksFrom b stop f i a).1).1 = a := by
  rw [xbf_acc b stop f i a ha, xbf_xorb, xbf_acc b stop f i a ha]
  apply xorb_cancel
  rw [length_xbf b stop hs f i _ (by rw [length_zeros]; omega), length_zeros]; exact ha

/-! ### Base rounds on a decomposed buffer `H ++ (M ++ T)` -/

theorem length3 (H M T : Bytes) (hH : H.length = 16) (hT : T.length = 16) :
    (H ++ (M ++ T)).length = 32 + M.length := by
  simp only [List.length_append, hH, hT]; omega

theorem roundE_form (C : Cipher) (hlen : ∀ k x, x.length = 16 → (C.enc k x).length = 16)
    (key H M T : Bytes) (hH : H.length = 16) (hT : T.length = 16) (round : Nat) :
    wblRoundEBase C key (H ++ (M ++ T)) round =
      (M ++ (xorb T (encRound C key (xorBlocksFrom (H ++ (M ++ T)) 16 (32 + M.length) 16 H).1 (round + 1))
        ++ (xorBlocksFrom (H ++ (M ++ T)) 16 (32 + M.length) 16 H).1), round + 1) := by
  have hs : (xorBlocksFrom (H ++ (M ++ T)) 16 (32 + M.length) 16 H).1.length = 16 := by
    rw [length_xbf _ 16 (by omega) _ _ _ (by omega), hH]
  simp only [wblRoundEBase, length3 H M T hH hT, List.take_left' hH, List.drop_left' hH, List.append_assoc]
  rw [xorAt_append M T _ _ _ (by omega) hT (length_encRound C hlen key _ _ hs)]

theorem roundD_form (C : Cipher) (hlen : ∀ k x, x.length = 16 → (C.enc k x).length = 16)
    (key M T S : Bytes) (hT : T.length = 16) (hS : S.length = 16) (round : Nat) :
    wblRoundDBase C key (M ++ (T ++ S)) round =
      (xorBlocksFrom (S ++ (M ++ xorb T (encRound C key S round))) 16 (32 + M.length) 16 S).1
        ++ (M ++ xorb T (encRound C key S round)) := by
  have hl : (M ++ (T ++ S)).length = 32 + M.length := by
    simp only [List.length_append, hT, hS]; omega
  have he := length_encRound C hlen key S round hS
  have hg : getBlk (M ++ (T ++ S)) (32 + M.length - 16) = S := by
    have := getBlk_append (M ++ T) S [] (32 + M.length - 16) (by simp [hT]; omega) hS
    simpa using this
  have ht : (M ++ (T ++ S)).take (32 + M.length - 16) = M ++ T := by
    rw [← List.append_assoc]; exact List.take_left' (by simp [hT]; omega)
  simp only [wblRoundDBase, hl, hg, ht]
  have hx : xorAt (S ++ (M ++ T)) (32 + M.length - 16) (encRound C key S round)
      = S ++ (M ++ xorb T (encRound C key S round)) := by
    have := xorAt_append (S ++ M) T [] (encRound C key S round) (32 + M.length - 16) (by simp [hS]; omega) hT he
    simpa using this
  rw [hx, List.take_left' hS]
  have hs : (xorBlocksFrom (S ++ (M ++ xorb T (encRound C key S round))) 16 (32 + M.length) 16 S).1.length
      = S.length := length_xbf _ 16 (by omega) _ _ _ (by omega)
  have := putAt_append [] S (M ++ xorb T (encRound C key S round)) _ 0 rfl hs
  simpa using this

theorem roundD_roundE_form (C : Cipher) (hlen : ∀ k x, x.length = 16 → (C.enc k x).length = 16)
    (key H M T : Bytes) (hH : H.length = 16) (hT : T.length = 16) (round : Nat) :
    wblRoundDBase C key (wblRoundEBase C key (H ++ (M ++ T)) round).1 (round + 1) = H ++ (M ++ T) := by
  have hs : (xorBlocksFrom (H ++ (M ++ T)) 16 (32 + M.length) 16 H).1.length = 16 := by
    rw [length_xbf _ 16 (by omega) _ _ _ (by omega), hH]
  have he := length_encRound C hlen key _ (round + 1) hs
  rw [roundE_form C hlen key H M T hH hT round]
  simp only []
  rw [roundD_form C hlen key M _ _ (by rw [length_xorb]; omega) hs (round + 1)]
  rw [xorb_cancel T _ (by omega)]
  rw [xbf_congr ((xorBlocksFrom (H ++ (M ++ T)) 16 (32 + M.length) 16 H).1 ++ (M ++ T)) (H ++ (M ++ T)) 16 16
    (by simp [hs, hH]) (by rw [List.drop_left' hs, List.drop_left' hH]) _ _ _ (Nat.le_refl _)]
  rw [xbf_xbf _ 16 (by omega) _ _ _ (by omega)]

/-- E round: length is preserved -/
theorem length_roundE (C : Cipher) (hlen : ∀ k x, x.length = 16 → (C.enc k x).length = 16)
    (key buf : Bytes) (h : 32 ≤ buf.length) (round : Nat) :
    (wblRoundEBase C key buf round).1.length = buf.length ∧ (wblRoundEBase C key buf round).2 = round + 1 := by
  obtain ⟨H, M, T, rfl, hH, hT⟩ := split3 buf h
  have hs : (xorBlocksFrom (H ++ (M ++ T)) 16 (32 + M.length) 16 H).1.length = 16 := by
    rw [length_xbf _ 16 (by omega) _ _ _ (by omega), hH]
  have he := length_encRound C hlen key _ (round + 1) hs
  rw [roundE_form C hlen key H M T hH hT round]
  simp only [List.length_append, length_xorb, hs, he, hT, hH, and_true]; omega

theorem length_roundD (C : Cipher) (hlen : ∀ k x, x.length = 16 → (C.enc k x).length = 16)
    (key buf : Bytes) (h : 32 ≤ buf.length) (round : Nat) :
    (wblRoundDBase C key buf round).length = buf.length := by
  obtain ⟨M, T, S, rfl, hT, hS⟩ := split3' buf h
  have he := length_encRound C hlen key S round hS
  rw [roundD_form C hlen key M T S hT hS round]
  simp only [List.length_append, length_xorb, length_xbf _ 16 (Nat.le_refl _) _ _ S (by omega), he, hT, hS]
  omega

theorem roundD_roundE (C : Cipher) (hlen : ∀ k x, x.length = 16 → (C.enc k x).length = 16)
    (key buf : Bytes) (h : 32 ≤ buf.length) (round : Nat) :
    wblRoundDBase C key (wblRoundEBase C key buf round).1 (round + 1) = buf := by
  obtain ⟨H, M, T, rfl, hH, hT⟩ := split3 buf h
  exact roundD_roundE_form C hlen key H M T hH hT round

/-! ### the 2n rounds -/

theorem iterE_spec (C : Cipher) (hlen : ∀ k x, x.length = 16 → (C.enc k x).length = 16) (key : Bytes)
    (n2 : Nat) : ∀ (f : Nat) (buf : Bytes) (r : Nat), 32 ≤ buf.length → 0 < f → r + f = n2 →
    (wblIterEBase C key n2 f buf r).2 = n2 ∧ (wblIterEBase C key n2 f buf r).1.length = buf.length ∧
    wblIterD (wblRoundDBase C key) n2 (wblIterEBase C key n2 f buf r).1
      = wblIterD (wblRoundDBase C key) r buf := by
  intro f
  induction f with
  | zero => intro buf r _ h0; omega
  | succ f ih =>
    intro buf r hb _ hr
    obtain ⟨hl, hr1⟩ := length_roundE C hlen key buf hb r
    have hinv := roundD_roundE C hlen key buf hb r
    simp only [wblIterEBase]
    rw [hr1]
    by_cases hc : (r + 1) % n2 ≠ 0
    · rw [if_pos hc]
      have hf : 0 < f := by
        apply Nat.pos_of_ne_zero
        intro h0; subst h0
        apply hc; rw [← hr]; simp
      obtain ⟨i1, i2, i3⟩ := ih (wblRoundEBase C key buf r).1 (r + 1) (by omega) hf (by omega)
      refine ⟨i1, by rw [i2, hl], ?_⟩
      rw [i3]; simp only [wblIterD]; rw [hinv]
    · rw [if_neg hc]
      have hn : r + 1 = n2 := by
        have hc' : (r + 1) % n2 = 0 := by omega
        have hle : r + 1 ≤ n2 := by omega
        rcases Nat.lt_or_eq_of_le hle with hlt | heq
        · rw [Nat.mod_eq_of_lt hlt] at hc'; omega
        · exact heq
      refine ⟨by rw [hr1, hn], hl, ?_⟩
      rw [← hn]; simp only [wblIterD]; rw [hinv]

theorem length_iterD (g : Bytes → Nat → Bytes) (hg : ∀ b r, 32 ≤ b.length → (g b r).length = b.length) :
    ∀ (n : Nat) (buf : Bytes), 32 ≤ buf.length → (wblIterD g n buf).length = buf.length := by
  intro n
  induction n with
  | zero => intro buf _; rfl
  | succ n ih =>
    intro buf hb
    simp only [wblIterD]
    rw [ih _ (by rw [hg _ _ hb]; exact hb), hg _ _ hb]

theorem wblN_pos (c : Nat) (h : 32 ≤ c) : 0 < 2 * wblN c := by
  unfold wblN; omega

theorem stepE_spec (C : Cipher) (hlen : ∀ k x, x.length = 16 → (C.enc k x).length = 16) (key buf : Bytes)
    (h : 32 ≤ buf.length) :
    (wblStepEBase C key buf 0).2 = 2 * wblN buf.length ∧ (wblStepEBase C key buf 0).1.length = buf.length ∧
    (wblStepDBase C key (wblStepEBase C key buf 0).1).1 = buf := by
  obtain ⟨i1, i2, i3⟩ := iterE_spec C hlen key (2 * wblN buf.length) (2 * wblN buf.length) buf 0 h
    (wblN_pos _ h) (by omega)
  refine ⟨i1, i2, ?_⟩
  simp only [wblStepDBase]
  unfold wblStepEBase at *
  simp only [] at *
  rw [i2, i3]; rfl

/-! ### beltWBLStepD2 -/

theorem xorb_split (x y1 y2 : Bytes) (a : Nat) (ha : a = y1.length) (h : a ≤ x.length) :
    xorb (x.take a) y1 ++ xorb (x.drop a) y2 = xorb x (y1 ++ y2) := by
  subst ha
  rw [← xorb_append _ _ _ _ (by simp; omega), List.take_append_drop]

/-- the loop with `i + 32 < count` followed by one conditional step is the loop with `i + 16 < count` -/
theorem xbf_32_16 (b : Bytes) : ∀ (f i : Nat) (acc : Bytes), b.length ≤ i + 16 * f →
    ((xorBlocksFrom b 16 f i acc).1 =
      if (xorBlocksFrom b 32 f i acc).2 + 16 < b.length
      then xorb (xorBlocksFrom b 32 f i acc).1 (getBlk b (xorBlocksFrom b 32 f i acc).2)
      else (xorBlocksFrom b 32 f i acc).1) ∧
    ¬ ((xorBlocksFrom b 32 f i acc).2 + 32 < b.length) ∧ i ≤ (xorBlocksFrom b 32 f i acc).2 := by
  intro f
  induction f with
  | zero =>
    intro i acc h
    have hn : ¬ (i + 16 < b.length) := by omega
    refine ⟨?_, ?_, Nat.le_refl _⟩
    · show acc = if i + 16 < b.length then xorb acc (getBlk b i) else acc
      rw [if_neg hn]
    · show ¬ (i + 32 < b.length)
      omega
  | succ f ih =>
    intro i acc h
    by_cases hc : i + 32 < b.length
    · have hc' : i + 16 < b.length := by omega
      simp only [xorBlocksFrom, hc, hc', if_true]
      obtain ⟨h1, h2, h3⟩ := ih (i + 16) (xorb acc (getBlk b i)) (by omega)
      exact ⟨h1, h2, by omega⟩
    · rw [xbf_stop b 32 _ i acc hc]
      simp only []
      refine ⟨?_, hc, Nat.le_refl _⟩
      by_cases hc' : i + 16 < b.length
      · simp only [xorBlocksFrom, hc', if_true]
        rw [xbf_stop b 16 _ (i + 16) _ (by omega)]
      · rw [xbf_stop b 16 _ i acc hc', if_neg hc']

theorem roundD2_form (C : Cipher) (hlen : ∀ k x, x.length = 16 → (C.enc k x).length = 16)
    (key M T S : Bytes) (hT : T.length = 16) (hS : S.length = 16) (round : Nat) :
    (wblRoundD2 C key (M ++ T, S) round).1 ++ (wblRoundD2 C key (M ++ T, S) round).2
      = wblRoundDBase C key (M ++ (T ++ S)) round ∧
    (wblRoundD2 C key (M ++ T, S) round).1.length = (M ++ T).length ∧
    (wblRoundD2 C key (M ++ T, S) round).2.length = 16 := by
  have he := length_encRound C hlen key S round hS
  have hT' : (xorb T (encRound C key S round)).length = 16 := by rw [length_xorb]; omega
  rw [roundD_form C hlen key M T S hT hS round]
  have hc : (M ++ T).length + 16 = 32 + M.length := by simp [hT]; omega
  have hg : getBlk (M ++ T) (32 + M.length - 32) = T := by
    have := getBlk_append M T [] (32 + M.length - 32) (by omega) hT
    simpa using this
  have ht : (M ++ T).take (32 + M.length - 32) = M := List.take_left' (by omega)
  simp only [wblRoundD2, hc, hg, ht]
  generalize hT2 : xorb T (encRound C key S round) = T2 at *
  have hfull : S ++ M ++ T2 = S ++ (M ++ T2) := List.append_assoc _ _ _
  have hflen : (S ++ (M ++ T2)).length = 32 + M.length := by simp [hS, hT']; omega
  rw [hfull, List.take_left' hS]
  obtain ⟨h1, h2, h3⟩ := xbf_32_16 (S ++ (M ++ T2)) (32 + M.length) 16 S (by omega)
  rw [hflen] at h1 h2
  generalize hj : (xorBlocksFrom (S ++ (M ++ T2)) 32 (32 + M.length) 16 S).2 = j at *
  have hsl : (xorBlocksFrom (S ++ (M ++ T2)) 32 (32 + M.length) 16 S).1.length = 16 := by
    rw [length_xbf _ 32 (by omega) _ _ _ (by omega), hS]
  generalize hs1 : (xorBlocksFrom (S ++ (M ++ T2)) 32 (32 + M.length) 16 S).1 = s1 at *
  have hr : (if j + 16 < 32 + M.length then
        xorb (s1.take (32 + M.length - 16 - j)) ((S ++ M).drop j) ++
          xorb (s1.drop (32 + M.length - 16 - j)) (T2.take (32 + j - (32 + M.length)))
      else s1) = (xorBlocksFrom (S ++ (M ++ T2)) 16 (32 + M.length) 16 S).1 := by
    rw [h1]
    by_cases hjc : j + 16 < 32 + M.length
    · rw [if_pos hjc, if_pos hjc]
      rw [xorb_split s1 _ _ _ (by simp [hS]; omega) (by omega)]
      congr 1
      unfold getBlk
      have hd : List.drop j (S ++ M ++ T2) = List.drop j (S ++ M) ++ T2 :=
        List.drop_append_of_le_length (by simp [hS]; omega)
      rw [← List.append_assoc, hd, List.take_append]
      have ht1 : List.take 16 (List.drop j (S ++ M)) = List.drop j (S ++ M) :=
        List.take_of_length_le (by simp [hS]; omega)
      rw [ht1]
      congr 2
      simp [hS]; omega
    · rw [if_neg hjc, if_neg hjc]
  rw [hr]
  generalize hs2 : (xorBlocksFrom (S ++ (M ++ T2)) 16 (32 + M.length) 16 S).1 = s2
  have hs2l : s2.length = S.length := by
    rw [← hs2]; exact length_xbf _ 16 (by omega) _ _ _ (by omega)
  have hp := putAt_append [] S M s2 0 rfl hs2l
  simp only [List.nil_append] at hp
  rw [hp]
  refine ⟨by simp, by simp [hs2l, hS, hT]; omega, hT'⟩

theorem roundD2_spec (C : Cipher) (hlen : ∀ k x, x.length = 16 → (C.enc k x).length = 16)
    (key b1 b2 : Bytes) (h1 : 16 ≤ b1.length) (h2 : b2.length = 16) (round : Nat) :
    (wblRoundD2 C key (b1, b2) round).1 ++ (wblRoundD2 C key (b1, b2) round).2
      = wblRoundDBase C key (b1 ++ b2) round ∧
    (wblRoundD2 C key (b1, b2) round).1.length = b1.length ∧
    (wblRoundD2 C key (b1, b2) round).2.length = 16 := by
  have hb : b1 = b1.take (b1.length - 16) ++ b1.drop (b1.length - 16) := (List.take_append_drop _ _).symm
  have hT : (b1.drop (b1.length - 16)).length = 16 := by simp; omega
  rw [hb, List.append_assoc]
  exact roundD2_form C hlen key _ _ b2 hT h2 round

theorem iterD2_spec (C : Cipher) (hlen : ∀ k x, x.length = 16 → (C.enc k x).length = 16) (key : Bytes) :
    ∀ (n : Nat) (b1 b2 : Bytes), 16 ≤ b1.length → b2.length = 16 →
    (wblIterD2 C key n (b1, b2)).1 ++ (wblIterD2 C key n (b1, b2)).2
      = wblIterD (wblRoundDBase C key) n (b1 ++ b2) ∧
    (wblIterD2 C key n (b1, b2)).1.length = b1.length ∧ (wblIterD2 C key n (b1, b2)).2.length = 16 := by
  intro n
  induction n with
  | zero => intro b1 b2 _ h2; exact ⟨rfl, rfl, h2⟩
  | succ n ih =>
    intro b1 b2 h1 h2
    obtain ⟨r1, r2, r3⟩ := roundD2_spec C hlen key b1 b2 h1 h2 (n + 1)
    simp only [wblIterD2, wblIterD]
    obtain ⟨i1, i2, i3⟩ := ih (wblRoundD2 C key (b1, b2) (n + 1)).1 (wblRoundD2 C key (b1, b2) (n + 1)).2
      (by omega) r3
    rw [← r1]
    exact ⟨i1, by rw [i2, r2], i3⟩

theorem stepD2_spec (C : Cipher) (hlen : ∀ k x, x.length = 16 → (C.enc k x).length = 16)
    (key b1 b2 : Bytes) (h1 : 16 ≤ b1.length) (h2 : b2.length = 16) :
    (wblStepD2 C key b1 b2).1 ++ (wblStepD2 C key b1 b2).2.1 = (wblStepDBase C key (b1 ++ b2)).1 ∧
    (wblStepD2 C key b1 b2).1.length = b1.length ∧ (wblStepD2 C key b1 b2).2.1.length = 16 ∧
    (wblStepD2 C key b1 b2).2.2 = 0 := by
  obtain ⟨i1, i2, i3⟩ := iterD2_spec C hlen key (2 * wblN (b1.length + 16)) b1 b2 h1 h2
  simp only [wblStepD2, wblStepDBase, List.length_append, h2]
  exact ⟨i1, i2, i3, trivial⟩

/-- `take`/`drop` of an append at the boundary, as one fact -/
theorem append_eq_split (x y b : Bytes) (h : x ++ y = b) (hx : x.length = b.length - 16) :
    x = b.take (b.length - 16) ∧ y = b.drop (b.length - 16) := by
  subst h
  rw [← hx]
  exact ⟨(List.take_left (l₁ := x) (l₂ := y)).symm, (List.drop_left (l₁ := x) (l₂ := y)).symm⟩

theorem length_stepD (C : Cipher) (hlen : ∀ k x, x.length = 16 → (C.enc k x).length = 16)
    (key buf : Bytes) (h : 32 ≤ buf.length) : (wblStepDBase C key buf).1.length = buf.length :=
  length_iterD _ (fun b r hb => length_roundD C hlen key b hb r) _ buf h

/-- `beltWBLStepD2` on the split token = `beltWBLStepDBase` on the whole token -/
theorem stepD2_split (C : Cipher) (hlen : ∀ k x, x.length = 16 → (C.enc k x).length = 16)
    (key buf : Bytes) (h : 32 ≤ buf.length) :
    wblStepD2 C key (buf.take (buf.length - 16)) (buf.drop (buf.length - 16)) =
      ((wblStepDBase C key buf).1.take (buf.length - 16), (wblStepDBase C key buf).1.drop (buf.length - 16), 0) := by
  obtain ⟨i1, i2, i3, i4⟩ := stepD2_spec C hlen key (buf.take (buf.length - 16)) (buf.drop (buf.length - 16))
    (by simp; omega) (by simp; omega)
  rw [List.take_append_drop] at i1
  have hl := length_stepD C hlen key buf h
  obtain ⟨e1, e2⟩ := append_eq_split _ _ _ i1 (by rw [i2, hl]; simp)
  rw [hl] at e1 e2
  generalize wblStepD2 C key (buf.take (buf.length - 16)) (buf.drop (buf.length - 16)) = r at *
  obtain ⟨r1, r2, r3⟩ := r
  simp only [] at e1 e2 i4
  rw [e1, e2, i4]

/-! ### KWP -/

theorem kwpUnwrap_char (C : Cipher) (hlen : ∀ k x, x.length = 16 → (C.enc k x).length = 16)
    (tok : Bytes) (header : Option Bytes) (key : Bytes) :
    kwpUnwrap C tok header key =
      if tok.length < 32 ∨ validKeyLen key.length = false then (.badInput, none)
      else if (wblStepDBase C (fmtKey key) tok).1.drop (tok.length - 16) = header.getD (zeros 16)
        then (.ok, some ((wblStepDBase C (fmtKey key) tok).1.take (tok.length - 16)))
        else (.badKeytoken, some (zeros (tok.length - 16))) := by
  unfold kwpUnwrap
  by_cases h1 : tok.length < 32
  · simp [h1]
  · by_cases h2 : validKeyLen key.length = false
    · simp [h2]
    · have h2' : validKeyLen key.length = true := by simpa using h2
      have hc1 : (decide (tok.length < 32) || !validKeyLen key.length) = false := by simp [h1, h2']
      have hc2 : ¬ (tok.length < 32 ∨ validKeyLen key.length = false) := by simp [h1, h2']
      rw [if_neg hc2]
      simp only [hc1, Bool.false_eq_true, if_false]
      rw [stepD2_split C hlen (fmtKey key) tok (by omega)]
      simp only []
      cases header with
      | none =>
        simp only [Option.getD_none]
        by_cases h3 : List.drop (tok.length - 16) (wblStepDBase C (fmtKey key) tok).1 = zeros 16
        · simp [h3]
        · simp [h3]
      | some hd =>
        simp only [Option.getD_some]
        by_cases h3 : List.drop (tok.length - 16) (wblStepDBase C (fmtKey key) tok).1 = hd
        · simp [h3]
        · have h3' : ¬ hd = List.drop (tok.length - 16) (wblStepDBase C (fmtKey key) tok).1 := fun e => h3 e.symm
          simp [h3, h3']

/-! ### SDE -/

theorem xorAt0_xorAt0 (buf s : Bytes) (hb : 16 ≤ buf.length) (hs : s.length = 16) :
    xorAt (xorAt buf 0 s) 0 s = buf ∧ (xorAt buf 0 s).length = buf.length := by
  have hb' : buf = [] ++ (buf.take 16 ++ buf.drop 16) := by simp
  have hH : (buf.take 16).length = 16 := by simp; omega
  rw [hb', xorAt_append [] _ _ s 0 rfl hH hs, xorAt_append [] _ _ s 0 rfl (by rw [length_xorb]; omega) hs,
    xorb_cancel _ _ (by omega)]
  simp [length_xorb, hs]; omega

/-! ### Opt = Base, E direction -/

/-- `r1 + … + r_{n-1}` as computed by `beltWBLStepEBase` / at the start of `beltWBLStepEOpt` -/
def xs (b : Bytes) : Bytes := (xorBlocksFrom b 16 b.length 16 (b.take 16)).1

/-- cyclic view of the Opt buffer: the Base buffer is the Opt buffer read from offset `i` -/
def rot (b : Bytes) (i : Nat) : Bytes := b.drop i ++ b.take i

theorem xbf_shift (A b : Bytes) (stop : Nat) : ∀ (f i : Nat) (acc : Bytes),
    (xorBlocksFrom (A ++ b) stop f (A.length + i) acc).1 = (xorBlocksFrom b stop f i acc).1 := by
  intro f
  induction f with
  | zero => intro i acc; rfl
  | succ f ih =>
    intro i acc
    have hg : getBlk (A ++ b) (A.length + i) = getBlk b i := by
      unfold getBlk; rw [← List.drop_drop, List.drop_left]
    simp only [xorBlocksFrom, List.length_append]
    by_cases h : i + stop < b.length
    · rw [if_pos (by omega), if_pos h, hg, Nat.add_assoc, ih]
    · rw [if_neg (by omega), if_neg h]

theorem xbf_shift0 (A b : Bytes) (stop k : Nat) (hk : A.length = k) (f : Nat) (acc : Bytes) :
    (xorBlocksFrom (A ++ b) stop f k acc).1 = (xorBlocksFrom b stop f 0 acc).1 := by
  have := xbf_shift A b stop f 0 acc
  rw [Nat.add_zero, hk] at this
  exact this

theorem xbf_fuel (b : Bytes) (stop : Nat) : ∀ (f f' i : Nat) (acc : Bytes),
    b.length ≤ i + stop + 16 * f → b.length ≤ i + stop + 16 * f' →
    xorBlocksFrom b stop f i acc = xorBlocksFrom b stop f' i acc := by
  intro f
  induction f with
  | zero =>
    intro f' i acc h _
    rw [xbf_stop b stop 0 i acc (by omega), xbf_stop b stop f' i acc (by omega)]
  | succ f ih =>
    intro f' i acc h h'
    cases f' with
    | zero => rw [xbf_stop b stop 0 i acc (by omega), xbf_stop b stop (f + 1) i acc (by omega)]
    | succ f' =>
      simp only [xorBlocksFrom]
      split
      · exact ih f' (i + 16) _ (by omega) (by omega)
      · rfl

/-- replacing the last two blocks `Y ‖ Z` of an aligned buffer by one block `R` removes `Y` from the sum -/
theorem xbf_swap_tail (Y Z R : Bytes) (hY : Y.length = 16) (hZ : Z.length = 16) (hR : R.length = 16) :
    ∀ (f : Nat) (M acc : Bytes), M.length % 16 = 0 → M.length + 16 ≤ 16 * f →
    (xorBlocksFrom (M ++ (Y ++ Z)) 16 f 0 acc).1 = xorb (xorBlocksFrom (M ++ R) 16 f 0 acc).1 Y := by
  intro f
  induction f with
  | zero => intro M acc _ h; omega
  | succ f ih =>
    intro M acc hM hf
    by_cases h0 : M.length = 0
    · have : M = [] := List.eq_nil_of_length_eq_zero h0
      subst this
      have hg : getBlk (Y ++ Z) 0 = Y := by
        have := getBlk_append [] Y Z 0 rfl hY
        simpa using this
      simp only [List.nil_append, xorBlocksFrom, List.length_append, hY, hZ, hR]
      rw [if_pos (by omega), if_neg (by omega), hg, xbf_stop _ _ _ _ _ (by simp [hY, hZ])]
    · have hB : (M.take 16).length = 16 := by simp; omega
      have hM' : M = M.take 16 ++ M.drop 16 := (List.take_append_drop _ _).symm
      generalize M.take 16 = B at hB hM'
      generalize M.drop 16 = M' at hM'
      subst hM'
      have hl : (B ++ M').length = 16 + M'.length := by simp [hB]
      rw [hl] at hM hf
      have hg1 : getBlk (B ++ M' ++ (Y ++ Z)) 0 = B := by
        have := getBlk_append [] B (M' ++ (Y ++ Z)) 0 rfl hB
        simpa using this
      have hg2 : getBlk (B ++ M' ++ R) 0 = B := by
        have := getBlk_append [] B (M' ++ R) 0 rfl hB
        simpa using this
      simp only [xorBlocksFrom, List.length_append, hY, hZ, hR, hB]
      rw [if_pos (by omega), if_pos (by omega), hg1, hg2]
      rw [List.append_assoc, List.append_assoc, xbf_shift0 B _ 16 (0 + 16) (by omega),
        xbf_shift0 B _ 16 (0 + 16) (by omega)]
      exact ih M' _ (by omega) (by omega)

theorem xs_eq0 (b : Bytes) (h : 16 < b.length) :
    xs b = (xorBlocksFrom b 16 (b.length + 1) 0 (zeros 16)).1 := by
  unfold xs
  simp only [xorBlocksFrom]
  rw [if_pos (by omega)]
  have : getBlk b 0 = b.take 16 := by simp [getBlk]
  rw [this, zeros_xorb _ 16 (by simp; omega)]

theorem length_xs (b : Bytes) (h : 16 ≤ b.length) : (xs b).length = 16 := by
  unfold xs
  rw [length_xbf _ 16 (by omega) _ _ _ (by simp; omega)]; simp; omega

/-- the sum of the next round from the sum of this round (the update done by `beltWBLStepEOpt`) -/
theorem xs_next (R1 M Rs Y Z : Bytes) (h1 : R1.length = 16) (hs : Rs.length = 16) (hY : Y.length = 16)
    (hZ : Z.length = 16) (hM : M.length % 16 = 0) :
    xs (M ++ (Y ++ Z)) = xorb (xorb (xs (R1 ++ (M ++ Rs))) Y) R1 := by
  have hl2 : (M ++ (Y ++ Z)).length = M.length + 32 := by simp [hY, hZ]
  have hl1 : (R1 ++ (M ++ Rs)).length = M.length + 32 := by simp [h1, hs]; omega
  rw [xs_eq0 _ (by omega), hl2, xbf_swap_tail Y Z Rs hY hZ hs _ M _ hM (by omega)]
  have e : xs (R1 ++ (M ++ Rs)) = xorb R1 (xorBlocksFrom (M ++ Rs) 16 (M.length + 32 + 1) 0 (zeros 16)).1 := by
    unfold xs
    rw [hl1, List.take_left' h1]
    rw [xbf_shift0 R1 _ 16 16 h1, xbf_acc _ _ _ _ R1 (by omega),
      xbf_fuel (M ++ Rs) 16 (M.length + 32) (M.length + 32 + 1) 0 _ (by simp [hs]; omega) (by simp [hs]; omega)]
  rw [e]
  generalize hW : (xorBlocksFrom (M ++ Rs) 16 (M.length + 32 + 1) 0 (zeros 16)).1 = W
  have hWl : W.length = 16 := by
    rw [← hW, length_xbf _ 16 (by omega) _ _ _ (by simp [length_zeros]), length_zeros]
  rw [xorb_right_comm (xorb R1 W) Y R1, xorb_comm R1 W, xorb_cancel W R1 (by omega)]

theorem roundE_form' (C : Cipher) (hlen : ∀ k x, x.length = 16 → (C.enc k x).length = 16)
    (key H M T : Bytes) (hH : H.length = 16) (hT : T.length = 16) (round : Nat) :
    wblRoundEBase C key (H ++ (M ++ T)) round =
      (M ++ (xorb T (encRound C key (xs (H ++ (M ++ T))) (round + 1)) ++ xs (H ++ (M ++ T))), round + 1) := by
  have : xs (H ++ (M ++ T)) = (xorBlocksFrom (H ++ (M ++ T)) 16 (32 + M.length) 16 H).1 := by
    unfold xs; rw [length3 H M T hH hT, List.take_left' hH]
  rw [this]; exact roundE_form C hlen key H M T hH hT round

theorem split4 (b : Bytes) (i : Nat) (h16 : 16 ≤ i) (hi : i + 16 ≤ b.length) :
    ∃ P Rs R1 S : Bytes, b = P ++ (Rs ++ (R1 ++ S)) ∧ P.length = i - 16 ∧ Rs.length = 16 ∧ R1.length = 16 := by
  refine ⟨b.take (i - 16), (b.drop (i - 16)).take 16, ((b.drop (i - 16)).drop 16).take 16,
    ((b.drop (i - 16)).drop 16).drop 16, ?_, ?_, ?_, ?_⟩
  · rw [List.take_append_drop, List.take_append_drop, List.take_append_drop]
  · simp; omega
  · simp; omega
  · simp; omega

/-- Opt round, `i = 0`: the buffer is `r1 ‖ S ‖ r*` -/
theorem roundEOpt_A (C : Cipher) (hlen : ∀ k x, x.length = 16 → (C.enc k x).length = 16)
    (key R1 S Rs sum : Bytes) (h1 : R1.length = 16) (hs : Rs.length = 16) (hsum : sum.length = 16) (r : Nat) :
    wblRoundEOpt C key (R1 ++ (S ++ Rs), sum, 0, r) =
      (sum ++ (S ++ xorb Rs (encRound C key sum (r + 1))),
       xorb (xorb sum (xorb Rs (encRound C key sum (r + 1)))) R1, 16, r + 1) := by
  have he := length_encRound C hlen key sum (r + 1) hsum
  generalize hblk : encRound C key sum (r + 1) = blk at *
  have hl : (R1 ++ (S ++ Rs)).length = 32 + S.length := by simp [h1, hs]; omega
  have hj : (0 + (32 + S.length) - 16) % (32 + S.length) = 16 + S.length := by
    rw [Nat.mod_eq_of_lt (by omega)]; omega
  have hx : xorAt (R1 ++ (S ++ Rs)) (16 + S.length) blk = R1 ++ (S ++ xorb Rs blk) := by
    have := xorAt_append (R1 ++ S) Rs [] blk (16 + S.length) (by simp [h1]) hs he
    simpa using this
  have hg1 : getBlk (R1 ++ (S ++ xorb Rs blk)) (16 + S.length) = xorb Rs blk := by
    have := getBlk_append (R1 ++ S) (xorb Rs blk) [] (16 + S.length) (by simp [h1]) (by rw [length_xorb]; omega)
    simpa using this
  have hg2 : getBlk (R1 ++ (S ++ xorb Rs blk)) 0 = R1 := by
    have := getBlk_append [] R1 (S ++ xorb Rs blk) 0 rfl h1
    simpa using this
  have hp : putAt (R1 ++ (S ++ xorb Rs blk)) 0 sum = sum ++ (S ++ xorb Rs blk) := by
    have := putAt_append [] R1 (S ++ xorb Rs blk) sum 0 rfl (by omega)
    simpa using this
  simp only [wblRoundEOpt, hblk, hl, hj, hx, hg1, hg2, hp]
  rw [Nat.mod_eq_of_lt (by omega)]

/-- Opt round, `i > 0`: the buffer is `P ‖ r* ‖ r1 ‖ S` with `i = |P| + 16` -/
theorem roundEOpt_B (C : Cipher) (hlen : ∀ k x, x.length = 16 → (C.enc k x).length = 16)
    (key P Rs R1 S sum : Bytes) (h1 : R1.length = 16) (hs : Rs.length = 16) (hsum : sum.length = 16) (r : Nat) :
    wblRoundEOpt C key (P ++ (Rs ++ (R1 ++ S)), sum, P.length + 16, r) =
      (P ++ (xorb Rs (encRound C key sum (r + 1)) ++ (sum ++ S)),
       xorb (xorb sum (xorb Rs (encRound C key sum (r + 1)))) R1,
       (P.length + 16 + 16) % (P.length + 32 + S.length), r + 1) := by
  have he := length_encRound C hlen key sum (r + 1) hsum
  generalize hblk : encRound C key sum (r + 1) = blk at *
  have hl : (P ++ (Rs ++ (R1 ++ S))).length = P.length + 32 + S.length := by simp [h1, hs]; omega
  have hj : (P.length + 16 + (P.length + 32 + S.length) - 16) % (P.length + 32 + S.length) = P.length := by
    have : P.length + 16 + (P.length + 32 + S.length) - 16 = P.length + (P.length + 32 + S.length) := by omega
    rw [this, Nat.add_mod_right, Nat.mod_eq_of_lt (by omega)]
  have hx : xorAt (P ++ (Rs ++ (R1 ++ S))) P.length blk = P ++ (xorb Rs blk ++ (R1 ++ S)) :=
    xorAt_append P Rs (R1 ++ S) blk P.length rfl hs he
  have hrl : (xorb Rs blk).length = 16 := by rw [length_xorb]; omega
  have hg1 : getBlk (P ++ (xorb Rs blk ++ (R1 ++ S))) P.length = xorb Rs blk :=
    getBlk_append P (xorb Rs blk) (R1 ++ S) P.length rfl hrl
  have hg2 : getBlk (P ++ (xorb Rs blk ++ (R1 ++ S))) (P.length + 16) = R1 := by
    have := getBlk_append (P ++ xorb Rs blk) R1 S (P.length + 16) (by simp [hrl]) h1
    simpa using this
  have hp : putAt (P ++ (xorb Rs blk ++ (R1 ++ S))) (P.length + 16) sum = P ++ (xorb Rs blk ++ (sum ++ S)) := by
    have := putAt_append (P ++ xorb Rs blk) R1 S sum (P.length + 16) (by simp [hrl]) (by omega)
    simpa using this
  simp only [wblRoundEOpt, hblk, hl, hj, hx, hg1, hg2, hp]

theorem rot_zero (b : Bytes) : rot b 0 = b := by simp [rot]

theorem rot_append_mod (X S : Bytes) : rot (X ++ S) (X.length % (X ++ S).length) = S ++ X := by
  by_cases h : S.length = 0
  · have : S = [] := List.eq_nil_of_length_eq_zero h
    subst this
    simp [rot]
  · rw [Nat.mod_eq_of_lt (by simp; omega)]
    simp [rot]

/-- one Opt round simulates one Base round on the rotated buffer -/
theorem simE (C : Cipher) (hlen : ∀ k x, x.length = 16 → (C.enc k x).length = 16)
    (key bO : Bytes) (i r : Nat) (hc : bO.length % 16 = 0) (h32 : 32 ≤ bO.length)
    (hi : i % 16 = 0) (hic : i < bO.length) :
    (wblRoundEOpt C key (bO, xs (rot bO i), i, r)).1.length = bO.length ∧
    (wblRoundEOpt C key (bO, xs (rot bO i), i, r)).2.2.1 = (i + 16) % bO.length ∧
    (wblRoundEOpt C key (bO, xs (rot bO i), i, r)).2.2.2 = r + 1 ∧
    rot (wblRoundEOpt C key (bO, xs (rot bO i), i, r)).1 ((i + 16) % bO.length)
      = (wblRoundEBase C key (rot bO i) r).1 ∧
    (wblRoundEOpt C key (bO, xs (rot bO i), i, r)).2.1 = xs (wblRoundEBase C key (rot bO i) r).1 := by
  by_cases h0 : i = 0
  · subst h0
    obtain ⟨R1, S, Rs, rfl, h1, hs⟩ := split3 bO h32
    rw [rot_zero]
    have hl : (R1 ++ (S ++ Rs)).length = 32 + S.length := length3 R1 S Rs h1 hs
    have hsum := length_xs (R1 ++ (S ++ Rs)) (by omega)
    generalize hsm : xs (R1 ++ (S ++ Rs)) = sum at *
    have he := length_encRound C hlen key sum (r + 1) hsum
    rw [roundEOpt_A C hlen key R1 S Rs sum h1 hs hsum r, roundE_form' C hlen key R1 S Rs h1 hs r, hsm]
    simp only []
    have hrl : (xorb Rs (encRound C key sum (r + 1))).length = 16 := by rw [length_xorb]; omega
    rw [hl, Nat.zero_add, Nat.mod_eq_of_lt (by omega)]
    refine ⟨by simp [hsum, hrl]; omega, by first | rfl | trivial, by first | rfl | trivial, ?_, ?_⟩
    · have := rot_append_mod sum (S ++ xorb Rs (encRound C key sum (r + 1)))
      rw [Nat.mod_eq_of_lt (by simp [hsum, hrl]), hsum] at this
      rw [this, List.append_assoc]
    · rw [hl] at hc
      rw [xs_next R1 S Rs _ sum h1 hs hrl hsum (by omega), hsm]
  · obtain ⟨P, Rs, R1, S, rfl, hP, hs, h1⟩ := split4 bO i (by omega) (by omega)
    have hl : (P ++ (Rs ++ (R1 ++ S))).length = P.length + 32 + S.length := by simp [h1, hs]; omega
    have hi' : i = P.length + 16 := by omega
    subst hi'
    have hrot : rot (P ++ (Rs ++ (R1 ++ S))) (P.length + 16) = R1 ++ ((S ++ P) ++ Rs) := by
      have : P ++ (Rs ++ (R1 ++ S)) = (P ++ Rs) ++ (R1 ++ S) := by simp
      unfold rot
      rw [this, List.drop_left' (by simp [hs]), List.take_left' (by simp [hs])]
      simp
    rw [hrot]
    have hrl' : (R1 ++ ((S ++ P) ++ Rs)).length = P.length + 32 + S.length := by simp [h1, hs]; omega
    have hsum := length_xs (R1 ++ ((S ++ P) ++ Rs)) (by omega)
    generalize hsm : xs (R1 ++ ((S ++ P) ++ Rs)) = sum at *
    have he := length_encRound C hlen key sum (r + 1) hsum
    rw [roundEOpt_B C hlen key P Rs R1 S sum h1 hs hsum r, roundE_form' C hlen key R1 (S ++ P) Rs h1 hs r, hsm]
    simp only []
    have hrl : (xorb Rs (encRound C key sum (r + 1))).length = 16 := by rw [length_xorb]; omega
    rw [hl]
    refine ⟨by simp [hsum, hrl]; omega, by first | rfl | trivial, by first | rfl | trivial, ?_, ?_⟩
    · have := rot_append_mod (P ++ (xorb Rs (encRound C key sum (r + 1)) ++ sum)) S
      have e1 : (P ++ (xorb Rs (encRound C key sum (r + 1)) ++ sum)).length = P.length + 16 + 16 := by
        simp [hsum, hrl]
      have e2 : ((P ++ (xorb Rs (encRound C key sum (r + 1)) ++ sum)) ++ S).length = P.length + 32 + S.length := by
        simp [hsum, hrl]; omega
      rw [e1, e2] at this
      have e3 : P ++ (xorb Rs (encRound C key sum (r + 1)) ++ (sum ++ S))
          = (P ++ (xorb Rs (encRound C key sum (r + 1)) ++ sum)) ++ S := by simp
      rw [e3, this, List.append_assoc]
    · rw [hl] at hc
      rw [xs_next R1 (S ++ P) Rs _ sum h1 hs hrl hsum (by simp; omega), hsm]

theorem two_n (c : Nat) (h : c % 16 = 0) : 16 * (2 * wblN c) = 2 * c := by
  unfold wblN; omega

theorem iterEOpt_spec (C : Cipher) (hlen : ∀ k x, x.length = 16 → (C.enc k x).length = 16) (key : Bytes)
    (c : Nat) (hc16 : c % 16 = 0) (hc32 : 32 ≤ c) :
    ∀ (f : Nat) (bO : Bytes) (i r : Nat), bO.length = c → i = (16 * r) % c → i % 16 = 0 →
    r + f = 2 * wblN c → 0 < f →
    (wblIterEOpt C key (2 * wblN c) f (bO, xs (rot bO i), i, r)).1
      = (wblIterEBase C key (2 * wblN c) f (rot bO i) r).1 ∧
    (wblIterEOpt C key (2 * wblN c) f (bO, xs (rot bO i), i, r)).2.2.2
      = (wblIterEBase C key (2 * wblN c) f (rot bO i) r).2 := by
  intro f
  induction f with
  | zero => intro bO i r _ _ _ _ h; omega
  | succ f ih =>
    intro bO i r hb hi hi16 hr _
    have hic : i < bO.length := by rw [hi, hb]; exact Nat.mod_lt _ (by omega)
    obtain ⟨s1, s2, s3, s4, s5⟩ := simE C hlen key bO i r (by omega) (by omega) hi16 hic
    have hrotl : (rot bO i).length = bO.length := by simp [rot]; omega
    obtain ⟨b1, b2⟩ := length_roundE C hlen key (rot bO i) (by omega) r
    simp only [wblIterEOpt, wblIterEBase]
    generalize wblRoundEOpt C key (bO, xs (rot bO i), i, r) = so at *
    obtain ⟨bO', sum', i', r'⟩ := so
    simp only [] at s1 s2 s3 s4 s5
    subst s3
    rw [b2]
    have hi1 : i' = (16 * (r + 1)) % c := by
      rw [s2, hi, hb, Nat.mod_add_mod]; congr 1
    have hi1' : i' % 16 = 0 := by
      rw [s2]
      by_cases hlt : i + 16 < bO.length
      · rw [Nat.mod_eq_of_lt hlt]; omega
      · have : i + 16 = bO.length := by omega
        rw [this, Nat.mod_self]
    by_cases hcnd : (r + 1) % (2 * wblN c) ≠ 0
    · rw [if_pos hcnd, if_pos hcnd]
      have hf : 0 < f := by
        apply Nat.pos_of_ne_zero
        intro h0; subst h0
        apply hcnd; rw [← hr]; simp
      have := ih bO' i' (r + 1) (by omega) hi1 hi1' (by omega) hf
      rw [← s2] at s4
      rw [s5, ← s4]
      exact this
    · rw [if_neg hcnd, if_neg hcnd]
      have hn : r + 1 = 2 * wblN c := by
        have hc' : (r + 1) % (2 * wblN c) = 0 := by omega
        have hle : r + 1 ≤ 2 * wblN c := by omega
        rcases Nat.lt_or_eq_of_le hle with hlt | heq
        · rw [Nat.mod_eq_of_lt hlt] at hc'; omega
        · exact heq
      have hz : i' = 0 := by
        rw [hi1, hn, two_n c hc16, Nat.mul_mod_left]
      rw [← s2, hz, rot_zero] at s4
      exact ⟨s4, b2.symm⟩

/-- `beltWBLStepEOpt` computes the same buffer and round counter as `beltWBLStepEBase` on every buffer
made of at least two whole blocks (entered with `st->round = 0`) -/
theorem stepEOpt_eq_Base (C : Cipher) (hlen : ∀ k x, x.length = 16 → (C.enc k x).length = 16)
    (key buf : Bytes) (h16 : buf.length % 16 = 0) (h32 : 32 ≤ buf.length) :
    wblStepEOpt C key buf 0 = wblStepEBase C key buf 0 := by
  obtain ⟨e1, e2⟩ := iterEOpt_spec C hlen key buf.length h16 h32 (2 * wblN buf.length) buf 0 0 rfl
    (by simp) rfl (by omega) (wblN_pos _ h32)
  rw [rot_zero] at e1 e2
  unfold wblStepEOpt wblStepEBase
  simp only []
  have hx : (xorBlocksFrom buf 16 buf.length 16 (buf.take 16)).1 = xs buf := rfl
  rw [hx, e1, e2]

/-! ### Opt = Base, D direction -/

/-- `r1 + … + r_{n-2}` as computed at the start of `beltWBLStepDOpt` -/
def xs2 (b : Bytes) : Bytes := (xorBlocksFrom b 32 b.length 16 (b.take 16)).1

theorem xbf_succ (b : Bytes) (stop f i : Nat) (acc : Bytes) (h : i + stop < b.length) :
    xorBlocksFrom b stop (f + 1) i acc = xorBlocksFrom b stop f (i + 16) (xorb acc (getBlk b i)) := by
  simp only [xorBlocksFrom, h, if_true]

theorem xbf_tail (b Z : Bytes) (stop : Nat) (hs : 16 ≤ stop) : ∀ (f i : Nat) (acc : Bytes),
    xorBlocksFrom (b ++ Z) (stop + Z.length) f i acc = xorBlocksFrom b stop f i acc := by
  intro f
  induction f with
  | zero => intro i acc; rfl
  | succ f ih =>
    intro i acc
    simp only [xorBlocksFrom, List.length_append]
    by_cases h : i + stop < b.length
    · have hg : getBlk (b ++ Z) i = getBlk b i := by
        unfold getBlk
        rw [List.drop_append_of_le_length (by omega), List.take_append_of_le_length (by simp; omega)]
      rw [if_pos (by omega), if_pos h, hg, ih]
    · rw [if_neg (by omega), if_neg h]

/-- the sum of all blocks of `M` does not depend on the block that follows, nor on the fuel -/
theorem xbf_indep (M R R' : Bytes) (hR : R.length = 16) (hR' : R'.length = 16) (hM : M.length % 16 = 0)
    (f f' : Nat) (hf : M.length + 16 ≤ 16 * f) (hf' : M.length + 16 ≤ 16 * f') (acc : Bytes) (ha : acc.length ≤ 16) :
    (xorBlocksFrom (M ++ R) 16 f 0 acc).1 = (xorBlocksFrom (M ++ R') 16 f' 0 acc).1 := by
  have h1 := xbf_swap_tail (zeros 16) (zeros 16) R (length_zeros 16) (length_zeros 16) hR f M acc hM hf
  have h2 := xbf_swap_tail (zeros 16) (zeros 16) R' (length_zeros 16) (length_zeros 16) hR' f' M acc hM hf'
  have hl : (M ++ (zeros 16 ++ zeros 16)).length = M.length + 32 := by simp [length_zeros]
  rw [xbf_fuel _ 16 f f' 0 acc (by rw [hl]; omega) (by rw [hl]; omega), h2] at h1
  rw [xorb_zeros _ 16 (by rw [length_xbf _ 16 (by omega) _ _ _ ha]; exact ha),
    xorb_zeros _ 16 (by rw [length_xbf _ 16 (by omega) _ _ _ ha]; exact ha)] at h1
  exact h1.symm

theorem xs2_eq (M T S : Bytes) (hT : T.length = 16) (hS : S.length = 16) (hM : 16 ≤ M.length) :
    xs2 (M ++ (T ++ S)) = (xorBlocksFrom (M ++ T) 16 (M.length + 32 + 1) 0 (zeros 16)).1 := by
  have hl : (M ++ (T ++ S)).length = M.length + 32 := by simp [hT, hS]
  have e : xs2 (M ++ (T ++ S)) = (xorBlocksFrom (M ++ (T ++ S)) 32 (M.length + 32 + 1) 0 (zeros 16)).1 := by
    unfold xs2
    rw [xbf_succ _ 32 (M.length + 32) 0 _ (by omega), hl]
    have : getBlk (M ++ (T ++ S)) 0 = (M ++ (T ++ S)).take 16 := by simp [getBlk]
    rw [this, zeros_xorb _ 16 (by simp; omega)]
  have := xbf_tail (M ++ T) S 16 (by omega) (M.length + 32 + 1) 0 (zeros 16)
  rw [hS, List.append_assoc] at this
  rw [e, this]

/-- new `r1` of a D round: `r* + (r1 + … + r_{n-2})` -/
theorem dsum_r1 (M T T' S : Bytes) (hT : T.length = 16) (hT' : T'.length = 16) (hS : S.length = 16)
    (hM : M.length % 16 = 0) (hM16 : 16 ≤ M.length) :
    (xorBlocksFrom (S ++ (M ++ T')) 16 (32 + M.length) 16 S).1 = xorb S (xs2 (M ++ (T ++ S))) := by
  rw [xbf_shift0 S _ 16 16 hS, xbf_acc _ _ _ _ S (by omega), xs2_eq M T S hT hS hM16,
    xbf_indep M T' T hT' hT hM (32 + M.length) (M.length + 32 + 1) (by omega) (by omega) _ (by simp [length_zeros])]

/-- the update of `sum` done by a round of `beltWBLStepDOpt` -/
theorem dsum_next (N1 M' Q T T' S : Bytes) (hN : N1.length = 16) (hQ : Q.length = 16) (hT : T.length = 16)
    (hT' : T'.length = 16) (hS : S.length = 16) (hM : M'.length % 16 = 0) :
    xs2 (N1 ++ (M' ++ (Q ++ T'))) = xorb (xorb (xs2 ((M' ++ Q) ++ (T ++ S))) Q) N1 := by
  have hz : (zeros 16).length ≤ 16 := by simp [length_zeros]
  have hl : (N1 ++ (M' ++ (Q ++ T'))).length = M'.length + 48 := by simp [hN, hQ, hT']; omega
  have e1 : xs2 (N1 ++ (M' ++ (Q ++ T'))) = xorb N1 (xorBlocksFrom (M' ++ Q) 16 (M'.length + 48) 0 (zeros 16)).1 := by
    unfold xs2
    rw [hl, List.take_left' hN, xbf_shift0 N1 _ 32 16 hN, xbf_acc _ _ _ _ N1 (by omega)]
    have := xbf_tail (M' ++ Q) T' 16 (by omega) (M'.length + 48) 0 (zeros 16)
    rw [hT', List.append_assoc] at this
    rw [this]
  have e2 : xs2 ((M' ++ Q) ++ (T ++ S)) = xorb (xorBlocksFrom (M' ++ Q) 16 (M'.length + 48) 0 (zeros 16)).1 Q := by
    rw [xs2_eq (M' ++ Q) T S hT hS (by simp [hQ]), List.append_assoc,
      xbf_swap_tail Q T Q hQ hT hQ _ M' _ hM (by simp [hQ]; omega)]
    congr 1
    exact xbf_indep M' Q Q hQ hQ hM _ _ (by simp [hQ]; omega) (by omega) _ hz
  rw [e1, e2]
  generalize hA : (xorBlocksFrom (M' ++ Q) 16 (M'.length + 48) 0 (zeros 16)).1 = A
  have hAl : A.length = 16 := by
    rw [← hA, length_xbf _ 16 (by omega) _ _ _ hz, length_zeros]
  rw [xorb_cancel A Q (by omega), xorb_comm]

/-- Opt D round, `i ≥ 32`: the buffer is `P ‖ r_{n-2} ‖ r_{n-1} ‖ r* ‖ U`, `i = |P| + 32` -/
theorem roundDOpt_a (C : Cipher) (hlen : ∀ k x, x.length = 16 → (C.enc k x).length = 16)
    (key P Q T S U sum : Bytes) (hQ : Q.length = 16) (hT : T.length = 16) (hS : S.length = 16)
    (hsum : sum.length = 16) (round : Nat) :
    wblRoundDOpt C key (P ++ (Q ++ (T ++ (S ++ U))), sum, P.length + 32) round =
      (P ++ (Q ++ (xorb T (encRound C key S round) ++ (xorb S sum ++ U))),
       xorb (xorb sum Q) (xorb S sum), P.length + 16) := by
  have he := length_encRound C hlen key S round hS
  generalize hblk : encRound C key S round = blk at *
  have hT' : (xorb T blk).length = 16 := by rw [length_xorb]; omega
  have hN : (xorb S sum).length = 16 := by rw [length_xorb]; omega
  have hl : (P ++ (Q ++ (T ++ (S ++ U)))).length = P.length + 48 + U.length := by simp [hQ, hT, hS]; omega
  have hj : (P.length + 32 + (P.length + 48 + U.length) - 16) % (P.length + 48 + U.length) = P.length + 16 := by
    have : P.length + 32 + (P.length + 48 + U.length) - 16 = P.length + 16 + (P.length + 48 + U.length) := by omega
    rw [this, Nat.add_mod_right, Nat.mod_eq_of_lt (by omega)]
  have hq : (P.length + 32 + (P.length + 48 + U.length) - 32) % (P.length + 48 + U.length) = P.length := by
    have : P.length + 32 + (P.length + 48 + U.length) - 32 = P.length + (P.length + 48 + U.length) := by omega
    rw [this, Nat.add_mod_right, Nat.mod_eq_of_lt (by omega)]
  have hg0 : getBlk (P ++ (Q ++ (T ++ (S ++ U)))) (P.length + 32) = S := by
    have := getBlk_append (P ++ (Q ++ T)) S U (P.length + 32) (by simp [hQ, hT]) hS
    simpa using this
  have hx1 : xorAt (P ++ (Q ++ (T ++ (S ++ U)))) (P.length + 16) blk = P ++ (Q ++ (xorb T blk ++ (S ++ U))) := by
    have := xorAt_append (P ++ Q) T (S ++ U) blk (P.length + 16) (by simp [hQ]) hT he
    simpa using this
  have hx2 : xorAt (P ++ (Q ++ (xorb T blk ++ (S ++ U)))) (P.length + 32) sum
      = P ++ (Q ++ (xorb T blk ++ (xorb S sum ++ U))) := by
    have := xorAt_append (P ++ (Q ++ xorb T blk)) S U sum (P.length + 32) (by simp [hQ, hT']) hS hsum
    simpa using this
  have hg1 : getBlk (P ++ (Q ++ (xorb T blk ++ (xorb S sum ++ U)))) P.length = Q :=
    getBlk_append P Q _ P.length rfl hQ
  have hg2 : getBlk (P ++ (Q ++ (xorb T blk ++ (xorb S sum ++ U)))) (P.length + 32) = xorb S sum := by
    have := getBlk_append (P ++ (Q ++ xorb T blk)) (xorb S sum) U (P.length + 32) (by simp [hQ, hT']) hN
    simpa using this
  simp only [wblRoundDOpt, hl, hg0, hblk, hj, hx1, hx2, hq, hg1, hg2]

/-- Opt D round, `i = 16`: the buffer is `r_{n-1} ‖ r* ‖ U ‖ r_{n-2}` -/
theorem roundDOpt_b (C : Cipher) (hlen : ∀ k x, x.length = 16 → (C.enc k x).length = 16)
    (key Q T S U sum : Bytes) (hQ : Q.length = 16) (hT : T.length = 16) (hS : S.length = 16)
    (hsum : sum.length = 16) (round : Nat) :
    wblRoundDOpt C key (T ++ (S ++ (U ++ Q)), sum, 16) round =
      (xorb T (encRound C key S round) ++ (xorb S sum ++ (U ++ Q)),
       xorb (xorb sum Q) (xorb S sum), 0) := by
  have he := length_encRound C hlen key S round hS
  generalize hblk : encRound C key S round = blk at *
  have hT' : (xorb T blk).length = 16 := by rw [length_xorb]; omega
  have hN : (xorb S sum).length = 16 := by rw [length_xorb]; omega
  have hl : (T ++ (S ++ (U ++ Q))).length = 48 + U.length := by simp [hQ, hT, hS]; omega
  have hj : (16 + (48 + U.length) - 16) % (48 + U.length) = 0 := by
    have : 16 + (48 + U.length) - 16 = 48 + U.length := by omega
    rw [this, Nat.mod_self]
  have hq : (16 + (48 + U.length) - 32) % (48 + U.length) = 32 + U.length := by
    rw [Nat.mod_eq_of_lt (by omega)]; omega
  have hg0 : getBlk (T ++ (S ++ (U ++ Q))) 16 = S := getBlk_append T S _ 16 hT.symm hS
  have hx1 : xorAt (T ++ (S ++ (U ++ Q))) 0 blk = xorb T blk ++ (S ++ (U ++ Q)) := by
    have := xorAt_append [] T (S ++ (U ++ Q)) blk 0 rfl hT he
    simpa using this
  have hx2 : xorAt (xorb T blk ++ (S ++ (U ++ Q))) 16 sum = xorb T blk ++ (xorb S sum ++ (U ++ Q)) :=
    xorAt_append (xorb T blk) S (U ++ Q) sum 16 hT'.symm hS hsum
  have hg1 : getBlk (xorb T blk ++ (xorb S sum ++ (U ++ Q))) (32 + U.length) = Q := by
    have := getBlk_append (xorb T blk ++ (xorb S sum ++ U)) Q [] (32 + U.length) (by simp [hT', hN]; omega) hQ
    simpa using this
  have hg2 : getBlk (xorb T blk ++ (xorb S sum ++ (U ++ Q))) 16 = xorb S sum :=
    getBlk_append (xorb T blk) (xorb S sum) _ 16 hT'.symm hN
  simp only [wblRoundDOpt, hl, hg0, hblk, hj, hx1, hx2, hq, hg1, hg2]

/-- Opt D round, `i = 0`: the buffer is `r* ‖ U ‖ r_{n-2} ‖ r_{n-1}` -/
theorem roundDOpt_c (C : Cipher) (hlen : ∀ k x, x.length = 16 → (C.enc k x).length = 16)
    (key Q T S U sum : Bytes) (hQ : Q.length = 16) (hT : T.length = 16) (hS : S.length = 16)
    (hsum : sum.length = 16) (round : Nat) :
    wblRoundDOpt C key (S ++ (U ++ (Q ++ T)), sum, 0) round =
      (xorb S sum ++ (U ++ (Q ++ xorb T (encRound C key S round))),
       xorb (xorb sum Q) (xorb S sum), 32 + U.length) := by
  have he := length_encRound C hlen key S round hS
  generalize hblk : encRound C key S round = blk at *
  have hT' : (xorb T blk).length = 16 := by rw [length_xorb]; omega
  have hN : (xorb S sum).length = 16 := by rw [length_xorb]; omega
  have hl : (S ++ (U ++ (Q ++ T))).length = 48 + U.length := by simp [hQ, hT, hS]; omega
  have hj : (0 + (48 + U.length) - 16) % (48 + U.length) = 32 + U.length := by
    rw [Nat.mod_eq_of_lt (by omega)]; omega
  have hq : (0 + (48 + U.length) - 32) % (48 + U.length) = 16 + U.length := by
    rw [Nat.mod_eq_of_lt (by omega)]; omega
  have hg0 : getBlk (S ++ (U ++ (Q ++ T))) 0 = S := by
    have := getBlk_append [] S (U ++ (Q ++ T)) 0 rfl hS
    simpa using this
  have hx1 : xorAt (S ++ (U ++ (Q ++ T))) (32 + U.length) blk = S ++ (U ++ (Q ++ xorb T blk)) := by
    have := xorAt_append (S ++ (U ++ Q)) T [] blk (32 + U.length) (by simp [hS, hQ]; omega) hT he
    simpa using this
  have hx2 : xorAt (S ++ (U ++ (Q ++ xorb T blk))) 0 sum = xorb S sum ++ (U ++ (Q ++ xorb T blk)) := by
    have := xorAt_append [] S (U ++ (Q ++ xorb T blk)) sum 0 rfl hS hsum
    simpa using this
  have hg1 : getBlk (xorb S sum ++ (U ++ (Q ++ xorb T blk))) (16 + U.length) = Q := by
    have := getBlk_append (xorb S sum ++ U) Q (xorb T blk) (16 + U.length) (by simp [hN]) hQ
    simpa using this
  have hg2 : getBlk (xorb S sum ++ (U ++ (Q ++ xorb T blk))) 0 = xorb S sum := by
    have := getBlk_append [] (xorb S sum) (U ++ (Q ++ xorb T blk)) 0 rfl hN
    simpa using this
  simp only [wblRoundDOpt, hl, hg0, hblk, hj, hx1, hx2, hq, hg1, hg2]

theorem length_xs2 (b : Bytes) (h : 16 ≤ b.length) : (xs2 b).length = 16 := by
  unfold xs2
  rw [length_xbf _ 32 (by omega) _ _ _ (by simp; omega)]; simp; omega

/-- Base D round on `M' ‖ r_{n-2} ‖ r_{n-1} ‖ r*` (whole blocks, n ≥ 3) -/
theorem roundD_form2 (C : Cipher) (hlen : ∀ k x, x.length = 16 → (C.enc k x).length = 16)
    (key M' Q T S : Bytes) (hQ : Q.length = 16) (hT : T.length = 16) (hS : S.length = 16)
    (hM : M'.length % 16 = 0) (round : Nat) :
    wblRoundDBase C key (M' ++ (Q ++ (T ++ S))) round =
      xorb S (xs2 (M' ++ (Q ++ (T ++ S)))) ++ (M' ++ (Q ++ xorb T (encRound C key S round))) := by
  have he := length_encRound C hlen key S round hS
  have e : M' ++ (Q ++ (T ++ S)) = (M' ++ Q) ++ (T ++ S) := by simp
  rw [e, roundD_form C hlen key (M' ++ Q) T S hT hS round,
    dsum_r1 (M' ++ Q) T _ S hT (by rw [length_xorb]; omega) hS (by simp [hQ]; omega) (by simp [hQ])]
  simp

theorem split_hd (b : Bytes) (h : 16 ≤ b.length) : ∃ B Z : Bytes, b = B ++ Z ∧ B.length = 16 :=
  ⟨b.take 16, b.drop 16, (List.take_append_drop _ _).symm, by simp; omega⟩

theorem split_tl (b : Bytes) (h : 16 ≤ b.length) : ∃ A B : Bytes, b = A ++ B ∧ B.length = 16 :=
  ⟨b.take (b.length - 16), b.drop (b.length - 16), (List.take_append_drop _ _).symm, by simp; omega⟩

/-- one Opt D round simulates one Base D round on the rotated buffer -/
theorem simD (C : Cipher) (hlen : ∀ k x, x.length = 16 → (C.enc k x).length = 16)
    (key bO : Bytes) (i round : Nat) (hc : bO.length % 16 = 0) (h48 : 48 ≤ bO.length)
    (hi : i % 16 = 0) (hic : i < bO.length) :
    (wblRoundDOpt C key (bO, xs2 (rot bO ((i + 16) % bO.length)), i) round).1.length = bO.length ∧
    (wblRoundDOpt C key (bO, xs2 (rot bO ((i + 16) % bO.length)), i) round).2.2
      = (i + bO.length - 16) % bO.length ∧
    rot (wblRoundDOpt C key (bO, xs2 (rot bO ((i + 16) % bO.length)), i) round).1 i
      = wblRoundDBase C key (rot bO ((i + 16) % bO.length)) round ∧
    (wblRoundDOpt C key (bO, xs2 (rot bO ((i + 16) % bO.length)), i) round).2.1
      = xs2 (wblRoundDBase C key (rot bO ((i + 16) % bO.length)) round) := by
  by_cases h0 : i = 0
  · -- layout (c)
    subst h0
    obtain ⟨S, r1, rfl, hS⟩ := split_hd bO (by omega)
    obtain ⟨r2, T, rfl, hT⟩ := split_tl r1 (by simp [hS] at h48; omega)
    obtain ⟨U, Q, rfl, hQ⟩ := split_tl r2 (by simp [hS, hT] at h48; omega)
    have hl : (S ++ (U ++ Q ++ T)).length = 48 + U.length := by simp [hS, hT, hQ]; omega
    rw [hl] at hc ⊢
    have e0 : S ++ (U ++ Q ++ T) = S ++ (U ++ (Q ++ T)) := by simp
    have hrot : rot (S ++ (U ++ Q ++ T)) ((0 + 16) % (48 + U.length)) = U ++ (Q ++ (T ++ S)) := by
      rw [Nat.mod_eq_of_lt (by omega)]
      unfold rot
      rw [List.drop_left' (by omega), List.take_left' (by omega)]; simp
    rw [hrot, e0]
    have hsum := length_xs2 (U ++ (Q ++ (T ++ S))) (by simp [hS]; omega)
    generalize hsm : xs2 (U ++ (Q ++ (T ++ S))) = sum at *
    have he := length_encRound C hlen key S round hS
    have hT' : (xorb T (encRound C key S round)).length = 16 := by rw [length_xorb]; omega
    have hN : (xorb S sum).length = 16 := by rw [length_xorb]; omega
    rw [roundDOpt_c C hlen key Q T S U sum hQ hT hS hsum round,
      roundD_form2 C hlen key U Q T S hQ hT hS (by omega) round, hsm]
    simp only []
    refine ⟨by simp [hN, hT', hQ]; omega, ?_, rot_zero _, ?_⟩
    · rw [Nat.mod_eq_of_lt (by omega)]; omega
    · rw [dsum_next (xorb S sum) U Q T _ S hN hQ hT hT' hS (by omega)]
      have : U ++ Q ++ (T ++ S) = U ++ (Q ++ (T ++ S)) := by simp
      rw [this, hsm]
  · by_cases h16 : i = 16
    · -- layout (b)
      subst h16
      obtain ⟨T, r1, rfl, hT⟩ := split_hd bO (by omega)
      obtain ⟨S, r2, rfl, hS⟩ := split_hd r1 (by simp [hT] at h48; omega)
      obtain ⟨U, Q, rfl, hQ⟩ := split_tl r2 (by simp [hS, hT] at h48; omega)
      have hl : (T ++ (S ++ (U ++ Q))).length = 48 + U.length := by simp [hS, hT, hQ]; omega
      rw [hl] at hc ⊢
      have hrot : rot (T ++ (S ++ (U ++ Q))) ((16 + 16) % (48 + U.length)) = U ++ (Q ++ (T ++ S)) := by
        rw [Nat.mod_eq_of_lt (by omega)]
        have : T ++ (S ++ (U ++ Q)) = (T ++ S) ++ (U ++ Q) := by simp
        unfold rot
        rw [this, List.drop_left' (by simp [hT, hS]), List.take_left' (by simp [hT, hS])]; simp
      rw [hrot]
      have hsum := length_xs2 (U ++ (Q ++ (T ++ S))) (by simp [hS]; omega)
      generalize hsm : xs2 (U ++ (Q ++ (T ++ S))) = sum at *
      have he := length_encRound C hlen key S round hS
      have hT' : (xorb T (encRound C key S round)).length = 16 := by rw [length_xorb]; omega
      have hN : (xorb S sum).length = 16 := by rw [length_xorb]; omega
      rw [roundDOpt_b C hlen key Q T S U sum hQ hT hS hsum round,
        roundD_form2 C hlen key U Q T S hQ hT hS (by omega) round, hsm]
      simp only []
      refine ⟨by simp [hN, hT', hQ]; omega, ?_, ?_, ?_⟩
      · have : 16 + (48 + U.length) - 16 = 48 + U.length := by omega
        rw [this, Nat.mod_self]
      · unfold rot
        rw [List.drop_left' hT', List.take_left' hT']; simp
      · rw [dsum_next (xorb S sum) U Q T _ S hN hQ hT hT' hS (by omega)]
        have : U ++ Q ++ (T ++ S) = U ++ (Q ++ (T ++ S)) := by simp
        rw [this, hsm]
    · -- layout (a)
      have hP : bO = bO.take (i - 32) ++ bO.drop (i - 32) := (List.take_append_drop _ _).symm
      have hPl : (bO.take (i - 32)).length = i - 32 := by simp; omega
      generalize bO.take (i - 32) = P at hP hPl
      generalize bO.drop (i - 32) = r0 at hP
      subst hP
      obtain ⟨Q, r1, rfl, hQ⟩ := split_hd r0 (by simp [hPl] at hic; omega)
      obtain ⟨T, r2, rfl, hT⟩ := split_hd r1 (by simp [hPl, hQ] at hic hc; omega)
      obtain ⟨S, U, rfl, hS⟩ := split_hd r2 (by simp [hPl, hQ, hT] at hic hc; omega)
      have hl : (P ++ (Q ++ (T ++ (S ++ U)))).length = P.length + 48 + U.length := by simp [hS, hT, hQ]; omega
      have hi' : i = P.length + 32 := by omega
      subst hi'
      rw [hl] at hc ⊢
      have hrot : rot (P ++ (Q ++ (T ++ (S ++ U)))) ((P.length + 32 + 16) % (P.length + 48 + U.length))
          = (U ++ P) ++ (Q ++ (T ++ S)) := by
        have := rot_append_mod (P ++ (Q ++ (T ++ S))) U
        have e1 : (P ++ (Q ++ (T ++ S))).length = P.length + 32 + 16 := by simp [hS, hT, hQ]
        have e2 : ((P ++ (Q ++ (T ++ S))) ++ U).length = P.length + 48 + U.length := by simp [hS, hT, hQ]; omega
        have e3 : P ++ (Q ++ (T ++ (S ++ U))) = (P ++ (Q ++ (T ++ S))) ++ U := by simp
        rw [e1, e2] at this
        rw [e3, this]; simp
      rw [hrot]
      have hsum := length_xs2 ((U ++ P) ++ (Q ++ (T ++ S))) (by simp [hS]; omega)
      generalize hsm : xs2 ((U ++ P) ++ (Q ++ (T ++ S))) = sum at *
      have he := length_encRound C hlen key S round hS
      have hT' : (xorb T (encRound C key S round)).length = 16 := by rw [length_xorb]; omega
      have hN : (xorb S sum).length = 16 := by rw [length_xorb]; omega
      rw [roundDOpt_a C hlen key P Q T S U sum hQ hT hS hsum round,
        roundD_form2 C hlen key (U ++ P) Q T S hQ hT hS (by simp; omega) round, hsm]
      simp only []
      refine ⟨by simp [hN, hT', hQ]; omega, ?_, ?_, ?_⟩
      · have : P.length + 32 + (P.length + 48 + U.length) - 16 = P.length + 16 + (P.length + 48 + U.length) := by
          omega
        rw [this, Nat.add_mod_right, Nat.mod_eq_of_lt (by omega)]
      · have e3 : P ++ (Q ++ (xorb T (encRound C key S round) ++ (xorb S sum ++ U)))
            = (P ++ (Q ++ xorb T (encRound C key S round))) ++ (xorb S sum ++ U) := by simp
        unfold rot
        rw [e3, List.drop_left' (by simp [hQ, hT']), List.take_left' (by simp [hQ, hT'])]; simp
      · rw [dsum_next (xorb S sum) (U ++ P) Q T _ S hN hQ hT hT' hS (by simp; omega)]
        have : U ++ P ++ Q ++ (T ++ S) = (U ++ P) ++ (Q ++ (T ++ S)) := by simp
        rw [this, hsm]

theorem iterDOpt_spec (C : Cipher) (hlen : ∀ k x, x.length = 16 → (C.enc k x).length = 16) (key : Bytes)
    (c : Nat) (hc16 : c % 16 = 0) (hc48 : 48 ≤ c) :
    ∀ (n : Nat) (bO : Bytes) (i : Nat), bO.length = c → i = (16 * n + c - 16) % c → i % 16 = 0 →
    (wblIterDOpt C key n (bO, xs2 (rot bO ((i + 16) % c)), i)).1
      = wblIterD (wblRoundDBase C key) n (rot bO ((i + 16) % c)) := by
  intro n
  induction n with
  | zero =>
    intro bO i hb hi _
    have : i = c - 16 := by rw [hi, Nat.mod_eq_of_lt (by omega)]; omega
    subst this
    have : (c - 16 + 16) % c = 0 := by
      have : c - 16 + 16 = c := by omega
      rw [this, Nat.mod_self]
    rw [this, rot_zero]; rfl
  | succ n ih =>
    intro bO i hb hi hi16
    have hic : i < bO.length := by rw [hi, hb]; exact Nat.mod_lt _ (by omega)
    obtain ⟨s1, s2, s3, s4⟩ := simD C hlen key bO i (n + 1) (by omega) (by omega) hi16 hic
    rw [hb] at s1 s2 s3 s4
    simp only [wblIterDOpt, wblIterD]
    generalize wblRoundDOpt C key (bO, xs2 (rot bO ((i + 16) % c)), i) (n + 1) = so at *
    obtain ⟨bO', sum', i'⟩ := so
    simp only [] at s1 s2 s3 s4
    have hback : (i' + 16) % c = i := by
      rw [s2, Nat.mod_add_mod]
      have : i + c - 16 + 16 = i + c := by omega
      rw [this, Nat.add_mod_right, Nat.mod_eq_of_lt (by omega)]
    have hi1 : i' = (16 * n + c - 16) % c := by
      rw [s2, hi]
      have e1 : (16 * (n + 1) + c - 16) % c + c - 16 = (16 * (n + 1) + c - 16) % c + (c - 16) := by omega
      rw [e1, Nat.mod_add_mod]
      have e2 : 16 * (n + 1) + c - 16 + (c - 16) = 16 * n + c - 16 + c := by omega
      rw [e2, Nat.add_mod_right]
    have hi1' : i' % 16 = 0 := by
      rw [s2]
      by_cases hlt : 16 ≤ i
      · have : i + c - 16 = i - 16 + c := by omega
        have e : (i + c - 16) % c = i - 16 := by
          rw [this, Nat.add_mod_right]; exact Nat.mod_eq_of_lt (by omega)
        rw [e]; omega
      · have : i = 0 := by omega
        subst this
        have e : (0 + c - 16) % c = c - 16 := by
          rw [Nat.zero_add]; exact Nat.mod_eq_of_lt (by omega)
        rw [e]; omega
    have := ih bO' i' s1 hi1 hi1'
    rw [hback, s3, ← s4] at this
    exact this

/-- `beltWBLStepDOpt` computes the same buffer as `beltWBLStepDBase` on every buffer made of at least
three whole blocks -/
theorem stepDOpt_eq_Base (C : Cipher) (hlen : ∀ k x, x.length = 16 → (C.enc k x).length = 16)
    (key buf : Bytes) (h16 : buf.length % 16 = 0) (h48 : 48 ≤ buf.length) :
    wblStepDOpt C key buf = wblStepDBase C key buf := by
  have hi : buf.length - 16 = (16 * (2 * wblN buf.length) + buf.length - 16) % buf.length := by
    rw [two_n _ h16]
    have : 2 * buf.length + buf.length - 16 = buf.length - 16 + buf.length * 2 := by omega
    rw [this, Nat.add_mul_mod_self_left, Nat.mod_eq_of_lt (by omega)]
  have h0 : (buf.length - 16 + 16) % buf.length = 0 := by
    have : buf.length - 16 + 16 = buf.length := by omega
    rw [this, Nat.mod_self]
  have e := iterDOpt_spec C hlen key buf.length h16 h48 (2 * wblN buf.length) buf (buf.length - 16) rfl hi
    (by omega)
  rw [h0, rot_zero] at e
  unfold wblStepDOpt wblStepDBase
  simp only []
  have hx : (xorBlocksFrom buf 32 buf.length 16 (buf.take 16)).1 = xs2 buf := rfl
  rw [hx, e]

/-! ### a toy cipher for the non-vacuity examples -/

/-- adds 1 to every octet (keyless); only used to evaluate examples by `decide` -/
def toyCipher : Cipher := ⟨fun _ x => x.map (· + 1), fun _ x => x.map (· - 1)⟩

theorem toyCipher_len : ∀ k x, x.length = 16 → (toyCipher.enc k x).length = 16 := by
  intro k x h; simp [toyCipher, h]

end Bee2V.C01.Wbl

/-
C01 helper lemmas for belt_wbl.c / belt_kwp.c / belt_sde.c (self-contained: generic list / xor lemmas
live in the namespace `Bee2V.C01.Wbl` so that they cannot clash with other lemma files).
-/
import Bee2V.C01.Model.Wbl
namespace Bee2V.C01.Wbl

/-! ### xor of octet strings -/

theorem length_xorb (a b : Bytes) : (xorb a b).length = min a.length b.length := by
  simp [xorb]

theorem xorb_nil_left (b : Bytes) : xorb [] b = [] := by simp [xorb]
theorem xorb_nil_right (a : Bytes) : xorb a [] = [] := by simp [xorb]

theorem xorb_cons (x y : UInt8) (a b : Bytes) : xorb (x :: a) (y :: b) = (x ^^^ y) :: xorb a b := by
  simp [xorb]

theorem xorb_comm (a b : Bytes) : xorb a b = xorb b a := by
  induction a generalizing b with
  | nil => simp [xorb]
  | cons x a ih =>
    cases b with
    | nil => simp [xorb]
    | cons y b => rw [xorb_cons, xorb_cons, ih, UInt8.xor_comm]

theorem xorb_assoc (a b c : Bytes) : xorb (xorb a b) c = xorb a (xorb b c) := by
  induction a generalizing b c with
  | nil => simp [xorb]
  | cons x a ih =>
    cases b with
    | nil => simp [xorb]
    | cons y b =>
      cases c with
      | nil => simp [xorb]
      | cons z c => simp only [xorb_cons, ih, UInt8.xor_assoc]

theorem xorb_right_comm (a b c : Bytes) : xorb (xorb a b) c = xorb (xorb a c) b := by
  rw [xorb_assoc, xorb_comm b c, ← xorb_assoc]

theorem xorb_cancel (a b : Bytes) (h : a.length ≤ b.length) : xorb (xorb a b) b = a := by
  induction a generalizing b with
  | nil => simp [xorb]
  | cons x a ih =>
    cases b with
    | nil => simp at h
    | cons y b =>
      simp only [List.length_cons] at h
      rw [xorb_cons, xorb_cons, ih b (by omega), UInt8.xor_assoc, UInt8.xor_self, UInt8.xor_zero]

theorem xorb_zeros (a : Bytes) (n : Nat) (h : a.length ≤ n) : xorb a (zeros n) = a := by
  induction a generalizing n with
  | nil => simp [xorb]
  | cons x a ih =>
    cases n with
    | zero => simp at h
    | succ n =>
      simp only [List.length_cons] at h
      have : zeros (n + 1) = 0 :: zeros n := by simp [zeros, List.replicate_succ]
      rw [this, xorb_cons, ih n (by omega), UInt8.xor_zero]

theorem zeros_xorb (a : Bytes) (n : Nat) (h : a.length ≤ n) : xorb (zeros n) a = a := by
  rw [xorb_comm, xorb_zeros a n h]

theorem length_zeros (n : Nat) : (zeros n).length = n := by simp [zeros]

theorem xorb_append (a1 a2 b1 b2 : Bytes) (h : a1.length = b1.length) :
    xorb (a1 ++ a2) (b1 ++ b2) = xorb a1 b1 ++ xorb a2 b2 := by
  induction a1 generalizing b1 with
  | nil =>
    cases b1 with
    | nil => simp [xorb]
    | cons y b1 => simp at h
  | cons x a1 ih =>
    cases b1 with
    | nil => simp at h
    | cons y b1 =>
      simp only [List.length_cons, Nat.add_right_cancel_iff] at h
      simp only [List.cons_append, xorb_cons, ih b1 h]

theorem length_natLE (n v : Nat) : (natLE n v).length = n := by
  induction n generalizing v with
  | zero => simp [natLE]
  | succ n ih => simp [natLE, ih]

theorem length_xorPrefix (d s : Bytes) (h : s.length ≤ d.length) : (xorPrefix d s).length = d.length := by
  simp only [xorPrefix, List.length_append, length_xorb, List.length_drop]; omega

theorem length_encRound (C : Cipher) (hlen : ∀ k x, x.length = 16 → (C.enc k x).length = 16)
    (key blk : Bytes) (round : Nat) (h : blk.length = 16) : (encRound C key blk round).length = 16 := by
  unfold encRound
  rw [length_xorPrefix _ _ (by rw [length_natLE, hlen key blk h]; omega), hlen key blk h]

/-! ### getBlk / putAt / xorAt on decomposed buffers -/

theorem length_getBlk (buf : Bytes) (i : Nat) : (getBlk buf i).length = min 16 (buf.length - i) := by
  simp [getBlk]

theorem getBlk_append (A B Z : Bytes) (i : Nat) (hi : i = A.length) (hB : B.length = 16) :
    getBlk (A ++ (B ++ Z)) i = B := by
  subst hi
  simp only [getBlk, List.drop_left]
  exact List.take_left' hB

theorem putAt_append (A B Z x : Bytes) (i : Nat) (hi : i = A.length) (hx : x.length = B.length) :
    putAt (A ++ (B ++ Z)) i x = A ++ (x ++ Z) := by
  subst hi
  simp only [putAt, List.take_left, List.append_assoc, List.append_cancel_left_eq]
  rw [← List.append_assoc, List.drop_left' (by simp [hx])]

theorem xorAt_append (A B Z x : Bytes) (i : Nat) (hi : i = A.length) (hB : B.length = 16)
    (hx : x.length = 16) : xorAt (A ++ (B ++ Z)) i x = A ++ (xorb B x ++ Z) := by
  unfold xorAt
  rw [getBlk_append A B Z i hi hB, putAt_append A B Z _ i hi (by rw [length_xorb]; omega)]

theorem length_putAt (buf x : Bytes) (i : Nat) (h : i + x.length ≤ buf.length) :
    (putAt buf i x).length = buf.length := by
  simp only [putAt, List.length_append, List.length_take, List.length_drop]; omega

theorem length_xorAt (buf x : Bytes) (i : Nat) (h : i + 16 ≤ buf.length) :
    (xorAt buf i x).length = buf.length := by
  unfold xorAt
  apply length_putAt
  rw [length_xorb, length_getBlk]; omega

/-- a buffer of at least 32 octets is head block ++ middle ++ tail block -/
theorem split3 (buf : Bytes) (h : 32 ≤ buf.length) :
    ∃ H M T : Bytes, buf = H ++ (M ++ T) ∧ H.length = 16 ∧ T.length = 16 := by
  refine ⟨buf.take 16, (buf.drop 16).take (buf.length - 32), (buf.drop 16).drop (buf.length - 32), ?_, ?_, ?_⟩
  · rw [List.take_append_drop, List.take_append_drop]
  · simp; omega
  · simp; omega

theorem split3' (buf : Bytes) (h : 32 ≤ buf.length) :
    ∃ M T S : Bytes, buf = M ++ (T ++ S) ∧ T.length = 16 ∧ S.length = 16 := by
  refine ⟨buf.take (buf.length - 32), (buf.drop (buf.length - 32)).take 16, (buf.drop (buf.length - 32)).drop 16, ?_, ?_, ?_⟩
  · rw [List.take_append_drop, List.take_append_drop]
  · simp; omega
  · simp; omega

/-! ### the block-sum loop -/

theorem xbf_stop (b : Bytes) (stop f i : Nat) (acc : Bytes) (h : ¬ i + stop < b.length) :
    xorBlocksFrom b stop f i acc = (acc, i) := by
  cases f with
  | zero => rfl
  | succ f => simp only [xorBlocksFrom, h, if_false]

theorem getBlk_congr (b b' : Bytes) (k i : Nat) (hd : b.drop k = b'.drop k) (hk : k ≤ i) :
    getBlk b i = getBlk b' i := by
  have : i = k + (i - k) := by omega
  unfold getBlk
  rw [this, ← List.drop_drop, ← List.drop_drop, hd]

/-- the loop only reads the octets from offset `i` on -/
theorem xbf_congr (b b' : Bytes) (stop k : Nat) (hl : b.length = b'.length) (hd : b.drop k = b'.drop k) :
    ∀ (f i : Nat) (acc : Bytes), k ≤ i → xorBlocksFrom b stop f i acc = xorBlocksFrom b' stop f i acc := by
  intro f
  induction f with
  | zero => intro i acc _; rfl
  | succ f ih =>
    intro i acc hk
    simp only [xorBlocksFrom, hl]
    rw [getBlk_congr b b' k i hd hk, ih (i + 16) _ (by omega)]

theorem xbf_xorb (b : Bytes) (stop : Nat) : ∀ (f i : Nat) (a z : Bytes),
    (xorBlocksFrom b stop f i (xorb a z)).1 = xorb (xorBlocksFrom b stop f i a).1 z := by
  intro f
  induction f with
  | zero => intro i a z; rfl
  | succ f ih =>
    intro i a z
    simp only [xorBlocksFrom]
    split
    · rw [xorb_right_comm, ih]
    · rfl

theorem length_xbf (b : Bytes) (stop : Nat) (hs : 16 ≤ stop) : ∀ (f i : Nat) (a : Bytes), a.length ≤ 16 →
    (xorBlocksFrom b stop f i a).1.length = a.length := by
  intro f
  induction f with
  | zero => intro i a _; rfl
  | succ f ih =>
    intro i a ha
    simp only [xorBlocksFrom]
    split
    · rename_i hc
      have hl : (xorb a (getBlk b i)).length = a.length := by
        rw [length_xorb, length_getBlk]; omega
      rw [ih _ _ (by omega), hl]
    · rfl

/-- `acc + r_i + r_{i+16} + …  =  acc + (0 + r_i + r_{i+16} + …)` -/
theorem xbf_acc (b : Bytes) (stop f i : Nat) (a : Bytes) (ha : a.length ≤ 16) :
    (xorBlocksFrom b stop f i a).1 = xorb a (xorBlocksFrom b stop f i (zeros 16)).1 := by
  have h := xbf_xorb b stop f i (zeros 16) a
  rw [zeros_xorb a 16 ha] at h
  rw [h, xorb_comm]

/-- the block sum is an involution in its accumulator -/
theorem xbf_xbf (b : Bytes) (stop : Nat) (hs : 16 ≤ stop) (f i : Nat) (a : Bytes) (ha : a.length ≤ 16) :
    (xorBlocksFrom b stop f i (xorBlocksFrom b stop f i a).1).1 = a := by
  rw [xbf_acc b stop f i a ha, xbf_xorb, xbf_acc b stop f i a ha]
  apply xorb_cancel
  rw [length_xbf b stop hs f i _ (by rw [length_zeros]; omega), length_zeros]; exact ha

/-! ### Base rounds on a decomposed buffer `H ++ (M ++ T)` -/

theorem length3 (H M T : Bytes) (hH : H.length = 16) (hT : T.length = 16) :
    (H ++ (M ++ T)).length = 32 + M.length := by
  simp only [List.length_append, hH, hT]; omega

theorem roundE_form (C : Cipher) (hlen : ∀ k x, x.length = 16 → (C.enc k x).length = 16)
    (key H M T : Bytes) (hH : H.length = 16) (hT : T.length = 16) (round : Nat) :
    wblRoundEBase C key (H ++ (M ++ T)) round =
      (M ++ (xorb T (encRound C key (xorBlocksFrom (H ++ (M ++ T)) 16 (32 + M.length) 16 H).1 (round + 1))
        ++ (xorBlocksFrom (H ++ (M ++ T)) 16 (32 + M.length) 16 H).1), round + 1) := by
  have hs : (xorBlocksFrom (H ++ (M ++ T)) 16 (32 + M.length) 16 H).1.length = 16 := by
    rw [length_xbf _ 16 (by omega) _ _ _ (by omega), hH]
  simp only [wblRoundEBase, length3 H M T hH hT, List.take_left' hH, List.drop_left' hH, List.append_assoc]
  rw [xorAt_append M T _ _ _ (by omega) hT (length_encRound C hlen key _ _ hs)]

theorem roundD_form (C : Cipher) (hlen : ∀ k x, x.length = 16 → (C.enc k x).length = 16)
    (key M T S : Bytes) (hT : T.length = 16) (hS : S.length = 16) (round : Nat) :
    wblRoundDBase C key (M ++ (T ++ S)) round =
      (xorBlocksFrom (S ++ (M ++ xorb T (encRound C key S round))) 16 (32 + M.length) 16 S).1
        ++ (M ++ xorb T (encRound C key S round)) := by
  have hl : (M ++ (T ++ S)).length = 32 + M.length := by
    simp only [List.length_append, hT, hS]; omega
  have he := length_encRound C hlen key S round hS
  have hg : getBlk (M ++ (T ++ S)) (32 + M.length - 16) = S := by
    have := getBlk_append (M ++ T) S [] (32 + M.length - 16) (by simp [hT]; omega) hS
    simpa using this
  have ht : (M ++ (T ++ S)).take (32 + M.length - 16) = M ++ T := by
    rw [← List.append_assoc]; exact List.take_left' (by simp [hT]; omega)
  simp only [wblRoundDBase, hl, hg, ht]
  have hx : xorAt (S ++ (M ++ T)) (32 + M.length - 16) (encRound C key S round)
      = S ++ (M ++ xorb T (encRound C key S round)) := by
    have := xorAt_append (S ++ M) T [] (encRound C key S round) (32 + M.length - 16) (by simp [hS]; omega) hT he
    simpa using this
  rw [hx, List.take_left' hS]
  have hs : (xorBlocksFrom (S ++ (M ++ xorb T (encRound C key S round))) 16 (32 + M.length) 16 S).1.length
      = S.length := length_xbf _ 16 (by omega) _ _ _ (by omega)
  have := putAt_append [] S (M ++ xorb T (encRound C key S round)) _ 0 rfl hs
  simpa using this

theorem roundD_roundE_form (C : Cipher) (hlen : ∀ k x, x.length = 16 → (C.enc k x).length = 16)
    (key H M T : Bytes) (hH : H.length = 16) (hT : T.length = 16) (round : Nat) :
    wblRoundDBase C key (wblRoundEBase C key (H ++ (M ++ T)) round).1 (round + 1) = H ++ (M ++ T) := by
  have hs : (xorBlocksFrom (H ++ (M ++ T)) 16 (32 + M.length) 16 H).1.length = 16 := by
    rw [length_xbf _ 16 (by omega) _ _ _ (by omega), hH]
  have he := length_encRound C hlen key _ (round + 1) hs
  rw [roundE_form C hlen key H M T hH hT round]
  simp only []
  rw [roundD_form C hlen key M _ _ (by rw [length_xorb]; omega) hs (round + 1)]
  rw [xorb_cancel T _ (by omega)]
  rw [xbf_congr ((xorBlocksFrom (H ++ (M ++ T)) 16 (32 + M.length) 16 H).1 ++ (M ++ T)) (H ++ (M ++ T)) 16 16
    (by simp [hs, hH]) (by rw [List.drop_left' hs, List.drop_left' hH]) _ _ _ (Nat.le_refl _)]
  rw [xbf_xbf _ 16 (by omega) _ _ _ (by omega)]

/-- E round: length is preserved -/
theorem length_roundE (C : Cipher) (hlen : ∀ k x, x.length = 16 → (C.enc k x).length = 16)
    (key buf : Bytes) (h : 32 ≤ buf.length) (round : Nat) :
    (wblRoundEBase C key buf round).1.length = buf.length ∧ (wblRoundEBase C key buf round).2 = round + 1 := by
  obtain ⟨H, M, T, rfl, hH, hT⟩ := split3 buf h
  have hs : (xorBlocksFrom (H ++ (M ++ T)) 16 (32 + M.length) 16 H).1.length = 16 := by
    rw [length_xbf _ 16 (by omega) _ _ _ (by omega), hH]
  have he := length_encRound C hlen key _ (round + 1) hs
  rw [roundE_form C hlen key H M T hH hT round]
  simp only [List.length_append, length_xorb, hs, he, hT, hH, and_true]; omega

theorem length_roundD (C : Cipher) (hlen : ∀ k x, x.length = 16 → (C.enc k x).length = 16)
    (key buf : Bytes) (h : 32 ≤ buf.length) (round : Nat) :
    (wblRoundDBase C key buf round).length = buf.length := by
  obtain ⟨M, T, S, rfl, hT, hS⟩ := split3' buf h
  have he := length_encRound C hlen key S round hS
  rw [roundD_form C hlen key M T S hT hS round]
  simp only [List.length_append, length_xorb, length_xbf _ 16 (Nat.le_refl _) _ _ S (by omega), he, hT, hS]
  omega

theorem roundD_roundE (C : Cipher) (hlen : ∀ k x, x.length = 16 → (C.enc k x).length = 16)
    (key buf : Bytes) (h : 32 ≤ buf.length) (round : Nat) :
    wblRoundDBase C key (wblRoundEBase C key buf round).1 (round + 1) = buf := by
  obtain ⟨H, M, T, rfl, hH, hT⟩ := split3 buf h
  exact roundD_roundE_form C hlen key H M T hH hT round

/-! ### the 2n rounds -/

theorem iterE_spec (C : Cipher) (hlen : ∀ k x, x.length = 16 → (C.enc k x).length = 16) (key : Bytes)
    (n2 : Nat) : ∀ (f : Nat) (buf : Bytes) (r : Nat), 32 ≤ buf.length → 0 < f → r + f = n2 →
    (wblIterEBase C key n2 f buf r).2 = n2 ∧ (wblIterEBase C key n2 f buf r).1.length = buf.length ∧
    wblIterD (wblRoundDBase C key) n2 (wblIterEBase C key n2 f buf r).1
      = wblIterD (wblRoundDBase C key) r buf := by
  intro f
  induction f with
  | zero => intro buf r _ h0; omega
  | succ f ih =>
    intro buf r hb _ hr
    obtain ⟨hl, hr1⟩ := length_roundE C hlen key buf hb r
    have hinv := roundD_roundE C hlen key buf hb r
    simp only [wblIterEBase]
    rw [hr1]
    by_cases hc : (r + 1) % n2 ≠ 0
    · rw [if_pos hc]
      have hf : 0 < f := by
        apply Nat.pos_of_ne_zero
        intro h0; subst h0
        apply hc; rw [← hr]; simp
      obtain ⟨i1, i2, i3⟩ := ih (wblRoundEBase C key buf r).1 (r + 1) (by omega) hf (by omega)
      refine ⟨i1, by rw [i2, hl], ?_⟩
      rw [i3]; simp only [wblIterD]; rw [hinv]
    · rw [if_neg hc]
      have hn : r + 1 = n2 := by
        have hc' : (r + 1) % n2 = 0 := by omega
        have hle : r + 1 ≤ n2 := by omega
        rcases Nat.lt_or_eq_of_le hle with hlt | heq
        · rw [Nat.mod_eq_of_lt hlt] at hc'; omega
        · exact heq
      refine ⟨by rw [hr1, hn], hl, ?_⟩
      rw [← hn]; simp only [wblIterD]; rw [hinv]

theorem length_iterD (g : Bytes → Nat → Bytes) (hg : ∀ b r, 32 ≤ b.length → (g b r).length = b.length) :
    ∀ (n : Nat) (buf : Bytes), 32 ≤ buf.length → (wblIterD g n buf).length = buf.length := by
  intro n
  induction n with
  | zero => intro buf _; rfl
  | succ n ih =>
    intro buf hb
    simp only [wblIterD]
    rw [ih _ (by rw [hg _ _ hb]; exact hb), hg _ _ hb]

theorem wblN_pos (c : Nat) (h : 32 ≤ c) : 0 < 2 * wblN c := by
  unfold wblN; omega

theorem stepE_spec (C : Cipher) (hlen : ∀ k x, x.length = 16 → (C.enc k x).length = 16) (key buf : Bytes)
    (h : 32 ≤ buf.length) :
    (wblStepEBase C key buf 0).2 = 2 * wblN buf.length ∧ (wblStepEBase C key buf 0).1.length = buf.length ∧
    (wblStepDBase C key (wblStepEBase C key buf 0).1).1 = buf := by
  obtain ⟨i1, i2, i3⟩ := iterE_spec C hlen key (2 * wblN buf.length) (2 * wblN buf.length) buf 0 h
    (wblN_pos _ h) (by omega)
  refine ⟨i1, i2, ?_⟩
  simp only [wblStepDBase]
  unfold wblStepEBase at *
  simp only [] at *
  rw [i2, i3]; rfl

end Bee2V.C01.Wbl

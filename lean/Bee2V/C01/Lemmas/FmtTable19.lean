/- kernel-checked rows of the beltFMTCalcB table: alphabet sizes 14338..15361, all counts 1..300 (static file; the
   constants come from the regenerated Bee2V.Gen.C01Tables through `calcB`) -/
import Bee2V.C01.Lemmas.FmtTable
set_option Elab.async false
namespace Bee2V.C01

set_option maxRecDepth 100000 in
theorem fmtRows_14338 : checkMods 64 14338 = true := by decide +kernel

set_option maxRecDepth 100000 in
theorem fmtRows_14402 : checkMods 64 14402 = true := by decide +kernel

set_option maxRecDepth 100000 in
theorem fmtRows_14466 : checkMods 64 14466 = true := by decide +kernel

set_option maxRecDepth 100000 in
theorem fmtRows_14530 : checkMods 64 14530 = true := by decide +kernel

set_option maxRecDepth 100000 in
theorem fmtRows_14594 : checkMods 64 14594 = true := by decide +kernel

set_option maxRecDepth 100000 in
theorem fmtRows_14658 : checkMods 64 14658 = true := by decide +kernel

set_option maxRecDepth 100000 in
theorem fmtRows_14722 : checkMods 64 14722 = true := by decide +kernel

set_option maxRecDepth 100000 in
theorem fmtRows_14786 : checkMods 64 14786 = true := by decide +kernel

set_option maxRecDepth 100000 in
theorem fmtRows_14850 : checkMods 64 14850 = true := by decide +kernel

set_option maxRecDepth 100000 in
theorem fmtRows_14914 : checkMods 64 14914 = true := by decide +kernel

set_option maxRecDepth 100000 in
theorem fmtRows_14978 : checkMods 64 14978 = true := by decide +kernel

set_option maxRecDepth 100000 in
theorem fmtRows_15042 : checkMods 64 15042 = true := by decide +kernel

set_option maxRecDepth 100000 in
theorem fmtRows_15106 : checkMods 64 15106 = true := by decide +kernel

set_option maxRecDepth 100000 in
theorem fmtRows_15170 : checkMods 64 15170 = true := by decide +kernel

set_option maxRecDepth 100000 in
theorem fmtRows_15234 : checkMods 64 15234 = true := by decide +kernel

set_option maxRecDepth 100000 in
theorem fmtRows_15298 : checkMods 64 15298 = true := by decide +kernel

theorem fmtFile_19 (mod count : Nat) (h1 : 14338 ≤ mod) (h2 : mod < 15362) (hc : 1 ≤ count) (hc' : count ≤ 300) :
    IsBlockCount mod count (calcB mod count) := by
  by_cases a0 : mod < 14402
  · exact checkMods_spec 64 14338 fmtRows_14338 mod count (by omega) (by omega) hc hc'
  by_cases a1 : mod < 14466
  · exact checkMods_spec 64 14402 fmtRows_14402 mod count (by omega) (by omega) hc hc'
  by_cases a2 : mod < 14530
  · exact checkMods_spec 64 14466 fmtRows_14466 mod count (by omega) (by omega) hc hc'
  by_cases a3 : mod < 14594
  · exact checkMods_spec 64 14530 fmtRows_14530 mod count (by omega) (by omega) hc hc'
  by_cases a4 : mod < 14658
  · exact checkMods_spec 64 14594 fmtRows_14594 mod count (by omega) (by omega) hc hc'
  by_cases a5 : mod < 14722
  · exact checkMods_spec 64 14658 fmtRows_14658 mod count (by omega) (by omega) hc hc'
  by_cases a6 : mod < 14786
  · exact checkMods_spec 64 14722 fmtRows_14722 mod count (by omega) (by omega) hc hc'
  by_cases a7 : mod < 14850
  · exact checkMods_spec 64 14786 fmtRows_14786 mod count (by omega) (by omega) hc hc'
  by_cases a8 : mod < 14914
  · exact checkMods_spec 64 14850 fmtRows_14850 mod count (by omega) (by omega) hc hc'
  by_cases a9 : mod < 14978
  · exact checkMods_spec 64 14914 fmtRows_14914 mod count (by omega) (by omega) hc hc'
  by_cases a10 : mod < 15042
  · exact checkMods_spec 64 14978 fmtRows_14978 mod count (by omega) (by omega) hc hc'
  by_cases a11 : mod < 15106
  · exact checkMods_spec 64 15042 fmtRows_15042 mod count (by omega) (by omega) hc hc'
  by_cases a12 : mod < 15170
  · exact checkMods_spec 64 15106 fmtRows_15106 mod count (by omega) (by omega) hc hc'
  by_cases a13 : mod < 15234
  · exact checkMods_spec 64 15170 fmtRows_15170 mod count (by omega) (by omega) hc hc'
  by_cases a14 : mod < 15298
  · exact checkMods_spec 64 15234 fmtRows_15234 mod count (by omega) (by omega) hc hc'
  exact checkMods_spec 64 15298 fmtRows_15298 mod count (by omega) (by omega) hc hc'

end Bee2V.C01

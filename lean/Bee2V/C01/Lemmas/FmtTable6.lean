/- kernel-checked rows of the beltFMTCalcB table: alphabet sizes 1026..2049, all counts 1..300 (static file; the
   constants come from the regenerated Bee2V.Gen.C01Tables through `calcB`) -/
import Bee2V.C01.Lemmas.FmtTable
set_option Elab.async false
namespace Bee2V.C01

set_option maxRecDepth 100000 in
theorem fmtRows_1026 : checkMods 64 1026 = true := by decide +kernel

set_option maxRecDepth 100000 in
theorem fmtRows_1090 : checkMods 64 1090 = true := by decide +kernel

set_option maxRecDepth 100000 in
theorem fmtRows_1154 : checkMods 64 1154 = true := by decide +kernel

set_option maxRecDepth 100000 in
theorem fmtRows_1218 : checkMods 64 1218 = true := by decide +kernel

set_option maxRecDepth 100000 in
theorem fmtRows_1282 : checkMods 64 1282 = true := by decide +kernel

set_option maxRecDepth 100000 in
theorem fmtRows_1346 : checkMods 64 1346 = true := by decide +kernel

set_option maxRecDepth 100000 in
theorem fmtRows_1410 : checkMods 64 1410 = true := by decide +kernel

set_option maxRecDepth 100000 in
theorem fmtRows_1474 : checkMods 64 1474 = true := by decide +kernel

set_option maxRecDepth 100000 in
theorem fmtRows_1538 : checkMods 64 1538 = true := by decide +kernel

set_option maxRecDepth 100000 in
theorem fmtRows_1602 : checkMods 64 1602 = true := by decide +kernel

set_option maxRecDepth 100000 in
theorem fmtRows_1666 : checkMods 64 1666 = true := by decide +kernel

set_option maxRecDepth 100000 in
theorem fmtRows_1730 : checkMods 64 1730 = true := by decide +kernel

set_option maxRecDepth 100000 in
theorem fmtRows_1794 : checkMods 64 1794 = true := by decide +kernel

set_option maxRecDepth 100000 in
theorem fmtRows_1858 : checkMods 64 1858 = true := by decide +kernel

set_option maxRecDepth 100000 in
theorem fmtRows_1922 : checkMods 64 1922 = true := by decide +kernel

set_option maxRecDepth 100000 in
theorem fmtRows_1986 : checkMods 64 1986 = true := by decide +kernel

theorem fmtFile_6 (mod count : Nat) (h1 : 1026 ≤ mod) (h2 : mod < 2050) (hc : 1 ≤ count) (hc' : count ≤ 300) :
    IsBlockCount mod count (calcB mod count) := by
  by_cases a0 : mod < 1090
  · exact checkMods_spec 64 1026 fmtRows_1026 mod count (by omega) (by omega) hc hc'
  by_cases a1 : mod < 1154
  · exact checkMods_spec 64 1090 fmtRows_1090 mod count (by omega) (by omega) hc hc'
  by_cases a2 : mod < 1218
  · exact checkMods_spec 64 1154 fmtRows_1154 mod count (by omega) (by omega) hc hc'
  by_cases a3 : mod < 1282
  · exact checkMods_spec 64 1218 fmtRows_1218 mod count (by omega) (by omega) hc hc'
  by_cases a4 : mod < 1346
  · exact checkMods_spec 64 1282 fmtRows_1282 mod count (by omega) (by omega) hc hc'
  by_cases a5 : mod < 1410
  · exact checkMods_spec 64 1346 fmtRows_1346 mod count (by omega) (by omega) hc hc'
  by_cases a6 : mod < 1474
  · exact checkMods_spec 64 1410 fmtRows_1410 mod count (by omega) (by omega) hc hc'
  by_cases a7 : mod < 1538
  · exact checkMods_spec 64 1474 fmtRows_1474 mod count (by omega) (by omega) hc hc'
  by_cases a8 : mod < 1602
  · exact checkMods_spec 64 1538 fmtRows_1538 mod count (by omega) (by omega) hc hc'
  by_cases a9 : mod < 1666
  · exact checkMods_spec 64 1602 fmtRows_1602 mod count (by omega) (by omega) hc hc'
  by_cases a10 : mod < 1730
  · exact checkMods_spec 64 1666 fmtRows_1666 mod count (by omega) (by omega) hc hc'
  by_cases a11 : mod < 1794
  · exact checkMods_spec 64 1730 fmtRows_1730 mod count (by omega) (by omega) hc hc'
  by_cases a12 : mod < 1858
  · exact checkMods_spec 64 1794 fmtRows_1794 mod count (by omega) (by omega) hc hc'
  by_cases a13 : mod < 1922
  · exact checkMods_spec 64 1858 fmtRows_1858 mod count (by omega) (by omega) hc hc'
  by_cases a14 : mod < 1986
  · exact checkMods_spec 64 1922 fmtRows_1922 mod count (by omega) (by omega) hc hc'
  exact checkMods_spec 64 1986 fmtRows_1986 mod count (by omega) (by omega) hc hc'

end Bee2V.C01

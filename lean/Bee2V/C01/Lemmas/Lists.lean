/-
C01 helper lemmas: xor of buffers, the block loop of Model/Basic.lean, induction over whole blocks.
-/
import Bee2V.C01.Model.Basic
namespace Bee2V.C01

/-! ### xor of buffers -/

theorem length_xorb (a b : Bytes) : (xorb a b).length = min a.length b.length := by
  simp [xorb]

theorem xorb_comm (a b : Bytes) : xorb a b = xorb b a := by
  unfold xorb
  induction a generalizing b with
  | nil => cases b <;> simp
  | cons x xs ih =>
    cases b with
    | nil => simp
    | cons y ys => simp only [List.zipWith_cons_cons, ih ys, UInt8.xor_comm]

theorem xorb_xorb_cancel (a b : Bytes) (h : a.length ≤ b.length) : xorb (xorb a b) b = a := by
  unfold xorb
  induction a generalizing b with
  | nil => simp
  | cons x xs ih =>
    cases b with
    | nil => simp at h
    | cons y ys =>
      simp only [List.length_cons] at h
      simp only [List.zipWith_cons_cons, ih ys (by omega), UInt8.xor_assoc, UInt8.xor_self, UInt8.xor_zero]

/-- `(a ^ b) ^ a = b` for buffers of equal length -/
theorem xorb_xorb_cancel_left (a b : Bytes) (h : a.length = b.length) : xorb (xorb a b) a = b := by
  rw [xorb_comm a b]; exact xorb_xorb_cancel b a (by omega)

theorem xorb_append_left (a a' b : Bytes) (h : b.length = a.length) : xorb (a ++ a') b = xorb a b := by
  unfold xorb
  have := List.zipWith_append (f := fun (x y : UInt8) => x ^^^ y) (l₁ := a) (l₁' := a') (l₂ := b) (l₂' := []) (by omega)
  simpa using this

/-! ### induction over buffers made of whole 16-octet blocks -/

theorem whole_induction {P : Bytes → Prop} (nil : P [])
    (cons : ∀ b rest : Bytes, b.length = 16 → rest.length % 16 = 0 → P rest → P (b ++ rest)) :
    ∀ x : Bytes, x.length % 16 = 0 → P x := by
  intro x h
  suffices hs : ∀ (n : Nat) (x : Bytes), x.length = 16 * n → P x from hs (x.length / 16) x (by omega)
  intro n
  induction n with
  | zero =>
    intro x hx
    have : x = [] := List.eq_nil_of_length_eq_zero (by omega)
    subst this; exact nil
  | succ n ih =>
    intro x hx
    rw [← List.take_append_drop 16 x]
    apply cons
    · simp only [List.length_take]; omega
    · simp only [List.length_drop]; omega
    · apply ih; simp only [List.length_drop]; omega

/-! ### the block loop -/

section loop
variable {σ : Type}

theorem blockLoop_stop (bs : Nat) (cond : Nat → Bool) (body : σ → Bytes → σ × Bytes) (fuel : Nat) (s : σ)
    (rest : Bytes) (h : cond rest.length = false) : blockLoop bs cond body fuel s rest = (s, [], rest) := by
  cases fuel <;> simp [blockLoop, h]

/-- the fuel is irrelevant as soon as it is at least the number of octets left -/
theorem blockLoop_fuel (cond : Nat → Bool) (body : σ → Bytes → σ × Bytes) (hc : ∀ n, cond n = true → 16 ≤ n) :
    ∀ (f1 f2 : Nat) (s : σ) (rest : Bytes), rest.length ≤ f1 → rest.length ≤ f2 →
      blockLoop 16 cond body f1 s rest = blockLoop 16 cond body f2 s rest := by
  intro f1
  induction f1 with
  | zero =>
    intro f2 s rest h1 h2
    have hcr : cond rest.length = false := by
      cases hcr : cond rest.length with
      | false => rfl
      | true => have := hc _ hcr; omega
    rw [blockLoop_stop _ _ _ _ _ _ hcr, blockLoop_stop _ _ _ _ _ _ hcr]
  | succ f1 ih =>
    intro f2 s rest h1 h2
    cases hcr : cond rest.length with
    | false => rw [blockLoop_stop _ _ _ _ _ _ hcr, blockLoop_stop _ _ _ _ _ _ hcr]
    | true =>
      have := hc _ hcr
      cases f2 with
      | zero => omega
      | succ f2 =>
        have hd : (rest.drop 16).length ≤ f1 := by simp only [List.length_drop]; omega
        have hd2 : (rest.drop 16).length ≤ f2 := by simp only [List.length_drop]; omega
        simp only [blockLoop, hcr, if_true]
        rw [ih f2 _ _ hd hd2]

/-- one iteration of the loop -/
theorem blockLoop_cons (cond : Nat → Bool) (body : σ → Bytes → σ × Bytes) (hc : ∀ n, cond n = true → 16 ≤ n)
    (fuel : Nat) (s : σ) (b rest : Bytes) (hb : b.length = 16) (hcond : cond (16 + rest.length) = true)
    (hf : 16 + rest.length ≤ fuel) :
    blockLoop 16 cond body fuel s (b ++ rest) =
      ((blockLoop 16 cond body rest.length (body s b).1 rest).1,
       (body s b).2 ++ (blockLoop 16 cond body rest.length (body s b).1 rest).2.1,
       (blockLoop 16 cond body rest.length (body s b).1 rest).2.2) := by
  cases fuel with
  | zero => omega
  | succ fuel =>
    simp only [blockLoop, List.length_append, hb, hcond, if_true, List.take_left' hb, List.drop_left' hb]
    rw [blockLoop_fuel cond body hc fuel rest.length _ rest (by omega) (Nat.le_refl _)]

theorem fullBlocks_short (body : σ → Bytes → σ × Bytes) (s : σ) (t : Bytes) (h : t.length < 16) :
    fullBlocks 16 body s t = (s, [], t) := by
  unfold fullBlocks
  exact blockLoop_stop _ _ _ _ _ _ (by simp; omega)

theorem fullBlocks_nil (body : σ → Bytes → σ × Bytes) (s : σ) : fullBlocks 16 body s [] = (s, [], []) :=
  fullBlocks_short body s [] (by simp)

theorem fullBlocks_cons (body : σ → Bytes → σ × Bytes) (s : σ) (b rest : Bytes) (hb : b.length = 16) :
    fullBlocks 16 body s (b ++ rest) =
      ((fullBlocks 16 body (body s b).1 rest).1,
       (body s b).2 ++ (fullBlocks 16 body (body s b).1 rest).2.1,
       (fullBlocks 16 body (body s b).1 rest).2.2) := by
  unfold fullBlocks
  exact blockLoop_cons _ body (by simp) _ s b rest hb (by simp) (by simp [hb])

/-- A loop `while (cond(count))` over `x ++ y`, `x` made of whole blocks, where `cond` holds as long as
at least one block of `x` is left, is the plain `while (count >= 16)` loop over `x` followed by the loop
over `y`. -/
theorem blockLoop_append (cond : Nat → Bool) (body : σ → Bytes → σ × Bytes) (hc : ∀ n, cond n = true → 16 ≤ n)
    (y : Bytes) (hy : ∀ m, 0 < m → m % 16 = 0 → cond (m + y.length) = true) :
    ∀ x : Bytes, x.length % 16 = 0 → ∀ (s : σ) (fuel : Nat), x.length + y.length ≤ fuel →
      blockLoop 16 cond body fuel s (x ++ y) =
        ((blockLoop 16 cond body y.length (fullBlocks 16 body s x).1 y).1,
         (fullBlocks 16 body s x).2.1 ++ (blockLoop 16 cond body y.length (fullBlocks 16 body s x).1 y).2.1,
         (blockLoop 16 cond body y.length (fullBlocks 16 body s x).1 y).2.2) := by
  intro x hx
  refine whole_induction (P := fun x => ∀ (s : σ) (fuel : Nat), x.length + y.length ≤ fuel →
      blockLoop 16 cond body fuel s (x ++ y) =
        ((blockLoop 16 cond body y.length (fullBlocks 16 body s x).1 y).1,
         (fullBlocks 16 body s x).2.1 ++ (blockLoop 16 cond body y.length (fullBlocks 16 body s x).1 y).2.1,
         (blockLoop 16 cond body y.length (fullBlocks 16 body s x).1 y).2.2)) ?_ ?_ x hx
  · intro s fuel hf
    simp only [fullBlocks_nil, List.nil_append]
    rw [blockLoop_fuel cond body hc fuel y.length s y (by simpa using hf) (Nat.le_refl _)]
  · intro b rest hb hrest ih s fuel hf
    simp only [List.length_append] at hf
    rw [List.append_assoc, blockLoop_cons cond body hc fuel s b (rest ++ y) hb
      (by simp only [List.length_append]; rw [← Nat.add_assoc]; exact hy _ (by omega) (by omega))
      (by simp only [List.length_append]; omega)]
    rw [ih (body s b).1 _ (by simp only [List.length_append]; omega), fullBlocks_cons body s b rest hb]
    simp only [List.append_assoc]

theorem fullBlocks_append (body : σ → Bytes → σ × Bytes) (s : σ) (x y : Bytes) (hx : x.length % 16 = 0) :
    fullBlocks 16 body s (x ++ y) =
      ((fullBlocks 16 body (fullBlocks 16 body s x).1 y).1,
       (fullBlocks 16 body s x).2.1 ++ (fullBlocks 16 body (fullBlocks 16 body s x).1 y).2.1,
       (fullBlocks 16 body (fullBlocks 16 body s x).1 y).2.2) := by
  have := blockLoop_append (fun n => decide (16 ≤ n)) body (by simp) y (by intro m h1 h2; simp; omega) x hx s
    (x ++ y).length (by simp)
  unfold fullBlocks at *
  exact this

end loop

end Bee2V.C01

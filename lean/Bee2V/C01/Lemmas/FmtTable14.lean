/- kernel-checked rows of the beltFMTCalcB table: alphabet sizes 9218..10241, all counts 1..300 (static file; the
   constants come from the regenerated Bee2V.Gen.C01Tables through `calcB`) -/
import Bee2V.C01.Lemmas.FmtTable
set_option Elab.async false
namespace Bee2V.C01

set_option maxRecDepth 100000 in
theorem fmtRows_9218 : checkMods 64 9218 = true := by decide +kernel

set_option maxRecDepth 100000 in
theorem fmtRows_9282 : checkMods 64 9282 = true := by decide +kernel

set_option maxRecDepth 100000 in
theorem fmtRows_9346 : checkMods 64 9346 = true := by decide +kernel

set_option maxRecDepth 100000 in
theorem fmtRows_9410 : checkMods 64 9410 = true := by decide +kernel

set_option maxRecDepth 100000 in
theorem fmtRows_9474 : checkMods 64 9474 = true := by decide +kernel

set_option maxRecDepth 100000 in
theorem fmtRows_9538 : checkMods 64 9538 = true := by decide +kernel

set_option maxRecDepth 100000 in
theorem fmtRows_9602 : checkMods 64 9602 = true := by decide +kernel

set_option maxRecDepth 100000 in
theorem fmtRows_9666 : checkMods 64 9666 = true := by decide +kernel

set_option maxRecDepth 100000 in
theorem fmtRows_9730 : checkMods 64 9730 = true := by decide +kernel

set_option maxRecDepth 100000 in
theorem fmtRows_9794 : checkMods 64 9794 = true := by decide +kernel

set_option maxRecDepth 100000 in
theorem fmtRows_9858 : checkMods 64 9858 = true := by decide +kernel

set_option maxRecDepth 100000 in
theorem fmtRows_9922 : checkMods 64 9922 = true := by decide +kernel

set_option maxRecDepth 100000 in
theorem fmtRows_9986 : checkMods 64 9986 = true := by decide +kernel

set_option maxRecDepth 100000 in
theorem fmtRows_10050 : checkMods 64 10050 = true := by decide +kernel

set_option maxRecDepth 100000 in
theorem fmtRows_10114 : checkMods 64 10114 = true := by decide +kernel

set_option maxRecDepth 100000 in
theorem fmtRows_10178 : checkMods 64 10178 = true := by decide +kernel

theorem fmtFile_14 (mod count : Nat) (h1 : 9218 ≤ mod) (h2 : mod < 10242) (hc : 1 ≤ count) (hc' : count ≤ 300) :
    IsBlockCount mod count (calcB mod count) := by
  by_cases a0 : mod < 9282
  · exact checkMods_spec 64 9218 fmtRows_9218 mod count (by omega) (by omega) hc hc'
  by_cases a1 : mod < 9346
  · exact checkMods_spec 64 9282 fmtRows_9282 mod count (by omega) (by omega) hc hc'
  by_cases a2 : mod < 9410
  · exact checkMods_spec 64 9346 fmtRows_9346 mod count (by omega) (by omega) hc hc'
  by_cases a3 : mod < 9474
  · exact checkMods_spec 64 9410 fmtRows_9410 mod count (by omega) (by omega) hc hc'
  by_cases a4 : mod < 9538
  · exact checkMods_spec 64 9474 fmtRows_9474 mod count (by omega) (by omega) hc hc'
  by_cases a5 : mod < 9602
  · exact checkMods_spec 64 9538 fmtRows_9538 mod count (by omega) (by omega) hc hc'
  by_cases a6 : mod < 9666
  · exact checkMods_spec 64 9602 fmtRows_9602 mod count (by omega) (by omega) hc hc'
  by_cases a7 : mod < 9730
  · exact checkMods_spec 64 9666 fmtRows_9666 mod count (by omega) (by omega) hc hc'
  by_cases a8 : mod < 9794
  · exact checkMods_spec 64 9730 fmtRows_9730 mod count (by omega) (by omega) hc hc'
  by_cases a9 : mod < 9858
  · exact checkMods_spec 64 9794 fmtRows_9794 mod count (by omega) (by omega) hc hc'
  by_cases a10 : mod < 9922
  · exact checkMods_spec 64 9858 fmtRows_9858 mod count (by omega) (by omega) hc hc'
  by_cases a11 : mod < 9986
  · exact checkMods_spec 64 9922 fmtRows_9922 mod count (by omega) (by omega) hc hc'
  by_cases a12 : mod < 10050
  · exact checkMods_spec 64 9986 fmtRows_9986 mod count (by omega) (by omega) hc hc'
  by_cases a13 : mod < 10114
  · exact checkMods_spec 64 10050 fmtRows_10050 mod count (by omega) (by omega) hc hc'
  by_cases a14 : mod < 10178
  · exact checkMods_spec 64 10114 fmtRows_10114 mod count (by omega) (by omega) hc hc'
  exact checkMods_spec 64 10178 fmtRows_10178 mod count (by omega) (by omega) hc hc'

end Bee2V.C01

import Bee2V.C01.Model.Basic
namespace Bee2V.C01

theorem u8_ofNat_eq (n : Nat) (b : UInt8) (h : n % 256 = b.toNat) : UInt8.ofNat n = b := by
  apply UInt8.toNat_inj.mp
  simp only [UInt8.toNat_ofNat']
  exact h

theorem ld32_st32 (w : UInt32) :
    ld32 (UInt8.ofNat (w.toNat % 256)) (UInt8.ofNat (w.toNat / 256 % 256))
      (UInt8.ofNat (w.toNat / 65536 % 256)) (UInt8.ofNat (w.toNat / 16777216 % 256)) = w := by
  have := w.toNat_lt
  apply UInt32.toNat_inj.mp
  simp only [ld32, UInt8.toNat_ofNat', UInt32.toNat_ofNat']
  omega

theorem st32_ld32 (b0 b1 b2 b3 : UInt8) : st32 (ld32 b0 b1 b2 b3) = [b0, b1, b2, b3] := by
  have h0 := b0.toNat_lt; have h1 := b1.toNat_lt; have h2 := b2.toNat_lt; have h3 := b3.toNat_lt
  simp only [st32, ld32, UInt32.toNat_ofNat']
  rw [u8_ofNat_eq _ b0 (by omega), u8_ofNat_eq _ b1 (by omega), u8_ofNat_eq _ b2 (by omega), u8_ofNat_eq _ b3 (by omega)]

theorem u32From_st32_append (w : UInt32) (rest : Bytes) : u32From (st32 w ++ rest) = w :: u32From rest := by
  simp only [st32, List.cons_append, List.nil_append, u32From, ld32_st32]

theorem u32From_u32To (ws : List UInt32) : u32From (u32To ws) = ws := by
  induction ws with
  | nil => simp [u32To, u32From]
  | cons w ws ih => simp only [u32To, u32From_st32_append, ih]

theorem length_u32To (ws : List UInt32) : (u32To ws).length = 4 * ws.length := by
  induction ws with
  | nil => simp [u32To]
  | cons w ws ih => simp only [u32To, List.length_append, ih, st32, List.length_cons, List.length_nil]; omega

/-- a buffer of 16 octets is the store of its four loaded words -/
theorem u32To_u32From_16 (b : Bytes) (h : b.length = 16) : u32To (u32From b) = b := by
  match b, h with
  | [b0, b1, b2, b3, b4, b5, b6, b7, b8, b9, b10, b11, b12, b13, b14, b15], _ =>
    simp only [u32From, u32To, st32_ld32, List.cons_append, List.nil_append, List.append_nil]

theorem u32From_16 (b : Bytes) (h : b.length = 16) : ∃ w0 w1 w2 w3, u32From b = [w0, w1, w2, w3] := by
  match b, h with
  | [b0, b1, b2, b3, b4, b5, b6, b7, b8, b9, b10, b11, b12, b13, b14, b15], _ =>
    exact ⟨ld32 b0 b1 b2 b3, ld32 b4 b5 b6 b7, ld32 b8 b9 b10 b11, ld32 b12 b13 b14 b15, by simp only [u32From]⟩

end Bee2V.C01

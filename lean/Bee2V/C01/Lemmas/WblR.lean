/-
C01 helper lemmas for `beltWBLStepR` (continued wide-block encryption): the E loops entered with an
arbitrary admissible round counter `round0` (`round0 % 2n = 0`), their inverse, consecutive calls.
Builds on Lemmas/Wbl.lean; everything lives in the namespace `Bee2V.C01.WblR`.

Outside the contract (`round0 % 2n ≠ 0`; the C code ASSERTs `st->round % (2 * n) == 0`): the do-while
of `beltWBLStepEBase/EOpt` then runs until the counter reaches the NEXT multiple of 2n, i.e. fewer than
2n rounds (the fuel 2n of the model still suffices); no theorem is stated for that case.
-/
import Bee2V.C01.Lemmas.Wbl
namespace Bee2V.C01.WblR
open Bee2V.C01.Wbl

/-- `k` consecutive iterations of the do-loop of `beltWBLStepEBase`, entered with `st->round = r`
(so the round numbers xored into the blocks are `r+1, …, r+k`) -/
def iterRounds (C : Cipher) (key : Bytes) : Nat → Bytes → Nat → Bytes
  | 0, buf, _ => buf
  | k + 1, buf, r => iterRounds C key k (wblRoundEBase C key buf r).1 (r + 1)

/-- `k` D rounds with the round numbers `r0+k, …, r0+1` (descending) -/
def iterDFrom (g : Bytes → Nat → Bytes) : Nat → Nat → Bytes → Bytes
  | 0, _, buf => buf
  | k + 1, r0, buf => iterDFrom g k r0 (g buf (r0 + k + 1))

/-- the inverse of one `beltWBLStepR` call that was entered with `st->round = round0` -/
def stepRInv (C : Cipher) (key buf : Bytes) (round0 : Nat) : Bytes :=
  iterDFrom (wblRoundDBase C key) (2 * wblN buf.length) round0 buf

/-- `k` consecutive calls of `beltWBLStepR` on the same buffer, threading buffer and `st->round` -/
def stepRIter (C : Cipher) (key : Bytes) : Nat → Bytes → Nat → Bytes × Nat
  | 0, buf, r => (buf, r)
  | k + 1, buf, r => stepRIter C key k (wblStepR C key buf r).1 (wblStepR C key buf r).2

/-! ### arithmetic of admissible counters -/

theorem add_mod_of_mod (a x n : Nat) (h : a % n = 0) : (a + x) % n = x % n := by
  rw [Nat.add_mod, h, Nat.zero_add, Nat.mod_mod]

/-- `16 * round0 ≡ 0 (mod c)` for an admissible start round: `16 * 2n = 2c` -/
theorem sixteen_mul_mod (c round0 x : Nat) (hc : c % 16 = 0) (h0 : round0 % (2 * wblN c) = 0) :
    (16 * (round0 + x)) % c = (16 * x) % c := by
  obtain ⟨q, hq⟩ := Nat.dvd_of_mod_eq_zero h0
  have e : 16 * (round0 + x) = 16 * x + c * (2 * q) := by
    rw [hq, Nat.mul_add, ← Nat.mul_assoc, two_n c hc, Nat.add_comm]
    congr 1
    rw [Nat.mul_assoc, Nat.mul_left_comm]
  rw [e, Nat.add_mul_mod_self_left]

/-! ### the iterate -/

theorem length_iterRounds (C : Cipher) (hlen : ∀ k x, x.length = 16 → (C.enc k x).length = 16) (key : Bytes) :
    ∀ (k : Nat) (buf : Bytes) (r : Nat), 32 ≤ buf.length → (iterRounds C key k buf r).length = buf.length := by
  intro k
  induction k with
  | zero => intro buf r _; rfl
  | succ k ih =>
    intro buf r h
    have hl := (length_roundE C hlen key buf h r).1
    simp only [iterRounds]
    rw [ih _ _ (by omega), hl]

theorem iterRounds_succ (C : Cipher) (key : Bytes) : ∀ (k : Nat) (buf : Bytes) (r : Nat),
    iterRounds C key (k + 1) buf r = (wblRoundEBase C key (iterRounds C key k buf r) (r + k)).1 := by
  intro k
  induction k with
  | zero => intro buf r; rfl
  | succ k ih =>
    intro buf r
    have := ih (wblRoundEBase C key buf r).1 (r + 1)
    have e : r + 1 + k = r + (k + 1) := by omega
    rw [e] at this
    exact this

theorem iterRounds_add (C : Cipher) (key : Bytes) : ∀ (a b : Nat) (buf : Bytes) (r : Nat),
    iterRounds C key (a + b) buf r = iterRounds C key b (iterRounds C key a buf r) (r + a) := by
  intro a
  induction a with
  | zero => intro b buf r; simp [iterRounds]
  | succ a ih =>
    intro b buf r
    have e : a + 1 + b = (a + b) + 1 := by omega
    have e2 : r + 1 + a = r + (a + 1) := by omega
    rw [e]
    simp only [iterRounds]
    rw [ih, e2]

/-- D rounds in descending order undo the E rounds -/
theorem iterDFrom_iterRounds (C : Cipher) (hlen : ∀ k x, x.length = 16 → (C.enc k x).length = 16) (key : Bytes) :
    ∀ (k : Nat) (buf : Bytes) (r0 : Nat), 32 ≤ buf.length →
    iterDFrom (wblRoundDBase C key) k r0 (iterRounds C key k buf r0) = buf := by
  intro k
  induction k with
  | zero => intro buf r0 _; rfl
  | succ k ih =>
    intro buf r0 h
    rw [iterRounds_succ]
    simp only [iterDFrom]
    rw [roundD_roundE C hlen key _ (by rw [length_iterRounds C hlen key k buf r0 h]; exact h)]
    exact ih buf r0 h

/-- round level, the other direction: an E round entered with `st->round = r` undoes a D round with
round number `r + 1` -/
theorem roundE_roundD (C : Cipher) (hlen : ∀ k x, x.length = 16 → (C.enc k x).length = 16)
    (key buf : Bytes) (h : 32 ≤ buf.length) (r : Nat) :
    (wblRoundEBase C key (wblRoundDBase C key buf (r + 1)) r).1 = buf := by
  obtain ⟨M, T, S, rfl, hT, hS⟩ := split3' buf h
  have he := length_encRound C hlen key S (r + 1) hS
  have hT' : (xorb T (encRound C key S (r + 1))).length = 16 := by rw [length_xorb]; omega
  rw [roundD_form C hlen key M T S hT hS (r + 1)]
  generalize hs' : (xorBlocksFrom (S ++ (M ++ xorb T (encRound C key S (r + 1)))) 16 (32 + M.length) 16 S).1 = s'
  have hs'l : s'.length = 16 := by
    rw [← hs', length_xbf _ 16 (by omega) _ _ _ (by omega), hS]
  rw [roundE_form C hlen key s' M _ hs'l hT' r]
  simp only []
  have hback : (xorBlocksFrom (s' ++ (M ++ xorb T (encRound C key S (r + 1)))) 16 (32 + M.length) 16 s').1 = S := by
    rw [xbf_congr (s' ++ (M ++ xorb T (encRound C key S (r + 1)))) (S ++ (M ++ xorb T (encRound C key S (r + 1))))
      16 16 (by simp [hs'l, hS]) (by rw [List.drop_left' hs'l, List.drop_left' hS]) _ _ _ (Nat.le_refl _)]
    rw [← hs', xbf_xbf _ 16 (by omega) _ _ _ (by omega)]
  rw [hback, xorb_cancel T _ (by omega)]

theorem length_iterDFrom (C : Cipher) (hlen : ∀ k x, x.length = 16 → (C.enc k x).length = 16) (key : Bytes) :
    ∀ (k r0 : Nat) (buf : Bytes), 32 ≤ buf.length →
    (iterDFrom (wblRoundDBase C key) k r0 buf).length = buf.length := by
  intro k
  induction k with
  | zero => intro r0 buf _; rfl
  | succ k ih =>
    intro r0 buf h
    have hl := length_roundD C hlen key buf h (r0 + k + 1)
    simp only [iterDFrom]
    rw [ih r0 _ (by omega), hl]

/-- E rounds in ascending order undo the D rounds -/
theorem iterRounds_iterDFrom (C : Cipher) (hlen : ∀ k x, x.length = 16 → (C.enc k x).length = 16) (key : Bytes) :
    ∀ (k : Nat) (buf : Bytes) (r0 : Nat), 32 ≤ buf.length →
    iterRounds C key k (iterDFrom (wblRoundDBase C key) k r0 buf) r0 = buf := by
  intro k
  induction k with
  | zero => intro buf r0 _; rfl
  | succ k ih =>
    intro buf r0 h
    have hl := length_roundD C hlen key buf h (r0 + k + 1)
    rw [iterRounds_succ]
    simp only [iterDFrom]
    rw [ih _ r0 (by omega)]
    exact roundE_roundD C hlen key buf h (r0 + k)

/-- `wblIterD` is `iterDFrom` from 0 -/
theorem iterDFrom_zero (g : Bytes → Nat → Bytes) : ∀ (k : Nat) (buf : Bytes),
    iterDFrom g k 0 buf = wblIterD g k buf := by
  intro k
  induction k with
  | zero => intro buf; rfl
  | succ k ih =>
    intro buf
    simp only [iterDFrom, wblIterD, Nat.zero_add]
    exact ih _

/-! ### the Base loop from an admissible start round -/

theorem iterE_from (C : Cipher) (hlen : ∀ k x, x.length = 16 → (C.enc k x).length = 16) (key : Bytes)
    (n2 round0 : Nat) (h0 : round0 % n2 = 0) :
    ∀ (f : Nat) (buf : Bytes) (j : Nat), 32 ≤ buf.length → 0 < f → j + f = n2 →
    wblIterEBase C key n2 f buf (round0 + j) = (iterRounds C key f buf (round0 + j), round0 + n2) := by
  intro f
  induction f with
  | zero => intro buf j _ h; omega
  | succ f ih =>
    intro buf j hb _ hj
    obtain ⟨hl, hr1⟩ := length_roundE C hlen key buf hb (round0 + j)
    simp only [wblIterEBase, iterRounds]
    rw [hr1]
    have hmod : (round0 + j + 1) % n2 = (j + 1) % n2 := by
      rw [Nat.add_assoc]; exact add_mod_of_mod round0 (j + 1) n2 h0
    by_cases hlt : j + 1 < n2
    · have hc : (round0 + j + 1) % n2 ≠ 0 := by
        rw [hmod, Nat.mod_eq_of_lt hlt]; omega
      rw [if_pos hc]
      have := ih (wblRoundEBase C key buf (round0 + j)).1 (j + 1) (by omega) (by omega) (by omega)
      rw [← Nat.add_assoc] at this
      exact this
    · have hjn : j + 1 = n2 := by omega
      have hc : ¬ (round0 + j + 1) % n2 ≠ 0 := by
        rw [hmod, hjn, Nat.mod_self]; simp
      rw [if_neg hc]
      have hf : f = 0 := by omega
      subst hf
      simp only [iterRounds]
      have e : round0 + n2 = (wblRoundEBase C key buf (round0 + j)).2 := by rw [hr1]; omega
      rw [e]

theorem stepEBase_from (C : Cipher) (hlen : ∀ k x, x.length = 16 → (C.enc k x).length = 16)
    (key buf : Bytes) (round0 : Nat) (h : 32 ≤ buf.length) (h0 : round0 % (2 * wblN buf.length) = 0) :
    wblStepEBase C key buf round0 =
      (iterRounds C key (2 * wblN buf.length) buf round0, round0 + 2 * wblN buf.length) := by
  have := iterE_from C hlen key (2 * wblN buf.length) round0 h0 (2 * wblN buf.length) buf 0 h
    (wblN_pos _ h) (by omega)
  rw [Nat.add_zero] at this
  exact this

/-! ### Opt = Base from an admissible start round -/

theorem iterEOpt_from (C : Cipher) (hlen : ∀ k x, x.length = 16 → (C.enc k x).length = 16) (key : Bytes)
    (c : Nat) (hc16 : c % 16 = 0) (hc32 : 32 ≤ c) (round0 : Nat) (h0 : round0 % (2 * wblN c) = 0) :
    ∀ (f : Nat) (bO : Bytes) (i j : Nat), bO.length = c → i = (16 * j) % c → i % 16 = 0 →
    j + f = 2 * wblN c → 0 < f →
    (wblIterEOpt C key (2 * wblN c) f (bO, xs (rot bO i), i, round0 + j)).1
      = (wblIterEBase C key (2 * wblN c) f (rot bO i) (round0 + j)).1 ∧
    (wblIterEOpt C key (2 * wblN c) f (bO, xs (rot bO i), i, round0 + j)).2.2.2
      = (wblIterEBase C key (2 * wblN c) f (rot bO i) (round0 + j)).2 := by
  intro f
  induction f with
  | zero => intro bO i j _ _ _ _ h; omega
  | succ f ih =>
    intro bO i j hb hi hi16 hj _
    have hic : i < bO.length := by rw [hi, hb]; exact Nat.mod_lt _ (by omega)
    obtain ⟨s1, s2, s3, s4, s5⟩ := simE C hlen key bO i (round0 + j) (by omega) (by omega) hi16 hic
    have hrotl : (rot bO i).length = bO.length := by simp [rot]; omega
    obtain ⟨b1, b2⟩ := length_roundE C hlen key (rot bO i) (by omega) (round0 + j)
    simp only [wblIterEOpt, wblIterEBase]
    generalize wblRoundEOpt C key (bO, xs (rot bO i), i, round0 + j) = so at *
    obtain ⟨bO', sum', i', r'⟩ := so
    simp only [] at s1 s2 s3 s4 s5
    subst s3
    rw [b2]
    have hi1 : i' = (16 * (j + 1)) % c := by
      rw [s2, hi, hb, Nat.mod_add_mod]; congr 1
    have hi1' : i' % 16 = 0 := by
      rw [s2]
      by_cases hlt : i + 16 < bO.length
      · rw [Nat.mod_eq_of_lt hlt]; omega
      · have : i + 16 = bO.length := by omega
        rw [this, Nat.mod_self]
    have hmod : (round0 + j + 1) % (2 * wblN c) = (j + 1) % (2 * wblN c) := by
      rw [Nat.add_assoc]; exact add_mod_of_mod round0 (j + 1) _ h0
    by_cases hlt : j + 1 < 2 * wblN c
    · have hcnd : (round0 + j + 1) % (2 * wblN c) ≠ 0 := by
        rw [hmod, Nat.mod_eq_of_lt hlt]; omega
      rw [if_pos hcnd, if_pos hcnd]
      have := ih bO' i' (j + 1) (by omega) hi1 hi1' (by omega) (by omega)
      rw [← s2] at s4
      rw [s5, ← s4]
      rw [← Nat.add_assoc] at this
      exact this
    · have hn : j + 1 = 2 * wblN c := by omega
      have hcnd : ¬ (round0 + j + 1) % (2 * wblN c) ≠ 0 := by
        rw [hmod, hn, Nat.mod_self]; simp
      rw [if_neg hcnd, if_neg hcnd]
      have hz : i' = 0 := by
        rw [hi1, hn, two_n c hc16, Nat.mul_mod_left]
      rw [← s2, hz, rot_zero] at s4
      exact ⟨s4, b2.symm⟩

theorem stepEOpt_eq_Base_from (C : Cipher) (hlen : ∀ k x, x.length = 16 → (C.enc k x).length = 16)
    (key buf : Bytes) (round0 : Nat) (h16 : buf.length % 16 = 0) (h32 : 32 ≤ buf.length)
    (h0 : round0 % (2 * wblN buf.length) = 0) :
    wblStepEOpt C key buf round0 = wblStepEBase C key buf round0 := by
  obtain ⟨e1, e2⟩ := iterEOpt_from C hlen key buf.length h16 h32 round0 h0 (2 * wblN buf.length) buf 0 0 rfl
    (by simp) rfl (by omega) (wblN_pos _ h32)
  rw [rot_zero, Nat.add_zero] at e1 e2
  unfold wblStepEOpt wblStepEBase
  simp only []
  have hx : (xorBlocksFrom buf 16 buf.length 16 (buf.take 16)).1 = xs buf := rfl
  rw [hx, e1, e2]

/-! ### beltWBLStepR -/

theorem stepR_eq (C : Cipher) (hlen : ∀ k x, x.length = 16 → (C.enc k x).length = 16)
    (key buf : Bytes) (round0 : Nat) (h : 32 ≤ buf.length) (h0 : round0 % (2 * wblN buf.length) = 0) :
    wblStepR C key buf round0 =
      (iterRounds C key (2 * wblN buf.length) buf round0, round0 + 2 * wblN buf.length) := by
  rw [← stepEBase_from C hlen key buf round0 h h0]
  unfold wblStepR
  split
  · rfl
  · rename_i hc
    exact stepEOpt_eq_Base_from C hlen key buf round0 (by simp at hc; omega) h h0

theorem stepRIter_succ (C : Cipher) (key : Bytes) : ∀ (k : Nat) (buf : Bytes) (r : Nat),
    stepRIter C key (k + 1) buf r
      = wblStepR C key (stepRIter C key k buf r).1 (stepRIter C key k buf r).2 := by
  intro k
  induction k with
  | zero => intro buf r; rfl
  | succ k ih =>
    intro buf r
    exact ih (wblStepR C key buf r).1 (wblStepR C key buf r).2

/-- after `k` calls the counter is `round0 + 2n·k`, the length is unchanged, and the buffer has gone
through the rounds `round0+1, …, round0+2nk` -/
theorem stepRIter_spec (C : Cipher) (hlen : ∀ k x, x.length = 16 → (C.enc k x).length = 16) (key : Bytes)
    (c : Nat) (hc : 32 ≤ c) :
    ∀ (k : Nat) (buf : Bytes) (round0 : Nat), buf.length = c → round0 % (2 * wblN c) = 0 →
    stepRIter C key k buf round0
      = (iterRounds C key (2 * wblN c * k) buf round0, round0 + 2 * wblN c * k) := by
  intro k
  induction k with
  | zero => intro buf round0 _ _; rfl
  | succ k ih =>
    intro buf round0 hb h0
    subst hb
    simp only [stepRIter]
    rw [stepR_eq C hlen key buf round0 hc h0]
    simp only []
    rw [ih _ _ (length_iterRounds C hlen key _ buf round0 hc)
      (by rw [Nat.add_mod, h0, Nat.mod_self]; simp)]
    have e : 2 * wblN buf.length * (k + 1) = 2 * wblN buf.length + 2 * wblN buf.length * k := by
      rw [Nat.mul_add, Nat.mul_one, Nat.add_comm]
    rw [e, iterRounds_add, Nat.add_assoc]

end Bee2V.C01.WblR

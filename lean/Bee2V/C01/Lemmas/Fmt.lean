import Bee2V.C01.Model.Fmt
namespace Bee2V.C01

theorem mod_two_cases (x m : Nat) (h : x < 2 * m) : x % m = if x < m then x else x - m := by
  split
  · exact Nat.mod_eq_of_lt ‹_›
  · rw [Nat.mod_eq_sub_mod (by omega)]
    exact Nat.mod_eq_of_lt (by omega)

/-- digit-level: subtracting the same key digit undoes the addition, in Z_mod -/
theorem digit_sub_add (mod a s : Nat) (hm2 : 2 ≤ mod) (hm : mod ≤ 65536) (hs : s < mod) :
    (((a % mod + s) % 2 ^ 32 % mod % 65536) + mod - a % mod) % 2 ^ 32 % mod % 65536 = s := by
  have ht : a % mod < mod := Nat.mod_lt _ (by omega)
  have h1 : (a % mod + s) % 2 ^ 32 = a % mod + s := Nat.mod_eq_of_lt (by omega)
  rw [h1, mod_two_cases (a % mod + s) mod (by omega)]
  split
  · rw [Nat.mod_eq_of_lt (show a % mod + s < 65536 by omega)]
    have : a % mod + s + mod - a % mod = s + mod := by omega
    rw [this, Nat.mod_eq_of_lt (show s + mod < 2 ^ 32 by omega), Nat.add_mod_right, Nat.mod_eq_of_lt hs,
      Nat.mod_eq_of_lt (by omega)]
  · rw [Nat.mod_eq_of_lt (show a % mod + s - mod < 65536 by omega)]
    have : a % mod + s - mod + mod - a % mod = s := by omega
    rw [this, Nat.mod_eq_of_lt (show s < 2 ^ 32 by omega), Nat.mod_eq_of_lt hs, Nat.mod_eq_of_lt (by omega)]

theorem digit_add_sub (mod a s : Nat) (hm2 : 2 ≤ mod) (hm : mod ≤ 65536) (hs : s < mod) :
    (a % mod + ((s + mod - a % mod) % 2 ^ 32 % mod % 65536)) % 2 ^ 32 % mod % 65536 = s := by
  have ht : a % mod < mod := Nat.mod_lt _ (by omega)
  have h1 : (s + mod - a % mod) % 2 ^ 32 = s + mod - a % mod := Nat.mod_eq_of_lt (by omega)
  rw [h1, mod_two_cases (s + mod - a % mod) mod (by omega)]
  split
  · rw [Nat.mod_eq_of_lt (show s + mod - a % mod < 65536 by omega)]
    have : a % mod + (s + mod - a % mod) = s + mod := by omega
    rw [this, Nat.mod_eq_of_lt (show s + mod < 2 ^ 32 by omega), Nat.add_mod_right, Nat.mod_eq_of_lt hs,
      Nat.mod_eq_of_lt (by omega)]
  · rw [Nat.mod_eq_of_lt (show s + mod - a % mod - mod < 65536 by omega)]
    have : a % mod + (s + mod - a % mod - mod) = s := by omega
    rw [this, Nat.mod_eq_of_lt (show s < 2 ^ 32 by omega), Nat.mod_eq_of_lt hs, Nat.mod_eq_of_lt (by omega)]

theorem digit_add_lt (mod a s : Nat) (hm2 : 2 ≤ mod) : (a % mod + s) % 2 ^ 32 % mod % 65536 < mod := by
  have : (a % mod + s) % 2 ^ 32 % mod < mod := Nat.mod_lt _ (by omega)
  exact Nat.lt_of_le_of_lt (Nat.mod_le _ _) this

theorem digit_sub_lt (mod a s : Nat) (hm2 : 2 ≤ mod) : (s + mod - a % mod) % 2 ^ 32 % mod % 65536 < mod := by
  have : (s + mod - a % mod) % 2 ^ 32 % mod < mod := Nat.mod_lt _ (by omega)
  exact Nat.lt_of_le_of_lt (Nat.mod_le _ _) this

theorem length_addLoop (mod : Nat) (s : List Nat) (a : Nat) : (bin2strAddLoop mod s a).length = s.length := by
  induction s generalizing a with
  | nil => rfl
  | cons x xs ih => simp only [bin2strAddLoop, List.length_cons, ih]

theorem length_subLoop (mod : Nat) (s : List Nat) (a : Nat) : (bin2strSubLoop mod s a).length = s.length := by
  induction s generalizing a with
  | nil => rfl
  | cons x xs ih => simp only [bin2strSubLoop, List.length_cons, ih]

theorem subLoop_addLoop (mod : Nat) (hm2 : 2 ≤ mod) (hm : mod ≤ 65536) (s : List Nat) (a : Nat)
    (hs : ∀ d ∈ s, d < mod) : bin2strSubLoop mod (bin2strAddLoop mod s a) a = s := by
  induction s generalizing a with
  | nil => rfl
  | cons x xs ih =>
    simp only [bin2strAddLoop, bin2strSubLoop]
    rw [digit_sub_add mod a x hm2 hm (hs x (by simp)), ih (a / mod) (fun d hd => hs d (by simp [hd]))]

theorem addLoop_subLoop (mod : Nat) (hm2 : 2 ≤ mod) (hm : mod ≤ 65536) (s : List Nat) (a : Nat)
    (hs : ∀ d ∈ s, d < mod) : bin2strAddLoop mod (bin2strSubLoop mod s a) a = s := by
  induction s generalizing a with
  | nil => rfl
  | cons x xs ih =>
    simp only [bin2strAddLoop, bin2strSubLoop]
    rw [digit_add_sub mod a x hm2 hm (hs x (by simp)), ih (a / mod) (fun d hd => hs d (by simp [hd]))]

theorem addLoop_lt (mod : Nat) (hm2 : 2 ≤ mod) (s : List Nat) (a : Nat) : ∀ d ∈ bin2strAddLoop mod s a, d < mod := by
  induction s generalizing a with
  | nil => intro d hd; simp [bin2strAddLoop] at hd
  | cons x xs ih =>
    intro d hd
    simp only [bin2strAddLoop, List.mem_cons] at hd
    rcases hd with rfl | hd
    · exact digit_add_lt mod a x hm2
    · exact ih _ d hd

theorem subLoop_lt (mod : Nat) (hm2 : 2 ≤ mod) (s : List Nat) (a : Nat) : ∀ d ∈ bin2strSubLoop mod s a, d < mod := by
  induction s generalizing a with
  | nil => intro d hd; simp [bin2strSubLoop] at hd
  | cons x xs ih =>
    intro d hd
    simp only [bin2strSubLoop, List.mem_cons] at hd
    rcases hd with rfl | hd
    · exact digit_sub_lt mod a x hm2
    · exact ih _ d hd


/-! ### mod = 65536: digit-wise u16 addition -/

theorem u16From_lt (b : Bytes) : ∀ u ∈ u16From b, u < 65536 := by
  match b with
  | [] => intro u hu; simp [u16From] at hu
  | [_] => intro u hu; simp [u16From] at hu
  | b0 :: b1 :: rest =>
    intro u hu
    simp only [u16From, List.mem_cons] at hu
    rcases hu with rfl | hu
    · have := b0.toNat_lt; have := b1.toNat_lt; omega
    · exact u16From_lt rest u hu

theorem zip_sub_add (s U : List Nat) (hl : s.length ≤ U.length) (hs : ∀ d ∈ s, d < 65536) (hU : ∀ u ∈ U, u < 65536) :
    List.zipWith (fun s u => (s + 65536 - u) % 65536) (List.zipWith (fun s u => (s + u) % 65536) s U) U = s := by
  induction s generalizing U with
  | nil => simp
  | cons x xs ih =>
    match U, hl with
    | u :: us, hl =>
      simp only [List.zipWith_cons_cons, List.cons.injEq]
      have hx := hs x (by simp)
      have hu := hU u (by simp)
      refine ⟨by omega, ih us (by simpa using hl) (fun d hd => hs d (by simp [hd])) (fun v hv => hU v (by simp [hv]))⟩

theorem zip_add_sub (s U : List Nat) (hl : s.length ≤ U.length) (hs : ∀ d ∈ s, d < 65536) (hU : ∀ u ∈ U, u < 65536) :
    List.zipWith (fun s u => (s + u) % 65536) (List.zipWith (fun s u => (s + 65536 - u) % 65536) s U) U = s := by
  induction s generalizing U with
  | nil => simp
  | cons x xs ih =>
    match U, hl with
    | u :: us, hl =>
      simp only [List.zipWith_cons_cons, List.cons.injEq]
      have hx := hs x (by simp)
      have hu := hU u (by simp)
      refine ⟨by omega, ih us (by simpa using hl) (fun d hd => hs d (by simp [hd])) (fun v hv => hU v (by simp [hv]))⟩

theorem zip_lt (f : Nat → Nat → Nat) (hf : ∀ a b, f a b < 65536) (s U : List Nat) : ∀ d ∈ List.zipWith f s U, d < 65536 := by
  intro d hd
  rw [List.mem_iff_getElem] at hd
  obtain ⟨i, hi, rfl⟩ := hd
  simp only [List.getElem_zipWith]
  exact hf _ _

/-- `beltBin2StrSub` undoes `beltBin2StrAdd` with the same `bin`, for every alphabet size; for
`mod = 65536` the octet string must hold at least `count` u16 values (it holds `4(b+1) ≥ count`). -/
theorem bin2strSub_bin2strAdd (mod : Nat) (hm2 : 2 ≤ mod) (hm : mod ≤ 65536) (s : List Nat) (bin : Bytes)
    (hs : ∀ d ∈ s, d < mod) (hlen : mod = 65536 → s.length ≤ (u16From bin).length) :
    bin2strSub mod (bin2strAdd mod s bin) bin = s := by
  by_cases h : mod = 65536
  · subst h
    simp only [bin2strSub, bin2strAdd, beq_self_eq_true, if_true]
    exact zip_sub_add s _ (hlen rfl) hs (u16From_lt bin)
  · have : (mod == 65536) = false := by simpa using h
    simp only [bin2strSub, bin2strAdd, this]
    exact subLoop_addLoop mod hm2 hm s _ hs

theorem bin2strAdd_bin2strSub (mod : Nat) (hm2 : 2 ≤ mod) (hm : mod ≤ 65536) (s : List Nat) (bin : Bytes)
    (hs : ∀ d ∈ s, d < mod) (hlen : mod = 65536 → s.length ≤ (u16From bin).length) :
    bin2strAdd mod (bin2strSub mod s bin) bin = s := by
  by_cases h : mod = 65536
  · subst h
    simp only [bin2strSub, bin2strAdd, beq_self_eq_true, if_true]
    exact zip_add_sub s _ (hlen rfl) hs (u16From_lt bin)
  · have : (mod == 65536) = false := by simpa using h
    simp only [bin2strSub, bin2strAdd, this]
    exact addLoop_subLoop mod hm2 hm s _ hs

theorem length_bin2strAdd (mod : Nat) (s : List Nat) (bin : Bytes) (hlen : mod = 65536 → s.length ≤ (u16From bin).length) :
    (bin2strAdd mod s bin).length = s.length := by
  by_cases h : mod = 65536
  · subst h
    simp only [bin2strAdd, beq_self_eq_true, if_true, List.length_zipWith]
    have := hlen rfl; omega
  · have : (mod == 65536) = false := by simpa using h
    simp only [bin2strAdd, this]
    exact length_addLoop mod s _

theorem length_bin2strSub (mod : Nat) (s : List Nat) (bin : Bytes) (hlen : mod = 65536 → s.length ≤ (u16From bin).length) :
    (bin2strSub mod s bin).length = s.length := by
  by_cases h : mod = 65536
  · subst h
    simp only [bin2strSub, beq_self_eq_true, if_true, List.length_zipWith]
    have := hlen rfl; omega
  · have : (mod == 65536) = false := by simpa using h
    simp only [bin2strSub, this]
    exact length_subLoop mod s _

theorem bin2strAdd_lt (mod : Nat) (hm2 : 2 ≤ mod) (s : List Nat) (bin : Bytes) : ∀ d ∈ bin2strAdd mod s bin, d < mod := by
  by_cases h : mod = 65536
  · subst h
    simp only [bin2strAdd, beq_self_eq_true, if_true]
    exact zip_lt _ (fun a b => Nat.mod_lt _ (by omega)) _ _
  · have : (mod == 65536) = false := by simpa using h
    simp only [bin2strAdd, this]
    exact addLoop_lt mod hm2 s _

theorem bin2strSub_lt (mod : Nat) (hm2 : 2 ≤ mod) (s : List Nat) (bin : Bytes) : ∀ d ∈ bin2strSub mod s bin, d < mod := by
  by_cases h : mod = 65536
  · subst h
    simp only [bin2strSub, beq_self_eq_true, if_true]
    exact zip_lt _ (fun a b => Nat.mod_lt _ (by omega)) _ _
  · have : (mod == 65536) = false := by simpa using h
    simp only [bin2strSub, this]
    exact subLoop_lt mod hm2 s _


/-! ### Feistel rounds -/

/-- what the rounds need to know about the keyed function when `mod = 65536`: its output holds at
least `n` u16 values (in the C code: `8 (b + 1)` octets with `4 (b + 1) ≥ n`) -/
def FmtLenOk (C : Cipher) (st : FmtSt) (iv24 : Bytes) : Prop :=
  st.mod = 65536 → ∀ (str : List Nat) (off : Nat),
    (str.length = st.n2 → st.n1 ≤ (u16From (fmtF C st st.b2 str off iv24)).length) ∧
    (str.length = st.n1 → st.n2 ≤ (u16From (fmtF C st st.b1 str off iv24)).length)

theorem fmtRoundD_fmtRoundE (C : Cipher) (st : FmtSt) (iv24 : Bytes) (i : Nat) (buf : List Nat)
    (hm2 : 2 ≤ st.mod) (hm : st.mod ≤ 65536) (hlen : buf.length = st.n1 + st.n2) (hd : ∀ d ∈ buf, d < st.mod)
    (hF : FmtLenOk C st iv24) :
    fmtRoundD C st iv24 i (fmtRoundE C st iv24 i buf) = buf := by
  have hl : (buf.take st.n1).length = st.n1 := by simp only [List.length_take]; omega
  have hr : (buf.drop st.n1).length = st.n2 := by simp only [List.length_drop]; omega
  have hdl : ∀ d ∈ buf.take st.n1, d < st.mod := fun d h => hd d (List.mem_of_mem_take h)
  have hdr : ∀ d ∈ buf.drop st.n1, d < st.mod := fun d h => hd d (List.mem_of_mem_drop h)
  simp only [fmtRoundE, fmtRoundD]
  -- name the two keyed values
  generalize hb1 : fmtF C st st.b2 (List.drop st.n1 buf) (8 * i) iv24 = bin1
  have hlen1 : st.mod = 65536 → (buf.take st.n1).length ≤ (u16From bin1).length := by
    intro h; rw [hl, ← hb1]; exact (hF h _ _).1 hr
  have hl' : (bin2strAdd st.mod (List.take st.n1 buf) bin1).length = st.n1 := by
    rw [length_bin2strAdd _ _ _ hlen1, hl]
  generalize hb2 : fmtF C st st.b1 (bin2strAdd st.mod (List.take st.n1 buf) bin1) (8 * i + 4) iv24 = bin2
  have hlen2 : st.mod = 65536 → (buf.drop st.n1).length ≤ (u16From bin2).length := by
    intro h; rw [hr, ← hb2]; exact (hF h _ _).2 hl'
  rw [List.take_left' hl', List.drop_left' hl', hb2]
  rw [bin2strSub_bin2strAdd st.mod hm2 hm _ bin2 hdr hlen2, hb1]
  rw [bin2strSub_bin2strAdd st.mod hm2 hm _ bin1 hdl hlen1]
  exact List.take_append_drop _ _

theorem fmtRoundE_length (C : Cipher) (st : FmtSt) (iv24 : Bytes) (i : Nat) (buf : List Nat)
    (hlen : buf.length = st.n1 + st.n2) (hF : FmtLenOk C st iv24) :
    (fmtRoundE C st iv24 i buf).length = st.n1 + st.n2 := by
  have hl : (buf.take st.n1).length = st.n1 := by simp only [List.length_take]; omega
  have hr : (buf.drop st.n1).length = st.n2 := by simp only [List.length_drop]; omega
  simp only [fmtRoundE, List.length_append]
  have h1 : (bin2strAdd st.mod (List.take st.n1 buf) (fmtF C st st.b2 (List.drop st.n1 buf) (8 * i) iv24)).length = st.n1 := by
    rw [length_bin2strAdd _ _ _ (fun h => by rw [hl]; exact (hF h _ _).1 hr), hl]
  rw [h1, length_bin2strAdd _ _ _ (fun h => by rw [hr]; exact (hF h _ _).2 h1), hr]

theorem fmtRoundE_lt (C : Cipher) (st : FmtSt) (iv24 : Bytes) (i : Nat) (buf : List Nat) (hm2 : 2 ≤ st.mod) :
    ∀ d ∈ fmtRoundE C st iv24 i buf, d < st.mod := by
  intro d hd
  simp only [fmtRoundE, List.mem_append] at hd
  rcases hd with hd | hd
  · exact bin2strAdd_lt st.mod hm2 _ _ d hd
  · exact bin2strAdd_lt st.mod hm2 _ _ d hd

theorem fmtStepD_fmtStepE' (C : Cipher) (st : FmtSt) (iv : Option Bytes) (buf : List Nat)
    (hm2 : 2 ≤ st.mod) (hm : st.mod ≤ 65536) (hlen : buf.length = st.n1 + st.n2) (hd : ∀ d ∈ buf, d < st.mod)
    (hF : FmtLenOk C st (fmtIv st iv)) :
    fmtStepD C st iv (fmtStepE C st iv buf) = buf := by
  simp only [fmtStepE, fmtStepD]
  have l0 := fmtRoundE_length C st (fmtIv st iv) 0 buf hlen hF
  have l1 := fmtRoundE_length C st (fmtIv st iv) 1 _ l0 hF
  rw [fmtRoundD_fmtRoundE C st _ 2 _ hm2 hm l1 (fmtRoundE_lt C st _ 1 _ hm2) hF]
  rw [fmtRoundD_fmtRoundE C st _ 1 _ hm2 hm l0 (fmtRoundE_lt C st _ 0 _ hm2) hF]
  exact fmtRoundD_fmtRoundE C st _ 0 _ hm2 hm hlen hd hF

end Bee2V.C01

/- kernel-checked rows of the beltFMTCalcB table: alphabet sizes 770..1025, all counts 1..300 -/
import Bee2V.C01.Lemmas.FmtTable
namespace Bee2V.C01

set_option maxRecDepth 100000 in
theorem fmtRows_770 : checkMods 64 770 = true := by decide +kernel

set_option maxRecDepth 100000 in
theorem fmtRows_834 : checkMods 64 834 = true := by decide +kernel

set_option maxRecDepth 100000 in
theorem fmtRows_898 : checkMods 64 898 = true := by decide +kernel

set_option maxRecDepth 100000 in
theorem fmtRows_962 : checkMods 64 962 = true := by decide +kernel

end Bee2V.C01

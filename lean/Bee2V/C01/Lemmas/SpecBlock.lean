/-
C01: the block cipher of STB 34.101.31 §6.1 written the way the standard writes it (namespace
`Bee2V.C01.Spec`), and the helper lemmas that connect it to the macro formulation of belt_block.c
(namespace `Bee2V.C01`).  No Mathlib.
-/
import Bee2V.C01.Spec
import Bee2V.C01.Lemmas.Block
import Bee2V.C01.Props
namespace Bee2V.C01.Spec
open Bee2V.Gen.C01

/-! ### G-blocks (§6.1.2): `G_r(u) = RotHi^r(H(u1) ‖ H(u2) ‖ H(u3) ‖ H(u4))`, `u = u1 ‖ u2 ‖ u3 ‖ u4`,
words are little-endian: `u1` is the least significant octet. -/

/-- `H(u1) ‖ H(u2) ‖ H(u3) ‖ H(u4)` as a 32-bit word -/
def hWord (x : UInt32) : UInt32 :=
  H[(x &&& 255).toNat]!.toUInt32 ||| H[(x >>> 8 &&& 255).toNat]!.toUInt32 <<< 8 |||
    H[(x >>> 16 &&& 255).toNat]!.toUInt32 <<< 16 ||| H[(x >>> 24).toNat]!.toUInt32 <<< 24

/-- `G_r` -/
def G (r : UInt32) (x : UInt32) : UInt32 := rotHi (hWord x) r

/-- the G-blocks of the standard, as the record used by the round model -/
def specG : GFun := ⟨G 5, G 13, G 21⟩

/-! ### Round keys (§6.1.3): `θ = θ1 ‖ … ‖ θ8`, `K[1] = θ1, …, K[8] = θ8, K[9] = θ1, …, K[56] = θ8`.
The array holds θ1..θ8 at positions 0..7. -/

/-- `K[j]`, `j = 1..56` -/
def rk (θ : Array UInt32) (j : Nat) : UInt32 := θ[(j - 1) % 8]!

/-- steps 2.1)–2.9) of encryption and decryption; `k1..k7` are the seven round keys in the order in which the
steps use them; `e` is the auxiliary register of the standard -/
def steps (g : GFun) (k1 k2 k3 k4 k5 k6 k7 : UInt32) (i : Nat) (a b c d : UInt32) : Regs :=
  let b := b ^^^ g.g5 (a + k1)                       -- 1) b ← b ⊕ G5(a ⊞ k1)
  let c := c ^^^ g.g21 (d + k2)                      -- 2) c ← c ⊕ G21(d ⊞ k2)
  let a := a - g.g13 (b + k3)                        -- 3) a ← a ⊟ G13(b ⊞ k3)
  let e := g.g21 (b + c + k4) ^^^ UInt32.ofNat i     -- 4) e ← G21(b ⊞ c ⊞ k4) ⊕ ⟨i⟩32
  let b := b + e                                     -- 5) b ← b ⊞ e
  let c := c - e                                     -- 6) c ← c ⊟ e
  let d := d + g.g13 (c + k5)                        -- 7) d ← d ⊞ G13(c ⊞ k5)
  let b := b ^^^ g.g21 (a + k6)                      -- 8) b ← b ⊕ G21(a ⊞ k6)
  let c := c ^^^ g.g5 (d + k7)                       -- 9) c ← c ⊕ G5(d ⊞ k7)
  (a, b, c, d)

/-- round `i` of encryption: steps 1)–9) with `K[7i-6], …, K[7i]`, then 10) `a ↔ b`, 11) `c ↔ d`, 12) `b ↔ c` -/
def encRound (g : GFun) (θ : Array UInt32) (x : Regs) (i : Nat) : Regs :=
  let (a, b, c, d) := x
  let (a, b, c, d) := steps g (rk θ (7 * i - 6)) (rk θ (7 * i - 5)) (rk θ (7 * i - 4)) (rk θ (7 * i - 3))
    (rk θ (7 * i - 2)) (rk θ (7 * i - 1)) (rk θ (7 * i)) i a b c d
  let (a, b) := (b, a)
  let (c, d) := (d, c)
  let (b, c) := (c, b)
  (a, b, c, d)

/-- round `i` of decryption: steps 1)–9) with `K[7i], …, K[7i-6]`, then 10) `a ↔ b`, 11) `c ↔ d`, 12) `a ↔ d` -/
def decRound (g : GFun) (θ : Array UInt32) (x : Regs) (i : Nat) : Regs :=
  let (a, b, c, d) := x
  let (a, b, c, d) := steps g (rk θ (7 * i)) (rk θ (7 * i - 1)) (rk θ (7 * i - 2)) (rk θ (7 * i - 3))
    (rk θ (7 * i - 4)) (rk θ (7 * i - 5)) (rk θ (7 * i - 6)) i a b c d
  let (a, b) := (b, a)
  let (c, d) := (d, c)
  let (a, d) := (d, a)
  (a, b, c, d)

/-- encryption of `X = a ‖ b ‖ c ‖ d`: rounds `i = 1, 2, …, 8`, then `Y ← b ‖ d ‖ a ‖ c` -/
def encr (g : GFun) (θ : Array UInt32) (x : Regs) : Regs :=
  let (a, b, c, d) := [1, 2, 3, 4, 5, 6, 7, 8].foldl (encRound g θ) x
  (b, d, a, c)

/-- decryption of `Y = a ‖ b ‖ c ‖ d`: rounds `i = 8, 7, …, 1`, then `X ← c ‖ a ‖ d ‖ b` -/
def decr (g : GFun) (θ : Array UInt32) (x : Regs) : Regs :=
  let (a, b, c, d) := [8, 7, 6, 5, 4, 3, 2, 1].foldl (decRound g θ) x
  (c, a, d, b)

/-- the cipher on octets: the block and the key are split into little-endian 32-bit words -/
def blockEncr (g : GFun) (key blk : Bytes) : Bytes :=
  match u32From blk with
  | [a, b, c, d] =>
    let (a, b, c, d) := encr g (u32From key).toArray (a, b, c, d)
    u32To [a, b, c, d]
  | _ => blk

def blockDecr (g : GFun) (key blk : Bytes) : Bytes :=
  match u32From blk with
  | [a, b, c, d] =>
    let (a, b, c, d) := decr g (u32From key).toArray (a, b, c, d)
    u32To [a, b, c, d]
  | _ => blk

/-! ### Key expansion (§6.1.? / `beltKeyExpand`) on the eight key words -/

/-- 128-bit key: `θ5..θ8 = θ1..θ4`; 192-bit key: `θ7 = θ1 ⊕ θ2 ⊕ θ3`, `θ8 = θ4 ⊕ θ5 ⊕ θ6`; 256-bit key: unchanged -/
def keyExpandW : List UInt32 → List UInt32
  | [t1, t2, t3, t4] => [t1, t2, t3, t4, t1, t2, t3, t4]
  | [t1, t2, t3, t4, t5, t6] => [t1, t2, t3, t4, t5, t6, t1 ^^^ t2 ^^^ t3, t4 ^^^ t5 ^^^ t6]
  | ts => ts

end Bee2V.C01.Spec

namespace Bee2V.C01
open Bee2V.Gen.C01

/-! ## Rounds -/

theorem u32_e_step (b c e : UInt32) : c + b - (b + e) = c - e := by grind

/-- The macro `R` performs steps 1)–9) of the standard (which uses the extra register `e`). -/
theorem R_eq_steps (g : GFun) (sk : Nat → UInt32) (i : Nat) (a b c d : UInt32) :
    R g sk (UInt32.ofNat i) a b c d = Spec.steps g (sk 0) (sk 1) (sk 2) (sk 3) (sk 4) (sk 5) (sk 6) i a b c d := by
  simp only [R, Spec.steps, u32_e_step]
  rw [UInt32.add_comm (c ^^^ g.g21 (d + sk 1)) (b ^^^ g.g5 (a + sk 0))]

theorem roundE_eq (g : GFun) (K : Array UInt32) (i : Nat) (a b c d : UInt32) :
    roundE g K i a b c d = Spec.steps g (subkeyE K i 0) (subkeyE K i 1) (subkeyE K i 2) (subkeyE K i 3)
      (subkeyE K i 4) (subkeyE K i 5) (subkeyE K i 6) i a b c d := R_eq_steps g _ i a b c d

theorem roundD_eq (g : GFun) (K : Array UInt32) (i : Nat) (a b c d : UInt32) :
    roundD g K i a b c d = Spec.steps g (subkeyD K i 0) (subkeyD K i 1) (subkeyD K i 2) (subkeyD K i 3)
      (subkeyD K i 4) (subkeyD K i 5) (subkeyD K i 6) i a b c d := R_eq_steps g _ i a b c d

/-- macro `E` = the eight rounds of the standard followed by `Y ← b ‖ d ‖ a ‖ c` -/
theorem E_eq_encr (g : GFun) (K : Array UInt32) (a b c d : UInt32) :
    E g K a b c d = Spec.encr g K (a, b, c, d) := by
  simp only [E, encRounds, Spec.encr, List.foldl, Spec.encRound, roundE_eq, xorSwap_eq, subkeyE, Spec.rk,
    Nat.reduceMul, Nat.reduceSub, Nat.reduceAdd, Nat.reduceMod]

/-- macro `D` = the eight rounds of the standard (i = 8..1) followed by `X ← c ‖ a ‖ d ‖ b` -/
theorem D_eq_decr (g : GFun) (K : Array UInt32) (a b c d : UInt32) :
    D g K a b c d = Spec.decr g K (a, b, c, d) := by
  simp only [D, decRounds, Spec.decr, List.foldl, Spec.decRound, roundD_eq, xorSwap_eq, subkeyD, Spec.rk,
    Nat.reduceMul, Nat.reduceSub, Nat.reduceMod]

/-! ## G-blocks -/

theorem xor_eq_or_of_and_eq_zero (a b : UInt32) (h : a &&& b = 0) : a ^^^ b = a ||| b := by
  rw [← UInt32.toBitVec_inj] at h ⊢
  simp only [UInt32.toBitVec_xor, UInt32.toBitVec_or, UInt32.toBitVec_and, UInt32.toBitVec_zero] at h ⊢
  ext i hi
  have := congrArg (fun v => v.getLsbD i) h
  simp only [BitVec.getLsbD_and, BitVec.getLsbD_zero] at this
  simp only [BitVec.getElem_xor, BitVec.getElem_or]
  simp only [← BitVec.getLsbD_eq_getElem] 
  revert this
  cases a.toBitVec.getLsbD i <;> cases b.toBitVec.getLsbD i <;> simp

theorem or_and_eq_zero (a b c : UInt32) (h1 : a &&& c = 0) (h2 : b &&& c = 0) : (a ||| b) &&& c = 0 := by
  rw [← UInt32.toBitVec_inj] at h1 h2 ⊢
  simp only [UInt32.toBitVec_or, UInt32.toBitVec_and, UInt32.toBitVec_zero] at h1 h2 ⊢
  rw [BitVec.and_or_distrib_right, h1, h2, BitVec.or_self]

theorem and_eq_zero_of_masks (a b ma mb : UInt32) (ha : a &&& ma = a) (hb : b &&& mb = b) (hm : ma &&& mb = 0) :
    a &&& b = 0 := by
  calc a &&& b = (a &&& ma) &&& (b &&& mb) := by rw [ha, hb]
    _ = (a &&& b) &&& (ma &&& mb) := by ac_rfl
    _ = 0 := by rw [hm, UInt32.and_zero]

/-- four words living in four pairwise disjoint masks: xor = or -/
theorem xor4_eq_or4 (t0 t1 t2 t3 m0 m1 m2 m3 : UInt32)
    (h0 : t0 &&& m0 = t0) (h1 : t1 &&& m1 = t1) (h2 : t2 &&& m2 = t2) (h3 : t3 &&& m3 = t3)
    (m01 : m0 &&& m1 = 0) (m02 : m0 &&& m2 = 0) (m03 : m0 &&& m3 = 0) (m12 : m1 &&& m2 = 0) (m13 : m1 &&& m3 = 0)
    (m23 : m2 &&& m3 = 0) : t0 ^^^ t1 ^^^ t2 ^^^ t3 = t0 ||| t1 ||| t2 ||| t3 := by
  have d01 := and_eq_zero_of_masks _ _ _ _ h0 h1 m01
  have d02 := and_eq_zero_of_masks _ _ _ _ h0 h2 m02
  have d03 := and_eq_zero_of_masks _ _ _ _ h0 h3 m03
  have d12 := and_eq_zero_of_masks _ _ _ _ h1 h2 m12
  have d13 := and_eq_zero_of_masks _ _ _ _ h1 h3 m13
  have d23 := and_eq_zero_of_masks _ _ _ _ h2 h3 m23
  rw [xor_eq_or_of_and_eq_zero t0 t1 d01, xor_eq_or_of_and_eq_zero _ t2 (or_and_eq_zero _ _ _ d02 d12),
    xor_eq_or_of_and_eq_zero _ t3 (or_and_eq_zero _ _ _ (or_and_eq_zero _ _ _ d03 d13) d23)]

theorem rotHi_or (a b r : UInt32) : Spec.rotHi (a ||| b) r = Spec.rotHi a r ||| Spec.rotHi b r := by
  simp only [Spec.rotHi, UInt32.shiftLeft_or, UInt32.shiftRight_or]
  ac_rfl

theorem u8_forall (p : UInt8 → Prop) (h : ∀ i : Fin 256, p (UInt8.ofNat i.val)) (b : UInt8) : p b := by
  have := h ⟨b.toNat, b.toNat_lt⟩
  simpa using this


theorem idx_and255 (y : UInt32) : (y &&& 255).toNat < 256 := by
  rw [UInt32.toNat_and]
  exact Nat.lt_of_le_of_lt Nat.and_le_right (by decide)

theorem idx_shr24 (x : UInt32) : (x >>> 24).toNat < 256 := by
  have := x.toNat_lt
  rw [UInt32.toNat_shiftRight]
  simp only [UInt32.toNat_ofNat, Nat.shiftRight_eq_div_pow, Nat.reducePow, Nat.reduceMod]
  omega

/-! `RotHi^r(h ≪ s) = RotHi^(r+s mod 32)(h)` for an octet `h`: facts about rotations only (no table involved) -/
theorem rotHi_shl_8_5 (b : UInt8) : Spec.rotHi (b.toUInt32 <<< 8) 5 = Spec.rotHi b.toUInt32 13 :=
  u8_forall (fun b => Spec.rotHi (b.toUInt32 <<< 8) 5 = Spec.rotHi b.toUInt32 13) (by decide +kernel) b
theorem rotHi_shl_16_5 (b : UInt8) : Spec.rotHi (b.toUInt32 <<< 16) 5 = Spec.rotHi b.toUInt32 21 :=
  u8_forall (fun b => Spec.rotHi (b.toUInt32 <<< 16) 5 = Spec.rotHi b.toUInt32 21) (by decide +kernel) b
theorem rotHi_shl_24_5 (b : UInt8) : Spec.rotHi (b.toUInt32 <<< 24) 5 = Spec.rotHi b.toUInt32 29 :=
  u8_forall (fun b => Spec.rotHi (b.toUInt32 <<< 24) 5 = Spec.rotHi b.toUInt32 29) (by decide +kernel) b
theorem rotHi_shl_8_13 (b : UInt8) : Spec.rotHi (b.toUInt32 <<< 8) 13 = Spec.rotHi b.toUInt32 21 :=
  u8_forall (fun b => Spec.rotHi (b.toUInt32 <<< 8) 13 = Spec.rotHi b.toUInt32 21) (by decide +kernel) b
theorem rotHi_shl_16_13 (b : UInt8) : Spec.rotHi (b.toUInt32 <<< 16) 13 = Spec.rotHi b.toUInt32 29 :=
  u8_forall (fun b => Spec.rotHi (b.toUInt32 <<< 16) 13 = Spec.rotHi b.toUInt32 29) (by decide +kernel) b
theorem rotHi_shl_24_13 (b : UInt8) : Spec.rotHi (b.toUInt32 <<< 24) 13 = Spec.rotHi b.toUInt32 5 :=
  u8_forall (fun b => Spec.rotHi (b.toUInt32 <<< 24) 13 = Spec.rotHi b.toUInt32 5) (by decide +kernel) b
theorem rotHi_shl_8_21 (b : UInt8) : Spec.rotHi (b.toUInt32 <<< 8) 21 = Spec.rotHi b.toUInt32 29 :=
  u8_forall (fun b => Spec.rotHi (b.toUInt32 <<< 8) 21 = Spec.rotHi b.toUInt32 29) (by decide +kernel) b
theorem rotHi_shl_16_21 (b : UInt8) : Spec.rotHi (b.toUInt32 <<< 16) 21 = Spec.rotHi b.toUInt32 5 :=
  u8_forall (fun b => Spec.rotHi (b.toUInt32 <<< 16) 21 = Spec.rotHi b.toUInt32 5) (by decide +kernel) b
theorem rotHi_shl_24_21 (b : UInt8) : Spec.rotHi (b.toUInt32 <<< 24) 21 = Spec.rotHi b.toUInt32 13 :=
  u8_forall (fun b => Spec.rotHi (b.toUInt32 <<< 24) 21 = Spec.rotHi b.toUInt32 13) (by decide +kernel) b

/-! the rotated image of an octet lives in the rotated octet mask -/
theorem rotHi_mask_5 (b : UInt8) : Spec.rotHi b.toUInt32 5 &&& 0x1fe0 = Spec.rotHi b.toUInt32 5 :=
  u8_forall (fun b => Spec.rotHi b.toUInt32 5 &&& 0x1fe0 = Spec.rotHi b.toUInt32 5) (by decide +kernel) b
theorem rotHi_mask_13 (b : UInt8) : Spec.rotHi b.toUInt32 13 &&& 0x1fe000 = Spec.rotHi b.toUInt32 13 :=
  u8_forall (fun b => Spec.rotHi b.toUInt32 13 &&& 0x1fe000 = Spec.rotHi b.toUInt32 13) (by decide +kernel) b
theorem rotHi_mask_21 (b : UInt8) : Spec.rotHi b.toUInt32 21 &&& 0x1fe00000 = Spec.rotHi b.toUInt32 21 :=
  u8_forall (fun b => Spec.rotHi b.toUInt32 21 &&& 0x1fe00000 = Spec.rotHi b.toUInt32 21) (by decide +kernel) b
theorem rotHi_mask_29 (b : UInt8) : Spec.rotHi b.toUInt32 29 &&& 0xe000001f = Spec.rotHi b.toUInt32 29 :=
  u8_forall (fun b => Spec.rotHi b.toUInt32 29 &&& 0xe000001f = Spec.rotHi b.toUInt32 29) (by decide +kernel) b

theorem hWord_rot (x r : UInt32) : Spec.G r x =
    Spec.rotHi (H[(x &&& 255).toNat]!.toUInt32) r ||| Spec.rotHi (H[(x >>> 8 &&& 255).toNat]!.toUInt32 <<< 8) r |||
      Spec.rotHi (H[(x >>> 16 &&& 255).toNat]!.toUInt32 <<< 16) r ||| Spec.rotHi (H[(x >>> 24).toNat]!.toUInt32 <<< 24) r := by
  simp only [Spec.G, Spec.hWord, rotHi_or]

theorem G5_eq (x : UInt32) : G5 x = Spec.G 5 x := by
  rw [hWord_rot, rotHi_shl_8_5, rotHi_shl_16_5, rotHi_shl_24_5]
  unfold G5
  rw [table_H5_rot ⟨_, idx_and255 x⟩, table_H13_rot ⟨_, idx_and255 (x >>> 8)⟩, table_H21_rot ⟨_, idx_and255 (x >>> 16)⟩,
    table_H29_rot ⟨_, idx_shr24 x⟩]
  exact xor4_eq_or4 _ _ _ _ _ _ _ _ (rotHi_mask_5 _) (rotHi_mask_13 _) (rotHi_mask_21 _) (rotHi_mask_29 _)
    (by decide) (by decide) (by decide) (by decide) (by decide) (by decide)

theorem G13_eq (x : UInt32) : G13 x = Spec.G 13 x := by
  rw [hWord_rot, rotHi_shl_8_13, rotHi_shl_16_13, rotHi_shl_24_13]
  unfold G13
  rw [table_H13_rot ⟨_, idx_and255 x⟩, table_H21_rot ⟨_, idx_and255 (x >>> 8)⟩, table_H29_rot ⟨_, idx_and255 (x >>> 16)⟩,
    table_H5_rot ⟨_, idx_shr24 x⟩]
  exact xor4_eq_or4 _ _ _ _ _ _ _ _ (rotHi_mask_13 _) (rotHi_mask_21 _) (rotHi_mask_29 _) (rotHi_mask_5 _)
    (by decide) (by decide) (by decide) (by decide) (by decide) (by decide)

theorem G21_eq (x : UInt32) : G21 x = Spec.G 21 x := by
  rw [hWord_rot, rotHi_shl_8_21, rotHi_shl_16_21, rotHi_shl_24_21]
  unfold G21
  rw [table_H21_rot ⟨_, idx_and255 x⟩, table_H29_rot ⟨_, idx_and255 (x >>> 8)⟩, table_H5_rot ⟨_, idx_and255 (x >>> 16)⟩,
    table_H13_rot ⟨_, idx_shr24 x⟩]
  exact xor4_eq_or4 _ _ _ _ _ _ _ _ (rotHi_mask_21 _) (rotHi_mask_29 _) (rotHi_mask_5 _) (rotHi_mask_13 _)
    (by decide) (by decide) (by decide) (by decide) (by decide) (by decide)

theorem beltG_eq_specG : beltG = Spec.specG := by
  simp only [beltG, Spec.specG, GFun.mk.injEq]
  exact ⟨funext G5_eq, funext G13_eq, funext G21_eq⟩

/-! ## Key expansion: word view = octet view -/

theorem st32_bitwise (w : UInt32) :
    st32 w = [w.toUInt8, (w >>> 8).toUInt8, (w >>> 16).toUInt8, (w >>> 24).toUInt8] := by
  have := w.toNat_lt
  simp only [st32, List.cons.injEq, and_true, ← UInt8.toNat_inj, UInt8.toNat_ofNat', UInt32.toNat_toUInt8,
    UInt32.toNat_shiftRight, UInt32.toNat_ofNat, Nat.shiftRight_eq_div_pow, Nat.reducePow, Nat.reduceMod]
  omega

theorem st32_xor (x y : UInt32) : st32 (x ^^^ y) = xorb (st32 x) (st32 y) := by
  simp only [st32_bitwise, xorb, List.zipWith_cons_cons, List.zipWith_nil_left, UInt32.shiftRight_xor,
    UInt32.toUInt8_xor]

theorem u32From_st32 (w : UInt32) : u32From (st32 w) = [w] := by
  have := u32From_st32_append w []
  simpa [u32From] using this

theorem ld32_xor (a0 a1 a2 a3 b0 b1 b2 b3 : UInt8) :
    ld32 a0 a1 a2 a3 ^^^ ld32 b0 b1 b2 b3 = ld32 (a0 ^^^ b0) (a1 ^^^ b1) (a2 ^^^ b2) (a3 ^^^ b3) := by
  have h := st32_xor (ld32 a0 a1 a2 a3) (ld32 b0 b1 b2 b3)
  rw [st32_ld32, st32_ld32] at h
  simp only [xorb, List.zipWith_cons_cons, List.zipWith_nil_left] at h
  have h2 := u32From_st32 (ld32 a0 a1 a2 a3 ^^^ ld32 b0 b1 b2 b3)
  rw [h] at h2
  simp only [u32From, List.cons.injEq, and_true] at h2
  exact h2.symm

theorem u32To_u32From (b : Bytes) (h : b.length % 4 = 0) : u32To (u32From b) = b := by
  fun_induction u32From b with
  | case1 b0 b1 b2 b3 rest ih =>
    simp only [u32To, st32_ld32]
    rw [ih (by simp only [List.length_cons] at h; omega)]
    rfl
  | case2 b hb =>
    match b, hb, h with
    | [], _, _ => rfl
    | [_], _, h => simp at h
    | [_, _], _, h => simp at h
    | [_, _, _], _, h => simp at h
    | _ :: _ :: _ :: _ :: _, hb, _ => exact absurd rfl (hb _ _ _ _ _)

theorem length_u32From (b : Bytes) : (u32From b).length = b.length / 4 := by
  fun_induction u32From b with
  | case1 b0 b1 b2 b3 rest ih => simp only [List.length_cons, ih]; omega
  | case2 b hb =>
    match b, hb with
    | [], _ => rfl
    | [_], _ => simp
    | [_, _], _ => simp
    | [_, _, _], _ => simp
    | _ :: _ :: _ :: _ :: _, hb => exact absurd rfl (hb _ _ _ _ _)

theorem keyExpand2_16 (key : Bytes) (h : key.length = 16) : keyExpand2 key = u32From key ++ u32From key := by
  match key, h with
  | [b0, b1, b2, b3, b4, b5, b6, b7, b8, b9, b10, b11, b12, b13, b14, b15], _ =>
    simp only [keyExpand2, u32From, List.cons_append, List.nil_append]

theorem keyExpand2_24 (key : Bytes) (h : key.length = 24) :
    ∃ t1 t2 t3 t4 t5 t6, u32From key = [t1, t2, t3, t4, t5, t6] ∧
      keyExpand2 key = [t1, t2, t3, t4, t5, t6, t1 ^^^ t2 ^^^ t3, t4 ^^^ t5 ^^^ t6] := by
  match key, h with
  | [b0, b1, b2, b3, b4, b5, b6, b7, b8, b9, b10, b11, b12, b13, b14, b15, b16, b17, b18, b19, b20, b21, b22, b23], _ =>
    exact ⟨ld32 b0 b1 b2 b3, ld32 b4 b5 b6 b7, ld32 b8 b9 b10 b11, ld32 b12 b13 b14 b15, ld32 b16 b17 b18 b19,
      ld32 b20 b21 b22 b23, by simp only [u32From], by simp only [keyExpand2, u32From]⟩

theorem keyExpand2_32 (key : Bytes) (h : key.length = 32) : keyExpand2 key = u32From key := by
  have hl := length_u32From key
  rw [h] at hl
  unfold keyExpand2
  split
  · next heq => rw [heq] at hl; simp at hl
  · next heq => rw [heq] at hl; simp at hl
  · rfl

theorem keyExpand_agree_16 (key : Bytes) (h : key.length = 16) : u32To (keyExpand2 key) = keyExpand key := by
  have h4 := u32To_u32From key (by omega)
  have h8 := u32To_u32From (key ++ key) (by simp only [List.length_append]; omega)
  match key, h with
  | [b0, b1, b2, b3, b4, b5, b6, b7, b8, b9, b10, b11, b12, b13, b14, b15], _ =>
    simp only [keyExpand2, keyExpand, u32From, List.length_cons, List.length_nil] 
    simp only [u32From, List.cons_append, List.nil_append] at h8
    exact h8

theorem keyExpand_agree_32 (key : Bytes) (h : key.length = 32) : u32To (keyExpand2 key) = keyExpand key := by
  rw [keyExpand2_32 key h, u32To_u32From key (by omega)]
  simp only [keyExpand, h]
  rfl

theorem keyExpand_agree_24 (key : Bytes) (h : key.length = 24) : u32To (keyExpand2 key) = keyExpand key := by
  match key, h with
  | [b0, b1, b2, b3, b4, b5, b6, b7, b8, b9, b10, b11, b12, b13, b14, b15, b16, b17, b18, b19, b20, b21, b22, b23], _ =>
    simp only [keyExpand2, keyExpand, u32From, List.length_cons, List.length_nil, u32To, ld32_xor, st32_ld32]
    simp [xorb]

theorem blockEncr_eq_spec (key blk : Bytes) : blockEncr key blk = Spec.blockEncr Spec.specG key blk := by
  unfold blockEncr Spec.blockEncr
  split
  next a b c d h => simp only [h, E_eq_encr, beltG_eq_specG]
  next hn =>
    split
    next a b c d h => exact absurd h (hn a b c d)
    next => rfl

theorem blockDecr_eq_spec (key blk : Bytes) : blockDecr key blk = Spec.blockDecr Spec.specG key blk := by
  unfold blockDecr Spec.blockDecr
  split
  next a b c d h => simp only [h, D_eq_decr, beltG_eq_specG]
  next hn =>
    split
    next a b c d h => exact absurd h (hn a b c d)
    next => rfl

end Bee2V.C01

/- kernel-checked rows of the beltFMTCalcB table: alphabet sizes 258..513, all counts 1..300 -/
import Bee2V.C01.Lemmas.FmtTable
namespace Bee2V.C01

set_option maxRecDepth 100000 in
theorem fmtRows_258 : checkMods 64 258 = true := by decide +kernel

set_option maxRecDepth 100000 in
theorem fmtRows_322 : checkMods 64 322 = true := by decide +kernel

set_option maxRecDepth 100000 in
theorem fmtRows_386 : checkMods 64 386 = true := by decide +kernel

set_option maxRecDepth 100000 in
theorem fmtRows_450 : checkMods 64 450 = true := by decide +kernel

end Bee2V.C01

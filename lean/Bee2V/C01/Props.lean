/-
C01 property theorems, part 1: tables and block cipher.
Only property theorems and non-vacuity examples.
-/
import Bee2V.C01.Spec
import Bee2V.C01.Lemmas.Block
namespace Bee2V.C01
open Bee2V.Gen.C01

/-- The table `H` of belt_block.c (as regenerated from the source) is the substitution defined by the
LFSR of the standard. -/
theorem table_H_is_spec : H.toList.map UInt8.toNat = Spec.hTable := by decide +kernel

/-- `H5[i] = RotHi^5(H[i])`, for every i -/
theorem table_H5_rot : ∀ i : Fin 256, H5[i.val]! = Spec.rotHi (H[i.val]!.toUInt32) 5 := by decide +kernel
/-- `H13[i] = RotHi^13(H[i]) = RotHi^5(H[i] ≪ 8)` -/
theorem table_H13_rot : ∀ i : Fin 256, H13[i.val]! = Spec.rotHi (H[i.val]!.toUInt32) 13 := by decide +kernel
theorem table_H21_rot : ∀ i : Fin 256, H21[i.val]! = Spec.rotHi (H[i.val]!.toUInt32) 21 := by decide +kernel
theorem table_H29_rot : ∀ i : Fin 256, H29[i.val]! = Spec.rotHi (H[i.val]!.toUInt32) 29 := by decide +kernel

/-- One round (macro `R`) is inverted by `R` with the seven subkeys in reverse order on the registers
taken in the order d, c, b, a -- for arbitrary G-blocks. -/
theorem round_inverse (g : GFun) (sk : Nat → UInt32) (i a b c d : UInt32) :
    R g (fun j => sk (6 - j)) i (R g sk i a b c d).2.2.2 (R g sk i a b c d).2.2.1
        (R g sk i a b c d).2.1 (R g sk i a b c d).1 = (d, c, b, a) := R_inv g sk i a b c d

example : R beltG (fun j => UInt32.ofNat j) 1 1 2 3 4 ≠ (1, 2, 3, 4) := by decide +kernel

/-- `beltBlockDecr3(beltBlockEncr3(a,b,c,d)) = (a,b,c,d)` for EVERY 8-word key array and every G -/
theorem decr3_encr3 (g : GFun) (K : Array UInt32) (a b c d : UInt32) :
    D g K (E g K a b c d).1 (E g K a b c d).2.1 (E g K a b c d).2.2.1 (E g K a b c d).2.2.2 = (a, b, c, d) :=
  D_E g K a b c d

theorem encr3_decr3 (g : GFun) (K : Array UInt32) (a b c d : UInt32) :
    E g K (D g K a b c d).1 (D g K a b c d).2.1 (D g K a b c d).2.2.1 (D g K a b c d).2.2.2 = (a, b, c, d) :=
  E_D g K a b c d

/-- `beltBlockDecr` inverts `beltBlockEncr` on octet blocks, for every formatted key (any 32 octets,
hence every key of 16, 24 or 32 octets after `beltKeyExpand2`) and every 16-octet block. -/
theorem blockDecr_blockEncr (key blk : Bytes) (h : blk.length = 16) :
    blockDecr key (blockEncr key blk) = blk := blockDecr_blockEncr' key blk h

theorem blockEncr_blockDecr (key blk : Bytes) (h : blk.length = 16) :
    blockEncr key (blockDecr key blk) = blk := blockEncr_blockDecr' key blk h

/-- non-vacuity: the cipher is not the identity (appendix A.1 of the standard: first octet 0x69) -/
example : (blockEncr ((H.toList.drop 128).take 32) (H.toList.take 16)).head? = some 0x69 := by decide +kernel

end Bee2V.C01

/-
C01 property theorems: output lengths of belt-hash, belt-mac and belt-HMAC of the model, for EVERY data length
(no `size_t` bound: the length block stays 16 octets whatever the count) and every fragmentation, for an arbitrary
cipher that preserves the block length; corollaries for `beltCipher`.
Only property theorems; helper lemmas are in Lemmas/Len.lean.
-/
import Bee2V.C01.Lemmas.Len
namespace Bee2V.C01
open Bee2V.C01.LenL Bee2V.C01.SpecHashL

/-! ### belt-hash -/

/-- `beltHashStepG2(hash, n, state)` after any sequence of `beltHashStepH` calls returns `min n 32` octets,
whatever the amount of data. -/
theorem hashStepG_length (C : Cipher) (hlen : ∀ k x : Bytes, x.length = 16 → (C.enc k x).length = 16)
    (cs : List Bytes) (n : Nat) :
    ((hashStepG C (cs.foldl (hashStepH C) hashStart) n).2).length = min n 32 := by
  have h := hashInv_fold cs (hashInv_start C)
  show ((hashStepGInternal C _).h1.take n).length = _
  rw [List.length_take, length_hashOut C hlen h]

/-- one-shot belt-hash returns 32 octets for every message -/
theorem hash_length (C : Cipher) (hlen : ∀ k x : Bytes, x.length = 16 → (C.enc k x).length = 16) (m : Bytes) :
    ((hashStepG C (hashStepH C hashStart m) 32).2).length = 32 :=
  hashStepG_length C hlen [m] 32

/-- whatever `beltHash` returns is 32 octets long -/
theorem hashHL_length (C : Cipher) (hlen : ∀ k x : Bytes, x.length = 16 → (C.enc k x).length = 16)
    (src h : Bytes) (hr : hashHL C src = (.ok, some h)) : h.length = 32 := by
  simp only [hashHL, Prod.mk.injEq, Option.some.injEq, true_and] at hr
  rw [← hr]
  exact hash_length C hlen src

/-- belt-hash of belt: 32 octets for EVERY `m`, no bound on `m.length` -/
theorem belt_hash_length (m : Bytes) :
    ((hashStepG beltCipher (hashStepH beltCipher hashStart m) 32).2).length = 32 :=
  hash_length beltCipher (fun k x h => length_blockEncr k x h) m

theorem belt_hashHL_length (src h : Bytes) (hr : hashHL beltCipher src = (.ok, some h)) : h.length = 32 :=
  hashHL_length beltCipher (fun k x h => length_blockEncr k x h) src h hr

/-! ### belt-mac -/

/-- `beltMACStepG2(mac, n, state)` after any sequence of `beltMACStepA` calls returns `min n 16` octets -/
theorem macStepG_length (C : Cipher) (hlen : ∀ k x : Bytes, x.length = 16 → (C.enc k x).length = 16)
    (key : Bytes) (cs : List Bytes) (n : Nat) :
    ((macStepG C (cs.foldl (macStepA C) (macStart C key)) n).2).length = min n 16 := by
  have h := macInv_fold cs (macInv_start C key)
  show ((macStepGInternal C _).mac.take n).length = _
  rw [List.length_take, macInv_tag h, macTagSpec_eq, length_macFull C hlen]

/-- whatever `beltMAC` returns is 8 octets long (every `src`; an `.ok` result means a valid key length) -/
theorem macHL_length (C : Cipher) (hlen : ∀ k x : Bytes, x.length = 16 → (C.enc k x).length = 16)
    (src key t : Bytes) (hr : macHL C src key = (.ok, some t)) : t.length = 8 := by
  unfold macHL at hr
  split at hr
  · simp at hr
  · simp only [Prod.mk.injEq, Option.some.injEq, true_and] at hr
    rw [← hr]
    exact macStepG_length C hlen key [src] 8

theorem belt_mac_length (src key t : Bytes) (hr : macHL beltCipher src key = (.ok, some t)) : t.length = 8 :=
  macHL_length beltCipher (fun k x h => length_blockEncr k x h) src key t hr

/-! ### belt-HMAC -/

/-- `beltHMACStepG2(mac, n, state)` after any sequence of `beltHMACStepA` calls returns `min n 32` octets, for
every key length (keys longer than 32 octets are hashed) and every amount of data. -/
theorem hmacStepG_length (C : Cipher) (hlen : ∀ k x : Bytes, x.length = 16 → (C.enc k x).length = 16)
    (key : Bytes) (cs : List Bytes) (n : Nat) :
    ((hmacStepG C (cs.foldl (hmacStepA C) (hmacStart C key)) n).2).length = min n 32 := by
  show ((hmacStepGInternal C _).h1_out.take n).length = _
  rw [List.length_take, length_hmac_fold C hlen key cs]

/-- one-shot HMAC returns 32 octets for every key and message -/
theorem hmac_length (C : Cipher) (hlen : ∀ k x : Bytes, x.length = 16 → (C.enc k x).length = 16)
    (key m : Bytes) : ((hmacStepG C (hmacStepA C (hmacStart C key) m) 32).2).length = 32 :=
  hmacStepG_length C hlen key [m] 32

theorem hmacHL_length (C : Cipher) (hlen : ∀ k x : Bytes, x.length = 16 → (C.enc k x).length = 16)
    (src key t : Bytes) (hr : hmacHL C src key = (.ok, some t)) : t.length = 32 := by
  simp only [hmacHL, Prod.mk.injEq, Option.some.injEq, true_and] at hr
  rw [← hr]
  exact hmac_length C hlen key src

theorem belt_hmac_length (key m : Bytes) :
    ((hmacStepG beltCipher (hmacStepA beltCipher (hmacStart beltCipher key) m) 32).2).length = 32 :=
  hmac_length beltCipher (fun k x h => length_blockEncr k x h) key m

theorem belt_hmacHL_length (src key t : Bytes) (hr : hmacHL beltCipher src key = (.ok, some t)) :
    t.length = 32 :=
  hmacHL_length beltCipher (fun k x h => length_blockEncr k x h) src key t hr

end Bee2V.C01

/-
C01 standards-level definitions, part 2 (STB 34.101.31 as restated in belt.h and the comments of belt_mac.c,
belt_compr.c, belt_hash.c, belt_hmac.c, belt_krp.c, belt_pbkdf.c; HMAC as in STB 34.101.47 6.1.4, PBKDF2 as in
STB 34.101.45 app. E): belt-mac, the maps sigma1 / sigma2 of belt-compress, belt-hash, HMAC[belt-hash],
belt-keyrep, PBKDF2.
Pure functions on octet strings: no state, no buffering, no fragments. The block cipher is a parameter
`E key32 block` (256-bit key as 32 octets, 128-bit block as 16 octets).
-/
import Bee2V.C01.Spec
namespace Bee2V.C01.Spec

/-- the block cipher as a parameter: `E key32 block` -/
abbrev BlockFn := Bytes → Bytes → Bytes

/-- the `i`-th block of `bs` octets of `X` (the last one may be short, later ones are empty) -/
def blockAt (bs : Nat) (X : Bytes) (i : Nat) : Bytes := (X.drop (bs * i)).take bs

/-- the `j`-th 32-bit word (4 octets) of a 128-bit word, `j = 0..3` -/
def word32 (u : Bytes) (j : Nat) : Bytes := (u.drop (4 * j)).take 4

/-! ### belt-mac -/

/-- `phi1(u1 ‖ u2 ‖ u3 ‖ u4) = u2 ‖ u3 ‖ u4 ‖ (u1 ⊕ u2)` -/
def phi1 (u : Bytes) : Bytes := word32 u 1 ++ word32 u 2 ++ word32 u 3 ++ xorb (word32 u 0) (word32 u 1)

/-- `phi2(u1 ‖ u2 ‖ u3 ‖ u4) = (u1 ⊕ u4) ‖ u1 ‖ u2 ‖ u3` -/
def phi2 (u : Bytes) : Bytes := xorb (word32 u 0) (word32 u 3) ++ word32 u 0 ++ word32 u 1 ++ word32 u 2

/-- number of 128-bit blocks of belt-mac: `max(1, ceil(|X| / 128))` (the empty word is one empty block) -/
def macBlockCount (X : Bytes) : Nat := max 1 ((X.length + 15) / 16)

/-- belt-mac before truncation: `r = E_K(0^128)`, `s ← 0^128`, `s ← E_K(s ⊕ X_i)` for `i = 1..n-1`, then
`s ← s ⊕ X_n ⊕ phi1(r)` if `|X_n| = 128` and `s ← s ⊕ (X_n ‖ 1 0...0) ⊕ phi2(r)` otherwise; result `E_K(s)`.
(The octet 0x80 is the bit string 1000 0000 in the octet convention of the standard.) -/
def macFull (E : BlockFn) (K X : Bytes) : Bytes :=
  let r := E K (zeros 16)
  let n := macBlockCount X
  let s := (List.range (n - 1)).foldl (fun s i => E K (xorb s (blockAt 16 X i))) (zeros 16)
  let Xn := blockAt 16 X (n - 1)
  let s := if Xn.length = 16 then xorb (xorb s Xn) (phi1 r)
           else xorb (xorb s (Xn ++ [0x80] ++ zeros (15 - Xn.length))) (phi2 r)
  E K s

/-- `T = Lo(E_K(s), 64)` -/
def mac (E : BlockFn) (K X : Bytes) : Bytes := (macFull E K X).take 8

/-! ### belt-compress: sigma1, sigma2 on 512-bit words `u = u1 ‖ u2 ‖ u3 ‖ u4` (64 octets) -/

/-- `1^128` -/
def ones128 : Bytes := List.replicate 16 0xFF

/-- `sigma1(u) = E_{u1 ‖ u2}(u3 ⊕ u4) ⊕ u3 ⊕ u4` -/
def sigma1 (E : BlockFn) (u : Bytes) : Bytes :=
  let u3 := blockAt 16 u 2
  let u4 := blockAt 16 u 3
  xorb (xorb (E (u.take 32) (xorb u3 u4)) u3) u4

/-- `sigma2(u) = (E_{theta1}(u1) ⊕ u1) ‖ (E_{theta2}(u2) ⊕ u2)`, `theta1 = sigma1(u) ‖ u4`,
`theta2 = (sigma1(u) ⊕ 1^128) ‖ u3` -/
def sigma2 (E : BlockFn) (u : Bytes) : Bytes :=
  let u1 := blockAt 16 u 0
  let u2 := blockAt 16 u 1
  let u3 := blockAt 16 u 2
  let u4 := blockAt 16 u 3
  let theta1 := sigma1 E u ++ u4
  let theta2 := xorb (sigma1 E u) ones128 ++ u3
  xorb (E theta1 u1) u1 ++ xorb (E theta2 u2) u2

/-! ### belt-hash -/

/-- the initial value of `h`: the first 32 octets `H(0) ‖ H(1) ‖ ... ‖ H(31)` of the substitution table
(B194BAC8 0A08F53B 366D008E 584A5DE4 8504FA9D 1BB6C7AC 252E72C2 02FDCE0D) -/
def hashInit : Bytes := (hTable.take 32).map UInt8.ofNat

/-- `<n>_128` for the bit length of `n` octets: `8 n mod 2^128` as 16 little-endian octets -/
def bitLen128 (n : Nat) : Bytes := natLE 16 (8 * n)

/-- the `i`-th 256-bit block of `X ‖ 0...0` (zero padding to a multiple of 256 bits) -/
def hashBlock (X : Bytes) (i : Nat) : Bytes :=
  blockAt 32 X i ++ zeros (32 - (blockAt 32 X i).length)

/-- `(s, h)` after the `n = ceil(|X| / 256)` blocks: `s ← s ⊕ sigma1(X_i ‖ h)`, `h ← sigma2(X_i ‖ h)` -/
def hashChain (E : BlockFn) (X : Bytes) : Bytes × Bytes :=
  (List.range ((X.length + 31) / 32)).foldl
    (fun (sh : Bytes × Bytes) i =>
      (xorb sh.1 (sigma1 E (hashBlock X i ++ sh.2)), sigma2 E (hashBlock X i ++ sh.2)))
    (zeros 16, hashInit)

/-- belt-hash: `Y = sigma2(<|X|>_128 ‖ s ‖ h)` -/
def hash (E : BlockFn) (X : Bytes) : Bytes :=
  sigma2 E (bitLen128 X.length ++ (hashChain E X).1 ++ (hashChain E X).2)

/-! ### HMAC[belt-hash], block size 32 octets -/

/-- `K0`: the key padded with zeros to 32 octets, or hashed if longer -/
def hmacKey (E : BlockFn) (key : Bytes) : Bytes :=
  if key.length ≤ 32 then key ++ zeros (32 - key.length) else hash E key

/-- `HMAC(K, X) = hash((K0 ⊕ opad) ‖ hash((K0 ⊕ ipad) ‖ X))`, `ipad = 36 36 ...`, `opad = 5C 5C ...` -/
def hmac (E : BlockFn) (key X : Bytes) : Bytes :=
  let K0 := hmacKey E key
  hash E (K0.map (· ^^^ 0x5C) ++ hash E (K0.map (· ^^^ 0x36) ++ X))

/-! ### belt-keyrep -/

/-- the octets of the substitution table `H` -/
def hBytes : Bytes := hTable.map UInt8.ofNat

/-- belt-keyrep: the key `K` of `n` octets, expanded to the 32 octets `K32`, of level `D` (12 octets) is turned
into a key of `m` octets with header `I` (16 octets): `Lo(sigma2(r ‖ D ‖ I ‖ K32), 8 m)` where `r` is the 32-bit
word of `H` at octet offset `4 (n - 16) + 2 (m - 16)`. -/
def krp (E : BlockFn) (K32 : Bytes) (n m : Nat) (D I : Bytes) : Bytes :=
  let r := (hBytes.drop (4 * (n - 16) + 2 * (m - 16))).take 4
  (sigma2 E (r ++ D ++ I ++ K32)).take m

/-- admissible lengths of belt-keyrep -/
def krpAdmissible (n m : Nat) : Prop :=
  (n = 16 ∨ n = 24 ∨ n = 32) ∧ (m = 16 ∨ m = 24 ∨ m = 32) ∧ m ≤ n

/-! ### PBKDF2 with HMAC[belt-hash], one 32-octet output block -/

/-- `U_1 = HMAC(P, S ‖ 00000001)`, `U_{i+1} = HMAC(P, U_i)`; `pbkdfU E P S i` is `U_{i+1}` -/
def pbkdfU (E : BlockFn) (P S : Bytes) : Nat → Bytes
  | 0 => hmac E P (S ++ [0, 0, 0, 1])
  | i + 1 => hmac E P (pbkdfU E P S i)

/-- `U_1 ⊕ U_2 ⊕ ... ⊕ U_c`, `c ≥ 1` -/
def pbkdf2 (E : BlockFn) (P : Bytes) (c : Nat) (S : Bytes) : Bytes :=
  (List.range (c - 1)).foldl (fun acc i => xorb acc (pbkdfU E P S (i + 1))) (pbkdfU E P S 0)

end Bee2V.C01.Spec

/-
C01 property theorems, part: belt_ecb.c and belt_cbc.c (ECB and CBC with ciphertext stealing).
Only property theorems and non-vacuity examples.  Every theorem is stated for an arbitrary block
cipher `C` (length-preserving on 16-octet blocks, `dec` undoing `enc`), for EVERY admissible buffer
length (`16 ≤ count`, ragged tails included), and then specialised to `beltCipher`.
-/
import Bee2V.C01.Lemmas.Block
import Bee2V.C01.Lemmas.EcbCbc
namespace Bee2V.C01

/-! ### ECB: step functions -/

/-- `beltECBStepE(buf, count, state)` rewrites exactly `count` octets (`count ≥ 16`), whether or not
`count` is a multiple of 16. -/
theorem length_ecbStepE (C : Cipher) (hlenE : ∀ k x, x.length = 16 → (C.enc k x).length = 16)
    (key buf : Bytes) (h16 : 16 ≤ buf.length) : (ecbStepE C key buf).length = buf.length := by
  rw [ecbStepE_eq]; exact length_ecbStep _ (hlenE key) buf h16

/-- the same for `beltECBStepD` -/
theorem length_ecbStepD (C : Cipher) (hlenD : ∀ k x, x.length = 16 → (C.dec k x).length = 16)
    (key buf : Bytes) (h16 : 16 ≤ buf.length) : (ecbStepD C key buf).length = buf.length := by
  rw [ecbStepD_eq]; exact length_ecbStep _ (hlenD key) buf h16

example : (ecbStepE toyCipher [] ((List.range 37).map UInt8.ofNat)).length = 37 := by decide +kernel

/-- `beltECBStepD` undoes `beltECBStepE` under the same key schedule, for every `count ≥ 16`:
whole blocks are decrypted blockwise, and for a ragged tail the stolen octets are swapped back. -/
theorem ecbStepD_ecbStepE (C : Cipher) (hlenE : ∀ k x, x.length = 16 → (C.enc k x).length = 16)
    (hlenD : ∀ k x, x.length = 16 → (C.dec k x).length = 16)
    (hDE : ∀ k x, x.length = 16 → C.dec k (C.enc k x) = x)
    (key buf : Bytes) (h16 : 16 ≤ buf.length) : ecbStepD C key (ecbStepE C key buf) = buf := by
  rw [ecbStepE_eq, ecbStepD_eq]
  exact ecbStep_ecbStep _ _ (hlenE key) (hlenD key) (hDE key) buf h16

/-- non-vacuity: the hypotheses on `C` are satisfiable by a cipher other than belt -/
example (key buf : Bytes) (h16 : 16 ≤ buf.length) : ecbStepD toyCipher key (ecbStepE toyCipher key buf) = buf :=
  ecbStepD_ecbStepE toyCipher (fun k x h => by rw [toy_len_enc]; exact h) (fun k x h => by rw [toy_len_dec]; exact h)
    (fun k x _ => toy_dec_enc k x) key buf h16

/-- conversely `beltECBStepE` undoes `beltECBStepD` (ECB with stealing is a permutation of the
octet strings of each length `≥ 16`). -/
theorem ecbStepE_ecbStepD (C : Cipher) (hlenE : ∀ k x, x.length = 16 → (C.enc k x).length = 16)
    (hlenD : ∀ k x, x.length = 16 → (C.dec k x).length = 16)
    (hED : ∀ k x, x.length = 16 → C.enc k (C.dec k x) = x)
    (key buf : Bytes) (h16 : 16 ≤ buf.length) : ecbStepE C key (ecbStepD C key buf) = buf := by
  rw [ecbStepE_eq, ecbStepD_eq]
  exact ecbStep_ecbStep _ _ (hlenD key) (hlenE key) (hED key) buf h16

/-- non-vacuity: with a ragged tail (37 = 2 * 16 + 5) stealing really moves octets: the output is not
the blockwise image of the input followed by the untouched tail, it is not the input, and decryption
restores the input. -/
example : ecbStepE toyCipher [] ((List.range 37).map UInt8.ofNat)
    ≠ ((List.range 37).map UInt8.ofNat) := by decide +kernel
example : ecbStepE toyCipher [] ((List.range 37).map UInt8.ofNat)
    ≠ toyCipher.enc [] ((List.range 32).map UInt8.ofNat) ++ [32, 33, 34, 35, 36] := by decide +kernel
example : (ecbStepE toyCipher [] ((List.range 37).map UInt8.ofNat)).drop 32 = [17, 18, 19, 20, 21] := by
  decide +kernel
example : ecbStepD toyCipher [] (ecbStepE toyCipher [] ((List.range 37).map UInt8.ofNat))
    = (List.range 37).map UInt8.ofNat := by decide +kernel

/-- On whole blocks (`count % 16 == 0`) `beltECBStepE` is the electronic codebook of the standard:
the concatenation of the encryptions of the 16-octet chunks. -/
theorem ecbStepE_blockwise (C : Cipher) (key buf : Bytes) (hw : buf.length % 16 = 0) :
    ecbStepE C key buf = (chunks16 buf).flatMap (C.enc key) := by
  rw [ecbStepE_eq, ecbStep_whole _ buf hw, mapB_eq_flatMap _ buf hw]

theorem ecbStepD_blockwise (C : Cipher) (key buf : Bytes) (hw : buf.length % 16 = 0) :
    ecbStepD C key buf = (chunks16 buf).flatMap (C.dec key) := by
  rw [ecbStepD_eq, ecbStep_whole _ buf hw, mapB_eq_flatMap _ buf hw]

example : ecbStepE toyCipher [] ((List.range 32).map UInt8.ofNat)
    = (List.range 32).map (fun i => UInt8.ofNat (i + 1)) := by decide +kernel

/-- With a ragged tail of `r` octets (`buf = pre ++ last ++ tail`, `pre` whole blocks, `last` one block)
the output of `beltECBStepE` is `ECB(pre) ++ E(tail ++ E(last)[r..16)) ++ E(last)[0..r)`
(ciphertext stealing of the standard). -/
theorem ecbStepE_stealing (C : Cipher) (hlenE : ∀ k x, x.length = 16 → (C.enc k x).length = 16)
    (key pre last tail : Bytes) (hpre : pre.length % 16 = 0) (hlast : last.length = 16)
    (ht0 : 0 < tail.length) (ht : tail.length < 16) :
    ecbStepE C key (pre ++ last ++ tail) =
      (chunks16 pre).flatMap (C.enc key) ++ C.enc key (tail ++ (C.enc key last).drop tail.length)
        ++ (C.enc key last).take tail.length := by
  rw [ecbStepE_eq, ecbStep_ragged _ (hlenE key) pre last tail hpre hlast ht0 ht, mapB_eq_flatMap _ pre hpre]

/-! ### ECB: high-level functions -/

/-- `beltECBEncr` fails with `ERR_BAD_INPUT`, leaving `dest` untouched, exactly when `count < 16` or
`len ∉ {16, 24, 32}`; there is no other failure. -/
theorem ecbEncr_badInput_iff (C : Cipher) (src key : Bytes) :
    ecbEncr C src key = (.badInput, none) ↔
      (src.length < 16 ∨ ¬ (key.length = 16 ∨ key.length = 24 ∨ key.length = 32)) := by
  unfold ecbEncr
  by_cases hc : (decide (src.length < 16) || !validKeyLen key.length) = true
  · rw [if_pos hc]; simp only [true_iff]; exact (badCond_iff _ _).1 hc
  · rw [if_neg hc]; rw [badCond_iff] at hc
    exact ⟨fun h => by simp at h, fun h => absurd h hc⟩

/-- otherwise it succeeds and `dest` receives `count` octets -/
theorem ecbEncr_ok_iff (C : Cipher) (hlenE : ∀ k x, x.length = 16 → (C.enc k x).length = 16) (src key : Bytes) :
    (∃ ct, ecbEncr C src key = (.ok, some ct) ∧ ct.length = src.length) ↔
      (16 ≤ src.length ∧ (key.length = 16 ∨ key.length = 24 ∨ key.length = 32)) := by
  unfold ecbEncr
  by_cases hc : (decide (src.length < 16) || !validKeyLen key.length) = true
  · rw [if_pos hc]; rw [badCond_iff] at hc
    constructor
    · rintro ⟨ct, h, _⟩; simp at h
    · rintro ⟨h1, h2⟩
      rcases hc with h | h
      · omega
      · exact absurd h2 h
  · rw [if_neg hc]; rw [badCond_iff] at hc
    have h16 : 16 ≤ src.length := by omega
    have hk : key.length = 16 ∨ key.length = 24 ∨ key.length = 32 := by omega
    exact ⟨fun _ => ⟨h16, hk⟩, fun _ => ⟨_, rfl, length_ecbStepE C hlenE (fmtKey key) src h16⟩⟩

theorem ecbDecr_badInput_iff (C : Cipher) (src key : Bytes) :
    ecbDecr C src key = (.badInput, none) ↔
      (src.length < 16 ∨ ¬ (key.length = 16 ∨ key.length = 24 ∨ key.length = 32)) := by
  unfold ecbDecr
  by_cases hc : (decide (src.length < 16) || !validKeyLen key.length) = true
  · rw [if_pos hc]; simp only [true_iff]; exact (badCond_iff _ _).1 hc
  · rw [if_neg hc]; rw [badCond_iff] at hc
    exact ⟨fun h => by simp at h, fun h => absurd h hc⟩

example : ecbEncr toyCipher ((List.range 15).map UInt8.ofNat) (zeros 32) = (.badInput, none) := by decide +kernel
example : ecbEncr toyCipher ((List.range 16).map UInt8.ofNat) (zeros 20) = (.badInput, none) := by decide +kernel
example : (ecbEncr toyCipher ((List.range 37).map UInt8.ofNat) (zeros 24)).1 = .ok := by decide +kernel

/-- `beltECBDecr(beltECBEncr(src, key), key) = src`: whenever encryption succeeds, decryption of its
output under the same key succeeds and returns the plaintext -- every length `≥ 16`, every key length. -/
theorem ecbDecr_ecbEncr (C : Cipher) (hlenE : ∀ k x, x.length = 16 → (C.enc k x).length = 16)
    (hlenD : ∀ k x, x.length = 16 → (C.dec k x).length = 16)
    (hDE : ∀ k x, x.length = 16 → C.dec k (C.enc k x) = x)
    (src key ct : Bytes) (h : ecbEncr C src key = (.ok, some ct)) : ecbDecr C ct key = (.ok, some src) := by
  simp only [ecbEncr] at h
  split at h
  · simp at h
  · rename_i hc
    have h16 : 16 ≤ src.length := by simp at hc; omega
    simp only [Prod.mk.injEq, Option.some.injEq, true_and] at h
    subst h
    simp only [ecbDecr, length_ecbStepE C hlenE (fmtKey key) src h16]
    rw [if_neg hc, ecbStepD_ecbStepE C hlenE hlenD hDE (fmtKey key) src h16]

/-- and conversely `beltECBEncr(beltECBDecr(src, key), key) = src` -/
theorem ecbEncr_ecbDecr (C : Cipher) (hlenE : ∀ k x, x.length = 16 → (C.enc k x).length = 16)
    (hlenD : ∀ k x, x.length = 16 → (C.dec k x).length = 16)
    (hED : ∀ k x, x.length = 16 → C.enc k (C.dec k x) = x)
    (src key pt : Bytes) (h : ecbDecr C src key = (.ok, some pt)) : ecbEncr C pt key = (.ok, some src) := by
  simp only [ecbDecr] at h
  split at h
  · simp at h
  · rename_i hc
    have h16 : 16 ≤ src.length := by simp at hc; omega
    simp only [Prod.mk.injEq, Option.some.injEq, true_and] at h
    subst h
    simp only [ecbEncr, length_ecbStepD C hlenD (fmtKey key) src h16]
    rw [if_neg hc, ecbStepE_ecbStepD C hlenE hlenD hED (fmtKey key) src h16]

/-! ### ECB: belt -/

/-- `beltECBStepD ∘ beltECBStepE = id` for the real belt block cipher, every `count ≥ 16` -/
theorem belt_ecbStepD_ecbStepE (key buf : Bytes) (h16 : 16 ≤ buf.length) :
    ecbStepD beltCipher key (ecbStepE beltCipher key buf) = buf :=
  ecbStepD_ecbStepE beltCipher length_blockEncr length_blockDecr blockDecr_blockEncr' key buf h16

theorem belt_ecbStepE_ecbStepD (key buf : Bytes) (h16 : 16 ≤ buf.length) :
    ecbStepE beltCipher key (ecbStepD beltCipher key buf) = buf :=
  ecbStepE_ecbStepD beltCipher length_blockEncr length_blockDecr blockEncr_blockDecr' key buf h16

theorem belt_length_ecbStepE (key buf : Bytes) (h16 : 16 ≤ buf.length) :
    (ecbStepE beltCipher key buf).length = buf.length :=
  length_ecbStepE beltCipher length_blockEncr key buf h16

/-- `beltECBDecr(beltECBEncr(src, count, key, len), count, key, len) = src` for belt -/
theorem belt_ecbDecr_ecbEncr (src key ct : Bytes) (h : ecbEncr beltCipher src key = (.ok, some ct)) :
    ecbDecr beltCipher ct key = (.ok, some src) :=
  ecbDecr_ecbEncr beltCipher length_blockEncr length_blockDecr blockDecr_blockEncr' src key ct h

theorem belt_ecbEncr_ecbDecr (src key pt : Bytes) (h : ecbDecr beltCipher src key = (.ok, some pt)) :
    ecbEncr beltCipher pt key = (.ok, some src) :=
  ecbEncr_ecbDecr beltCipher length_blockEncr length_blockDecr blockEncr_blockDecr' src key pt h

/-- non-vacuity: the hypothesis of `belt_ecbDecr_ecbEncr` is satisfiable (37 octets, 32-octet key) -/
example : ∃ ct, ecbEncr beltCipher ((List.range 37).map UInt8.ofNat) (zeros 32) = (.ok, some ct) :=
  ⟨_, rfl⟩

/-! ### CBC: step functions -/

/-- `beltCBCStepE(buf, count, state)` rewrites exactly `count` octets (`count ≥ 16`) -/
theorem length_cbcStepE (C : Cipher) (hlenE : ∀ k x, x.length = 16 → (C.enc k x).length = 16)
    (st : CbcSt) (buf : Bytes) (hiv : st.block.length = 16) (h16 : 16 ≤ buf.length) :
    (cbcStepE C st buf).2.length = buf.length := by
  rw [cbcStepE_eq]; exact length_cbcE _ (hlenE st.key) st.block buf hiv h16

/-- `beltCBCStepD` started from the same key schedule and chaining block (`st->block`; the scratch field
`st->block2` is arbitrary) undoes `beltCBCStepE`, for every `count ≥ 16`, ragged tails included. -/
theorem cbcStepD_cbcStepE (C : Cipher) (hlenE : ∀ k x, x.length = 16 → (C.enc k x).length = 16)
    (hDE : ∀ k x, x.length = 16 → C.dec k (C.enc k x) = x)
    (st st' : CbcSt) (buf : Bytes) (hkey : st'.key = st.key) (hblk : st'.block = st.block)
    (hiv : st.block.length = 16) (h16 : 16 ≤ buf.length) :
    (cbcStepD C st' (cbcStepE C st buf).2).2 = buf := by
  rw [cbcStepE_eq, cbcStepD_eq, hkey, hblk]
  exact cbcD_cbcE _ _ (hlenE st.key) (hDE st.key) st.block st'.block2 buf hiv h16

/-- the form with `beltCBCStart`: every key, every 16-octet IV, every `count ≥ 16` -/
theorem cbcStepD_cbcStepE_start (C : Cipher) (hlenE : ∀ k x, x.length = 16 → (C.enc k x).length = 16)
    (hDE : ∀ k x, x.length = 16 → C.dec k (C.enc k x) = x)
    (key iv buf : Bytes) (hiv : iv.length = 16) (h16 : 16 ≤ buf.length) :
    (cbcStepD C (cbcStart key iv) (cbcStepE C (cbcStart key iv) buf).2).2 = buf :=
  cbcStepD_cbcStepE C hlenE hDE _ _ buf rfl rfl hiv h16

/-- `beltCBCStepD` rewrites exactly `count` octets (`count ≥ 16`) -/
theorem length_cbcStepD (C : Cipher) (hlenD : ∀ k x, x.length = 16 → (C.dec k x).length = 16)
    (st : CbcSt) (buf : Bytes) (hiv : st.block.length = 16) (h16 : 16 ≤ buf.length) :
    (cbcStepD C st buf).2.length = buf.length := by
  rw [cbcStepD_eq]; exact length_cbcD _ (hlenD st.key) _ buf hiv h16

/-- conversely `beltCBCStepE` undoes `beltCBCStepD` (CBC with stealing under a fixed key and IV is a
permutation of the octet strings of each length `≥ 16`). -/
theorem cbcStepE_cbcStepD (C : Cipher) (hlenD : ∀ k x, x.length = 16 → (C.dec k x).length = 16)
    (hED : ∀ k x, x.length = 16 → C.enc k (C.dec k x) = x)
    (st st' : CbcSt) (buf : Bytes) (hkey : st'.key = st.key) (hblk : st'.block = st.block)
    (hiv : st.block.length = 16) (h16 : 16 ≤ buf.length) :
    (cbcStepE C st' (cbcStepD C st buf).2).2 = buf := by
  rw [cbcStepD_eq, cbcStepE_eq, hkey, hblk]
  exact cbcE_cbcD _ _ (hlenD st.key) (hED st.key) st.block st.block2 buf hiv h16

example : (cbcStepE toyCipher (cbcStart (zeros 32) (zeros 16))
    (cbcStepD toyCipher (cbcStart (zeros 32) (zeros 16)) ((List.range 37).map UInt8.ofNat)).2).2
    = (List.range 37).map UInt8.ofNat := by decide +kernel

/-- Streaming: after a call on whole blocks the chaining block held by the decryptor equals the one held
by the encryptor (the last ciphertext block), so a sequence of `StepE` calls on whole blocks followed by
a final call of any admissible length is undone by the same sequence of `StepD` calls. -/
theorem cbcStepD_cbcStepE_state (C : Cipher) (hlenE : ∀ k x, x.length = 16 → (C.enc k x).length = 16)
    (hDE : ∀ k x, x.length = 16 → C.dec k (C.enc k x) = x)
    (st st' : CbcSt) (buf : Bytes) (hkey : st'.key = st.key) (hblk : st'.block = st.block)
    (hiv : st.block.length = 16) (hw : buf.length % 16 = 0) :
    (cbcStepD C st' (cbcStepE C st buf).2).1.block = (cbcStepE C st buf).1.block ∧
    (cbcStepD C st' (cbcStepE C st buf).2).1.key = (cbcStepE C st buf).1.key ∧
    (cbcStepE C st buf).1.block.length = 16 := by
  obtain ⟨h1, h2, _, h4⟩ := cbc_whole _ _ (hlenE st.key) (hDE st.key) buf hw st.block st'.block2 hiv
  rw [cbcStepE_eq, cbcStepD_eq, hkey, hblk]
  simp only [cbcE_whole _ st.block buf hw]
  rw [cbcD_whole _ _ _ (by rw [h1]; exact hw)]
  exact ⟨h4, trivial, h2⟩

example : (cbcStepE toyCipher (cbcStart (zeros 32) (zeros 16)) ((List.range 37).map UInt8.ofNat)).2
    ≠ (List.range 37).map UInt8.ofNat := by decide +kernel
example : (cbcStepD toyCipher (cbcStart (zeros 32) (zeros 16))
    (cbcStepE toyCipher (cbcStart (zeros 32) (zeros 16)) ((List.range 37).map UInt8.ofNat)).2).2
    = (List.range 37).map UInt8.ofNat := by decide +kernel

/-- On whole blocks `beltCBCStepE` is the chaining of the standard: `c_i = E(c_{i-1} ^ p_i)` with
`c_0 = st->block` (the IV after `beltCBCStart`). -/
theorem cbcStepE_chain (C : Cipher) (st : CbcSt) (buf : Bytes) (hw : buf.length % 16 = 0) :
    (cbcStepE C st buf).2 = (cbcChain (C.enc st.key) st.block (chunks16 buf)).flatten := by
  rw [cbcStepE_eq, cbcE_whole _ st.block buf hw]
  exact cbcE_loop_eq_chain _ buf hw st.block

example (C : Cipher) (k iv p1 p2 : Bytes) : cbcChain (C.enc k) iv [p1, p2]
    = [C.enc k (xorb iv p1), C.enc k (xorb (C.enc k (xorb iv p1)) p2)] := rfl

/-! ### CBC: high-level functions -/

/-- `beltCBCEncr` fails with `ERR_BAD_INPUT` (dest untouched) exactly when `count < 16` or
`len ∉ {16, 24, 32}`. -/
theorem cbcEncr_badInput_iff (C : Cipher) (src key iv : Bytes) :
    cbcEncr C src key iv = (.badInput, none) ↔
      (src.length < 16 ∨ ¬ (key.length = 16 ∨ key.length = 24 ∨ key.length = 32)) := by
  unfold cbcEncr
  by_cases hc : (decide (src.length < 16) || !validKeyLen key.length) = true
  · rw [if_pos hc]; simp only [true_iff]; exact (badCond_iff _ _).1 hc
  · rw [if_neg hc]; rw [badCond_iff] at hc
    exact ⟨fun h => by simp at h, fun h => absurd h hc⟩

theorem cbcDecr_badInput_iff (C : Cipher) (src key iv : Bytes) :
    cbcDecr C src key iv = (.badInput, none) ↔
      (src.length < 16 ∨ ¬ (key.length = 16 ∨ key.length = 24 ∨ key.length = 32)) := by
  unfold cbcDecr
  by_cases hc : (decide (src.length < 16) || !validKeyLen key.length) = true
  · rw [if_pos hc]; simp only [true_iff]; exact (badCond_iff _ _).1 hc
  · rw [if_neg hc]; rw [badCond_iff] at hc
    exact ⟨fun h => by simp at h, fun h => absurd h hc⟩

example : cbcEncr toyCipher ((List.range 15).map UInt8.ofNat) (zeros 32) (zeros 16) = (.badInput, none) := by
  decide +kernel
example : (cbcEncr toyCipher ((List.range 37).map UInt8.ofNat) (zeros 16) (zeros 16)).1 = .ok := by decide +kernel

theorem cbcEncr_ok_iff (C : Cipher) (hlenE : ∀ k x, x.length = 16 → (C.enc k x).length = 16)
    (src key iv : Bytes) (hiv : iv.length = 16) :
    (∃ ct, cbcEncr C src key iv = (.ok, some ct) ∧ ct.length = src.length) ↔
      (16 ≤ src.length ∧ (key.length = 16 ∨ key.length = 24 ∨ key.length = 32)) := by
  unfold cbcEncr
  by_cases hc : (decide (src.length < 16) || !validKeyLen key.length) = true
  · rw [if_pos hc]; rw [badCond_iff] at hc
    constructor
    · rintro ⟨ct, h, _⟩; simp at h
    · rintro ⟨h1, h2⟩
      rcases hc with h | h
      · omega
      · exact absurd h2 h
  · rw [if_neg hc]; rw [badCond_iff] at hc
    have h16 : 16 ≤ src.length := by omega
    have hk : key.length = 16 ∨ key.length = 24 ∨ key.length = 32 := by omega
    exact ⟨fun _ => ⟨h16, hk⟩, fun _ => ⟨_, rfl, length_cbcStepE C hlenE (cbcStart key iv) src hiv h16⟩⟩

/-- `beltCBCDecr(beltCBCEncr(src, key, iv), key, iv) = src`: whenever encryption succeeds, decryption
of its output under the same key and IV succeeds and returns the plaintext. -/
theorem cbcDecr_cbcEncr (C : Cipher) (hlenE : ∀ k x, x.length = 16 → (C.enc k x).length = 16)
    (hDE : ∀ k x, x.length = 16 → C.dec k (C.enc k x) = x)
    (src key iv ct : Bytes) (hiv : iv.length = 16) (h : cbcEncr C src key iv = (.ok, some ct)) :
    cbcDecr C ct key iv = (.ok, some src) := by
  simp only [cbcEncr] at h
  split at h
  · simp at h
  · rename_i hc
    have h16 : 16 ≤ src.length := by simp at hc; omega
    simp only [Prod.mk.injEq, Option.some.injEq, true_and] at h
    subst h
    simp only [cbcDecr, length_cbcStepE C hlenE (cbcStart key iv) src hiv h16]
    rw [if_neg hc, cbcStepD_cbcStepE_start C hlenE hDE key iv src hiv h16]

/-- and conversely `beltCBCEncr(beltCBCDecr(src, key, iv), key, iv) = src` -/
theorem cbcEncr_cbcDecr (C : Cipher) (hlenD : ∀ k x, x.length = 16 → (C.dec k x).length = 16)
    (hED : ∀ k x, x.length = 16 → C.enc k (C.dec k x) = x)
    (src key iv pt : Bytes) (hiv : iv.length = 16) (h : cbcDecr C src key iv = (.ok, some pt)) :
    cbcEncr C pt key iv = (.ok, some src) := by
  simp only [cbcDecr] at h
  split at h
  · simp at h
  · rename_i hc
    have h16 : 16 ≤ src.length := by simp at hc; omega
    simp only [Prod.mk.injEq, Option.some.injEq, true_and] at h
    subst h
    simp only [cbcEncr, length_cbcStepD C hlenD (cbcStart key iv) src hiv h16]
    rw [if_neg hc, cbcStepE_cbcStepD C hlenD hED (cbcStart key iv) (cbcStart key iv) src rfl rfl hiv h16]

/-! ### CBC: belt -/

theorem belt_cbcStepD_cbcStepE (key iv buf : Bytes) (hiv : iv.length = 16) (h16 : 16 ≤ buf.length) :
    (cbcStepD beltCipher (cbcStart key iv) (cbcStepE beltCipher (cbcStart key iv) buf).2).2 = buf :=
  cbcStepD_cbcStepE_start beltCipher length_blockEncr blockDecr_blockEncr' key iv buf hiv h16

theorem belt_cbcStepE_cbcStepD (key iv buf : Bytes) (hiv : iv.length = 16) (h16 : 16 ≤ buf.length) :
    (cbcStepE beltCipher (cbcStart key iv) (cbcStepD beltCipher (cbcStart key iv) buf).2).2 = buf :=
  cbcStepE_cbcStepD beltCipher length_blockDecr blockEncr_blockDecr' _ _ buf rfl rfl hiv h16

theorem belt_cbcEncr_cbcDecr (src key iv pt : Bytes) (hiv : iv.length = 16)
    (h : cbcDecr beltCipher src key iv = (.ok, some pt)) : cbcEncr beltCipher pt key iv = (.ok, some src) :=
  cbcEncr_cbcDecr beltCipher length_blockDecr blockEncr_blockDecr' src key iv pt hiv h

theorem belt_length_cbcStepE (key iv buf : Bytes) (hiv : iv.length = 16) (h16 : 16 ≤ buf.length) :
    (cbcStepE beltCipher (cbcStart key iv) buf).2.length = buf.length :=
  length_cbcStepE beltCipher length_blockEncr (cbcStart key iv) buf hiv h16

/-- `beltCBCDecr(beltCBCEncr(src, count, key, len, iv), count, key, len, iv) = src` for belt -/
theorem belt_cbcDecr_cbcEncr (src key iv ct : Bytes) (hiv : iv.length = 16)
    (h : cbcEncr beltCipher src key iv = (.ok, some ct)) : cbcDecr beltCipher ct key iv = (.ok, some src) :=
  cbcDecr_cbcEncr beltCipher length_blockEncr blockDecr_blockEncr' src key iv ct hiv h

example : ∃ ct, cbcEncr beltCipher ((List.range 37).map UInt8.ofNat) (zeros 16) (zeros 16) = (.ok, some ct) :=
  ⟨_, rfl⟩

end Bee2V.C01

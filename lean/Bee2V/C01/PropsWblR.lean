/-
C01 property theorems: `beltWBLStepR` (continued wide-block encryption, belt.h: "on the first call the
counter i runs from 1 to 2n, on the second from 2n + 1 to 4n, and so on"; used for one-time keys in
STB 34.101.45).  Only property theorems and non-vacuity examples; helper lemmas and the iterate
functions (`iterRounds`, `iterDFrom`, `stepRInv`, `stepRIter`) are in Lemmas/WblR.lean.
All theorems hold for an ARBITRARY cipher `C` (WBL only calls `C.enc`), every key, every buffer of at
least 32 octets and every ADMISSIBLE start round `round0 % 2n = 0`, n = ceil(count/16).
For `round0 % 2n ≠ 0` the C code ASSERTs (outside the contract); the do-while would then run only
until the next multiple of 2n.  No theorem is stated for that case.
-/
import Bee2V.C01.Lemmas.WblR
import Bee2V.C01.Lemmas.Block
namespace Bee2V.C01
open Wbl WblR

/-! ### 1. beltWBLStepEBase entered with `st->round = round0` -/

/-- `beltWBLStepEBase` entered with an admissible counter `round0` performs exactly the 2n rounds with the
round numbers `round0+1, …, round0+2n` (`iterRounds … k buf r` = k iterations of the do-loop body
starting with `st->round = r`), leaves `st->round = round0 + 2n`, and keeps `count`. -/
theorem wblStepEBase_from (C : Cipher) (hlen : ∀ k x, x.length = 16 → (C.enc k x).length = 16)
    (key buf : Bytes) (round0 : Nat) (h : 32 ≤ buf.length) (h0 : round0 % (2 * wblN buf.length) = 0) :
    wblStepEBase C key buf round0
      = (iterRounds C key (2 * wblN buf.length) buf round0, round0 + 2 * wblN buf.length) ∧
    (wblStepEBase C key buf round0).1.length = buf.length := by
  have e := stepEBase_from C hlen key buf round0 h h0
  refine ⟨e, ?_⟩
  rw [e]; exact length_iterRounds C hlen key _ buf round0 h

/-- … and it is undone by the 2n D rounds with the round numbers in descending order
`round0+2n, …, round0+1`. -/
theorem wblStepEBase_from_inv (C : Cipher) (hlen : ∀ k x, x.length = 16 → (C.enc k x).length = 16)
    (key buf : Bytes) (round0 : Nat) (h : 32 ≤ buf.length) (h0 : round0 % (2 * wblN buf.length) = 0) :
    stepRInv C key (wblStepEBase C key buf round0).1 round0 = buf := by
  obtain ⟨e, hl⟩ := wblStepEBase_from C hlen key buf round0 h h0
  unfold stepRInv
  rw [hl, e]
  exact iterDFrom_iterRounds C hlen key _ buf round0 h

/-- for `round0 = 0` the inverse is `beltWBLStepDBase` -/
theorem stepRInv_zero (C : Cipher) (key buf : Bytes) :
    stepRInv C key buf 0 = (wblStepDBase C key buf).1 :=
  iterDFrom_zero _ _ buf

example : (wblStepEBase toyCipher [] (List.replicate 40 7) 6).2 = 12 := by decide +kernel
example : (wblStepEBase toyCipher [] (List.replicate 40 7) 6).1 ≠ (wblStepEBase toyCipher [] (List.replicate 40 7) 0).1 := by
  decide +kernel

/-! ### 2. Opt = Base for every admissible start round -/

/-- `beltWBLStepEOpt` returns the same buffer and the same `st->round` as `beltWBLStepEBase` when both are
entered with the same admissible counter `round0` (not only 0), for every buffer made of at least two
whole blocks. -/
theorem wblStepEOpt_eq_wblStepEBase_from (C : Cipher) (hlen : ∀ k x, x.length = 16 → (C.enc k x).length = 16)
    (key buf : Bytes) (round0 : Nat) (h16 : buf.length % 16 = 0) (h32 : 32 ≤ buf.length)
    (h0 : round0 % (2 * wblN buf.length) = 0) :
    wblStepEOpt C key buf round0 = wblStepEBase C key buf round0 :=
  stepEOpt_eq_Base_from C hlen key buf round0 h16 h32 h0

example : wblStepEOpt toyCipher [] (List.replicate 64 7) 8 = wblStepEBase toyCipher [] (List.replicate 64 7) 8 := by
  decide +kernel
example : (wblStepEOpt toyCipher [] (List.replicate 64 7) 8).1 ≠ (wblStepEOpt toyCipher [] (List.replicate 64 7) 0).1 := by
  decide +kernel

/-! ### 3. beltWBLStepR -/

/-- `beltWBLStepR` entered with an admissible counter is `beltWBLStepEBase` entered with that counter on
BOTH dispatch arms; it runs the rounds `round0+1 … round0+2n`, ends with `st->round = round0 + 2n` and
keeps `count`. -/
theorem wblStepR_spec (C : Cipher) (hlen : ∀ k x, x.length = 16 → (C.enc k x).length = 16)
    (key buf : Bytes) (round0 : Nat) (h : 32 ≤ buf.length) (h0 : round0 % (2 * wblN buf.length) = 0) :
    wblStepR C key buf round0 = wblStepEBase C key buf round0 ∧
    wblStepR C key buf round0
      = (iterRounds C key (2 * wblN buf.length) buf round0, round0 + 2 * wblN buf.length) ∧
    (wblStepR C key buf round0).1.length = buf.length := by
  have e := stepR_eq C hlen key buf round0 h h0
  refine ⟨by rw [e, stepEBase_from C hlen key buf round0 h h0], e, ?_⟩
  rw [e]; exact length_iterRounds C hlen key _ buf round0 h

/-- the first `beltWBLStepR` call after `beltWBLStart` is `beltWBLStepE` -/
theorem wblStepR_zero (C : Cipher) (key buf : Bytes) : wblStepR C key buf 0 = wblStepE C key buf := rfl

/-- The sentence of belt.h: after `k` calls of `beltWBLStepR` on a buffer of `count` octets (following
`beltWBLStart`) the counter is `2nk`, so the `(k+1)`-th call is entered with `st->round = 2nk`, uses the
round numbers `2nk + 1, …, 2n(k+1)` and leaves `st->round = 2n(k+1)`; the buffer after `k` calls has
gone through the rounds `1, …, 2nk`. -/
theorem wblStepR_kth_call (C : Cipher) (hlen : ∀ k x, x.length = 16 → (C.enc k x).length = 16)
    (key buf : Bytes) (k : Nat) (h : 32 ≤ buf.length) :
    stepRIter C key k buf 0 = (iterRounds C key (2 * wblN buf.length * k) buf 0, 2 * wblN buf.length * k) ∧
    (stepRIter C key k buf 0).1.length = buf.length ∧
    stepRIter C key (k + 1) buf 0
      = (iterRounds C key (2 * wblN buf.length) (stepRIter C key k buf 0).1 (2 * wblN buf.length * k),
         2 * wblN buf.length * (k + 1)) := by
  have e := stepRIter_spec C hlen key buf.length h k buf 0 rfl (Nat.zero_mod _)
  rw [Nat.zero_add] at e
  have hl : (stepRIter C key k buf 0).1.length = buf.length := by
    rw [e]; exact length_iterRounds C hlen key _ buf 0 h
  refine ⟨e, hl, ?_⟩
  rw [stepRIter_succ]
  have h2 : (stepRIter C key k buf 0).2 = 2 * wblN buf.length * k := by rw [e]
  rw [h2, stepR_eq C hlen key _ _ (by omega) (by rw [hl]; exact Nat.mul_mod_right _ _), hl]
  rw [Nat.mul_add, Nat.mul_one]

example : (stepRIter toyCipher [] 2 (List.replicate 33 7) 0).2 = 12 := by decide +kernel

/-! ### 4. every call is a permutation -/

/-- `stepRInv` (2n `beltWBLStepDBase`-rounds with the round numbers `round0+2n, …, round0+1`) undoes the
`beltWBLStepR` call that was entered with `st->round = round0` … -/
theorem stepRInv_wblStepR (C : Cipher) (hlen : ∀ k x, x.length = 16 → (C.enc k x).length = 16)
    (key buf : Bytes) (round0 : Nat) (h : 32 ≤ buf.length) (h0 : round0 % (2 * wblN buf.length) = 0) :
    stepRInv C key (wblStepR C key buf round0).1 round0 = buf := by
  rw [(wblStepR_spec C hlen key buf round0 h h0).1]
  exact wblStepEBase_from_inv C hlen key buf round0 h h0

/-- … and conversely, so each `beltWBLStepR` call is a bijection of the buffers of a given length (for
every key and every cipher whose `enc` keeps the block length; `dec` is never needed). -/
theorem wblStepR_stepRInv (C : Cipher) (hlen : ∀ k x, x.length = 16 → (C.enc k x).length = 16)
    (key buf : Bytes) (round0 : Nat) (h : 32 ≤ buf.length) (h0 : round0 % (2 * wblN buf.length) = 0) :
    wblStepR C key (stepRInv C key buf round0) round0 = (buf, round0 + 2 * wblN buf.length) ∧
    (stepRInv C key buf round0).length = buf.length := by
  have hl : (stepRInv C key buf round0).length = buf.length :=
    length_iterDFrom C hlen key _ round0 buf h
  refine ⟨?_, hl⟩
  rw [stepR_eq C hlen key _ round0 (by omega) (by rw [hl]; exact h0), hl]
  unfold stepRInv
  rw [iterRounds_iterDFrom C hlen key _ buf round0 h]

/-- distinct admissible counters give distinct transformations (n = 3, so 6 is admissible) -/
example : wblStepR toyCipher [] (List.replicate 48 7) 6 ≠ wblStepR toyCipher [] (List.replicate 48 7) 0 := by
  decide +kernel
example : (wblStepR toyCipher [] (List.replicate 48 7) 6).1 ≠ (wblStepR toyCipher [] (List.replicate 48 7) 0).1 := by
  decide +kernel
example : stepRInv toyCipher [] (wblStepR toyCipher [] (List.replicate 48 7) 6).1 6 = List.replicate 48 7 := by
  decide +kernel

/-! ### 6. corollaries for the belt block cipher -/

/-- `beltWBLStepR` for belt itself: Base on both arms, counters `round0+1 … round0+2n`. -/
theorem belt_wblStepR_spec (key buf : Bytes) (round0 : Nat) (h : 32 ≤ buf.length)
    (h0 : round0 % (2 * wblN buf.length) = 0) :
    wblStepR beltCipher key buf round0 = wblStepEBase beltCipher key buf round0 ∧
    wblStepR beltCipher key buf round0
      = (iterRounds beltCipher key (2 * wblN buf.length) buf round0, round0 + 2 * wblN buf.length) ∧
    (wblStepR beltCipher key buf round0).1.length = buf.length :=
  wblStepR_spec beltCipher length_blockEncr key buf round0 h h0

/-- Opt = Base from every admissible start round, for belt itself. -/
theorem belt_wblStepEOpt_eq_wblStepEBase_from (key buf : Bytes) (round0 : Nat) (h16 : buf.length % 16 = 0)
    (h32 : 32 ≤ buf.length) (h0 : round0 % (2 * wblN buf.length) = 0) :
    wblStepEOpt beltCipher key buf round0 = wblStepEBase beltCipher key buf round0 :=
  wblStepEOpt_eq_wblStepEBase_from beltCipher length_blockEncr key buf round0 h16 h32 h0

/-- the counters of consecutive `beltWBLStepR` calls, for belt itself -/
theorem belt_wblStepR_kth_call (key buf : Bytes) (k : Nat) (h : 32 ≤ buf.length) :
    stepRIter beltCipher key k buf 0
      = (iterRounds beltCipher key (2 * wblN buf.length * k) buf 0, 2 * wblN buf.length * k) ∧
    (stepRIter beltCipher key k buf 0).1.length = buf.length ∧
    stepRIter beltCipher key (k + 1) buf 0
      = (iterRounds beltCipher key (2 * wblN buf.length) (stepRIter beltCipher key k buf 0).1
           (2 * wblN buf.length * k), 2 * wblN buf.length * (k + 1)) :=
  wblStepR_kth_call beltCipher length_blockEncr key buf k h

/-- every `beltWBLStepR` call of belt itself is invertible -/
theorem belt_stepRInv_wblStepR (key buf : Bytes) (round0 : Nat) (h : 32 ≤ buf.length)
    (h0 : round0 % (2 * wblN buf.length) = 0) :
    stepRInv beltCipher key (wblStepR beltCipher key buf round0).1 round0 = buf :=
  stepRInv_wblStepR beltCipher length_blockEncr key buf round0 h h0

theorem belt_wblStepR_stepRInv (key buf : Bytes) (round0 : Nat) (h : 32 ≤ buf.length)
    (h0 : round0 % (2 * wblN buf.length) = 0) :
    wblStepR beltCipher key (stepRInv beltCipher key buf round0) round0 = (buf, round0 + 2 * wblN buf.length) ∧
    (stepRInv beltCipher key buf round0).length = buf.length :=
  wblStepR_stepRInv beltCipher length_blockEncr key buf round0 h h0

end Bee2V.C01

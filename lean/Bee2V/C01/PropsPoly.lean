/-
C01 property theorems: beltPolyMul is multiplication in GF(2^128) = GF(2)[x]/(x^128 + x^7 + x^2 + x + 1).
-/
import Bee2V.C01.Lemmas.PolyCode
namespace Bee2V.C01
open Bee2V.C01.Poly

/-- The executable model of `beltPolyMul` (used by the DWP/CHE models and tied to the C by the `pmul`
correspondence ops) is the field multiplication: on 16-octet operands, little-endian polynomial coding,
`⟦polyMul a b⟧ = ⟦a⟧ · ⟦b⟧ mod (x^128 + x^7 + x^2 + x + 1)` with `·` the carry-less product of C05. -/
theorem polyMul_is_field_mul (a b : Bytes) (ha : a.length = 16) (hb : b.length = 16) :
    leNat (polyMul a b) = gfMul (leNat a) (leNat b) ∧ (polyMul a b).length = 16 :=
  polyMul_gf a b ha hb

/-- The C routine as it is composed in belt_lcl.c -- `ppMul` (Karatsuba routines of pp_mul.c), `ppRedBelt`
(pp_red.c), `wwCopy`, each in its C05 word-level model proved against the same polynomial arithmetic --
returns the same octets as the model, for every word size B_PER_W ∈ {16, 32, 64}. -/
theorem polyMul_eq_code (w : Nat) (hw : w = 16 ∨ w = 32 ∨ w = 64) (a b : Bytes) (ha : a.length = 16)
    (hb : b.length = 16) : polyMulCode w a b = polyMul a b := by
  rw [polyMulCode_eq w hw a b ha hb, polyMul_eq a b ha hb]

example : polyMul (natLE 16 2) (natLE 16 (2 ^ 127)) = natLE 16 0x87 := by decide +kernel
example : polyMulCode 64 (natLE 16 2) (natLE 16 (2 ^ 127)) = natLE 16 0x87 := by decide +kernel

/-- `gfMul` is a commutative, associative product, distributive over xor (the field addition), with unit 1,
and its values are reduced (degree < 128). -/
theorem gfMul_laws (a b c : Nat) :
    gfMul a b = gfMul b a ∧ gfMul (gfMul a b) c = gfMul a (gfMul b c) ∧
    gfMul a (b ^^^ c) = gfMul a b ^^^ gfMul a c ∧ gfMul a 0 = 0 ∧ (a < 2 ^ 128 → gfMul a 1 = a) ∧
    gfMul a b < 2 ^ 128 :=
  ⟨gfMul_comm a b, gfMul_assoc a b c, gfMul_xor a b c, gfMul_zero a, gfMul_one a, gfMul_lt a b⟩

example : gfMul 3 3 = 5 := by decide +kernel

end Bee2V.C01

/-
C01 property theorems, stream-like modes: CTR (belt_ctr.c), CFB (belt_cfb.c), BDE (belt_bde.c) and the
counter macro `beltBlockIncU32` (belt_lcl.h).
Only property theorems and non-vacuity examples; the proofs are in Lemmas/Stream.lean.

Mode theorems are stated for an arbitrary `C : Cipher`; `hlen` says that the block transformation returns
16 octets on 16 octets, `hDE` that `dec` undoes `enc`.  The corollaries `belt_*` discharge them for
`beltCipher` (belt_block.c) with Lemmas/Block.lean.  `iv.length = 16` is the C prototype `const octet iv[16]`.
-/
import Bee2V.C01.Lemmas.Stream
import Bee2V.C01.Lemmas.Block
namespace Bee2V.C01
open Bee2V.C01.Stream

/-- a toy block transformation pair used by the non-vacuity examples (evaluated by `decide`) -/
def toyC : Cipher :=
  ⟨fun k x => (xorb x ((k ++ zeros 16).take 16)).map (· + 1),
   fun k x => xorb (x.map (· - 1)) ((k ++ zeros 16).take 16)⟩

/-- the hypothesis `hlen` of the mode theorems is satisfiable (also by `beltCipher`: `belt_hlen` below) -/
example : ∀ k x : Bytes, x.length = 16 → (toyC.enc k x).length = 16 := by
  intro k x h
  simp only [toyC, List.length_map, length_xorb, List.length_take, List.length_append, zeros, List.length_replicate]
  omega

/-- ... and so is `hDE` -/
example : ∀ k x : Bytes, x.length = 16 → toyC.dec k (toyC.enc k x) = x := by
  intro k x h
  have hm : ∀ l : Bytes, (l.map (· + 1)).map (· - 1) = l := by
    intro l
    induction l with
    | nil => rfl
    | cons a l ih =>
      have : a + 1 - 1 = a := by grind
      simp only [List.map_cons, ih, this]
  simp only [toyC, hm]
  exact xorb_cancel_right _ _ (by
    simp only [List.length_take, List.length_append, zeros, List.length_replicate]; omega)

/-- call a Step function on consecutive fragments, threading the state:
`(final state, list of the processed fragments)` -/
def runFrags {σ : Type} (step : σ → Bytes → σ × Bytes) : σ → List Bytes → σ × List Bytes
  | st, [] => (st, [])
  | st, f :: fs => ((runFrags step (step st f).1 fs).1, (step st f).2 :: (runFrags step (step st f).1 fs).2)

/-! ### the counter -/

/-- `beltBlockIncU32(block)`: the short-circuit carry chain over the four u32 words of the block is the
increment of the 128-bit little-endian number modulo 2^128 (for ALL word values, including every carry
pattern and the wrap-around of the all-ones block). -/
theorem incU32_spec (w0 w1 w2 w3 : UInt32) :
    ∃ v0 v1 v2 v3, incU32 [w0, w1, w2, w3] = [v0, v1, v2, v3] ∧
      v0.toNat + 2 ^ 32 * v1.toNat + 2 ^ 64 * v2.toNat + 2 ^ 96 * v3.toNat =
        (w0.toNat + 2 ^ 32 * w1.toNat + 2 ^ 64 * w2.toNat + 2 ^ 96 * w3.toNat + 1) % 2 ^ 128 := by
  have hv := wordsNat_incU32 w0 w1 w2 w3
  match h : incU32 [w0, w1, w2, w3], length_incU32 w0 w1 w2 w3 with
  | [v0, v1, v2, v3], _ =>
    refine ⟨v0, v1, v2, v3, rfl, ?_⟩
    rw [h] at hv
    simp only [wordsNat] at hv
    omega

example : incU32 [0xFFFFFFFF, 0xFFFFFFFF, 0, 7] = [0, 0, 1, 7] := by decide
example : incU32 [0xFFFFFFFF, 0xFFFFFFFF, 0xFFFFFFFF, 0xFFFFFFFF] = [0, 0, 0, 0] := by decide
example : incU32 [5, 0xFFFFFFFF, 0, 7] = [6, 0xFFFFFFFF, 0, 7] := by decide

/-- the same on the octet image of `u32 ctr[4]` (little-endian platform): the 16-octet counter, read as a
little-endian number, is incremented modulo 2^128, and stays 16 octets long -/
theorem incBlock_spec (b : Bytes) (h : b.length = 16) :
    leNat (incBlock b) = (leNat b + 1) % 2 ^ 128 ∧ (incBlock b).length = 16 :=
  ⟨leNat_incBlock b h, length_incBlock b h⟩

example : incBlock [0xFF, 0xFF, 0xFF, 0xFF, 0xFF, 0xFF, 0xFF, 0xFF, 0xFF, 0, 0, 0, 0, 0, 0, 9]
    = [0, 0, 0, 0, 0, 0, 0, 0, 0, 1, 0, 0, 0, 0, 0, 9] := by decide

/-- a 16-octet block is determined by its little-endian value (so `incBlock_spec` determines `incBlock b`) -/
theorem natLE_leNat_block (b : Bytes) (h : b.length = 16) : natLE 16 (leNat b) = b := natLE_leNat_16 b h

/-! ### CTR -/

/-- `beltCTRStepE` from an arbitrary state keeps the length of the buffer. -/
theorem ctrStepE_length (C : Cipher) (hlen : ∀ k x, x.length = 16 → (C.enc k x).length = 16)
    (st : CtrSt) (hr : st.reserved ≤ 16) (hb : st.block.length = 16) (hc : st.ctr.length = 16) (buf : Bytes) :
    (ctrStepE C st buf).2.length = buf.length :=
  (ctrStepE_roundtrip C hlen st hr hb hc buf).1

/-- `beltCTRStepE` (= `beltCTRStepD`) is an involution: applied twice from the SAME state (any reserve of key
stream `0 ≤ reserved ≤ 16`, any counter) it returns the original buffer, for every buffer length incl. 0 and
ragged tails; and the state after the call does not depend on the data. -/
theorem ctrStepE_involution (C : Cipher) (hlen : ∀ k x, x.length = 16 → (C.enc k x).length = 16)
    (st : CtrSt) (hr : st.reserved ≤ 16) (hb : st.block.length = 16) (hc : st.ctr.length = 16) (buf : Bytes) :
    (ctrStepE C st (ctrStepE C st buf).2).2 = buf ∧
    (ctrStepE C st (ctrStepE C st buf).2).1 = (ctrStepE C st buf).1 :=
  (ctrStepE_roundtrip C hlen st hr hb hc buf).2

/-- Fragment-wise CTR: processing the fragments with consecutive `beltCTRStepE` calls and then processing the
results again the same way from the same initial state returns the original fragments (same final state). -/
theorem ctr_fragments (C : Cipher) (hlen : ∀ k x, x.length = 16 → (C.enc k x).length = 16)
    (frags : List Bytes) (st : CtrSt) (hr : st.reserved ≤ 16) (hb : st.block.length = 16) (hc : st.ctr.length = 16) :
    runFrags (ctrStepE C) st (runFrags (ctrStepE C) st frags).2 = ((runFrags (ctrStepE C) st frags).1, frags) := by
  induction frags generalizing st with
  | nil => rfl
  | cons f fs ih =>
    obtain ⟨_, h2, h3⟩ := ctrStepE_roundtrip C hlen st hr hb hc f
    obtain ⟨i1, i2, i3⟩ := ctrStepE_inv C hlen st hr hb hc f
    simp only [runFrags, h2, h3, ih _ i1 i2 i3]

example : (ctrStepE toyC ⟨[1, 2, 3], zeros 16, (zeros 15) ++ [9], 5⟩ [1, 2, 3, 4, 5, 6, 7]).2 = [1, 2, 3, 4, 12, 7, 4] := by
  decide

/-- The key stream of CTR.  After `beltCTRStart(key, iv)` the counter is `s = E_key(iv)`; octets
`16 i .. 16 i + 15` of the output of `beltCTRStepE` are the corresponding octets of the input xored with
`E_key(s ⊞ (i + 1))`, where `⊞` is addition modulo 2^128 on the little-endian value of the block; the last,
incomplete, block is xored with the prefix of that key-stream block (`xorb` truncates to the shorter
argument).  Together with `ctrStepE_length` this determines the whole output. -/
theorem ctrStepE_keystream (C : Cipher) (hlen : ∀ k x, x.length = 16 → (C.enc k x).length = 16)
    (key iv : Bytes) (hiv : iv.length = 16) (buf : Bytes) (i : Nat) :
    ((ctrStepE C (ctrStart C key iv) buf).2.drop (16 * i)).take 16 =
      xorb ((buf.drop (16 * i)).take 16)
        (C.enc (fmtKey key) (natLE 16 ((leNat (C.enc (fmtKey key) iv) + i + 1) % 2 ^ 128))) := by
  have h : ¬ ((ctrStart C key iv).reserved ≠ 0 ∧ (ctrStart C key iv).reserved ≥ buf.length) := by
    simp [ctrStart]
  rw [ctrStepE_main C _ buf h]
  have := ctrMain_block C hlen i (ctrStart C key iv) buf (hlen _ _ hiv)
  simpa [ctrStart, xorb_nil_left] using this

/-- `beltCTR` is its own inverse: `beltCTR(beltCTR(src, key, iv), key, iv) = src`. -/
theorem ctrCrypt_involution (C : Cipher) (hlen : ∀ k x, x.length = 16 → (C.enc k x).length = 16)
    (src key iv ct : Bytes) (hiv : iv.length = 16) (h : ctrCrypt C src key iv = (.ok, some ct)) :
    ctrCrypt C ct key iv = (.ok, some src) ∧ ct.length = src.length := by
  unfold ctrCrypt at h ⊢
  split at h
  · simp at h
  · rename_i hk
    rw [if_neg hk]
    simp only [Prod.mk.injEq, Option.some.injEq, true_and] at h
    subst h
    have hs := ctrStepE_roundtrip C hlen (ctrStart C key iv) (by simp [ctrStart]) (by simp [ctrStart, zeros])
      (hlen _ _ hiv) src
    rw [hs.2.1]
    exact ⟨rfl, hs.1⟩

/-- `beltCTR` fails exactly on a bad key length. -/
theorem ctrCrypt_badInput_iff (C : Cipher) (src key iv : Bytes) :
    (ctrCrypt C src key iv).1 = .badInput ↔ (key.length ≠ 16 ∧ key.length ≠ 24 ∧ key.length ≠ 32) := by
  unfold ctrCrypt validKeyLen
  split <;> simp_all

/-! ### CFB -/

/-- `beltCFBStepD` undoes `beltCFBStepE` when both start from the same state (any reserve of gamma
`0 ≤ reserved ≤ 16`), for every buffer length incl. 0 and ragged tails; the length is kept. -/
theorem cfbStepD_cfbStepE (C : Cipher) (hlen : ∀ k x, x.length = 16 → (C.enc k x).length = 16)
    (st : CfbSt) (hr : st.reserved ≤ 16) (hb : st.block.length = 16) (buf : Bytes) :
    (cfbStepD C st (cfbStepE C st buf).2).2 = buf ∧ (cfbStepE C st buf).2.length = buf.length :=
  ⟨(cfbStep_roundtrip C hlen st hr hb buf).2.1, (cfbStep_roundtrip C hlen st hr hb buf).1⟩

/-- ... and both end in the SAME state (block = last 16 ciphertext octets / partially used gamma,
same `reserved`), which again satisfies the state invariant. -/
theorem cfbStepD_cfbStepE_state (C : Cipher) (hlen : ∀ k x, x.length = 16 → (C.enc k x).length = 16)
    (st : CfbSt) (hr : st.reserved ≤ 16) (hb : st.block.length = 16) (buf : Bytes) :
    (cfbStepD C st (cfbStepE C st buf).2).1 = (cfbStepE C st buf).1 ∧
    (cfbStepE C st buf).1.block.length = 16 ∧ (cfbStepE C st buf).1.reserved ≤ 16 :=
  (cfbStep_roundtrip C hlen st hr hb buf).2.2

/-- Fragment-wise decryption of fragment-wise encryption: encrypting the fragments `frags` one
`beltCFBStepE` call after the other and then decrypting the resulting fragments one `beltCFBStepD` call
after the other (same fragmentation, same initial state) returns the original fragments, and both runs end
in the same state. -/
theorem cfb_fragments (C : Cipher) (hlen : ∀ k x, x.length = 16 → (C.enc k x).length = 16)
    (frags : List Bytes) (st : CfbSt) (hr : st.reserved ≤ 16) (hb : st.block.length = 16) :
    runFrags (cfbStepD C) st (runFrags (cfbStepE C) st frags).2 = ((runFrags (cfbStepE C) st frags).1, frags) := by
  induction frags generalizing st with
  | nil => rfl
  | cons f fs ih =>
    obtain ⟨_, h2, h3, h4, h5⟩ := cfbStep_roundtrip C hlen st hr hb f
    simp only [runFrags, h2, h3, ih _ h5 h4]

example : (cfbStepE toyC ⟨[1, 2, 3], (zeros 15) ++ [9], 3⟩ [1, 2, 3, 4, 5, 6, 7]).2 ≠ [1, 2, 3, 4, 5, 6, 7] := by decide
example : (runFrags (cfbStepE toyC) (cfbStart [] (zeros 16)) [[1, 2, 3], [], [4, 5]]).2 = [[0, 3, 2], [], [5, 4]] := by
  decide
example : (cfbStepE toyC (cfbStart [] (zeros 16)) [1, 2, 3, 4, 5]).2 = [0, 3, 2, 5, 4] := by decide

/-- `beltCFBDecr(beltCFBEncr(src, key, iv), key, iv) = src`, with the same length. -/
theorem cfbDecr_cfbEncr (C : Cipher) (hlen : ∀ k x, x.length = 16 → (C.enc k x).length = 16)
    (src key iv ct : Bytes) (hiv : iv.length = 16) (h : cfbEncr C src key iv = (.ok, some ct)) :
    cfbDecr C ct key iv = (.ok, some src) ∧ ct.length = src.length := by
  unfold cfbEncr at h
  unfold cfbDecr
  split at h
  · simp at h
  · rename_i hk
    rw [if_neg hk]
    simp only [Prod.mk.injEq, Option.some.injEq, true_and] at h
    subst h
    have hs := cfbStep_roundtrip C hlen (cfbStart key iv) (by simp [cfbStart]) (by simpa [cfbStart] using hiv) src
    rw [hs.2.1]
    exact ⟨rfl, hs.1⟩

/-- `beltCFBEncr` fails exactly on a bad key length. -/
theorem cfbEncr_badInput_iff (C : Cipher) (src key iv : Bytes) :
    (cfbEncr C src key iv).1 = .badInput ↔ (key.length ≠ 16 ∧ key.length ≠ 24 ∧ key.length ≠ 32) := by
  unfold cfbEncr validKeyLen
  split <;> simp_all

/-! ### BDE -/

/-- `beltBDEStepD` undoes `beltBDEStepE` from the same state (any 16-octet tweak register `s`), for every
number of whole blocks.  (The model also covers a buffer that is not a multiple of 16 -- a precondition
violation in C: the incomplete tail is left untouched by both.)  Both end in the same state. -/
theorem bdeStepD_bdeStepE (C : Cipher) (hlen : ∀ k x, x.length = 16 → (C.enc k x).length = 16)
    (hDE : ∀ k x, x.length = 16 → C.dec k (C.enc k x) = x)
    (st : BdeSt) (hs : st.s.length = 16) (buf : Bytes) :
    (bdeStepD C st (bdeStepE C st buf).2).2 = buf ∧ (bdeStepE C st buf).2.length = buf.length ∧
    (bdeStepD C st (bdeStepE C st buf).2).1 = (bdeStepE C st buf).1 := by
  obtain ⟨h1, h2, h3⟩ := bdeLoop_roundtrip C.enc C.dec st.key hlen hDE st.s hs buf
  rw [bdeStepE_eq, bdeStepD_eq]
  simp only [h1, h2, h3]
  exact ⟨trivial, trivial, trivial⟩

/-- `beltBDEStepE` undoes `beltBDEStepD` (needs `enc ∘ dec = id` and the length of `dec`). -/
theorem bdeStepE_bdeStepD (C : Cipher) (hlen : ∀ k x, x.length = 16 → (C.dec k x).length = 16)
    (hED : ∀ k x, x.length = 16 → C.enc k (C.dec k x) = x)
    (st : BdeSt) (hs : st.s.length = 16) (buf : Bytes) :
    (bdeStepE C st (bdeStepD C st buf).2).2 = buf ∧ (bdeStepD C st buf).2.length = buf.length := by
  obtain ⟨h1, h2, h3⟩ := bdeLoop_roundtrip C.dec C.enc st.key hlen hED st.s hs buf
  rw [bdeStepD_eq, bdeStepE_eq]
  simp only [h1, h2]
  exact ⟨trivial, trivial⟩

example : (bdeStepE toyC ⟨[1, 2, 3], (zeros 15) ++ [0x80], zeros 16⟩ (zeros 32)).2 ≠ zeros 32 := by decide

/-- `beltBDEDecr(beltBDEEncr(src, key, iv), key, iv) = src`. -/
theorem bdeDecr_bdeEncr (C : Cipher) (hlen : ∀ k x, x.length = 16 → (C.enc k x).length = 16)
    (hDE : ∀ k x, x.length = 16 → C.dec k (C.enc k x) = x)
    (src key iv ct : Bytes) (hiv : iv.length = 16) (h : bdeEncr C src key iv = (.ok, some ct)) :
    bdeDecr C ct key iv = (.ok, some src) ∧ ct.length = src.length := by
  unfold bdeEncr at h
  unfold bdeDecr
  split at h
  · simp at h
  · rename_i hk
    simp only [Prod.mk.injEq, Option.some.injEq, true_and] at h
    subst h
    have hs := bdeStepD_bdeStepE C hlen hDE (bdeStart C key iv) (hlen _ _ hiv) src
    rw [hs.2.1, if_neg hk, hs.1]
    exact ⟨rfl, rfl⟩

/-- `beltBDEEncr` returns `ERR_BAD_INPUT` exactly when the length is not a positive multiple of 16 or the key
length is not 16, 24 or 32; otherwise it returns `ERR_OK`. -/
theorem bdeEncr_badInput_iff (C : Cipher) (src key iv : Bytes) :
    ((bdeEncr C src key iv).1 = .badInput ↔
      (src.length % 16 ≠ 0 ∨ src.length < 16 ∨ (key.length ≠ 16 ∧ key.length ≠ 24 ∧ key.length ≠ 32))) ∧
    ((bdeEncr C src key iv).1 = .badInput ∨ (bdeEncr C src key iv).1 = .ok) := by
  unfold bdeEncr validKeyLen
  split <;> simp_all <;> omega

example : (bdeEncr toyC (zeros 17) (zeros 16) (zeros 16)).1 = .badInput := by decide
example : (bdeEncr toyC (zeros 32) (zeros 16) (zeros 16)).1 = .ok := by decide

/-! ### corollaries for belt -/

theorem belt_hlen : ∀ k x : Bytes, x.length = 16 → (beltCipher.enc k x).length = 16 := by
  intro k x h
  show (blockEncr k x).length = 16
  exact length_blockEncr k x h
theorem belt_hDE : ∀ k x : Bytes, x.length = 16 → beltCipher.dec k (beltCipher.enc k x) = x := by
  intro k x h
  show blockDecr k (blockEncr k x) = x
  exact blockDecr_blockEncr' k x h

/-- `beltCTR` with the belt block cipher is an involution -/
theorem belt_ctrCrypt_involution (src key iv ct : Bytes) (hiv : iv.length = 16)
    (h : ctrCrypt beltCipher src key iv = (.ok, some ct)) :
    ctrCrypt beltCipher ct key iv = (.ok, some src) ∧ ct.length = src.length :=
  ctrCrypt_involution beltCipher belt_hlen src key iv ct hiv h

/-- key stream of `beltCTR` with the belt block cipher -/
theorem belt_ctrStepE_keystream (key iv : Bytes) (hiv : iv.length = 16) (buf : Bytes) (i : Nat) :
    ((ctrStepE beltCipher (ctrStart beltCipher key iv) buf).2.drop (16 * i)).take 16 =
      xorb ((buf.drop (16 * i)).take 16)
        (beltCipher.enc (fmtKey key) (natLE 16 ((leNat (beltCipher.enc (fmtKey key) iv) + i + 1) % 2 ^ 128))) :=
  ctrStepE_keystream beltCipher belt_hlen key iv hiv buf i

/-- `beltCFBDecr` inverts `beltCFBEncr` -/
theorem belt_cfbDecr_cfbEncr (src key iv ct : Bytes) (hiv : iv.length = 16)
    (h : cfbEncr beltCipher src key iv = (.ok, some ct)) :
    cfbDecr beltCipher ct key iv = (.ok, some src) ∧ ct.length = src.length :=
  cfbDecr_cfbEncr beltCipher belt_hlen src key iv ct hiv h

/-- fragment-wise `beltCFBStepD` inverts fragment-wise `beltCFBStepE` -/
theorem belt_cfb_fragments (frags : List Bytes) (key iv : Bytes) (hiv : iv.length = 16) :
    runFrags (cfbStepD beltCipher) (cfbStart key iv) (runFrags (cfbStepE beltCipher) (cfbStart key iv) frags).2 =
      ((runFrags (cfbStepE beltCipher) (cfbStart key iv) frags).1, frags) :=
  cfb_fragments beltCipher belt_hlen frags (cfbStart key iv) (by simp [cfbStart]) (by simpa [cfbStart] using hiv)

/-- `beltBDEDecr` inverts `beltBDEEncr` -/
theorem belt_bdeDecr_bdeEncr (src key iv ct : Bytes) (hiv : iv.length = 16)
    (h : bdeEncr beltCipher src key iv = (.ok, some ct)) :
    bdeDecr beltCipher ct key iv = (.ok, some src) ∧ ct.length = src.length :=
  bdeDecr_bdeEncr beltCipher belt_hlen belt_hDE src key iv ct hiv h

/-- `beltBDEStepE` inverts `beltBDEStepD` for belt -/
theorem belt_bdeStepE_bdeStepD (st : BdeSt) (hs : st.s.length = 16) (buf : Bytes) :
    (bdeStepE beltCipher st (bdeStepD beltCipher st buf).2).2 = buf ∧
    (bdeStepD beltCipher st buf).2.length = buf.length :=
  bdeStepE_bdeStepD beltCipher length_blockDecr blockEncr_blockDecr' st hs buf

end Bee2V.C01

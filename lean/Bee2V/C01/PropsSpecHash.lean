/-
C01 property theorems: the models of belt_mac.c, belt_compr.c, belt_hash.c, belt_hmac.c, belt_krp.c, belt_pbkdf.c
compute the functions of the standard (SpecHash.lean: belt-mac, sigma1 / sigma2, belt-hash, HMAC[belt-hash],
belt-keyrep, PBKDF2), for ALL input lengths and an ARBITRARY block cipher `C`.
Where the 512-bit words of the standard have to be cut in the right places the cipher must preserve the block
length (`hlen`); this is discharged for `beltCipher` in the corollaries.
Only property theorems and non-vacuity examples; helper lemmas are in Lemmas/SpecHash.lean.
-/
import Bee2V.C01.Lemmas.SpecHash
import Bee2V.C01.PropsChunk
namespace Bee2V.C01
open Bee2V.C01.SpecHashL

/-- a toy cipher that depends on key and data and preserves the block length, for the non-vacuity examples -/
def specToy : Cipher :=
  ⟨fun k x => (xorb (xorb x (k ++ zeros 16)) (k.drop 16 ++ zeros 16)).map (· * 3 + 1), fun _ x => x⟩

/-- `hlen` is satisfiable (besides belt itself, see the corollaries) -/
theorem specToy_hlen : ∀ k x : Bytes, x.length = 16 → (specToy.enc k x).length = 16 := by
  intro k x h
  simp only [specToy, List.length_map, SpecHashL.length_xorb, List.length_append, List.length_drop, h,
    length_zeros]
  omega

/-! ### belt-compress -/

/-- `beltCompr2(s, h, X)` on formatted 32-octet buffers is `s ← s ⊕ sigma1(X ‖ h)`, `h ← sigma2(X ‖ h)` of the
standard (`u1 ‖ u2 = X`, `u3 ‖ u4 = h`), for every cipher. -/
theorem compr2_spec (C : Cipher) (s h X : Bytes) (hX : X.length = 32) (hh : h.length = 32) :
    compr2 C s h X = (xorb s (Spec.sigma1 C.enc (X ++ h)), Spec.sigma2 C.enc (X ++ h)) :=
  compr2_eq C s h X hX hh

/-- `beltCompr(h, X)` is `h ← sigma2(X ‖ h)` -/
theorem compr_spec (C : Cipher) (h X : Bytes) (hX : X.length = 32) (hh : h.length = 32) :
    compr C h X = Spec.sigma2 C.enc (X ++ h) := compr_eq C h X hX hh

example : compr2 specToy (zeros 16) (chunkToyData.take 32) (chunkToyData.drop 5) =
    (xorb (zeros 16) (Spec.sigma1 specToy.enc (chunkToyData.drop 5 ++ chunkToyData.take 32)),
      Spec.sigma2 specToy.enc (chunkToyData.drop 5 ++ chunkToyData.take 32)) := by decide
/-- sigma2 depends on both halves of its argument -/
example : Spec.sigma2 specToy.enc (chunkToyData.drop 5 ++ chunkToyData.take 32) ≠
    Spec.sigma2 specToy.enc (chunkToyData.drop 5 ++ zeros 32) ∧
    Spec.sigma2 specToy.enc (chunkToyData.drop 5 ++ chunkToyData.take 32) ≠
    Spec.sigma2 specToy.enc (zeros 32 ++ chunkToyData.take 32) := by decide

/-! ### belt-hash -/

/-- Step level: after ANY fragmentation of the data, `beltHashStepG2` returns the first `n` octets of belt-hash of
the concatenation (total length below 2^64 octets, i.e. any `size_t`; the bit length is counted modulo 2^128 as in
the standard). -/
theorem hash_steps_spec (C : Cipher) (hlen : ∀ k x : Bytes, x.length = 16 → (C.enc k x).length = 16)
    (cs : List Bytes) (n : Nat) (hb : cs.flatten.length < 2 ^ 64) :
    (hashStepG C (cs.foldl (hashStepH C) hashStart) n).2 = (Spec.hash C.enc cs.flatten).take n := by
  rw [hash_chunk_independent C cs n hb]
  have h := hashInv_stepH (hashInv_start C) cs.flatten
  rw [List.nil_append] at h
  show (hashStepGInternal C _).h1.take n = _
  rw [hashInv_out h, hashOut_eq C hlen _ hb]

/-- `beltHash(hash, src, count)` computes belt-hash of the standard, for every `src` of less than 2^64 octets. -/
theorem hash_spec (C : Cipher) (hlen : ∀ k x : Bytes, x.length = 16 → (C.enc k x).length = 16)
    (src : Bytes) (hb : src.length < 2 ^ 64) :
    hashHL C src = (.ok, some (Spec.hash C.enc src)) := by
  have h := hash_steps_spec C hlen [src] 32 (by simpa using hb)
  simp only [List.foldl_cons, List.foldl_nil, List.flatten_cons, List.flatten_nil, List.append_nil] at h
  rw [hashHL, h, List.take_of_length_le (by rw [length_hash C hlen]; omega)]

/-- belt-hash of belt -/
theorem belt_hash_spec (src : Bytes) (hb : src.length < 2 ^ 64) :
    hashHL beltCipher src = (.ok, some (Spec.hash blockEncr src)) :=
  hash_spec beltCipher (fun k x h => length_blockEncr k x h) src hb

/-- the statement checked by evaluation on 37 octets (one full block, 5 octets of the second), and on the
empty word -/
example : hashHL specToy chunkToyData = (.ok, some (Spec.hash specToy.enc chunkToyData)) := by decide +kernel
example : hashHL specToy [] = (.ok, some (Spec.hash specToy.enc [])) := by decide +kernel
/-- the hash depends on the data and on its length -/
example : Spec.hash specToy.enc chunkToyData ≠ Spec.hash specToy.enc (chunkToyData.take 36 ++ [0]) ∧
    Spec.hash specToy.enc (chunkToyData.take 32) ≠ Spec.hash specToy.enc (chunkToyData.take 32 ++ [0]) := by
  decide +kernel

/-! ### belt-mac -/

/-- Step level: after ANY fragmentation, `beltMACStepG2` returns the first `n` octets of `E_K(s)` of belt-mac of
the standard on the concatenation (every cipher, no hypothesis). -/
theorem mac_steps_spec (C : Cipher) (key : Bytes) (cs : List Bytes) (n : Nat) :
    (macStepG C (cs.foldl (macStepA C) (macStart C key)) n).2 =
      (Spec.macFull C.enc (fmtKey key) cs.flatten).take n := by
  rw [mac_tag_spec, macTagSpec_eq]

/-- `beltMAC(mac, src, count, key, len)` computes belt-mac of the standard with the expanded key, for every `src`
and every key of 16, 24 or 32 octets; other key lengths are rejected. -/
theorem mac_spec (C : Cipher) (src key : Bytes) (hk : validKeyLen key.length = true) :
    macHL C src key = (.ok, some (Spec.mac C.enc (fmtKey key) src)) := by
  have h := mac_steps_spec C key [src] 8
  simp only [List.foldl_cons, List.foldl_nil, List.flatten_cons, List.flatten_nil, List.append_nil] at h
  simp only [macHL, hk, Bool.not_true, Bool.false_eq_true, if_false, h, Spec.mac]

theorem mac_badInput (C : Cipher) (src key : Bytes) (hk : validKeyLen key.length = false) :
    macHL C src key = (.badInput, none) := by
  simp only [macHL, hk, Bool.not_false, if_true]

/-- belt-mac of belt -/
theorem belt_mac_spec (src key : Bytes) (hk : validKeyLen key.length = true) :
    macHL beltCipher src key = (.ok, some (Spec.mac blockEncr (fmtKey key) src)) := mac_spec beltCipher src key hk

/-- checked by evaluation: 37 octets (two chained blocks, a short last block), 32 octets (a full last block),
the empty word -/
example : macHL specToy chunkToyData (zeros 16) = (.ok, some (Spec.mac specToy.enc (fmtKey (zeros 16)) chunkToyData)) ∧
    macHL specToy (chunkToyData.take 32) (zeros 16) =
      (.ok, some (Spec.mac specToy.enc (fmtKey (zeros 16)) (chunkToyData.take 32))) ∧
    macHL specToy [] (zeros 16) = (.ok, some (Spec.mac specToy.enc (fmtKey (zeros 16)) [])) := by decide
example : Spec.mac specToy.enc (fmtKey (zeros 16)) (chunkToyData.take 32) ≠
    Spec.mac specToy.enc (fmtKey (zeros 16)) (chunkToyData.take 31) := by decide

/-! ### HMAC[belt-hash] -/

/-- CHUNK INDEPENDENCE of belt-HMAC for EVERY key length (closes `hmac_chunk_independent_partial`): for a cipher
that preserves the block length the start state has a 32-octet buffer also when the key is longer than 32 octets
and is hashed first. -/
theorem hmac_chunk_independent_anykey (C : Cipher)
    (hlen : ∀ k x : Bytes, x.length = 16 → (C.enc k x).length = 16) (key : Bytes) (hk : key.length < 2 ^ 64)
    (cs : List Bytes) (n : Nat) (hb : cs.flatten.length < 2 ^ 64) :
    (hmacStepG C (cs.foldl (hmacStepA C) (hmacStart C key)) n).2 =
      (hmacStepG C (hmacStepA C (hmacStart C key) cs.flatten) n).2 :=
  hmac_chunk_independent_partial C key (length_hmacStart_block C hlen key hk) cs n hb

/-- Step level: after ANY fragmentation, `beltHMACStepG2` returns the first `n` octets of HMAC[belt-hash] of the
standard, `hash((K0 ⊕ opad) ‖ hash((K0 ⊕ ipad) ‖ X))`, for every key length (longer keys are hashed). The bound
is the `size_t` range of the 32 + |X| octets of the inner hash. -/
theorem hmac_steps_spec (C : Cipher) (hlen : ∀ k x : Bytes, x.length = 16 → (C.enc k x).length = 16)
    (key : Bytes) (hk : key.length < 2 ^ 64) (cs : List Bytes) (n : Nat) (hb : 32 + cs.flatten.length < 2 ^ 64) :
    (hmacStepG C (cs.foldl (hmacStepA C) (hmacStart C key)) n).2 = (Spec.hmac C.enc key cs.flatten).take n := by
  rw [hmac_chunk_independent_anykey C hlen key hk cs n (by omega)]
  show (hmacStepGInternal C _).h1_out.take n = _
  rw [hmac_oneshot C hlen key _ hk hb]

/-- `beltHMAC(mac, src, count, key, len)` computes HMAC[belt-hash] of the standard for every key and every `src`
(lengths in the `size_t` range). -/
theorem hmac_spec (C : Cipher) (hlen : ∀ k x : Bytes, x.length = 16 → (C.enc k x).length = 16)
    (src key : Bytes) (hk : key.length < 2 ^ 64) (hb : 32 + src.length < 2 ^ 64) :
    hmacHL C src key = (.ok, some (Spec.hmac C.enc key src)) := by
  have h : (hmacStepG C (hmacStepA C (hmacStart C key) src) 32).2 = Spec.hmac C.enc key src := by
    show (hmacStepGInternal C _).h1_out.take 32 = _
    rw [hmac_oneshot C hlen key _ hk hb]
    exact List.take_of_length_le (by rw [length_hmac C hlen]; omega)
  rw [hmacHL, h]

/-- HMAC[belt-hash] of belt -/
theorem belt_hmac_spec (src key : Bytes) (hk : key.length < 2 ^ 64) (hb : 32 + src.length < 2 ^ 64) :
    hmacHL beltCipher src key = (.ok, some (Spec.hmac blockEncr key src)) :=
  hmac_spec beltCipher (fun k x h => length_blockEncr k x h) src key hk hb

/-- checked by evaluation: a short key and a 37-octet key (hashed first) -/
example : hmacHL specToy chunkToyData [1, 2, 3] = (.ok, some (Spec.hmac specToy.enc [1, 2, 3] chunkToyData)) := by
  decide +kernel
example : hmacHL specToy [7] chunkToyData = (.ok, some (Spec.hmac specToy.enc chunkToyData [7])) := by
  decide +kernel
/-- HMAC depends on key and data -/
example : Spec.hmac specToy.enc [1, 2, 3] chunkToyData ≠ Spec.hmac specToy.enc [1, 2, 4] chunkToyData ∧
    Spec.hmac specToy.enc [1, 2, 3] chunkToyData ≠ Spec.hmac specToy.enc [1, 2, 3] (chunkToyData.take 36) := by
  decide +kernel

/-! ### PBKDF2 -/

/-- `beltPBKDF2(key, pwd, pwd_len, iter, salt, salt_len)` computes `U_1 ⊕ ... ⊕ U_iter` with
`U_1 = HMAC(pwd, salt ‖ 00000001)`, `U_{i+1} = HMAC(pwd, U_i)`, for every `iter ≥ 1`. (The C code absorbs the salt
and the counter in two `beltHMACStepA` calls: chunk independence is used here.) -/
theorem pbkdf2_spec (C : Cipher) (hlen : ∀ k x : Bytes, x.length = 16 → (C.enc k x).length = 16)
    (pwd salt : Bytes) (iter : Nat) (hi : 1 ≤ iter) (hk : pwd.length < 2 ^ 64)
    (hs : 32 + (salt.length + 4) < 2 ^ 64) :
    pbkdf2 C pwd iter salt = (.ok, some (Spec.pbkdf2 C.enc pwd iter salt)) := by
  have h0 : (iter == 0) = false := by simp; omega
  have hU : (hmacStepG C (hmacStepA C (hmacStepA C (hmacStart C pwd) salt) [0, 0, 0, 1]) 32).2 =
      Spec.pbkdfU C.enc pwd salt 0 := by
    show (hmacStepGInternal C _).h1_out.take 32 = _
    rw [hmac_twoshot C hlen pwd salt [0, 0, 0, 1] hk hs]
    exact List.take_of_length_le (by rw [length_hmac C hlen]; omega)
  simp only [pbkdf2, h0, Bool.false_eq_true, if_false, hU]
  rw [pbkdfLoop_eq C hlen pwd salt hk (iter - 1) 0]
  have hf : (fun acc i => xorb acc (Spec.pbkdfU C.enc pwd salt (0 + 1 + i))) =
      (fun acc i => xorb acc (Spec.pbkdfU C.enc pwd salt (i + 1))) := by
    funext acc i
    rw [show 0 + 1 + i = i + 1 by omega]
  rw [hf]
  rfl

/-- `ERR_BAD_INPUT` exactly for `iter = 0` -/
theorem pbkdf2_badInput_iff (C : Cipher) (pwd salt : Bytes) (iter : Nat) :
    (pbkdf2 C pwd iter salt).1 = .badInput ↔ iter = 0 := by
  unfold pbkdf2
  by_cases h : iter = 0
  · simp [h]
  · have h0 : (iter == 0) = false := by simp [h]
    simp [h0, h]

/-- PBKDF2 of belt -/
theorem belt_pbkdf2_spec (pwd salt : Bytes) (iter : Nat) (hi : 1 ≤ iter) (hk : pwd.length < 2 ^ 64)
    (hs : 32 + (salt.length + 4) < 2 ^ 64) :
    pbkdf2 beltCipher pwd iter salt = (.ok, some (Spec.pbkdf2 blockEncr pwd iter salt)) :=
  pbkdf2_spec beltCipher (fun k x h => length_blockEncr k x h) pwd salt iter hi hk hs

/-- checked by evaluation: two iterations -/
example : pbkdf2 specToy [1, 2, 3] 2 [9, 8] = (.ok, some (Spec.pbkdf2 specToy.enc [1, 2, 3] 2 [9, 8])) := by
  decide +kernel
/-- the second iteration changes the key; `iter = 0` is rejected -/
example : Spec.pbkdf2 specToy.enc [1, 2, 3] 2 [9, 8] ≠ Spec.pbkdf2 specToy.enc [1, 2, 3] 1 [9, 8] := by
  decide +kernel
example : pbkdf2 specToy [1, 2, 3] 0 [9, 8] = (.badInput, none) := by decide

/-! ### belt-keyrep -/

/-- `beltKRP(dest, m, src, n, level, header)` with admissible lengths (`n, m ∈ {16, 24, 32}`, `m ≤ n`) computes
belt-keyrep of the standard: the first `m` octets of `sigma2(r ‖ level ‖ header ‖ K)`, `K` the key expanded to 32
octets (`fmtKey src`, which is `keyExpand src` by `keyExpand_agree`), `r` the word of `H` at offset
`4 (n - 16) + 2 (m - 16)`. Every cipher. -/
theorem krp_spec (C : Cipher) (m : Nat) (src level header : Bytes) (ha : Spec.krpAdmissible src.length m)
    (hl : level.length = 12) (hh : header.length = 16) :
    krpHL C m src level header = (.ok, some (Spec.krp C.enc (fmtKey src) src.length m level header)) := by
  obtain ⟨hn, hm, hle⟩ := ha
  have h1 : validKeyLen m = true := by rcases hm with h | h | h <;> rw [h] <;> rfl
  have h2 : validKeyLen src.length = true := by rcases hn with h | h | h <;> rw [h] <;> rfl
  have h3 : decide (m > src.length) = false := by simp; omega
  simp only [krpHL, h1, h2, h3, Bool.not_true, Bool.or_false, Bool.false_eq_true, if_false]
  rw [krpStepG_eq C src level header m hn (by omega) hl hh]

/-- `ERR_BAD_INPUT` exactly for inadmissible lengths -/
theorem krp_badInput_iff (C : Cipher) (m : Nat) (src level header : Bytes) :
    (krpHL C m src level header).1 = .badInput ↔ ¬ Spec.krpAdmissible src.length m := by
  have hv : ∀ n : Nat, validKeyLen n = true ↔ (n = 16 ∨ n = 24 ∨ n = 32) := by
    intro n; simp [validKeyLen, or_assoc]
  by_cases ha : Spec.krpAdmissible src.length m
  · obtain ⟨hn, hm, hle⟩ := ha
    have h1 := (hv m).2 hm
    have h2 := (hv src.length).2 hn
    have h3 : decide (m > src.length) = false := by simp; omega
    simp only [krpHL, h1, h2, h3, Bool.not_true, Bool.or_false, Bool.false_eq_true, if_false]
    simp [Spec.krpAdmissible, hn, hm, hle]
  · have hb : (decide (m > src.length) || !validKeyLen m || !validKeyLen src.length) = true := by
      cases h1 : validKeyLen m <;> cases h2 : validKeyLen src.length <;> simp
      have := (hv m).1 h1
      have := (hv src.length).1 h2
      simp only [Spec.krpAdmissible] at ha
      omega
    simp only [krpHL, hb, if_true, ha, not_false_eq_true]

/-- belt-keyrep of belt -/
theorem belt_krp_spec (m : Nat) (src level header : Bytes) (ha : Spec.krpAdmissible src.length m)
    (hl : level.length = 12) (hh : header.length = 16) :
    krpHL beltCipher m src level header =
      (.ok, some (Spec.krp blockEncr (fmtKey src) src.length m level header)) :=
  krp_spec beltCipher m src level header ha hl hh

/-- checked by evaluation: a 24-octet key turned into a 16-octet key; the result depends on the header -/
example : krpHL specToy 16 (chunkToyData.take 24) (zeros 12) (chunkToyData.take 16) =
    (.ok, some (Spec.krp specToy.enc (fmtKey (chunkToyData.take 24)) 24 16 (zeros 12) (chunkToyData.take 16))) := by
  decide +kernel
example : Spec.krp specToy.enc (fmtKey (chunkToyData.take 24)) 24 16 (zeros 12) (chunkToyData.take 16) ≠
    Spec.krp specToy.enc (fmtKey (chunkToyData.take 24)) 24 16 (zeros 12) (zeros 16) := by decide +kernel
example : krpHL specToy 24 (chunkToyData.take 16) (zeros 12) (zeros 16) = (.badInput, none) := by decide +kernel

end Bee2V.C01

/-
Line-protocol driver of area C01 (see docs/C01.protocol.md).  Imports models only.
-/
import Bee2V.C01.Model.Hash
import Bee2V.C01.Model.Aead
import Bee2V.C01.Model.Fmt
import Bee2V.Base.Proto
namespace Bee2V.C01.Drv
open Bee2V.C01 Bee2V.Proto Bee2V.Gen.C01

def C := beltCipher

def errName : Err → String
  | .ok => "ok" | .badInput => "bad_input" | .badMac => "bad_mac"
  | .badKeytoken => "bad_keytoken" | .notImplemented => "not_implemented"

def a5 (n : Nat) : Bytes := List.replicate n 0xA5

def join (ts : List String) : String := if ts.isEmpty then "." else " ".intercalate ts

/-- `<err> <dest>` with the dest convention (untouched = a5..) -/
def outHL (r : Err × Option Bytes) (destLen : Nat) : String :=
  errName r.1 ++ " " ++ toHex (match r.2 with | some d => d | none => a5 destLen)

def stepKey (s : String) : Option Bytes :=
  match parseHex s with
  | some k => if validKeyLen k.length then some k else none
  | none => none

def blk16 (s : String) : Option Bytes :=
  match parseHex s with
  | some k => if k.length = 16 then some k else none
  | none => none

def fixedLen (n : Nat) (s : String) : Option Bytes :=
  match parseHex s with
  | some k => if k.length = n then some k else none
  | none => none

/-- `N` = NULL, else 16 octets -/
def optBlk (s : String) : Option (Option Bytes) :=
  if s = "N" then some none else (blk16 s).map some

def parseAll (ts : List String) : Option (List Bytes) := ts.mapM parseHex

def u32sHex (ws : List UInt32) : String := toHex (u32To ws)

def tabOp : List String → String
  | ["H"] => toHex H.toList
  | ["H5"] => u32sHex H5.toList
  | ["H13"] => u32sHex H13.toList
  | ["H21"] => u32sHex H21.toList
  | ["H29"] => u32sHex H29.toList
  | _ => "bad-op"

/-- process chunks through a state machine; emits one token per chunk -/
def runChunks {σ : Type} (step : σ → Bytes → σ × Bytes) : σ → List Bytes → List String → σ × List String
  | s, [], acc => (s, acc.reverse)
  | s, c :: cs, acc => let r := step s c; runChunks step r.1 cs (toHex r.2 :: acc)

/-- tokens of macS / hashS / hmacS -/
def runAcc {σ : Type} (absorb : σ → Bytes → σ) (get : σ → Nat → σ × Bytes) (ver : σ → Bytes → σ × Bool)
    (full : Nat) : σ → List String → List String → Option (List String)
  | _, [], acc => some acc.reverse
  | s, t :: ts, acc =>
    if t = "G" then let r := get s full; runAcc absorb get ver full r.1 ts (toHex r.2 :: acc)
    else if t.startsWith "G" then
      match parseNat (t.drop 1).toString with
      | some n => if n ≤ full then let r := get s n; runAcc absorb get ver full r.1 ts (toHex r.2 :: acc) else none
      | none => none
    else if t.startsWith "V" then
      match parseHex (t.drop 1).toString with
      | some m => if m.length ≤ full then let r := ver s m; runAcc absorb get ver full r.1 ts ((if r.2 then "1" else "0") :: acc) else none
      | none => none
    else if t.startsWith "W" then
      match parseHex (t.drop 1).toString with
      | some m => if m.length = full then let r := ver s m; runAcc absorb get ver full r.1 ts ((if r.2 then "1" else "0") :: acc) else none
      | none => none
    else match parseHex t with
      | some c => runAcc absorb get ver full (absorb s c) ts acc
      | none => none

/-- tokens of dwpS / cheS -/
def runAead {σ : Type} (stI stA : σ → Bytes → σ) (stE : σ → Bytes → σ × Bytes) (stG : σ → σ × Bytes)
    (stV : σ → Bytes → σ × Bool) : σ → List String → List String → Option (List String)
  | _, [], acc => some acc.reverse
  | s, t :: ts, acc =>
    if t = "G" then let r := stG s; runAead stI stA stE stG stV r.1 ts (toHex r.2 :: acc)
    else
      let arg := parseHex (t.drop 1).toString
      match arg with
      | none => none
      | some x =>
        if t.startsWith "I" then runAead stI stA stE stG stV (stI s x) ts acc
        else if t.startsWith "A" then runAead stI stA stE stG stV (stA s x) ts acc
        else if t.startsWith "E" || t.startsWith "D" then
          let r := stE s x; runAead stI stA stE stG stV r.1 ts (toHex r.2 :: acc)
        else if t.startsWith "V" then
          if x.length = 8 then let r := stV s x; runAead stI stA stE stG stV r.1 ts ((if r.2 then "1" else "0") :: acc)
          else none
        else none

def pairs : List String → Option (List (String × String))
  | [] => some []
  | a :: b :: rest => (pairs rest).map ((a, b) :: ·)
  | _ => none

def orBad (o : Option String) : String := o.getD "bad-op"

/-- word size of the C build the ops are meant for (token of `abW`; DWP/CHE use 64: the variants agree
below 2^61 octets, which is proved) -/
def handle (ws : List String) : String :=
  match ws with
  | "tab" :: rest => tabOp rest
  | ["kexp", k] => orBad do
      let k ← stepKey k
      pure (toHex (u32To (keyExpand2 k)) ++ " " ++ toHex (keyExpand k))
  | ["g", r, x] => orBad do
      let x ← parseNat x
      let x := UInt32.ofNat x
      if r = "5" then pure (toString (G5 x).toNat)
      else if r = "13" then pure (toString (G13 x).toNat)
      else if r = "21" then pure (toString (G21 x).toNat)
      else none
  | ["blk", m, k, b] => orBad do
      let k ← stepKey k
      let b ← blk16 b
      if m = "E" then pure (toHex (blockEncr (fmtKey k) b))
      else if m = "D" then pure (toHex (blockDecr (fmtKey k) b)) else none
  | ["inc", b] => orBad do pure (toHex (incBlock (← blk16 b)))
  | ["mulc", b] => orBad do pure (toHex (mulC (← blk16 b)))
  | ["abU", b, c] => orBad do pure (toHex (addBitSizeBlock (← blk16 b) (← parseNat c)))
  | ["abW", w, h, c] => orBad do
      let w ← parseNat w
      let h ← fixedLen 8 h
      let c ← parseNat c
      if w = 64 || w = 32 || w = 16 then pure (toHex (addBitSizeW w h c)) else none
  | ["pmul", a, b] => orBad do pure (toHex (polyMul (← blk16 a) (← blk16 b)))
  | ["compr", h, x] => orBad do pure (toHex (compr C (← fixedLen 32 h) (← fixedLen 32 x)))
  | ["compr2", s, h, x] => orBad do
      let r := compr2 C (← blk16 s) (← fixedLen 32 h) (← fixedLen 32 x)
      pure (toHex r.1 ++ " " ++ toHex r.2)
  -- ECB
  | ["ecb", m, k, src] => orBad do
      let k ← parseHex k
      let src ← parseHex src
      if m = "E" then pure (outHL (ecbEncr C src k) src.length)
      else if m = "D" then pure (outHL (ecbDecr C src k) src.length) else none
  | "ecbS" :: m :: k :: chunks => orBad do
      let k ← stepKey k
      let cs ← parseAll chunks
      if cs.any (·.length < 16) then none
      else if m = "E" then pure (join (cs.map fun c => toHex (ecbStepE C (fmtKey k) c)))
      else if m = "D" then pure (join (cs.map fun c => toHex (ecbStepD C (fmtKey k) c))) else none
  -- CBC
  | ["cbc", m, k, iv, src] => orBad do
      let k ← parseHex k
      let iv ← blk16 iv
      let src ← parseHex src
      if m = "E" then pure (outHL (cbcEncr C src k iv) src.length)
      else if m = "D" then pure (outHL (cbcDecr C src k iv) src.length) else none
  | "cbcS" :: m :: k :: iv :: chunks => orBad do
      let k ← stepKey k
      let iv ← blk16 iv
      let cs ← parseAll chunks
      if cs.any (·.length < 16) then none
      else if m = "E" then pure (join (runChunks (cbcStepE C) (cbcStart k iv) cs []).2)
      else if m = "D" then pure (join (runChunks (cbcStepD C) (cbcStart k iv) cs []).2) else none
  -- CFB
  | ["cfb", m, k, iv, src] => orBad do
      let k ← parseHex k
      let iv ← blk16 iv
      let src ← parseHex src
      if m = "E" then pure (outHL (cfbEncr C src k iv) src.length)
      else if m = "D" then pure (outHL (cfbDecr C src k iv) src.length) else none
  | "cfbS" :: m :: k :: iv :: chunks => orBad do
      let k ← stepKey k
      let iv ← blk16 iv
      let cs ← parseAll chunks
      if m = "E" then
        let r := runChunks (cfbStepE C) (cfbStart k iv) cs []
        pure (join (r.2 ++ [toString r.1.reserved]))
      else if m = "D" then
        let r := runChunks (cfbStepD C) (cfbStart k iv) cs []
        pure (join (r.2 ++ [toString r.1.reserved]))
      else none
  -- CTR
  | ["ctr", k, iv, src] => orBad do
      let k ← parseHex k
      let iv ← blk16 iv
      let src ← parseHex src
      pure (outHL (ctrCrypt C src k iv) src.length)
  | "ctrS" :: k :: iv :: chunks => orBad do
      let k ← stepKey k
      let iv ← blk16 iv
      let cs ← parseAll chunks
      let r := runChunks (ctrStepE C) (ctrStart C k iv) cs []
      pure (join (r.2 ++ [toString r.1.reserved, toHex r.1.ctr]))
  -- MAC / hash / HMAC
  | ["mac", k, src] => orBad do
      let k ← parseHex k
      let src ← parseHex src
      pure (outHL (macHL C src k) 8)
  | "macS" :: k :: toks => orBad do
      let k ← stepKey k
      let r ← runAcc (macStepA C) (macStepG C) (macStepV C) 8 (macStart C k) toks []
      pure (join r)
  | ["hash", src] => orBad do pure (outHL (hashHL C (← parseHex src)) 32)
  | "hashS" :: toks => orBad do
      let r ← runAcc (hashStepH C) (hashStepG C) (hashStepV C) 32 hashStart toks []
      pure (join r)
  | ["hmac", k, src] => orBad do
      let k ← parseHex k
      let src ← parseHex src
      pure (outHL (hmacHL C src k) 32)
  | "hmacS" :: k :: toks => orBad do
      let k ← parseHex k
      let r ← runAcc (hmacStepA C) (hmacStepG C) (hmacStepV C) 32 (hmacStart C k) toks []
      pure (join r)
  | ["krp", k, m, level, header] => orBad do
      let k ← parseHex k
      let m ← parseNat m
      let level ← fixedLen 12 level
      let header ← blk16 header
      pure (outHL (krpHL C m k level header) m)
  | "krpS" :: k :: level :: rest => orBad do
      let k ← stepKey k
      let level ← fixedLen 12 level
      let ps ← pairs rest
      let st := krpStart k level
      let outs ← ps.mapM fun (m, h) => do
        let m ← parseNat m
        let h ← blk16 h
        if validKeyLen m && m ≤ k.length then pure (toHex (krpStepG C st m h)) else none
      pure (join outs)
  | ["pbkdf", pwd, iter, salt] => orBad do
      pure (outHL (pbkdf2 C (← parseHex pwd) (← parseNat iter) (← parseHex salt)) 32)
  -- WBL
  | ["wbl", f, k, round0, buf] => orBad do
      let k ← stepKey k
      let key := fmtKey k
      let r0 ← parseNat round0
      let buf ← parseHex buf
      if buf.length < 32 then none
      else
        let out (r : Bytes × Nat) : Option String := pure (toHex r.1 ++ " " ++ toString r.2)
        if f = "E" then out (wblStepE C key buf)
        else if f = "D" then out (wblStepD C key buf)
        else if f = "R" then out (wblStepR C key buf r0)
        else if f = "EB" then out (wblStepEBase C key buf r0)
        else if f = "DB" then out (wblStepDBase C key buf)
        else if f = "EO" then (if buf.length % 16 = 0 then out (wblStepEOpt C key buf r0) else none)
        else if f = "DO" then (if buf.length % 16 = 0 then out (wblStepDOpt C key buf) else none)
        else none
  | ["wblD2", k, b1, b2] => orBad do
      let k ← stepKey k
      let b1 ← parseHex b1
      let b2 ← blk16 b2
      if b1.length < 16 then none
      else
        let r := wblStepD2 C (fmtKey k) b1 b2
        pure (toHex r.1 ++ " " ++ toHex r.2.1 ++ " " ++ toString r.2.2)
  | ["kwp", m, k, header, src] => orBad do
      let k ← parseHex k
      let header ← optBlk header
      let src ← parseHex src
      if m = "W" then pure (outHL (kwpWrap C src header k) (src.length + 16))
      else if m = "U" then pure (outHL (kwpUnwrap C src header k) (src.length - 16)) else none
  -- DWP / CHE
  | ["dwp", "W", k, iv, s1, s2] => orBad do
      let k ← parseHex k
      let iv ← blk16 iv
      let s1 ← parseHex s1
      let s2 ← parseHex s2
      let r := dwpWrap C 64 s1 s2 k iv
      match r.2 with
      | some (d, m) => pure (errName r.1 ++ " " ++ toHex d ++ " " ++ toHex m)
      | none => pure (errName r.1 ++ " " ++ toHex (a5 s1.length) ++ " " ++ toHex (a5 8))
  | ["dwp", "U", k, iv, s1, s2, mac] => orBad do
      let k ← parseHex k
      let iv ← blk16 iv
      let s1 ← parseHex s1
      let s2 ← parseHex s2
      let mac ← fixedLen 8 mac
      pure (outHL (dwpUnwrap C 64 s1 s2 mac k iv) s1.length)
  | "dwpS" :: k :: iv :: toks => orBad do
      let k ← stepKey k
      let iv ← blk16 iv
      let r ← runAead (dwpStepI 64) (dwpStepA 64) (dwpStepE C) (dwpStepG C) (dwpStepV C) (dwpStart C k iv) toks []
      pure (join r)
  | ["che", "W", k, iv, s1, s2] => orBad do
      let k ← parseHex k
      let iv ← blk16 iv
      let s1 ← parseHex s1
      let s2 ← parseHex s2
      let r := cheWrap C 64 s1 s2 k iv
      match r.2 with
      | some (d, m) => pure (errName r.1 ++ " " ++ toHex d ++ " " ++ toHex m)
      | none => pure (errName r.1 ++ " " ++ toHex (a5 s1.length) ++ " " ++ toHex (a5 8))
  | ["che", "U", k, iv, s1, s2, mac] => orBad do
      let k ← parseHex k
      let iv ← blk16 iv
      let s1 ← parseHex s1
      let s2 ← parseHex s2
      let mac ← fixedLen 8 mac
      pure (outHL (cheUnwrap C 64 s1 s2 mac k iv) s1.length)
  | "cheS" :: k :: iv :: toks => orBad do
      let k ← stepKey k
      let iv ← blk16 iv
      let r ← runAead (cheStepI 64) (cheStepA 64) (cheStepE C) (cheStepG C) (cheStepV C) (cheStart C k iv) toks []
      pure (join r)
  -- BDE / SDE
  | ["bde", m, k, iv, src] => orBad do
      let k ← parseHex k
      let iv ← blk16 iv
      let src ← parseHex src
      if m = "E" then pure (outHL (bdeEncr C src k iv) src.length)
      else if m = "D" then pure (outHL (bdeDecr C src k iv) src.length) else none
  | "bdeS" :: m :: k :: iv :: chunks => orBad do
      let k ← stepKey k
      let iv ← blk16 iv
      let cs ← parseAll chunks
      if cs.any (·.length % 16 ≠ 0) then none
      else if m = "E" then pure (join (runChunks (bdeStepE C) (bdeStart C k iv) cs []).2)
      else if m = "D" then pure (join (runChunks (bdeStepD C) (bdeStart C k iv) cs []).2) else none
  | ["sde", m, k, iv, src] => orBad do
      let k ← parseHex k
      let iv ← blk16 iv
      let src ← parseHex src
      if m = "E" then pure (outHL (sdeEncr C src k iv) src.length)
      else if m = "D" then pure (outHL (sdeDecr C src k iv) src.length) else none
  | "sdeS" :: m :: k :: rest => orBad do
      let k ← stepKey k
      let ps ← pairs rest
      let outs ← ps.mapM fun (iv, b) => do
        let iv ← blk16 iv
        let b ← parseHex b
        if b.length % 16 ≠ 0 || b.length < 32 then none
        else if m = "E" then pure (toHex (sdeStepE C (fmtKey k) iv b))
        else if m = "D" then pure (toHex (sdeStepD C (fmtKey k) iv b)) else none
      pure (join outs)
  -- FMT
  | ["fmtB", mod, count] => orBad do
      let mod ← parseNat mod
      let count ← parseNat count
      if 2 ≤ mod && mod ≤ 65536 && 1 ≤ count && count ≤ 300 then pure (toString (calcB mod count)) else none
  | ["s2b", b, mod, str] => orBad do
      let b ← parseNat b
      let mod ← parseNat mod
      let str ← parseHex str
      if b = 0 || str.length % 2 ≠ 0 || str.length = 0 then none
      else pure (toHex (str2bin b mod (u16From str)))
  | ["b2s", m, mod, str, bin] => orBad do
      let mod ← parseNat mod
      let str ← parseHex str
      let bin ← parseHex bin
      if str.length % 2 ≠ 0 || bin.length % 8 ≠ 0 || bin.length = 0 then none
      else if m = "A" then pure (toHex (u16To (bin2strAdd mod (u16From str) bin)))
      else if m = "S" then pure (toHex (u16To (bin2strSub mod (u16From str) bin))) else none
  | ["b32", k, b] => orBad do
      let k ← stepKey k
      let b ← fixedLen 24 b
      pure (toHex (b32Encr C (fmtKey k) b))
  | ["fmt", m, mod, k, iv, str] => orBad do
      let mod ← parseNat mod
      let k ← parseHex k
      let iv ← optBlk iv
      let str ← parseHex str
      if str.length % 2 ≠ 0 then none
      else
        let s := u16From str
        let r := if m = "E" then some (fmtEncr C mod s k iv) else if m = "D" then some (fmtDecr C mod s k iv) else none
        let r ← r
        pure (outHL (r.1, r.2.map u16To) str.length)
  | "fmtS" :: m :: mod :: count :: k :: rest => orBad do
      let mod ← parseNat mod
      let count ← parseNat count
      let k ← stepKey k
      let ps ← pairs rest
      if mod < 2 || mod > 65536 || count < 2 || count > 600 then none
      else
        let st := fmtStart mod count k
        let outs ← ps.mapM fun (iv, s) => do
          let iv ← optBlk iv
          let s ← parseHex s
          if s.length ≠ 2 * count then none
          else if m = "E" then pure (toHex (u16To (fmtStepE C st iv (u16From s))))
          else if m = "D" then pure (toHex (u16To (fmtStepD C st iv (u16From s)))) else none
        pure (join outs)
  | _ => "bad-op"

end Bee2V.C01.Drv

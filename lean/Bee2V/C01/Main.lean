import Bee2V.C01.Drv
/-- driver executable of area C01 (`drv_c01`) -/
def main : IO Unit := Bee2V.Proto.runLoop Bee2V.C01.Drv.handle

/-
C01 property theorems: format-preserving encryption (belt_fmt.c), the alphabet 65536 included.
Completes PropsFmt.lean (`fmtStepD_fmtStepE_partial` assumed `FmtLenOk`): the length fact about the
keyed half-round function is proved here for every cipher that maps 16-octet blocks to 16-octet blocks.
Helper lemmas: Lemmas/FmtLen.lean.
-/
import Bee2V.C01.Lemmas.FmtLen
namespace Bee2V.C01
open FmtLen

/-- `beltFMTCalcB(65536, count) = ceil(count / 4)`: for the alphabet 65536 the number of 64-bit blocks is
computed by the shortcut `(16 count + 63) / 64`; no entry of the table of special cases applies. -/
theorem calcB_65536_eq (count : Nat) : calcB 65536 count = (count + 3) / 4 := by
  rw [calcB_65536]; omega

example : calcB 65536 5 = 2 ∧ calcB 65536 300 = 75 := by decide +kernel

/-- For the alphabet 65536 the keyed function of a half-round (`beltStr2Bin`, append 4 octets of H and 4
octets of the IV image, encrypt with the block cipher / belt-32block / WBL according to `b`) returns
exactly `8 b + 8` octets whichever primitive is selected, for every half-word that fits into `b` blocks
and every offset `0, 4, …, 20` the rounds use.  This is the buffer bound `beltBin2StrAdd/Sub` rely on
when they read `count` u16 values from it. -/
theorem fmtF_length_65536 (C : Cipher) (hlen : ∀ k x, x.length = 16 → (C.enc k x).length = 16)
    (st : FmtSt) (hm : st.mod = 65536) (b : Nat) (str : List Nat) (off : Nat) (iv24 : Bytes)
    (hb1 : 1 ≤ b) (hs : str.length ≤ 4 * b) (hoff : off ≤ 20) (hiv : iv24.length = 24) :
    (fmtF C st b str off iv24).length = 8 * b + 8 :=
  length_fmtF C hlen st hm b str off iv24 hb1 (by omega) hoff hiv

/-- Item 1: the state made by `beltFMTStart(65536, count, key)` satisfies the length condition that
`fmtStepD_fmtStepE_partial` had to assume, at every offset the rounds use: both halves of the word get
at least as many u16 key values as they have symbols (`4 (b + 1) ≥ n`).  Every `count ≥ 2` (no upper
bound), every key, IV NULL or 16 octets.
(`FmtLenOk` itself quantifies over ALL offsets, also beyond H and the IV image where the buffer is
shorter than a block and nothing is known about `C.enc`: it is false for some ciphers, see the example
below; `FmtLenOk'` is the same statement for `off ≤ 20`.) -/
theorem fmtLenOk_start (C : Cipher) (hlen : ∀ k x, x.length = 16 → (C.enc k x).length = 16)
    (count : Nat) (hc : 2 ≤ count) (key : Bytes) (iv : Option Bytes) (hiv : ∀ v, iv = some v → v.length = 16) :
    FmtLenOk' C (fmtStart 65536 count key) (fmtIv (fmtStart 65536 count key) iv) :=
  fmtLenOk'_start C hlen count hc key iv hiv

/-- why the offsets are restricted: a cipher that is the identity on blocks and returns nothing on other
lengths satisfies `hlen` but not the unrestricted `FmtLenOk` (offset 300 is outside H and the IV image) -/
example : ∃ C : Cipher, (∀ k x, x.length = 16 → (C.enc k x).length = 16) ∧
    ¬ FmtLenOk C (fmtStart 65536 2 []) (fmtIv (fmtStart 65536 2 []) none) := by
  refine ⟨⟨fun _ x => if x.length = 16 then x else [], fun _ x => x⟩, ?_, ?_⟩
  · intro k x h; simp [h]
  · intro h
    have := (h rfl [0] 300).1 rfl
    revert this
    decide +kernel

/-- `beltFMTStepD` inverts `beltFMTStepE` for the alphabet 65536: every word length `count ≥ 2`, every
key, IV NULL or 16 octets, every word of u16 symbols; for every cipher that keeps the block length. -/
theorem fmtStepD_fmtStepE_65536 (C : Cipher) (hlen : ∀ k x, x.length = 16 → (C.enc k x).length = 16)
    (count : Nat) (hc : 2 ≤ count) (key : Bytes) (iv : Option Bytes) (hiv : ∀ v, iv = some v → v.length = 16)
    (buf : List Nat) (hl : buf.length = count) (hd : ∀ d ∈ buf, d < 65536) :
    fmtStepD C (fmtStart 65536 count key) iv (fmtStepE C (fmtStart 65536 count key) iv buf) = buf ∧
    (fmtStepE C (fmtStart 65536 count key) iv buf).length = count := by
  have hn : buf.length = (fmtStart 65536 count key).n1 + (fmtStart 65536 count key).n2 := by
    simp only [fmtStart]; omega
  have hF := fmtLenOk'_start C hlen count hc key iv hiv
  refine ⟨FmtLen.fmtStepD_fmtStepE C _ iv buf (by simp [fmtStart]) (by simp [fmtStart]) hn
    (by simpa [fmtStart] using hd) hF, ?_⟩
  rw [FmtLen.length_fmtStepE C _ iv buf hn hF, hl]

/-- `beltFMTStepD` inverts `beltFMTStepE` on the state made by `beltFMTStart` for EVERY alphabet
2 ≤ mod ≤ 65536 (the three Feistel rounds, all three primitives), and the word length is kept. -/
theorem fmtStepD_fmtStepE_full (C : Cipher) (hlen : ∀ k x, x.length = 16 → (C.enc k x).length = 16)
    (mod count : Nat) (hm2 : 2 ≤ mod) (hm : mod ≤ 65536) (hc : 2 ≤ count) (key : Bytes) (iv : Option Bytes)
    (hiv : ∀ v, iv = some v → v.length = 16) (buf : List Nat) (hl : buf.length = count) (hd : ∀ d ∈ buf, d < mod) :
    fmtStepD C (fmtStart mod count key) iv (fmtStepE C (fmtStart mod count key) iv buf) = buf ∧
    (fmtStepE C (fmtStart mod count key) iv buf).length = count := by
  by_cases h : mod = 65536
  · subst h
    exact fmtStepD_fmtStepE_65536 C hlen count hc key iv hiv buf hl hd
  · have hn : buf.length = (fmtStart mod count key).n1 + (fmtStart mod count key).n2 := by
      simp only [fmtStart]; omega
    have hlt : (fmtStart mod count key).mod < 65536 := by simp only [fmtStart]; omega
    refine ⟨Bee2V.C01.fmtStepD_fmtStepE C _ iv buf (by simpa [fmtStart] using hm2) hlt hn
      (by simpa [fmtStart] using hd), ?_⟩
    rw [Bee2V.C01.length_fmtStepE C _ iv buf hlt hn, hl]

/-- High level, full strength: `beltFMTDecr` inverts `beltFMTEncr` for EVERY alphabet 2 ≤ mod ≤ 65536
(the checks of `beltFMTEncr` guarantee the bounds), every word of 2..600 symbols of the alphabet, every
key of 16/24/32 octets and every IV (NULL or 16 octets): if encryption returns `ERR_OK` with `ct`, then
decryption of `ct` returns `ERR_OK` with the original word.  For every cipher that keeps the block length. -/
theorem fmtDecr_fmtEncr_full (C : Cipher) (hlen : ∀ k x, x.length = 16 → (C.enc k x).length = 16)
    (mod : Nat) (src ct : List Nat) (key : Bytes) (iv : Option Bytes)
    (hiv : ∀ v, iv = some v → v.length = 16) (hd : ∀ d ∈ src, d < mod)
    (h : fmtEncr C mod src key iv = (.ok, some ct)) : fmtDecr C mod ct key iv = (.ok, some src) := by
  simp only [fmtEncr] at h
  cases hc : fmtCheck mod src.length key.length with
  | some e =>
    rw [hc] at h
    simp only [Prod.mk.injEq, reduceCtorEq, and_false] at h
  | none =>
    rw [hc] at h
    simp only [Prod.mk.injEq, Option.some.injEq, true_and] at h
    have hb : 2 ≤ mod ∧ mod ≤ 65536 ∧ 2 ≤ src.length := by
      simp only [fmtCheck] at hc
      split at hc
      · simp at hc
      · rename_i h1
        simp only [Bool.or_eq_true, decide_eq_true_eq, not_or, Nat.not_lt] at h1
        omega
    obtain ⟨e1, e2⟩ := fmtStepD_fmtStepE_full C hlen mod src.length hb.1 hb.2.1 hb.2.2 key iv hiv src rfl hd
    have hl : ct.length = src.length := by rw [← h]; exact e2
    simp only [fmtDecr, hl, hc]
    rw [← h, e1]

/-- the ciphertext of `beltFMTEncr` is a word of the same length over the same alphabet -/
theorem fmtEncr_format (C : Cipher) (hlen : ∀ k x, x.length = 16 → (C.enc k x).length = 16)
    (mod : Nat) (src ct : List Nat) (key : Bytes) (iv : Option Bytes)
    (hiv : ∀ v, iv = some v → v.length = 16) (hd : ∀ d ∈ src, d < mod)
    (h : fmtEncr C mod src key iv = (.ok, some ct)) : ct.length = src.length ∧ ∀ d ∈ ct, d < mod := by
  simp only [fmtEncr] at h
  cases hc : fmtCheck mod src.length key.length with
  | some e =>
    rw [hc] at h
    simp only [Prod.mk.injEq, reduceCtorEq, and_false] at h
  | none =>
    rw [hc] at h
    simp only [Prod.mk.injEq, Option.some.injEq, true_and] at h
    have hb : 2 ≤ mod ∧ mod ≤ 65536 ∧ 2 ≤ src.length := by
      simp only [fmtCheck] at hc
      split at hc
      · simp at hc
      · rename_i h1
        simp only [Bool.or_eq_true, decide_eq_true_eq, not_or, Nat.not_lt] at h1
        omega
    obtain ⟨_, e2⟩ := fmtStepD_fmtStepE_full C hlen mod src.length hb.1 hb.2.1 hb.2.2 key iv hiv src rfl hd
    refine ⟨by rw [← h]; exact e2, ?_⟩
    rw [← h]
    simp only [fmtStepE]
    exact fmtRoundE_lt C _ _ 2 _ (by simpa [fmtStart] using hb.1)

/-- corollary for belt itself: `beltFMTDecr(beltFMTEncr(src)) = src` for every alphabet up to 65536 -/
theorem belt_fmtDecr_fmtEncr (mod : Nat) (src ct : List Nat) (key : Bytes) (iv : Option Bytes)
    (hiv : ∀ v, iv = some v → v.length = 16) (hd : ∀ d ∈ src, d < mod)
    (h : fmtEncr beltCipher mod src key iv = (.ok, some ct)) : fmtDecr beltCipher mod ct key iv = (.ok, some src) :=
  fmtDecr_fmtEncr_full beltCipher length_blockEncr mod src ct key iv hiv hd h

/-- corollary for belt itself: the keyed function returns `8 b + 8` octets -/
theorem belt_fmtLenOk_start (count : Nat) (hc : 2 ≤ count) (key : Bytes) (iv : Option Bytes)
    (hiv : ∀ v, iv = some v → v.length = 16) :
    FmtLenOk' beltCipher (fmtStart 65536 count key) (fmtIv (fmtStart 65536 count key) iv) :=
  fmtLenOk_start beltCipher length_blockEncr count hc key iv hiv

/-! ### non-vacuity: a word of 3 symbols over the alphabet 65536 with a toy cipher -/

/-- encryption succeeds and changes the word ... -/
example : ∃ ct, fmtEncr Wbl.toyCipher 65536 [1, 65535, 300] (List.replicate 16 1) none = (.ok, some ct) ∧
    ct ≠ [1, 65535, 300] := ⟨_, rfl, by decide +kernel⟩

/-- the concrete round trip, evaluated by the kernel -/
example : fmtEncr Wbl.toyCipher 65536 [1, 65535, 300] (List.replicate 16 1) none = (.ok, some [5489, 770, 9048]) ∧
    fmtDecr Wbl.toyCipher 65536 [5489, 770, 9048] (List.replicate 16 1) none = (.ok, some [1, 65535, 300]) := by
  decide +kernel

/-- ... and the theorem applies to it (all hypotheses are satisfiable) -/
example (ct : List Nat)
    (h : fmtEncr Wbl.toyCipher 65536 [1, 65535, 300] (List.replicate 16 1) none = (.ok, some ct)) :
    fmtDecr Wbl.toyCipher 65536 ct (List.replicate 16 1) none = (.ok, some [1, 65535, 300]) :=
  fmtDecr_fmtEncr_full Wbl.toyCipher Wbl.toyCipher_len 65536 _ ct _ none (fun _ h => nomatch h)
    (by decide) h

/-- the WBL branch (`b ≥ 3`: 9 symbols in the longer half) is reached too -/
example : (fmtStart 65536 18 []).b1 = 3 ∧ (fmtStart 65536 4 []).b1 = 1 ∧ (fmtStart 65536 12 []).b1 = 2 := by
  decide +kernel

end Bee2V.C01

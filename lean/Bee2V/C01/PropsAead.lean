/-
C01 property theorems: belt_dwp.c (DWP) and belt_che.c (CHE), authenticated encryption.
Only property theorems and non-vacuity examples; helper lemmas are in Lemmas/Aead.lean
(`dwpTag` / `cheTag` below: the tag the Wrap function outputs for a given ciphertext and open data).
All theorems hold for an arbitrary block cipher `C` whose `enc` maps 16 octets to 16 octets (DWP and CHE never
call `dec`), every word size `w` of `beltHalfBlockAddBitSizeW`, every key, and buffers of every length.
-/
import Bee2V.C01.Lemmas.Aead
namespace Bee2V.C01
open Aead

/-- a toy cipher for the non-vacuity examples (kernel-evaluable in no time) -/
def aeadToyCipher : Cipher := ⟨fun _ x => x.map (· + 1), fun _ x => x.map (· - 1)⟩

/-- The tag `beltDWPWrap` outputs when the ciphertext is `ct` and the open data is `ad`:
Start, StepI(ad), StepA(ct), StepG. -/
def dwpTag (C : Cipher) (w : Nat) (ct ad key iv : Bytes) : Bytes :=
  (dwpStepG C (dwpStepA w (dwpStepI w (dwpStart C key iv) ad) ct)).2

/-- The tag `beltCHEWrap` outputs when the ciphertext is `ct` and the open data is `ad`. -/
def cheTag (C : Cipher) (w : Nat) (ct ad key iv : Bytes) : Bytes :=
  (cheStepG C (cheStepA w (cheStepI w (cheStart C key iv) ad) ct)).2

/-! ### the keystream steps are involutions -/

/-- `beltCTRStepE` (used by `beltDWPStepE` / `beltDWPStepD`) applied twice FROM THE SAME STATE returns the input:
the reserve of gamma, the full-block loop (`beltBlockIncU32(ctr); block <- E(ctr); buf ^= block`) and the ragged
tail consume exactly the same gamma octets in both passes -- for every buffer length and every amount
`reserved ≤ 16` of unused gamma in the state. -/
theorem dwp_keystream_involution (C : Cipher) (hlen : ∀ k x, x.length = 16 → (C.enc k x).length = 16) (st : CtrSt)
    (buf : Bytes) (hr : st.reserved ≤ 16) (hb : st.block.length = 16) (hc : st.ctr.length = 16) :
    (ctrStepE C st (ctrStepE C st buf).2).2 = buf := ctrStepE_invol' C hlen st buf hr hb hc

/-- The same for `beltCHEStepE` / `beltCHEStepD` (gamma blocks `E(s)`, `s <- s * C ^ 1`). -/
theorem cheStepE_involution (C : Cipher) (hlen : ∀ k x, x.length = 16 → (C.enc k x).length = 16) (st : CheSt)
    (buf : Bytes) (hr : st.reserved ≤ 16) (hb : st.block1.length = 16) (hc : st.s.length = 16) :
    (cheStepE C st (cheStepE C st buf).2).2 = buf := cheStepE_invol' C hlen st buf hr hb hc

/-- non-vacuity: a state with 5 octets of reserved gamma, a 40-octet buffer (reserve + 2 blocks + 3 octets),
and the step is not the identity -/
example :
    let st : CtrSt := ⟨zeros 32, zeros 16, (List.range 16).map UInt8.ofNat, 5⟩
    let buf : Bytes := (List.range 40).map UInt8.ofNat
    (ctrStepE aeadToyCipher st (ctrStepE aeadToyCipher st buf).2).2 = buf ∧ (ctrStepE aeadToyCipher st buf).2 ≠ buf := by
  decide +kernel

example :
    let st : CheSt := ⟨zeros 32, zeros 16, ⟨[], [], [], [], [], 0⟩, (List.range 16).map UInt8.ofNat, 5⟩
    let buf : Bytes := (List.range 40).map UInt8.ofNat
    (cheStepE aeadToyCipher st (cheStepE aeadToyCipher st buf).2).2 = buf ∧ (cheStepE aeadToyCipher st buf).2 ≠ buf := by
  decide +kernel

/-! ### DWP -/

/-- `beltDWPWrap`: fails with ERR_BAD_INPUT exactly on a bad key length without producing output; otherwise the
ciphertext is the CTR encryption of `src1` (the open data and the MAC computation do not influence it), and the tag
is a function of the CIPHERTEXT and the open data only (encrypt-then-MAC: the tag is `dwpTag` of what was
written to `dest`, not of the plaintext). -/
theorem dwpWrap_spec (C : Cipher) (w : Nat) (src1 src2 key iv : Bytes) :
    dwpWrap C w src1 src2 key iv =
      if !validKeyLen key.length then (.badInput, none)
      else (.ok, some ((ctrStepE C (ctrStart C key iv) src1).2,
        dwpTag C w (ctrStepE C (ctrStart C key iv) src1).2 src2 key iv)) := dwpWrap_eq C w src1 src2 key iv

/-- `beltDWPUnwrap`, complete case analysis: ERR_BAD_INPUT (nothing written) on a bad key length; ERR_BAD_MAC and
`none` -- the destination is never written, no plaintext octet is released -- unless `mac` is exactly the tag
Wrap computes for this ciphertext / open data / key / iv; and in that case the output is the CTR decryption of the
ciphertext started from the initial counter (the MAC pass does not disturb the CTR state). -/
theorem dwpUnwrap_spec (C : Cipher) (w : Nat) (ct ad mac key iv : Bytes) :
    dwpUnwrap C w ct ad mac key iv =
      if !validKeyLen key.length then (.badInput, none)
      else if mac = dwpTag C w ct ad key iv then (.ok, some (ctrStepE C (ctrStart C key iv) ct).2)
      else (.badMac, none) := dwpUnwrap_eq C w ct ad mac key iv

/-- `beltDWPUnwrap` returns ERR_OK iff the presented tag equals the recomputed one (valid key length). -/
theorem dwpUnwrap_ok_iff (C : Cipher) (w : Nat) (ct ad mac key iv : Bytes) (hk : validKeyLen key.length = true) :
    (dwpUnwrap C w ct ad mac key iv).1 = .ok ↔ mac = dwpTag C w ct ad key iv := by
  rw [dwpUnwrap_spec]
  simp only [hk, Bool.not_true, Bool.false_eq_true, if_false]
  by_cases hm : mac = dwpTag C w ct ad key iv
  · rw [if_pos hm]; exact ⟨fun _ => hm, fun _ => rfl⟩
  · rw [if_neg hm]; exact ⟨fun h => Err.noConfusion h, fun h => absurd h hm⟩

/-- A wrong tag yields exactly `(ERR_BAD_MAC, dest untouched)`. -/
theorem dwpUnwrap_badMac (C : Cipher) (w : Nat) (ct ad mac key iv : Bytes) (hk : validKeyLen key.length = true)
    (hm : mac ≠ dwpTag C w ct ad key iv) : dwpUnwrap C w ct ad mac key iv = (.badMac, none) := by
  rw [dwpUnwrap_spec]
  simp only [hk, Bool.not_true, Bool.false_eq_true, if_false, if_neg hm]

/-- `beltDWPUnwrap` reports ERR_BAD_INPUT iff the key length is not 16, 24 or 32, and then writes nothing. -/
theorem dwpUnwrap_badInput_iff (C : Cipher) (w : Nat) (ct ad mac key iv : Bytes) :
    ((dwpUnwrap C w ct ad mac key iv).1 = .badInput ↔ validKeyLen key.length = false) ∧
    ((dwpUnwrap C w ct ad mac key iv).1 = .badInput → dwpUnwrap C w ct ad mac key iv = (.badInput, none)) := by
  rw [dwpUnwrap_spec]
  cases hk : validKeyLen key.length
  · simp only [Bool.not_false, if_true, and_self, imp_self]
  · by_cases hm : mac = dwpTag C w ct ad key iv
    · simp only [Bool.not_true, Bool.false_eq_true, if_false, if_pos hm, reduceCtorEq, false_imp_iff, and_self]
    · simp only [Bool.not_true, Bool.false_eq_true, if_false, if_neg hm, reduceCtorEq, false_imp_iff, and_self]

/-- Correctness of DWP: whatever `beltDWPWrap` produced (for every plaintext, open data, 16-octet iv and key),
`beltDWPUnwrap` accepts and returns the plaintext. -/
theorem dwpUnwrap_dwpWrap (C : Cipher) (hlen : ∀ k x, x.length = 16 → (C.enc k x).length = 16) (w : Nat)
    (src1 src2 key iv ct tag : Bytes) (hiv : iv.length = 16)
    (hw : dwpWrap C w src1 src2 key iv = (.ok, some (ct, tag))) :
    dwpUnwrap C w ct src2 tag key iv = (.ok, some src1) := by
  rw [dwpWrap_spec] at hw
  rw [dwpUnwrap_spec]
  cases hk : validKeyLen key.length
  · simp only [hk, Bool.not_false, if_true, Prod.mk.injEq, reduceCtorEq, false_and] at hw
  · simp only [hk, Bool.not_true, Bool.false_eq_true, if_false, Prod.mk.injEq, true_and, Option.some.injEq] at hw ⊢
    rcases hw with ⟨h1, h2⟩
    rw [h1] at h2
    rw [if_pos h2.symm, ← h1]
    have := ctrStepE_invol' C hlen (ctrStart C key iv) src1 (Nat.zero_le _) rfl (hlen _ _ hiv)
    rw [this]

/-- ... and a tag different from the one Wrap produced is rejected with the destination untouched. -/
theorem dwpUnwrap_dwpWrap_wrong_tag (C : Cipher) (w : Nat) (src1 src2 key iv ct tag mac : Bytes)
    (hw : dwpWrap C w src1 src2 key iv = (.ok, some (ct, tag))) (hm : mac ≠ tag) :
    dwpUnwrap C w ct src2 mac key iv = (.badMac, none) := by
  rw [dwpWrap_spec] at hw
  cases hk : validKeyLen key.length
  · simp only [hk, Bool.not_false, if_true, Prod.mk.injEq, reduceCtorEq, false_and] at hw
  · simp only [hk, Bool.not_true, Bool.false_eq_true, if_false, Prod.mk.injEq, true_and, Option.some.injEq] at hw
    rcases hw with ⟨h1, h2⟩
    rw [h1] at h2
    exact dwpUnwrap_badMac C w ct src2 mac key iv hk (by rw [h2]; exact hm)

/-- non-vacuity: Wrap succeeds, changes the data, Unwrap restores it; a flipped tag bit, a flipped ciphertext bit
and a changed open-data octet are all rejected without output; a 17-octet key is ERR_BAD_INPUT -/
example : dwpWrap aeadToyCipher 64 [1, 2, 3] [9] (zeros 16) (zeros 16)
    = (.ok, some ([2, 0, 1], [11, 165, 224, 242, 12, 0, 237, 121])) := by decide +kernel
example : dwpUnwrap aeadToyCipher 64 [2, 0, 1] [9] [11, 165, 224, 242, 12, 0, 237, 121] (zeros 16) (zeros 16)
    = (.ok, some [1, 2, 3]) := by decide +kernel
example : dwpUnwrap aeadToyCipher 64 [2, 0, 1] [9] [10, 165, 224, 242, 12, 0, 237, 121] (zeros 16) (zeros 16)
    = (.badMac, none) := by decide +kernel
example : dwpUnwrap aeadToyCipher 64 [2, 0, 0] [9] [11, 165, 224, 242, 12, 0, 237, 121] (zeros 16) (zeros 16)
    = (.badMac, none) := by decide +kernel
example : dwpUnwrap aeadToyCipher 64 [2, 0, 1] [8] [11, 165, 224, 242, 12, 0, 237, 121] (zeros 16) (zeros 16)
    = (.badMac, none) := by decide +kernel
example : dwpUnwrap aeadToyCipher 64 [2, 0, 1] [9] [11, 165, 224, 242, 12, 0, 237, 121] (zeros 17) (zeros 16)
    = (.badInput, none) := by decide +kernel

/-! ### CHE -/

/-- `beltCHEWrap`: as `dwpWrap_spec`, with the CHE keystream. -/
theorem cheWrap_spec (C : Cipher) (w : Nat) (src1 src2 key iv : Bytes) :
    cheWrap C w src1 src2 key iv =
      if !validKeyLen key.length then (.badInput, none)
      else (.ok, some ((cheStepE C (cheStart C key iv) src1).2,
        cheTag C w (cheStepE C (cheStart C key iv) src1).2 src2 key iv)) := cheWrap_eq C w src1 src2 key iv

/-- `beltCHEUnwrap`, complete case analysis (see `dwpUnwrap_spec`): nothing is decrypted unless the tag matches. -/
theorem cheUnwrap_spec (C : Cipher) (w : Nat) (ct ad mac key iv : Bytes) :
    cheUnwrap C w ct ad mac key iv =
      if !validKeyLen key.length then (.badInput, none)
      else if mac = cheTag C w ct ad key iv then (.ok, some (cheStepE C (cheStart C key iv) ct).2)
      else (.badMac, none) := cheUnwrap_eq C w ct ad mac key iv

theorem cheUnwrap_ok_iff (C : Cipher) (w : Nat) (ct ad mac key iv : Bytes) (hk : validKeyLen key.length = true) :
    (cheUnwrap C w ct ad mac key iv).1 = .ok ↔ mac = cheTag C w ct ad key iv := by
  rw [cheUnwrap_spec]
  simp only [hk, Bool.not_true, Bool.false_eq_true, if_false]
  by_cases hm : mac = cheTag C w ct ad key iv
  · rw [if_pos hm]; exact ⟨fun _ => hm, fun _ => rfl⟩
  · rw [if_neg hm]; exact ⟨fun h => Err.noConfusion h, fun h => absurd h hm⟩

theorem cheUnwrap_badMac (C : Cipher) (w : Nat) (ct ad mac key iv : Bytes) (hk : validKeyLen key.length = true)
    (hm : mac ≠ cheTag C w ct ad key iv) : cheUnwrap C w ct ad mac key iv = (.badMac, none) := by
  rw [cheUnwrap_spec]
  simp only [hk, Bool.not_true, Bool.false_eq_true, if_false, if_neg hm]

theorem cheUnwrap_badInput_iff (C : Cipher) (w : Nat) (ct ad mac key iv : Bytes) :
    ((cheUnwrap C w ct ad mac key iv).1 = .badInput ↔ validKeyLen key.length = false) ∧
    ((cheUnwrap C w ct ad mac key iv).1 = .badInput → cheUnwrap C w ct ad mac key iv = (.badInput, none)) := by
  rw [cheUnwrap_spec]
  cases hk : validKeyLen key.length
  · simp only [Bool.not_false, if_true, and_self, imp_self]
  · by_cases hm : mac = cheTag C w ct ad key iv
    · simp only [Bool.not_true, Bool.false_eq_true, if_false, if_pos hm, reduceCtorEq, false_imp_iff, and_self]
    · simp only [Bool.not_true, Bool.false_eq_true, if_false, if_neg hm, reduceCtorEq, false_imp_iff, and_self]

/-- Correctness of CHE: `beltCHEUnwrap` accepts whatever `beltCHEWrap` produced and returns the plaintext. -/
theorem cheUnwrap_cheWrap (C : Cipher) (hlen : ∀ k x, x.length = 16 → (C.enc k x).length = 16) (w : Nat)
    (src1 src2 key iv ct tag : Bytes) (hiv : iv.length = 16)
    (hw : cheWrap C w src1 src2 key iv = (.ok, some (ct, tag))) :
    cheUnwrap C w ct src2 tag key iv = (.ok, some src1) := by
  rw [cheWrap_spec] at hw
  rw [cheUnwrap_spec]
  cases hk : validKeyLen key.length
  · simp only [hk, Bool.not_false, if_true, Prod.mk.injEq, reduceCtorEq, false_and] at hw
  · simp only [hk, Bool.not_true, Bool.false_eq_true, if_false, Prod.mk.injEq, true_and, Option.some.injEq] at hw ⊢
    rcases hw with ⟨h1, h2⟩
    rw [h1] at h2
    rw [if_pos h2.symm, ← h1]
    have := cheStepE_invol' C hlen (cheStart C key iv) src1 (Nat.zero_le _) rfl (hlen _ _ hiv)
    rw [this]

theorem cheUnwrap_cheWrap_wrong_tag (C : Cipher) (w : Nat) (src1 src2 key iv ct tag mac : Bytes)
    (hw : cheWrap C w src1 src2 key iv = (.ok, some (ct, tag))) (hm : mac ≠ tag) :
    cheUnwrap C w ct src2 mac key iv = (.badMac, none) := by
  rw [cheWrap_spec] at hw
  cases hk : validKeyLen key.length
  · simp only [hk, Bool.not_false, if_true, Prod.mk.injEq, reduceCtorEq, false_and] at hw
  · simp only [hk, Bool.not_true, Bool.false_eq_true, if_false, Prod.mk.injEq, true_and, Option.some.injEq] at hw
    rcases hw with ⟨h1, h2⟩
    rw [h1] at h2
    exact cheUnwrap_badMac C w ct src2 mac key iv hk (by rw [h2]; exact hm)

example : cheWrap aeadToyCipher 64 [1, 2, 3] [9] (zeros 16) (zeros 16)
    = (.ok, some ([5, 1, 0], [227, 16, 64, 166, 230, 69, 26, 149])) := by decide +kernel
example : cheUnwrap aeadToyCipher 64 [5, 1, 0] [9] [227, 16, 64, 166, 230, 69, 26, 149] (zeros 16) (zeros 16)
    = (.ok, some [1, 2, 3]) := by decide +kernel
example : cheUnwrap aeadToyCipher 64 [5, 1, 0] [9] [227, 16, 64, 166, 230, 69, 26, 148] (zeros 16) (zeros 16)
    = (.badMac, none) := by decide +kernel
example : cheUnwrap aeadToyCipher 64 [5, 1, 0] [9] [227, 16, 64, 166, 230, 69, 26, 149] [] (zeros 16)
    = (.badInput, none) := by decide +kernel

/-! ### tag length, word size -/

/-- The tag is always 8 octets (`beltDWPStepG` copies 8 octets of `E(t)`), so `beltDWPUnwrap` can only succeed
for an 8-octet `mac`. -/
theorem dwpTag_length (C : Cipher) (hlen : ∀ k x, x.length = 16 → (C.enc k x).length = 16) (w : Nat)
    (ct ad key iv : Bytes) : (dwpTag C w ct ad key iv).length = 8 := length_dwpTag' C hlen w ct ad key iv

theorem cheTag_length (C : Cipher) (hlen : ∀ k x, x.length = 16 → (C.enc k x).length = 16) (w : Nat)
    (ct ad key iv : Bytes) : (cheTag C w ct ad key iv).length = 8 := length_cheTag' C hlen w ct ad key iv

/-- The DWP tag, and hence the verdict and output of `beltDWPUnwrap`, does not depend on the word size `B_PER_W`
of the build (the three `#if` variants of `beltHalfBlockAddBitSizeW` agree, PropsLcl.lean) as long as the lengths
fit a 64-bit size_t. -/
theorem dwpTag_word_size_independent (C : Cipher) (w : Nat) (ct ad key iv : Bytes) (hct : ct.length < 2 ^ 64)
    (had : ad.length < 2 ^ 64) : dwpTag C w ct ad key iv = dwpTag C 64 ct ad key iv := dwpTag'_w C w ct ad key iv hct had

theorem cheTag_word_size_independent (C : Cipher) (w : Nat) (ct ad key iv : Bytes) (hct : ct.length < 2 ^ 64)
    (had : ad.length < 2 ^ 64) : cheTag C w ct ad key iv = cheTag C 64 ct ad key iv := cheTag'_w C w ct ad key iv hct had

theorem dwpUnwrap_word_size_independent (C : Cipher) (w : Nat) (ct ad mac key iv : Bytes) (hct : ct.length < 2 ^ 64)
    (had : ad.length < 2 ^ 64) : dwpUnwrap C w ct ad mac key iv = dwpUnwrap C 64 ct ad mac key iv := by
  rw [dwpUnwrap_spec, dwpUnwrap_spec, dwpTag_word_size_independent C w ct ad key iv hct had]

theorem cheUnwrap_word_size_independent (C : Cipher) (w : Nat) (ct ad mac key iv : Bytes) (hct : ct.length < 2 ^ 64)
    (had : ad.length < 2 ^ 64) : cheUnwrap C w ct ad mac key iv = cheUnwrap C 64 ct ad mac key iv := by
  rw [cheUnwrap_spec, cheUnwrap_spec, cheTag_word_size_independent C w ct ad key iv hct had]

/-- `beltDWPWrap` produces a ciphertext of the length of the plaintext and the same (ciphertext, tag) on 16-, 32-
and 64-bit-word builds. -/
theorem dwpWrap_word_size_independent (C : Cipher) (hlen : ∀ k x, x.length = 16 → (C.enc k x).length = 16) (w : Nat)
    (src1 src2 key iv : Bytes) (hiv : iv.length = 16) (h1 : src1.length < 2 ^ 64) (h2 : src2.length < 2 ^ 64) :
    dwpWrap C w src1 src2 key iv = dwpWrap C 64 src1 src2 key iv := by
  have hl := length_ctrStepE C hlen (ctrStart C key iv) src1 (Nat.zero_le _) rfl (hlen _ _ hiv)
  rw [dwpWrap_spec, dwpWrap_spec, dwpTag_word_size_independent C w _ src2 key iv (by rw [hl]; exact h1) h2]

theorem cheWrap_word_size_independent (C : Cipher) (hlen : ∀ k x, x.length = 16 → (C.enc k x).length = 16) (w : Nat)
    (src1 src2 key iv : Bytes) (hiv : iv.length = 16) (h1 : src1.length < 2 ^ 64) (h2 : src2.length < 2 ^ 64) :
    cheWrap C w src1 src2 key iv = cheWrap C 64 src1 src2 key iv := by
  have hl := length_cheStepE C hlen (cheStart C key iv) src1 (Nat.zero_le _) rfl (hlen _ _ hiv)
  rw [cheWrap_spec, cheWrap_spec, cheTag_word_size_independent C w _ src2 key iv (by rw [hl]; exact h1) h2]

example : dwpWrap aeadToyCipher 32 [1, 2, 3] [9] (zeros 16) (zeros 16)
    = (.ok, some ([2, 0, 1], [11, 165, 224, 242, 12, 0, 237, 121])) := by decide +kernel
example : cheWrap aeadToyCipher 16 [1, 2, 3] [9] (zeros 16) (zeros 16)
    = (.ok, some ([5, 1, 0], [227, 16, 64, 166, 230, 69, 26, 149])) := by decide +kernel

/-! ### the real cipher -/

/-- `beltDWPUnwrap(beltDWPWrap(x))` returns `x`, for the belt block cipher. -/
theorem belt_dwpUnwrap_dwpWrap (w : Nat) (src1 src2 key iv ct tag : Bytes) (hiv : iv.length = 16)
    (hw : dwpWrap beltCipher w src1 src2 key iv = (.ok, some (ct, tag))) :
    dwpUnwrap beltCipher w ct src2 tag key iv = (.ok, some src1) :=
  dwpUnwrap_dwpWrap beltCipher (fun k x h => length_blockEncr k x h) w src1 src2 key iv ct tag hiv hw

/-- `beltCHEUnwrap(beltCHEWrap(x))` returns `x`, for the belt block cipher. -/
theorem belt_cheUnwrap_cheWrap (w : Nat) (src1 src2 key iv ct tag : Bytes) (hiv : iv.length = 16)
    (hw : cheWrap beltCipher w src1 src2 key iv = (.ok, some (ct, tag))) :
    cheUnwrap beltCipher w ct src2 tag key iv = (.ok, some src1) :=
  cheUnwrap_cheWrap beltCipher (fun k x h => length_blockEncr k x h) w src1 src2 key iv ct tag hiv hw

/-- belt-dwp / belt-che release plaintext only for the right tag. -/
theorem belt_dwpUnwrap_ok_iff (w : Nat) (ct ad mac key iv : Bytes) (hk : validKeyLen key.length = true) :
    (dwpUnwrap beltCipher w ct ad mac key iv).1 = .ok ↔ mac = dwpTag beltCipher w ct ad key iv :=
  dwpUnwrap_ok_iff beltCipher w ct ad mac key iv hk

theorem belt_cheUnwrap_ok_iff (w : Nat) (ct ad mac key iv : Bytes) (hk : validKeyLen key.length = true) :
    (cheUnwrap beltCipher w ct ad mac key iv).1 = .ok ↔ mac = cheTag beltCipher w ct ad key iv :=
  cheUnwrap_ok_iff beltCipher w ct ad mac key iv hk

/-- non-vacuity with the real cipher -/
example : (dwpWrap beltCipher 64 [1, 2, 3] [9] (zeros 16) (zeros 16)).1 = .ok := by decide +kernel

end Bee2V.C01

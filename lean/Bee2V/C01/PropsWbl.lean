/-
C01 property theorems: belt_wbl.c (wide-block cipher), belt_kwp.c (key wrap), belt_sde.c (sector encryption).
Only property theorems and non-vacuity examples; helper lemmas are in Lemmas/Wbl.lean.
All mode theorems hold for an ARBITRARY cipher `C`: WBL only ever calls `C.enc`, so the only
hypothesis is that `enc` maps 16-octet blocks to 16-octet blocks.
-/
import Bee2V.C01.Lemmas.Wbl
import Bee2V.C01.Lemmas.Block
namespace Bee2V.C01
open Wbl

/-! ### 1. one round -/

/-- One iteration of the for-loop of `beltWBLStepDBase` with round number `round + 1` undoes one
iteration of the do-loop of `beltWBLStepEBase` entered with `st->round = round`, for EVERY buffer of at
least 32 octets (also when `count` is not a multiple of 16, where the blocks r_{n-1} and r* overlap)
and every key. -/
theorem wblRoundDBase_wblRoundEBase (C : Cipher) (hlen : ∀ k x, x.length = 16 → (C.enc k x).length = 16)
    (key buf : Bytes) (round : Nat) (h : 32 ≤ buf.length) :
    wblRoundDBase C key (wblRoundEBase C key buf round).1 (round + 1) = buf :=
  roundD_roundE C hlen key buf h round

/-- An E round keeps `count` and increments `st->round`. -/
theorem wblRoundEBase_length (C : Cipher) (hlen : ∀ k x, x.length = 16 → (C.enc k x).length = 16)
    (key buf : Bytes) (round : Nat) (h : 32 ≤ buf.length) :
    (wblRoundEBase C key buf round).1.length = buf.length ∧ (wblRoundEBase C key buf round).2 = round + 1 :=
  length_roundE C hlen key buf h round

/-- A D round keeps `count`. -/
theorem wblRoundDBase_length (C : Cipher) (hlen : ∀ k x, x.length = 16 → (C.enc k x).length = 16)
    (key buf : Bytes) (round : Nat) (h : 32 ≤ buf.length) :
    (wblRoundDBase C key buf round).length = buf.length :=
  length_roundD C hlen key buf h round

example : (wblRoundEBase toyCipher [] (List.replicate 40 7) 0).1 ≠ List.replicate 40 7 := by decide +kernel
example : wblRoundDBase toyCipher [] (wblRoundEBase toyCipher [] (List.replicate 40 7) 0).1 1
    = List.replicate 40 7 := by decide +kernel

/-! ### 2. the whole wide block -/

/-- `beltWBLStepDBase` inverts `beltWBLStepEBase` (entered with `st->round = 0`, as `beltWBLStepE` does)
on every buffer of at least 32 octets, of any length. -/
theorem wblStepDBase_wblStepEBase (C : Cipher) (hlen : ∀ k x, x.length = 16 → (C.enc k x).length = 16)
    (key buf : Bytes) (h : 32 ≤ buf.length) :
    (wblStepDBase C key (wblStepEBase C key buf 0).1).1 = buf :=
  (stepE_spec C hlen key buf h).2.2

/-- `beltWBLStepEBase` runs exactly the rounds 1..2n (the do-loop leaves with `st->round = 2n`,
n = ceil(count/16)) and keeps `count`. -/
theorem wblStepEBase_round (C : Cipher) (hlen : ∀ k x, x.length = 16 → (C.enc k x).length = 16)
    (key buf : Bytes) (h : 32 ≤ buf.length) :
    (wblStepEBase C key buf 0).2 = 2 * wblN buf.length ∧ (wblStepEBase C key buf 0).1.length = buf.length :=
  ⟨(stepE_spec C hlen key buf h).1, (stepE_spec C hlen key buf h).2.1⟩

/-- `beltWBLStepDBase` keeps `count` and leaves `st->round = 0`. -/
theorem wblStepDBase_length (C : Cipher) (hlen : ∀ k x, x.length = 16 → (C.enc k x).length = 16)
    (key buf : Bytes) (h : 32 ≤ buf.length) :
    (wblStepDBase C key buf).1.length = buf.length ∧ (wblStepDBase C key buf).2 = 0 :=
  ⟨length_stepD C hlen key buf h, rfl⟩

example : (wblStepEBase toyCipher [] (List.replicate 40 7) 0).1 ≠ List.replicate 40 7 := by decide +kernel
example : (wblStepEBase toyCipher [] (List.replicate 40 7) 0).2 = 6 := by decide +kernel

/-! ### 3. beltWBLStepD2 -/

/-- One round of `beltWBLStepD2` on the split buffer (`buf1` = all but the last 16 octets, `buf2` = the
last 16 octets) computes the same octets as one round of `beltWBLStepDBase` on `buf1 ‖ buf2`: the loop
with `i + 32 < count` plus the two partial `memXor2` is the loop with `i + 16 < count`. -/
theorem wblRoundD2_eq_wblRoundDBase (C : Cipher) (hlen : ∀ k x, x.length = 16 → (C.enc k x).length = 16)
    (key buf1 buf2 : Bytes) (round : Nat) (h1 : 16 ≤ buf1.length) (h2 : buf2.length = 16) :
    (wblRoundD2 C key (buf1, buf2) round).1 ++ (wblRoundD2 C key (buf1, buf2) round).2
      = wblRoundDBase C key (buf1 ++ buf2) round ∧
    (wblRoundD2 C key (buf1, buf2) round).1.length = buf1.length ∧
    (wblRoundD2 C key (buf1, buf2) round).2.length = 16 :=
  roundD2_spec C hlen key buf1 buf2 h1 h2 round

/-- `beltWBLStepD2(buf1, buf2, count, state)` (the function `beltKWPUnwrap` uses) leaves in `buf1`, `buf2`
exactly the first `count - 16` and the last 16 octets of what `beltWBLStepDBase` computes on the whole
buffer, and `st->round = 0`; for every `count ≥ 32`. -/
theorem wblStepD2_eq_wblStepDBase (C : Cipher) (hlen : ∀ k x, x.length = 16 → (C.enc k x).length = 16)
    (key buf : Bytes) (h : 32 ≤ buf.length) :
    wblStepD2 C key (buf.take (buf.length - 16)) (buf.drop (buf.length - 16)) =
      ((wblStepDBase C key buf).1.take (buf.length - 16), (wblStepDBase C key buf).1.drop (buf.length - 16), 0) :=
  stepD2_split C hlen key buf h

example : (wblStepD2 toyCipher [] (List.replicate 21 7) (List.replicate 16 9)).1 ≠ List.replicate 21 7 := by
  decide +kernel

/-! ### 4. KWP -/

/-- (4b) Complete description of `beltKWPUnwrap` for ANY token, header and key:
`ERR_BAD_INPUT` with `dest` untouched iff `count < 32` or the key length is not 16/24/32; otherwise the
token is decrypted by the wide-block cipher and `ERR_OK` is returned with the first `count - 16` octets
iff the last 16 decrypted octets equal the header (zeros for a NULL header); in every other case the
result is `ERR_BAD_KEYTOKEN` and `dest` holds `count - 16` zero octets, never the decrypted key. -/
theorem kwpUnwrap_spec (C : Cipher) (hlen : ∀ k x, x.length = 16 → (C.enc k x).length = 16)
    (tok : Bytes) (header : Option Bytes) (key : Bytes) :
    kwpUnwrap C tok header key =
      if tok.length < 32 ∨ validKeyLen key.length = false then (.badInput, none)
      else if (wblStepDBase C (fmtKey key) tok).1.drop (tok.length - 16) = header.getD (zeros 16)
        then (.ok, some ((wblStepDBase C (fmtKey key) tok).1.take (tok.length - 16)))
        else (.badKeytoken, some (zeros (tok.length - 16))) :=
  kwpUnwrap_char C hlen tok header key

/-- On every failure of `beltKWPUnwrap` the destination is either untouched or all zeros. -/
theorem kwpUnwrap_fail_zero (C : Cipher) (hlen : ∀ k x, x.length = 16 → (C.enc k x).length = 16)
    (tok : Bytes) (header : Option Bytes) (key : Bytes) (h : (kwpUnwrap C tok header key).1 ≠ .ok) :
    (kwpUnwrap C tok header key).2 = none ∨ (kwpUnwrap C tok header key).2 = some (zeros (tok.length - 16)) := by
  rw [kwpUnwrap_spec C hlen] at h ⊢
  split
  · exact Or.inl rfl
  · rename_i hc
    rw [if_neg hc] at h
    split
    · rename_i hd; rw [if_pos hd] at h; exact absurd rfl h
    · exact Or.inr rfl

/-- `beltKWPUnwrap` returns `ERR_BAD_INPUT` iff the token is shorter than 32 octets or the key length is
not 16/24/32; in that case `dest` is untouched. -/
theorem kwpUnwrap_badInput_iff (C : Cipher) (hlen : ∀ k x, x.length = 16 → (C.enc k x).length = 16)
    (tok : Bytes) (header : Option Bytes) (key : Bytes) :
    ((kwpUnwrap C tok header key).1 = .badInput ↔ (tok.length < 32 ∨ validKeyLen key.length = false)) ∧
    ((kwpUnwrap C tok header key).1 = .badInput → (kwpUnwrap C tok header key).2 = none) := by
  rw [kwpUnwrap_spec C hlen]
  by_cases hc : tok.length < 32 ∨ validKeyLen key.length = false
  · rw [if_pos hc]; exact ⟨⟨fun _ => hc, fun _ => rfl⟩, fun _ => rfl⟩
  · rw [if_neg hc]
    split
    · exact ⟨⟨fun h => Err.noConfusion h, fun h => absurd h hc⟩, fun h => Err.noConfusion h⟩
    · exact ⟨⟨fun h => Err.noConfusion h, fun h => absurd h hc⟩, fun h => Err.noConfusion h⟩

/-! ### 5. the optimised editions compute the same function -/

/-- `beltWBLStepEOpt` (buffer kept in place as a circular list of blocks, running sum updated with two
block xors per round) returns the same buffer and the same `st->round` as `beltWBLStepEBase`, for every
buffer that consists of at least two whole blocks and every key.  (`beltWBLStepE` selects it for
`count % 16 = 0 ∧ count ≥ 64`.) -/
theorem wblStepEOpt_eq_wblStepEBase (C : Cipher) (hlen : ∀ k x, x.length = 16 → (C.enc k x).length = 16)
    (key buf : Bytes) (h16 : buf.length % 16 = 0) (h32 : 32 ≤ buf.length) :
    wblStepEOpt C key buf 0 = wblStepEBase C key buf 0 :=
  stepEOpt_eq_Base C hlen key buf h16 h32

/-- `beltWBLStepDOpt` returns the same buffer as `beltWBLStepDBase` for every buffer that consists of at
least three whole blocks.  (`beltWBLStepD` selects it for `count % 16 = 0 ∧ count ≥ 80`; for exactly two
blocks the initial sum of `beltWBLStepDOpt` would be wrong, which is why the bound 48 is needed.) -/
theorem wblStepDOpt_eq_wblStepDBase (C : Cipher) (hlen : ∀ k x, x.length = 16 → (C.enc k x).length = 16)
    (key buf : Bytes) (h16 : buf.length % 16 = 0) (h48 : 48 ≤ buf.length) :
    wblStepDOpt C key buf = wblStepDBase C key buf :=
  stepDOpt_eq_Base C hlen key buf h16 h48

example : wblStepEOpt toyCipher [] (List.replicate 64 7) 0 ≠ (List.replicate 64 7, 0) := by decide +kernel
/-- the bound 48 in `wblStepDOpt_eq_wblStepDBase` is sharp: the two editions differ on two blocks -/
example : wblStepDOpt toyCipher [] (List.replicate 32 7) ≠ wblStepDBase toyCipher [] (List.replicate 32 7) := by
  decide +kernel

/-- The dispatching `beltWBLStepE` is `beltWBLStepEBase` from round 0, whatever branch it takes. -/
theorem wblStepE_eq_wblStepEBase (C : Cipher) (hlen : ∀ k x, x.length = 16 → (C.enc k x).length = 16)
    (key buf : Bytes) (h32 : 32 ≤ buf.length) : wblStepE C key buf = wblStepEBase C key buf 0 := by
  unfold wblStepE
  split
  · rfl
  · rename_i hc
    exact stepEOpt_eq_Base C hlen key buf (by simp at hc; omega) h32

/-- The dispatching `beltWBLStepD` is `beltWBLStepDBase`, whatever branch it takes. -/
theorem wblStepD_eq_wblStepDBase (C : Cipher) (hlen : ∀ k x, x.length = 16 → (C.enc k x).length = 16)
    (key buf : Bytes) : wblStepD C key buf = wblStepDBase C key buf := by
  unfold wblStepD
  split
  · rfl
  · rename_i hc
    exact stepDOpt_eq_Base C hlen key buf (by simp at hc; omega) (by simp at hc; omega)

/-- `beltWBLStepD(beltWBLStepE(buf)) = buf` for EVERY buffer of at least 32 octets (all four
combinations of Base/Opt editions) and every key. -/
theorem wblStepD_wblStepE (C : Cipher) (hlen : ∀ k x, x.length = 16 → (C.enc k x).length = 16)
    (key buf : Bytes) (h : 32 ≤ buf.length) :
    (wblStepD C key (wblStepE C key buf).1).1 = buf ∧ (wblStepE C key buf).1.length = buf.length := by
  rw [wblStepD_eq_wblStepDBase C hlen, wblStepE_eq_wblStepEBase C hlen key buf h]
  exact ⟨(stepE_spec C hlen key buf h).2.2, (stepE_spec C hlen key buf h).2.1⟩

example : (wblStepE toyCipher [] (List.replicate 80 7)).1 ≠ List.replicate 80 7 := by decide +kernel

/-! ### 4a. KWP round trip -/

/-- (4a) `beltKWPUnwrap(beltKWPWrap(src)) = src` with `ERR_OK` on both sides, for every key of 16, 24 or 32
octets, every header (16 octets, or NULL = zeros) and every `src` of at least 16 octets (both the Base
and the Opt branch of `beltWBLStepE`).  The token is 16 octets longer than `src`. -/
theorem kwpUnwrap_kwpWrap (C : Cipher) (hlen : ∀ k x, x.length = 16 → (C.enc k x).length = 16)
    (src : Bytes) (header : Option Bytes) (key : Bytes) (hs : 16 ≤ src.length)
    (hk : validKeyLen key.length = true) (hh : ∀ h, header = some h → h.length = 16) :
    ∃ tok, kwpWrap C src header key = (.ok, some tok) ∧ tok.length = src.length + 16 ∧
      kwpUnwrap C tok header key = (.ok, some src) := by
  have hm : kwpWrap C src header key =
      if src.length < 16 || !validKeyLen key.length then (.badInput, none)
      else (.ok, some (wblStepE C (fmtKey key) (src ++ header.getD (zeros 16))).1) := by
    cases header <;> rfl
  have hl : (header.getD (zeros 16)).length = 16 := by
    cases header with
    | none => exact length_zeros 16
    | some h => exact hh h rfl
  have hbl : (src ++ header.getD (zeros 16)).length = src.length + 16 := by simp [hl]
  have hw : kwpWrap C src header key
      = (.ok, some (wblStepEBase C (fmtKey key) (src ++ header.getD (zeros 16)) 0).1) := by
    rw [hm]
    have hc : (decide (src.length < 16) || !validKeyLen key.length) = false := by
      simp [hk]; omega
    simp only [hc, Bool.false_eq_true, if_false]
    rw [wblStepE_eq_wblStepEBase C hlen _ _ (by omega)]
  obtain ⟨_, e2, e3⟩ := stepE_spec C hlen (fmtKey key) (src ++ header.getD (zeros 16)) (by omega)
  refine ⟨_, hw, by rw [e2, hbl], ?_⟩
  rw [kwpUnwrap_spec C hlen, e3, e2, hbl]
  rw [if_neg (by simp [hk]; omega)]
  have h16 : src.length + 16 - 16 = src.length := by omega
  rw [h16, List.drop_left, List.take_left, if_pos rfl]

/-- `beltKWPWrap` fails with `ERR_BAD_INPUT` (dest untouched) iff the key to protect is shorter than 16
octets or the key-encryption key has a bad length. -/
theorem kwpWrap_badInput_iff (C : Cipher) (src : Bytes) (header : Option Bytes) (key : Bytes) :
    kwpWrap C src header key = (.badInput, none) ↔ (src.length < 16 ∨ validKeyLen key.length = false) := by
  unfold kwpWrap
  by_cases h1 : src.length < 16
  · simp [h1]
  · by_cases h2 : validKeyLen key.length = false
    · simp [h2]
    · have h2' : validKeyLen key.length = true := by simpa using h2
      simp [h1, h2']

example : ∃ tok, kwpWrap toyCipher (List.replicate 17 5) none (List.replicate 16 1) = (.ok, some tok) ∧
    tok ≠ List.replicate 17 5 ++ zeros 16 := ⟨_, rfl, by decide +kernel⟩
/-- a token with a wrong trailer is rejected and the destination is zeroed -/
example : kwpUnwrap toyCipher (List.replicate 33 5) none (List.replicate 16 1)
    = (.badKeytoken, some (zeros 17)) := by decide +kernel

/-! ### 6. SDE -/

/-- `beltSDEStepD(beltSDEStepE(buf, iv), iv) = buf` for every sector of at least 32 octets, every 16-octet
`iv` and every key; the sector length is kept. -/
theorem sdeStepD_sdeStepE (C : Cipher) (hlen : ∀ k x, x.length = 16 → (C.enc k x).length = 16)
    (key iv buf : Bytes) (hiv : iv.length = 16) (h : 32 ≤ buf.length) :
    sdeStepD C key iv (sdeStepE C key iv buf) = buf ∧ (sdeStepE C key iv buf).length = buf.length := by
  have hs := hlen key iv hiv
  obtain ⟨x1, x2⟩ := xorAt0_xorAt0 buf (C.enc key iv) (by omega) hs
  obtain ⟨hw, hEl⟩ := wblStepD_wblStepE C hlen key (xorAt buf 0 (C.enc key iv)) (by omega)
  rw [x2] at hEl
  obtain ⟨y1, y2⟩ := xorAt0_xorAt0 (wblStepE C key (xorAt buf 0 (C.enc key iv))).1 (C.enc key iv) (by omega) hs
  unfold sdeStepD sdeStepE
  simp only []
  rw [y1, hw, x1, y2, hEl]
  exact ⟨rfl, rfl⟩

/-- `beltSDEDecr(beltSDEEncr(src)) = src` with `ERR_OK` on both sides, for every sector length that is a
multiple of 16 and at least 32, every key of 16/24/32 octets and every 16-octet `iv`. -/
theorem sdeDecr_sdeEncr (C : Cipher) (hlen : ∀ k x, x.length = 16 → (C.enc k x).length = 16)
    (src key iv : Bytes) (hiv : iv.length = 16) (hk : validKeyLen key.length = true)
    (h16 : src.length % 16 = 0) (h : 32 ≤ src.length) :
    ∃ ct, sdeEncr C src key iv = (.ok, some ct) ∧ ct.length = src.length ∧
      sdeDecr C ct key iv = (.ok, some src) := by
  have hc : (decide (src.length % 16 ≠ 0) || decide (src.length < 32) || !validKeyLen key.length) = false := by
    simp [hk]; omega
  obtain ⟨e1, e2⟩ := sdeStepD_sdeStepE C hlen (fmtKey key) iv src hiv h
  refine ⟨sdeStepE C (fmtKey key) iv src, ?_, e2, ?_⟩
  · unfold sdeEncr
    simp only [hc, Bool.false_eq_true, if_false]
  · unfold sdeDecr
    rw [e2]
    simp only [hc, Bool.false_eq_true, if_false]
    rw [e1]

example : sdeStepE toyCipher [] (List.replicate 16 3) (List.replicate 64 7) ≠ List.replicate 64 7 := by
  decide +kernel

/-! ### 7. corollaries for the belt block cipher -/

/-- `beltWBLStepD ∘ beltWBLStepE = id` for belt itself, every `count ≥ 32`. -/
theorem belt_wblStepD_wblStepE (key buf : Bytes) (h : 32 ≤ buf.length) :
    (wblStepD beltCipher key (wblStepE beltCipher key buf).1).1 = buf :=
  (wblStepD_wblStepE beltCipher length_blockEncr key buf h).1

/-- Opt = Base for belt itself. -/
theorem belt_wblStepEOpt_eq_wblStepEBase (key buf : Bytes) (h16 : buf.length % 16 = 0) (h32 : 32 ≤ buf.length) :
    wblStepEOpt beltCipher key buf 0 = wblStepEBase beltCipher key buf 0 :=
  wblStepEOpt_eq_wblStepEBase beltCipher length_blockEncr key buf h16 h32

theorem belt_wblStepDOpt_eq_wblStepDBase (key buf : Bytes) (h16 : buf.length % 16 = 0) (h48 : 48 ≤ buf.length) :
    wblStepDOpt beltCipher key buf = wblStepDBase beltCipher key buf :=
  wblStepDOpt_eq_wblStepDBase beltCipher length_blockEncr key buf h16 h48

/-- `beltWBLStepD2` = `beltWBLStepDBase` on the split buffer, for belt itself. -/
theorem belt_wblStepD2_eq_wblStepDBase (key buf : Bytes) (h : 32 ≤ buf.length) :
    wblStepD2 beltCipher key (buf.take (buf.length - 16)) (buf.drop (buf.length - 16)) =
      ((wblStepDBase beltCipher key buf).1.take (buf.length - 16),
       (wblStepDBase beltCipher key buf).1.drop (buf.length - 16), 0) :=
  wblStepD2_eq_wblStepDBase beltCipher length_blockEncr key buf h

/-- `beltKWPUnwrap` for belt itself: error codes and the zeroed destination. -/
theorem belt_kwpUnwrap_spec (tok : Bytes) (header : Option Bytes) (key : Bytes) :
    kwpUnwrap beltCipher tok header key =
      if tok.length < 32 ∨ validKeyLen key.length = false then (.badInput, none)
      else if (wblStepDBase beltCipher (fmtKey key) tok).1.drop (tok.length - 16) = header.getD (zeros 16)
        then (.ok, some ((wblStepDBase beltCipher (fmtKey key) tok).1.take (tok.length - 16)))
        else (.badKeytoken, some (zeros (tok.length - 16))) :=
  kwpUnwrap_spec beltCipher length_blockEncr tok header key

/-- `beltKWPUnwrap ∘ beltKWPWrap` for belt itself, every key length ≥ 16. -/
theorem belt_kwpUnwrap_kwpWrap (src : Bytes) (header : Option Bytes) (key : Bytes)
    (hs : 16 ≤ src.length) (hk : validKeyLen key.length = true) (hh : ∀ h, header = some h → h.length = 16) :
    ∃ tok, kwpWrap beltCipher src header key = (.ok, some tok) ∧ tok.length = src.length + 16 ∧
      kwpUnwrap beltCipher tok header key = (.ok, some src) :=
  kwpUnwrap_kwpWrap beltCipher length_blockEncr src header key hs hk hh

/-- `beltSDEDecr ∘ beltSDEEncr` for belt itself, every sector length. -/
theorem belt_sdeDecr_sdeEncr (src key iv : Bytes) (hiv : iv.length = 16)
    (hk : validKeyLen key.length = true) (h16 : src.length % 16 = 0) (h : 32 ≤ src.length) :
    ∃ ct, sdeEncr beltCipher src key iv = (.ok, some ct) ∧ ct.length = src.length ∧
      sdeDecr beltCipher ct key iv = (.ok, some src) :=
  sdeDecr_sdeEncr beltCipher length_blockEncr src key iv hiv hk h16 h

end Bee2V.C01

/-
C01 property theorems: belt_wbl.c (wide-block cipher), belt_kwp.c (key wrap), belt_sde.c (sector encryption).
Only property theorems and non-vacuity examples; helper lemmas are in Lemmas/Wbl.lean.
All mode theorems hold for an ARBITRARY cipher `C`: WBL only ever calls `C.enc`, so the only
hypothesis is that `enc` maps 16-octet blocks to 16-octet blocks.
-/
import Bee2V.C01.Lemmas.Wbl
import Bee2V.C01.Lemmas.Block
namespace Bee2V.C01
open Wbl

/-! ### 1. one round -/

/-- One iteration of the for-loop of `beltWBLStepDBase` with round number `round + 1` undoes one
iteration of the do-loop of `beltWBLStepEBase` entered with `st->round = round`, for EVERY buffer of at
least 32 octets (also when `count` is not a multiple of 16, where the blocks r_{n-1} and r* overlap)
and every key. -/
theorem wblRoundDBase_wblRoundEBase (C : Cipher) (hlen : ∀ k x, x.length = 16 → (C.enc k x).length = 16)
    (key buf : Bytes) (round : Nat) (h : 32 ≤ buf.length) :
    wblRoundDBase C key (wblRoundEBase C key buf round).1 (round + 1) = buf :=
  roundD_roundE C hlen key buf h round

/-- An E round keeps `count` and increments `st->round`. -/
theorem wblRoundEBase_length (C : Cipher) (hlen : ∀ k x, x.length = 16 → (C.enc k x).length = 16)
    (key buf : Bytes) (round : Nat) (h : 32 ≤ buf.length) :
    (wblRoundEBase C key buf round).1.length = buf.length ∧ (wblRoundEBase C key buf round).2 = round + 1 :=
  length_roundE C hlen key buf h round

/-- A D round keeps `count`. -/
theorem wblRoundDBase_length (C : Cipher) (hlen : ∀ k x, x.length = 16 → (C.enc k x).length = 16)
    (key buf : Bytes) (round : Nat) (h : 32 ≤ buf.length) :
    (wblRoundDBase C key buf round).length = buf.length :=
  length_roundD C hlen key buf h round

example : (wblRoundEBase toyCipher [] (List.replicate 40 7) 0).1 ≠ List.replicate 40 7 := by decide +kernel
example : wblRoundDBase toyCipher [] (wblRoundEBase toyCipher [] (List.replicate 40 7) 0).1 1
    = List.replicate 40 7 := by decide +kernel

/-! ### 2. the whole wide block -/

/-- `beltWBLStepDBase` inverts `beltWBLStepEBase` (entered with `st->round = 0`, as `beltWBLStepE` does)
on every buffer of at least 32 octets, of any length. -/
theorem wblStepDBase_wblStepEBase (C : Cipher) (hlen : ∀ k x, x.length = 16 → (C.enc k x).length = 16)
    (key buf : Bytes) (h : 32 ≤ buf.length) :
    (wblStepDBase C key (wblStepEBase C key buf 0).1).1 = buf :=
  (stepE_spec C hlen key buf h).2.2

/-- `beltWBLStepEBase` runs exactly the rounds 1..2n (the do-loop leaves with `st->round = 2n`,
n = ceil(count/16)) and keeps `count`. -/
theorem wblStepEBase_round (C : Cipher) (hlen : ∀ k x, x.length = 16 → (C.enc k x).length = 16)
    (key buf : Bytes) (h : 32 ≤ buf.length) :
    (wblStepEBase C key buf 0).2 = 2 * wblN buf.length ∧ (wblStepEBase C key buf 0).1.length = buf.length :=
  ⟨(stepE_spec C hlen key buf h).1, (stepE_spec C hlen key buf h).2.1⟩

/-- `beltWBLStepDBase` keeps `count` and leaves `st->round = 0`. -/
theorem wblStepDBase_length (C : Cipher) (hlen : ∀ k x, x.length = 16 → (C.enc k x).length = 16)
    (key buf : Bytes) (h : 32 ≤ buf.length) :
    (wblStepDBase C key buf).1.length = buf.length ∧ (wblStepDBase C key buf).2 = 0 :=
  ⟨length_stepD C hlen key buf h, rfl⟩

example : (wblStepEBase toyCipher [] (List.replicate 40 7) 0).1 ≠ List.replicate 40 7 := by decide +kernel
example : (wblStepEBase toyCipher [] (List.replicate 40 7) 0).2 = 6 := by decide +kernel

/-! ### 3. beltWBLStepD2 -/

/-- One round of `beltWBLStepD2` on the split buffer (`buf1` = all but the last 16 octets, `buf2` = the
last 16 octets) computes the same octets as one round of `beltWBLStepDBase` on `buf1 ‖ buf2`: the loop
with `i + 32 < count` plus the two partial `memXor2` is the loop with `i + 16 < count`. -/
theorem wblRoundD2_eq_wblRoundDBase (C : Cipher) (hlen : ∀ k x, x.length = 16 → (C.enc k x).length = 16)
    (key buf1 buf2 : Bytes) (round : Nat) (h1 : 16 ≤ buf1.length) (h2 : buf2.length = 16) :
    (wblRoundD2 C key (buf1, buf2) round).1 ++ (wblRoundD2 C key (buf1, buf2) round).2
      = wblRoundDBase C key (buf1 ++ buf2) round ∧
    (wblRoundD2 C key (buf1, buf2) round).1.length = buf1.length ∧
    (wblRoundD2 C key (buf1, buf2) round).2.length = 16 :=
  roundD2_spec C hlen key buf1 buf2 h1 h2 round

/-- `beltWBLStepD2(buf1, buf2, count, state)` (the function `beltKWPUnwrap` uses) leaves in `buf1`, `buf2`
exactly the first `count - 16` and the last 16 octets of what `beltWBLStepDBase` computes on the whole
buffer, and `st->round = 0`; for every `count ≥ 32`. -/
theorem wblStepD2_eq_wblStepDBase (C : Cipher) (hlen : ∀ k x, x.length = 16 → (C.enc k x).length = 16)
    (key buf : Bytes) (h : 32 ≤ buf.length) :
    wblStepD2 C key (buf.take (buf.length - 16)) (buf.drop (buf.length - 16)) =
      ((wblStepDBase C key buf).1.take (buf.length - 16), (wblStepDBase C key buf).1.drop (buf.length - 16), 0) :=
  stepD2_split C hlen key buf h

example : (wblStepD2 toyCipher [] (List.replicate 21 7) (List.replicate 16 9)).1 ≠ List.replicate 21 7 := by
  decide +kernel

/-! ### 4. KWP -/

/-- (4b) Complete description of `beltKWPUnwrap` for ANY token, header and key:
`ERR_BAD_INPUT` with `dest` untouched iff `count < 32` or the key length is not 16/24/32; otherwise the
token is decrypted by the wide-block cipher and `ERR_OK` is returned with the first `count - 16` octets
iff the last 16 decrypted octets equal the header (zeros for a NULL header); in every other case the
result is `ERR_BAD_KEYTOKEN` and `dest` holds `count - 16` zero octets, never the decrypted key. -/
theorem kwpUnwrap_spec (C : Cipher) (hlen : ∀ k x, x.length = 16 → (C.enc k x).length = 16)
    (tok : Bytes) (header : Option Bytes) (key : Bytes) :
    kwpUnwrap C tok header key =
      if tok.length < 32 ∨ validKeyLen key.length = false then (.badInput, none)
      else if (wblStepDBase C (fmtKey key) tok).1.drop (tok.length - 16) = header.getD (zeros 16)
        then (.ok, some ((wblStepDBase C (fmtKey key) tok).1.take (tok.length - 16)))
        else (.badKeytoken, some (zeros (tok.length - 16))) :=
  kwpUnwrap_char C hlen tok header key

/-- On every failure of `beltKWPUnwrap` the destination is either untouched or all zeros. -/
theorem kwpUnwrap_fail_zero (C : Cipher) (hlen : ∀ k x, x.length = 16 → (C.enc k x).length = 16)
    (tok : Bytes) (header : Option Bytes) (key : Bytes) (h : (kwpUnwrap C tok header key).1 ≠ .ok) :
    (kwpUnwrap C tok header key).2 = none ∨ (kwpUnwrap C tok header key).2 = some (zeros (tok.length - 16)) := by
  rw [kwpUnwrap_spec C hlen] at h ⊢
  split
  · exact Or.inl rfl
  · rename_i hc
    rw [if_neg hc] at h
    split
    · rename_i hd; rw [if_pos hd] at h; exact absurd rfl h
    · exact Or.inr rfl

-- Full statement (needs `wblStepEOpt = wblStepEBase`, item 5, for `count ≥ 64 ∧ count % 16 = 0`):
--   16 ≤ src.length → validKeyLen key.length → header is NULL or 16 octets →
--   ∃ tok, kwpWrap C src header key = (.ok, some tok) ∧ kwpUnwrap C tok header key = (.ok, some src)
/-- (4a) `beltKWPUnwrap(beltKWPWrap(src)) = src` with `ERR_OK` on both sides, for every key of 16, 24 or 32
octets, every header (16 octets or NULL) and every `src` of at least 16 octets such that
`count + 16 < 64` or `count + 16` is not a multiple of 16 (the `beltWBLStepEBase` branch of
`beltWBLStepE`).  The token is 16 octets longer than the key. -/
theorem kwpUnwrap_kwpWrap_partial (C : Cipher) (hlen : ∀ k x, x.length = 16 → (C.enc k x).length = 16)
    (src : Bytes) (header : Option Bytes) (key : Bytes) (hs : 16 ≤ src.length)
    (hk : validKeyLen key.length = true) (hh : ∀ h, header = some h → h.length = 16)
    (hbase : src.length + 16 < 64 ∨ (src.length + 16) % 16 ≠ 0) :
    ∃ tok, kwpWrap C src header key = (.ok, some tok) ∧ tok.length = src.length + 16 ∧
      kwpUnwrap C tok header key = (.ok, some src) := by
  have hm : kwpWrap C src header key =
      if src.length < 16 || !validKeyLen key.length then (.badInput, none)
      else (.ok, some (wblStepE C (fmtKey key) (src ++ header.getD (zeros 16))).1) := by
    cases header <;> rfl
  have hl : (header.getD (zeros 16)).length = 16 := by
    cases header with
    | none => exact length_zeros 16
    | some h => exact hh h rfl
  have hbl : (src ++ header.getD (zeros 16)).length = src.length + 16 := by simp [hl]
  have hw : kwpWrap C src header key
      = (.ok, some (wblStepEBase C (fmtKey key) (src ++ header.getD (zeros 16)) 0).1) := by
    rw [hm]
    have hc : (decide (src.length < 16) || !validKeyLen key.length) = false := by
      simp [hk]; omega
    have hd : (decide ((src ++ header.getD (zeros 16)).length % 16 ≠ 0) ||
        decide ((src ++ header.getD (zeros 16)).length < 64)) = true := by
      rw [hbl]; simp; omega
    simp only [hc, Bool.false_eq_true, if_false, wblStepE, hd, if_true]
  obtain ⟨_, e2, e3⟩ := stepE_spec C hlen (fmtKey key) (src ++ header.getD (zeros 16)) (by omega)
  refine ⟨_, hw, by rw [e2, hbl], ?_⟩
  rw [kwpUnwrap_spec C hlen, e3, e2, hbl]
  rw [if_neg (by simp [hk]; omega)]
  have h16 : src.length + 16 - 16 = src.length := by omega
  rw [h16, List.drop_left, List.take_left, if_pos rfl]

example : ∃ tok, kwpWrap toyCipher (List.replicate 17 5) none (List.replicate 16 1) = (.ok, some tok) ∧
    tok ≠ List.replicate 17 5 ++ zeros 16 := ⟨_, rfl, by decide +kernel⟩

/-! ### 6. SDE and the dispatching functions -/

-- Full statement (needs Opt = Base, item 5): for every `32 ≤ count`.
/-- `beltWBLStepD(beltWBLStepE(buf)) = buf` whenever both dispatch to the Base editions:
`count ≥ 32` and (`count % 16 ≠ 0` or `count < 64`). -/
theorem wblStepD_wblStepE_partial (C : Cipher) (hlen : ∀ k x, x.length = 16 → (C.enc k x).length = 16)
    (key buf : Bytes) (h : 32 ≤ buf.length) (hbase : buf.length % 16 ≠ 0 ∨ buf.length < 64) :
    (wblStepD C key (wblStepE C key buf).1).1 = buf := by
  have hE : wblStepE C key buf = wblStepEBase C key buf 0 := by
    unfold wblStepE
    rw [if_pos (by simp; omega)]
  obtain ⟨_, e2, e3⟩ := stepE_spec C hlen key buf h
  rw [hE]
  unfold wblStepD
  rw [e2, if_pos (by simp; omega), e3]

-- Full statement (needs Opt = Base, item 5): for every `count % 16 = 0`, `32 ≤ count`.
/-- `beltSDEStepD(beltSDEStepE(buf, iv), iv) = buf` for sectors of 32 or 48 octets (both directions use
the Base editions), every 16-octet `iv` and every key. -/
theorem sdeStepD_sdeStepE_partial (C : Cipher) (hlen : ∀ k x, x.length = 16 → (C.enc k x).length = 16)
    (key iv buf : Bytes) (hiv : iv.length = 16) (h : 32 ≤ buf.length)
    (hbase : buf.length % 16 ≠ 0 ∨ buf.length < 64) :
    sdeStepD C key iv (sdeStepE C key iv buf) = buf := by
  have hs := hlen key iv hiv
  obtain ⟨x1, x2⟩ := xorAt0_xorAt0 buf (C.enc key iv) (by omega) hs
  have hbase' : (xorAt buf 0 (C.enc key iv)).length % 16 ≠ 0 ∨ (xorAt buf 0 (C.enc key iv)).length < 64 := by
    rw [x2]; exact hbase
  have hw := wblStepD_wblStepE_partial C hlen key (xorAt buf 0 (C.enc key iv)) (by omega) hbase'
  have hEl : (wblStepE C key (xorAt buf 0 (C.enc key iv))).1.length = buf.length := by
    have hE : wblStepE C key (xorAt buf 0 (C.enc key iv)) = wblStepEBase C key (xorAt buf 0 (C.enc key iv)) 0 := by
      unfold wblStepE
      rw [if_pos (by simp; omega)]
    rw [hE, (stepE_spec C hlen key _ (by omega)).2.1, x2]
  obtain ⟨y1, _⟩ := xorAt0_xorAt0 (wblStepE C key (xorAt buf 0 (C.enc key iv))).1 (C.enc key iv) (by omega) hs
  unfold sdeStepD sdeStepE
  simp only []
  rw [y1, hw, x1]

/-- `beltSDEStepE` keeps the sector length (Base branch). -/
theorem sdeStepE_length_partial (C : Cipher) (hlen : ∀ k x, x.length = 16 → (C.enc k x).length = 16)
    (key iv buf : Bytes) (hiv : iv.length = 16) (h : 32 ≤ buf.length)
    (hbase : buf.length % 16 ≠ 0 ∨ buf.length < 64) :
    (sdeStepE C key iv buf).length = buf.length := by
  have hs := hlen key iv hiv
  obtain ⟨_, x2⟩ := xorAt0_xorAt0 buf (C.enc key iv) (by omega) hs
  have hE : wblStepE C key (xorAt buf 0 (C.enc key iv)) = wblStepEBase C key (xorAt buf 0 (C.enc key iv)) 0 := by
    unfold wblStepE
    rw [if_pos (by simp; omega)]
  have hEl : (wblStepE C key (xorAt buf 0 (C.enc key iv))).1.length = buf.length := by
    rw [hE, (stepE_spec C hlen key _ (by omega)).2.1, x2]
  unfold sdeStepE
  simp only []
  rw [(xorAt0_xorAt0 _ (C.enc key iv) (by omega) hs).2, hEl]

/-- `beltSDEDecr(beltSDEEncr(src)) = src` with `ERR_OK` on both sides for `count ∈ {32, 48}`. -/
theorem sdeDecr_sdeEncr_partial (C : Cipher) (hlen : ∀ k x, x.length = 16 → (C.enc k x).length = 16)
    (src key iv : Bytes) (hiv : iv.length = 16) (hk : validKeyLen key.length = true)
    (h16 : src.length % 16 = 0) (h : 32 ≤ src.length) (h64 : src.length < 64) :
    ∃ ct, sdeEncr C src key iv = (.ok, some ct) ∧ sdeDecr C ct key iv = (.ok, some src) := by
  have hc : (decide (src.length % 16 ≠ 0) || decide (src.length < 32) || !validKeyLen key.length) = false := by
    simp [hk]; omega
  refine ⟨sdeStepE C (fmtKey key) iv src, ?_, ?_⟩
  · unfold sdeEncr
    simp only [hc, Bool.false_eq_true, if_false]
  · unfold sdeDecr
    rw [sdeStepE_length_partial C hlen (fmtKey key) iv src hiv h (Or.inr h64)]
    simp only [hc, Bool.false_eq_true, if_false]
    rw [sdeStepD_sdeStepE_partial C hlen (fmtKey key) iv src hiv h (Or.inr h64)]


/-! ### 7. corollaries for the belt block cipher -/

/-- `beltWBLStepDBase ∘ beltWBLStepEBase = id` for belt itself. -/
theorem belt_wblStepDBase_wblStepEBase (key buf : Bytes) (h : 32 ≤ buf.length) :
    (wblStepDBase beltCipher key (wblStepEBase beltCipher key buf 0).1).1 = buf :=
  wblStepDBase_wblStepEBase beltCipher length_blockEncr key buf h

/-- `beltWBLStepD2` = `beltWBLStepDBase` on the split buffer, for belt itself. -/
theorem belt_wblStepD2_eq_wblStepDBase (key buf : Bytes) (h : 32 ≤ buf.length) :
    wblStepD2 beltCipher key (buf.take (buf.length - 16)) (buf.drop (buf.length - 16)) =
      ((wblStepDBase beltCipher key buf).1.take (buf.length - 16),
       (wblStepDBase beltCipher key buf).1.drop (buf.length - 16), 0) :=
  wblStepD2_eq_wblStepDBase beltCipher length_blockEncr key buf h

/-- `beltKWPUnwrap` for belt itself: error codes and the zeroed destination. -/
theorem belt_kwpUnwrap_spec (tok : Bytes) (header : Option Bytes) (key : Bytes) :
    kwpUnwrap beltCipher tok header key =
      if tok.length < 32 ∨ validKeyLen key.length = false then (.badInput, none)
      else if (wblStepDBase beltCipher (fmtKey key) tok).1.drop (tok.length - 16) = header.getD (zeros 16)
        then (.ok, some ((wblStepDBase beltCipher (fmtKey key) tok).1.take (tok.length - 16)))
        else (.badKeytoken, some (zeros (tok.length - 16))) :=
  kwpUnwrap_spec beltCipher length_blockEncr tok header key

/-- `beltKWPUnwrap ∘ beltKWPWrap` for belt itself (Base branch of `beltWBLStepE`). -/
theorem belt_kwpUnwrap_kwpWrap_partial (src : Bytes) (header : Option Bytes) (key : Bytes)
    (hs : 16 ≤ src.length) (hk : validKeyLen key.length = true) (hh : ∀ h, header = some h → h.length = 16)
    (hbase : src.length + 16 < 64 ∨ (src.length + 16) % 16 ≠ 0) :
    ∃ tok, kwpWrap beltCipher src header key = (.ok, some tok) ∧ tok.length = src.length + 16 ∧
      kwpUnwrap beltCipher tok header key = (.ok, some src) :=
  kwpUnwrap_kwpWrap_partial beltCipher length_blockEncr src header key hs hk hh hbase

/-- `beltSDEDecr ∘ beltSDEEncr` for belt itself, sectors of 32 or 48 octets. -/
theorem belt_sdeDecr_sdeEncr_partial (src key iv : Bytes) (hiv : iv.length = 16)
    (hk : validKeyLen key.length = true) (h16 : src.length % 16 = 0) (h : 32 ≤ src.length)
    (h64 : src.length < 64) :
    ∃ ct, sdeEncr beltCipher src key iv = (.ok, some ct) ∧ sdeDecr beltCipher ct key iv = (.ok, some src) :=
  sdeDecr_sdeEncr_partial beltCipher length_blockEncr src key iv hiv hk h16 h h64

end Bee2V.C01

/-
C01 standards-level definitions (STB 34.101.31 as restated in belt.h / the comments of the sources).
Structure-free: octet strings and naturals.  No Mathlib.
-/
import Bee2V.C01.Model.Basic
namespace Bee2V.C01.Spec

/-- the LFSR step of the H-box generator (comment in belt_block.c):
`t = t >> 1 | wordParity(t & 0x63) << 7` on an octet -/
def lfsr (t : Nat) : Nat :=
  t / 2 + 128 * ((t % 2 + t / 2 % 2 + t / 32 % 2 + t / 64 % 2) % 2)

def iter {α : Type} (f : α → α) : Nat → α → α
  | 0, x => x
  | n + 1, x => iter f n (f x)

/-- successive values H[11], H[12], …, H[255], H[0], …, H[9]: each is the previous one stepped 116 times -/
def hSeq : Nat → Nat → List Nat
  | 0, _ => []
  | n + 1, t => t :: hSeq n (iter lfsr 116 t)

/-- the substitution H as a table of 256 naturals: `H[10] = 0, H[11] = 0x8E, H[x % 256] = lfsr^116 (H[(x-1) % 256])` -/
def hTable : List Nat :=
  let s := hSeq 255 0x8E
  s.drop 245 ++ [0] ++ s.take 245

/-- `RotHi^r` on a 32-bit word -/
def rotHi (x : UInt32) (r : UInt32) : UInt32 := x <<< r ||| x >>> (32 - r)

/-- exact FMT block count: the least b with mod^count ≤ 2^(64 b) -/
def fmtBlocks (mod count : Nat) : Nat := (Nat.log2 (mod ^ count - 1) + 1 + 63) / 64

end Bee2V.C01.Spec

/-
C01 model: belt_fmt.c -- block count (128-bit truncated arithmetic of beltFMTCalcB with the
constants regenerated from the source), radix conversions, belt-32block, the three Feistel rounds.
Strings over Z_mod are `List Nat` (u16 values).
-/
import Bee2V.C01.Model.Wbl
import Bee2V.C01.Model.FmtB
namespace Bee2V.C01
open Bee2V.Gen.C01

/-- u16 string <-> octets -/
def u16To : List Nat → Bytes
  | [] => []
  | x :: xs => UInt8.ofNat (x % 256) :: UInt8.ofNat (x / 256 % 256) :: u16To xs

def u16From : Bytes → List Nat
  | b0 :: b1 :: rest => (b0.toNat + 256 * b1.toNat) :: u16From rest
  | _ => []

/-- Horner evaluation from the top digit, truncated to `8 * b` octets (`zzMulW`/`zzAddW2` on `m` words) -/
def hornerTrunc (mod bits : Nat) : List Nat → Nat → Nat
  | [], acc => acc
  | d :: ds, acc => hornerTrunc mod bits ds ((acc * mod % 2 ^ bits + d) % 2 ^ bits)

/-- `beltStr2Bin(bin, b, mod, str, count)` -/
def str2bin (b mod : Nat) (str : List Nat) : Bytes :=
  if mod == 65536 then
    let s := u16To str
    s ++ zeros (8 * b - s.length)
  else
    match str.reverse with
    | [] => zeros (8 * b)
    | top :: rest => natLE (8 * b) (hornerTrunc mod (64 * b) rest top)

/-- `beltBin2StrAdd(mod, str, count, bin, b)` -/
def bin2strAddLoop (mod : Nat) : List Nat → Nat → List Nat
  | [], _ => []
  | s :: ss, a => ((a % mod + s) % 2 ^ 32 % mod % 65536) :: bin2strAddLoop mod ss (a / mod)

def bin2strAdd (mod : Nat) (str : List Nat) (bin : Bytes) : List Nat :=
  if mod == 65536 then List.zipWith (fun s u => (s + u) % 65536) str (u16From bin)
  else bin2strAddLoop mod str (leNat bin)

def bin2strSubLoop (mod : Nat) : List Nat → Nat → List Nat
  | [], _ => []
  | s :: ss, a => ((s + mod - a % mod) % 2 ^ 32 % mod % 65536) :: bin2strSubLoop mod ss (a / mod)

def bin2strSub (mod : Nat) (str : List Nat) (bin : Bytes) : List Nat :=
  if mod == 65536 then List.zipWith (fun s u => (s + 65536 - u) % 65536) str (u16From bin)
  else bin2strSubLoop mod str (leNat bin)

/-- xor a small constant into the first octet (`t[2] ^= 1` on a little-endian word) -/
def xorLow (b : Bytes) (c : UInt8) : Bytes :=
  match b with
  | b0 :: rest => (b0 ^^^ c) :: rest
  | [] => []

/-- `belt32BlockEncr(block[24], key)` on three 8-octet halves -/
def b32Encr (C : Cipher) (key blk : Bytes) : Bytes :=
  let h0 := blk.take 8
  let h1 := (blk.drop 8).take 8
  let h2 := (blk.drop 16).take 8
  -- round #1
  let e := C.enc key (h1 ++ h2)
  let h1 := xorLow (e.take 8) 1
  let h2 := e.drop 8
  let h0 := xorb h0 h1
  -- round #2
  let e := C.enc key (h2 ++ h0)
  let h2 := xorLow (e.take 8) 2
  let h0 := e.drop 8
  let h1 := xorb h1 h2
  -- round #3
  let e := C.enc key (h0 ++ h1)
  let h0 := xorLow (e.take 8) 3
  let h1 := e.drop 8
  let h2 := xorb h2 h0
  h0 ++ h1 ++ h2

structure FmtSt where
  key : Bytes
  mod : Nat
  n1 : Nat
  n2 : Nat
  b1 : Nat
  b2 : Nat
  fmt : Bytes      -- 4 octets: (u16)mod || (u16)count

def fmtStart (mod count : Nat) (key : Bytes) : FmtSt :=
  let n1 := (count + 1) / 2
  let n2 := count / 2
  ⟨fmtKey key, mod, n1, n2, calcB mod n1, calcB mod n2, u16To [mod % 65536, count % 65536]⟩

/-- the keyed function of one half-round: Str2Bin, append H/iv words, encrypt with the primitive chosen by b -/
def fmtF (C : Cipher) (st : FmtSt) (b : Nat) (str : List Nat) (hoff : Nat) (iv24 : Bytes) : Bytes :=
  let buf := str2bin b st.mod str ++ (H.toList.drop hoff).take 4 ++ (iv24.drop hoff).take 4
  if b == 1 then C.enc st.key buf
  else if b == 2 then b32Encr C st.key buf
  else (wblStepE C st.key buf).1

def fmtIv (st : FmtSt) (iv : Option Bytes) : Bytes :=
  st.fmt ++ (match iv with | some v => v | none => zeros 16) ++ st.fmt

def fmtRoundE (C : Cipher) (st : FmtSt) (iv24 : Bytes) (i : Nat) (buf : List Nat) : List Nat :=
  let l := buf.take st.n1
  let r := buf.drop st.n1
  let l := bin2strAdd st.mod l (fmtF C st st.b2 r (8 * i) iv24)
  let r := bin2strAdd st.mod r (fmtF C st st.b1 l (8 * i + 4) iv24)
  l ++ r

def fmtRoundD (C : Cipher) (st : FmtSt) (iv24 : Bytes) (i : Nat) (buf : List Nat) : List Nat :=
  let l := buf.take st.n1
  let r := buf.drop st.n1
  let r := bin2strSub st.mod r (fmtF C st st.b1 l (8 * i + 4) iv24)
  let l := bin2strSub st.mod l (fmtF C st st.b2 r (8 * i) iv24)
  l ++ r

def fmtStepE (C : Cipher) (st : FmtSt) (iv : Option Bytes) (buf : List Nat) : List Nat :=
  let iv24 := fmtIv st iv
  fmtRoundE C st iv24 2 (fmtRoundE C st iv24 1 (fmtRoundE C st iv24 0 buf))

def fmtStepD (C : Cipher) (st : FmtSt) (iv : Option Bytes) (buf : List Nat) : List Nat :=
  let iv24 := fmtIv st iv
  fmtRoundD C st iv24 0 (fmtRoundD C st iv24 1 (fmtRoundD C st iv24 2 buf))

def fmtCheck (mod count keyLen : Nat) : Option Err :=
  if mod < 2 || mod > 65536 || count < 2 || !validKeyLen keyLen then some .badInput
  else if count > 600 then some .notImplemented
  else none

def fmtEncr (C : Cipher) (mod : Nat) (src : List Nat) (key : Bytes) (iv : Option Bytes) : Err × Option (List Nat) :=
  match fmtCheck mod src.length key.length with
  | some e => (e, none)
  | none => (.ok, some (fmtStepE C (fmtStart mod src.length key) iv src))

def fmtDecr (C : Cipher) (mod : Nat) (src : List Nat) (key : Bytes) (iv : Option Bytes) : Err × Option (List Nat) :=
  match fmtCheck mod src.length key.length with
  | some e => (e, none)
  | none => (.ok, some (fmtStepD C (fmtStart mod src.length key) iv src))

end Bee2V.C01

/-
C01 model, layer 2: belt_ecb.c, belt_cbc.c, belt_cfb.c, belt_ctr.c, belt_mac.c, belt_bde.c.
Each bundle is a Start / Step* state machine over a structure with the fields of the C state.
The block cipher is a parameter (`Cipher`), instantiated by `beltCipher`; the mode theorems hold
for every cipher whose `dec` undoes `enc`.
-/
import Bee2V.C01.Model.Block
namespace Bee2V.C01

/-- a keyed 128-bit block transformation pair: `enc key32 block`, `dec key32 block`
(`key32` = the 32-octet image of the formatted key `u32 key[8]`) -/
structure Cipher where
  enc : Bytes → Bytes → Bytes
  dec : Bytes → Bytes → Bytes

def beltCipher : Cipher := ⟨blockEncr, blockDecr⟩

/-- `beltKeyExpand2(st->key, key, len)` as the octet image of `st->key` -/
def fmtKey (key : Bytes) : Bytes := u32To (keyExpand2 key)

/-! ### error codes of the high-level functions -/
inductive Err | ok | badInput | badMac | badKeytoken | notImplemented
  deriving DecidableEq, Repr

def validKeyLen (len : Nat) : Bool := len == 16 || len == 24 || len == 32

/-! ### ECB -/

/-- `memSwap(buf - 16, buf, count)` of the ciphertext-stealing tails: `last` is the 16-octet block
before the ragged tail `tail`; returns the new (last, tail) -/
def stealSwap (last tail : Bytes) : Bytes × Bytes :=
  (tail ++ last.drop tail.length, last.take tail.length)

/-- `beltECBStepE(buf, count, state)`; `key` = `st->key` -/
def ecbStepE (C : Cipher) (key : Bytes) (buf : Bytes) : Bytes :=
  let l := fullBlocks 16 (fun (_ : Unit) b => ((), C.enc key b)) () buf
  let p := l.2.1
  let r := l.2.2
  if r.length ≠ 0 then
    let sw := stealSwap (p.drop (p.length - 16)) r
    p.take (p.length - 16) ++ C.enc key sw.1 ++ sw.2
  else p

def ecbStepD (C : Cipher) (key : Bytes) (buf : Bytes) : Bytes :=
  let l := fullBlocks 16 (fun (_ : Unit) b => ((), C.dec key b)) () buf
  let p := l.2.1
  let r := l.2.2
  if r.length ≠ 0 then
    let sw := stealSwap (p.drop (p.length - 16)) r
    p.take (p.length - 16) ++ C.dec key sw.1 ++ sw.2
  else p

/-- `beltECBEncr(dest, src, count, key, len)`: (error code, new content of dest or none = untouched) -/
def ecbEncr (C : Cipher) (src key : Bytes) : Err × Option Bytes :=
  if src.length < 16 || !validKeyLen key.length then (.badInput, none)
  else (.ok, some (ecbStepE C (fmtKey key) src))

def ecbDecr (C : Cipher) (src key : Bytes) : Err × Option Bytes :=
  if src.length < 16 || !validKeyLen key.length then (.badInput, none)
  else (.ok, some (ecbStepD C (fmtKey key) src))

/-! ### CBC -/

structure CbcSt where
  key : Bytes
  block : Bytes
  block2 : Bytes

def cbcStart (key iv : Bytes) : CbcSt := ⟨fmtKey key, iv, zeros 16⟩

def cbcStepE (C : Cipher) (st : CbcSt) (buf : Bytes) : CbcSt × Bytes :=
  let l := fullBlocks 16 (fun (blk : Bytes) b =>
      let blk := C.enc st.key (xorb blk b)      -- beltBlockXor2(st->block, buf); beltBlockEncr(st->block)
      (blk, blk)) st.block buf                  -- beltBlockCopy(buf, st->block)
  let st := { st with block := l.1 }
  let p := l.2.1
  let r := l.2.2
  if r.length ≠ 0 then
    let sw := stealSwap (p.drop (p.length - 16)) r          -- memSwap(buf - 16, buf, count)
    let last := xorPrefix sw.1 (st.block.take r.length)       -- memXor2(buf - 16, st->block, count)
    (st, p.take (p.length - 16) ++ C.enc st.key last ++ sw.2)
  else (st, p)

def cbcStepD (C : Cipher) (st : CbcSt) (buf : Bytes) : CbcSt × Bytes :=
  let l := blockLoop 16 (fun n => decide (32 ≤ n) || n == 16) (fun (s : Bytes × Bytes) b =>
      -- block2 <- buf; buf <- D(buf) ^ block; block <- block2
      ((b, b), xorb (C.dec st.key b) s.1)) buf.length (st.block, st.block2) buf
  let st := { st with block := l.1.1, block2 := l.1.2 }
  let p := l.2.1
  let r := l.2.2
  if r.length ≠ 0 then
    -- 16 < count < 32
    let b0 := C.dec st.key (r.take 16)                       -- beltBlockDecr(buf)
    let t := r.drop 16
    -- memSwap(buf, buf + 16, count - 16)
    let b1 := t ++ b0.drop t.length
    let t1 := b0.take t.length
    -- memXor2(buf + 16, buf, count - 16)
    let t2 := xorb t1 (b1.take t.length)
    -- beltBlockDecr(buf); beltBlockXor2(buf, st->block)
    let b2 := xorb (C.dec st.key b1) st.block
    (st, p ++ b2 ++ t2)
  else (st, p)

def cbcEncr (C : Cipher) (src key iv : Bytes) : Err × Option Bytes :=
  if src.length < 16 || !validKeyLen key.length then (.badInput, none)
  else (.ok, some (cbcStepE C (cbcStart key iv) src).2)

def cbcDecr (C : Cipher) (src key iv : Bytes) : Err × Option Bytes :=
  if src.length < 16 || !validKeyLen key.length then (.badInput, none)
  else (.ok, some (cbcStepD C (cbcStart key iv) src).2)

/-! ### CFB -/

structure CfbSt where
  key : Bytes
  block : Bytes
  reserved : Nat

def cfbStart (key iv : Bytes) : CfbSt := ⟨fmtKey key, iv, 0⟩

/-- write `x` into `blk` at offset `off` -/
def putAt (blk : Bytes) (off : Nat) (x : Bytes) : Bytes := blk.take off ++ x ++ blk.drop (off + x.length)

def cfbStepE (C : Cipher) (st : CfbSt) (buf : Bytes) : CfbSt × Bytes :=
  -- reserve of gamma?
  if st.reserved ≠ 0 ∧ st.reserved ≥ buf.length then
    let off := 16 - st.reserved
    let o := xorb ((st.block.drop off).take buf.length) buf   -- memXor2(block + off, buf, count); memCopy(buf, block + off, count)
    ({ st with block := putAt st.block off o, reserved := st.reserved - buf.length }, o)
  else
    let off := 16 - st.reserved
    let head := if st.reserved ≠ 0 then xorb (st.block.drop off) (buf.take st.reserved) else []
    let blk0 := if st.reserved ≠ 0 then putAt st.block off head else st.block
    let buf := if st.reserved ≠ 0 then buf.drop st.reserved else buf
    let l := fullBlocks 16 (fun (blk : Bytes) b =>
        let blk := xorb (C.enc st.key blk) b
        (blk, blk)) blk0 buf
    let r := l.2.2
    if r.length ≠ 0 then
      let g := C.enc st.key l.1
      let o := xorb (g.take r.length) r                       -- memXor2(block, buf, count); memCopy(buf, block, count)
      ({ st with block := o ++ g.drop r.length, reserved := 16 - r.length }, head ++ l.2.1 ++ o)
    else ({ st with block := l.1, reserved := 0 }, head ++ l.2.1)

def cfbStepD (C : Cipher) (st : CfbSt) (buf : Bytes) : CfbSt × Bytes :=
  if st.reserved ≠ 0 ∧ st.reserved ≥ buf.length then
    let off := 16 - st.reserved
    let o := xorb buf ((st.block.drop off).take buf.length)   -- memXor2(buf, block + off, count)
    -- memXor2(block + off, buf, count): block ^ (buf ^ block) = old buf
    let nb := xorb ((st.block.drop off).take buf.length) o
    ({ st with block := putAt st.block off nb, reserved := st.reserved - buf.length }, o)
  else
    let off := 16 - st.reserved
    let head := if st.reserved ≠ 0 then xorb (buf.take st.reserved) (st.block.drop off) else []
    let blk0 := if st.reserved ≠ 0 then putAt st.block off (xorb (st.block.drop off) head) else st.block
    let buf := if st.reserved ≠ 0 then buf.drop st.reserved else buf
    let l := fullBlocks 16 (fun (blk : Bytes) b =>
        let g := C.enc st.key blk
        let o := xorb b g                                      -- beltBlockXor2(buf, block)
        (xorb g o, o)) blk0 buf                                -- beltBlockXor2(block, buf)
    let r := l.2.2
    if r.length ≠ 0 then
      let g := C.enc st.key l.1
      let o := xorb r (g.take r.length)
      let nb := xorb (g.take r.length) o
      ({ st with block := nb ++ g.drop r.length, reserved := 16 - r.length }, head ++ l.2.1 ++ o)
    else ({ st with block := l.1, reserved := 0 }, head ++ l.2.1)

def cfbEncr (C : Cipher) (src key iv : Bytes) : Err × Option Bytes :=
  if !validKeyLen key.length then (.badInput, none)
  else (.ok, some (cfbStepE C (cfbStart key iv) src).2)

def cfbDecr (C : Cipher) (src key iv : Bytes) : Err × Option Bytes :=
  if !validKeyLen key.length then (.badInput, none)
  else (.ok, some (cfbStepD C (cfbStart key iv) src).2)

/-! ### CTR -/

/-- macro `beltBlockIncU32(block)` on four u32 words (short-circuit carry chain) -/
def incU32 : List UInt32 → List UInt32
  | [w0, w1, w2, w3] =>
    let w0 := w0 + 1
    if w0 == 0 then
      let w1 := w1 + 1
      if w1 == 0 then
        let w2 := w2 + 1
        if w2 == 0 then [w0, w1, w2, w3 + 1] else [w0, w1, w2, w3]
      else [w0, w1, w2, w3]
    else [w0, w1, w2, w3]
  | ws => ws

/-- the same on the octet image of `u32 ctr[4]` -/
def incBlock (b : Bytes) : Bytes := u32To (incU32 (u32From b))

structure CtrSt where
  key : Bytes
  ctr : Bytes
  block : Bytes
  reserved : Nat

def ctrStart (C : Cipher) (key iv : Bytes) : CtrSt :=
  let k := fmtKey key
  ⟨k, C.enc k iv, zeros 16, 0⟩

def ctrStepE (C : Cipher) (st : CtrSt) (buf : Bytes) : CtrSt × Bytes :=
  if st.reserved ≠ 0 ∧ st.reserved ≥ buf.length then
    let off := 16 - st.reserved
    ({ st with reserved := st.reserved - buf.length }, xorb buf ((st.block.drop off).take buf.length))
  else
    let off := 16 - st.reserved
    let head := if st.reserved ≠ 0 then xorb (buf.take st.reserved) (st.block.drop off) else []
    let buf := if st.reserved ≠ 0 then buf.drop st.reserved else buf
    let l := fullBlocks 16 (fun (s : Bytes × Bytes) b =>
        let ctr := incBlock s.1
        let g := C.enc st.key ctr
        ((ctr, g), xorb b g)) (st.ctr, st.block) buf
    let r := l.2.2
    if r.length ≠ 0 then
      let ctr := incBlock l.1.1
      let g := C.enc st.key ctr
      ({ st with ctr := ctr, block := g, reserved := 16 - r.length }, head ++ l.2.1 ++ xorb r (g.take r.length))
    else ({ st with ctr := l.1.1, block := l.1.2, reserved := 0 }, head ++ l.2.1)

def ctrCrypt (C : Cipher) (src key iv : Bytes) : Err × Option Bytes :=
  if !validKeyLen key.length then (.badInput, none)
  else (.ok, some (ctrStepE C (ctrStart C key iv) src).2)

/-! ### MAC -/

structure MacSt where
  key : Bytes
  s : Bytes
  r : Bytes
  mac : Bytes
  block : Bytes
  filled : Nat

def macStart (C : Cipher) (key : Bytes) : MacSt :=
  let k := fmtKey key
  ⟨k, zeros 16, C.enc k (zeros 16), zeros 16, zeros 16, 0⟩

def macStepA (C : Cipher) (st : MacSt) (buf : Bytes) : MacSt :=
  -- accumulate a full block
  if st.filled < 16 ∧ buf.length ≤ 16 - st.filled then
    { st with block := putAt st.block st.filled buf, filled := st.filled + buf.length }
  else
    let take := if st.filled < 16 then 16 - st.filled else 0
    let blk0 := if st.filled < 16 then putAt st.block st.filled (buf.take take) else st.block
    let buf := buf.drop take
    -- full blocks: s <- E(s ^ block); block <- next 16 octets
    let l := fullBlocks 16 (fun (sb : Bytes × Bytes) b => ((C.enc st.key (xorb sb.1 sb.2), b), [])) (st.s, blk0) buf
    let r := l.2.2
    if r.length ≠ 0 then
      let s := C.enc st.key (xorb l.1.1 l.1.2)
      { st with s := s, block := putAt l.1.2 0 r, filled := r.length }
    else { st with s := l.1.1, block := l.1.2, filled := 16 }

/-- `beltMACStepG_internal` -/
def macStepGInternal (C : Cipher) (st : MacSt) : MacSt :=
  let r0 := st.r.take 4
  let r1 := (st.r.drop 4).take 4
  let r2 := (st.r.drop 8).take 4
  let r3 := (st.r.drop 12).take 4
  if st.filled == 16 then
    let m := xorb st.s st.block
    let m := xorb m (r1 ++ r2 ++ r3 ++ xorb r0 r1)
    { st with mac := C.enc st.key m }
  else
    let blk := st.block.take st.filled ++ [0x80] ++ zeros (16 - st.filled - 1)
    let m := xorb st.s blk
    let m := xorb m (xorb r0 r3 ++ r0 ++ r1 ++ r2)
    { st with block := blk, mac := C.enc st.key m }

/-- `beltMACStepG2(mac, mac_len, state)` -/
def macStepG (C : Cipher) (st : MacSt) (macLen : Nat) : MacSt × Bytes :=
  let st := macStepGInternal C st
  (st, st.mac.take macLen)

/-- `beltMACStepV2(mac, mac_len, state)` -/
def macStepV (C : Cipher) (st : MacSt) (mac : Bytes) : MacSt × Bool :=
  let st := macStepGInternal C st
  (st, decide (mac = st.mac.take mac.length))

def macHL (C : Cipher) (src key : Bytes) : Err × Option Bytes :=
  if !validKeyLen key.length then (.badInput, none)
  else (.ok, some (macStepG C (macStepA C (macStart C key) src) 8).2)

/-! ### BDE -/

/-- `beltBlockMulC` on four u32 words -/
def mulCW : List UInt32 → List UInt32
  | [w0, w1, w2, w3] =>
    let t := ~~~((w3 >>> 31) - 1) &&& 0x00000087
    let w3 := (w3 <<< 1) ^^^ (w2 >>> 31)
    let w2 := (w2 <<< 1) ^^^ (w1 >>> 31)
    let w1 := (w1 <<< 1) ^^^ (w0 >>> 31)
    let w0 := (w0 <<< 1) ^^^ t
    [w0, w1, w2, w3]
  | ws => ws

def mulC (b : Bytes) : Bytes := u32To (mulCW (u32From b))

structure BdeSt where
  key : Bytes
  s : Bytes
  block : Bytes

def bdeStart (C : Cipher) (key iv : Bytes) : BdeSt :=
  let k := fmtKey key
  ⟨k, C.enc k iv, zeros 16⟩

def bdeStepE (C : Cipher) (st : BdeSt) (buf : Bytes) : BdeSt × Bytes :=
  let l := fullBlocks 16 (fun (s : Bytes) b =>
      let s := mulC s
      (s, xorb (C.enc st.key (xorb b s)) s)) st.s buf
  ({ st with s := l.1, block := if buf.length ≥ 16 then l.1 else st.block }, l.2.1 ++ l.2.2)

def bdeStepD (C : Cipher) (st : BdeSt) (buf : Bytes) : BdeSt × Bytes :=
  let l := fullBlocks 16 (fun (s : Bytes) b =>
      let s := mulC s
      (s, xorb (C.dec st.key (xorb b s)) s)) st.s buf
  ({ st with s := l.1, block := if buf.length ≥ 16 then l.1 else st.block }, l.2.1 ++ l.2.2)

def bdeEncr (C : Cipher) (src key iv : Bytes) : Err × Option Bytes :=
  if src.length % 16 ≠ 0 || src.length < 16 || !validKeyLen key.length then (.badInput, none)
  else (.ok, some (bdeStepE C (bdeStart C key iv) src).2)

def bdeDecr (C : Cipher) (src key iv : Bytes) : Err × Option Bytes :=
  if src.length % 16 ≠ 0 || src.length < 16 || !validKeyLen key.length then (.badInput, none)
  else (.ok, some (bdeStepD C (bdeStart C key iv) src).2)

end Bee2V.C01

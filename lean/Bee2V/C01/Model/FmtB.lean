/-
C01 model: belt_fmt.c, block count `beltFMTCalcB` -- the 128-bit truncated arithmetic of the C routine with the
constants regenerated from the source (Bee2V.Gen.C01Fmt).  Kept in a module of its own that imports nothing but
those constants: the kernel-checked rows of the table (Lemmas/FmtTable*.lean, ~1 CPU-hour) then need a rebuild only
when beltFMTCalcB itself changes.
-/
import Bee2V.Gen.C01Fmt
namespace Bee2V.C01
open Bee2V.Gen.C01

def M128 : Nat := 2 ^ 128

/-- bit length: `B_PER_W - wordCLZ((word)mod)` -/
def bitLen (n : Nat) : Nat := if n = 0 then 0 else Nat.log2 n + 1

/-- the general path of `beltFMTCalcB` (after the special cases): all `zz*` calls work on
`m = W_OF_B(128)` words, i.e. modulo 2^128; returns `den[0]` of a 64-bit-word build -/
def calcBGeneral (mod count : Nat) : Nat :=
  let k := bitLen mod
  let k := if 2 ^ k - mod > mod - 2 ^ (k - 1) then k - 1 else k
  let t0 := 2 ^ (3 * k) % M128
  let t1 := 2 ^ (2 * k) % M128 * mod % M128
  let t2 := 2 ^ k % M128 * mod % M128 * mod % M128
  let t3 := mod * mod % M128 * mod % M128
  let den := (t0 + t3) % M128
  let t4 := (t1 + t2) % M128 * fmtK0 % M128
  let den := (den + t4) % M128
  let num := den * fmtK1 % M128 * k % M128
  let t3 := t3 * fmtK2 % M128
  let num := (num + t3) % M128
  let t2 := t2 * fmtK3 % M128
  let num := (num + t2) % M128
  let t1 := t1 * fmtK4 % M128
  let num := (num + M128 - t1) % M128
  let t0 := t0 * fmtK5 % M128
  let num := (num + M128 - t0) % M128
  let num := num * count % M128
  let den := den * fmtK6 % M128 * fmtK7 % M128
  let num := (num + den) % M128
  let num := (num + M128 - 1) % M128
  (num / den) % 2 ^ 64

/-- `beltFMTCalcB(mod, count)` -/
def calcB (mod count : Nat) : Nat :=
  match fmtSpecial.find? (fun s => s.1 == mod && s.2.1 == count) with
  | some s => s.2.2
  | none =>
    if mod == 65536 then (fmt65536.1 * count + fmt65536.2.1) / fmt65536.2.2
    else calcBGeneral mod count

end Bee2V.C01

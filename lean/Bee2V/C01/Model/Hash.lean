/-
C01 model: belt_compr.c, belt_hash.c, belt_hmac.c, belt_krp.c, belt_pbkdf.c
-/
import Bee2V.C01.Model.Modes
import Bee2V.C01.Model.Lcl
namespace Bee2V.C01
open Bee2V.Gen.C01

def negb (a : Bytes) : Bytes := a.map (fun x => ~~~x)

/-- `beltCompr2(s, h, X, stack)`: returns (s', h'); `h`, `X` are 32-octet images of u32[8] -/
def compr2 (C : Cipher) (s h X : Bytes) : Bytes × Bytes :=
  let h0 := h.take 16
  let h1 := h.drop 16
  let x0 := X.take 16
  let x1 := X.drop 16
  let u := xorb h0 h1                       -- buf0, buf1 <- h0 + h1
  let buf0 := xorb (C.enc X u) u             -- buf0 <- beltBlock(buf0, X) + buf1
  let s := xorb s buf0
  -- K1 = buf0 || h1 ; h0 <- E_K1(X0) + X0
  let nh0 := xorb (C.enc (buf0 ++ h1) x0) x0
  -- K2 = ~buf0 || h0 ; h1 <- E_K2(X1) + X1
  let nh1 := xorb (C.enc (negb buf0 ++ h0) x1) x1
  (s, nh0 ++ nh1)

/-- `beltCompr(h, X, stack)` -/
def compr (C : Cipher) (h X : Bytes) : Bytes := (compr2 C (zeros 16) h X).2

def hInit : Bytes := H.toList.take 32

structure HashSt where
  ls : Bytes        -- [4]len || [4]s  (32 octets)
  s1 : Bytes
  h : Bytes
  h1 : Bytes
  block : Bytes
  filled : Nat

def hashStart : HashSt := ⟨zeros 32, zeros 16, hInit, zeros 32, zeros 32, 0⟩

/-- the buffering scheme shared by `beltHashStepH` and `beltHMACStepA` (32-octet blocks):
`sh` = (s, h); returns the new (s, h, block, filled) -/
def absorb32 (C : Cipher) (s h block : Bytes) (filled : Nat) (buf : Bytes) : Bytes × Bytes × Bytes × Nat :=
  if filled ≠ 0 ∧ buf.length < 32 - filled then
    (s, h, putAt block filled buf, filled + buf.length)
  else
    let take := if filled ≠ 0 then 32 - filled else 0
    let blk0 := if filled ≠ 0 then putAt block filled (buf.take take) else block
    let sh := if filled ≠ 0 then compr2 C s h blk0 else (s, h)
    let buf := buf.drop take
    let l := fullBlocks 32 (fun (st : Bytes × Bytes × Bytes) b =>
        let r := compr2 C st.1 st.2.1 b
        ((r.1, r.2, b), [])) (sh.1, sh.2, blk0) buf
    let r := l.2.2
    if r.length ≠ 0 then (l.1.1, l.1.2.1, putAt l.1.2.2 0 r, r.length)
    else (l.1.1, l.1.2.1, l.1.2.2, 0)

def hashStepH (C : Cipher) (st : HashSt) (buf : Bytes) : HashSt :=
  let len := addBitSizeBlock (st.ls.take 16) buf.length
  let r := absorb32 C (st.ls.drop 16) st.h st.block st.filled buf
  { st with ls := len ++ r.1, h := r.2.1, block := r.2.2.1, filled := r.2.2.2 }

/-- `beltHashStepG_internal` -/
def hashStepGInternal (C : Cipher) (st : HashSt) : HashSt :=
  let s := st.ls.drop 16
  if st.filled ≠ 0 then
    let blk := st.block.take st.filled ++ zeros (32 - st.filled)
    let r := compr2 C s st.h blk
    let h1 := compr C r.2 (st.ls.take 16 ++ r.1)
    { st with s1 := s, h1 := h1, block := blk }
  else
    { st with s1 := s, h1 := compr C st.h st.ls }

def hashStepG (C : Cipher) (st : HashSt) (n : Nat) : HashSt × Bytes :=
  let st := hashStepGInternal C st
  (st, st.h1.take n)

def hashStepV (C : Cipher) (st : HashSt) (hash : Bytes) : HashSt × Bool :=
  let st := hashStepGInternal C st
  (st, decide (hash = st.h1.take hash.length))

def hashHL (C : Cipher) (src : Bytes) : Err × Option Bytes :=
  (.ok, some (hashStepG C (hashStepH C hashStart src) 32).2)

/-! ### HMAC -/

structure HmacSt where
  ls_in : Bytes
  h_in : Bytes
  h1_in : Bytes
  ls_out : Bytes
  h_out : Bytes
  h1_out : Bytes
  s1 : Bytes
  block : Bytes
  filled : Nat

def hmacStart (C : Cipher) (key : Bytes) : HmacSt :=
  -- key <- key || 0   or   key <- beltHash(key)
  let blk :=
    if key.length ≤ 32 then key ++ zeros (32 - key.length)
    else
      let len := addBitSizeBlock (zeros 16) key.length
      let l := fullBlocks 32 (fun (sh : Bytes × Bytes) b => (compr2 C sh.1 sh.2 b, [])) (zeros 16, hInit) key
      let r := l.2.2
      let sh := if r.length ≠ 0 then compr2 C l.1.1 l.1.2 (r ++ zeros (32 - r.length)) else l.1
      compr C sh.2 (len ++ sh.1)
  let ipad := blk.map (fun x => x ^^^ 0x36)
  let len_in := addBitSizeBlock (zeros 16) 32
  let r_in := compr2 C (zeros 16) hInit ipad
  let opad := ipad.map (fun x => x ^^^ 0x6A)
  let len_out := addBitSizeBlock (zeros 16) 64
  let r_out := compr2 C (zeros 16) hInit opad
  ⟨len_in ++ r_in.1, r_in.2, zeros 32, len_out ++ r_out.1, r_out.2, zeros 32, zeros 16, opad, 0⟩

def hmacStepA (C : Cipher) (st : HmacSt) (buf : Bytes) : HmacSt :=
  let len := addBitSizeBlock (st.ls_in.take 16) buf.length
  let r := absorb32 C (st.ls_in.drop 16) st.h_in st.block st.filled buf
  { st with ls_in := len ++ r.1, h_in := r.2.1, block := r.2.2.1, filled := r.2.2.2 }

def hmacStepGInternal (C : Cipher) (st : HmacSt) : HmacSt :=
  let s := st.ls_in.drop 16
  let (blk, h1_in) :=
    if st.filled ≠ 0 then
      let blk := st.block.take st.filled ++ zeros (32 - st.filled)
      let r := compr2 C s st.h_in blk
      (blk, compr C r.2 (st.ls_in.take 16 ++ r.1))
    else (st.block, compr C st.h_in st.ls_in)
  let so := st.ls_out.drop 16
  let r := compr2 C so st.h_out h1_in
  let h1_out := compr C r.2 (st.ls_out.take 16 ++ r.1)
  { st with h1_in := h1_in, h1_out := h1_out, s1 := so, block := blk }

def hmacStepG (C : Cipher) (st : HmacSt) (n : Nat) : HmacSt × Bytes :=
  let st := hmacStepGInternal C st
  (st, st.h1_out.take n)

def hmacStepV (C : Cipher) (st : HmacSt) (mac : Bytes) : HmacSt × Bool :=
  let st := hmacStepGInternal C st
  (st, decide (mac = st.h1_out.take mac.length))

def hmacHL (C : Cipher) (src key : Bytes) : Err × Option Bytes :=
  (.ok, some (hmacStepG C (hmacStepA C (hmacStart C key) src) 32).2)

/-! ### KRP -/

structure KrpSt where
  key : Bytes
  len : Nat
  level : Bytes

def krpStart (key level : Bytes) : KrpSt := ⟨fmtKey key, key.length, level⟩

/-- `beltKRPStepG(key_, key_len, header, state)` -/
def krpStepG (C : Cipher) (st : KrpSt) (keyLen : Nat) (header : Bytes) : Bytes :=
  let r := (H.toList.drop (4 * (st.len - 16) + 2 * (keyLen - 16))).take 4
  let block := r ++ st.level ++ header
  (compr C st.key block).take keyLen

def krpHL (C : Cipher) (m : Nat) (src level header : Bytes) : Err × Option Bytes :=
  let n := src.length
  if m > n || !validKeyLen m || !validKeyLen n then (.badInput, none)
  else (.ok, some (krpStepG C (krpStart src level) m header))

/-! ### PBKDF2 -/

def pbkdfLoop (C : Cipher) (pwd : Bytes) : Nat → Bytes → Bytes → Bytes
  | 0, key, _ => key
  | n + 1, key, t =>
    let t := (hmacStepG C (hmacStepA C (hmacStart C pwd) t) 32).2
    pbkdfLoop C pwd n (xorb key t) t

def pbkdf2 (C : Cipher) (pwd : Bytes) (iter : Nat) (salt : Bytes) : Err × Option Bytes :=
  if iter == 0 then (.badInput, none)
  else
    let st := hmacStepA C (hmacStepA C (hmacStart C pwd) salt) [0, 0, 0, 1]
    let key := (hmacStepG C st 32).2
    (.ok, some (pbkdfLoop C pwd (iter - 1) key key))

end Bee2V.C01

/-
C01 model, layer 0: octet strings, little-endian loads/stores, xor of buffers.
No Mathlib.  Buffers are `List UInt8`; a `u32[4]` / `word[]` field of a C state is modelled by
its little-endian octet image (the only platform built here is little-endian; the
`#if (OCTET_ORDER == BIG_ENDIAN)` arms are not modelled).
-/
namespace Bee2V.C01

abbrev Bytes := List UInt8

/-- `memXor2`/`beltBlockXor2`-style xor of two buffers (result has the length of the shorter one) -/
def xorb (a b : Bytes) : Bytes := List.zipWith (· ^^^ ·) a b

/-- `memXor2(dest, src, count)` where `dest` is longer than `count`: only the first `src.length` octets change -/
def xorPrefix (dest src : Bytes) : Bytes := xorb dest src ++ dest.drop src.length

def zeros (n : Nat) : Bytes := List.replicate n 0

/-- little-endian u32 load (`u32From` on a little-endian platform = the cast) -/
def ld32 (b0 b1 b2 b3 : UInt8) : UInt32 :=
  UInt32.ofNat (b0.toNat + 256 * b1.toNat + 65536 * b2.toNat + 16777216 * b3.toNat)

/-- little-endian u32 store -/
def st32 (w : UInt32) : Bytes :=
  [UInt8.ofNat (w.toNat % 256), UInt8.ofNat (w.toNat / 256 % 256),
   UInt8.ofNat (w.toNat / 65536 % 256), UInt8.ofNat (w.toNat / 16777216 % 256)]

/-- `u32From(dest, src, count)` for `count % 4 == 0` (all uses in belt) -/
def u32From : Bytes → List UInt32
  | b0 :: b1 :: b2 :: b3 :: rest => ld32 b0 b1 b2 b3 :: u32From rest
  | _ => []

/-- `u32To(dest, 4 * n, src)` -/
def u32To : List UInt32 → Bytes
  | [] => []
  | w :: ws => st32 w ++ u32To ws

/-- little-endian octets -> Nat -/
def leNat : Bytes → Nat
  | [] => 0
  | b :: bs => b.toNat + 256 * leNat bs

/-- Nat -> n little-endian octets (truncating) -/
def natLE : Nat → Nat → Bytes
  | 0, _ => []
  | n + 1, v => UInt8.ofNat (v % 256) :: natLE n (v / 256)

/-- split a buffer into 16-octet blocks; the last element may be shorter (the ragged tail) -/
def chunks16 (b : Bytes) : List Bytes :=
  if h : b.length ≤ 16 then (if b.isEmpty then [] else [b])
  else b.take 16 :: chunks16 (b.drop 16)
termination_by b.length
decreasing_by simp only [List.length_drop]; omega

/-- The block loops of the C sources,
`while (cond(count)) { body(block of bs octets at buf); buf += bs; count -= bs; }`,
as a recursion over the not-yet-processed rest of the buffer, carrying the mode state `s`.
`fuel` (= initial count) bounds the number of iterations; every iteration consumes `bs ≥ 1` octets.
Returns (final state, processed octets, untouched rest). -/
def blockLoop {σ : Type} (bs : Nat) (cond : Nat → Bool) (body : σ → Bytes → σ × Bytes) :
    Nat → σ → Bytes → σ × Bytes × Bytes
  | 0, s, rest => (s, [], rest)
  | fuel + 1, s, rest =>
    if cond rest.length then
      let r := body s (rest.take bs)
      let t := blockLoop bs cond body fuel r.1 (rest.drop bs)
      (t.1, r.2 ++ t.2.1, t.2.2)
    else (s, [], rest)

/-- `while (count >= bs) …` -/
def fullBlocks {σ : Type} (bs : Nat) (body : σ → Bytes → σ × Bytes) (s : σ) (buf : Bytes) : σ × Bytes × Bytes :=
  blockLoop bs (fun n => decide (bs ≤ n)) body buf.length s buf

end Bee2V.C01

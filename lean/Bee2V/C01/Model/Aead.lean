/-
C01 model: belt_dwp.c, belt_che.c.  `w` = B_PER_W of the build (selects the variant of
beltHalfBlockAddBitSizeW).
-/
import Bee2V.C01.Model.Modes
import Bee2V.C01.Model.Lcl
namespace Bee2V.C01
open Bee2V.Gen.C01

/-- the authenticated-data accumulator shared by DWP and CHE -/
structure PolySt where
  r : Bytes
  t : Bytes
  t1 : Bytes
  len : Bytes       -- 16 octets: <|I|>_64 || <|X|>_64
  block : Bytes
  filled : Nat

/-- `t <- (t ^ block) * r` -/
def polyStep (r t blk : Bytes) : Bytes := polyMul (xorb t blk) r

/-- the buffering scheme shared by StepI and StepA (after the length update) -/
def absorb16 (st : PolySt) (buf : Bytes) : PolySt :=
  if st.filled ≠ 0 ∧ buf.length < 16 - st.filled then
    { st with block := putAt st.block st.filled buf, filled := st.filled + buf.length }
  else
    let take := if st.filled ≠ 0 then 16 - st.filled else 0
    let blk0 := if st.filled ≠ 0 then putAt st.block st.filled (buf.take take) else st.block
    let t0 := if st.filled ≠ 0 then polyStep st.r st.t blk0 else st.t
    let buf := buf.drop take
    let l := fullBlocks 16 (fun (tb : Bytes × Bytes) b => ((polyStep st.r tb.1 b, b), [])) (t0, blk0) buf
    let r := l.2.2
    if r.length ≠ 0 then { st with t := l.1.1, block := putAt l.1.2 0 r, filled := r.length }
    else { st with t := l.1.1, block := l.1.2, filled := 0 }

def polyStepI (w : Nat) (st : PolySt) (buf : Bytes) : PolySt :=
  let st := { st with len := addBitSizeW w (st.len.take 8) buf.length ++ st.len.drop 8 }
  absorb16 st buf

def polyStepA (w : Nat) (st : PolySt) (buf : Bytes) : PolySt :=
  -- first non-empty fragment of critical data and pending open data?
  let st := if buf.length ≠ 0 ∧ st.len.drop 8 = zeros 8 ∧ st.filled ≠ 0 then
      let blk := st.block.take st.filled ++ zeros (16 - st.filled)
      { st with block := blk, t := polyStep st.r st.t blk, filled := 0 }
    else st
  let st := { st with len := st.len.take 8 ++ addBitSizeW w (st.len.drop 8) buf.length }
  absorb16 st buf

/-- `StepG_internal` up to the final block encryption: returns the state and the block to encrypt -/
def polyFinish (st : PolySt) : PolySt × Bytes :=
  let (st, t1) :=
    if st.filled ≠ 0 then
      let blk := st.block.take st.filled ++ zeros (16 - st.filled)
      ({ st with block := blk }, polyStep st.r st.t blk)
    else (st, st.t)
  (st, polyStep st.r t1 st.len)

/-! ### DWP -/

structure DwpSt where
  ctr : CtrSt
  p : PolySt

def dwpStart (C : Cipher) (key iv : Bytes) : DwpSt :=
  let c := ctrStart C key iv
  ⟨c, ⟨C.enc c.key c.ctr, H.toList.take 16, zeros 16, zeros 16, zeros 16, 0⟩⟩

def dwpStepE (C : Cipher) (st : DwpSt) (buf : Bytes) : DwpSt × Bytes :=
  let r := ctrStepE C st.ctr buf
  ({ st with ctr := r.1 }, r.2)

def dwpStepI (w : Nat) (st : DwpSt) (buf : Bytes) : DwpSt := { st with p := polyStepI w st.p buf }
def dwpStepA (w : Nat) (st : DwpSt) (buf : Bytes) : DwpSt := { st with p := polyStepA w st.p buf }

def dwpStepGInternal (C : Cipher) (st : DwpSt) : DwpSt :=
  let f := polyFinish st.p
  { st with p := { f.1 with t1 := C.enc st.ctr.key f.2 } }

def dwpStepG (C : Cipher) (st : DwpSt) : DwpSt × Bytes :=
  let st := dwpStepGInternal C st
  (st, st.p.t1.take 8)

def dwpStepV (C : Cipher) (st : DwpSt) (mac : Bytes) : DwpSt × Bool :=
  let st := dwpStepGInternal C st
  (st, decide (mac = st.p.t1.take 8))

/-- `beltDWPWrap`: (err, dest, mac) -/
def dwpWrap (C : Cipher) (w : Nat) (src1 src2 key iv : Bytes) : Err × Option (Bytes × Bytes) :=
  if !validKeyLen key.length then (.badInput, none)
  else
    let st := dwpStart C key iv
    let st := dwpStepI w st src2
    let e := dwpStepE C st src1
    let st := dwpStepA w e.1 e.2
    (.ok, some (e.2, (dwpStepG C st).2))

/-- `beltDWPUnwrap`: dest is written only after the tag has been verified -/
def dwpUnwrap (C : Cipher) (w : Nat) (src1 src2 mac key iv : Bytes) : Err × Option Bytes :=
  if !validKeyLen key.length then (.badInput, none)
  else
    let st := dwpStart C key iv
    let st := dwpStepI w st src2
    let st := dwpStepA w st src1
    let v := dwpStepV C st mac
    if !v.2 then (.badMac, none)
    else (.ok, some (dwpStepE C v.1 src1).2)

/-! ### CHE -/

structure CheSt where
  key : Bytes
  s : Bytes
  p : PolySt
  block1 : Bytes
  reserved : Nat

def cheStart (C : Cipher) (key iv : Bytes) : CheSt :=
  let k := fmtKey key
  let r := C.enc k iv
  ⟨k, r, ⟨r, H.toList.take 16, zeros 16, zeros 16, zeros 16, 0⟩, zeros 16, 0⟩

/-- `beltBlockMulC(st->s), st->s[0] ^= 0x00000001` -/
def cheNextS (s : Bytes) : Bytes :=
  match mulC s with
  | b0 :: rest => (b0 ^^^ 1) :: rest
  | [] => []

def cheStepE (C : Cipher) (st : CheSt) (buf : Bytes) : CheSt × Bytes :=
  if st.reserved ≠ 0 ∧ st.reserved ≥ buf.length then
    let off := 16 - st.reserved
    ({ st with reserved := st.reserved - buf.length }, xorb buf ((st.block1.drop off).take buf.length))
  else
    let off := 16 - st.reserved
    let head := if st.reserved ≠ 0 then xorb (buf.take st.reserved) (st.block1.drop off) else []
    let buf := if st.reserved ≠ 0 then buf.drop st.reserved else buf
    let l := fullBlocks 16 (fun (sb : Bytes × Bytes) b =>
        let s := cheNextS sb.1
        let g := C.enc st.key s
        ((s, g), xorb b g)) (st.s, st.block1) buf
    let r := l.2.2
    if r.length ≠ 0 then
      let s := cheNextS l.1.1
      let g := C.enc st.key s
      ({ st with s := s, block1 := g, reserved := 16 - r.length }, head ++ l.2.1 ++ xorb r (g.take r.length))
    else ({ st with s := l.1.1, block1 := l.1.2, reserved := 0 }, head ++ l.2.1)

def cheStepI (w : Nat) (st : CheSt) (buf : Bytes) : CheSt := { st with p := polyStepI w st.p buf }
def cheStepA (w : Nat) (st : CheSt) (buf : Bytes) : CheSt := { st with p := polyStepA w st.p buf }

def cheStepGInternal (C : Cipher) (st : CheSt) : CheSt :=
  let f := polyFinish st.p
  { st with p := { f.1 with t1 := C.enc st.key f.2 } }

def cheStepG (C : Cipher) (st : CheSt) : CheSt × Bytes :=
  let st := cheStepGInternal C st
  (st, st.p.t1.take 8)

def cheStepV (C : Cipher) (st : CheSt) (mac : Bytes) : CheSt × Bool :=
  let st := cheStepGInternal C st
  (st, decide (mac = st.p.t1.take 8))

def cheWrap (C : Cipher) (w : Nat) (src1 src2 key iv : Bytes) : Err × Option (Bytes × Bytes) :=
  if !validKeyLen key.length then (.badInput, none)
  else
    let st := cheStart C key iv
    let st := cheStepI w st src2
    let e := cheStepE C st src1
    let st := cheStepA w e.1 e.2
    (.ok, some (e.2, (cheStepG C st).2))

def cheUnwrap (C : Cipher) (w : Nat) (src1 src2 mac key iv : Bytes) : Err × Option Bytes :=
  if !validKeyLen key.length then (.badInput, none)
  else
    let st := cheStart C key iv
    let st := cheStepI w st src2
    let st := cheStepA w st src1
    let v := cheStepV C st mac
    if !v.2 then (.badMac, none)
    else (.ok, some (cheStepE C v.1 src1).2)

end Bee2V.C01

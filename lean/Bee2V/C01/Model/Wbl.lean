/-
C01 model: belt_wbl.c (Base and Opt editions as separate definitions, the dispatch of
beltWBLStepE/D/R, beltWBLStepD2), belt_kwp.c, belt_sde.c
-/
import Bee2V.C01.Model.Modes
namespace Bee2V.C01

def getBlk (buf : Bytes) (i : Nat) : Bytes := (buf.drop i).take 16
/-- `beltBlockXor2(buf + i, x)` -/
def xorAt (buf : Bytes) (i : Nat) (x : Bytes) : Bytes := putAt buf i (xorb (getBlk buf i) x)

/-- `for (i = i0; i + stop < count; i += 16) acc ^= buf[i .. i+16)`; returns (acc, final i) -/
def xorBlocksFrom (buf : Bytes) (stop : Nat) : Nat → Nat → Bytes → Bytes × Nat
  | 0, i, acc => (acc, i)
  | f + 1, i, acc =>
    if i + stop < buf.length then xorBlocksFrom buf stop f (i + 16) (xorb acc (getBlk buf i)) else (acc, i)

/-- `block <- beltBlockEncr(block) + <round>` : `memXor2(st->block, &st->round, O_PER_W)`; the round
number stays below 2^32 for every buffer that fits in memory, so the 4- and 8-octet images agree -/
def encRound (C : Cipher) (key blk : Bytes) (round : Nat) : Bytes :=
  xorPrefix (C.enc key blk) (natLE 8 round)

/-- number of 128-bit blocks: `word n = ((word)count + 15) / 16` -/
def wblN (count : Nat) : Nat := (count + 15) / 16

/-- one iteration of the do-loop of `beltWBLStepEBase` -/
def wblRoundEBase (C : Cipher) (key buf : Bytes) (round : Nat) : Bytes × Nat :=
  let count := buf.length
  let s := (xorBlocksFrom buf 16 count 16 (buf.take 16)).1     -- block <- r1 + ... + r_{n-1}
  let buf := buf.drop 16 ++ s                                   -- r <- ShLo^128(r); r* <- block
  let round := round + 1
  let blk := encRound C key s round
  (xorAt buf (count - 32) blk, round)

def wblIterEBase (C : Cipher) (key : Bytes) (n2 : Nat) : Nat → Bytes → Nat → Bytes × Nat
  | 0, buf, round => (buf, round)
  | f + 1, buf, round =>
    let r := wblRoundEBase C key buf round
    if r.2 % n2 ≠ 0 then wblIterEBase C key n2 f r.1 r.2 else r

/-- `beltWBLStepEBase(buf, count, state)` starting at `st->round = round` -/
def wblStepEBase (C : Cipher) (key buf : Bytes) (round : Nat) : Bytes × Nat :=
  let n2 := 2 * wblN buf.length
  wblIterEBase C key n2 n2 buf round

/-- one iteration of the do-loop of `beltWBLStepEOpt`; carried: buf, sum, i, round -/
def wblRoundEOpt (C : Cipher) (key : Bytes) (st : Bytes × Bytes × Nat × Nat) : Bytes × Bytes × Nat × Nat :=
  let buf := st.1
  let sum := st.2.1
  let i := st.2.2.1
  let count := buf.length
  let round := st.2.2.2 + 1
  let blk := encRound C key sum round
  let j := (i + count - 16) % count
  let buf := xorAt buf j blk                       -- r* <- r* + block
  let saved := sum
  let sum := xorb sum (getBlk buf j)
  let sum := xorb sum (getBlk buf i)
  let buf := putAt buf i saved
  (buf, sum, (i + 16) % count, round)

def wblIterEOpt (C : Cipher) (key : Bytes) (n2 : Nat) : Nat → Bytes × Bytes × Nat × Nat → Bytes × Bytes × Nat × Nat
  | 0, st => st
  | f + 1, st =>
    let r := wblRoundEOpt C key st
    if r.2.2.2 % n2 ≠ 0 then wblIterEOpt C key n2 f r else r

def wblStepEOpt (C : Cipher) (key buf : Bytes) (round : Nat) : Bytes × Nat :=
  let n2 := 2 * wblN buf.length
  let sum := (xorBlocksFrom buf 16 buf.length 16 (buf.take 16)).1
  let r := wblIterEOpt C key n2 n2 (buf, sum, 0, round)
  (r.1, r.2.2.2)

/-- one iteration of the for-loop of `beltWBLStepDBase` -/
def wblRoundDBase (C : Cipher) (key buf : Bytes) (round : Nat) : Bytes :=
  let count := buf.length
  let blk := getBlk buf (count - 16)                -- block <- r*
  let buf := blk ++ buf.take (count - 16)           -- r <- ShHi^128(r); r1 <- block
  let blk := encRound C key blk round
  let buf := xorAt buf (count - 16) blk             -- r* <- r* + block
  let s := (xorBlocksFrom buf 16 count 16 (buf.take 16)).1
  putAt buf 0 s

/-- `for (st->round = 2 * n; st->round; --st->round)` -/
def wblIterD (f : Bytes → Nat → Bytes) : Nat → Bytes → Bytes
  | 0, buf => buf
  | round + 1, buf => wblIterD f round (f buf (round + 1))

def wblStepDBase (C : Cipher) (key buf : Bytes) : Bytes × Nat :=
  (wblIterD (wblRoundDBase C key) (2 * wblN buf.length) buf, 0)

def wblRoundDOpt (C : Cipher) (key : Bytes) (st : Bytes × Bytes × Nat) (round : Nat) : Bytes × Bytes × Nat :=
  let buf := st.1
  let sum := st.2.1
  let i := st.2.2
  let count := buf.length
  let blk := encRound C key (getBlk buf i) round
  let buf := xorAt buf ((i + count - 16) % count) blk
  let buf := xorAt buf i sum
  let sum := xorb sum (getBlk buf ((i + count - 32) % count))
  let sum := xorb sum (getBlk buf i)
  (buf, sum, (i + count - 16) % count)

def wblIterDOpt (C : Cipher) (key : Bytes) : Nat → Bytes × Bytes × Nat → Bytes × Bytes × Nat
  | 0, st => st
  | round + 1, st => wblIterDOpt C key round (wblRoundDOpt C key st (round + 1))

def wblStepDOpt (C : Cipher) (key buf : Bytes) : Bytes × Nat :=
  let count := buf.length
  let sum := (xorBlocksFrom buf 32 count 16 (buf.take 16)).1
  ((wblIterDOpt C key (2 * wblN count) (buf, sum, count - 16)).1, 0)

/-- `beltWBLStepE`: resets the round counter, then dispatches -/
def wblStepE (C : Cipher) (key buf : Bytes) : Bytes × Nat :=
  if buf.length % 16 ≠ 0 || buf.length < 64 then wblStepEBase C key buf 0 else wblStepEOpt C key buf 0

/-- `beltWBLStepR`: no reset -/
def wblStepR (C : Cipher) (key buf : Bytes) (round : Nat) : Bytes × Nat :=
  if buf.length % 16 ≠ 0 || buf.length < 64 then wblStepEBase C key buf round else wblStepEOpt C key buf round

def wblStepD (C : Cipher) (key buf : Bytes) : Bytes × Nat :=
  if buf.length % 16 ≠ 0 || buf.length < 80 then wblStepDBase C key buf else wblStepDOpt C key buf

/-- one iteration of `beltWBLStepD2` on (buf1, buf2), `count = |buf1| + 16` -/
def wblRoundD2 (C : Cipher) (key : Bytes) (st : Bytes × Bytes) (round : Nat) : Bytes × Bytes :=
  let buf1 := st.1
  let buf2 := st.2
  let count := buf1.length + 16
  let blk := buf2                                            -- block <- r*
  let buf2 := getBlk buf1 (count - 32)                       -- memCopy(buf2, buf1 + count - 32, 16)
  let buf1 := blk ++ buf1.take (count - 32)                  -- memMove(buf1 + 16, buf1, count - 32); r1 <- block
  let blk := encRound C key blk round
  let buf2 := xorb buf2 blk
  let si := xorBlocksFrom (buf1 ++ buf2) 32 count 16 (buf1.take 16)
  let r1 := si.1
  let i := si.2
  let r1 := if i + 16 < count then
      -- memXor2(buf1, buf1 + i, count - 16 - i); memXor2(buf1 + count - 16 - i, buf2, 32 + i - count)
      let a := count - 16 - i
      xorb (r1.take a) (buf1.drop i) ++ xorb (r1.drop a) (buf2.take (32 + i - count))
    else r1
  (putAt buf1 0 r1, buf2)

def wblIterD2 (C : Cipher) (key : Bytes) : Nat → Bytes × Bytes → Bytes × Bytes
  | 0, st => st
  | round + 1, st => wblIterD2 C key round (wblRoundD2 C key st (round + 1))

def wblStepD2 (C : Cipher) (key buf1 buf2 : Bytes) : Bytes × Bytes × Nat :=
  let r := wblIterD2 C key (2 * wblN (buf1.length + 16)) (buf1, buf2)
  (r.1, r.2, 0)

/-! ### KWP -/

/-- `beltKWPWrap(dest, src, count, header, key, len)`; `header = none` is the NULL pointer -/
def kwpWrap (C : Cipher) (src : Bytes) (header : Option Bytes) (key : Bytes) : Err × Option Bytes :=
  if src.length < 16 || !validKeyLen key.length then (.badInput, none)
  else
    let buf := src ++ (match header with | some h => h | none => zeros 16)
    (.ok, some (wblStepE C (fmtKey key) buf).1)

/-- `beltKWPUnwrap`: on a header mismatch dest is zeroed (`memSetZero(dest, count - 16)`) -/
def kwpUnwrap (C : Cipher) (src : Bytes) (header : Option Bytes) (key : Bytes) : Err × Option Bytes :=
  if src.length < 32 || !validKeyLen key.length then (.badInput, none)
  else
    let count := src.length
    let r := wblStepD2 C (fmtKey key) (src.take (count - 16)) (src.drop (count - 16))
    let header2 := r.2.1
    let bad := match header with
      | some h => decide (h ≠ header2)
      | none => decide (header2 ≠ zeros 16)
    if bad then (.badKeytoken, some (zeros (count - 16))) else (.ok, some r.1)

/-! ### SDE -/

def sdeStepE (C : Cipher) (key iv buf : Bytes) : Bytes :=
  let s := C.enc key iv
  let buf := xorAt buf 0 s
  let buf := (wblStepE C key buf).1
  xorAt buf 0 s

def sdeStepD (C : Cipher) (key iv buf : Bytes) : Bytes :=
  let s := C.enc key iv
  let buf := xorAt buf 0 s
  let buf := (wblStepD C key buf).1
  xorAt buf 0 s

def sdeEncr (C : Cipher) (src key iv : Bytes) : Err × Option Bytes :=
  if src.length % 16 ≠ 0 || src.length < 32 || !validKeyLen key.length then (.badInput, none)
  else (.ok, some (sdeStepE C (fmtKey key) iv src))

def sdeDecr (C : Cipher) (src key iv : Bytes) : Err × Option Bytes :=
  if src.length % 16 ≠ 0 || src.length < 32 || !validKeyLen key.length then (.badInput, none)
  else (.ok, some (sdeStepD C (fmtKey key) iv src))

end Bee2V.C01

/-
C01 model: belt_lcl.c -- length-block arithmetic (all `#if` variants as separate definitions),
GF(2^128) multiplication (`beltPolyMul` = `ppMul` + `ppRedBelt`, modelled by their mathematical
definition: carry-less product reduced modulo x^128 + x^7 + x^2 + x + 1).
-/
import Bee2V.C01.Model.Basic
namespace Bee2V.C01

/-- `(x += y) < y` : add with carry-out on u32 -/
def addc32 (x y : UInt32) : UInt32 × UInt32 :=
  let s := x + y
  (s, if s < y then 1 else 0)

/-- `beltBlockAddBitSizeU32`, variant `#if (B_PER_S < 32)` is not compilable here; this is the
`#else` variant (size_t of 64 bits): `count` is a 64-bit size_t given as a Nat < 2^64 -/
def addBitSizeU32 (blk : List UInt32) (count : Nat) : List UInt32 :=
  match blk with
  | [b0, b1, b2, b3] =>
    let carry : UInt32 := UInt32.ofNat count <<< 3
    let t : Nat := (count % 2 ^ 64) >>> 29
    let (b0, carry) := addc32 b0 carry
    -- if ((block[1] += carry) < carry) block[1] = (u32)t; else carry = (block[1] += (u32)t) < (u32)t;
    let b1' := b1 + carry
    let (b1, carry) := if b1' < carry then (UInt32.ofNat t, carry) else addc32 b1' (UInt32.ofNat t)
    let t := t >>> 32
    let b2' := b2 + carry
    let (b2, carry) := if b2' < carry then (UInt32.ofNat t, carry) else addc32 b2' (UInt32.ofNat t)
    let t := t >>> 32
    let b3 := b3 + carry
    let b3 := b3 + UInt32.ofNat t
    [b0, b1, b2, b3]
  | ws => ws

/-- the `#if (B_PER_S < 32)` variant (16-bit size_t): modelled, compiled nowhere in this image -/
def addBitSizeU32_small (blk : List UInt32) (count : Nat) : List UInt32 :=
  match blk with
  | [b0, b1, b2, b3] =>
    let carry : UInt32 := UInt32.ofNat (count % 2 ^ 16) <<< 3
    let (b0, carry) := addc32 b0 carry
    let (b1, carry) := addc32 b1 carry
    let (b2, carry) := addc32 b2 carry
    [b0, b1, b2, b3 + carry]
  | ws => ws

def addBitSizeBlock (b : Bytes) (count : Nat) : Bytes := u32To (addBitSizeU32 (u32From b) count)

/-- `beltHalfBlockAddBitSizeW`, `B_PER_W == 64`: one 64-bit word -/
def addBitSizeW64 (half : Bytes) (count : Nat) : Bytes :=
  natLE 8 ((leNat half + (count % 2 ^ 64) * 8 % 2 ^ 64) % 2 ^ 64)

/-- `beltHalfBlockAddBitSizeW`, `B_PER_W == 32`: two 32-bit words, size_t of 64 bits -/
def addBitSizeW32 (half : Bytes) (count : Nat) : Bytes :=
  let b0 := leNat (half.take 4)
  let b1 := leNat (half.drop 4)
  let carry := (count * 8) % 2 ^ 32            -- (word)count << 3
  let t := count % 2 ^ 64
  let s0 := (b0 + carry) % 2 ^ 32
  let carry := if s0 < carry then 1 else 0
  let t := (t >>> 15) >>> 14
  let b1 := (b1 + carry) % 2 ^ 32
  let b1 := (b1 + t % 2 ^ 32) % 2 ^ 32
  natLE 4 s0 ++ natLE 4 b1

/-- `beltHalfBlockAddBitSizeW`, `B_PER_W == 16`: four 16-bit words (modelled, compiled nowhere here) -/
def addBitSizeW16 (half : Bytes) (count : Nat) : Bytes :=
  let w (i : Nat) := leNat ((half.drop (2 * i)).take 2)
  let M := 2 ^ 16
  let carry := (count * 8) % M
  let t := (count % 2 ^ 64) >>> 13
  let s0 := (w 0 + carry) % M
  let carry := if s0 < carry then 1 else 0
  let s1' := (w 1 + carry) % M
  let (s1, carry) := if s1' < carry then (t % M, carry)
    else let s := (s1' + t % M) % M; (s, if s < t % M then 1 else 0)
  let t := t >>> 16
  let s2' := (w 2 + carry) % M
  let (s2, carry) := if s2' < carry then (t % M, carry)
    else let s := (s2' + t % M) % M; (s, if s < t % M then 1 else 0)
  let t := t >>> 16
  let s3 := ((w 3 + carry) % M + t % M) % M
  natLE 2 s0 ++ natLE 2 s1 ++ natLE 2 s2 ++ natLE 2 s3

/-- word-size dispatch: `w` = B_PER_W of the build -/
def addBitSizeW (w : Nat) (half : Bytes) (count : Nat) : Bytes :=
  if w == 64 then addBitSizeW64 half count else if w == 32 then addBitSizeW32 half count else addBitSizeW16 half count

/-! ### GF(2)[x] -/

/-- carry-less product of two naturals (polynomials over GF(2)): `fuel` = bit length bound of `b` -/
def clmul (a : Nat) : Nat → Nat → Nat
  | 0, _ => 0
  | n + 1, b => (if b % 2 == 1 then a else 0) ^^^ (2 * clmul a n (b / 2))

/-- reduce a polynomial of degree < 128 + n modulo x^128 + x^7 + x^2 + x + 1, from the top bit down -/
def redBelt : Nat → Nat → Nat
  | 0, p => p
  | n + 1, p => redBelt n (if p.testBit (128 + n) then p ^^^ ((2 ^ 128 + 0x87) <<< n) else p)

/-- `beltPolyMul(c, a, b, stack)` on the octet images of the word arrays -/
def polyMul (a b : Bytes) : Bytes := natLE 16 (redBelt 128 (clmul (leNat a) 128 (leNat b)))

end Bee2V.C01

/-
C01 model, layer 1: belt_block.c -- table-driven G5/G13/G21, the macro R, the 8-round macros
E and D with their pointer-permuted registers and subkey index formulas, key expansion.
-/
import Bee2V.Gen.C01Tables
import Bee2V.C01.Model.Basic
namespace Bee2V.C01
open Bee2V.Gen.C01

/-- `#define G5(x) H5[(x) & 255] ^ H13[(x) >> 8 & 255] ^ H21[(x) >> 16 & 255] ^ H29[(x) >> 24]` -/
def G5 (x : UInt32) : UInt32 :=
  H5[(x &&& 255).toNat]! ^^^ H13[(x >>> 8 &&& 255).toNat]! ^^^ H21[(x >>> 16 &&& 255).toNat]! ^^^ H29[(x >>> 24).toNat]!
def G13 (x : UInt32) : UInt32 :=
  H13[(x &&& 255).toNat]! ^^^ H21[(x >>> 8 &&& 255).toNat]! ^^^ H29[(x >>> 16 &&& 255).toNat]! ^^^ H5[(x >>> 24).toNat]!
def G21 (x : UInt32) : UInt32 :=
  H21[(x &&& 255).toNat]! ^^^ H29[(x >>> 8 &&& 255).toNat]! ^^^ H5[(x >>> 16 &&& 255).toNat]! ^^^ H13[(x >>> 24).toNat]!

/-- the three G-blocks as one record, so that the round structure can be studied with G opaque -/
structure GFun where
  g5 : UInt32 → UInt32
  g13 : UInt32 → UInt32
  g21 : UInt32 → UInt32

def beltG : GFun := ⟨G5, G13, G21⟩

abbrev Regs := UInt32 × UInt32 × UInt32 × UInt32

/-- macro `R(a, b, c, d, K, i, subkey)`: `sk j` is `subkey(K, i, j)`; returns the new (a, b, c, d) -/
def R (g : GFun) (sk : Nat → UInt32) (i : UInt32) (a b c d : UInt32) : Regs :=
  let b := b ^^^ g.g5 (a + sk 0)
  let c := c ^^^ g.g21 (d + sk 1)
  let a := a - g.g13 (b + sk 2)
  let c := c + b
  let b := b + (g.g21 (c + sk 3) ^^^ i)
  let c := c - b
  let d := d + g.g13 (c + sk 4)
  let b := b ^^^ g.g21 (a + sk 5)
  let c := c ^^^ g.g5 (d + sk 6)
  (a, b, c, d)

/-- `#define subkey_e(K, i, j) K[(7 * (i) - 7 + (j)) % 8]` -/
def subkeyE (K : Array UInt32) (i j : Nat) : UInt32 := K[(7 * i - 7 + j) % 8]!
/-- `#define subkey_d(K, i, j) K[(7 * (i) - 1 - (j)) % 8]` -/
def subkeyD (K : Array UInt32) (i j : Nat) : UInt32 := K[(7 * i - 1 - j) % 8]!

/-- `*x ^= *y, *y ^= *x, *x ^= *y` on two distinct registers -/
def xorSwap (x y : UInt32) : UInt32 × UInt32 :=
  let x := x ^^^ y
  let y := y ^^^ x
  let x := x ^^^ y
  (x, y)

/-- macro `E(a, b, c, d, K)` with a generic round function `rf i` (= `R … (subkey_e K i) i`) -/
def encRounds (rf : Nat → UInt32 → UInt32 → UInt32 → UInt32 → Regs) (a b c d : UInt32) : Regs :=
  let (a, b, c, d) := rf 1 a b c d
  let (b, d, a, c) := rf 2 b d a c
  let (d, c, b, a) := rf 3 d c b a
  let (c, a, d, b) := rf 4 c a d b
  let (a, b, c, d) := rf 5 a b c d
  let (b, d, a, c) := rf 6 b d a c
  let (d, c, b, a) := rf 7 d c b a
  let (c, a, d, b) := rf 8 c a d b
  let (a, b) := xorSwap a b
  let (c, d) := xorSwap c d
  let (b, c) := xorSwap b c
  (a, b, c, d)

/-- macro `D(a, b, c, d, K)` -/
def decRounds (rf : Nat → UInt32 → UInt32 → UInt32 → UInt32 → Regs) (a b c d : UInt32) : Regs :=
  let (a, b, c, d) := rf 8 a b c d
  let (c, a, d, b) := rf 7 c a d b
  let (d, c, b, a) := rf 6 d c b a
  let (b, d, a, c) := rf 5 b d a c
  let (a, b, c, d) := rf 4 a b c d
  let (c, a, d, b) := rf 3 c a d b
  let (d, c, b, a) := rf 2 d c b a
  let (b, d, a, c) := rf 1 b d a c
  let (a, b) := xorSwap a b
  let (c, d) := xorSwap c d
  let (a, d) := xorSwap a d
  (a, b, c, d)

def roundE (g : GFun) (K : Array UInt32) (i : Nat) := R g (subkeyE K i) (UInt32.ofNat i)
def roundD (g : GFun) (K : Array UInt32) (i : Nat) := R g (subkeyD K i) (UInt32.ofNat i)

/-- `beltBlockEncr3` -/
def E (g : GFun) (K : Array UInt32) (a b c d : UInt32) : Regs := encRounds (roundE g K) a b c d
/-- `beltBlockDecr3` -/
def D (g : GFun) (K : Array UInt32) (a b c d : UInt32) : Regs := decRounds (roundD g K) a b c d

/-- `beltKeyExpand2` followed by the u32 view: 8 key words from 16/24/32 octets -/
def keyExpand2 (key : Bytes) : List UInt32 :=
  match u32From key with
  | [k0, k1, k2, k3] => [k0, k1, k2, k3, k0, k1, k2, k3]
  | [k0, k1, k2, k3, k4, k5] => [k0, k1, k2, k3, k4, k5, k0 ^^^ k1 ^^^ k2, k3 ^^^ k4 ^^^ k5]
  | ks => ks

/-- `beltKeyExpand` (octet version): 32 octets -/
def keyExpand (key : Bytes) : Bytes :=
  if key.length = 16 then key ++ key
  else if key.length = 24 then
    key ++ xorb (xorb (key.take 4) ((key.drop 4).take 4)) ((key.drop 8).take 4)
        ++ xorb (xorb ((key.drop 12).take 4) ((key.drop 16).take 4)) ((key.drop 20).take 4)
  else key

/-- `beltBlockEncr(block, key)` on octets with the formatted key given as 32 octets
(the little-endian image of `u32 key[8]`) -/
def blockEncr (key32 : Bytes) (blk : Bytes) : Bytes :=
  match u32From blk with
  | [a, b, c, d] =>
    let (a, b, c, d) := E beltG (u32From key32).toArray a b c d
    u32To [a, b, c, d]
  | _ => blk

def blockDecr (key32 : Bytes) (blk : Bytes) : Bytes :=
  match u32From blk with
  | [a, b, c, d] =>
    let (a, b, c, d) := D beltG (u32From key32).toArray a b c d
    u32To [a, b, c, d]
  | _ => blk

end Bee2V.C01

/-
C01 property theorems: the DWP / CHE tag is the polynomial MAC of STB 34.101.31 over
GF(2^128) = GF(2)[x]/(x^128 + x^7 + x^2 + x + 1); `beltBlockMulC` is multiplication by x.
Only property theorems and non-vacuity examples.  The standards-level definitions `Spec.polyAbsorb` / `Spec.polyMac`
and all helper lemmas are in Lemmas/Tag.lean; `gfMul` (field product on Nat-coded polynomials) is from PropsPoly.lean.

  Spec.polyAbsorb r t X = fold over the 128-bit blocks B_i of X (last one zero-padded):  t ← (t ⊕ ⟦B_i⟧) * r
  Spec.polyMac r I X    = (polyAbsorb r (polyAbsorb r ⟦H[0..16)⟧ I) X ⊕ ⟦⟨8|I|⟩_64 ‖ ⟨8|X|⟩_64⟧) * r
-/
import Bee2V.C01.Lemmas.Tag
import Bee2V.C01.PropsAead
namespace Bee2V.C01
open Bee2V.Gen.C01 Bee2V.C01.Poly

/-! ### the tag as a polynomial MAC -/

/-- `beltDWPStart; beltDWPStepI(ad); beltDWPStepA(ct); beltDWPStepG` computes
`tag = Lo_64( E_K( (…((⟦H⟧ ⊕ I_1) r ⊕ I_2) r … ⊕ X_m) r ⊕ ⟦⟨|I|⟩_64 ‖ ⟨|X|⟩_64⟧) r ) )` with `s = E_K(iv)`,
`r = E_K(s)`, products in GF(2^128), little-endian polynomial coding: the buffering of `absorb16`, the zero padding
of the last open-data block when the first critical octet arrives (or in StepG if there is no critical data), the
zero padding of the last critical block and the bit-length block all agree with the standard's formula.
For every cipher with 16-octet blocks, every key (`K = beltKeyExpand2(key)`), every word size `w` of the length
arithmetic, open data shorter than 2^64 octets (the bit length is taken modulo 2^64) and critical data shorter
than 2^61 octets. -/
theorem dwpTag_spec (C : Cipher) (hlen : ∀ k x, x.length = 16 → (C.enc k x).length = 16) (w : Nat)
    (ct ad key iv : Bytes) (hiv : iv.length = 16) (had : ad.length < 2 ^ 64) (hct : ct.length < 2 ^ 61) :
    dwpTag C w ct ad key iv =
      (C.enc (fmtKey key) (natLE 16 (Spec.polyMac (leNat (C.enc (fmtKey key) (C.enc (fmtKey key) iv))) ad ct))).take 8 := by
  have h := TagL.dwp_run C hlen w [ct] [ad] key iv hiv
    (by simp only [List.flatten_cons, List.flatten_nil, List.append_nil]; exact had)
    (by simp only [List.flatten_cons, List.flatten_nil, List.append_nil]; exact hct)
  simp only [List.flatten_cons, List.flatten_nil, List.append_nil, List.foldl_cons, List.foldl_nil] at h
  exact h

/-- The same for CHE, where `r = E_K(iv)` (and the keystream starts from `s = r`). -/
theorem cheTag_spec (C : Cipher) (hlen : ∀ k x, x.length = 16 → (C.enc k x).length = 16) (w : Nat)
    (ct ad key iv : Bytes) (hiv : iv.length = 16) (had : ad.length < 2 ^ 64) (hct : ct.length < 2 ^ 61) :
    cheTag C w ct ad key iv =
      (C.enc (fmtKey key) (natLE 16 (Spec.polyMac (leNat (C.enc (fmtKey key) iv)) ad ct))).take 8 := by
  have h := TagL.che_run C hlen w [ct] [ad] key iv hiv
    (by simp only [List.flatten_cons, List.flatten_nil, List.append_nil]; exact had)
    (by simp only [List.flatten_cons, List.flatten_nil, List.append_nil]; exact hct)
  simp only [List.flatten_cons, List.flatten_nil, List.append_nil, List.foldl_cons, List.foldl_nil] at h
  exact h

/-- Fragment independence: feeding the open data as ANY sequence of `beltDWPStepI` calls (fragments of any
lengths, including empty ones) and then the critical data as ANY sequence of `beltDWPStepA` calls yields the tag of
the concatenations, i.e. the one-shot tag. -/
theorem dwpTag_fragments (C : Cipher) (hlen : ∀ k x, x.length = 16 → (C.enc k x).length = 16) (w : Nat)
    (cts ads : List Bytes) (key iv : Bytes) (hiv : iv.length = 16) (had : ads.flatten.length < 2 ^ 64)
    (hct : cts.flatten.length < 2 ^ 61) :
    (dwpStepG C (cts.foldl (dwpStepA w) (ads.foldl (dwpStepI w) (dwpStart C key iv)))).2 =
      dwpTag C w cts.flatten ads.flatten key iv := by
  rw [dwpTag_spec C hlen w _ _ key iv hiv had hct]
  exact TagL.dwp_run C hlen w cts ads key iv hiv had hct

theorem cheTag_fragments (C : Cipher) (hlen : ∀ k x, x.length = 16 → (C.enc k x).length = 16) (w : Nat)
    (cts ads : List Bytes) (key iv : Bytes) (hiv : iv.length = 16) (had : ads.flatten.length < 2 ^ 64)
    (hct : cts.flatten.length < 2 ^ 61) :
    (cheStepG C (cts.foldl (cheStepA w) (ads.foldl (cheStepI w) (cheStart C key iv)))).2 =
      cheTag C w cts.flatten ads.flatten key iv := by
  rw [cheTag_spec C hlen w _ _ key iv hiv had hct]
  exact TagL.che_run C hlen w cts ads key iv hiv had hct

/-- `beltDWPWrap` as a whole in the terms of the standard: the ciphertext is the CTR encryption of the plaintext and
the tag is the polynomial MAC of (open data, CIPHERTEXT) under `r = E_K(E_K(iv))`, encrypted and truncated. -/
theorem dwpWrap_poly (C : Cipher) (hlen : ∀ k x, x.length = 16 → (C.enc k x).length = 16) (w : Nat)
    (src1 src2 key iv ct tag : Bytes) (hiv : iv.length = 16) (h1 : src1.length < 2 ^ 61) (h2 : src2.length < 2 ^ 64)
    (hw : dwpWrap C w src1 src2 key iv = (.ok, some (ct, tag))) :
    ct = (ctrStepE C (ctrStart C key iv) src1).2 ∧
    tag = (C.enc (fmtKey key) (natLE 16
      (Spec.polyMac (leNat (C.enc (fmtKey key) (C.enc (fmtKey key) iv))) src2 ct))).take 8 := by
  rw [dwpWrap_spec] at hw
  cases hk : validKeyLen key.length
  · simp only [hk, Bool.not_false, if_true, Prod.mk.injEq, reduceCtorEq, false_and] at hw
  · simp only [hk, Bool.not_true, Bool.false_eq_true, if_false, Prod.mk.injEq, true_and, Option.some.injEq] at hw
    have hl := Aead.length_ctrStepE C hlen (ctrStart C key iv) src1 (Nat.zero_le _) rfl (hlen _ _ hiv)
    rcases hw with ⟨e1, e2⟩
    refine ⟨e1.symm, ?_⟩
    rw [← e2, e1]
    exact dwpTag_spec C hlen w ct src2 key iv hiv h2 (by rw [← e1, hl]; exact h1)

theorem cheWrap_poly (C : Cipher) (hlen : ∀ k x, x.length = 16 → (C.enc k x).length = 16) (w : Nat)
    (src1 src2 key iv ct tag : Bytes) (hiv : iv.length = 16) (h1 : src1.length < 2 ^ 61) (h2 : src2.length < 2 ^ 64)
    (hw : cheWrap C w src1 src2 key iv = (.ok, some (ct, tag))) :
    ct = (cheStepE C (cheStart C key iv) src1).2 ∧
    tag = (C.enc (fmtKey key) (natLE 16 (Spec.polyMac (leNat (C.enc (fmtKey key) iv)) src2 ct))).take 8 := by
  rw [cheWrap_spec] at hw
  cases hk : validKeyLen key.length
  · simp only [hk, Bool.not_false, if_true, Prod.mk.injEq, reduceCtorEq, false_and] at hw
  · simp only [hk, Bool.not_true, Bool.false_eq_true, if_false, Prod.mk.injEq, true_and, Option.some.injEq] at hw
    have hl := Aead.length_cheStepE C hlen (cheStart C key iv) src1 (Nat.zero_le _) rfl (hlen _ _ hiv)
    rcases hw with ⟨e1, e2⟩
    refine ⟨e1.symm, ?_⟩
    rw [← e2, e1]
    exact cheTag_spec C hlen w ct src2 key iv hiv h2 (by rw [← e1, hl]; exact h1)

/-- non-vacuity (toy cipher `x ↦ x + 1` octet-wise): the formula evaluated in the kernel gives the tag the model
computes (PropsAead.lean: `dwpWrap aeadToyCipher 64 [1,2,3] [9] 0^16 0^16 = ([2,0,1], [11,165,224,…])`), also with
17 octets of open data / 33 octets of critical data (padding of both kinds of last blocks) -/
example : (aeadToyCipher.enc (fmtKey (zeros 16)) (natLE 16 (Spec.polyMac
    (leNat (aeadToyCipher.enc (fmtKey (zeros 16)) (aeadToyCipher.enc (fmtKey (zeros 16)) (zeros 16)))) [9] [2, 0, 1]))).take 8
    = [11, 165, 224, 242, 12, 0, 237, 121] := by decide +kernel
example : dwpTag aeadToyCipher 64 [2, 0, 1] [9] (zeros 16) (zeros 16) = [11, 165, 224, 242, 12, 0, 237, 121] := by
  decide +kernel
example :
    let ad : Bytes := (List.range 17).map UInt8.ofNat
    let ct : Bytes := (List.range 33).map UInt8.ofNat
    cheTag aeadToyCipher 32 ct ad (zeros 32) (zeros 16) =
      (aeadToyCipher.enc (fmtKey (zeros 32)) (natLE 16 (Spec.polyMac
        (leNat (aeadToyCipher.enc (fmtKey (zeros 32)) (zeros 16))) ad ct))).take 8 := by decide +kernel
/-- fragments: 17 octets of open data as 5 + 0 + 12, 33 octets of critical data as 1 + 31 + 1 -/
example :
    let ad : Bytes := (List.range 17).map UInt8.ofNat
    let ct : Bytes := (List.range 33).map UInt8.ofNat
    (dwpStepG aeadToyCipher ([ct.take 1, (ct.drop 1).take 31, ct.drop 32].foldl (dwpStepA 64)
      ([ad.take 5, [], ad.drop 5].foldl (dwpStepI 64) (dwpStart aeadToyCipher (zeros 16) (zeros 16))))).2
      = dwpTag aeadToyCipher 64 ct ad (zeros 16) (zeros 16) := by decide +kernel
/-- the MAC depends on the split between open and critical data -/
example : Spec.polyMac 2 [1] [] ≠ Spec.polyMac 2 [] [1] := by decide +kernel

/-! ### multiplication by x -/

/-- Multiplication by x in the field: shift, and reduce by x^128 = x^7 + x^2 + x + 1 when the top bit falls out. -/
theorem gfMul_x (v : Nat) (hv : v < 2 ^ 128) :
    gfMul v 2 = (2 * v % 2 ^ 128) ^^^ (if v < 2 ^ 127 then 0 else 0x87) := TagL.gfMul_two v hv

/-- `beltBlockMulC` (word-level shifts with the regular mask `~((block[3] >> 31) - 1) & 0x87`) multiplies the
128-bit block, read as a polynomial in little-endian coding, by x in GF(2^128). -/
theorem mulC_spec (b : Bytes) (h : b.length = 16) : leNat (mulC b) = gfMul (leNat b) 2 ∧ (mulC b).length = 16 :=
  TagL.mulC_val b h

/-- BDE / SDE tweaks: the tweak of block `i` is `s · x^i` (each `beltBDEStepE` block does `s ← beltBlockMulC(s)`). -/
theorem mulC_iterate_spec (s : Bytes) (h : s.length = 16) (i : Nat) :
    leNat (Nat.iterate mulC i s) = Nat.iterate (fun v => gfMul v 2) i (leNat s) ∧
      (Nat.iterate mulC i s).length = 16 := TagL.mulC_iterate s h i

/-- CHE keystream state update `beltBlockMulC(s); s[0] ^= 1` is the standard's `s ← (s * C) ⊕ ⟨1⟩_128`, C = x. -/
theorem cheNextS_spec (s : Bytes) (h : s.length = 16) :
    leNat (cheNextS s) = gfMul (leNat s) 2 ^^^ 1 ∧ (cheNextS s).length = 16 := TagL.cheNextS_val s h

example : mulC (natLE 16 (2 ^ 127)) = natLE 16 0x87 := by decide +kernel
example : mulC (natLE 16 (2 ^ 127 + 2 ^ 31 + 1)) = natLE 16 (2 ^ 32 + 2 ^^^ 0x87) := by decide +kernel
example : gfMul (2 ^ 127) 2 = 0x87 := by decide +kernel
example : cheNextS (natLE 16 3) = natLE 16 7 := by decide +kernel

/-! ### the real cipher -/

/-- The formulas for the belt block cipher itself (`beltCipher.enc = blockEncr`, the model of `beltBlockEncr`). -/
theorem belt_dwpTag_spec (w : Nat) (ct ad key iv : Bytes) (hiv : iv.length = 16) (had : ad.length < 2 ^ 64)
    (hct : ct.length < 2 ^ 61) :
    dwpTag beltCipher w ct ad key iv =
      (beltCipher.enc (fmtKey key) (natLE 16 (Spec.polyMac
        (leNat (beltCipher.enc (fmtKey key) (beltCipher.enc (fmtKey key) iv))) ad ct))).take 8 :=
  dwpTag_spec beltCipher (fun k x h => length_blockEncr k x h) w ct ad key iv hiv had hct

theorem belt_cheTag_spec (w : Nat) (ct ad key iv : Bytes) (hiv : iv.length = 16) (had : ad.length < 2 ^ 64)
    (hct : ct.length < 2 ^ 61) :
    cheTag beltCipher w ct ad key iv =
      (beltCipher.enc (fmtKey key) (natLE 16 (Spec.polyMac (leNat (beltCipher.enc (fmtKey key) iv)) ad ct))).take 8 :=
  cheTag_spec beltCipher (fun k x h => length_blockEncr k x h) w ct ad key iv hiv had hct

example : beltCipher.enc = blockEncr := rfl

theorem belt_dwpTag_fragments (w : Nat) (cts ads : List Bytes) (key iv : Bytes) (hiv : iv.length = 16)
    (had : ads.flatten.length < 2 ^ 64) (hct : cts.flatten.length < 2 ^ 61) :
    (dwpStepG beltCipher (cts.foldl (dwpStepA w) (ads.foldl (dwpStepI w) (dwpStart beltCipher key iv)))).2 =
      dwpTag beltCipher w cts.flatten ads.flatten key iv :=
  dwpTag_fragments beltCipher (fun k x h => length_blockEncr k x h) w cts ads key iv hiv had hct

theorem belt_cheTag_fragments (w : Nat) (cts ads : List Bytes) (key iv : Bytes) (hiv : iv.length = 16)
    (had : ads.flatten.length < 2 ^ 64) (hct : cts.flatten.length < 2 ^ 61) :
    (cheStepG beltCipher (cts.foldl (cheStepA w) (ads.foldl (cheStepI w) (cheStart beltCipher key iv)))).2 =
      cheTag beltCipher w cts.flatten ads.flatten key iv :=
  cheTag_fragments beltCipher (fun k x h => length_blockEncr k x h) w cts ads key iv hiv had hct

/-- non-vacuity with the real cipher: belt-dwp tag of ([1,2,3] encrypted, [9]) under the zero key / iv -/
example : (blockEncr (fmtKey (zeros 16)) (natLE 16 (Spec.polyMac
    (leNat (blockEncr (fmtKey (zeros 16)) (blockEncr (fmtKey (zeros 16)) (zeros 16)))) [9] [218, 94, 25]))).take 8
    = [1, 80, 32, 206, 224, 39, 109, 141] := by decide +kernel

end Bee2V.C01

import Bee2V.C08.Drv
/-- driver executable of area C08 (`drv_c08`) -/
def main : IO Unit := Bee2V.Proto.runLoop Bee2V.C08.Drv.handle

/-
C08 — base64 and decimal strings: round trips.
-/
import Bee2V.C08.LemmasBE
namespace Bee2V.C08

/-! ### base64 -/

theorem b64_digit (n : Nat) (h : n < 64) : b64Dec (b64Ch n).toNat = n ∧ b64Ch n ≠ 61 := by
  have : n ∈ List.range 64 := by simp; omega
  revert n
  decide

theorem b64ToAux_block (c0 c1 c2 c3 : UInt8) (x : List UInt8) :
    b64ToAux (c0 :: c1 :: c2 :: c3 :: x) =
      oct ((((b64Dec c0.toNat * 64 + b64Dec c1.toNat) * 64 + b64Dec c2.toNat) * 64 + b64Dec c3.toNat) / 65536) ::
      oct ((((b64Dec c0.toNat * 64 + b64Dec c1.toNat) * 64 + b64Dec c2.toNat) * 64 + b64Dec c3.toNat) / 256) ::
      oct (((b64Dec c0.toNat * 64 + b64Dec c1.toNat) * 64 + b64Dec c2.toNat) * 64 + b64Dec c3.toNat) :: b64ToAux x := by
  rw [b64ToAux]

theorem b64Unpad_nopad (s : List UInt8) (h : s.length = 0 ∨ s[s.length - 1]? ≠ some 61) : b64Unpad s = s.length := by
  unfold b64Unpad
  simp only []
  by_cases hc : s.length ≠ 0 ∧ s[s.length - 1]? = some 61
  · rcases h with h | h
    · exact absurd h hc.1
    · exact absurd hc.2 h
  · simp only [hc, if_false]

theorem b64Unpad_append (q s : List UInt8) (hs : 2 ≤ s.length) : b64Unpad (q ++ s) = q.length + b64Unpad s := by
  unfold b64Unpad
  simp only [List.length_append]
  have e1 : (q ++ s)[q.length + s.length - 1]? = s[s.length - 1]? := by
    rw [List.getElem?_append_right (by omega)]; congr 1; omega
  have e2 : (q ++ s)[q.length + s.length - 2]? = s[s.length - 2]? := by
    rw [List.getElem?_append_right (by omega)]; congr 1; omega
  rw [e1, e2]
  have hq : (q.length + s.length ≠ 0) = True := eq_true (by omega)
  have hs0 : (s.length ≠ 0) = True := eq_true (by omega)
  simp only [hq, hs0, true_and]
  by_cases h1 : s[s.length - 1]? = some 61
  · simp only [h1, if_true]
    by_cases h2 : s[s.length - 2]? = some 61
    · simp only [h2, if_true]; omega
    · simp only [h2, if_false]; omega
  · simp only [h1, if_false]

theorem b64From_length (v : List UInt8) : (b64From v).length = 4 * ((v.length + 2) / 3) := by
  induction v using b64From.induct with
  | case1 a b c rest ih => simp only [b64From, List.length_cons, ih]; omega
  | case2 a b => simp [b64From]
  | case3 a => simp [b64From]
  | case4 => simp [b64From]

set_option maxRecDepth 8000 in
/-- ROUND TRIP: b64To (b64From v) = v for every octet string -/
theorem b64_roundtrip' (v : List UInt8) : b64To (b64From v) = v := by
  unfold b64To
  induction v using b64From.induct with
  | case1 a b c rest ih =>
    have ha := UInt8.toNat_lt a
    have hb := UInt8.toNat_lt b
    have hc := UInt8.toNat_lt c
    generalize hblk : (a.toNat * 256 + b.toNat) * 256 + c.toNat = blk
    have hblk' : blk < 16777216 := by omega
    have d0 := b64_digit (blk / 262144) (by omega)
    have d1 := b64_digit (blk / 4096 % 64) (by omega)
    have d2 := b64_digit (blk / 64 % 64) (by omega)
    have d3 := b64_digit (blk % 64) (by omega)
    have hfrom : b64From (a :: b :: c :: rest) =
        [b64Ch (blk / 262144), b64Ch (blk / 4096 % 64), b64Ch (blk / 64 % 64), b64Ch (blk % 64)] ++ b64From rest := by
      rw [b64From, ← hblk]; rfl
    rw [hfrom]
    have hdec : ((b64Dec (b64Ch (blk / 262144)).toNat * 64 + b64Dec (b64Ch (blk / 4096 % 64)).toNat) * 64 +
        b64Dec (b64Ch (blk / 64 % 64)).toNat) * 64 + b64Dec (b64Ch (blk % 64)).toNat = blk := by
      rw [d0.1, d1.1, d2.1, d3.1]; omega
    by_cases hr : rest = []
    · subst hr
      simp only [b64From, List.append_nil]
      rw [b64Unpad_nopad _ (Or.inr (by simp; exact d3.2))]
      simp only [List.length_cons, List.length_nil, List.take_succ_cons, List.take_zero]
      rw [b64ToAux_block, hdec]
      simp only [b64ToAux, List.cons.injEq, and_true]
      exact ⟨oct_eq_of_nat a (by omega), oct_eq_of_nat b (by omega), oct_eq_of_nat c (by omega)⟩
    · have hl : 2 ≤ (b64From rest).length := by
        rw [b64From_length]
        cases rest with
        | nil => exact absurd rfl hr
        | cons _ _ => simp; omega
      rw [b64Unpad_append _ _ hl]
      simp only [List.length_cons, List.length_nil]
      rw [show (0 + 1 + 1 + 1 + 1 + b64Unpad (b64From rest)) = 4 + b64Unpad (b64From rest) by omega]
      simp only [List.cons_append, List.nil_append, show 4 + b64Unpad (b64From rest) = b64Unpad (b64From rest) + 1 + 1 + 1 + 1 by omega,
        List.take_succ_cons]
      rw [b64ToAux_block, hdec, ih]
      simp only [List.cons.injEq, and_true]
      exact ⟨oct_eq_of_nat a (by omega), oct_eq_of_nat b (by omega), oct_eq_of_nat c (by omega)⟩
  | case2 a b =>
    have ha := UInt8.toNat_lt a
    have hb := UInt8.toNat_lt b
    generalize hblk : (a.toNat * 256 + b.toNat) * 4 = blk
    have d0 := b64_digit (blk / 4096) (by omega)
    have d1 := b64_digit (blk / 64 % 64) (by omega)
    have d2 := b64_digit (blk % 64) (by omega)
    have hfrom : b64From [a, b] = [b64Ch (blk / 4096), b64Ch (blk / 64 % 64), b64Ch (blk % 64), 61] := by
      rw [b64From, ← hblk]
    rw [hfrom]
    have hun : b64Unpad [b64Ch (blk / 4096), b64Ch (blk / 64 % 64), b64Ch (blk % 64), 61] = 3 := by
      unfold b64Unpad
      simp
      exact d2.2
    rw [hun]
    simp only [List.take_succ_cons, List.take_zero, b64ToAux, d0.1, d1.1, d2.1, List.cons.injEq, and_true]
    exact ⟨oct_eq_of_nat a (by omega), oct_eq_of_nat b (by omega)⟩
  | case3 a =>
    have ha := UInt8.toNat_lt a
    have d0 := b64_digit (a.toNat * 16 / 64) (by omega)
    have d1 := b64_digit (a.toNat * 16 % 64) (by omega)
    have hfrom : b64From [a] = [b64Ch (a.toNat * 16 / 64), b64Ch (a.toNat * 16 % 64), 61, 61] := by rw [b64From]
    rw [hfrom]
    have hun : b64Unpad [b64Ch (a.toNat * 16 / 64), b64Ch (a.toNat * 16 % 64), 61, 61] = 2 := by
      unfold b64Unpad; simp
    rw [hun]
    simp only [List.take_succ_cons, List.take_zero, b64ToAux, d0.1, d1.1, List.cons.injEq, and_true]
    exact oct_eq_of_nat a (by omega)
  | case4 => simp [b64From, b64Unpad, b64ToAux]

/-! ### decimal strings -/

theorem decTo_snoc (m : Nat) (s : List UInt8) (c : UInt8) :
    decTo m (s ++ [c]) = (decTo m s * 10 + (c.toNat - 48)) % m := by
  unfold decTo; rw [List.foldl_append]; rfl

theorem decChars_length (n v : Nat) : (decChars n v).length = n := by
  induction n generalizing v with
  | zero => rfl
  | succ n ih => simp [decChars, ih]

/-- ROUND TRIP: reading back `count` printed digits gives the number modulo 10^count (and modulo
    the word size m of decToU32 / decToU64) -/
theorem decTo_decFrom' (m : Nat) (count n : Nat) : decTo m (decFrom count n) = n % 10 ^ count % m := by
  unfold decFrom
  induction count generalizing n with
  | zero => simp [decChars, decTo, Nat.mod_one]
  | succ c ih =>
    rw [decChars, decTo_snoc, ih, toNat_oct]
    have hd : (48 + n % 10) % 256 - 48 = n % 10 := by omega
    rw [hd, Nat.pow_succ, Nat.mul_comm (10 ^ c) 10, Nat.mod_mul (a := 10) (b := 10 ^ c)]
    rw [Nat.add_mod, Nat.mul_mod, Nat.mod_mod, ← Nat.mul_mod, ← Nat.add_mod]
    congr 1
    omega

theorem decFrom_valid (count n : Nat) : decIsValid (decFrom count n) = true := by
  unfold decFrom decIsValid
  induction count generalizing n with
  | zero => rfl
  | succ c ih =>
    rw [decChars, List.all_append, ih]
    simp [toNat_oct]; omega

/-! ### check digits -/

theorem luhnSum_shift (f g : Nat → Nat) (x : UInt8) (l : List UInt8) :
    luhnSum f g (x :: l) = f (x.toNat - 48) + luhnSum g f l := by
  induction l using luhnSum.induct generalizing x with
  | case1 => simp [luhnSum]
  | case2 a => simp [luhnSum]
  | case3 a b rest ih =>
    rw [luhnSum]
    rw [ih b]
    conv => rhs; rw [luhnSum]
    omega

/-- Luhn: the digit computed by decLuhnCalc makes decLuhnVerify succeed -/
theorem luhn_calc_verify (s : List UInt8) : decLuhnVerify (s ++ [decLuhnCalc s]) = true := by
  unfold decLuhnVerify decLuhnCalc
  simp only [List.reverse_append, List.reverse_cons, List.reverse_nil, List.nil_append, List.singleton_append]
  rw [luhnSum_shift, toNat_oct]
  generalize luhnSum luhnTable id s.reverse = t
  simp only [id]
  have h9 : t % 10 * 9 % 10 < 10 := Nat.mod_lt _ (by omega)
  have key : (t % 10 * 9 % 10 + t) % 10 = 0 := by omega
  generalize t % 10 * 9 % 10 = u at *
  have : (u + 48) % 256 - 48 = u := by omega
  rw [this]
  simp; omega

theorem dammStep_lt (cd d : Nat) (h1 : cd < 10) (h2 : d < 10) : dammStep cd d < 10 := by
  have key : ∀ cd ∈ List.range 10, ∀ d ∈ List.range 10, dammStep cd d < 10 := by decide
  exact key cd (by simp; omega) d (by simp; omega)

theorem dammStep_diag (d : Nat) (h : d < 10) : dammStep d d = 0 := by
  have key : ∀ d ∈ List.range 10, dammStep d d = 0 := by decide
  exact key d (by simp; omega)

theorem damm_state_lt (s : List UInt8) (hv : decIsValid s = true) (cd : Nat) (h : cd < 10) :
    s.foldl (fun cd c => dammStep cd (c.toNat - 48)) cd < 10 := by
  induction s generalizing cd with
  | nil => exact h
  | cons c t ih =>
    unfold decIsValid at hv
    simp only [List.all_cons, Bool.and_eq_true, decide_eq_true_eq] at hv
    simp only [List.foldl_cons]
    exact ih (by unfold decIsValid; exact hv.2) _ (dammStep_lt _ _ h (by omega))

/-- Damm: the digit computed by decDammCalc makes decDammVerify succeed (anti-symmetric quasigroup: x∘x = 0) -/
theorem damm_calc_verify (s : List UInt8) (hv : decIsValid s = true) : decDammVerify (s ++ [decDammCalc s]) = true := by
  have hlt := damm_state_lt s hv 0 (by omega)
  have e : decDammCalc (s ++ [decDammCalc s]) = oct (0 + 48) := by
    unfold decDammCalc
    rw [List.foldl_append]
    simp only [List.foldl_cons, List.foldl_nil]
    generalize s.foldl (fun cd c => dammStep cd (c.toNat - 48)) 0 = st at *
    rw [toNat_oct]
    have : (st + 48) % 256 - 48 = st := by omega
    rw [this, dammStep_diag st hlt]
  unfold decDammVerify
  rw [e]
  decide


end Bee2V.C08

/-
C08 — containers (bpki.c): canonical direction.  Whatever a container decoder accepts is exactly what the
container encoder writes for the decoded values.
-/
import Bee2V.C08.ContRT
namespace Bee2V.C08

/-- canonical-direction counterpart of `Acc`: whenever `S` succeeds, the octets it consumed are related
    (by `rel`) to the state before and after; positions stay inside the input; anchors of slots outside
    `used` are not touched -/
structure Can (S : List DStep) (rel : DSt → DSt → List UInt8 → Prop) (used : List Nat) : Prop where
  run : ∀ (der : List UInt8) (p : Nat) (st : DSt) (p' : Nat) (st' : DSt), der.length < W → p ≤ der.length →
    runDec der S st p = .ok (p', st') →
    p ≤ p' ∧ p' ≤ der.length ∧ rel st st' ((der.drop p).take (p' - p)) ∧
      ∀ s, s ∉ used → st'.anchors.find? (fun e => e.1 = s) = st.anchors.find? (fun e => e.1 = s)

theorem Can.nil : Can [] (fun st st' c => st' = st ∧ c = []) [] :=
  ⟨fun der p st p' st' _ hp h => by
    simp only [runDec] at h; injection h with h; injection h with h1 h2
    subst h1; subst h2
    exact ⟨Nat.le_refl _, hp, ⟨rfl, by simp⟩, fun _ _ => rfl⟩⟩

theorem slice_split (der : List UInt8) (p q r : Nat) (h1 : p ≤ q) (h2 : q ≤ r) :
    (der.drop p).take (r - p) = (der.drop p).take (q - p) ++ (der.drop q).take (r - q) := by
  have : r - p = (q - p) + (r - q) := by omega
  rw [this, List.take_add, List.drop_drop]
  congr 3; omega

theorem Can.append {S1 S2 : List DStep} {r1 r2 : DSt → DSt → List UInt8 → Prop} {u1 u2 : List Nat}
    (h1 : Can S1 r1 u1) (h2 : Can S2 r2 u2) :
    Can (S1 ++ S2) (fun st st'' c => ∃ st' c1 c2, c = c1 ++ c2 ∧ r1 st st' c1 ∧ r2 st' st'' c2) (u1 ++ u2) := by
  constructor
  intro der p st p'' st'' hl hp h
  rw [runDec_append] at h
  cases h1r : runDec der S1 st p with
  | ok r =>
    obtain ⟨p', st'⟩ := r
    rw [h1r] at h; simp only [] at h
    obtain ⟨a1, a2, a3, a4⟩ := h1.run der p st p' st' hl hp h1r
    obtain ⟨b1, b2, b3, b4⟩ := h2.run der p' st' p'' st'' hl a2 h
    refine ⟨by omega, b2, ⟨st', _, _, slice_split der p p' p'' a1 b1, a3, b3⟩, ?_⟩
    intro s hs
    simp only [List.mem_append, not_or] at hs
    rw [b4 s hs.2, a4 s hs.1]
  | err => rw [h1r] at h; cases h
  | oob => rw [h1r] at h; cases h

theorem Can.weaken {S : List DStep} {r r' : DSt → DSt → List UInt8 → Prop} {u : List Nat}
    (h : Can S r u) (hr : ∀ st st' c, r st st' c → r' st st' c) : Can S r' u :=
  ⟨fun der p st p' st' hl hp hrun => by
    obtain ⟨a, b, c, d⟩ := h.run der p st p' st' hl hp hrun
    exact ⟨a, b, hr _ _ _ c, d⟩⟩

/-- the header read by derTSEQDecStart is the canonical TL of (tag, len) -/
theorem derTSEQDecStart_header (der : List UInt8) (tag : Nat) (a : Anchor) (k : Nat)
    (hs : derTSEQDecStart der tag = .ok (a, k)) :
    der.take k = beBytes (tCount tag) tag ++ derLEnc a.len ∧ a.tag = tag ∧ derTIsValid tag = true ∧ k ≤ der.length ∧
      k = tCount tag + (derLEnc a.len).length := by
  unfold derTSEQDecStart at hs
  split at hs
  · cases hs
  · rcases derTDec_cases der with e | ⟨t, tc, e, hk1, hk4, hkl⟩
    · rw [e] at hs; cases hs
    · rw [e] at hs; simp only [] at hs
      by_cases ht : t ≠ tag
      · rw [if_pos ht] at hs; cases hs
      · rw [if_neg ht] at hs
        have ht' : t = tag := by omega
        subst ht'
        rcases derLDec_cases (der.drop tc) with e2 | ⟨l, lc, e2, h1, h9, hl, hsz⟩
        · rw [e2] at hs; cases hs
        · rw [e2] at hs; simp only [] at hs
          rw [List.length_drop] at hl
          have hm : (tc + lc) % W = tc + lc := Nat.mod_eq_of_lt (by omegaW)
          rw [hm] at hs
          cases hs
          have hT := derTDec_canonical' der t tc e
          have hL := derLDec_canonical' _ l lc e2
          obtain ⟨hv, hTe⟩ := derTEnc_valid t _ hT
          have htc : tCount t = tc := by
            have := congrArg List.length hTe
            simp [beBytes_length, List.length_take] at this; omega
          refine ⟨?_, rfl, hv, by omega, ?_⟩
          · rw [List.take_add, ← hTe, hL]
          · rw [hL]; simp [List.length_take]; omega


theorem find3_cons_ne (slot s p : Nat) (a : Anchor) (an : List (Nat × Nat × Anchor)) (h : s ≠ slot) :
    ((slot, p, a) :: an).find? (fun e => e.1 = s) = an.find? (fun e => e.1 = s) := by
  rw [List.find?_cons]; simp [Ne.symm h]

set_option maxRecDepth 4000 in
/-- a SEQUENCE: if Start, the members and Stop succeed, the consumed octets are `T ‖ L(|c|) ‖ c` with `c`
    what the members consumed -/
theorem Can.seq {S : List DStep} {r : DSt → DSt → List UInt8 → Prop} {u : List Nat} (slot tag : Nat)
    (h : Can S r u) (hslot : slot ∉ u) :
    Can (dStart slot tag :: (S ++ [dStop slot]))
      (fun st st' c => ∃ p0 c', r { st with anchors := (slot, p0, ⟨0, tag, c'.length⟩) :: st.anchors } st' c' ∧
        c = tlvCode tag c' ∧ derTIsValid tag = true) (slot :: u) := by
  constructor
  intro der p st pE stE hl hp hrun
  simp only [runDec, dStart] at hrun
  cases hst : derTSEQDecStart (der.drop p) tag with
  | ok rr =>
    obtain ⟨a, k⟩ := rr
    rw [hst] at hrun; simp only [] at hrun
    obtain ⟨hhead, hatag, hvalid, hkl, hkeq⟩ := derTSEQDecStart_header _ tag a k hst
    rw [List.length_drop] at hkl
    rw [runDec_append] at hrun
    cases hS : runDec der S { st with anchors := (slot, p, a) :: st.anchors } (p + k) with
    | ok r2 =>
      obtain ⟨p2, st2⟩ := r2
      rw [hS] at hrun; simp only [runDec, dStop] at hrun
      obtain ⟨b1, b2, b3, b4⟩ := h.run der (p + k) _ p2 st2 hl (by omega) hS
      rw [b4 slot hslot] at hrun
      simp only [List.find?_cons, decide_true] at hrun
      cases hstop : derTSEQDecStop (p2 - p) a with
      | ok uu =>
        rw [hstop] at hrun; simp only [] at hrun
        injection hrun with hrun; injection hrun with e1 e2
        subst e2
        obtain ⟨hpos, _, _⟩ := derTSEQDec_spec _ tag a k (p2 - p) hst hstop
        have hp2 : p2 = p + k + a.len := by omega
        have hpe : pE = p2 := by omega
        rw [hpe]
        have hcl : ((der.drop (p + k)).take (p2 - (p + k))).length = a.len := by
          simp [List.length_take, List.length_drop]; omega
        refine ⟨by omega, b2, ⟨p, (der.drop (p + k)).take (p2 - (p + k)), ?_, ?_, hvalid⟩, ?_⟩
        · have ea : a = ⟨0, tag, a.len⟩ := by
            -- Start always returns pos = 0
            unfold derTSEQDecStart at hst
            split at hst
            · cases hst
            · cases hT : derTDec (der.drop p) with
              | ok tt =>
                obtain ⟨t, tc⟩ := tt
                rw [hT] at hst; simp only [] at hst
                split at hst
                · cases hst
                · cases hL : derLDec ((der.drop p).drop tc) with
                  | ok ll => obtain ⟨l, lc⟩ := ll; rw [hL] at hst; cases hst; simp at hatag ⊢; omega
                  | err => rw [hL] at hst; cases hst
                  | oob => rw [hL] at hst; cases hst
              | err => rw [hT] at hst; cases hst
              | oob => rw [hT] at hst; cases hst
          rw [hcl, ← ea]; exact b3
        · rw [slice_split der p (p + k) p2 (by omega) b1, show p + k - p = k by omega, hhead]
          unfold tlvCode
          rw [hcl]
        · intro s hs
          simp only [List.mem_cons, not_or] at hs
          rw [b4 s hs.2]
          exact find3_cons_ne slot s p a st.anchors hs.1
      | err => rw [hstop] at hrun; cases hrun
      | oob => rw [hstop] at hrun; cases hrun
    | err => rw [hS] at hrun; cases hrun
    | oob => rw [hS] at hrun; cases hrun
  | err => rw [hst] at hrun; cases hrun
  | oob => rw [hst] at hrun; cases hrun


/-! ### leaves -/

theorem take_len_sub (der : List UInt8) (p t : Nat) : (der.drop p).take (p + t - p) = (der.drop p).take t := by
  rw [Nat.add_sub_cancel_left]

theorem Can.prim (f : List UInt8 → R Nat) (P : List UInt8 → Prop)
    (hf : ∀ xs c, xs.length < W → f xs = .ok c → c ≤ xs.length ∧ P (xs.take c)) :
    Can [dPrim f] (fun st st' c => st' = st ∧ P c) [] := by
  constructor
  intro der p st p' st' hl hp hrun
  simp only [runDec, dPrim] at hrun
  cases hfx : f (der.drop p) with
  | ok t =>
    rw [hfx] at hrun; simp only [] at hrun
    injection hrun with hrun; injection hrun with e1 e2
    subst e1; subst e2
    obtain ⟨h1, h2⟩ := hf (der.drop p) t (by rw [List.length_drop]; omega) hfx
    rw [List.length_drop] at h1
    exact ⟨by omega, by omega, ⟨rfl, by rw [take_len_sub]; exact h2⟩, fun _ _ => rfl⟩
  | err => rw [hfx] at hrun; cases hrun
  | oob => rw [hfx] at hrun; cases hrun

theorem Can.out (f : List UInt8 → R (List UInt8 × Nat)) (P : List UInt8 → List UInt8 → Prop)
    (hf : ∀ xs v c, xs.length < W → f xs = .ok (v, c) → c ≤ xs.length ∧ P v (xs.take c)) :
    Can [dOut f] (fun st st' c => ∃ v, st' = { st with outs := st.outs ++ [v] } ∧ P v c) [] := by
  constructor
  intro der p st p' st' hl hp hrun
  simp only [runDec, dOut] at hrun
  cases hfx : f (der.drop p) with
  | ok r =>
    obtain ⟨v, t⟩ := r
    rw [hfx] at hrun; simp only [] at hrun
    injection hrun with hrun; injection hrun with e1 e2
    subst e1; subst e2
    obtain ⟨h1, h2⟩ := hf (der.drop p) v t (by rw [List.length_drop]; omega) hfx
    rw [List.length_drop] at h1
    exact ⟨by omega, by omega, ⟨v, rfl, by rw [take_len_sub]; exact h2⟩, fun _ _ => rfl⟩
  | err => rw [hfx] at hrun; cases hrun
  | oob => rw [hfx] at hrun; cases hrun

theorem Can.num (f : List UInt8 → R (Nat × Nat)) (P : Nat → List UInt8 → Prop)
    (hf : ∀ xs v c, xs.length < W → f xs = .ok (v, c) → c ≤ xs.length ∧ P v (xs.take c)) :
    Can [dNum f] (fun st st' c => ∃ v, st' = { st with nums := v :: st.nums } ∧ P v c) [] := by
  constructor
  intro der p st p' st' hl hp hrun
  simp only [runDec, dNum] at hrun
  cases hfx : f (der.drop p) with
  | ok r =>
    obtain ⟨v, t⟩ := r
    rw [hfx] at hrun; simp only [] at hrun
    injection hrun with hrun; injection hrun with e1 e2
    subst e1; subst e2
    obtain ⟨h1, h2⟩ := hf (der.drop p) v t (by rw [List.length_drop]; omega) hfx
    rw [List.length_drop] at h1
    exact ⟨by omega, by omega, ⟨v, rfl, by rw [take_len_sub]; exact h2⟩, fun _ _ => rfl⟩
  | err => rw [hfx] at hrun; cases hrun
  | oob => rw [hfx] at hrun; cases hrun

/-! primitive facts in the shape the leaves need -/

theorem sizeDec2_can (v : Nat) (xs : List UInt8) (c : Nat) (hl : xs.length < W) (h : sizeDec2 v xs = .ok c) :
    c ≤ xs.length ∧ xs.take c = sizeCode 2 v := by
  unfold sizeDec2 derTSIZEDec2 at h
  cases hd : derTSIZEDec xs 2 with
  | ok r =>
    obtain ⟨v', c'⟩ := r
    rw [hd] at h; simp only [] at h
    by_cases hv : v' ≠ v
    · rw [if_pos hv] at h; cases h
    · rw [if_neg hv] at h; cases h
      have hv' : v' = v := by omega
      subst hv'
      have hcan := derTSIZEDec_canonical' xs 2 v' c hd
      rw [derTSIZEEnc_eq 2 v' (by decide)] at hcan
      injection hcan with hcan
      have hle : c ≤ xs.length := by
        rcases derTSIZEDec_cases xs 2 hl with e | ⟨_, _, e, hc⟩
        · rw [e] at hd; cases hd
        · rw [e] at hd; cases hd; exact hc
      exact ⟨hle, hcan.symm⟩
  | err => rw [hd] at h; cases h
  | oob => rw [hd] at h; cases h

theorem sizeDec_can (xs : List UInt8) (v c : Nat) (hl : xs.length < W) (h : derTSIZEDec xs 2 = .ok (v, c)) :
    c ≤ xs.length ∧ xs.take c = sizeCode 2 v := by
  have hcan := derTSIZEDec_canonical' xs 2 v c h
  rw [derTSIZEEnc_eq 2 v (by decide)] at hcan
  injection hcan with hcan
  have hle : c ≤ xs.length := by
    rcases derTSIZEDec_cases xs 2 hl with e | ⟨_, _, e, hc⟩
    · rw [e] at h; cases h
    · rw [e] at h; cases h; exact hc
  exact ⟨hle, hcan.symm⟩

theorem oidDec2_can (oid : List UInt8) (hok : (derOIDEnc oid).isOk = true) (hstr : ∀ b ∈ oid, b ≠ 0)
    (xs : List UInt8) (c : Nat) (hl : xs.length < W) (h : derOIDDec2 xs oid = .ok c) :
    c ≤ xs.length ∧ xs.take c = oidCode oid := by
  have henc := derOIDDec_canonical' xs hl oid c (derOIDDec2_eq_dec xs oid hl hstr c h)
  rw [oidCode_ok oid hok] at henc
  injection henc with henc
  have hle : c ≤ xs.length := by
    rcases derOIDDec2_cases xs oid hl with e | ⟨_, e, hc⟩
    · rw [e] at h; cases h
    · rw [e] at h; cases h; exact hc
  exact ⟨hle, henc.symm⟩

theorem dec_tlv_can (xs : List UInt8) (hl : xs.length < W) (tag off len c : Nat) (h : derDec xs = .ok (tag, off, len, c)) :
    c ≤ xs.length ∧ xs.take c = tlvCode tag ((xs.drop off).take len) ∧ ((xs.drop off).take len).length = len := by
  have hcan := derDec_canonical' xs hl tag off len c h
  obtain ⟨_, hc, hcl⟩ := derDec_parts xs hl tag off len c h
  have hvalid : derTIsValid tag = true := by
    unfold derEnc at hcan
    cases hT : derTEnc tag with
    | ok t => exact (derTEnc_valid tag t hT).1
    | err => rw [hT] at hcan; cases hcan
    | oob => rw [hT] at hcan; cases hcan
  rw [derEnc_eq tag _ hvalid] at hcan
  injection hcan with hcan
  have hlen : ((xs.drop off).take len).length = len := by simp [List.length_take]; omega
  exact ⟨hcl, by unfold tlvCode; exact hcan.symm, hlen⟩

theorem nullDec_can (xs : List UInt8) (c : Nat) (hl : xs.length < W) (h : nullDec xs = .ok c) :
    c ≤ xs.length ∧ xs.take c = tlvCode 5 [] := by
  unfold nullDec derDec4 at h
  cases hd : derDec xs with
  | ok r =>
    obtain ⟨t, off, l, c'⟩ := r
    rw [hd] at h; simp only [] at h
    by_cases hc : t ≠ 5 ∨ l ≠ ([] : List UInt8).length
    · rw [if_pos hc] at h; cases h
    · rw [if_neg hc] at h
      have ht : t = 5 := by omega
      have hl0 : l = 0 := by simp at hc; omega
      subst ht; subst hl0
      obtain ⟨h1, h2, _⟩ := dec_tlv_can xs hl 5 off 0 c' hd
      cases hr : rdSlice xs off 0 with
      | ok v =>
        rw [hr] at h; simp only [] at h
        split at h
        · cases h; exact ⟨h1, by rw [h2]; simp⟩
        · cases h
      | err => rw [hr] at h; cases h
      | oob => rw [hr] at h; cases h
  | err => rw [hd] at h; cases h
  | oob => rw [hd] at h; cases h

theorem octDec2_can (xs : List UInt8) (len : Nat) (v : List UInt8) (c : Nat) (hl : xs.length < W)
    (h : derTOCTDec2 xs 4 len = .ok (v, c)) : c ≤ xs.length ∧ xs.take c = tlvCode 4 v ∧ v.length = len := by
  unfold derTOCTDec2 at h
  rcases derDec3_cases xs 4 len hl with e | ⟨off, c', e, ed, hc, hcl⟩
  · rw [e] at h; cases h
  · rw [e] at h; simp only [] at h
    rw [rdSlice_ok (by omega)] at h
    cases h
    obtain ⟨h1, h2, h3⟩ := dec_tlv_can xs hl 4 off len c ed
    exact ⟨h1, h2, h3⟩

theorem octDec_can (xs : List UInt8) (v : List UInt8) (c : Nat) (hl : xs.length < W)
    (h : derTOCTDec xs 4 = .ok (v, c)) : c ≤ xs.length ∧ xs.take c = tlvCode 4 v := by
  have hcan := derTOCTDec_canonical' xs hl 4 v c h
  rw [derEnc_eq 4 v (by decide)] at hcan
  injection hcan with hcan
  have hle : c ≤ xs.length := by
    rcases derTOCTDec_cases xs 4 hl with e | ⟨_, _, e, hc⟩
    · rw [e] at h; cases h
    · rw [e] at h; cases h; exact hc
  exact ⟨hle, by unfold tlvCode; exact hcan.symm⟩


theorem dAlt_ok (alts : List (List UInt8 × Nat)) (st : DSt) (p : Nat) (xs : List UInt8) (t : Nat) (st' : DSt)
    (h : dAlt alts st p xs = .ok (t, st')) :
    ∃ oid len, (oid, len) ∈ alts ∧ derOIDDec2 xs oid = .ok t ∧ st' = { st with nums := len :: st.nums } := by
  induction alts with
  | nil => unfold dAlt at h; cases h
  | cons x xs' ih =>
    obtain ⟨oid, len⟩ := x
    unfold dAlt at h
    cases hd : derOIDDec2 xs oid with
    | ok t' =>
      rw [hd] at h; simp only [] at h
      injection h with h; injection h with e1 e2
      exact ⟨oid, len, by simp, by rw [hd, e1], e2.symm⟩
    | err =>
      rw [hd] at h; simp only [] at h
      obtain ⟨o, l, hm, h1, h2⟩ := ih h
      exact ⟨o, l, by simp [hm], h1, h2⟩
    | oob => rw [hd] at h; cases h

theorem Can.alt (alts : List (List UInt8 × Nat))
    (hok : ∀ x ∈ alts, (derOIDEnc x.1).isOk = true ∧ ∀ b ∈ x.1, b ≠ 0) :
    Can [dAlt alts] (fun st st' c => ∃ oid len, (oid, len) ∈ alts ∧ st' = { st with nums := len :: st.nums } ∧ c = oidCode oid) [] := by
  constructor
  intro der p st p' st' hl hp hrun
  simp only [runDec] at hrun
  cases hfx : dAlt alts st p (der.drop p) with
  | ok r =>
    obtain ⟨t, st1⟩ := r
    rw [hfx] at hrun; simp only [] at hrun
    injection hrun with hrun; injection hrun with e1 e2
    subst e1; subst e2
    obtain ⟨oid, len, hm, hd, hst⟩ := dAlt_ok alts st p _ t st1 hfx
    obtain ⟨hk1, hk2⟩ := hok (oid, len) hm
    obtain ⟨h1, h2⟩ := oidDec2_can oid hk1 hk2 (der.drop p) t (by rw [List.length_drop]; omega) hd
    rw [List.length_drop] at h1
    exact ⟨by omega, by omega, ⟨oid, len, hm, hst, by rw [take_len_sub]; exact h2⟩, fun _ _ => by rw [hst]⟩
  | err => rw [hfx] at hrun; cases hrun
  | oob => rw [hfx] at hrun; cases hrun

theorem Can.octLen :
    Can [dOctLen] (fun st st' c => ∃ len tl v, st.nums = len :: tl ∧ v.length = len ∧
      st' = { st with outs := st.outs ++ [v] } ∧ c = tlvCode 4 v) [] := by
  constructor
  intro der p st p' st' hl hp hrun
  simp only [runDec, dOctLen] at hrun
  cases hn : st.nums with
  | nil => rw [hn] at hrun; cases hrun
  | cons len tl =>
    rw [hn] at hrun; simp only [] at hrun
    cases hfx : derTOCTDec2 (der.drop p) 4 len with
    | ok r =>
      obtain ⟨v, t⟩ := r
      rw [hfx] at hrun; simp only [] at hrun
      injection hrun with hrun; injection hrun with e1 e2
      subst e1; subst e2
      obtain ⟨h1, h2, h3⟩ := octDec2_can (der.drop p) len v t (by rw [List.length_drop]; omega) hfx
      rw [List.length_drop] at h1
      exact ⟨by omega, by omega, ⟨len, tl, v, rfl, h3, rfl, by rw [take_len_sub]; exact h2⟩, fun _ _ => rfl⟩
    | err => rw [hfx] at hrun; cases hrun
    | oob => rw [hfx] at hrun; cases hrun

/-- canonical form of a PrivateKeyInfo-like container: what the decoder steps accept is `pkiCode alg oid v`
    for the value v they output and an entry (oid, |v|) of the alternatives -/
theorem pki_can (alg : List UInt8) (alts : List (List UInt8 × Nat)) (halg : (derOIDEnc alg).isOk = true)
    (hstr : ∀ b ∈ alg, b ≠ 0) (hok : ∀ x ∈ alts, (derOIDEnc x.1).isOk = true ∧ ∀ b ∈ x.1, b ≠ 0)
    (x : List UInt8) (hl : x.length < W) (c : Nat) (st : DSt)
    (h : runDec x [dStart 0 48, dPrim (sizeDec2 0), dStart 1 48, dPrim (oidDec2 alg), dAlt alts, dStop 1, dOctLen, dStop 0] {} 0 =
      .ok (c, st)) :
    c ≤ x.length ∧ ∃ oid v, (oid, v.length) ∈ alts ∧ st.outs = [v] ∧ x.take c = pkiCode alg oid v := by
  have c1 := Can.append (Can.prim (oidDec2 alg) (fun c => c = oidCode alg)
    (fun xs c hl h => oidDec2_can alg halg hstr xs c hl h)) (Can.alt alts hok)
  have s1 := Can.seq 1 48 c1 (by simp)
  have c2 := Can.append s1 Can.octLen
  have c3 := Can.append (Can.prim (sizeDec2 0) (fun c => c = sizeCode 2 0) (fun xs c hl h => sizeDec2_can 0 xs c hl h)) c2
  have s0 := Can.seq 0 48 c3 (by simp)
  obtain ⟨_, hcl, hrel, _⟩ := s0.run x 0 {} c st hl (Nat.zero_le _) h
  refine ⟨hcl, ?_⟩
  simp only [List.drop_zero, Nat.sub_zero] at hrel
  obtain ⟨p0, c', ⟨stA, a, b, hc', ⟨hA, ha⟩, ⟨st2, b1, b2, hb, ⟨p1, d', ⟨st3, e1, e2, hd', ⟨h3, he1⟩, ⟨oid, len, hm, hst2, he2⟩⟩, hb1, _⟩,
    ⟨len', tl, v, hnums, hvlen, hst', hb2⟩⟩⟩, hx, _⟩ := hrel
  subst hA; subst h3
  rw [hst2] at hnums
  simp only [List.cons.injEq] at hnums
  obtain ⟨hll, _⟩ := hnums
  refine ⟨oid, v, by rw [hvlen, ← hll]; exact hm, by rw [hst', hst2]; rfl, ?_⟩
  rw [hx, hc', ha, hb, hb1, hd', he1, he2, hb2]
  unfold pkiCode tlvCode
  simp only [List.append_assoc]


/-! ### PrivateKeyInfo, share -/

theorem str_pubkey : ∀ b ∈ oid_bign_pubkey, b ≠ 0 := by decide +kernel
theorem str_share : ∀ b ∈ oid_bels_share, b ≠ 0 := by decide +kernel

theorem privAlts_ok : ∀ x ∈ [(oid_bign_curve192v1, 24), (oid_bign_curve256v1, 32), (oid_bign_curve384v1, 48), (oid_bign_curve512v1, 64)],
    (derOIDEnc x.1).isOk = true ∧ ∀ b ∈ x.1, b ≠ 0 := by decide +kernel
theorem shareAlts_ok : ∀ x ∈ [(oid_bels_m0128v1, 17), (oid_bels_m0192v1, 25), (oid_bels_m0256v1, 33)],
    (derOIDEnc x.1).isOk = true ∧ ∀ b ∈ x.1, b ≠ 0 := by decide +kernel

/-- CANONICAL (PrivateKeyInfo): an accepted container is exactly bpkiPrivkeyEnc of the key it yields -/
theorem bpkiPrivkey_canonical (x : List UInt8) (hl : x.length < W) (c : Nat) (st : DSt)
    (h : bpkiPrivkeyDec x = .ok (c, st)) :
    c ≤ x.length ∧ ∃ k, st.outs = [k] ∧ (k.length = 24 ∨ k.length = 32 ∨ k.length = 48 ∨ k.length = 64) ∧
      bpkiPrivkeyEnc k = .ok (x.take c) := by
  unfold bpkiPrivkeyDec bpkiPrivkeyDecSteps at h
  obtain ⟨hc, oid, v, hm, hout, hx⟩ := pki_can oid_bign_pubkey _ ok_pubkey str_pubkey privAlts_ok x hl c st h
  refine ⟨hc, v, hout, ?_⟩
  simp only [List.mem_cons, Prod.mk.injEq, List.mem_nil_iff, or_false] at hm
  unfold bpkiPrivkeyEnc
  rcases hm with ⟨ho, hv⟩ | ⟨ho, hv⟩ | ⟨ho, hv⟩ | ⟨ho, hv⟩
  · refine ⟨Or.inl hv, ?_⟩
    rw [if_pos hv, pki_enc _ _ v ok_pubkey ok_c192 (by rw [len_pubkey, len_c192]; omega), hx, ho]
  · refine ⟨Or.inr (Or.inl hv), ?_⟩
    rw [if_neg (by omega), if_pos hv, pki_enc _ _ v ok_pubkey ok_c256 (by rw [len_pubkey, len_c256]; omega), hx, ho]
  · refine ⟨Or.inr (Or.inr (Or.inl hv)), ?_⟩
    rw [if_neg (by omega), if_neg (by omega), if_pos hv, pki_enc _ _ v ok_pubkey ok_c384 (by rw [len_pubkey, len_c384]; omega), hx, ho]
  · refine ⟨Or.inr (Or.inr (Or.inr hv)), ?_⟩
    rw [if_neg (by omega), if_neg (by omega), if_neg (by omega), pki_enc _ _ v ok_pubkey ok_c512 (by rw [len_pubkey, len_c512]; omega), hx, ho]

/-- CANONICAL (share container) -/
theorem bpkiShare_canonical (x : List UInt8) (hl : x.length < W) (c : Nat) (st : DSt)
    (h : bpkiShareDec x = .ok (c, st)) :
    c ≤ x.length ∧ ∃ k, st.outs = [k] ∧ (k.length = 17 ∨ k.length = 25 ∨ k.length = 33) ∧
      bpkiShareEnc k = .ok (x.take c) := by
  unfold bpkiShareDec bpkiShareDecSteps at h
  obtain ⟨hc, oid, v, hm, hout, hx⟩ := pki_can oid_bels_share _ ok_share str_share shareAlts_ok x hl c st h
  refine ⟨hc, v, hout, ?_⟩
  simp only [List.mem_cons, Prod.mk.injEq, List.mem_nil_iff, or_false] at hm
  unfold bpkiShareEnc
  rcases hm with ⟨ho, hv⟩ | ⟨ho, hv⟩ | ⟨ho, hv⟩
  · refine ⟨Or.inl hv, ?_⟩
    rw [if_pos hv, pki_enc _ _ v ok_share ok_m128 (by rw [len_share, len_m128]; omega), hx, ho]
  · refine ⟨Or.inr (Or.inl hv), ?_⟩
    rw [if_neg (by omega), if_pos hv, pki_enc _ _ v ok_share ok_m192 (by rw [len_share, len_m192]; omega), hx, ho]
  · refine ⟨Or.inr (Or.inr hv), ?_⟩
    rw [if_neg (by omega), if_neg (by omega), pki_enc _ _ v ok_share ok_m256 (by rw [len_share, len_m256]; omega), hx, ho]


/-! ### EncryptedPrivateKeyInfo -/

theorem sizeDec_lt (xs : List UInt8) (v c : Nat) (h : derTSIZEDec xs 2 = .ok (v, c)) : v < W := by
  obtain ⟨k, k2, len, _, _, _, _, _, _, d0, tl, _, _, _, _, hv⟩ := derTSIZEDec_spec xs 2 v c h
  rw [hv]; exact Nat.mod_lt _ (by decide)

theorem str_pbes2 : ∀ b ∈ oid_id_pbes2, b ≠ 0 := by decide +kernel
theorem str_pbkdf2 : ∀ b ∈ oid_id_pbkdf2, b ≠ 0 := by decide +kernel
theorem str_hmac : ∀ b ∈ oid_hmac_hbelt, b ≠ 0 := by decide +kernel
theorem str_kwp : ∀ b ∈ oid_belt_kwp256, b ≠ 0 := by decide +kernel

set_option maxRecDepth 8000 in
/-- canonical form of EncryptedPrivateKeyInfo: the accepted octets are the code of the tree of the
    decoded (edata, salt, iter) -/
theorem edata_can (x : List UInt8) (hl : x.length < W) (c : Nat) (st : DSt) (h : bpkiEdataDec x = .ok (c, st)) :
    c ≤ x.length ∧ ∃ edata salt iter, st.outs = [salt, edata] ∧ st.nums = [iter] ∧ salt.length = 8 ∧ iter < W ∧
      x.take c = Tree.codeL [edataTree edata salt iter] := by
  have oidc := fun (oid : List UInt8) (hok : (derOIDEnc oid).isOk = true) (hs : ∀ b ∈ oid, b ≠ 0) =>
    Can.prim (oidDec2 oid) (fun c => c = oidCode oid) (fun xs c hl h => oidDec2_can oid hok hs xs c hl h)
  have null := Can.prim nullDec (fun c => c = tlvCode 5 []) (fun xs c hl h => nullDec_can xs c hl h)
  have prf := Can.seq 5 48 (Can.append (oidc _ ok_hmac str_hmac) null) (by simp)
  have lsalt := Can.out (fun r => derTOCTDec2 r 4 8) (fun v c => c = tlvCode 4 v ∧ v.length = 8)
    (fun xs v c hl h => by obtain ⟨a, b, d⟩ := octDec2_can xs 8 v c hl h; exact ⟨a, b, d⟩)
  have liter := Can.num (fun r => derTSIZEDec r 2) (fun v c => c = sizeCode 2 v ∧ v < W)
    (fun xs v c hl h => by obtain ⟨a, b⟩ := sizeDec_can xs v c hl h; exact ⟨a, b, sizeDec_lt xs v c h⟩)
  have params := Can.seq 4 48 (Can.append lsalt (Can.append liter prf)) (by simp)
  have pbkdf2 := Can.seq 3 48 (Can.append (oidc _ ok_pbkdf2 str_pbkdf2) params) (by simp)
  have kwp := Can.seq 6 48 (Can.append (oidc _ ok_kwp str_kwp) null) (by simp)
  have pbes2 := Can.seq 2 48 (Can.append pbkdf2 kwp) (by simp)
  have encalg := Can.seq 1 48 (Can.append (oidc _ ok_pbes2 str_pbes2) pbes2) (by simp)
  have ledata := Can.out (fun r => derTOCTDec r 4) (fun v c => c = tlvCode 4 v)
    (fun xs v c hl h => octDec_can xs v c hl h)
  have epki := Can.seq 0 48 (Can.append encalg ledata) (by simp)
  unfold bpkiEdataDec at h
  obtain ⟨_, hcl, hrel, _⟩ := epki.run x 0 {} c st hl (Nat.zero_le _) h
  refine ⟨hcl, ?_⟩
  simp only [List.drop_zero, Nat.sub_zero] at hrel
  obtain ⟨p0, c0, ⟨s1, a1, a2, hc0,
      ⟨p1, c1, ⟨s2, b1, b2, hc1, ⟨hs2, hb1⟩,
        ⟨p2, c2, ⟨s3, d1, d2, hc2,
          ⟨p3, c3, ⟨s4, e1, e2, hc3, ⟨hs4, he1⟩,
            ⟨p4, c4, ⟨s5, f1, f2, hc4, ⟨salt, hs5, hf1, hsl⟩,
              ⟨s6, g1, g2, hf2, ⟨iter, hs6, hg1, hit⟩,
                ⟨p5, c5, ⟨s7, i1, i2, hc5, ⟨hs7, hi1⟩, ⟨hs8, hi2⟩⟩, hg2, _⟩⟩⟩, he2, _⟩⟩, hd1, _⟩,
          ⟨p6, c6, ⟨s9, j1, j2, hc6, ⟨hs9, hj1⟩, ⟨hs10, hj2⟩⟩, hd2, _⟩⟩, hb2, _⟩⟩, ha1, _⟩,
      ⟨edata, hst, ha2⟩⟩, hx, _⟩ := hrel
  subst hs2 hs4 hs7 hs9
  refine ⟨edata, salt, iter, ?_, ?_, hsl, hit, ?_⟩
  · rw [hst, hs10, hs8, hs6, hs5]; try rfl
  · rw [hst, hs10, hs8, hs6, hs5]; try rfl
  · rw [hx, hc0, ha1, hc1, hb1, hb2, hc2, hd1, hc3, he1, he2, hc4, hf1, hf2, hg1, hg2, hc5, hi1, hi2, hd2, hc6, hj1, hj2, ha2]
    simp only [edataTree, Tree.codeL, Tree.code, tlvCode, List.append_nil, List.append_assoc]


theorem edataTree_len_ge (edata salt : List UInt8) (iter : Nat) :
    edata.length ≤ (Tree.codeL [edataTree edata salt iter]).length := by
  simp only [edataTree, Tree.codeL, Tree.code, tlvCode, List.length_append, List.append_nil]
  omega

/-- CANONICAL (EncryptedPrivateKeyInfo): an accepted container is exactly bpkiEdataEnc of the
    (edata, salt, iter) it yields — in particular every nested SEQUENCE length is the right one -/
theorem bpkiEdata_canonical (x : List UInt8) (hl : x.length < 4294967296) (c : Nat) (st : DSt)
    (h : bpkiEdataDec x = .ok (c, st)) :
    c ≤ x.length ∧ ∃ edata salt iter, st.outs = [salt, edata] ∧ st.nums = [iter] ∧
      bpkiEdataEnc edata salt iter = .ok (x.take c) := by
  obtain ⟨hc, edata, salt, iter, ho, hn, hs, hi, hx⟩ := edata_can x (by omegaW) c st h
  refine ⟨hc, edata, salt, iter, ho, hn, ?_⟩
  have hle := edataTree_len_ge edata salt iter
  rw [← hx] at hle
  have : (x.take c).length ≤ x.length := by simp [List.length_take]; omega
  rw [edata_enc edata salt iter hs hi (by omega), hx]

end Bee2V.C08

/-
C08 — property theorems, part 2: canonical form / mutual inverse for the formats where this is
proved (APDU responses, hex), plus bounds of the APDU command decoder.
-/
import Bee2V.C08.Lemmas2
namespace Bee2V.C08

/-! ### APDU responses -/

theorem apduRespDec_no_oob (xs : List UInt8) : apduRespDec xs ≠ .oob := by
  unfold apduRespDec
  simp only []
  by_cases h : xs.length < 2
  · rw [if_pos h]; simp
  · rw [if_neg h, rd_of_lt (xs := xs) (i := xs.length - 2) (by omega),
      rd_of_lt (xs := xs) (i := xs.length - 1) (by omega), rdSlice_ok (by omega)]
    simp

/-- whatever apduRespDec accepts re-encodes to exactly the input (the whole input is consumed) -/
theorem apduRespDec_canonical (xs : List UInt8) (r : Resp) (h : apduRespDec xs = .ok r) :
    apduRespEnc r = xs := by
  unfold apduRespDec at h
  simp only [] at h
  by_cases h2 : xs.length < 2
  · rw [if_pos h2] at h; cases h
  · rw [if_neg h2, rd_of_lt (xs := xs) (i := xs.length - 2) (by omega),
      rd_of_lt (xs := xs) (i := xs.length - 1) (by omega), rdSlice_ok (by omega)] at h
    simp only [] at h
    cases h
    simp only [apduRespEnc, oct_toNat, List.drop_zero]
    apply List.ext_getElem
    · simp; omega
    · intro i h1 h2
      simp only [List.length_append, List.length_take, List.length_cons, List.length_nil] at h1
      by_cases hi : i < xs.length - 2
      · rw [List.getElem_append_left (by simp; omega)]; simp
      · rw [List.getElem_append_right (by simp; omega)]
        simp only [List.length_take]
        have : i = xs.length - 2 ∨ i = xs.length - 1 := by omega
        rcases this with e | e
        · subst e; simp [Nat.min_eq_left (Nat.sub_le _ _)]
        · subst e
          have e1 : xs.length - 1 - min (xs.length - 2) xs.length = 1 := by omega
          simp only [e1]
          simp

/-- an accepted response is consumed entirely: data field and the two status octets are exactly the input
    (with `apduRespDec_no_oob`: every read, on accepted and on rejected inputs, is inside `[0, count)`) -/
theorem apduRespDec_bounded (xs : List UInt8) (r : Resp) (h : apduRespDec xs = .ok r) :
    r.rdf.length + 2 = xs.length := by
  have e := apduRespDec_canonical xs r h
  rw [← e]; simp [apduRespEnc]
example : apduRespDec [0x90] = .err ∧ apduRespDec [1, 2, 0x90, 0] = .ok ⟨0x90, 0, [1, 2]⟩ := by decide +kernel

/-- decode ∘ encode = id for every response -/
theorem apduResp_roundtrip (r : Resp) : apduRespDec (apduRespEnc r) = .ok r := by
  unfold apduRespDec apduRespEnc
  simp only [List.length_append, List.length_cons, List.length_nil]
  rw [if_neg (by omega)]
  have e1 : rd (r.rdf ++ [r.sw1, r.sw2]) (r.rdf.length + (0 + 1 + 1) - 2) = .ok r.sw1.toNat := by
    rw [rd_of_lt (by simp)]
    simp
  have e2 : rd (r.rdf ++ [r.sw1, r.sw2]) (r.rdf.length + (0 + 1 + 1) - 1) = .ok r.sw2.toNat := by
    rw [rd_of_lt (by simp)]
    have : r.rdf.length + (0 + 1 + 1) - 1 = r.rdf.length + 1 := by omega
    simp [this]
  rw [e1, e2, rdSlice_ok (by simp)]
  simp [oct_toNat]
example : apduRespDec [0x01, 0x02, 0x90, 0x00] = .ok ⟨0x90, 0x00, [0x01, 0x02]⟩ := by decide +kernel

/-! ### hex -/

/-- hexTo ∘ hexFrom = id on every octet string -/
theorem hex_roundtrip (v : List UInt8) : hexTo (hexFrom v) = v := by
  induction v with
  | nil => rfl
  | cons o rest ih =>
    simp only [hexFrom, hexTo, ih, hexToO, hexDec_upper_hi, hexDec_upper_lo]
    congr 1
    have : o.toNat / 16 * 16 + o.toNat % 16 = o.toNat := by omega
    rw [this, oct_toNat]
example : hexTo (hexFrom [0x0A, 0xFF]) = [0x0A, 0xFF] := by decide

/-- what hexFrom produces is accepted by hexIsValid -/
theorem hexFrom_valid (v : List UInt8) : hexIsValid (hexFrom v) = true := by
  unfold hexIsValid
  rw [hexFrom_length, if_neg (by omega)]
  exact hexFrom_all v

end Bee2V.C08

/-
C08 — nested SEQUENCEs: DER-level lemmas about derTSEQEncStart/Stop and derTSEQDecStart/Stop on encoded
structures, and the encoder interpreter `runEnc` on a tree of primitive codes and SEQUENCEs.
For use by the container theorems (C08) and by C17.  All statements are about arbitrary buffers.
-/
import Bee2V.C08.LemmasTyped
import Bee2V.C08.Model3
namespace Bee2V.C08

/-! ### DER level -/

/-- derEnc of a valid tag, spelled out -/
theorem derEnc_eq (tag : Nat) (v : List UInt8) (hv : derTIsValid tag = true) :
    derEnc tag v = .ok (beBytes (tCount tag) tag ++ derLEnc v.length ++ v) := by
  unfold derEnc; rw [derTEnc_ok tag hv]

theorem tEncLen_eq (tag : Nat) (hv : derTIsValid tag = true) : tEncLen tag = tCount tag := by
  unfold tEncLen; rw [derTEnc_ok tag hv]; simp [beBytes_length]

theorem derTSEQEncStart_ok (pos tag : Nat) (hv : derTIsValid tag = true) (hc : derTIsConstructive tag = true) :
    derTSEQEncStart pos tag = .ok (⟨pos, tag, 0⟩, beBytes (tCount tag) tag ++ [0]) := by
  unfold derTSEQEncStart
  rw [if_neg (by simp [hv, hc]), derEnc_eq tag [] hv]
  have : derLEnc ([] : List UInt8).length = [0] := by decide
  rw [this]; simp

/-- Start on the code of a SEQUENCE (followed by anything) reads its tag and length -/
theorem derTSEQDecStart_enc (tag : Nat) (content rest : List UInt8) (hv : derTIsValid tag = true)
    (hc : derTIsConstructive tag = true) (hlt : tag < U32) (hl : content.length < SIZE_MAX) :
    derTSEQDecStart (beBytes (tCount tag) tag ++ derLEnc content.length ++ content ++ rest) tag =
      .ok (⟨0, tag, content.length⟩, tCount tag + (derLEnc content.length).length) := by
  unfold derTSEQDecStart
  rw [if_neg (by simp [hc])]
  have e1 : beBytes (tCount tag) tag ++ derLEnc content.length ++ content ++ rest =
      beBytes (tCount tag) tag ++ (derLEnc content.length ++ (content ++ rest)) := by simp
  rw [e1, derT_roundtrip' tag hv hlt]; simp only []
  rw [if_neg (by omega), drop_left' _ _ _ (beBytes_length _ _), derL_roundtrip' content.length hl]; simp only []
  have h4 := tCount_le4 tag hlt
  have h9 := derLEnc_le9 content.length (by omegaW)
  rw [Nat.mod_eq_of_lt (by omegaW)]

/-- Stop exactly behind the content succeeds -/
theorem derTSEQDecStop_enc (p0 tag len : Nat) (hv : derTIsValid tag = true)
    (hW : tCount tag + (derLEnc len).length + len < W) :
    derTSEQDecStop (tCount tag + (derLEnc len).length + len) ⟨p0, tag, len⟩ = .ok () := by
  unfold derTSEQDecStop
  simp only []
  rw [tEncLen_eq tag hv, Nat.mod_eq_of_lt (by omega), if_neg (by omega), Nat.mod_eq_of_lt hW, if_pos rfl]

/-! ### the encoder interpreter with its anchors -/

/-- runEnc, also returning the anchor list (needed to compose step lists) -/
def runEncA : List EStep → List UInt8 → List (Nat × Anchor) → R (List UInt8 × List (Nat × Anchor))
  | [], buf, an => .ok (buf, an)
  | .bytes e :: ss, buf, an =>
    match e with
    | .ok b => runEncA ss (buf ++ b) an
    | .err => .err
    | .oob => .oob
  | .start slot tag :: ss, buf, an =>
    match derTSEQEncStart buf.length tag with
    | .ok (a, b) => runEncA ss (buf ++ b) ((slot, a) :: an)
    | .err => .err
    | .oob => .oob
  | .stop slot :: ss, buf, an =>
    match an.find? (fun e => e.1 = slot) with
    | some (_, a) =>
      match derTSEQEncStop buf a with
      | .ok (_, buf') => runEncA ss buf' an
      | .err => .err
      | .oob => .oob
    | none => .err

theorem runEnc_eq_A (ss : List EStep) (buf : List UInt8) (an : List (Nat × Anchor)) :
    runEnc ss buf an = match runEncA ss buf an with
      | .ok (b, _) => .ok b
      | .err => .err
      | .oob => .oob := by
  induction ss generalizing buf an with
  | nil => rfl
  | cons s ss ih =>
    cases s with
    | bytes e =>
      cases e with
      | ok b => simp only [runEnc, runEncA]; exact ih _ _
      | err => rfl
      | oob => rfl
    | start slot tag =>
      simp only [runEnc, runEncA]
      cases derTSEQEncStart buf.length tag with
      | ok r => obtain ⟨a, b⟩ := r; exact ih _ _
      | err => rfl
      | oob => rfl
    | stop slot =>
      simp only [runEnc, runEncA]
      cases an.find? (fun e => e.1 = slot) with
      | none => rfl
      | some e =>
        obtain ⟨_, a⟩ := e
        simp only []
        cases derTSEQEncStop buf a with
        | ok r => obtain ⟨_, b⟩ := r; exact ih _ _
        | err => rfl
        | oob => rfl

theorem runEncA_append (s1 s2 : List EStep) (buf : List UInt8) (an : List (Nat × Anchor)) :
    runEncA (s1 ++ s2) buf an = match runEncA s1 buf an with
      | .ok (b, a) => runEncA s2 b a
      | .err => .err
      | .oob => .oob := by
  induction s1 generalizing buf an with
  | nil => rfl
  | cons s ss ih =>
    cases s with
    | bytes e =>
      cases e with
      | ok b => simp only [List.cons_append, runEncA]; exact ih _ _
      | err => rfl
      | oob => rfl
    | start slot tag =>
      simp only [List.cons_append, runEncA]
      cases derTSEQEncStart buf.length tag with
      | ok r => obtain ⟨a, b⟩ := r; exact ih _ _
      | err => rfl
      | oob => rfl
    | stop slot =>
      simp only [List.cons_append, runEncA]
      cases an.find? (fun e => e.1 = slot) with
      | none => rfl
      | some e =>
        obtain ⟨_, a⟩ := e
        simp only []
        cases derTSEQEncStop buf a with
        | ok r => obtain ⟨_, b⟩ := r; exact ih _ _
        | err => rfl
        | oob => rfl

/-! ### trees of codes -/

/-- an encoded structure: primitive codes and SEQUENCEs (anchor slot, tag, members) -/
inductive Tree where
  | prim (b : List UInt8)
  | seq (slot tag : Nat) (kids : List Tree)

mutual
/-- the `derEncStep` lines that write the structure -/
def Tree.steps : Tree → List EStep
  | .prim b => [.bytes (.ok b)]
  | .seq slot tag kids => .start slot tag :: (Tree.stepsL kids ++ [.stop slot])
def Tree.stepsL : List Tree → List EStep
  | [] => []
  | t :: ts => t.steps ++ Tree.stepsL ts
end

mutual
/-- the DER code of the structure -/
def Tree.code : Tree → List UInt8
  | .prim b => b
  | .seq _ tag kids => beBytes (tCount tag) tag ++ derLEnc (Tree.codeL kids).length ++ Tree.codeL kids
def Tree.codeL : List Tree → List UInt8
  | [] => []
  | t :: ts => t.code ++ Tree.codeL ts
end

mutual
def Tree.slots : Tree → List Nat
  | .prim _ => []
  | .seq slot _ kids => slot :: Tree.slotsL kids
def Tree.slotsL : List Tree → List Nat
  | [] => []
  | t :: ts => t.slots ++ Tree.slotsL ts
end

mutual
/-- upper bound of the code length -/
def Tree.bound : Tree → Nat
  | .prim b => b.length
  | .seq _ _ kids => 13 + Tree.boundL kids
def Tree.boundL : List Tree → Nat
  | [] => 0
  | t :: ts => t.bound + Tree.boundL ts
end

mutual
/-- every SEQUENCE tag is valid, constructive and fits u32; a slot is not reused inside its own SEQUENCE -/
def Tree.Ok : Tree → Prop
  | .prim _ => True
  | .seq slot tag kids => derTIsValid tag = true ∧ derTIsConstructive tag = true ∧ tag < U32 ∧
      slot ∉ Tree.slotsL kids ∧ Tree.OkL kids
def Tree.OkL : List Tree → Prop
  | [] => True
  | t :: ts => t.Ok ∧ Tree.OkL ts
end

mutual
theorem Tree.code_le (t : Tree) (h : t.Ok) (hb : t.bound < W) : t.code.length ≤ t.bound := by
  match t with
  | .prim b => simp [Tree.code, Tree.bound]
  | .seq slot tag kids =>
    simp only [Tree.Ok] at h
    simp only [Tree.bound] at hb ⊢
    have hk := Tree.codeL_le kids h.2.2.2.2 (by omega)
    have h4 := tCount_le4 tag h.2.2.1
    have h9 := derLEnc_le9 (Tree.codeL kids).length (by omega)
    simp only [Tree.code, List.length_append, beBytes_length]
    omega
theorem Tree.codeL_le (ts : List Tree) (h : Tree.OkL ts) (hb : Tree.boundL ts < W) : (Tree.codeL ts).length ≤ Tree.boundL ts := by
  match ts with
  | [] => simp [Tree.codeL, Tree.boundL]
  | t :: ts =>
    simp only [Tree.OkL] at h
    simp only [Tree.boundL] at hb ⊢
    have h1 := Tree.code_le t h.1 (by omega)
    have h2 := Tree.codeL_le ts h.2 (by omega)
    simp only [Tree.codeL, List.length_append]
    omega
end

theorem find_cons_ne (slot s : Nat) (a : Anchor) (an : List (Nat × Anchor)) (h : s ≠ slot) :
    ((slot, a) :: an).find? (fun e => e.1 = s) = an.find? (fun e => e.1 = s) := by
  rw [List.find?_cons]
  simp [Ne.symm h]

mutual
/-- runEncA on the steps of a tree appends its code; anchors of foreign slots are untouched -/
theorem runEncA_tree (t : Tree) (h : t.Ok) (buf : List UInt8) (an : List (Nat × Anchor))
    (hW : buf.length + t.bound + 16 < W) :
    ∃ an', runEncA t.steps buf an = .ok (buf ++ t.code, an') ∧
      ∀ s, s ∉ t.slots → an'.find? (fun e => e.1 = s) = an.find? (fun e => e.1 = s) := by
  match t with
  | .prim b => exact ⟨an, by simp [Tree.steps, runEncA, Tree.code], fun _ _ => rfl⟩
  | .seq slot tag kids =>
    simp only [Tree.Ok] at h
    obtain ⟨hv, hc, hlt, hslot, hkids⟩ := h
    simp only [Tree.bound] at hW
    simp only [Tree.steps, runEncA]
    rw [derTSEQEncStart_ok buf.length tag hv hc]; simp only []
    have h4 := tCount_le4 tag hlt
    obtain ⟨an1, hrun, hfind⟩ := runEncA_treeL kids hkids (buf ++ (beBytes (tCount tag) tag ++ [0]))
      ((slot, ⟨buf.length, tag, 0⟩) :: an) (by simp [beBytes_length]; omega)
    rw [runEncA_append, hrun]; simp only [runEncA]
    rw [hfind slot hslot]
    simp only [List.find?_cons, decide_true]
    have hcl := Tree.codeL_le kids hkids (by omega)
    obtain ⟨E, hE, hstop⟩ := derTSEQEnc_spec buf (Tree.codeL kids) tag ⟨buf.length, tag, 0⟩ (beBytes (tCount tag) tag ++ [0])
      (derTSEQEncStart_ok buf.length tag hv hc) hlt (by omega)
    rw [derEnc_eq tag _ hv] at hE
    injection hE with hE
    rw [hstop]; simp only []
    refine ⟨an1, by rw [← hE]; simp [Tree.code], ?_⟩
    intro s hs
    simp only [Tree.slots, List.mem_cons, not_or] at hs
    rw [hfind s hs.2, find_cons_ne slot s _ an hs.1]
theorem runEncA_treeL (ts : List Tree) (h : Tree.OkL ts) (buf : List UInt8) (an : List (Nat × Anchor))
    (hW : buf.length + Tree.boundL ts + 16 < W) :
    ∃ an', runEncA (Tree.stepsL ts) buf an = .ok (buf ++ Tree.codeL ts, an') ∧
      ∀ s, s ∉ Tree.slotsL ts → an'.find? (fun e => e.1 = s) = an.find? (fun e => e.1 = s) := by
  match ts with
  | [] => exact ⟨an, by simp [Tree.stepsL, runEncA, Tree.codeL], fun _ _ => rfl⟩
  | t :: ts =>
    simp only [Tree.OkL] at h
    simp only [Tree.boundL] at hW
    obtain ⟨an1, hr1, hf1⟩ := runEncA_tree t h.1 buf an (by omega)
    have hcl := Tree.code_le t h.1 (by omega)
    obtain ⟨an2, hr2, hf2⟩ := runEncA_treeL ts h.2 (buf ++ t.code) an1 (by simp; omega)
    refine ⟨an2, ?_, ?_⟩
    · simp only [Tree.stepsL]
      rw [runEncA_append, hr1]; simp only []
      rw [hr2]; simp [Tree.codeL]
    · intro s hs
      simp only [Tree.slotsL, List.mem_append, not_or] at hs
      rw [hf2 s hs.2, hf1 s hs.1]
end

/-- the encoder interpreter on a well-formed tree writes exactly its nested DER code -/
theorem runEnc_tree (ts : List Tree) (h : Tree.OkL ts) (buf : List UInt8) (an : List (Nat × Anchor))
    (hW : buf.length + Tree.boundL ts + 16 < W) :
    runEnc (Tree.stepsL ts) buf an = .ok (buf ++ Tree.codeL ts) := by
  obtain ⟨an', hr, _⟩ := runEncA_treeL ts h buf an hW
  rw [runEnc_eq_A, hr]


/-! ### the decoder interpreter: compositional acceptance -/

theorem runDec_append (der : List UInt8) (s1 s2 : List DStep) (st : DSt) (p : Nat) :
    runDec der (s1 ++ s2) st p = match runDec der s1 st p with
      | .ok (p', st') => runDec der s2 st' p'
      | .err => .err
      | .oob => .oob := by
  induction s1 generalizing st p with
  | nil => rfl
  | cons s ss ih =>
    simp only [List.cons_append, runDec]
    cases s st p (der.drop p) with
    | ok r => obtain ⟨t, st'⟩ := r; exact ih _ _
    | err => rfl
    | oob => rfl

/-- `S` accepts the code `C` wherever it stands: on any input that continues with `C` at the current
    position (state satisfying `pre`), running `S` consumes exactly `C` and updates the state by `f`;
    anchors of slots outside `used` are not touched -/
structure Acc (S : List DStep) (C : List UInt8) (pre : DSt → Prop) (f : Nat → DSt → DSt) (used : List Nat) : Prop where
  run : ∀ (der : List UInt8) (p : Nat) (rest : List UInt8) (st : DSt) (more : List DStep),
    der.drop p = C ++ rest → der.length + 64 < W → pre st →
    runDec der (S ++ more) st p = runDec der more (f p st) (p + C.length)
  frame : ∀ (p : Nat) (st : DSt) (s : Nat), s ∉ used →
    (f p st).anchors.find? (fun e => e.1 = s) = st.anchors.find? (fun e => e.1 = s)

theorem drop_after (der : List UInt8) (p : Nat) (C1 C2 rest : List UInt8) (h : der.drop p = C1 ++ C2 ++ rest) :
    der.drop (p + C1.length) = C2 ++ rest := by
  rw [← List.drop_drop, h, List.append_assoc, List.drop_left]

theorem Acc.nil (pre : DSt → Prop) : Acc [] [] pre (fun _ st => st) [] :=
  ⟨fun der p rest st more _ _ _ => by simp, fun _ _ _ _ => rfl⟩

/-- sequencing -/
theorem Acc.append {S1 S2 : List DStep} {C1 C2 : List UInt8} {pre1 pre2 : DSt → Prop} {f1 f2 : Nat → DSt → DSt}
    {u1 u2 : List Nat} (h1 : Acc S1 C1 pre1 f1 u1) (h2 : Acc S2 C2 pre2 f2 u2)
    (hpre : ∀ p st, pre1 st → pre2 (f1 p st)) :
    Acc (S1 ++ S2) (C1 ++ C2) pre1 (fun p st => f2 (p + C1.length) (f1 p st)) (u1 ++ u2) := by
  constructor
  · intro der p rest st more hd hl hp
    rw [List.append_assoc, h1.run der p (C2 ++ rest) st (S2 ++ more) (by rw [hd]; simp) hl hp,
      h2.run der (p + C1.length) rest (f1 p st) more (drop_after der p C1 C2 rest (by rw [hd])) hl (hpre p st hp)]
    simp [Nat.add_assoc]
  · intro p st s hs
    simp only [List.mem_append, not_or] at hs
    rw [h2.frame _ _ s hs.2, h1.frame _ _ s hs.1]

/-- weakening of the precondition / renaming of the state function -/
theorem Acc.conv {S : List DStep} {C : List UInt8} {pre pre' : DSt → Prop} {f f' : Nat → DSt → DSt} {u : List Nat}
    (h : Acc S C pre f u) (hp : ∀ st, pre' st → pre st) (hf : ∀ p st, f' p st = f p st) : Acc S C pre' f' u := by
  constructor
  · intro der p rest st more hd hl hpr
    rw [h.run der p rest st more hd hl (hp st hpr), hf]
  · intro p st s hs; rw [hf]; exact h.frame p st s hs

/-- a SEQUENCE around accepted members -/
theorem Acc.seq {S : List DStep} {C : List UInt8} {pre : DSt → Prop} {f : Nat → DSt → DSt} {u : List Nat}
    (slot tag : Nat) (h : Acc S C pre f u) (hv : derTIsValid tag = true) (hc : derTIsConstructive tag = true)
    (hlt : tag < U32) (hslot : slot ∉ u)
    (hpre : ∀ st p a, pre st → pre { st with anchors := (slot, p, a) :: st.anchors }) :
    Acc (dStart slot tag :: (S ++ [dStop slot])) (beBytes (tCount tag) tag ++ derLEnc C.length ++ C) pre
      (fun p st => f (p + (tCount tag + (derLEnc C.length).length))
        { st with anchors := (slot, p, ⟨0, tag, C.length⟩) :: st.anchors }) (slot :: u) := by
  constructor
  · intro der p rest st more hd hl hp
    have hCl : C.length < SIZE_MAX := by
      have : (der.drop p).length ≤ der.length := by simp [List.length_drop]
      rw [hd] at this; simp at this; omegaW
    have h4 := tCount_le4 tag hlt
    have h9 := derLEnc_le9 C.length (by omegaW)
    have hCb : tCount tag + (derLEnc C.length).length + C.length ≤ der.length := by
      have := congrArg List.length hd
      simp [beBytes_length] at this; omega
    simp only [List.cons_append, runDec, dStart]
    rw [hd, derTSEQDecStart_enc tag C rest hv hc hlt hCl]; simp only []
    rw [List.append_assoc, h.run der _ rest _ ([dStop slot] ++ more)
      (by
        have := drop_after der p (beBytes (tCount tag) tag ++ derLEnc C.length) C rest (by rw [hd])
        simpa [beBytes_length] using this) hl (hpre st p _ hp)]
    simp only [List.cons_append, List.nil_append, runDec, dStop]
    rw [h.frame _ _ slot hslot]
    simp only [List.find?_cons, decide_true]
    have hpos : p + (tCount tag + (derLEnc C.length).length) + C.length - p = tCount tag + (derLEnc C.length).length + C.length := by omega
    rw [hpos, derTSEQDecStop_enc 0 tag C.length hv (by omegaW)]; simp only []
    congr 1
    simp [beBytes_length]; omega
  · intro p st s hs
    simp only [List.mem_cons, not_or] at hs
    rw [h.frame _ _ s hs.2]
    rw [List.find?_cons]; simp [Ne.symm hs.1]


end Bee2V.C08

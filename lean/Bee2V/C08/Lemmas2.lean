/- C08 — helper lemmas for Props2 (octet conversions, hex digits). -/
import Bee2V.C08.Lemmas
namespace Bee2V.C08

theorem oct_toNat (b : UInt8) : oct b.toNat = b := by
  unfold oct
  rw [Nat.mod_eq_of_lt (UInt8.toNat_lt b)]
  exact UInt8.ofNat_toNat

theorem hexDec_upper_hi (o : UInt8) : hexDec (hexUpperCh (o.toNat / 16)).toNat = o.toNat / 16 := by
  have : o.toNat / 16 < 16 := by have := UInt8.toNat_lt o; omega
  generalize o.toNat / 16 = n at *
  have : n ∈ List.range 16 := by simp; omega
  revert n
  decide
theorem hexDec_upper_lo (o : UInt8) : hexDec (hexUpperCh (o.toNat % 16)).toNat = o.toNat % 16 := by
  have : o.toNat % 16 < 16 := by omega
  generalize o.toNat % 16 = n at *
  have : n ∈ List.range 16 := by simp; omega
  revert n
  decide

theorem hexFrom_length (v : List UInt8) : (hexFrom v).length = 2 * v.length := by
  induction v with
  | nil => rfl
  | cons o rest ih => simp only [hexFrom, List.length_cons, ih]; omega

theorem hexFrom_all (v : List UInt8) : (hexFrom v).all (fun c => hexDec c.toNat ≠ 255) = true := by
  induction v with
  | nil => rfl
  | cons o rest ih =>
    have h1 := hexDec_upper_hi o
    have h2 := hexDec_upper_lo o
    have : o.toNat / 16 < 16 := by have := UInt8.toNat_lt o; omega
    simp only [hexFrom, List.all_cons, ih, Bool.and_true, h1, h2]
    simp; omega


end Bee2V.C08

/-
C08 — property theorems, part 9: the decoders of the CV certificate (btokCVCBodyDec, the parse path of
btokCVCUnwrap) write into the fixed-size fields of btok_cvc_t only after the decoded length has been validated:
on EVERY input — accepted or rejected — every write fits the capacity of its field (authority[13], holder[13]
incl. the terminating zero, pubkey[128], hat_eid[5], from[6], until[6], hat_esign[2], sig[96]).  The harness
compares the structure after every decode (failed or not) with the image of the model's writes (`cvcimg`,
`cvcuimg`), the structure being an exact-size sanitizer block.

The bound `8 * |input| + 16 < 2^64` excludes inputs of 2^61 octets, on which the bit length `(l - 1) * 8` of
derTBITDec wraps in size_t.
-/
import Bee2V.C08.LemmasCvc
namespace Bee2V.C08

/-- btokCVCBodyDec: every write made — also by a decode that then fails — fits its field -/
theorem cvcBodyDec_writes_within_capacity (body : List UInt8) (hlen : body.length * 8 + 16 < W) :
    ∀ e ∈ (cvcBodyDecS body).2.outs, capOK e = true :=
  cvcBodyDecS_capInv body hlen

/-- btokCVCUnwrap (parse path: certificate SEQUENCE, body, signature, end of input): the same -/
theorem cvcUnwrap_writes_within_capacity (cert : List UInt8) (hlen : cert.length * 8 + 16 < W) :
    ∀ e ∈ (cvcUnwrapS cert).2.outs, capOK e = true :=
  cvcUnwrapS_capInv cert hlen

/-- btokCVCUnwrap with an external public key of 48/64/96/128 octets (the signature length then comes from the key
    length, not from the probes), up to the call of btokVerify: the same -/
theorem cvcUnwrapKey_writes_within_capacity (cert : List UInt8) (kl : Nat) (hk : kl = 48 ∨ kl = 64 ∨ kl = 96 ∨ kl = 128)
    (hlen : cert.length * 8 + 16 < W) : ∀ e ∈ (cvcUnwrapKS cert kl).outs, capOK e = true :=
  cvcUnwrapKS_capInv cert kl hk hlen

/-- the structure after btokCVCBodyDec, whatever the input and the result: both names are zero-terminated
    inside their 13 octets and pubkey_len / sig_len stay within pubkey[128] / sig[96] -/
theorem cvcBodyDec_image_ok (body : List UInt8) (hlen : body.length * 8 + 16 < W) :
    (cvcImage (cvcBodyDecS body).2).authority[12]? = some 0 ∧ (cvcImage (cvcBodyDecS body).2).holder[12]? = some 0 ∧
    (cvcImage (cvcBodyDecS body).2).pubkey_len ≤ 128 ∧ (cvcImage (cvcBodyDecS body).2).sig_len ≤ 96 :=
  image_ok (cvcBodyDecS_capInv body hlen)

/-- … and after btokCVCUnwrap -/
theorem cvcUnwrap_image_ok (cert : List UInt8) (hlen : cert.length * 8 + 16 < W) :
    (cvcImage (cvcUnwrapS cert).2).authority[12]? = some 0 ∧ (cvcImage (cvcUnwrapS cert).2).holder[12]? = some 0 ∧
    (cvcImage (cvcUnwrapS cert).2).pubkey_len ≤ 128 ∧ (cvcImage (cvcUnwrapS cert).2).sig_len ≤ 96 :=
  image_ok (cvcUnwrapS_capInv cert hlen)

/-- a step list keeps, on success and on failure, every state invariant each of its steps keeps -/
theorem runDecS_keeps (der : List UInt8) (P : DSt → Prop) (steps : List DStep) (st : DSt) (p : Nat)
    (hs : AllInv der.length P steps) (h : P st) : P (runDecS der steps st p).2 :=
  runDecS_inv der der.length (Nat.le_refl _) P steps st p hs h

/-! non-vacuity: an accepted body (writes: authority, pubkey, holder, from, until); a body whose holder has 13
    characters is rejected with only authority and pubkey written; 300 characters likewise -/
example : (cvcBodyDecS [127, 78, 113, 95, 41, 1, 0, 66, 8, 65, 65, 65, 65, 65, 65, 65, 65, 127, 73, 63, 6, 10, 42, 112, 0, 2, 0, 34, 101, 45, 2, 1, 3, 49, 0, 75, 75, 75, 75, 75, 75, 75, 75, 75, 75, 75, 75, 75, 75, 75, 75, 75, 75, 75, 75, 75, 75, 75, 75, 75, 75, 75, 75, 75, 75, 75, 75, 75, 75, 75, 75, 75, 75, 75, 75, 75, 75, 75, 75, 75, 75, 75, 75, 95, 32, 12, 72, 72, 72, 72, 72, 72, 72, 72, 72, 72, 72, 72, 95, 37, 6, 0, 0, 0, 0, 0, 0, 95, 36, 6, 0, 0, 0, 0, 0, 0]).1 = .ok 116 ∧
    (cvcBodyDecS [127, 78, 113, 95, 41, 1, 0, 66, 8, 65, 65, 65, 65, 65, 65, 65, 65, 127, 73, 63, 6, 10, 42, 112, 0, 2, 0, 34, 101, 45, 2, 1, 3, 49, 0, 75, 75, 75, 75, 75, 75, 75, 75, 75, 75, 75, 75, 75, 75, 75, 75, 75, 75, 75, 75, 75, 75, 75, 75, 75, 75, 75, 75, 75, 75, 75, 75, 75, 75, 75, 75, 75, 75, 75, 75, 75, 75, 75, 75, 75, 75, 75, 75, 95, 32, 12, 72, 72, 72, 72, 72, 72, 72, 72, 72, 72, 72, 72, 95, 37, 6, 0, 0, 0, 0, 0, 0, 95, 36, 6, 0, 0, 0, 0, 0, 0]).2.outs.map (fun e => (e.headD 0, e.length - 1)) = [(1, 8), (3, 48), (2, 12), (5, 6), (6, 6)] := by
  decide +kernel
example : (cvcBodyDecS [127, 78, 114, 95, 41, 1, 0, 66, 8, 65, 65, 65, 65, 65, 65, 65, 65, 127, 73, 63, 6, 10, 42, 112, 0, 2, 0, 34, 101, 45, 2, 1, 3, 49, 0, 75, 75, 75, 75, 75, 75, 75, 75, 75, 75, 75, 75, 75, 75, 75, 75, 75, 75, 75, 75, 75, 75, 75, 75, 75, 75, 75, 75, 75, 75, 75, 75, 75, 75, 75, 75, 75, 75, 75, 75, 75, 75, 75, 75, 75, 75, 75, 75, 95, 32, 13, 72, 72, 72, 72, 72, 72, 72, 72, 72, 72, 72, 72, 72, 95, 37, 6, 0, 0, 0, 0, 0, 0, 95, 36, 6, 0, 0, 0, 0, 0, 0]).1 = .err ∧
    (cvcBodyDecS [127, 78, 114, 95, 41, 1, 0, 66, 8, 65, 65, 65, 65, 65, 65, 65, 65, 127, 73, 63, 6, 10, 42, 112, 0, 2, 0, 34, 101, 45, 2, 1, 3, 49, 0, 75, 75, 75, 75, 75, 75, 75, 75, 75, 75, 75, 75, 75, 75, 75, 75, 75, 75, 75, 75, 75, 75, 75, 75, 75, 75, 75, 75, 75, 75, 75, 75, 75, 75, 75, 75, 75, 75, 75, 75, 75, 75, 75, 75, 75, 75, 75, 75, 95, 32, 13, 72, 72, 72, 72, 72, 72, 72, 72, 72, 72, 72, 72, 72, 95, 37, 6, 0, 0, 0, 0, 0, 0, 95, 36, 6, 0, 0, 0, 0, 0, 0]).2.outs.map (fun e => (e.headD 0, e.length - 1)) = [(1, 8), (3, 48)] := by
  decide +kernel
example : (cvcBodyDecS ([127, 78, 130, 1, 147, 95, 41, 1, 0, 66, 8, 65, 65, 65, 65, 65, 65, 65, 65, 127, 73, 63, 6, 10, 42, 112, 0, 2, 0, 34, 101, 45, 2, 1, 3, 49, 0, 75, 75, 75, 75, 75, 75, 75, 75, 75, 75, 75, 75, 75, 75, 75, 75, 75, 75, 75, 75, 75, 75, 75, 75, 75, 75, 75, 75, 75, 75, 75, 75, 75, 75, 75, 75, 75, 75, 75, 75, 75, 75, 75, 75, 75, 75, 75, 75, 95, 32, 130, 1, 44] ++ List.replicate 300 72 ++ [95, 37, 6, 0, 0, 0, 0, 0, 0, 95, 36, 6, 0, 0, 0, 0, 0, 0])).1 = .err ∧
    (cvcBodyDecS ([127, 78, 130, 1, 147, 95, 41, 1, 0, 66, 8, 65, 65, 65, 65, 65, 65, 65, 65, 127, 73, 63, 6, 10, 42, 112, 0, 2, 0, 34, 101, 45, 2, 1, 3, 49, 0, 75, 75, 75, 75, 75, 75, 75, 75, 75, 75, 75, 75, 75, 75, 75, 75, 75, 75, 75, 75, 75, 75, 75, 75, 75, 75, 75, 75, 75, 75, 75, 75, 75, 75, 75, 75, 75, 75, 75, 75, 75, 75, 75, 75, 75, 75, 75, 75, 95, 32, 130, 1, 44] ++ List.replicate 300 72 ++ [95, 37, 6, 0, 0, 0, 0, 0, 0, 95, 36, 6, 0, 0, 0, 0, 0, 0])).2.outs.map (fun e => (e.headD 0, e.length - 1)) = [(1, 8), (3, 48)] := by
  decide +kernel
example : capOK (2 :: List.replicate 13 72) = false ∧ capOK (2 :: List.replicate 12 72) = true := by decide

end Bee2V.C08

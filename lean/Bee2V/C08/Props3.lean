/-
C08 — property theorems, part 3: CANONICAL FORM (whatever a decoder accepts is exactly what the
encoder produces for the decoded value: `D xs = ok (v, k) → E v = ok (xs.take k)`) and ROUND TRIP
(`valid v → D (E v ++ rest) = ok (v, |E v|)` for every continuation `rest`) for the DER layer:
T, L, TL, TLV, OCT, PSTR, SIZE, UINT, BIT.  All inputs, all lengths < 2^64.
-/
import Bee2V.C08.LemmasTyped
namespace Bee2V.C08

/-! ### T -/

/-- the octets derTDec accepts as a tag are exactly derTEnc of the decoded tag (needs fix-1) -/
theorem derTDec_canonical (der : List UInt8) (tag k : Nat) (h : derTDec der = .ok (tag, k)) :
    derTEnc tag = .ok (der.take k) := derTDec_canonical' der tag k h
example : derTDec [0x1F, 0x81, 0x00, 0x55] = .ok (0x1F8100, 3) ∧ derTEnc 0x1F8100 = .ok [0x1F, 0x81, 0x00] := by
  decide +kernel

/-- every tag derTEnc accepts decodes back, whatever follows it -/
theorem derT_roundtrip (tag : Nat) (e rest : List UInt8) (hlt : tag < U32) (h : derTEnc tag = .ok e) :
    derTDec (e ++ rest) = .ok (tag, e.length) := by
  obtain ⟨hv, he⟩ := derTEnc_valid tag e h
  subst he
  rw [beBytes_length]
  exact derT_roundtrip' tag hv hlt rest
example : derTEnc 0x7F21 = .ok [0x7F, 0x21] := by decide +kernel

/-! ### L -/

/-- the octets derLDec accepts are the minimal (DER) code of the decoded length -/
theorem derLDec_canonical (der : List UInt8) (l k : Nat) (h : derLDec der = .ok (l, k)) :
    derLEnc l = der.take k := derLDec_canonical' der l k h
example : derLDec [0x82, 0x01, 0x00, 0x77] = .ok (256, 3) ∧ derLEnc 256 = [0x82, 0x01, 0x00] := by decide +kernel

/-- every length except the error value SIZE_MAX decodes back -/
theorem derL_roundtrip (l : Nat) (hl : l < SIZE_MAX) (rest : List UInt8) :
    derLDec (derLEnc l ++ rest) = .ok (l, (derLEnc l).length) := derL_roundtrip' l hl rest
example : derLEnc 18446744073709551614 = [0x88, 0xFF, 0xFF, 0xFF, 0xFF, 0xFF, 0xFF, 0xFF, 0xFE] := by decide +kernel

/-! ### TL, TLV -/

theorem derTLDec_canonical (der : List UInt8) (tag l c : Nat) (h : derTLDec der = .ok (tag, l, c)) :
    derTLEnc tag l = .ok (der.take c) := derTLDec_canonical' der tag l c h

theorem derTL_roundtrip (tag l : Nat) (e rest : List UInt8) (hlt : tag < U32) (hl : l < SIZE_MAX)
    (h : derTLEnc tag l = .ok e) : derTLDec (e ++ rest) = .ok (tag, l, e.length) := by
  have hv : derTIsValid tag = true := by
    unfold derTLEnc at h
    cases hT : derTEnc tag with
    | ok t => exact (derTEnc_valid tag t hT).1
    | err => rw [hT] at h; cases h
    | oob => rw [hT] at h; cases h
  obtain ⟨e', he', hd⟩ := derTL_roundtrip' tag l hv hlt hl rest
  rw [h] at he'; cases he'; exact hd
example : derTLEnc 0x30 300 = .ok [0x30, 0x82, 0x01, 0x2C] := by decide +kernel

/-- derDec: the accepted octets are derEnc of the decoded (tag, value) — in particular no second
    code of the same value is accepted (no long tags < 31, no non-minimal lengths) -/
theorem derDec_canonical (der : List UInt8) (hlen : der.length < W) (tag off len c : Nat)
    (h : derDec der = .ok (tag, off, len, c)) :
    derEnc tag ((der.drop off).take len) = .ok (der.take c) := derDec_canonical' der hlen tag off len c h
example : derDec [0x04, 0x02, 0xAA, 0xBB, 0xCC] = .ok (4, 2, 2, 4) ∧ derEnc 4 [0xAA, 0xBB] = .ok [0x04, 0x02, 0xAA, 0xBB] := by
  decide +kernel

/-- decode ∘ encode = id on (tag, value), with any continuation -/
theorem derEnc_roundtrip (tag : Nat) (val e rest : List UInt8) (hlt : tag < U32)
    (hlen : 13 + val.length + rest.length < W) (h : derEnc tag val = .ok e) :
    derDec (e ++ rest) = .ok (tag, e.length - val.length, val.length, e.length) ∧
      ((e ++ rest).drop (e.length - val.length)).take val.length = val := by
  have hv : derTIsValid tag = true := by
    unfold derEnc at h
    cases hT : derTEnc tag with
    | ok t => exact (derTEnc_valid tag t hT).1
    | err => rw [hT] at h; cases h
    | oob => rw [hT] at h; cases h
  obtain ⟨e', he', hd, hs⟩ := derEnc_roundtrip' tag val hv hlt rest hlen
  rw [h] at he'; cases he'; exact ⟨hd, hs⟩

/-! ### OCT, PSTR -/

theorem derTOCTDec_canonical (der : List UInt8) (hlen : der.length < W) (tag : Nat) (v : List UInt8) (c : Nat)
    (h : derTOCTDec der tag = .ok (v, c)) : derEnc tag v = .ok (der.take c) :=
  derTOCTDec_canonical' der hlen tag v c h

theorem derTOCT_roundtrip (tag : Nat) (val : List UInt8) (hv : derTIsValid tag = true) (hlt : tag < U32)
    (rest : List UInt8) (hlen : 13 + val.length + rest.length < W) :
    ∃ e, derEnc tag val = .ok e ∧ derTOCTDec (e ++ rest) tag = .ok (val, e.length) :=
  derTOCT_roundtrip' tag val hv hlt rest hlen
example : derTIsValid 0x5F37 = true := by decide +kernel

/-- PrintableString: accepted octets = code of the decoded string (needs fix-4: no NUL inside) -/
theorem derTPSTRDec_canonical (der : List UInt8) (hlen : der.length < W) (tag : Nat) (v : List UInt8) (c : Nat)
    (h : derTPSTRDec der tag = .ok (v, c)) : derTPSTREnc tag v = .ok (der.take c) :=
  derTPSTRDec_canonical' der hlen tag v c h

theorem derTPSTR_roundtrip (tag : Nat) (val : List UInt8) (hp : val.all (fun c => isPrintable c.toNat) = true)
    (hv : derTIsValid tag = true) (hlt : tag < U32) (rest : List UInt8) (hlen : 13 + val.length + rest.length < W) :
    ∃ e, derTPSTREnc tag val = .ok e ∧ derTPSTRDec (e ++ rest) tag = .ok (val, e.length) :=
  derTPSTR_roundtrip' tag val hp hv hlt rest hlen
example : ([0x42, 0x59, 0x43, 0x41] : List UInt8).all (fun c => isPrintable c.toNat) = true := by decide

/-! ### SIZE -/

/-- INTEGER that fits size_t: only the minimal two's-complement code of a non-negative value is accepted -/
theorem derTSIZEDec_canonical (der : List UInt8) (tag v c : Nat) (h : derTSIZEDec der tag = .ok (v, c)) :
    derTSIZEEnc tag v = .ok (der.take c) := derTSIZEDec_canonical' der tag v c h
example : derTSIZEDec [0x02, 0x09, 0x00, 0xFF, 0xFF, 0xFF, 0xFF, 0xFF, 0xFF, 0xFF, 0xFF] 2 = .ok (18446744073709551615, 11) := by
  decide +kernel

theorem derTSIZE_roundtrip (tag v : Nat) (hv : derTIsValid tag = true) (hlt : tag < U32) (hvW : v < W)
    (rest : List UInt8) :
    ∃ e, derTSIZEEnc tag v = .ok e ∧ derTSIZEDec (e ++ rest) tag = .ok (v, e.length) :=
  derTSIZE_roundtrip' tag v hv hlt hvW rest

/-! ### UINT (value = little-endian octets) -/

theorem derTUINTDec_canonical (der : List UInt8) (hlen : der.length < W) (tag : Nat) (w : List UInt8) (c : Nat)
    (h : derTUINTDec der tag = .ok (w, c)) : derTUINTEnc tag w = .ok (der.take c) :=
  derTUINTDec_canonical' der hlen tag w c h
example : derTUINTDec [0x02, 0x03, 0x00, 0xFF, 0x01] 2 = .ok ([0x01, 0xFF], 5) := by decide +kernel

/-- decoding an encoded non-empty value returns it with the insignificant high zero octets removed
    (`uintStrip` = the stripping loop of derTUINTEnc) -/
theorem derTUINT_roundtrip (tag : Nat) (val : List UInt8) (hne : val ≠ []) (hv : derTIsValid tag = true)
    (hlt : tag < U32) (rest : List UInt8) (hlen : 15 + val.length + rest.length < W) :
    ∃ e, derTUINTEnc tag val = .ok e ∧
      derTUINTDec (e ++ rest) tag = .ok (val.take (uintStrip val val.length), e.length) :=
  derTUINT_roundtrip' tag val hne hv hlt rest hlen
example : uintStrip [0x01, 0xFF, 0x00, 0x00] 4 = 2 := by decide

/-! ### BIT -/

/-- BIT STRING: accepted octets = code of the decoded (octets, bit length); needs fix-2 -/
theorem derTBITDec_canonical (der : List UInt8) (hlen : der.length * 8 + 16 < W) (tag : Nat) (v : List UInt8)
    (bl c : Nat) (h : derTBITDec der tag = .ok (v, bl, c)) : derTBITEnc tag v bl = .ok (der.take c) :=
  derTBITDec_canonical' der hlen tag v bl c h
example : derTBITDec [0x03, 0x03, 0x04, 0xAB, 0xC0] 3 = .ok ([0xAB, 0xC0], 12, 5) := by decide +kernel

/-- decoding an encoded bit string returns the bit length and the octets with the unused bits cleared -/
theorem derTBIT_roundtrip (tag : Nat) (val : List UInt8) (len : Nat) (hvl : val.length = (len + 7) / 8)
    (hv : derTIsValid tag = true) (hlt : tag < U32) (rest : List UInt8)
    (hlen : 16 + val.length + rest.length < W) (hl : len + 15 < W) :
    ∃ e, derTBITEnc tag val len = .ok e ∧ derTBITDec (e ++ rest) tag = .ok (bitClean val len, len, e.length) :=
  derTBIT_roundtrip' tag val len hvl hv hlt rest hlen hl
example : bitClean [0xAB, 0xCF] 12 = [0xAB, 0xC0] := by decide

end Bee2V.C08

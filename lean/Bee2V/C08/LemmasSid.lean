/-
C08 — OID arcs: base-128 value lemmas (sidHi / sidLen invert the scanning loop) and decimal
print/parse lemmas.
-/
import Bee2V.C08.LemmasTyped
namespace Bee2V.C08

/-- value of a run of base-128 octets (flags ignored) on top of acc -/
def sidVal (bs : List UInt8) (acc : Nat) : Nat := bs.foldl (fun a b => a * 128 + b.toNat % 128) acc

@[simp] theorem sidVal_nil (acc : Nat) : sidVal [] acc = acc := rfl
@[simp] theorem sidVal_cons (b : UInt8) (bs : List UInt8) (acc : Nat) :
    sidVal (b :: bs) acc = sidVal bs (acc * 128 + b.toNat % 128) := rfl
theorem sidVal_snoc (xs : List UInt8) (b : UInt8) (acc : Nat) :
    sidVal (xs ++ [b]) acc = sidVal xs acc * 128 + b.toNat % 128 := by
  simp [sidVal, List.foldl_append]

theorem sidHi_length (n v : Nat) : (sidHi n v).length = n := by
  induction n generalizing v with
  | zero => rfl
  | succ n ih => simp [sidHi, ih]

/-- the continuation octets written for the value of a run of flagged octets are that run -/
theorem sidHi_sidVal (n : Nat) (bs : List UInt8) (hn : bs.length = n) (hall : ∀ b ∈ bs, 128 ≤ b.toNat) :
    sidHi n (sidVal bs 0) = bs := by
  induction n generalizing bs with
  | zero => cases bs with
    | nil => rfl
    | cons _ _ => simp at hn
  | succ n ih =>
    rcases List.eq_nil_or_concat bs with h | ⟨xs, b, h⟩
    · subst h; simp at hn
    · subst h
      simp at hn
      rw [List.concat_eq_append] at hall ⊢
      have hb := hall b (by simp)
      have hb2 := UInt8.toNat_lt b
      rw [sidHi, sidVal_snoc]
      have h1 : (sidVal xs 0 * 128 + b.toNat % 128) / 128 = sidVal xs 0 := by omega
      have h2 : oct (128 + (sidVal xs 0 * 128 + b.toNat % 128) % 128) = b := oct_eq_of_nat b (by omega)
      rw [h1, h2, ih xs (by omega) (fun x hx => hall x (by simp [hx]))]

theorem sidLen_pos {v : Nat} (h : v ≠ 0) : sidLen v = 1 + sidLen (v / 128) := by
  rw [sidLen]; simp [h]
theorem sidLen_zero : sidLen 0 = 0 := by rw [sidLen]; simp

theorem sidLen_mul_add {v : Nat} (hv : v ≠ 0) (c : Nat) (hc : c < 128) : sidLen (v * 128 + c) = 1 + sidLen v := by
  rw [sidLen_pos (by omega)]
  congr 2; omega

theorem sidLen_sidVal (bs : List UInt8) (acc : Nat) (h : acc ≠ 0) : sidLen (sidVal bs acc) = sidLen acc + bs.length := by
  induction bs generalizing acc with
  | nil => simp
  | cons b bs ih =>
    simp only [sidVal_cons, List.length_cons]
    rw [ih _ (by omega), sidLen_mul_add h _ (by omega)]
    omega

theorem sidLen_small {v : Nat} (h0 : v ≠ 0) (h : v < 128) : sidLen v = 1 := by
  rw [sidLen_pos h0, show v / 128 = 0 by omega, sidLen_zero]

theorem sidLen_sidVal_cons (b : UInt8) (bs : List UInt8) (h : b.toNat % 128 ≠ 0) :
    sidLen (sidVal (b :: bs) 0) = 1 + bs.length := by
  simp only [sidVal_cons, Nat.zero_mul, Nat.zero_add]
  rw [sidLen_sidVal _ _ h, sidLen_small h (by omega)]

/-- the invariant of the scanning loop: `val` is the value of the run P of octets ≥ 128 read so far,
    which does not start with 0x80 -/
def SidInv (P : List UInt8) (val : Nat) : Prop :=
  val = sidVal P 0 ∧ (∀ b ∈ P, 128 ≤ b.toNat) ∧ (∀ b tl, P = b :: tl → b.toNat % 128 ≠ 0)

theorem SidInv_nil : SidInv [] 0 := ⟨rfl, by simp, by simp⟩

theorem SidInv_val_zero {P : List UInt8} {val : Nat} (h : SidInv P val) : val = 0 ↔ P = [] := by
  obtain ⟨hv, hall, hhd⟩ := h
  constructor
  · intro hz
    cases P with
    | nil => rfl
    | cons b tl =>
      exfalso
      have := hhd b tl rfl
      rw [hv, sidVal_cons] at hz
      have hs := sidLen_sidVal tl (0 * 128 + b.toNat % 128) (by omega)
      rw [hz, sidLen_zero] at hs
      rw [sidLen_small (by omega) (by omega)] at hs
      omega
  · intro hp; subst hp; exact hv

theorem SidInv_snoc {P : List UInt8} {val : Nat} (h : SidInv P val) (x : UInt8) (hx : 128 ≤ x.toNat)
    (hne : ¬(val = 0 ∧ x.toNat = 128)) : SidInv (P ++ [x]) (val * 128 + x.toNat % 128) := by
  obtain ⟨hv, hall, hhd⟩ := h
  refine ⟨by rw [sidVal_snoc, ← hv], ?_, ?_⟩
  · intro b hb
    rcases List.mem_append.mp hb with h | h
    · exact hall b h
    · simp at h; subst h; exact hx
  · intro b tl hcons
    cases P with
    | nil =>
      simp at hcons
      obtain ⟨rfl, _⟩ := hcons
      have hx2 := UInt8.toNat_lt x
      have : val = 0 := hv
      omega
    | cons p ps =>
      simp at hcons
      obtain ⟨rfl, _⟩ := hcons
      exact hhd p ps rfl

/-- KEY (canonical direction): a complete arc P ++ [x] read by the loop is exactly derSIDEnc of its value -/
theorem derSIDEnc_of_inv {P : List UInt8} {val : Nat} (h : SidInv P val) (x : UInt8) (hx : x.toNat < 128) :
    derSIDEnc (val * 128 + x.toNat) = P ++ [x] := by
  obtain ⟨hv, hall, hhd⟩ := h
  unfold derSIDEnc
  have h1 : (val * 128 + x.toNat) / 128 = val := by omega
  have h2 : oct ((val * 128 + x.toNat) % 128) = x := oct_eq_of_nat x (by omega)
  rw [h1, h2]
  congr 1
  cases P with
  | nil =>
    have hz : val = 0 := hv
    subst hz
    by_cases hx0 : x.toNat = 0
    · simp [hx0, sidHi]
    · simp only [Nat.zero_mul, Nat.zero_add, hx0, if_false]
      rw [sidLen_small hx0 hx]; rfl
  | cons p ps =>
    have hp := hhd p ps rfl
    have hvl : sidLen val = 1 + ps.length := by rw [hv]; exact sidLen_sidVal_cons p ps hp
    have hvnz : val ≠ 0 := by
      intro hz; rw [hz, sidLen_zero] at hvl; omega
    rw [if_neg (by omega), sidLen_mul_add hvnz _ hx]
    simp only [Nat.add_sub_cancel_left]
    rw [hvl, hv]
    exact sidHi_sidVal _ (p :: ps) (by simp; omega) hall

end Bee2V.C08

/-
C08 — OID arcs: base-128 value lemmas (sidHi / sidLen invert the scanning loop) and decimal
print/parse lemmas.
-/
import Bee2V.C08.LemmasTyped
import Bee2V.C08.LemmasText
namespace Bee2V.C08

/-- value of a run of base-128 octets (flags ignored) on top of acc -/
def sidVal (bs : List UInt8) (acc : Nat) : Nat := bs.foldl (fun a b => a * 128 + b.toNat % 128) acc

@[simp] theorem sidVal_nil (acc : Nat) : sidVal [] acc = acc := rfl
@[simp] theorem sidVal_cons (b : UInt8) (bs : List UInt8) (acc : Nat) :
    sidVal (b :: bs) acc = sidVal bs (acc * 128 + b.toNat % 128) := rfl
theorem sidVal_snoc (xs : List UInt8) (b : UInt8) (acc : Nat) :
    sidVal (xs ++ [b]) acc = sidVal xs acc * 128 + b.toNat % 128 := by
  simp [sidVal, List.foldl_append]

theorem sidHi_length (n v : Nat) : (sidHi n v).length = n := by
  induction n generalizing v with
  | zero => rfl
  | succ n ih => simp [sidHi, ih]

/-- the continuation octets written for the value of a run of flagged octets are that run -/
theorem sidHi_sidVal (n : Nat) (bs : List UInt8) (hn : bs.length = n) (hall : ∀ b ∈ bs, 128 ≤ b.toNat) :
    sidHi n (sidVal bs 0) = bs := by
  induction n generalizing bs with
  | zero => cases bs with
    | nil => rfl
    | cons _ _ => simp at hn
  | succ n ih =>
    rcases List.eq_nil_or_concat bs with h | ⟨xs, b, h⟩
    · subst h; simp at hn
    · subst h
      simp at hn
      rw [List.concat_eq_append] at hall ⊢
      have hb := hall b (by simp)
      have hb2 := UInt8.toNat_lt b
      rw [sidHi, sidVal_snoc]
      have h1 : (sidVal xs 0 * 128 + b.toNat % 128) / 128 = sidVal xs 0 := by omega
      have h2 : oct (128 + (sidVal xs 0 * 128 + b.toNat % 128) % 128) = b := oct_eq_of_nat b (by omega)
      rw [h1, h2, ih xs (by omega) (fun x hx => hall x (by simp [hx]))]

theorem sidLen_pos {v : Nat} (h : v ≠ 0) : sidLen v = 1 + sidLen (v / 128) := by
  rw [sidLen]; simp [h]
theorem sidLen_zero : sidLen 0 = 0 := by rw [sidLen]; simp

theorem sidLen_mul_add {v : Nat} (hv : v ≠ 0) (c : Nat) (hc : c < 128) : sidLen (v * 128 + c) = 1 + sidLen v := by
  rw [sidLen_pos (by omega)]
  congr 2; omega

theorem sidLen_sidVal (bs : List UInt8) (acc : Nat) (h : acc ≠ 0) : sidLen (sidVal bs acc) = sidLen acc + bs.length := by
  induction bs generalizing acc with
  | nil => simp
  | cons b bs ih =>
    simp only [sidVal_cons, List.length_cons]
    rw [ih _ (by omega), sidLen_mul_add h _ (by omega)]
    omega

theorem sidLen_small {v : Nat} (h0 : v ≠ 0) (h : v < 128) : sidLen v = 1 := by
  rw [sidLen_pos h0, show v / 128 = 0 by omega, sidLen_zero]

theorem sidLen_sidVal_cons (b : UInt8) (bs : List UInt8) (h : b.toNat % 128 ≠ 0) :
    sidLen (sidVal (b :: bs) 0) = 1 + bs.length := by
  simp only [sidVal_cons, Nat.zero_mul, Nat.zero_add]
  rw [sidLen_sidVal _ _ h, sidLen_small h (by omega)]

/-- the invariant of the scanning loop: `val` is the value of the run P of octets ≥ 128 read so far,
    which does not start with 0x80 -/
def SidInv (P : List UInt8) (val : Nat) : Prop :=
  val = sidVal P 0 ∧ (∀ b ∈ P, 128 ≤ b.toNat) ∧ (∀ b tl, P = b :: tl → b.toNat % 128 ≠ 0)

theorem SidInv_nil : SidInv [] 0 := ⟨rfl, by simp, by simp⟩

theorem SidInv_val_zero {P : List UInt8} {val : Nat} (h : SidInv P val) : val = 0 ↔ P = [] := by
  obtain ⟨hv, hall, hhd⟩ := h
  constructor
  · intro hz
    cases P with
    | nil => rfl
    | cons b tl =>
      exfalso
      have := hhd b tl rfl
      rw [hv, sidVal_cons] at hz
      have hs := sidLen_sidVal tl (0 * 128 + b.toNat % 128) (by omega)
      rw [hz, sidLen_zero] at hs
      rw [sidLen_small (by omega) (by omega)] at hs
      omega
  · intro hp; subst hp; exact hv

theorem SidInv_snoc {P : List UInt8} {val : Nat} (h : SidInv P val) (x : UInt8) (hx : 128 ≤ x.toNat)
    (hne : ¬(val = 0 ∧ x.toNat = 128)) : SidInv (P ++ [x]) (val * 128 + x.toNat % 128) := by
  obtain ⟨hv, hall, hhd⟩ := h
  refine ⟨by rw [sidVal_snoc, ← hv], ?_, ?_⟩
  · intro b hb
    rcases List.mem_append.mp hb with h | h
    · exact hall b h
    · simp at h; subst h; exact hx
  · intro b tl hcons
    cases P with
    | nil =>
      simp at hcons
      obtain ⟨rfl, _⟩ := hcons
      have hx2 := UInt8.toNat_lt x
      have : val = 0 := hv
      omega
    | cons p ps =>
      simp at hcons
      obtain ⟨rfl, _⟩ := hcons
      exact hhd p ps rfl

/-- KEY (canonical direction): a complete arc P ++ [x] read by the loop is exactly derSIDEnc of its value -/
theorem derSIDEnc_of_inv {P : List UInt8} {val : Nat} (h : SidInv P val) (x : UInt8) (hx : x.toNat < 128) :
    derSIDEnc (val * 128 + x.toNat) = P ++ [x] := by
  obtain ⟨hv, hall, hhd⟩ := h
  unfold derSIDEnc
  have h1 : (val * 128 + x.toNat) / 128 = val := by omega
  have h2 : oct ((val * 128 + x.toNat) % 128) = x := oct_eq_of_nat x (by omega)
  rw [h1, h2]
  congr 1
  cases P with
  | nil =>
    have hz : val = 0 := hv
    subst hz
    by_cases hx0 : x.toNat = 0
    · simp [hx0, sidHi]
    · simp only [Nat.zero_mul, Nat.zero_add, hx0, if_false]
      rw [sidLen_small hx0 hx]; rfl
  | cons p ps =>
    have hp := hhd p ps rfl
    have hvl : sidLen val = 1 + ps.length := by rw [hv]; exact sidLen_sidVal_cons p ps hp
    have hvnz : val ≠ 0 := by
      intro hz; rw [hz, sidLen_zero] at hvl; omega
    rw [if_neg (by omega), sidLen_mul_add hvnz _ hx]
    simp only [Nat.add_sub_cancel_left]
    rw [hvl, hv]
    rw [sidHi_sidVal (1 + ps.length) (p :: ps) (by simp; omega) hall]

/-! ### decimal print / parse -/

theorem decLen_small {v : Nat} (h : v < 10) : decLen v = 1 := by rw [decLen, dif_pos h]
theorem decLen_big {v : Nat} (h : ¬ v < 10) : decLen v = 1 + decLen (v / 10) := by rw [decLen, dif_neg h]

theorem derSIDDec_small {v : Nat} (h : v < 10) : derSIDDec v = [oct (48 + v)] := by
  unfold derSIDDec
  rw [decLen_small h]
  simp [decChars, Nat.mod_eq_of_lt h]

theorem derSIDDec_big {v : Nat} (h : ¬ v < 10) : derSIDDec v = derSIDDec (v / 10) ++ [oct (48 + v % 10)] := by
  unfold derSIDDec
  rw [decLen_big h, Nat.add_comm, decChars]

theorem digit_toNat (d : Nat) (h : d < 10) : (oct (48 + d)).toNat = 48 + d := by
  rw [toNat_oct]; omega

/-- the encoder's digit loop reads back a printed number -/
theorem oidEncLoop_digits (v : Nat) (hv : v < U32) (tail : List UInt8) (d1 : Nat) (acc : List UInt8) :
    oidEncLoop (derSIDDec v ++ tail) d1 0 acc = oidEncLoop tail d1 v acc := by
  induction v using Nat.strongRecOn generalizing tail with
  | _ v ih =>
    by_cases h : v < 10
    · rw [derSIDDec_small h]
      simp only [List.cons_append, List.nil_append]
      rw [oidEncLoop]
      rw [if_neg (by rw [digit_toNat v h]; omega), digit_toNat v h]
      congr 1
      omegaW
    · rw [derSIDDec_big h, List.append_assoc, ih (v / 10) (by omega) (by omegaW)]
      simp only [List.cons_append, List.nil_append]
      rw [oidEncLoop]
      have hd : v % 10 < 10 := Nat.mod_lt _ (by omega)
      rw [if_neg (by rw [digit_toNat _ hd]; omega), digit_toNat _ hd]
      congr 1
      omegaW

/-- first character of a printed number -/
def firstDigit (v : Nat) : Nat := (derSIDDec v).headD 0 |>.toNat

theorem firstDigit_big {v : Nat} (h : ¬ v < 10) : firstDigit v = firstDigit (v / 10) := by
  unfold firstDigit
  rw [derSIDDec_big h]
  have : derSIDDec (v / 10) ≠ [] := by
    unfold derSIDDec
    intro hc
    have := congrArg List.length hc
    rw [decChars_length] at this
    have : 1 ≤ decLen (v / 10) := by
      by_cases h2 : v / 10 < 10
      · rw [decLen_small h2]; omega
      · rw [decLen_big h2]; omega
    simp at *; omega
  cases hd : derSIDDec (v / 10) with
  | nil => exact absurd hd this
  | cons a t => simp

theorem firstDigit_nonzero {v : Nat} (h : ¬ v < 10) : firstDigit v ≠ 48 := by
  induction v using Nat.strongRecOn with
  | _ v ih =>
    rw [firstDigit_big h]
    by_cases h2 : v / 10 < 10
    · unfold firstDigit
      rw [derSIDDec_small h2]
      simp only [List.headD_cons]
      rw [digit_toNat _ h2]; omega
    · exact ih (v / 10) (by omega) h2

/-- the validity automaton over one printed number: all digit checks pass (no leading zero, no overflow) -/
theorem oidLoop_digits (v : Nat) (hv : v < U32) (tail : List UInt8) (d1 n : Nat) :
    oidLoop (derSIDDec v ++ tail) 0 d1 0 n 0 = oidLoop tail v d1 (decLen v) n (firstDigit v) := by
  induction v using Nat.strongRecOn generalizing tail with
  | _ v ih =>
    by_cases h : v < 10
    · rw [derSIDDec_small h, decLen_small h]
      simp only [List.cons_append, List.nil_append]
      rw [oidLoop]
      have hd := digit_toNat v h
      rw [if_neg (by rw [hd]; omega)]
      rw [if_neg (by rw [hd]; omegaW)]
      simp only [if_true, hd]
      unfold firstDigit
      rw [derSIDDec_small h]
      simp only [List.headD_cons, hd]
      congr 1
      omegaW
    · rw [derSIDDec_big h, List.append_assoc, ih (v / 10) (by omega) (by omegaW), decLen_big h]
      simp only [List.cons_append, List.nil_append]
      rw [oidLoop]
      have hd10 : v % 10 < 10 := Nat.mod_lt _ (by omega)
      have hd := digit_toNat _ hd10
      rw [if_neg (by rw [hd]; omega)]
      have hlen1 : 1 ≤ decLen (v / 10) := by
        by_cases h2 : v / 10 < 10
        · rw [decLen_small h2]; omega
        · rw [decLen_big h2]; omega
      have hfd : decLen (v / 10) = 1 → firstDigit (v / 10) ≠ 48 := by
        intro h1
        have hlt : v / 10 < 10 := by
          apply Classical.byContradiction; intro hc
          rw [decLen_big hc] at h1
          have : 1 ≤ decLen (v / 10 / 10) := by
            by_cases h2 : v / 10 / 10 < 10
            · rw [decLen_small h2]; omega
            · rw [decLen_big h2]; omega
          omega
        unfold firstDigit
        rw [derSIDDec_small hlt]
        simp only [List.headD_cons]
        rw [digit_toNat _ hlt]; omega
      rw [if_neg (by
        rw [hd]
        intro hc
        rcases hc with hc | hc | hc | hc | hc
        · omega
        · omega
        · exact hfd hc.1 hc.2
        · omegaW
        · omegaW)]
      rw [if_neg (by omega), firstDigit_big h, hd]
      congr 1
      · omegaW
      · omega


/-! ### the scanning loop on lists -/

/-- the sid loop of derOIDDec over the value octets as a list -/
def oidScan : List UInt8 → Nat → Nat → List UInt8 → R (Nat × List UInt8)
  | [], _, d1, out => .ok (d1, out)
  | x :: V, val, d1, out =>
    if val / 33554432 ≠ 0 then .err else
    if val = 0 ∧ x.toNat = 128 then .err else
    if x.toNat / 128 = 0 then
      if d1 = 3 then
        oidScan V 0 0 (out ++ derSIDDec (if (val * 128 + x.toNat % 128) % U32 < 40 then 0 else if (val * 128 + x.toNat % 128) % U32 < 80 then 1 else 2)
          ++ [46] ++ derSIDDec (if (val * 128 + x.toNat % 128) % U32 < 40 then (val * 128 + x.toNat % 128) % U32
            else if (val * 128 + x.toNat % 128) % U32 < 80 then (val * 128 + x.toNat % 128) % U32 - 40 else (val * 128 + x.toNat % 128) % U32 - 80))
      else oidScan V 0 d1 (out ++ [46] ++ derSIDDec ((val * 128 + x.toNat % 128) % U32))
    else oidScan V ((val * 128 + x.toNat % 128) % U32) d1 out

theorem oidDecLoop_eq_scan (der : List UInt8) (off l : Nat) (h : off + l ≤ der.length) :
    ∀ n pos val d1 out, n = l - pos →
    oidDecLoop der off l pos val d1 out = oidScan ((der.drop (off + pos)).take (l - pos)) val d1 out := by
  intro n
  induction n with
  | zero =>
    intro pos val d1 out hn
    rw [oidDecLoop, dif_neg (by omega), ← hn, List.take_zero, oidScan]
  | succ n ih =>
    intro pos val d1 out hn
    have hi : off + pos < der.length := by omega
    rw [oidDecLoop, dif_pos (by omega), List.drop_eq_getElem_cons hi, show l - pos = (l - (pos + 1)) + 1 by omega,
      List.take_succ_cons, oidScan, rd_of_lt hi]
    by_cases h1 : val / 33554432 ≠ 0
    · rw [if_pos h1, if_pos h1]
    · rw [if_neg h1, if_neg h1]
      simp only []
      by_cases h2 : val = 0 ∧ der[off + pos].toNat = 128
      · rw [if_pos h2, if_pos h2]
      · rw [if_neg h2, if_neg h2]
        by_cases h3 : der[off + pos].toNat / 128 = 0
        · rw [if_pos h3, if_pos h3]
          by_cases h4 : d1 = 3
          · rw [if_pos h4, if_pos h4, ih (pos + 1) _ _ _ (by omega), show off + pos + 1 = off + (pos + 1) by omega]
          · rw [if_neg h4, if_neg h4, ih (pos + 1) _ _ _ (by omega), show off + pos + 1 = off + (pos + 1) by omega]
        · rw [if_neg h3, if_neg h3, ih (pos + 1) _ _ _ (by omega), show off + pos + 1 = off + (pos + 1) by omega]


/-- the arc the encoder emits for the number just read: `if (d1 != 3) val += 40 * d1` -/
def adj (dd prev : Nat) : Nat := if dd ≠ 3 then (prev + 40 * dd) % U32 else prev

/-- the value octets end with a complete arc (or are empty) -/
def EndsOk (xs : List UInt8) : Prop := xs = [] ∨ ∃ init last, xs = init ++ [last] ∧ last.toNat < 128

theorem oidEncLoop_nil (dd prev : Nat) (acc : List UInt8) : oidEncLoop [] dd prev acc = acc ++ derSIDEnc (adj dd prev) := by
  rw [oidEncLoop]; rfl

theorem oidEncLoop_dot (rest : List UInt8) (dd prev : Nat) (acc : List UInt8) :
    oidEncLoop (46 :: rest) dd prev acc = oidEncLoop rest 3 0 (acc ++ derSIDEnc (adj dd prev)) := by
  rw [oidEncLoop]; rfl

theorem oidLoop_end_ok (pv d1v pos n c0 : Nat) (hp : pos ≠ 0) (hn : n ≥ 1)
    (hc : n = 1 → (d1v < 2 → pv < 40) ∧ pv ≤ U32_MAX - 40 * d1v) : oidLoop [] pv d1v pos n c0 = true := by
  rw [oidLoop]
  rw [if_neg]
  · simp; omega
  · intro h
    rcases h with h | h | h | h
    · exact hp h
    · omega
    · have := hc h.1; omega
    · have := hc h.1; omega

theorem oidLoop_dot (rest : List UInt8) (pv d1v pos n c0 : Nat) (hp : pos ≠ 0) (hn : n ≥ 1)
    (hc : n = 1 → (d1v < 2 → pv < 40) ∧ pv ≤ U32_MAX - 40 * d1v) :
    oidLoop (46 :: rest) pv d1v pos n c0 = oidLoop rest 0 d1v 0 (n + 1) 0 := by
  rw [oidLoop]
  simp only [show (46 : UInt8).toNat = 46 from rfl, if_true]
  rw [if_neg, if_neg (by omega)]
  intro h
  rcases h with h | h | h | h
  · exact hp h
  · omega
  · have := hc h.1; omega
  · have := hc h.1; omega

theorem EndsOk_tail (P : List UInt8) (x : UInt8) (V : List UInt8) (h : EndsOk (P ++ x :: V)) : EndsOk V := by
  rcases h with h | ⟨init, last, h, hl⟩
  · simp at h
  · rcases List.eq_nil_or_concat V with hv | ⟨V', y, hv⟩
    · left; exact hv
    · right
      subst hv
      rw [List.concat_eq_append] at h ⊢
      refine ⟨V', y, rfl, ?_⟩
      have : (P ++ x :: (V' ++ [y])) = (P ++ x :: V') ++ [y] := by simp
      rw [this] at h
      have := List.append_inj' h rfl
      simp at this
      rw [this.2]; exact hl

theorem EndsOk_all_hi (P : List UInt8) (hall : ∀ b ∈ P, 128 ≤ b.toNat) (h : EndsOk P) : P = [] := by
  rcases h with h | ⟨init, last, h, hl⟩
  · exact h
  · have := hall last (by rw [h]; simp)
    omega

set_option maxRecDepth 4000 in
/-- the loop after the first arc: what it appends to the string is read back by the encoder loop as
    exactly the octets it scanned, and passes the validity automaton -/
theorem scan_rest (V : List UInt8) : ∀ (P : List UInt8) (val : Nat) (out : List UInt8) (d1f : Nat) (outf : List UInt8),
    SidInv P val → oidScan V val 0 out = .ok (d1f, outf) → EndsOk (P ++ V) →
    d1f = 0 ∧ ∃ suf, outf = out ++ suf ∧
      (∀ dd prev acc, oidEncLoop suf dd prev acc = acc ++ derSIDEnc (adj dd prev) ++ (P ++ V)) ∧
      (∀ pv d1v pos n c0, pos ≠ 0 → n ≥ 1 → (n = 1 → (d1v < 2 → pv < 40) ∧ pv ≤ U32_MAX - 40 * d1v) →
        oidLoop suf pv d1v pos n c0 = true) := by
  induction V with
  | nil =>
    intro P val out d1f outf hinv hs hend
    rw [oidScan] at hs
    cases hs
    have hP : P = [] := EndsOk_all_hi P hinv.2.1 (by simpa using hend)
    subst hP
    refine ⟨rfl, [], by simp, ?_, ?_⟩
    · intro dd prev acc; rw [oidEncLoop_nil]; simp
    · intro pv d1v pos n c0 hp hn hc; exact oidLoop_end_ok pv d1v pos n c0 hp hn hc
  | cons x V ih =>
    intro P val out d1f outf hinv hs hend
    rw [oidScan] at hs
    by_cases h1 : val / 33554432 ≠ 0
    · rw [if_pos h1] at hs; cases hs
    · rw [if_neg h1] at hs
      by_cases h2 : val = 0 ∧ x.toNat = 128
      · rw [if_pos h2] at hs; cases hs
      · rw [if_neg h2] at hs
        have hx := UInt8.toNat_lt x
        have hmod : (val * 128 + x.toNat % 128) % U32 = val * 128 + x.toNat % 128 := by omegaW
        rw [hmod] at hs
        by_cases h3 : x.toNat / 128 = 0
        · -- the arc is complete
          rw [if_pos h3, if_neg (by omega)] at hs
          have hxl : x.toNat < 128 := by omega
          have hxm : x.toNat % 128 = x.toNat := by omega
          rw [hxm] at hs
          have hsid := derSIDEnc_of_inv hinv x hxl
          obtain ⟨hd, suf', houtf, henc, hval⟩ := ih [] 0 _ d1f outf SidInv_nil hs (by simpa using EndsOk_tail P x V hend)
          refine ⟨hd, 46 :: derSIDDec (val * 128 + x.toNat) ++ suf', by rw [houtf]; simp, ?_, ?_⟩
          · intro dd prev acc
            rw [List.cons_append, oidEncLoop_dot, oidEncLoop_digits _ (by omegaW), henc]
            simp only [adj, if_false, ne_eq, not_true_eq_false, List.nil_append]
            rw [hsid]; simp
          · intro pv d1v pos n c0 hp hn hc
            rw [List.cons_append, oidLoop_dot _ pv d1v pos n c0 hp hn hc, oidLoop_digits _ (by omegaW)]
            apply hval
            · have : 1 ≤ decLen (val * 128 + x.toNat) := by
                by_cases h : val * 128 + x.toNat < 10
                · rw [decLen_small h]; omega
                · rw [decLen_big h]; omega
              omega
            · omega
            · intro h; omega
        · rw [if_neg h3] at hs
          have hxh : 128 ≤ x.toNat := by omega
          have hinv' := SidInv_snoc hinv x hxh h2
          obtain ⟨hd, suf, houtf, henc, hval⟩ := ih (P ++ [x]) _ out d1f outf hinv' hs (by simpa using hend)
          refine ⟨hd, suf, houtf, ?_, hval⟩
          intro dd prev acc
          rw [henc]; simp


set_option maxRecDepth 4000 in
/-- the loop up to and including the first arc (d1 = 3) followed by the rest -/
theorem scan_first (V : List UInt8) : ∀ (P : List UInt8) (val : Nat) (d1f : Nat) (outf : List UInt8),
    SidInv P val → oidScan V val 3 [] = .ok (d1f, outf) → EndsOk (P ++ V) → d1f ≠ 3 →
    ∃ d rest, d ≤ 2 ∧ outf = oct (48 + d) :: 46 :: rest ∧ oidEncLoop rest d 0 [] = P ++ V ∧
      oidLoop (oct (48 + d) :: 46 :: rest) 0 0 0 0 0 = true := by
  induction V with
  | nil =>
    intro P val d1f outf hinv hs hend hd
    rw [oidScan] at hs; cases hs; exact absurd rfl hd
  | cons x V ih =>
    intro P val d1f outf hinv hs hend hd
    rw [oidScan] at hs
    by_cases h1 : val / 33554432 ≠ 0
    · rw [if_pos h1] at hs; cases hs
    · rw [if_neg h1] at hs
      by_cases h2 : val = 0 ∧ x.toNat = 128
      · rw [if_pos h2] at hs; cases hs
      · rw [if_neg h2] at hs
        have hx := UInt8.toNat_lt x
        have hmod : (val * 128 + x.toNat % 128) % U32 = val * 128 + x.toNat % 128 := by omegaW
        rw [hmod] at hs
        by_cases h3 : x.toNat / 128 = 0
        · rw [if_pos h3, if_pos rfl] at hs
          have hxl : x.toNat < 128 := by omega
          have hxm : x.toNat % 128 = x.toNat := by omega
          rw [hxm] at hs
          have hsid := derSIDEnc_of_inv hinv x hxl
          generalize hX : val * 128 + x.toNat = X at hs hsid
          have hXlt : X < U32 := by omegaW
          generalize hdd : (if X < 40 then 0 else if X < 80 then 1 else 2) = d at hs
          generalize hvd : (if X < 40 then X else if X < 80 then X - 40 else X - 80) = vd at hs
          have hd2 : d ≤ 2 := by rw [← hdd]; split <;> (try split) <;> omega
          have hrel : vd + 40 * d = X ∧ (d < 2 → vd < 40) := by
            rw [← hdd, ← hvd]; split <;> (try split) <;> omega
          have hdec : derSIDDec d = [oct (48 + d)] := derSIDDec_small (by omega)
          rw [hdec] at hs
          obtain ⟨_, suf, houtf, henc, hval⟩ := scan_rest V [] 0 _ d1f outf SidInv_nil hs (by simpa using EndsOk_tail P x V hend)
          refine ⟨d, derSIDDec vd ++ suf, hd2, by rw [houtf]; simp, ?_, ?_⟩
          · rw [oidEncLoop_digits _ (by omegaW), henc]
            have : adj d vd = X := by unfold adj; rw [if_pos (by omega)]; omegaW
            rw [this, hsid]; simp
          · rw [oidLoop]
            have hdg := digit_toNat d (by omega)
            rw [if_neg (by rw [hdg]; omega), if_neg (by rw [hdg]; omegaW)]
            simp only [if_true, hdg]
            rw [oidLoop]
            simp only [show (46 : UInt8).toNat = 46 from rfl, if_true]
            rw [if_neg (by omegaW)]
            rw [oidLoop_digits _ (by omegaW)]
            apply hval
            · have : 1 ≤ decLen vd := by
                by_cases h : vd < 10
                · rw [decLen_small h]; omega
                · rw [decLen_big h]; omega
              omega
            · omega
            · intro _
              have hd' : (0 * 10 + (48 + d - 48)) % U32 = d := by omegaW
              rw [hd']
              exact ⟨hrel.2, by omegaW⟩
        · rw [if_neg h3] at hs
          have hxh : 128 ≤ x.toNat := by omega
          have hinv' := SidInv_snoc hinv x hxh h2
          obtain ⟨d, rest, hd2, houtf, henc, hvalid⟩ := ih (P ++ [x]) _ d1f outf hinv' hs (by simpa using hend) hd
          exact ⟨d, rest, hd2, houtf, by rw [henc]; simp, hvalid⟩


theorem take_last_snoc (V : List UInt8) (l : Nat) (hl : V.length = l) (h1 : 1 ≤ l) :
    V = V.take (l - 1) ++ [V[l - 1]'(by omega)] := by
  have := take_dropLast_snoc V (l - 1) (by omega)
  exact this.symm

set_option maxRecDepth 4000 in
/-- CANONICAL (OID): the accepted octets are exactly derOIDEnc of the decoded dotted string -/
theorem derOIDDec_canonical' (der : List UInt8) (hlen : der.length < W) (s : List UInt8) (c : Nat)
    (h : derOIDDec der = .ok (s, c)) : derOIDEnc s = .ok (der.take c) := by
  unfold derOIDDec at h
  rcases derDec2_cases der 6 hlen with e | ⟨off, l, c', e, ed, _, _, hc, hcl⟩
  · rw [e] at h; cases h
  · rw [e] at h; simp only [] at h
    rcases oidDecLoop_cases der off l 0 0 3 [] (by omega) with e2 | ⟨d1, out, e2⟩
    · rw [e2] at h; cases h
    · rw [e2] at h; simp only [] at h
      by_cases hd : d1 = 3
      · rw [if_pos hd] at h; cases h
      · rw [if_neg hd] at h
        have hl1 : 1 ≤ l := by
          apply Classical.byContradiction; intro hc0
          have hz : l = 0 := by omega
          subst hz
          rw [oidDecLoop] at e2
          simp at e2
          omega
        rw [rd_of_lt (xs := der) (i := off + (l - 1)) (by omega)] at h; simp only [] at h
        by_cases hlast : der[off + (l - 1)].toNat / 128 ≠ 0
        · rw [if_pos hlast] at h; cases h
        · rw [if_neg hlast] at h; cases h
          -- the value octets as a list
          have hscan := oidDecLoop_eq_scan der off l (by omega) l 0 0 3 [] (by omega)
          rw [e2, Nat.add_zero, Nat.sub_zero] at hscan
          generalize hV : (der.drop off).take l = V at hscan
          have hVl : V.length = l := by rw [← hV]; simp [List.length_take]; omega
          have hVlast : V[l - 1]'(by omega) = der[off + (l - 1)] := by
            simp only [← hV, List.getElem_take, List.getElem_drop]
          have hend : EndsOk ([] ++ V) := by
            right
            refine ⟨V.take (l - 1), V[l - 1]'(by omega), ?_, ?_⟩
            · simpa using take_last_snoc V l hVl hl1
            · rw [hVlast]; have := UInt8.toNat_lt der[off + (l - 1)]; omega
          obtain ⟨d, rest, hd2, hout, henc, hvalid⟩ := scan_first V [] 0 d1 s SidInv_nil hscan.symm hend hd
          unfold derOIDEnc
          have hv : oidIsValid s = true := by unfold oidIsValid; rw [hout]; exact hvalid
          rw [hv]
          simp only [Bool.not_true, Bool.false_eq_true, if_false]
          rw [hout]
          simp only []
          have hdg : (oct (48 + d)).toNat - 48 = d := by rw [digit_toNat d (by omega)]; omega
          rw [hdg, henc, List.nil_append, ← hV]
          exact derDec_canonical' der hlen 6 off l c ed


/-! ### round trip: scanning encoded arcs, parsing valid strings -/

theorem lt_pow_sidLen (v : Nat) : v < 128 ^ sidLen v := by
  induction v using Nat.strongRecOn with
  | _ v ih =>
    by_cases h : v = 0
    · subst h; simp [sidLen_zero]
    · rw [sidLen_pos h, Nat.add_comm, Nat.pow_succ]
      have := ih (v / 128) (by omega)
      omega

theorem pow_sidLen_le {v : Nat} (h : v ≠ 0) : 128 ^ (sidLen v - 1) ≤ v := by
  induction v using Nat.strongRecOn with
  | _ v ih =>
    rw [sidLen_pos h]
    by_cases h2 : v / 128 = 0
    · rw [h2, sidLen_zero]; simp; try omega
    · have := ih (v / 128) (by omega) h2
      rw [sidLen_pos h2] at this ⊢
      simp only [Nat.add_sub_cancel_left] at this ⊢
      rw [Nat.add_comm, Nat.pow_succ]
      omega

/-- scanning the continuation octets of an arc accumulates their value -/
theorem scan_hi (n : Nat) : ∀ (w : Nat) (tail : List UInt8) (d1 : Nat) (out : List UInt8),
    w < 128 ^ n → (n ≥ 1 → 128 ^ (n - 1) ≤ w) → w < 33554432 →
    oidScan (sidHi n w ++ tail) 0 d1 out = oidScan tail w d1 out := by
  induction n with
  | zero =>
    intro w tail d1 out h1 _ _
    have : w = 0 := by simpa using h1
    subst this; rfl
  | succ n ih =>
    intro w tail d1 out h1 h2 h3
    have hge := h2 (by omega)
    simp only [Nat.add_sub_cancel] at hge
    rw [sidHi, List.append_assoc, ih (w / 128) _ d1 out
      (by rw [Nat.pow_succ] at h1; exact (Nat.div_lt_iff_lt_mul (by omega)).mpr h1)
      (by
        intro hn
        obtain ⟨m, rfl⟩ : ∃ m, n = m + 1 := ⟨n - 1, by omega⟩
        simp only [Nat.add_sub_cancel]
        rw [Nat.pow_succ] at hge
        exact (Nat.le_div_iff_mul_le (by omega)).mpr hge)
      (by omega)]
    simp only [List.cons_append, List.nil_append]
    rw [oidScan]
    have hx : (oct (128 + w % 128)).toNat = 128 + w % 128 := by rw [toNat_oct]; omega
    rw [if_neg (by omega), hx]
    have hnz : ¬(w / 128 = 0 ∧ 128 + w % 128 = 128) := by
      intro ⟨ha, hb⟩
      have hw0 : w = 0 := by omega
      have hpos : 0 < 128 ^ n := Nat.pow_pos (by omega)
      omega
    rw [if_neg hnz, if_neg (by omega)]
    congr 1
    omegaW

/-- scanning one encoded arc from a clean state reaches the "arc complete" branch with its value -/
theorem scan_arc (v : Nat) (hv : v < U32) (tail : List UInt8) (d1 : Nat) (out : List UInt8) :
    oidScan (derSIDEnc v ++ tail) 0 d1 out =
      if d1 = 3 then
        oidScan tail 0 0 (out ++ derSIDDec (if v < 40 then 0 else if v < 80 then 1 else 2) ++ [46] ++
          derSIDDec (if v < 40 then v else if v < 80 then v - 40 else v - 80))
      else oidScan tail 0 d1 (out ++ [46] ++ derSIDDec v) := by
  unfold derSIDEnc
  have hw : v / 128 < 33554432 := by omegaW
  have hcnt : (if v = 0 then 1 else sidLen v) - 1 = sidLen (v / 128) := by
    by_cases h0 : v = 0
    · subst h0; simp [sidLen_zero]
    · rw [if_neg h0, sidLen_pos h0]; omega
  simp only []
  rw [hcnt, List.append_assoc, scan_hi (sidLen (v / 128)) (v / 128) _ d1 out (lt_pow_sidLen _)
    (by
      intro hn
      apply pow_sidLen_le
      intro hz; rw [hz, sidLen_zero] at hn; omega) hw]
  simp only [List.cons_append, List.nil_append]
  rw [oidScan]
  have hx : (oct (v % 128)).toNat = v % 128 := by rw [toNat_oct]; omega
  rw [if_neg (by omega), hx, if_neg (by omega), if_pos (by omega)]
  have hm : (v / 128 * 128 + v % 128 % 128) % U32 = v := by omegaW
  rw [hm]


theorem decLen_ge2 {v : Nat} (h : ¬ v < 10) : 2 ≤ decLen v := by
  rw [decLen_big h]
  by_cases h2 : v / 10 < 10
  · rw [decLen_small h2]; omega
  · rw [decLen_big h2]; omega

theorem derSIDDec_length (v : Nat) : (derSIDDec v).length = decLen v := by
  unfold derSIDDec; exact decChars_length _ _

/-- end-of-number test of oidIsValid -/
def endBad (pos n val d1 : Nat) : Prop :=
  pos = 0 ∨ (n = 0 ∧ val > 2) ∨ (n = 1 ∧ d1 < 2 ∧ val ≥ 40) ∨ (n = 1 ∧ val > U32_MAX - 40 * d1)

set_option maxRecDepth 4000 in
/-- reading a number with the validity automaton: the characters up to the next '.' (or the end) are
    the canonical decimal print-out of a 32-bit value that passes the end-of-number test -/
theorem oidLoop_parse (s : List UInt8) : ∀ (val d1 pos n c0 : Nat) (ds : List UInt8),
    pos = ds.length → (ds = [] → val = 0) → (ds ≠ [] → derSIDDec val = ds ∧ val < U32 ∧ c0 = (ds.headD 0).toNat) →
    oidLoop s val d1 pos n c0 = true →
    ∃ v more, derSIDDec v = ds ++ more ∧ v < U32 ∧ ¬ endBad (ds ++ more).length n v d1 ∧
      ((s = more ∧ n + 1 ≥ 2) ∨ ∃ s', s = more ++ 46 :: s' ∧ oidLoop s' 0 (if n = 0 then v else d1) 0 (n + 1) 0 = true) := by
  induction s with
  | nil =>
    intro val d1 pos n c0 ds hpos hnil hcons h
    rw [oidLoop] at h
    by_cases hb : pos = 0 ∨ (n = 0 ∧ val > 2) ∨ (n = 1 ∧ d1 < 2 ∧ val ≥ 40) ∨ (n = 1 ∧ val > U32_MAX - 40 * d1)
    · rw [if_pos hb] at h; cases h
    · rw [if_neg hb] at h
      have hne : ds ≠ [] := by
        intro hd; apply hb; left; rw [hpos, hd]; rfl
      obtain ⟨hd, hv, _⟩ := hcons hne
      refine ⟨val, [], by simpa using hd, hv, ?_, Or.inl ⟨rfl, by simpa using h⟩⟩
      unfold endBad; rw [List.append_nil, ← hpos]; exact hb
  | cons c t ih =>
    intro val d1 pos n c0 ds hpos hnil hcons h
    rw [oidLoop] at h
    by_cases hdot : c.toNat = 46
    · rw [if_pos hdot] at h
      by_cases hb : pos = 0 ∨ (n = 0 ∧ val > 2) ∨ (n = 1 ∧ d1 < 2 ∧ val ≥ 40) ∨ (n = 1 ∧ val > U32_MAX - 40 * d1)
      · rw [if_pos hb] at h; cases h
      · rw [if_neg hb] at h
        have hne : ds ≠ [] := by
          intro hd; apply hb; left; rw [hpos, hd]; rfl
        obtain ⟨hd, hv, _⟩ := hcons hne
        have hc : c = 46 := by
          have := UInt8.ofNat_toNat (x := c); rw [hdot] at this; exact this.symm
        refine ⟨val, [], by simpa using hd, hv, ?_, Or.inr ⟨t, by rw [hc]; simp, h⟩⟩
        unfold endBad; rw [List.append_nil, ← hpos]; exact hb
    · rw [if_neg hdot] at h
      by_cases hbad : c.toNat < 48 ∨ c.toNat > 57 ∨ (pos = 1 ∧ c0 = 48) ∨ val > U32_MAX / 10 ∨
          (val = U32_MAX / 10 ∧ c.toNat - 48 > U32_MAX % 10)
      · rw [if_pos hbad] at h; cases h
      · rw [if_neg hbad] at h
        have hval' : (val * 10 + (c.toNat - 48)) % U32 = val * 10 + (c.toNat - 48) := by omegaW
        rw [hval'] at h
        have hcdig : c = oct (48 + (c.toNat - 48)) := by
          symm; apply oct_eq_of_nat; have := UInt8.toNat_lt c; omega
        -- the new state is consistent
        have hnew : derSIDDec (val * 10 + (c.toNat - 48)) = ds ++ [c] := by
          by_cases hd : ds = []
          · have hv0 := hnil hd
            subst hd; subst hv0
            rw [Nat.zero_mul, Nat.zero_add, derSIDDec_small (by omega)]
            simp only [List.nil_append]
            rw [← hcdig]
          · obtain ⟨hdd, hv, hc0⟩ := hcons hd
            have hval1 : 1 ≤ val := by
              by_cases hp1 : pos = 1
              · -- single digit so far, not '0'
                have hlen : (derSIDDec val).length = 1 := by rw [hdd, ← hpos, hp1]
                rw [derSIDDec_length] at hlen
                have hv10 : val < 10 := by
                  apply Classical.byContradiction; intro hc; have := decLen_ge2 hc; omega
                rw [derSIDDec_small hv10] at hdd
                have hc048 : c0 ≠ 48 := fun hc => hbad (Or.inr (Or.inr (Or.inl ⟨hp1, hc⟩)))
                rw [← hdd] at hc0
                simp only [List.headD_cons] at hc0
                rw [digit_toNat val hv10] at hc0
                omega
              · have hlen : (derSIDDec val).length = pos := by rw [hdd, ← hpos]
                rw [derSIDDec_length] at hlen
                have hp0 : pos ≠ 0 := by
                  intro hz; apply hd; apply List.eq_nil_of_length_eq_zero; omega
                apply Classical.byContradiction; intro hc
                have hv0 : val = 0 := by omega
                rw [hv0, decLen_small (by omega)] at hlen
                omega
            rw [derSIDDec_big (by omega)]
            have e1 : (val * 10 + (c.toNat - 48)) / 10 = val := by omega
            have e2 : (val * 10 + (c.toNat - 48)) % 10 = c.toNat - 48 := by omega
            rw [e1, e2, hdd, ← hcdig]
        obtain ⟨v, more, hv1, hv2, hv3, hv4⟩ := ih (val * 10 + (c.toNat - 48)) d1 (pos + 1) n (if pos = 0 then c.toNat else c0) (ds ++ [c])
          (by simp [hpos]) (by simp)
          (fun _ => ⟨hnew, by omegaW, by
            by_cases hd : ds = []
            · subst hd; simp at hpos; simp [hpos]
            · obtain ⟨_, _, hc0⟩ := hcons hd
              have hp0 : pos ≠ 0 := by
                intro hz; apply hd; apply List.eq_nil_of_length_eq_zero; omega
              rw [if_neg hp0, hc0]
              cases ds with
              | nil => exact absurd rfl hd
              | cons a tl => simp⟩) h
        refine ⟨v, c :: more, by rw [hv1]; simp, hv2, by simpa using hv3, ?_⟩
        rcases hv4 with ⟨he, hn⟩ | ⟨s', he, hl⟩
        · exact Or.inl ⟨by rw [he], hn⟩
        · exact Or.inr ⟨s', by rw [he]; simp, hl⟩


/-- ".v1.v2…" -/
def renderTail : List Nat → List UInt8
  | [] => []
  | v :: vs => 46 :: derSIDDec v ++ renderTail vs

/-- the arcs v1, v2, … encoded one after the other -/
def encTail : List Nat → List UInt8
  | [] => []
  | v :: vs => derSIDEnc v ++ encTail vs

theorem enc_tail (vs : List Nat) (hvs : ∀ w ∈ vs, w < U32) (dd prev : Nat) (acc : List UInt8) :
    oidEncLoop (renderTail vs) dd prev acc = acc ++ derSIDEnc (adj dd prev) ++ encTail vs := by
  induction vs generalizing dd prev acc with
  | nil => rw [renderTail, oidEncLoop_nil]; simp [encTail]
  | cons v vs ih =>
    rw [renderTail, List.cons_append, oidEncLoop_dot, oidEncLoop_digits v (hvs v (by simp)), ih (fun w hw => hvs w (by simp [hw]))]
    simp [adj, encTail]

theorem scan_tail (vs : List Nat) (hvs : ∀ w ∈ vs, w < U32) (out : List UInt8) :
    oidScan (encTail vs) 0 0 out = .ok (0, out ++ renderTail vs) := by
  induction vs generalizing out with
  | nil => simp [encTail, renderTail, oidScan]
  | cons v vs ih =>
    rw [encTail, scan_arc v (hvs v (by simp)), if_neg (by omega), ih (fun w hw => hvs w (by simp [hw]))]
    simp [renderTail]

/-- after the first two numbers the automaton accepts exactly ".v.v…" with 32-bit canonical decimals -/
theorem parse_tail : ∀ (k : Nat) (s : List UInt8) (d1 n : Nat), s.length ≤ k → n ≥ 2 →
    oidLoop s 0 d1 0 n 0 = true → ∃ v vs, v < U32 ∧ (∀ w ∈ vs, w < U32) ∧ s = derSIDDec v ++ renderTail vs := by
  intro k
  induction k with
  | zero =>
    intro s d1 n hl hn h
    have : s = [] := List.eq_nil_of_length_eq_zero (by omega)
    subst this
    rw [oidLoop] at h; simp at h
  | succ k ih =>
    intro s d1 n hl hn h
    obtain ⟨v, more, hv1, hv2, _, hv4⟩ := oidLoop_parse s 0 d1 0 n 0 [] rfl (fun _ => rfl) (fun h => absurd rfl h) h
    simp only [List.nil_append] at hv1
    rcases hv4 with ⟨he, _⟩ | ⟨s', he, hl'⟩
    · exact ⟨v, [], hv2, by simp, by rw [he, hv1]; simp [renderTail]⟩
    · have hlen : s'.length ≤ k := by
        have := congrArg List.length he
        simp at this; omega
      rw [if_neg (by omega)] at hl'
      obtain ⟨v', vs, hv', hvs, hs'⟩ := ih s' d1 (n + 1) hlen (by omega) hl'
      refine ⟨v, v' :: vs, hv2, ?_, ?_⟩
      · intro w hw
        rcases List.mem_cons.mp hw with h | h
        · rw [h]; exact hv'
        · exact hvs w h
      · rw [he, ← hv1, hs']; simp [renderTail]

/-- a valid OID string is "d.v" followed by ".w" for 32-bit canonical decimals, d ≤ 2,
    v < 40 unless d = 2, and 40·d + v fits 32 bits -/
theorem oidIsValid_shape (s : List UInt8) (h : oidIsValid s = true) :
    ∃ d v vs, d ≤ 2 ∧ (d < 2 → v < 40) ∧ v + 40 * d < U32 ∧ (∀ w ∈ vs, w < U32) ∧
      s = oct (48 + d) :: 46 :: derSIDDec v ++ renderTail vs := by
  unfold oidIsValid at h
  obtain ⟨d, more, hd1, hd2, hd3, hd4⟩ := oidLoop_parse s 0 0 0 0 0 [] rfl (fun _ => rfl) (fun h => absurd rfl h) h
  simp only [List.nil_append] at hd1 hd3
  unfold endBad at hd3
  have hdle : d ≤ 2 := by
    apply Classical.byContradiction; intro hc; exact hd3 (Or.inr (Or.inl ⟨rfl, by omega⟩))
  rcases hd4 with ⟨_, hn⟩ | ⟨s', he, hl⟩
  · omega
  · simp only [if_true] at hl
    obtain ⟨v, more2, hv1, hv2, hv3, hv4⟩ := oidLoop_parse s' 0 d 0 1 0 [] rfl (fun _ => rfl) (fun h => absurd rfl h) hl
    simp only [List.nil_append] at hv1 hv3
    unfold endBad at hv3
    have hc1 : d < 2 → v < 40 := by
      intro hd; apply Classical.byContradiction; intro hc
      exact hv3 (Or.inr (Or.inr (Or.inl ⟨rfl, hd, by omega⟩)))
    have hc2 : v + 40 * d < U32 := by
      apply Classical.byContradiction; intro hc
      exact hv3 (Or.inr (Or.inr (Or.inr ⟨rfl, by omegaW⟩)))
    have hdd : more = [oct (48 + d)] := by rw [← hd1, derSIDDec_small (by omega)]
    rcases hv4 with ⟨he2, _⟩ | ⟨s'', he2, hl2⟩
    · refine ⟨d, v, [], hdle, hc1, hc2, by simp, ?_⟩
      rw [he, hdd, he2, ← hv1]; simp [renderTail]
    · rw [if_neg (by omega)] at hl2
      obtain ⟨v', vs, hv', hvs, hs''⟩ := parse_tail s''.length s'' d 2 (Nat.le_refl _) (by omega) hl2
      refine ⟨d, v, v' :: vs, hdle, hc1, hc2, ?_, ?_⟩
      · intro w hw
        rcases List.mem_cons.mp hw with h | h
        · rw [h]; exact hv'
        · exact hvs w h
      · rw [he, hdd, he2, ← hv1, hs'']; simp [renderTail]


theorem derSIDEnc_snoc (v : Nat) : ∃ hi, derSIDEnc v = hi ++ [oct (v % 128)] := by
  unfold derSIDEnc; exact ⟨_, rfl⟩

theorem encAll_last (x : Nat) (vs : List Nat) :
    ∃ init last, derSIDEnc x ++ encTail vs = init ++ [last] ∧ last.toNat < 128 := by
  induction vs generalizing x with
  | nil =>
    obtain ⟨hi, h⟩ := derSIDEnc_snoc x
    exact ⟨hi, oct (x % 128), by simp [encTail, h], by rw [toNat_oct]; omega⟩
  | cons v vs ih =>
    obtain ⟨init, last, h, hl⟩ := ih v
    exact ⟨derSIDEnc x ++ init, last, by rw [encTail, h]; simp, hl⟩

set_option maxRecDepth 4000 in
/-- ROUND TRIP (OID): every valid OID string decodes back from its code, whatever follows -/
theorem derOID_roundtrip' (s : List UInt8) (hv : oidIsValid s = true) (rest : List UInt8)
    (hlen : ∀ V : List UInt8, derOIDEnc s = derEnc 6 V → 13 + V.length + rest.length < W) :
    ∃ e, derOIDEnc s = .ok e ∧ derOIDDec (e ++ rest) = .ok (s, e.length) := by
  obtain ⟨d, v, vs, hd2, hd40, hX, hvs, hs⟩ := oidIsValid_shape s hv
  have hvlt : v < U32 := by omega
  -- the encoder
  have henc : derOIDEnc s = derEnc 6 (derSIDEnc (v + 40 * d) ++ encTail vs) := by
    unfold derOIDEnc
    rw [hv]; simp only [Bool.not_true, Bool.false_eq_true, if_false]
    rw [hs, List.cons_append, List.cons_append]; simp only []
    have hdg : (oct (48 + d)).toNat - 48 = d := by rw [digit_toNat d (by omega)]; omega
    rw [hdg, oidEncLoop_digits v hvlt, enc_tail vs hvs]
    have : adj d v = v + 40 * d := by unfold adj; rw [if_pos (by omega)]; omegaW
    rw [this]; simp
  generalize hV : derSIDEnc (v + 40 * d) ++ encTail vs = V at henc
  have hl := hlen V henc
  obtain ⟨e, he, hdec, hsl⟩ := derEnc_roundtrip' 6 V (by decide) (by decide) rest hl
  refine ⟨e, by rw [henc]; exact he, ?_⟩
  have hel : V.length ≤ e.length := by
    unfold derEnc at he; rw [derTEnc_ok 6 (by decide)] at he; cases he; simp; omega
  obtain ⟨init, last, hVl, hlast⟩ := encAll_last (v + 40 * d) vs
  rw [hV] at hVl
  have hVlen : 1 ≤ V.length := by rw [hVl]; simp
  generalize hoff : e.length - V.length = off at *
  unfold derOIDDec
  rw [derDec2_of_derDec _ _ _ _ _ hdec]; simp only []
  -- the loop
  have hscan := oidDecLoop_eq_scan (e ++ rest) off V.length (by simp; omega) V.length 0 0 3 [] (by omega)
  rw [Nat.add_zero, Nat.sub_zero, hsl] at hscan
  rw [hscan, ← hV, scan_arc (v + 40 * d) hX, if_pos rfl]
  have hsplit : (if v + 40 * d < 40 then 0 else if v + 40 * d < 80 then 1 else 2) = d ∧
      (if v + 40 * d < 40 then v + 40 * d else if v + 40 * d < 80 then v + 40 * d - 40 else v + 40 * d - 80) = v := by
    constructor <;> (split <;> (try split) <;> omega)
  rw [hsplit.1, hsplit.2, scan_tail vs hvs]; simp only []
  rw [if_neg (by omega)]
  have hrl := slice_rd _ _ off _ (V.length - 1) hsl (by omega)
  rw [hV, hrl]; simp only []
  have hlastV : (V[V.length - 1]'(by omega)) = last := by
    simp only [hVl]
    simp
  rw [hlastV, if_neg (by omega)]
  congr 2
  rw [hs, derSIDDec_small (by omega : d < 10)]
  simp


/-! ### derOIDDec2 -/

theorem rdS_lt {s : List UInt8} {i : Nat} (h : i < s.length) : rdS s i = .ok s[i].toNat := by
  unfold rdS; rw [if_pos h, rd_of_lt h]

/-- the digit comparison of derSIDDec2: success means the next n characters are the n digits of t -/
theorem sidCmpLoop_spec (oid : List UInt8) (o : Nat) : ∀ (n t : Nat), o + n ≤ oid.length →
    sidCmpLoop oid o t n = .ok () → (oid.drop o).take n = decChars n t := by
  intro n
  induction n with
  | zero => intro t _ _; simp [decChars]
  | succ n ih =>
    intro t hl h
    unfold sidCmpLoop at h
    have hi : o + n < oid.length := by omega
    rw [rdS_lt hi] at h; simp only [] at h
    by_cases hc : oid[o + n].toNat ≠ 48 + t % 10
    · rw [if_pos hc] at h; cases h
    · rw [if_neg hc] at h
      have := ih (t / 10) (by omega) h
      rw [decChars, ← this, List.take_add_one]
      congr 1
      rw [List.getElem?_drop, List.getElem?_eq_getElem hi]
      simp only [Option.toList_some, List.cons.injEq, and_true]
      symm; apply oct_eq_of_nat
      have := UInt8.toNat_lt oid[o + n]
      omega

theorem derSIDDec2_spec (val : Nat) (oid : List UInt8) (o k : Nat) (h : derSIDDec2 val oid o = .ok k) :
    k = decLen val ∧ o + k ≤ oid.length ∧ (oid.drop o).take k = derSIDDec val := by
  unfold derSIDDec2 at h
  simp only [] at h
  by_cases hc : oid.length - o < decLen val
  · rw [if_pos hc] at h; cases h
  · rw [if_neg hc] at h
    have hl1 : 1 ≤ decLen val := by
      by_cases h : val < 10
      · rw [decLen_small h]; omega
      · rw [decLen_big h]; omega
    rcases sidCmpLoop_cases oid o val (decLen val) (by omega) with e | e
    · rw [e] at h; cases h
    · rw [e] at h; cases h
      exact ⟨rfl, by omega, sidCmpLoop_spec oid o _ val (by omega) e⟩

theorem take_append_slice (oid : List UInt8) (o k : Nat) : oid.take o ++ (oid.drop o).take k = oid.take (o + k) := by
  rw [List.take_add]

theorem rdS_dot (oid : List UInt8) (o ch : Nat) (h : rdS oid o = .ok ch) (hc : ch = 46) :
    o < oid.length ∧ oid.take o ++ [46] = oid.take (o + 1) := by
  unfold rdS at h
  by_cases hi : o < oid.length
  · rw [if_pos hi, rd_of_lt hi] at h
    injection h with h
    refine ⟨hi, ?_⟩
    rw [List.take_add_one, List.getElem?_eq_getElem hi]
    simp only [Option.toList_some, List.append_cancel_left_eq, List.cons.injEq, and_true]
    have := UInt8.ofNat_toNat (x := oid[o]); rw [h, hc] at this; exact this
  · rw [if_neg hi] at h
    split at h
    · injection h with h; omega
    · cases h

set_option maxRecDepth 4000 in
/-- derOIDDec2 follows derOIDDec: it succeeds only along the string derOIDDec would write -/
theorem oidDec2Loop_follows (der : List UInt8) (off l : Nat) (oid : List UInt8) :
    ∀ n pos val d1 o d1f of, n = l - pos → o ≤ oid.length → (d1 = 3 ∨ d1 = 0) →
    oidDec2Loop der off l pos val d1 oid o = .ok (d1f, of) →
    oidDecLoop der off l pos val d1 (oid.take o) = .ok (d1f, oid.take of) ∧ of ≤ oid.length := by
  intro n
  induction n with
  | zero =>
    intro pos val d1 o d1f of hn ho hd h
    rw [oidDec2Loop, dif_neg (by omega)] at h
    cases h
    rw [oidDecLoop, dif_neg (by omega)]
    exact ⟨rfl, ho⟩
  | succ n ih =>
    intro pos val d1 o d1f of hn ho hd h
    rw [oidDec2Loop, dif_pos (by omega)] at h
    rw [oidDecLoop, dif_pos (by omega)]
    by_cases h1 : val / 33554432 ≠ 0
    · rw [if_pos h1] at h; cases h
    · rw [if_neg h1] at h ⊢
      cases hr : rd der (off + pos) with
      | ok b =>
        rw [hr] at h; simp only [] at h ⊢
        by_cases h2 : val = 0 ∧ b = 128
        · rw [if_pos h2] at h; cases h
        · rw [if_neg h2] at h ⊢
          by_cases h3 : b / 128 = 0
          · rw [if_pos h3] at h ⊢
            generalize hX : (val * 128 + b % 128) % U32 = X at h ⊢
            by_cases h4 : d1 = 3
            · subst h4
              simp only [if_true] at h ⊢
              cases hs1 : derSIDDec2 (if X < 40 then 0 else if X < 80 then 1 else 2) oid o with
              | ok k =>
                rw [hs1] at h; simp only [] at h
                obtain ⟨_, hk, hsl⟩ := derSIDDec2_spec _ oid o k hs1
                cases hrs : rdS oid (o + k) with
                | ok ch =>
                  rw [hrs] at h; simp only [] at h
                  by_cases h5 : ch ≠ 46
                  · rw [if_pos h5] at h; cases h
                  · rw [if_neg h5] at h
                    obtain ⟨hlt, hdot⟩ := rdS_dot oid (o + k) ch hrs (by omega)
                    cases hs2 : derSIDDec2 (if X < 40 then X else if X < 80 then X - 40 else X - 80) oid (o + k + 1) with
                    | ok k2 =>
                      rw [hs2] at h; simp only [] at h
                      obtain ⟨_, hk2, hsl2⟩ := derSIDDec2_spec _ oid _ k2 hs2
                      have := ih (pos + 1) 0 0 (o + k + 1 + k2) d1f of (by omega) hk2 (Or.inr rfl) h
                      rw [← take_append_slice oid (o + k + 1) k2, hsl2, ← hdot, ← take_append_slice oid o k, hsl] at this
                      simpa using this
                    | err => rw [hs2] at h; cases h
                    | oob => rw [hs2] at h; cases h
                | err => rw [hrs] at h; cases h
                | oob => rw [hrs] at h; cases h
              | err => rw [hs1] at h; cases h
              | oob => rw [hs1] at h; cases h
            · have hd0 : d1 = 0 := by omega
              subst hd0
              simp only [h4, if_false] at h ⊢
              cases hrs : rdS oid o with
              | ok ch =>
                rw [hrs] at h; simp only [] at h
                by_cases h5 : ch ≠ 46
                · rw [if_pos h5] at h; cases h
                · rw [if_neg h5] at h
                  obtain ⟨hlt, hdot⟩ := rdS_dot oid o ch hrs (by omega)
                  cases hs2 : derSIDDec2 X oid (o + 1) with
                  | ok k2 =>
                    rw [hs2] at h; simp only [] at h
                    obtain ⟨_, hk2, hsl2⟩ := derSIDDec2_spec _ oid _ k2 hs2
                    have := ih (pos + 1) 0 0 (o + 1 + k2) d1f of (by omega) hk2 (Or.inr rfl) h
                    rw [← take_append_slice oid (o + 1) k2, hsl2, ← hdot] at this
                    simpa using this
                  | err => rw [hs2] at h; cases h
                  | oob => rw [hs2] at h; cases h
              | err => rw [hrs] at h; cases h
              | oob => rw [hrs] at h; cases h
          · rw [if_neg h3] at h ⊢
            exact ih (pos + 1) _ d1 o d1f of (by omega) ho hd h
      | err => rw [hr] at h; cases h
      | oob => rw [hr] at h; cases h


/-- derOIDDec2 accepts (der, oid) only if derOIDDec decodes der to exactly the string oid -/
theorem derOIDDec2_eq_dec (der oid : List UInt8) (hlen : der.length < W) (hstr : ∀ b ∈ oid, b ≠ 0) (c : Nat)
    (h : derOIDDec2 der oid = .ok c) : derOIDDec der = .ok (oid, c) := by
  unfold derOIDDec2 at h
  unfold derOIDDec
  rcases derDec2_cases der 6 hlen with e | ⟨off, l, c', e, _, _, _, hc, hcl⟩
  · rw [e] at h; cases h
  · rw [e] at h ⊢; simp only [] at h ⊢
    cases hl2 : oidDec2Loop der off l 0 0 3 oid 0 with
    | ok r =>
      obtain ⟨d1, o⟩ := r
      rw [hl2] at h; simp only [] at h
      obtain ⟨hfol, ho⟩ := oidDec2Loop_follows der off l oid l 0 0 3 0 d1 o (by omega) (by omega) (Or.inl rfl) hl2
      rw [List.take_zero] at hfol
      rw [hfol]; simp only []
      by_cases hd : d1 = 3
      · rw [if_pos hd] at h; cases h
      · rw [if_neg hd] at h ⊢
        cases hr : rd der (off + (l - 1)) with
        | ok last =>
          rw [hr] at h; simp only [] at h ⊢
          by_cases hla : last / 128 ≠ 0
          · rw [if_pos hla] at h; cases h
          · rw [if_neg hla] at h ⊢
            cases hrs : rdS oid o with
            | ok ch =>
              rw [hrs] at h; simp only [] at h
              by_cases hch : ch ≠ 0
              · rw [if_pos hch] at h; cases h
              · rw [if_neg hch] at h; cases h
                -- the terminating zero: o = |oid|
                have hoe : o = oid.length := by
                  unfold rdS at hrs
                  by_cases hi : o < oid.length
                  · rw [if_pos hi, rd_of_lt hi] at hrs
                    injection hrs with hrs
                    exfalso
                    have hz : oid[o].toNat = 0 := by omega
                    exact hstr oid[o] (List.getElem_mem hi) (toNat_zero_eq _ hz)
                  · omega
                rw [hoe, List.take_length]
            | err => rw [hrs] at h; cases h
            | oob => rw [hrs] at h; cases h
        | err => rw [hr] at h; cases h
        | oob => rw [hr] at h; cases h
    | err => rw [hl2] at h; cases h
    | oob => rw [hl2] at h; cases h


theorem oidDecLoop_mono (der : List UInt8) (off l : Nat) :
    ∀ n pos val d1 out d1f outf, n = l - pos → oidDecLoop der off l pos val d1 out = .ok (d1f, outf) →
    ∃ suf, outf = out ++ suf := by
  intro n
  induction n with
  | zero =>
    intro pos val d1 out d1f outf hn h
    rw [oidDecLoop, dif_neg (by omega)] at h
    cases h; exact ⟨[], by simp⟩
  | succ n ih =>
    intro pos val d1 out d1f outf hn h
    rw [oidDecLoop, dif_pos (by omega)] at h
    by_cases h1 : val / 33554432 ≠ 0
    · rw [if_pos h1] at h; cases h
    · rw [if_neg h1] at h
      cases hr : rd der (off + pos) with
      | ok b =>
        rw [hr] at h; simp only [] at h
        by_cases h2 : val = 0 ∧ b = 128
        · rw [if_pos h2] at h; cases h
        · rw [if_neg h2] at h
          by_cases h3 : b / 128 = 0
          · rw [if_pos h3] at h
            by_cases h4 : d1 = 3
            · rw [if_pos h4] at h
              obtain ⟨suf, hs⟩ := ih _ _ _ _ _ _ (by omega) h
              exact ⟨_, by rw [hs]; simp only [List.append_assoc]; rfl⟩
            · rw [if_neg h4] at h
              obtain ⟨suf, hs⟩ := ih _ _ _ _ _ _ (by omega) h
              exact ⟨_, by rw [hs]; simp only [List.append_assoc]; rfl⟩
          · rw [if_neg h3] at h
            exact ih _ _ _ _ _ _ (by omega) h
      | err => rw [hr] at h; cases h
      | oob => rw [hr] at h; cases h

theorem sidCmpLoop_of_eq (oid : List UInt8) (o : Nat) : ∀ (n t : Nat), o + n ≤ oid.length →
    (oid.drop o).take n = decChars n t → sidCmpLoop oid o t n = .ok () := by
  intro n
  induction n with
  | zero => intro t _ _; rfl
  | succ n ih =>
    intro t hl h
    have hi : o + n < oid.length := by omega
    rw [decChars, List.take_add_one, List.getElem?_drop, List.getElem?_eq_getElem hi] at h
    simp only [Option.toList_some] at h
    have hlen : ((oid.drop o).take n).length = (decChars n (t / 10)).length := by
      rw [decChars_length]; simp [List.length_take]; omega
    obtain ⟨h1, h2⟩ := List.append_inj h hlen
    unfold sidCmpLoop
    rw [rdS_lt hi]; simp only []
    have hv : oid[o + n].toNat = 48 + t % 10 := by
      have := List.cons.inj h2
      rw [this.1, toNat_oct]; omega
    rw [if_neg (by omega)]
    exact ih (t / 10) (by omega) h1

theorem derSIDDec2_of_eq (val : Nat) (oid : List UInt8) (o : Nat) (hl : o + decLen val ≤ oid.length)
    (h : (oid.drop o).take (decLen val) = derSIDDec val) : derSIDDec2 val oid o = .ok (decLen val) := by
  unfold derSIDDec2
  simp only []
  rw [if_neg (by omega), sidCmpLoop_of_eq oid o _ val hl h]

/-- if `oid` continues at position o with `chunk`, the slice there is the chunk -/
theorem slice_of_prefix (oid : List UInt8) (o : Nat) (chunk suf : List UInt8) (h : oid = oid.take o ++ chunk ++ suf)
    (ho : o ≤ oid.length) : (oid.drop o).take chunk.length = chunk ∧ o + chunk.length ≤ oid.length := by
  have hd : oid.drop o = chunk ++ suf := by
    conv => lhs; rw [h]
    rw [List.append_assoc, List.drop_left' (by simp; omega)]
  constructor
  · rw [hd, List.take_left' rfl]
  · have := congrArg List.length hd
    simp at this; omega


theorem decLen_pos (v : Nat) : 1 ≤ decLen v := by
  by_cases h : v < 10
  · rw [decLen_small h]; omega
  · rw [decLen_big h]; omega

/-- matching one printed chunk ".v" (or "d.v" for the first arc) at position o of oid -/
theorem match_dot_num (oid : List UInt8) (o v : Nat) (suf : List UInt8) (ho : o ≤ oid.length)
    (h : oid = oid.take o ++ (46 :: derSIDDec v) ++ suf) :
    rdS oid o = .ok 46 ∧ derSIDDec2 v oid (o + 1) = .ok (decLen v) ∧ o + 1 + decLen v ≤ oid.length ∧
      oid.take (o + 1 + decLen v) = oid.take o ++ (46 :: derSIDDec v) := by
  obtain ⟨hsl, hlen⟩ := slice_of_prefix oid o (46 :: derSIDDec v) suf h ho
  simp only [List.length_cons, derSIDDec_length] at hsl hlen
  have hi : o < oid.length := by omega
  have hd : oid.drop o = 46 :: (oid.drop (o + 1)) ∧ (oid.drop (o + 1)).take (decLen v) = derSIDDec v := by
    rw [List.drop_eq_getElem_cons hi, List.take_succ_cons] at hsl
    injection hsl with h1 h2
    exact ⟨by rw [List.drop_eq_getElem_cons hi, h1], h2⟩
  have h46 : oid[o] = 46 := by
    have := hd.1; rw [List.drop_eq_getElem_cons hi] at this; injection this
  refine ⟨by rw [rdS_lt hi, h46]; rfl, derSIDDec2_of_eq v oid (o + 1) (by omega) hd.2, by omega, ?_⟩
  rw [show o + 1 + decLen v = o + (decLen v + 1) by omega, List.take_add, hsl]

set_option maxRecDepth 4000 in
/-- converse of oidDec2Loop_follows: along the string derOIDDec writes, derOIDDec2 succeeds -/
theorem oidDec2Loop_of_dec (der : List UInt8) (off l : Nat) (oid : List UInt8) :
    ∀ n pos val d1 o d1f, n = l - pos → o ≤ oid.length → (d1 = 3 ∨ d1 = 0) →
    oidDecLoop der off l pos val d1 (oid.take o) = .ok (d1f, oid) →
    oidDec2Loop der off l pos val d1 oid o = .ok (d1f, oid.length) := by
  intro n
  induction n with
  | zero =>
    intro pos val d1 o d1f hn ho hd h
    rw [oidDecLoop, dif_neg (by omega)] at h
    injection h with h; injection h with h1 h2
    rw [oidDec2Loop, dif_neg (by omega)]
    have : o = oid.length := by
      have := congrArg List.length h2
      simp [List.length_take] at this; omega
    rw [h1, this]
  | succ n ih =>
    intro pos val d1 o d1f hn ho hd h
    rw [oidDecLoop, dif_pos (by omega)] at h
    rw [oidDec2Loop, dif_pos (by omega)]
    by_cases h1 : val / 33554432 ≠ 0
    · rw [if_pos h1] at h; cases h
    · rw [if_neg h1] at h ⊢
      cases hr : rd der (off + pos) with
      | ok b =>
        rw [hr] at h; simp only [] at h ⊢
        by_cases h2 : val = 0 ∧ b = 128
        · rw [if_pos h2] at h; cases h
        · rw [if_neg h2] at h ⊢
          by_cases h3 : b / 128 = 0
          · rw [if_pos h3] at h ⊢
            generalize hX : (val * 128 + b % 128) % U32 = X at h ⊢
            by_cases h4 : d1 = 3
            · subst h4
              simp only [if_true] at h ⊢
              generalize hdd : (if X < 40 then 0 else if X < 80 then 1 else 2) = d at h ⊢
              generalize hvd : (if X < 40 then X else if X < 80 then X - 40 else X - 80) = vd at h ⊢
              obtain ⟨suf, hs⟩ := oidDecLoop_mono der off l _ _ _ _ _ _ _ rfl h
              -- first the digit d, then ".vd"
              have hd10 : d < 10 := by rw [← hdd]; split <;> (try split) <;> omega
              have e1 : oid = oid.take o ++ derSIDDec d ++ (46 :: derSIDDec vd ++ suf) := by
                conv => lhs; rw [hs]
                simp only [List.append_assoc, List.cons_append, List.nil_append, List.singleton_append]
              obtain ⟨hsl1, hlen1⟩ := slice_of_prefix oid o (derSIDDec d) _ e1 ho
              rw [derSIDDec_length] at hsl1 hlen1
              rw [derSIDDec2_of_eq d oid o hlen1 hsl1]; simp only []
              have htk : oid.take (o + decLen d) = oid.take o ++ derSIDDec d := by rw [List.take_add, hsl1]
              have e2 : oid = oid.take (o + decLen d) ++ (46 :: derSIDDec vd) ++ suf := by
                rw [htk]; conv => lhs; rw [e1]
                simp only [List.append_assoc, List.cons_append]
              obtain ⟨m1, m2, m3, m4⟩ := match_dot_num oid (o + decLen d) vd suf hlen1 e2
              rw [m1]; simp only []
              rw [if_neg (by omega), m2]; simp only []
              apply ih (pos + 1) 0 0 _ d1f (by omega) m3 (Or.inr rfl)
              rw [m4, htk]
              have : oid.take o ++ derSIDDec d ++ 46 :: derSIDDec vd = oid.take o ++ derSIDDec d ++ [46] ++ derSIDDec vd := by simp
              rw [this]; exact h
            · have hd0 : d1 = 0 := by omega
              subst hd0
              simp only [h4, if_false] at h ⊢
              obtain ⟨suf, hs⟩ := oidDecLoop_mono der off l _ _ _ _ _ _ _ rfl h
              have e2 : oid = oid.take o ++ (46 :: derSIDDec X) ++ suf := by
                conv => lhs; rw [hs]
                simp only [List.append_assoc, List.cons_append, List.nil_append, List.singleton_append]
              obtain ⟨m1, m2, m3, m4⟩ := match_dot_num oid o X suf ho e2
              rw [m1]; simp only []
              rw [if_neg (by omega), m2]; simp only []
              apply ih (pos + 1) 0 0 _ d1f (by omega) m3 (Or.inr rfl)
              rw [m4]
              have : oid.take o ++ 46 :: derSIDDec X = oid.take o ++ [46] ++ derSIDDec X := by simp
              rw [this]; exact h
          · rw [if_neg h3] at h ⊢
            exact ih (pos + 1) _ d1 o d1f (by omega) ho hd h
      | err => rw [hr] at h; cases h
      | oob => rw [hr] at h; cases h

/-- derOIDDec returning `oid` implies derOIDDec2 accepts (der, oid) -/
theorem derOIDDec2_of_dec (der oid : List UInt8) (hlen : der.length < W) (c : Nat)
    (h : derOIDDec der = .ok (oid, c)) : derOIDDec2 der oid = .ok c := by
  unfold derOIDDec at h
  unfold derOIDDec2
  rcases derDec2_cases der 6 hlen with e | ⟨off, l, c', e, _, _, _, hc, hcl⟩
  · rw [e] at h; cases h
  · rw [e] at h ⊢; simp only [] at h ⊢
    cases hl1 : oidDecLoop der off l 0 0 3 [] with
    | ok r =>
      obtain ⟨d1, out⟩ := r
      rw [hl1] at h; simp only [] at h
      by_cases hd : d1 = 3
      · rw [if_pos hd] at h; cases h
      · rw [if_neg hd] at h
        cases hr : rd der (off + (l - 1)) with
        | ok last =>
          rw [hr] at h; simp only [] at h
          by_cases hla : last / 128 ≠ 0
          · rw [if_pos hla] at h; cases h
          · rw [if_neg hla] at h
            injection h with h; injection h with ho hc2
            subst ho; subst hc2
            have := oidDec2Loop_of_dec der off l out l 0 0 3 0 d1 (by omega) (by omega) (Or.inl rfl) (by simpa using hl1)
            rw [this]; simp only []
            rw [if_neg hd, if_neg hla]
            have : rdS out out.length = .ok 0 := by unfold rdS; simp
            rw [this]; simp
        | err => rw [hr] at h; cases h
        | oob => rw [hr] at h; cases h
    | err => rw [hl1] at h; cases h
    | oob => rw [hl1] at h; cases h

/-- ROUND TRIP for the matcher: derOIDDec2 accepts the code of `oid`, followed by anything -/
theorem derOIDDec2_roundtrip (oid e rest : List UInt8) (he : derOIDEnc oid = .ok e) (hlen : 13 + e.length + rest.length < W) :
    derOIDDec2 (e ++ rest) oid = .ok e.length := by
  have hv : oidIsValid oid = true := by
    unfold derOIDEnc at he
    by_cases hv : oidIsValid oid = true
    · exact hv
    · have hf : oidIsValid oid = false := by simpa using hv
      rw [hf] at he; simp at he
  obtain ⟨e', he', hd⟩ := derOID_roundtrip' oid hv rest (by
    intro V hV
    rw [he] at hV
    have : V.length ≤ e.length := by
      unfold derEnc at hV; rw [derTEnc_ok 6 (by decide)] at hV
      injection hV with hV; rw [hV]; simp; omega
    omega)
  rw [he] at he'; cases he'
  exact derOIDDec2_of_dec (e ++ rest) oid (by simp; omega) e.length hd


end Bee2V.C08

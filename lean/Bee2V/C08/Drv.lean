/-
C08 driver handlers: line protocol shared with harness/c08.c (one op per line, one result line).
`err` = the C function returned SIZE_MAX / FALSE-as-error; `OOB` = the model read outside its
input (the harness can never print this, so it always shows up as a disagreement).
-/
import Bee2V.C08.Model4
import Bee2V.Base.Proto
namespace Bee2V.C08.Drv
open Bee2V.C08 Bee2V.Proto

def showR {α} (f : α → String) : R α → String
  | .ok a => f a
  | .err => "err"
  | .oob => "OOB"

def b01 (b : Bool) : String := if b then "1" else "0"

/-- a C string token: hex of its characters, none of them zero -/
def parseStr (s : String) : Option (List UInt8) :=
  match parseHex s with
  | some l => if l.all (· ≠ 0) then some l else none
  | none => none

def octN (s : String) : Option UInt8 :=
  match parseNat s with
  | some n => if n < 256 then some (UInt8.ofNat n) else none
  | none => none

/-- run-length summary of the results for the 256 one-octet extensions of a prefix -/
def rle (xs : List String) : String :=
  let rec go : List String → String → Nat → List String → List String
    | [], cur, n, acc => (s!"{n}*{cur}" :: acc).reverse
    | x :: rest, cur, n, acc => if x = cur then go rest cur (n + 1) acc else go rest x 1 (s!"{n}*{cur}" :: acc)
  match xs with
  | [] => "-"
  | x :: rest => ";".intercalate (go rest x 1 [])

def tlStr (x : List UInt8) : String :=
  showR (fun (t : Nat × Nat × Nat) => s!"{t.1} {t.2.1} {t.2.2}") (derTLDec x)

def decStr (x : List UInt8) : String :=
  showR (fun (t : Nat × Nat × Nat × Nat) => s!"{t.1} {t.2.1} {t.2.2.1} {t.2.2.2}") (derDec x)

def isvStr (x : List UInt8) : String :=
  match derIsValid x with
  | .ok () => "1"
  | .err => "0"
  | .oob => "OOB"

def flag (r : R Unit) : String :=
  match r with
  | .ok () => "1"
  | .err => "0"
  | .oob => "OOB"

def handle : List String → String
  | ["tl", x] => match parseHex x with
    | some x => tlStr x
    | none => "bad-op"
  | ["tlblk", p] => match parseHex p with
    | some p => rle ((List.range 256).map fun b => tlStr (p ++ [UInt8.ofNat b]))
    | none => "bad-op"
  | ["decblk", p] => match parseHex p with
    | some p => rle ((List.range 256).map fun b => decStr (p ++ [UInt8.ofNat b]) ++ "/" ++ isvStr (p ++ [UInt8.ofNat b]))
    | none => "bad-op"
  | ["dec", x] => match parseHex x with
    | some x => decStr x
    | none => "bad-op"
  | ["dec2", x, t] => match parseHex x, parseNat t with
    | some x, some t => showR (fun (r : Nat × Nat × Nat) => s!"{r.1} {r.2.1} {r.2.2}") (derDec2 x t)
    | _, _ => "bad-op"
  | ["dec3", x, t, l] => match parseHex x, parseNat t, parseNat l with
    | some x, some t, some l => showR (fun (r : Nat × Nat) => s!"{r.1} {r.2}") (derDec3 x t l)
    | _, _, _ => "bad-op"
  | ["dec4", x, t, v] => match parseHex x, parseNat t, parseHex v with
    | some x, some t, some v => showR (fun (r : Nat) => s!"{r}") (derDec4 x t v)
    | _, _, _ => "bad-op"
  | ["isv", x] => match parseHex x with
    | some x => isvStr x
    | none => "bad-op"
  | ["isv2", x, t] => match parseHex x, parseNat t with
    | some x, some t => flag (derIsValid2 x t)
    | _, _ => "bad-op"
  | ["sw", x, t] => match parseHex x, parseNat t with
    | some x, some t => flag (derStartsWith x t)
    | _, _ => "bad-op"
  | ["tlenc", t, l] => match parseNat t, parseNat l with
    | some t, some l => if t < U32 ∧ l < W then showR toHex (derTLEnc t l) else "bad-op"
    | _, _ => "bad-op"
  | ["enc", t, v] => match parseNat t, parseHex v with
    | some t, some v => if t < U32 then showR toHex (derEnc t v) else "bad-op"
    | _, _ => "bad-op"
  | ["sizeenc", t, v] => match parseNat t, parseNat v with
    | some t, some v => if t < U32 ∧ v < W then showR toHex (derTSIZEEnc t v) else "bad-op"
    | _, _ => "bad-op"
  | ["sizedec", x, t] => match parseHex x, parseNat t with
    | some x, some t => showR (fun (r : Nat × Nat) => s!"{r.1} {r.2}") (derTSIZEDec x t)
    | _, _ => "bad-op"
  | ["sizedec2", x, t, v] => match parseHex x, parseNat t, parseNat v with
    | some x, some t, some v => showR (fun (r : Nat) => s!"{r}") (derTSIZEDec2 x t v)
    | _, _, _ => "bad-op"
  | ["uintenc", t, v] => match parseNat t, parseHex v with
    | some t, some v => if t < U32 ∧ v ≠ [] then showR toHex (derTUINTEnc t v) else "bad-op"
    | _, _ => "bad-op"
  | ["uintdec", x, t] => match parseHex x, parseNat t with
    | some x, some t => showR (fun (r : List UInt8 × Nat) => s!"{toHex r.1} {r.2}") (derTUINTDec x t)
    | _, _ => "bad-op"
  | ["uintdec2", x, t, l] => match parseHex x, parseNat t, parseNat l with
    | some x, some t, some l => showR (fun (r : List UInt8 × Nat) => s!"{toHex r.1} {r.2}") (derTUINTDec2 x t l)
    | _, _, _ => "bad-op"
  | ["bitenc", t, v, l] => match parseNat t, parseHex v, parseNat l with
    | some t, some v, some l =>
      if t < U32 ∧ v.length = (l + 7) / 8 then showR toHex (derTBITEnc t v l) else "bad-op"
    | _, _, _ => "bad-op"
  | ["bitdec", x, t] => match parseHex x, parseNat t with
    | some x, some t => showR (fun (r : List UInt8 × Nat × Nat) => s!"{toHex r.1} {r.2.1} {r.2.2}") (derTBITDec x t)
    | _, _ => "bad-op"
  | ["bitdec2", x, t, l] => match parseHex x, parseNat t, parseNat l with
    | some x, some t, some l => showR (fun (r : List UInt8 × Nat) => s!"{toHex r.1} {r.2}") (derTBITDec2 x t l)
    | _, _, _ => "bad-op"
  | ["octdec", x, t] => match parseHex x, parseNat t with
    | some x, some t => showR (fun (r : List UInt8 × Nat) => s!"{toHex r.1} {r.2}") (derTOCTDec x t)
    | _, _ => "bad-op"
  | ["octdec2", x, t, l] => match parseHex x, parseNat t, parseNat l with
    | some x, some t, some l => showR (fun (r : List UInt8 × Nat) => s!"{toHex r.1} {r.2}") (derTOCTDec2 x t l)
    | _, _, _ => "bad-op"
  | ["pstrenc", t, s] => match parseNat t, parseStr s with
    | some t, some s => if t < U32 then showR toHex (derTPSTREnc t s) else "bad-op"
    | _, _ => "bad-op"
  | ["pstrdec", x, t] => match parseHex x, parseNat t with
    | some x, some t => showR (fun (r : List UInt8 × Nat) => s!"{toHex r.1} {r.2}") (derTPSTRDec x t)
    | _, _ => "bad-op"
  | ["oidvalid", s] => match parseStr s with
    | some s => b01 (oidIsValid s)
    | none => "bad-op"
  | ["oidenc", s] => match parseStr s with
    | some s => showR toHex (derOIDEnc s)
    | none => "bad-op"
  | ["oiddec", x] => match parseHex x with
    | some x => showR (fun (r : List UInt8 × Nat) => s!"{toHex r.1} {r.2}") (derOIDDec x)
    | none => "bad-op"
  | ["oiddec2", x, s] => match parseHex x, parseStr s with
    | some x, some s => showR (fun (r : Nat) => s!"{r}") (derOIDDec2 x s)
    | _, _ => "bad-op"
  | ["oidfromder", x] => match parseHex x with
    | some x => showR toHex (oidFromDER x)
    | none => "bad-op"
  | ["seqenc", p, t, v] => match parseHex p, parseNat t, parseHex v with
    | some p, some t, some v =>
      if t < U32 then
        match derTSEQEncStart p.length t with
        | .ok (a, e) => showR (fun (r : Nat × List UInt8) => s!"{r.1} {toHex r.2}") (derTSEQEncStop (p ++ e ++ v) a)
        | .err => "err"
        | .oob => "OOB"
      else "bad-op"
    | _, _, _ => "bad-op"
  | ["seqdec", x, t, pos] => match parseHex x, parseNat t, parseNat pos with
    | some x, some t, some pos =>
      if t < U32 ∧ pos ≤ x.length then
        match derTSEQDecStart x t with
        | .ok (a, k) => s!"{a.tag} {a.len} {k} {flag (derTSEQDecStop pos a)}"
        | .err => "err"
        | .oob => "OOB"
      else "bad-op"
    | _, _, _ => "bad-op"
  | ["cmddec", x] => match parseHex x with
    | some x => showR (fun (c : Cmd) => s!"{c.cla} {c.ins} {c.p1} {c.p2} {toHex c.cdf} {c.rdf_len}") (apduCmdDec x)
    | none => "bad-op"
  | ["cmdenc", cla, ins, p1, p2, cdf, rdf] =>
    match octN cla, octN ins, octN p1, octN p2, parseHex cdf, parseNat rdf with
    | some cla, some ins, some p1, some p2, some cdf, some rdf =>
      let c : Cmd := ⟨cla, ins, p1, p2, cdf, rdf⟩
      if apduCmdIsValid c then toHex (apduCmdEnc c) else "invalid"
    | _, _, _, _, _, _ => "bad-op"
  | ["respdec", x] => match parseHex x with
    | some x => showR (fun (r : Resp) => s!"{r.sw1} {r.sw2} {toHex r.rdf}") (apduRespDec x)
    | none => "bad-op"
  | ["respenc", s1, s2, rdf] => match octN s1, octN s2, parseHex rdf with
    | some s1, some s2, some rdf => if rdf.length ≤ 65536 then toHex (apduRespEnc ⟨s1, s2, rdf⟩) else "invalid"
    | _, _, _ => "bad-op"
  | ["hexvalid", s] => match parseStr s with
    | some s => b01 (hexIsValid s)
    | none => "bad-op"
  | ["hexto", s] => match parseStr s with
    | some s => if hexIsValid s then s!"{toHex (hexTo s)} {toHex (hexToRev s)}" else "invalid"
    | none => "bad-op"
  | ["hexfrom", v] => match parseHex v with
    | some v => s!"{toHex (hexFrom v)} {toHex (hexFromRev v)}"
    | none => "bad-op"
  | ["hexeq", v, s] => match parseHex v, parseStr s with
    | some v, some s =>
      if hexIsValid s ∧ v.length = s.length / 2 then
        let r1 := showR b01 (hexEqSafe v s)
        let r2 := showR b01 (hexEqFast v (hexTo s))
        let r3 := showR b01 (hexEqSafe v.reverse s)
        let r4 := showR b01 (hexEqFast v.reverse (hexTo s))
        s!"{r1} {r2} {r3} {r4}"
      else "invalid"
    | _, _ => "bad-op"
  | ["b64valid", s] => match parseStr s with
    | some s => b01 (b64IsValid s)
    | none => "bad-op"
  | ["b64to", s] => match parseStr s with
    | some s => if b64IsValid s then toHex (b64To s) else "invalid"
    | none => "bad-op"
  | ["b64from", v] => match parseHex v with
    | some v => toHex (b64From v)
    | none => "bad-op"
  | ["decvalid", s] => match parseStr s with
    | some s => b01 (decIsValid s)
    | none => "bad-op"
  | ["decto", s] => match parseStr s with
    | some s => if decIsValid s then s!"{decTo U32 s} {decTo W s} {decCLZ s}" else "invalid"
    | none => "bad-op"
  | ["decfrom", c, n] => match parseNat c, parseNat n with
    | some c, some n => if c ≤ 64 ∧ n < W then s!"{toHex (decFrom c (n % U32))} {toHex (decFrom c n)}" else "bad-op"
    | _, _ => "bad-op"
  | ["deccd", s] => match parseStr s with
    | some s =>
      if decIsValid s then
        s!"{(decLuhnCalc s).toNat} {b01 (decLuhnVerify s)} {(decDammCalc s).toNat} {b01 (decDammVerify s)}"
      else "invalid"
    | none => "bad-op"
  | ["pkdec", x] => match parseHex x with
    | some x => showR (fun (r : Nat × DSt) => s!"{toHex (r.2.outs.getD 0 [])} {r.1}") (bpkiPrivkeyDec x)
    | none => "bad-op"
  | ["shdec", x] => match parseHex x with
    | some x => showR (fun (r : Nat × DSt) => s!"{toHex (r.2.outs.getD 0 [])} {r.1}") (bpkiShareDec x)
    | none => "bad-op"
  | ["eddec", x] => match parseHex x with
    | some x => showR (fun (r : Nat × DSt) =>
        s!"{toHex (r.2.outs.getD 1 [])} {toHex (r.2.outs.getD 0 [])} {r.2.nums.getD 0 0} {r.1}") (bpkiEdataDec x)
    | none => "bad-op"
  | ["csrdec", x] => match parseHex x with
    | some x => showR (fun (r : Nat × DSt) =>
        let n := r.2.nums
        s!"{n.getD 3 0} {n.getD 1 0 - n.getD 3 0} {n.getD 2 0} {n.getD 0 0} {r.1}") (bpkiCSRDec x)
    | none => "bad-op"
  | ["pkenc", k] => match parseHex k with
    | some k => if k.length = 24 ∨ k.length = 32 ∨ k.length = 48 ∨ k.length = 64 then showR toHex (bpkiPrivkeyEnc k) else "invalid"
    | none => "bad-op"
  | ["shenc", k] => match parseHex k with
    | some k => if k.length = 17 ∨ k.length = 25 ∨ k.length = 33 then showR toHex (bpkiShareEnc k) else "invalid"
    | none => "bad-op"
  | ["edenc", e, salt, iter] => match parseHex e, parseHex salt, parseNat iter with
    | some e, some salt, some iter => if salt.length = 8 ∧ iter < W then showR toHex (bpkiEdataEnc e salt iter) else "invalid"
    | _, _, _ => "bad-op"
  | ["bpdec", x] => match parseHex x with
    | some x =>
      match bignParamsDec x with
      | .ok st =>
        match st.outs, st.nums with
        | [p, a, b, seed, yG, q], [len] =>
          s!"{len * 4} {toHex p} {toHex a} {toHex b} {toHex q} {toHex yG} {toHex seed} {b01 (bignIsOperable p a b q)}"
        | _, _ => "model-shape"
      | .err => "err:306"
      | .oob => "OOB"
    | none => "bad-op"
  | ["bpenc", l, p, a, b, q, yG, seed] =>
    match parseNat l, parseHex p, parseHex a, parseHex b, parseHex q, parseHex yG, parseHex seed with
    | some l, some p, some a, some b, some q, some yG, some seed =>
      if (l = 128 ∨ l = 192 ∨ l = 256) ∧ p.length = l / 4 ∧ a.length = l / 4 ∧ b.length = l / 4 ∧ q.length = l / 4 ∧
          yG.length = l / 4 ∧ seed.length = 8 then
        match bignParamsEncI p a b q yG seed with
        | .ok e => s!"{toHex e} {if bignIsOperable p a b q then "pub-ok" else "pub-refuses"}"
        | .err => "err"
        | .oob => "OOB"
      else "invalid"
    | _, _, _, _, _, _, _ => "bad-op"
  | ["cvcimg", x] => match parseHex x with
    | some x =>
      let r := cvcBodyDecS x
      let i := cvcImage r.2
      let hd := match r.1 with
        | .ok c => s!"{c}"
        | .err => "err"
        | .oob => "OOB"
      s!"{hd} {toHex i.authority} {toHex i.holder} {toHex i.pubkey} {i.pubkey_len} {toHex i.from_} {toHex i.until_} {toHex i.hat_eid} {toHex i.hat_esign} {toHex i.sig} {i.sig_len}"
    | none => "bad-op"
  | ["cvcuimg", x] => match parseHex x with
    | some x =>
      let r := cvcUnwrapS x
      let i := cvcImage r.2
      s!"{if r.1 then "parsed" else "badfmt"} {toHex i.authority} {toHex i.holder} {toHex i.pubkey} {i.pubkey_len} {toHex i.from_} {toHex i.until_} {toHex i.hat_eid} {toHex i.hat_esign} {toHex i.sig} {i.sig_len}"
    | none => "bad-op"
  | ["cvckimg", x, kl] => match parseHex x, kl.toNat? with
    | some x, some kl =>
      if kl ≠ 0 ∧ kl ≠ 48 ∧ kl ≠ 64 ∧ kl ≠ 96 ∧ kl ≠ 128 then "bad-op" else
      let i := cvcImage (cvcUnwrapKS x kl)
      s!"- {toHex i.authority} {toHex i.holder} {toHex i.pubkey} {i.pubkey_len} {toHex i.from_} {toHex i.until_} {toHex i.hat_eid} {toHex i.hat_esign} {toHex i.sig} {i.sig_len}"
    | _, _ => "bad-op"
  | _ => "bad-op"

end Bee2V.C08.Drv

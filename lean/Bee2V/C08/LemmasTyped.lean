/-
C08 — typed values on top of TLV: OCT, PSTR, SIZE, UINT, BIT — canonical form and round trips.
-/
import Bee2V.C08.LemmasTLV
namespace Bee2V.C08

theorem derDec2_parts (der : List UInt8) (hlen : der.length < W) (tag off len c : Nat)
    (h : derDec2 der tag = .ok (off, len, c)) :
    derDec der = .ok (tag, off, len, c) ∧ c = off + len ∧ c ≤ der.length := by
  rcases derDec2_cases der tag hlen with e | ⟨o, l, c', e, ed, _, _, hc, hl⟩
  · rw [e] at h; cases h
  · rw [e] at h; cases h; exact ⟨ed, hc, hl⟩

theorem derDec2_of_derDec (der : List UInt8) (tag off len c : Nat) (h : derDec der = .ok (tag, off, len, c)) :
    derDec2 der tag = .ok (off, len, c) := by
  unfold derDec2; rw [h]; simp

/-! ### OCT -/

theorem derTOCTDec_canonical' (der : List UInt8) (hlen : der.length < W) (tag : Nat) (v : List UInt8) (c : Nat)
    (h : derTOCTDec der tag = .ok (v, c)) : derEnc tag v = .ok (der.take c) := by
  unfold derTOCTDec at h
  rcases derDec2_cases der tag hlen with e | ⟨off, len, c', e, ed, _, _, hc, hl⟩
  · rw [e] at h; cases h
  · rw [e] at h; simp only [] at h
    rw [rdSlice_ok (by omega)] at h
    cases h
    exact derDec_canonical' der hlen tag off len c ed

theorem derTOCT_roundtrip' (tag : Nat) (val : List UInt8) (hv : derTIsValid tag = true) (hlt : tag < U32)
    (rest : List UInt8) (hlen : 13 + val.length + rest.length < W) :
    ∃ e, derEnc tag val = .ok e ∧ derTOCTDec (e ++ rest) tag = .ok (val, e.length) := by
  obtain ⟨e, he, hd, hs⟩ := derEnc_roundtrip' tag val hv hlt rest hlen
  refine ⟨e, he, ?_⟩
  unfold derTOCTDec
  rw [derDec2_of_derDec _ _ _ _ _ hd]; simp only []
  have hel : val.length ≤ e.length := by
    unfold derEnc at he; rw [derTEnc_ok tag hv] at he; cases he; simp; omega
  rw [rdSlice_ok (by simp; omega), hs]

/-! ### PSTR -/

theorem pstrLoop_all (der : List UInt8) (off l pos : Nat) (hb : off + l ≤ der.length) (hp : pos ≤ l)
    (h : pstrLoop der off l pos = .ok ()) :
    ((der.drop (off + pos)).take (l - pos)).all (fun c => isPrintable c.toNat) = true := by
  fun_induction pstrLoop der off l pos with
  | case1 pos hlt ch hr hpr ih =>
    obtain ⟨hi, hv⟩ := rd_ok hr
    have := ih (by omega) h
    have e : l - pos = (l - (pos + 1)) + 1 := by omega
    rw [List.drop_eq_getElem_cons hi, e, List.take_succ_cons, List.all_cons, ← hv, hpr, Bool.true_and]
    exact this
  | case2 pos hlt ch hr hpr => cases h
  | case3 pos hlt hr => cases h
  | case4 pos hlt hr => cases h
  | case5 pos hlt =>
    have : l - pos = 0 := by omega
    simp [this]

theorem derTPSTRDec_canonical' (der : List UInt8) (hlen : der.length < W) (tag : Nat) (v : List UInt8) (c : Nat)
    (h : derTPSTRDec der tag = .ok (v, c)) : derTPSTREnc tag v = .ok (der.take c) := by
  unfold derTPSTRDec at h
  rcases derDec2_cases der tag hlen with e | ⟨off, len, c', e, ed, _, _, hc, hl⟩
  · rw [e] at h; cases h
  · rw [e] at h; simp only [] at h
    rcases pstrLoop_cases der off len 0 (by omega) with e2 | e2
    · rw [e2] at h; cases h
    · rw [e2] at h; simp only [] at h
      rw [rdSlice_ok (by omega)] at h
      cases h
      have hall := pstrLoop_all der off len 0 (by omega) (by omega) e2
      simp only [Nat.add_zero, Nat.sub_zero] at hall
      unfold derTPSTREnc
      rw [hall]; simp only [Bool.not_true, Bool.false_eq_true, if_false]
      exact derDec_canonical' der hlen tag off len c ed

theorem pstrLoop_of_all (der : List UInt8) (off l pos : Nat) (hb : off + l ≤ der.length) (hp : pos ≤ l)
    (h : ((der.drop (off + pos)).take (l - pos)).all (fun c => isPrintable c.toNat) = true) :
    pstrLoop der off l pos = .ok () := by
  fun_induction pstrLoop der off l pos with
  | case1 pos hlt ch hr hpr ih =>
    obtain ⟨hi, hv⟩ := rd_ok hr
    have e : l - pos = (l - (pos + 1)) + 1 := by omega
    rw [List.drop_eq_getElem_cons hi, e, List.take_succ_cons, List.all_cons, Bool.and_eq_true] at h
    exact ih (by omega) h.2
  | case2 pos hlt ch hr hpr =>
    obtain ⟨hi, hv⟩ := rd_ok hr
    have e : l - pos = (l - (pos + 1)) + 1 := by omega
    rw [List.drop_eq_getElem_cons hi, e, List.take_succ_cons, List.all_cons, Bool.and_eq_true, ← hv] at h
    rw [h.1] at hpr; exact absurd rfl hpr
  | case3 pos hlt hr => exact absurd hr (rd_ne_err _ _)
  | case4 pos hlt hr => have := rd_oob hr; omega
  | case5 pos hlt => rfl

theorem derTPSTR_roundtrip' (tag : Nat) (val : List UInt8) (hp : val.all (fun c => isPrintable c.toNat) = true)
    (hv : derTIsValid tag = true) (hlt : tag < U32)
    (rest : List UInt8) (hlen : 13 + val.length + rest.length < W) :
    ∃ e, derTPSTREnc tag val = .ok e ∧ derTPSTRDec (e ++ rest) tag = .ok (val, e.length) := by
  obtain ⟨e, he, hd, hs⟩ := derEnc_roundtrip' tag val hv hlt rest hlen
  refine ⟨e, ?_, ?_⟩
  · unfold derTPSTREnc; rw [hp]; simpa using he
  · unfold derTPSTRDec
    rw [derDec2_of_derDec _ _ _ _ _ hd]; simp only []
    have hel : val.length ≤ e.length := by
      unfold derEnc at he; rw [derTEnc_ok tag hv] at he; cases he; simp; omega
    rw [pstrLoop_of_all _ _ _ 0 (by simp; omega) (by omega) (by simpa [hs] using hp)]; simp only []
    rw [rdSlice_ok (by simp; omega), hs]


/-! ### SIZE -/

theorem sizeLoop_eq (der : List UInt8) (len v pos : Nat) : sizeLoop der len v pos = lDecLoop der len v pos := by
  fun_induction sizeLoop der len v pos with
  | case1 v pos h b hb ih => rw [lDecLoop, dif_pos h, hb]; exact ih
  | case2 v pos h hb => exact absurd hb (rd_ne_err _ _)
  | case3 v pos h hb => rw [lDecLoop, dif_pos h, hb]
  | case4 v pos h => rw [lDecLoop, dif_neg h]

theorem sizeLen_small {v : Nat} (h : v < 256) : sizeLen v = 1 + v / 128 := by
  rw [sizeLen, dif_neg (by omega)]
theorem sizeLen_big {v : Nat} (h : v ≥ 256) : sizeLen v = 1 + sizeLen (v / 256) := by
  rw [sizeLen, dif_pos h]
theorem sizeLen_mul_add {v : Nat} (hv : v ≠ 0) (c : Nat) (hc : c < 256) : sizeLen (v * 256 + c) = 1 + sizeLen v := by
  rw [sizeLen_big (by omega)]
  congr 2; omega
theorem sizeLen_beVal (bs : List UInt8) (acc : Nat) (h : acc ≠ 0) : sizeLen (beVal bs acc) = sizeLen acc + bs.length := by
  induction bs generalizing acc with
  | nil => simp
  | cons b bs ih =>
    simp only [beVal_cons, List.length_cons]
    rw [ih _ (by have := UInt8.toNat_lt b; omega), sizeLen_mul_add h _ (UInt8.toNat_lt b)]
    omega

/-- what derTSIZEDec accepts -/
theorem derTSIZEDec_spec (der : List UInt8) (tag v c : Nat) (h : derTSIZEDec der tag = .ok (v, c)) :
    ∃ k k2 len, derTDec der = .ok (tag, k) ∧ derLDec (der.drop k) = .ok (len, k2) ∧ c = k + k2 + len ∧ c ≤ der.length ∧
      1 ≤ len ∧ len ≤ 9 ∧
      ∃ d0 tl, (der.drop (k + k2)).take len = d0 :: tl ∧ d0.toNat < 128 ∧
        (d0.toNat = 0 → len > 1 → ∃ d1 tl', tl = d1 :: tl' ∧ 128 ≤ d1.toNat) ∧ (len = 9 → d0.toNat = 0) ∧
        v = beVal (d0 :: tl) 0 % W := by
  unfold derTSIZEDec at h
  rcases derTDec_cases der with e | ⟨t, k, e, hk1, hk4, hkl⟩
  · rw [e] at h; cases h
  · rw [e] at h; simp only [] at h
    by_cases ht : t ≠ tag
    · rw [if_pos ht] at h; cases h
    · rw [if_neg ht] at h
      have ht' : t = tag := by omega
      subst ht'
      rcases derLDec_cases (der.drop k) with e2 | ⟨l, k2, e2, h1, h9, hl, hs⟩
      · rw [e2] at h; cases h
      · rw [e2] at h; simp only [] at h
        by_cases h3 : l = 0 ∨ l > 9
        · rw [if_pos h3] at h; cases h
        · rw [if_neg h3] at h
          rw [List.drop_drop] at h
          rw [List.length_drop] at hl
          have hlen2 : (der.drop (k + k2)).length = der.length - (k + k2) := List.length_drop
          by_cases h4 : l > (der.drop (k + k2)).length
          · rw [if_pos h4] at h; cases h
          · rw [if_neg h4] at h
            rw [hlen2] at h4
            have hi0 : k + k2 < der.length := by omega
            have hsl := slice_cons der (k + k2) (k + k2 + l) (by omega) (by omega)
            rw [Nat.add_sub_cancel_left] at hsl
            rw [rd_drop, Nat.add_zero, rd_of_lt hi0] at h; simp only [] at h
            obtain ⟨vv, ev, hvv, hlt⟩ := lDecLoop_val (der.drop (k + k2)) l 0 0 (by rw [hlen2]; omega) (by omega)
            rw [sizeLoop_eq, ev] at h; simp only [] at h
            have hc : (k + k2 + l) % W = k + k2 + l := Nat.mod_eq_of_lt (by omegaW)
            rw [hc] at h
            rw [List.drop_drop, Nat.add_zero, Nat.sub_zero] at hvv
            have hvW := hlt (by omegaW)
            rw [Nat.mod_eq_of_lt hvW, hsl] at hvv
            have fin : ∀ (bad : Bool), (if bad = true then (R.err : R (Nat × Nat)) else .ok (vv, k + k2 + l)) = .ok (v, c) →
                bad = false ∧ vv = v ∧ c = k + k2 + l := by
              intro bad hb
              cases bad
              · simp at hb; exact ⟨rfl, hb.1, hb.2.symm⟩
              · simp at hb
            by_cases h5 : der[k + k2].toNat ≥ 128
            · rw [if_pos h5] at h; simp only [] at h
              have := (fin true h).1; cases this
            · rw [if_neg h5] at h
              by_cases h6 : der[k + k2].toNat = 0 ∧ l > 1
              · rw [if_pos h6, rd_drop, rd_of_lt (show k + k2 + 1 < der.length by omega)] at h; simp only [] at h
                obtain ⟨hbad, hv1, hc1⟩ := fin _ h
                have hsl2 := slice_cons der (k + k2 + 1) (k + k2 + l) (by omega) (by omega)
                refine ⟨k, k2, l, e, e2, hc1, by omega, by omega, by omega, _, _, hsl, by omega, ?_, ?_, by rw [← hv1, hvv]⟩
                · intro _ _
                  refine ⟨_, _, hsl2, ?_⟩
                  simp at hbad; omega
                · intro _; exact h6.1
              · rw [if_neg h6] at h; simp only [] at h
                obtain ⟨hbad, hv1, hc1⟩ := fin _ h
                refine ⟨k, k2, l, e, e2, hc1, by omega, by omega, by omega, _, _, hsl, by omega, ?_, ?_, by rw [← hv1, hvv]⟩
                · intro hz hl1; exact absurd ⟨hz, hl1⟩ h6
                · intro h9'; simp at hbad; omega


theorem pow7 : (128 : Nat) * 256 ^ 7 = 9223372036854775808 := by decide

theorem derTSIZEDec_canonical' (der : List UInt8) (tag v c : Nat) (h : derTSIZEDec der tag = .ok (v, c)) :
    derTSIZEEnc tag v = .ok (der.take c) := by
  obtain ⟨k, k2, len, e1, e2, hc, hcl, hl1, hl9, d0, tl, hsl, hd0, hpad, h9, hv⟩ := derTSIZEDec_spec der tag v c h
  have hlen : ((der.drop (k + k2)).take len).length = len := by
    simp [List.length_take]; omega
  rw [hsl] at hlen
  simp only [List.length_cons] at hlen
  -- the value without reduction, its encoded length and octets
  have key : beVal (d0 :: tl) 0 < W ∧ sizeLen (beVal (d0 :: tl) 0) = len := by
    simp only [beVal_cons, Nat.zero_mul, Nat.zero_add]
    by_cases hz : d0.toNat = 0
    · by_cases hl : len > 1
      · obtain ⟨d1, tl', htl, hd1⟩ := hpad hz hl
        subst htl
        simp only [List.length_cons] at hlen
        rw [hz, beVal_cons, Nat.zero_mul, Nat.zero_add]
        have hb1 := UInt8.toNat_lt d1
        constructor
        · have hb := beVal_lt tl' d1.toNat
          have hp : 256 ^ tl'.length ≤ 256 ^ 7 := Nat.pow_le_pow_right (by omega) (by omega)
          have : (d1.toNat + 1) * 256 ^ tl'.length ≤ 256 * 256 ^ 7 := Nat.mul_le_mul (by omega) hp
          have e8 : (256 : Nat) * 256 ^ 7 = W := by decide
          omega
        · rw [sizeLen_beVal _ _ (by omega), sizeLen_small hb1]; omega
      · have : tl = [] := by
          cases tl with
          | nil => rfl
          | cons _ _ => simp at hlen; omega
        subst this
        rw [hz]; simp only [beVal_nil]
        exact ⟨by omegaW, by rw [sizeLen_small (by omega)]; simp at hlen; omega⟩
    · have hlt9 : len ≠ 9 := fun h => hz (h9 h)
      constructor
      · have hb := beVal_lt tl d0.toNat
        have hp : 256 ^ tl.length ≤ 256 ^ 7 := Nat.pow_le_pow_right (by omega) (by omega)
        have : (d0.toNat + 1) * 256 ^ tl.length ≤ 128 * 256 ^ 7 := Nat.mul_le_mul (by omega) hp
        rw [pow7] at this
        omegaW
      · rw [sizeLen_beVal _ _ hz, sizeLen_small (by omega)]; omega
  rw [Nat.mod_eq_of_lt key.1] at hv
  have hbe : beBytes len v = (der.drop (k + k2)).take len := by
    rw [hsl, hv]
    exact beBytes_beVal' len (d0 :: tl) (by simp; omega)
  unfold derTSIZEEnc
  rw [derTDec_canonical' der tag k e1]; simp only []
  rw [hv, key.2, ← hv, hbe, derLDec_canonical' _ len k2 e2, hc, List.take_add, List.take_add]


/-- sizeLen v is the least n ≥ 1 with v < 2^(8n-1) -/
theorem sizeLen_spec (v : Nat) : 1 ≤ sizeLen v ∧ v < 128 * 256 ^ (sizeLen v - 1) ∧
    (sizeLen v > 1 → 128 * 256 ^ (sizeLen v - 2) ≤ v) := by
  induction v using Nat.strongRecOn with
  | _ v ih =>
    by_cases h : v ≥ 256
    · rw [sizeLen_big h]
      obtain ⟨h1, h2, h3⟩ := ih (v / 256) (by omega)
      refine ⟨by omega, ?_, fun _ => ?_⟩
      · have e : 1 + sizeLen (v / 256) - 1 = (sizeLen (v / 256) - 1) + 1 := by omega
        rw [e, Nat.pow_succ]
        have : v / 256 < 128 * 256 ^ (sizeLen (v / 256) - 1) := h2
        omega
      · by_cases hs : sizeLen (v / 256) > 1
        · have := h3 hs
          have e : 1 + sizeLen (v / 256) - 2 = (sizeLen (v / 256) - 2) + 1 := by omega
          rw [e, Nat.pow_succ]
          omega
        · have e : 1 + sizeLen (v / 256) - 2 = 0 := by omega
          rw [e]; simp; omega
    · rw [sizeLen_small (by omega)]
      by_cases h2 : v < 128
      · have : v / 128 = 0 := by omega
        rw [this]; simp; omega
      · have : v / 128 = 1 := by omega
        rw [this]; simp; omega

theorem sizeLen_le9 {v : Nat} (h : v < W) : sizeLen v ≤ 9 := by
  obtain ⟨_, _, h3⟩ := sizeLen_spec v
  apply Classical.byContradiction
  intro hc
  have := h3 (by omega)
  have hp : 256 ^ 8 ≤ 256 ^ (sizeLen v - 2) := Nat.pow_le_pow_right (by omega) (by omega)
  rw [pow8] at hp
  omega

/-- the octets derTSIZEEnc writes for v: first octet < 128, padded with 00 only before an octet ≥ 128 -/
theorem sizeBytes_spec (v : Nat) (hv : v < W) :
    ∃ d0 tl, beBytes (sizeLen v) v = d0 :: tl ∧ d0.toNat < 128 ∧
      (d0.toNat = 0 → sizeLen v > 1 → ∃ d1 tl', tl = d1 :: tl' ∧ 128 ≤ d1.toNat) ∧ (sizeLen v = 9 → d0.toNat = 0) ∧
      beVal (beBytes (sizeLen v) v) 0 = v := by
  obtain ⟨h1, h2, h3⟩ := sizeLen_spec v
  generalize hn : sizeLen v = n at *
  obtain ⟨m, rfl⟩ : ∃ m, n = m + 1 := ⟨n - 1, by omega⟩
  simp only [Nat.add_sub_cancel] at h2
  have hpos : 0 < 256 ^ m := Nat.pow_pos (by omega)
  have hd0 : v / 256 ^ m < 128 := by rw [Nat.div_lt_iff_lt_mul hpos]; omega
  have hval : beVal (beBytes (m + 1) v) 0 = v := by
    rw [beVal_beBytes, Nat.mod_eq_of_lt]
    rw [Nat.pow_succ]; omega
  refine ⟨oct (v / 256 ^ m), beBytes m v, beBytes_succ_cons m v, ?_, ?_, ?_, hval⟩
  · rw [toNat_oct, Nat.mod_eq_of_lt (Nat.lt_trans hd0 (by decide))]; exact hd0
  · intro hz hgt
    rw [toNat_oct, Nat.mod_eq_of_lt (Nat.lt_trans hd0 (by decide))] at hz
    obtain ⟨j, rfl⟩ : ∃ j, m = j + 1 := ⟨m - 1, by omega⟩
    refine ⟨oct (v / 256 ^ j), beBytes j v, beBytes_succ_cons j v, ?_⟩
    have hlo := h3 (by omega)
    simp only [show j + 1 + 1 - 2 = j by omega] at hlo
    have hposj : 0 < 256 ^ j := Nat.pow_pos (by omega)
    have hvlt : v < 256 ^ (j + 1) := by
      have := (Nat.div_eq_zero_iff_lt hpos).mp hz
      exact this
    have hq : v / 256 ^ j < 256 := by
      rw [Nat.div_lt_iff_lt_mul hposj]; rw [Nat.pow_succ, Nat.mul_comm] at hvlt; exact hvlt
    have hq2 : 128 ≤ v / 256 ^ j := by rw [Nat.le_div_iff_mul_le hposj]; omega
    rw [toNat_oct, Nat.mod_eq_of_lt hq]; exact hq2
  · intro h9
    have : m = 8 := by omega
    subst this
    rw [toNat_oct, pow8, (Nat.div_eq_zero_iff_lt (by omegaW)).mpr hv]


theorem drop_left' (xs ys : List UInt8) (n : Nat) (h : xs.length = n) : (xs ++ ys).drop n = ys := by
  subst h; simp

theorem derLEnc_le9 (l : Nat) (h : l < W) : 1 ≤ (derLEnc l).length ∧ (derLEnc l).length ≤ 9 := by
  rw [derLEnc_length]; split
  · omega
  · have := octLen_le8 h; omega

theorem derTSIZE_roundtrip' (tag v : Nat) (hv : derTIsValid tag = true) (hlt : tag < U32) (hvW : v < W)
    (rest : List UInt8) :
    ∃ e, derTSIZEEnc tag v = .ok e ∧ derTSIZEDec (e ++ rest) tag = .ok (v, e.length) := by
  have hn9 := sizeLen_le9 hvW
  obtain ⟨hn1, _, _⟩ := sizeLen_spec v
  obtain ⟨d0, tl, hB, hd0, hpad, h9, hval⟩ := sizeBytes_spec v hvW
  have h4 := tCount_le4 tag hlt
  have hL := derLEnc_le9 (sizeLen v) (by omegaW)
  refine ⟨beBytes (tCount tag) tag ++ derLEnc (sizeLen v) ++ beBytes (sizeLen v) v, ?_, ?_⟩
  · unfold derTSIZEEnc; rw [derTEnc_ok tag hv]
  · unfold derTSIZEDec
    have e1 : beBytes (tCount tag) tag ++ derLEnc (sizeLen v) ++ beBytes (sizeLen v) v ++ rest =
        beBytes (tCount tag) tag ++ (derLEnc (sizeLen v) ++ (beBytes (sizeLen v) v ++ rest)) := by simp
    rw [e1, derT_roundtrip' tag hv hlt]; simp only []
    rw [if_neg (by omega), drop_left' _ _ _ (beBytes_length _ _), derL_roundtrip' (sizeLen v) (by omegaW)]; simp only []
    rw [if_neg (by omega), drop_left' _ _ _ rfl]
    have hBl : (beBytes (sizeLen v) v ++ rest).length = sizeLen v + rest.length := by simp [beBytes_length]
    rw [hBl, if_neg (by omega)]
    have hr0 : rd (beBytes (sizeLen v) v ++ rest) 0 = .ok d0.toNat := by rw [hB]; simp [rd]
    rw [hr0]; simp only []
    -- value loop
    obtain ⟨vv, ev, hvv, hvlt⟩ := lDecLoop_val (beBytes (sizeLen v) v ++ rest) (sizeLen v) 0 0 (by rw [hBl]; omega) (by omega)
    have hsl : (List.drop 0 (beBytes (sizeLen v) v ++ rest)).take (sizeLen v - 0) = beBytes (sizeLen v) v := by
      simp only [List.drop_zero, Nat.sub_zero]
      rw [List.take_append_of_le_length (by rw [beBytes_length]; exact Nat.le_refl _),
        List.take_of_length_le (by rw [beBytes_length]; exact Nat.le_refl _)]
    rw [hsl, hval, Nat.mod_eq_of_lt (hvlt (by omegaW)), Nat.mod_eq_of_lt hvW] at hvv
    subst hvv
    rw [sizeLoop_eq, ev]
    have hcnt : (tCount tag + (derLEnc (sizeLen vv)).length + sizeLen vv) % W =
        (beBytes (tCount tag) tag ++ derLEnc (sizeLen vv) ++ beBytes (sizeLen vv) vv).length := by
      rw [Nat.mod_eq_of_lt (by omegaW)]; simp [beBytes_length]; omega
    rw [hcnt]
    rw [if_neg (by omega)]
    by_cases hz : d0.toNat = 0 ∧ sizeLen vv > 1
    · obtain ⟨d1, tl', htl, hd1⟩ := hpad hz.1 hz.2
      have hr1 : rd (beBytes (sizeLen vv) vv ++ rest) 1 = .ok d1.toNat := by rw [hB, htl]; simp [rd]
      rw [if_pos hz, hr1]; simp only []
      have hb : decide (d1.toNat < 128 ∨ sizeLen vv = 9 ∧ d0.toNat ≠ 0) = false := by
        simp; omega
      rw [hb]; simp
    · rw [if_neg hz]; simp only []
      have hb : decide (sizeLen vv = 9 ∧ d0.toNat ≠ 0) = false := by
        simp; intro h; exact h9 h
      rw [hb]; simp


/-! ### UINT -/

theorem uintStrip_keep (val : List UInt8) (n : Nat) (h : n ≤ 1 ∨ val[n - 1]? ≠ some 0) : uintStrip val n = n := by
  cases n with
  | zero => rfl
  | succ m =>
    unfold uintStrip
    rw [if_neg]
    intro hc
    rcases h with h | h
    · omega
    · exact h (by simpa using hc.2)

/-- derTUINTEnc on a value given most-significant-octet first (x :: vt), x ≠ 0 unless it is the only octet -/
theorem uintEnc_rev (tag : Nat) (x : UInt8) (vt : List UInt8) (hx : x.toNat ≠ 0 ∨ vt = []) :
    derTUINTEnc tag ((x :: vt).reverse) =
      match derTLEnc tag ((vt.length + 1 + (if x.toNat ≥ 128 then 1 else 0)) % W) with
      | .ok tl => .ok (tl ++ ((if x.toNat ≥ 128 then [0] else []) ++ x :: vt))
      | .err => .err
      | .oob => .oob := by
  unfold derTUINTEnc
  have hlen : ((x :: vt).reverse).length = vt.length + 1 := by simp
  have hget : ((x :: vt).reverse)[vt.length]? = some x := by
    simp [List.reverse_cons, List.getElem?_append_right]
  rw [hlen, if_neg (by omega)]
  have hstrip : uintStrip ((x :: vt).reverse) (vt.length + 1) = vt.length + 1 := by
    apply uintStrip_keep
    rcases hx with h | h
    · right; simp only [Nat.add_sub_cancel]; rw [hget]
      intro hc; injection hc with hc; rw [hc] at h; exact h rfl
    · left; subst h; simp
  simp only [hstrip, Nat.add_sub_cancel, hget]
  cases hT : derTLEnc tag ((vt.length + 1 + (if x.toNat ≥ 128 then 1 else 0)) % W) with
  | ok tl =>
    simp only []
    congr 2
    have ht : List.take (vt.length + 1) (x :: vt).reverse = (x :: vt).reverse := List.take_of_length_le (by simp)
    rw [ht]
    by_cases hb : x.toNat ≥ 128
    · simp [hb]
    · simp [hb]
  | err => rfl
  | oob => rfl

theorem uintCore_spec (der : List UInt8) (hlen : der.length < W) (tag off l ex c : Nat)
    (h : uintCore der tag = .ok (off, l, ex, c)) :
    derDec der = .ok (tag, off, l, c) ∧ c = off + l ∧ c ≤ der.length ∧ 1 ≤ l ∧
    ∃ d0, rd der off = .ok d0 ∧ d0 < 128 ∧
      ((ex = 0 ∧ (d0 ≠ 0 ∨ l = 1)) ∨ (ex = 1 ∧ d0 = 0 ∧ l > 1 ∧ ∃ d1, rd der (off + 1) = .ok d1 ∧ 128 ≤ d1)) := by
  unfold uintCore at h
  rcases derDec2_cases der tag hlen with e | ⟨o, len, c', e, ed, h2, h13, hc, hl⟩
  · rw [e] at h; cases h
  · rw [e] at h; simp only [] at h
    by_cases h1 : len < 1
    · rw [if_pos h1] at h; cases h
    · have hr := rd_of_lt (xs := der) (i := o) (by omega)
      generalize der[o].toNat = d0 at hr
      rw [if_neg h1, hr] at h; simp only [] at h
      by_cases h2 : d0 ≥ 128
      · rw [if_pos h2] at h; cases h
      · rw [if_neg h2] at h
        by_cases h3 : d0 = 0 ∧ len > 1
        · have hr1 := rd_of_lt (xs := der) (i := o + 1) (by omega)
          generalize der[o + 1].toNat = d1 at hr1
          rw [if_pos h3, hr1] at h; simp only [] at h
          by_cases h4 : d1 < 128
          · rw [if_pos h4] at h; cases h
          · rw [if_neg h4] at h; cases h
            exact ⟨ed, hc, hl, by omega, d0, hr, by omega, Or.inr ⟨rfl, h3.1, h3.2, d1, hr1, by omega⟩⟩
        · rw [if_neg h3] at h; cases h
          exact ⟨ed, hc, hl, by omega, d0, hr, by omega, Or.inl ⟨rfl, by omega⟩⟩


theorem toNat_zero_eq (x : UInt8) (h : x.toNat = 0) : x = 0 := by
  have := UInt8.ofNat_toNat (x := x); rw [h] at this; exact this.symm

set_option maxRecDepth 4000 in
/-- CANONICAL (UINT) -/
theorem derTUINTDec_canonical' (der : List UInt8) (hlen : der.length < W) (tag : Nat) (w : List UInt8) (c : Nat)
    (h : derTUINTDec der tag = .ok (w, c)) : derTUINTEnc tag w = .ok (der.take c) := by
  unfold derTUINTDec at h
  rcases uintCore_cases der tag hlen with e | ⟨off, l, ex, c', e, _, _, _, _, _⟩
  · rw [e] at h; cases h
  · obtain ⟨ed, hc, hcl, hl1, d0, hr0, hd0, hex⟩ := uintCore_spec der hlen tag off l ex c' e
    rw [e] at h; simp only [] at h
    have hexle : ex ≤ 1 ∧ ex < l := by rcases hex with ⟨h1, _⟩ | ⟨h1, _, h2, _⟩ <;> omega
    rw [rdSlice_ok (by omega)] at h
    cases h
    obtain ⟨htl, _, _⟩ := derDec_parts der hlen tag off l c ed
    have hcanTL := derTLDec_canonical' der tag l off htl
    have hi : off + ex < der.length := by omega
    have hv0 : (der.drop (off + ex)).take (l - ex) = der[off + ex] :: (der.drop (off + ex + 1)).take (l - ex - 1) := by
      have := slice_cons der (off + ex) (off + ex + (l - ex)) (by omega) (by omega)
      rw [Nat.add_sub_cancel_left] at this
      rw [this]; congr 2; omega
    have hvtl : ((der.drop (off + ex + 1)).take (l - ex - 1)).length = l - ex - 1 := by simp [List.length_take]; omega
    have hf : (der[off + ex].toNat ≠ 0 ∨ l - ex = 1) ∧ ((der[off + ex].toNat ≥ 128) ↔ ex = 1) := by
      rcases hex with ⟨hx, hnz⟩ | ⟨hx, hz, hgt, d1, hr1, hd1⟩
      · subst hx
        obtain ⟨_, hv⟩ := rd_ok hr0
        simp only [Nat.add_zero] at *
        rw [← hv]; exact ⟨by omega, by omega⟩
      · subst hx
        obtain ⟨_, hv⟩ := rd_ok hr1
        rw [← hv]; exact ⟨by omega, by omega⟩
    rw [hv0, uintEnc_rev tag _ _ (by
      rcases hf.1 with h | h
      · exact Or.inl h
      · right; apply List.eq_nil_of_length_eq_zero; rw [hvtl]; omega)]
    have hexv : (if der[off + ex].toNat ≥ 128 then 1 else 0) = ex := by
      by_cases hb : der[off + ex].toNat ≥ 128
      · rw [if_pos hb]; exact (hf.2.mp hb).symm
      · rw [if_neg hb]; have : ¬ ex = 1 := fun h => hb (hf.2.mpr h); omega
    rw [hexv, hvtl, show (l - ex - 1 + 1 + ex) % W = l from by rw [Nat.mod_eq_of_lt (by omega)]; omega, hcanTL]
    simp only []
    congr 1
    rw [hc, List.take_add, ← hv0]
    congr 1
    rcases hex with ⟨hx, _⟩ | ⟨hx, hz, hgt, _⟩
    · subst hx
      have hb : ¬ der[off + 0].toNat ≥ 128 := by rw [hf.2]; omega
      rw [if_neg hb]; simp
    · subst hx
      have hb : der[off + 1].toNat ≥ 128 := hf.2.mpr rfl
      rw [if_pos hb]
      have := slice_cons der off (off + l) (by omega) (by omega)
      rw [Nat.add_sub_cancel_left] at this
      rw [this]
      obtain ⟨_, hv⟩ := rd_ok hr0
      have h0 : der[off] = 0 := toNat_zero_eq _ (by rw [← hv]; exact hz)
      rw [h0]
      simp only [List.cons_append, List.nil_append]
      congr 2
      omega


theorem uintStrip_spec (val : List UInt8) (n : Nat) (hn : 1 ≤ n) (hl : n ≤ val.length) :
    1 ≤ uintStrip val n ∧ uintStrip val n ≤ n ∧ (uintStrip val n = 1 ∨ val[uintStrip val n - 1]? ≠ some 0) := by
  induction n with
  | zero => omega
  | succ m ih =>
    unfold uintStrip
    by_cases hc : m + 1 > 1 ∧ val[m]? = some 0
    · rw [if_pos hc]
      have := ih (by omega) (by omega)
      exact ⟨this.1, by omega, this.2.2⟩
    · rw [if_neg hc]
      refine ⟨by omega, by omega, ?_⟩
      by_cases hm : m = 0
      · left; omega
      · right; simp only [Nat.add_sub_cancel]
        intro h; exact hc ⟨by omega, h⟩

/-- the value octets derTUINTEnc writes (most significant first, 00 in front if the high bit is set) -/
def uintBody (val : List UInt8) : List UInt8 :=
  let s := uintStrip val val.length
  match val[s - 1]? with
  | some top => ((val.take s) ++ (if top.toNat ≥ 128 then [0] else [])).reverse
  | none => []

theorem derTUINTEnc_eq (tag : Nat) (val : List UInt8) (hne : val ≠ []) (hW : val.length + 1 < W) :
    derTUINTEnc tag val = derEnc tag (uintBody val) := by
  have hl : 1 ≤ val.length := by
    cases val with
    | nil => exact absurd rfl hne
    | cons _ _ => simp
  obtain ⟨s1, s2, _⟩ := uintStrip_spec val val.length hl (Nat.le_refl _)
  unfold derTUINTEnc uintBody
  rw [if_neg (by omega)]
  have hi : uintStrip val val.length - 1 < val.length := by omega
  simp only [List.getElem?_eq_getElem hi]
  unfold derTLEnc derEnc
  cases hT : derTEnc tag with
  | ok t =>
    simp only []
    by_cases hb : val[uintStrip val val.length - 1].toNat ≥ 128
    · simp only [hb, if_true]
      have hlen : ((val.take (uintStrip val val.length)) ++ [0]).reverse.length = uintStrip val val.length + 1 := by
        rw [List.length_reverse, List.length_append, List.length_take, Nat.min_eq_left s2]; simp
      rw [hlen, Nat.mod_eq_of_lt (by omega)]
    · simp only [hb, if_false]
      have hlen : ((val.take (uintStrip val val.length)) ++ []).reverse.length = uintStrip val val.length := by
        rw [List.length_reverse, List.length_append, List.length_take, Nat.min_eq_left s2]; simp
      rw [hlen, Nat.add_zero, Nat.mod_eq_of_lt (by omega)]
      simp
  | err => rfl
  | oob => rfl


theorem slice_rd (xs ys : List UInt8) (a n i : Nat) (h : (xs.drop a).take n = ys) (hi : i < ys.length) :
    rd xs (a + i) = .ok ys[i].toNat := by
  have : ys[i]? = xs[a + i]? := by
    rw [← h, List.getElem?_take]
    have hl : i < n := by
      rw [← h] at hi; simp [List.length_take] at hi; omega
    rw [if_pos hl, List.getElem?_drop]
  unfold rd
  rw [← this, List.getElem?_eq_getElem hi]

theorem slice_drop (xs ys : List UInt8) (a n j : Nat) (h : (xs.drop a).take n = ys) :
    (xs.drop (a + j)).take (n - j) = ys.drop j := by
  rw [← h, List.drop_take, List.drop_drop]

theorem take_reverse_cons (val : List UInt8) (s : Nat) (h1 : 1 ≤ s) (h2 : s ≤ val.length) :
    (val.take s).reverse = val[s - 1] :: (val.take (s - 1)).reverse := by
  obtain ⟨m, rfl⟩ : ∃ m, s = m + 1 := ⟨s - 1, by omega⟩
  simp only [Nat.add_sub_cancel]
  rw [List.take_add_one, List.getElem?_eq_getElem (by omega)]
  simp

set_option maxRecDepth 4000 in
theorem derTUINT_roundtrip' (tag : Nat) (val : List UInt8) (hne : val ≠ []) (hv : derTIsValid tag = true)
    (hlt : tag < U32) (rest : List UInt8) (hlen : 15 + val.length + rest.length < W) :
    ∃ e, derTUINTEnc tag val = .ok e ∧
      derTUINTDec (e ++ rest) tag = .ok (val.take (uintStrip val val.length), e.length) := by
  have hl : 1 ≤ val.length := by
    cases val with
    | nil => exact absurd rfl hne
    | cons _ _ => simp
  obtain ⟨s1, s2, s3⟩ := uintStrip_spec val val.length hl (Nat.le_refl _)
  generalize hs : uintStrip val val.length = s at *
  have hi : s - 1 < val.length := by omega
  -- the body
  have hbody : uintBody val = (if val[s - 1].toNat ≥ 128 then [0] else []) ++ val[s - 1] :: (val.take (s - 1)).reverse := by
    unfold uintBody
    simp only [hs, List.getElem?_eq_getElem hi]
    rw [List.reverse_append, take_reverse_cons val s s1 s2]
    split <;> simp
  have hblen : (uintBody val).length ≤ val.length + 1 := by
    rw [hbody]; simp only [List.length_append, List.length_cons, List.length_reverse, List.length_take]
    split <;> simp <;> omega
  obtain ⟨e, he, hd, hsl⟩ := derEnc_roundtrip' tag (uintBody val) hv hlt rest (by omega)
  refine ⟨e, by rw [derTUINTEnc_eq tag val hne (by omega)]; exact he, ?_⟩
  have hel : (uintBody val).length ≤ e.length := by
    unfold derEnc at he; rw [derTEnc_ok tag hv] at he; cases he; simp; omega
  have hnz : val[s - 1].toNat ≠ 0 ∨ s = 1 := by
    rcases s3 with h | h
    · right; exact h
    · left; intro hc; apply h
      rw [List.getElem?_eq_getElem hi, toNat_zero_eq _ hc]
  generalize hoff : e.length - (uintBody val).length = off at *
  unfold derTUINTDec uintCore
  rw [derDec2_of_derDec _ _ _ _ _ hd]; simp only []
  have hb1 : 1 ≤ (uintBody val).length := by rw [hbody]; simp; omega
  rw [if_neg (by omega)]
  by_cases hb : val[s - 1].toNat ≥ 128
  · -- padded
    rw [if_pos hb] at hbody
    have r0 := slice_rd _ _ off _ 0 hsl (by omega)
    have r1 := slice_rd _ _ off _ 1 hsl (by rw [hbody]; simp)
    simp only [hbody, List.cons_append, List.nil_append, List.getElem_cons_zero, List.getElem_cons_succ, Nat.add_zero] at r0 r1
    rw [r0]; simp only []
    rw [if_neg (by decide), if_pos (by refine ⟨by decide, ?_⟩; rw [hbody]; simp), r1]; simp only []
    rw [if_neg (by omega)]; simp only []
    have hsd := slice_drop _ _ off _ 1 hsl
    rw [rdSlice_ok (by simp; omega), hsd, hbody]
    simp only [List.cons_append, List.nil_append, List.drop_succ_cons, List.drop_zero]
    rw [← take_reverse_cons val s s1 s2, List.reverse_reverse]
  · rw [if_neg hb] at hbody
    have r0 := slice_rd _ _ off _ 0 hsl (by omega)
    simp only [hbody, List.nil_append, List.getElem_cons_zero, Nat.add_zero] at r0
    rw [r0]; simp only []
    rw [if_neg hb]
    have hno : ¬ (val[s - 1].toNat = 0 ∧ (uintBody val).length > 1) := by
      intro ⟨hz, hg⟩
      rcases hnz with h | h
      · exact h hz
      · subst h; rw [hbody] at hg; simp at hg
    rw [if_neg hno]; simp only []
    rw [Nat.add_zero, Nat.sub_zero, rdSlice_ok (by simp; omega), hsl, hbody]
    simp only [List.nil_append]
    rw [← take_reverse_cons val s s1 s2, List.reverse_reverse]


/-! ### BIT -/

theorem bitCore_spec (der : List UInt8) (hlen : der.length < W) (tag off l v0 c : Nat)
    (h : bitCore der tag = .ok (off, l, v0, c)) :
    derDec der = .ok (tag, off, l, c) ∧ c = off + l ∧ c ≤ der.length ∧ 1 ≤ l ∧ rd der off = .ok v0 ∧ v0 ≤ 7 ∧
      (v0 ≠ 0 → l > 1) ∧ ∃ last, rd der (off + (l - 1)) = .ok last ∧ last % 2 ^ v0 = 0 := by
  unfold bitCore at h
  rcases derDec2_cases der tag hlen with e | ⟨o, len, c', e, ed, h2, h13, hc, hl⟩
  · rw [e] at h; cases h
  · rw [e] at h; simp only [] at h
    by_cases h1 : len < 1
    · rw [if_pos h1] at h; cases h
    · have hr := rd_of_lt (xs := der) (i := o) (by omega)
      generalize der[o].toNat = d0 at hr
      rw [if_neg h1, hr] at h; simp only [] at h
      by_cases h2 : d0 > 7 ∨ (d0 ≠ 0 ∧ len = 1)
      · rw [if_pos h2] at h; cases h
      · have hr2 := rd_of_lt (xs := der) (i := o + (len - 1)) (by omega)
        generalize der[o + (len - 1)].toNat = dl at hr2
        rw [if_neg h2, hr2] at h; simp only [] at h
        by_cases h3 : dl % 2 ^ d0 ≠ 0
        · rw [if_pos h3] at h; cases h
        · rw [if_neg h3] at h; cases h
          exact ⟨ed, hc, hl, by omega, hr, by omega, by omega, dl, hr2, by omega⟩

theorem take_dropLast_snoc (v : List UInt8) (m : Nat) (h : v.length = m + 1) :
    v.take m ++ [v[m]'(by omega)] = v := by
  have := List.take_add_one (l := v) (i := m)
  rw [List.getElem?_eq_getElem (by omega)] at this
  simp only [Option.toList_some] at this
  rw [← this]
  exact List.take_of_length_le (by omega)

set_option maxRecDepth 4000 in
/-- CANONICAL (BIT): requires fix-2 (unused bits are zero) -/
theorem derTBITDec_canonical' (der : List UInt8) (hlen : der.length * 8 + 16 < W) (tag : Nat) (v : List UInt8)
    (bl c : Nat) (h : derTBITDec der tag = .ok (v, bl, c)) : derTBITEnc tag v bl = .ok (der.take c) := by
  have hlenW : der.length < W := by omega
  unfold derTBITDec at h
  rcases bitCore_cases der tag hlenW with e | ⟨off, l, v0, c', e, _, _, _, _, _⟩
  · rw [e] at h; cases h
  · obtain ⟨ed, hc, hcl, hl1, hr0, hv7, hv0l, last, hrl, hlast⟩ := bitCore_spec der hlenW tag off l v0 c' e
    rw [e] at h; simp only [] at h
    rw [rdSlice_ok (by omega)] at h
    cases h
    obtain ⟨htl, _, _⟩ := derDec_parts der hlenW tag off l c ed
    have hcanTL := derTLDec_canonical' der tag l off htl
    have hvlen : ((der.drop (off + 1)).take (l - 1)).length = l - 1 := by simp [List.length_take]; omega
    have hbl : ((l - 1) * 8 + W - v0) % W = (l - 1) * 8 - v0 := by
      have : (l - 1) * 8 + W - v0 = ((l - 1) * 8 - v0) + W := by omega
      rw [this, Nat.add_mod_right]; exact Nat.mod_eq_of_lt (by omega)
    rw [hbl]
    obtain ⟨hi0, hv0⟩ := rd_ok hr0
    have hbody0 := slice_cons der off (off + l) (by omega) (by omega)
    rw [Nat.add_sub_cancel_left, show off + l - (off + 1) = l - 1 by omega] at hbody0
    unfold derTBITEnc
    unfold derTLEnc at hcanTL
    cases hT : derTEnc tag with
    | ok t =>
      rw [hT] at hcanTL; simp only [] at hcanTL ⊢
      injection hcanTL with hcanTL
      have hn : ((l - 1) * 8 - v0 + 7) % W / 8 = l - 1 := by rw [Nat.mod_eq_of_lt (by omega)]; omega
      have hvl : ((l - 1) * 8 - v0 + 15) % W / 8 = l := by rw [Nat.mod_eq_of_lt (by omega)]; omega
      rw [hn, hvl, rdSlice_ok (by rw [hvlen]; omega)]; simp only []
      have htk : List.take (l - 1) (List.drop 0 (List.take (l - 1) (List.drop (off + 1) der))) = (der.drop (off + 1)).take (l - 1) := by
        rw [List.drop_zero]; exact List.take_of_length_le (by rw [hvlen]; exact Nat.le_refl _)
      rw [htk]
      by_cases hz : v0 = 0
      · subst hz
        rw [if_neg (by omega)]; simp only []
        rw [hc, List.take_add, hbody0, ← hcanTL]
        have : der[off] = 0 := toNat_zero_eq _ hv0.symm
        rw [this]
      · have hl2 := hv0l hz
        have hmod : ((l - 1) * 8 - v0) % 8 = 8 - v0 := by omega
        have hdiv : ((l - 1) * 8 - v0) / 8 = l - 2 := by omega
        rw [if_pos (by omega), hdiv]
        have hget : ((der.drop (off + 1)).take (l - 1))[l - 2]? = some (der[off + (l - 1)]'(by omega)) := by
          rw [List.getElem?_take, if_pos (by omega), List.getElem?_drop, List.getElem?_eq_getElem (by omega)]
          congr 2; omega
        rw [hget]; simp only []
        rw [hmod]
        obtain ⟨_, hlv⟩ := rd_ok hrl
        have hmask : maskHi (der[off + (l - 1)]'(by omega)) (8 - v0) = der[off + (l - 1)]'(by omega) := by
          unfold maskHi
          rw [show 8 - (8 - v0) = v0 by omega, ← hlv, Nat.div_mul_cancel (Nat.dvd_of_mod_eq_zero hlast), hlv, oct_toNat]
        rw [hmask]
        have hsn : List.take (l - 2) ((der.drop (off + 1)).take (l - 1)) ++ [der[off + (l - 1)]'(by omega)] =
            (der.drop (off + 1)).take (l - 1) := by
          have := take_dropLast_snoc ((der.drop (off + 1)).take (l - 1)) (l - 2) (by rw [hvlen]; omega)
          rw [← this]
          congr 2
          rw [List.getElem_take, List.getElem_drop]
          congr 1; omega
        rw [hsn, show 8 - (8 - v0) = v0 by omega, hc, List.take_add, hbody0, ← hcanTL, hv0, oct_toNat]
    | err => rw [hT] at hcanTL; cases hcanTL
    | oob => rw [hT] at hcanTL; cases hcanTL


/-- the bit string as it is written: unused bits of the last octet cleared -/
def bitClean (val : List UInt8) (len : Nat) : List UInt8 :=
  if len % 8 ≠ 0 then
    match val[len / 8]? with
    | some o => val.take (len / 8) ++ [maskHi o (len % 8)]
    | none => val
  else val

theorem bitClean_length (val : List UInt8) (len : Nat) (hvl : val.length = (len + 7) / 8) :
    (bitClean val len).length = val.length := by
  unfold bitClean
  split
  · have hi : len / 8 < val.length := by omega
    rw [List.getElem?_eq_getElem hi]; simp [List.length_take]; omega
  · rfl

theorem maskHi_toNat (o : UInt8) (k : Nat) :
    (maskHi o k).toNat = o.toNat / 2 ^ (8 - k) * 2 ^ (8 - k) := by
  unfold maskHi
  rw [toNat_oct, Nat.mod_eq_of_lt]
  have := Nat.div_mul_le_self o.toNat (2 ^ (8 - k))
  have := UInt8.toNat_lt o
  omega

theorem derTBITEnc_eq (tag : Nat) (val : List UInt8) (len : Nat) (hvl : val.length = (len + 7) / 8) (hl : len + 15 < W) :
    derTBITEnc tag val len =
      derEnc tag ((if len % 8 ≠ 0 then oct (8 - len % 8) else 0) :: bitClean val len) := by
  unfold derTBITEnc derEnc
  cases hT : derTEnc tag with
  | ok t =>
    simp only []
    rw [Nat.mod_eq_of_lt (by omega), Nat.mod_eq_of_lt hl, rdSlice_ok (by omega)]; simp only []
    have htk : List.take ((len + 7) / 8) (List.drop 0 val) = val := by
      rw [List.drop_zero]; exact List.take_of_length_le (by omega)
    rw [htk]
    have hbl : ((if len % 8 ≠ 0 then oct (8 - len % 8) else 0) :: bitClean val len).length = (len + 15) / 8 := by
      rw [List.length_cons, bitClean_length val len hvl]; omega
    rw [hbl]
    unfold bitClean
    by_cases hm : len % 8 ≠ 0
    · have hi : len / 8 < val.length := by omega
      simp only [hm, if_true, List.getElem?_eq_getElem hi, ne_eq, not_false_eq_true]
    · simp only [hm, if_false]
  | err => rfl
  | oob => rfl


set_option maxRecDepth 4000 in
theorem derTBIT_roundtrip' (tag : Nat) (val : List UInt8) (len : Nat) (hvl : val.length = (len + 7) / 8)
    (hv : derTIsValid tag = true) (hlt : tag < U32) (rest : List UInt8)
    (hlen : 16 + val.length + rest.length < W) (hl : len + 15 < W) :
    ∃ e, derTBITEnc tag val len = .ok e ∧ derTBITDec (e ++ rest) tag = .ok (bitClean val len, len, e.length) := by
  generalize hbody : ((if len % 8 ≠ 0 then oct (8 - len % 8) else 0) :: bitClean val len) = body
  have hcl := bitClean_length val len hvl
  have hbl : body.length = val.length + 1 := by rw [← hbody, List.length_cons, hcl]
  obtain ⟨e, he, hd, hsl⟩ := derEnc_roundtrip' tag body hv hlt rest (by omega)
  refine ⟨e, by rw [derTBITEnc_eq tag val len hvl hl, hbody]; exact he, ?_⟩
  have hel : body.length ≤ e.length := by
    unfold derEnc at he; rw [derTEnc_ok tag hv] at he; cases he; simp; omega
  generalize hoff : e.length - body.length = off at *
  unfold derTBITDec bitCore
  rw [derDec2_of_derDec _ _ _ _ _ hd]; simp only []
  rw [if_neg (by omega)]
  have r0 := slice_rd _ _ off _ 0 hsl (by omega)
  simp only [Nat.add_zero] at r0
  have hsd := slice_drop _ _ off _ 1 hsl
  have hdrop : body.drop 1 = bitClean val len := by rw [← hbody]; rfl
  rw [hdrop] at hsd
  have hblW : ((body.length - 1) * 8 + W - (body[0]'(by omega)).toNat) % W = len ∧ (body[0]'(by omega)).toNat ≤ 7 ∧
      ((body[0]'(by omega)).toNat ≠ 0 → body.length ≠ 1) ∧
      (body[body.length - 1]'(by omega)).toNat % 2 ^ (body[0]'(by omega)).toNat = 0 := by
    by_cases hm : len % 8 ≠ 0
    · have hi : len / 8 < val.length := by omega
      have hb0 : body[0]'(by omega) = oct (8 - len % 8) := by
        simp only [← hbody, hm, if_true, ne_eq, not_false_eq_true, List.getElem_cons_zero]
      have hb0n : (body[0]'(by omega)).toNat = 8 - len % 8 := by rw [hb0, toNat_oct]; omega
      have hlast : (body[body.length - 1]'(by omega)) = maskHi val[len / 8] (len % 8) := by
        have : body = oct (8 - len % 8) :: (val.take (len / 8) ++ [maskHi val[len / 8] (len % 8)]) := by
          rw [← hbody]; unfold bitClean
          simp only [hm, if_true, ne_eq, not_false_eq_true, List.getElem?_eq_getElem hi]
        simp only [this]
        simp [List.length_take, Nat.min_eq_left (Nat.le_of_lt hi)]
      rw [hb0n, hlast, maskHi_toNat, show 8 - len % 8 = 8 - len % 8 from rfl]
      refine ⟨?_, by omega, by omega, Nat.mul_mod_left _ _⟩
      rw [hbl, Nat.add_sub_cancel]
      have : val.length * 8 + W - (8 - len % 8) = len + W := by omega
      rw [this, Nat.add_mod_right, Nat.mod_eq_of_lt (by omega)]
    · have hb0 : body[0]'(by omega) = 0 := by
        simp only [← hbody, hm, if_false, List.getElem_cons_zero]
      have hb0n : (body[0]'(by omega)).toNat = 0 := by rw [hb0]; rfl
      rw [hb0n]
      refine ⟨?_, by omega, by omega, by simp [Nat.mod_one]⟩
      rw [hbl, Nat.add_sub_cancel, Nat.sub_zero, Nat.add_mod_right, Nat.mod_eq_of_lt (by omega)]
      omega
  obtain ⟨hlenv, h7, hne1, hpad⟩ := hblW
  rw [r0]; simp only []
  rw [if_neg (by omega)]
  have rl := slice_rd _ _ off _ (body.length - 1) hsl (by omega)
  rw [rl]; simp only []
  rw [if_neg (by omega)]; simp only []
  rw [rdSlice_ok (by simp; omega), hsd, hlenv]


/-! ### SEQ anchors -/

set_option maxRecDepth 4000 in
/-- SEQ encoding: Start, then the content, then Stop = derEnc of the content (the length octet written
    by Start is replaced by the final length code and the content is moved by the returned shift) -/
theorem derTSEQEnc_spec (pre content : List UInt8) (tag : Nat) (a : Anchor) (e0 : List UInt8)
    (hs : derTSEQEncStart pre.length tag = .ok (a, e0)) (htag : tag < U32) (hW : pre.length + content.length + 16 < W) :
    ∃ E, derEnc tag content = .ok E ∧
      derTSEQEncStop (pre ++ e0 ++ content) a = .ok (E.length - e0.length - content.length, pre ++ E) := by
  unfold derTSEQEncStart at hs
  by_cases hv : (!derTIsValid tag) = true ∨ (!derTIsConstructive tag) = true
  · rw [if_pos hv] at hs; cases hs
  · rw [if_neg hv] at hs
    have hvalid : derTIsValid tag = true := by
      cases h : derTIsValid tag
      · exact absurd (Or.inl (by simp [h])) hv
      · rfl
    have hT := derTEnc_ok tag hvalid
    unfold derEnc at hs ⊢
    rw [hT] at hs ⊢
    simp only [] at hs ⊢
    injection hs with hs
    injection hs with ha he0
    subst ha
    refine ⟨_, rfl, ?_⟩
    have hL0 : derLEnc ([] : List UInt8).length = [0] := by decide
    rw [hL0, List.append_nil] at he0
    subst he0
    generalize hTl : beBytes (tCount tag) tag = T
    have hTlen : T.length = tCount tag := by rw [← hTl, beBytes_length]
    have htl : tEncLen tag = T.length := by unfold tEncLen; rw [hT, hTl]
    have hLc := derLEnc_le9 content.length (by omega)
    unfold derTSEQEncStop
    simp only [List.length_append, List.length_cons, List.length_nil]
    rw [htl]
    have hl0 : (derLEnc 0).length = 1 := by decide
    rw [hl0]
    have h4 : T.length ≤ 4 := by rw [hTlen]; exact (tCount_le4 tag htag).2
    rw [if_neg (by rw [Nat.mod_eq_of_lt (by omega)]; omega)]
    have hlen : (pre.length + (T.length + (0 + 1)) + content.length + 3 * W - pre.length - T.length - 1) % W = content.length := by
      have : pre.length + (T.length + (0 + 1)) + content.length + 3 * W - pre.length - T.length - 1 = content.length + 3 * W := by omega
      rw [this]
      omegaW
    simp only [hlen]
    rw [if_pos (by omega)]
    have hshift : ((derLEnc content.length).length + W - 1) % W =
        (T ++ derLEnc content.length ++ content).length - (T ++ [0]).length - content.length := by
      have : (derLEnc content.length).length + W - 1 = ((derLEnc content.length).length - 1) + W := by omega
      rw [this, Nat.add_mod_right, Nat.mod_eq_of_lt (by omega)]
      simp; omega
    have e1 : pre.length + (T.length + (0 + 1)) + content.length - content.length - 1 = (pre ++ T).length := by simp
    have e2 : pre.length + (T.length + (0 + 1)) + content.length - content.length = (pre ++ T ++ [0]).length := by simp
    have a1 : pre ++ (T ++ [0]) ++ content = (pre ++ T) ++ ([0] ++ content) := by simp
    have a2 : pre ++ (T ++ [0]) ++ content = (pre ++ T ++ [0]) ++ content := by simp
    have hbuf : List.take (pre.length + (T.length + (0 + 1)) + content.length - content.length - 1) (pre ++ (T ++ [0]) ++ content) ++
        derLEnc content.length ++
        List.drop (pre.length + (T.length + (0 + 1)) + content.length - content.length) (pre ++ (T ++ [0]) ++ content) =
        pre ++ (T ++ derLEnc content.length ++ content) := by
      rw [e1, e2]
      conv => lhs; arg 1; arg 1; rw [a1, List.take_left' rfl]
      conv => lhs; arg 2; rw [a2, List.drop_left' rfl]
      simp
    rw [hshift, hbuf]
    simp
    omega


/-- SEQ decoding: Stop succeeds only at the position Start + |TL| + len (also for lengths near SIZE_MAX:
    the pointer sum cannot wrap back into the buffer) -/
theorem derTSEQDec_spec (der : List UInt8) (tag : Nat) (a : Anchor) (k pos : Nat)
    (hs : derTSEQDecStart der tag = .ok (a, k)) (hstop : derTSEQDecStop pos a = .ok ()) :
    pos = k + a.len ∧ a.tag = tag ∧ k ≤ der.length := by
  unfold derTSEQDecStart at hs
  split at hs
  · cases hs
  · rcases derTDec_cases der with e | ⟨t, tc, e, hk1, hk4, hkl⟩
    · rw [e] at hs; cases hs
    · rw [e] at hs; simp only [] at hs
      by_cases ht : t ≠ tag
      · rw [if_pos ht] at hs; cases hs
      · rw [if_neg ht] at hs
        have ht' : t = tag := by omega
        subst ht'
        rcases derLDec_cases (der.drop tc) with e2 | ⟨l, lc, e2, h1, h9, hl, hsz⟩
        · rw [e2] at hs; cases hs
        · rw [e2] at hs; simp only [] at hs
          rw [List.length_drop] at hl
          have hm : (tc + lc) % W = tc + lc := Nat.mod_eq_of_lt (by omegaW)
          rw [hm] at hs
          cases hs
          have hT := derTDec_canonical' der t tc e
          have hL := derLDec_canonical' _ l lc e2
          have htl : tEncLen t = tc := by
            unfold tEncLen; rw [hT]; simp; omega
          have hll : (derLEnc l).length = lc := by
            rw [hL]; simp [List.length_take]; omega
          unfold derTSEQDecStop at hstop
          simp only [] at hstop
          rw [htl, hll, hm] at hstop
          by_cases hgt : tc + lc > pos
          · rw [if_pos hgt] at hstop; cases hstop
          · rw [if_neg hgt] at hstop
            by_cases heq : pos = (tc + lc + l) % W
            · refine ⟨?_, rfl, by omega⟩
              simp only []
              have : l < W := by omegaW
              omegaW
            · rw [if_neg heq] at hstop; cases hstop


end Bee2V.C08

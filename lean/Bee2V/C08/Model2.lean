/-
C08 — model, part 2: OIDs (der.c derOID*, oid.c), APDU (apdu.c), hex.c, b64.c, dec.c.

C strings are given as the list of their characters before the terminating NUL (no zero inside);
`rdS` reads character `i`: `i = length` is the terminator (0), anything beyond is `oob`.
-/
import Bee2V.C08.Model
namespace Bee2V.C08

def rdS (s : List UInt8) (i : Nat) : R Nat :=
  if i < s.length then rd s i else if i = s.length then .ok 0 else .oob

/-! ### oid.c -/

abbrev U32_MAX : Nat := 4294967295

/-- the `while (1)` loop of oidIsValid over the remaining characters.  State as in the C code:
    val, d1, pos (index inside the current number), n (numbers completed), c0 = oid[0] of the
    current number.  Result = `n >= 2` at loop exit. -/
def oidLoop (s : List UInt8) (val d1 pos n c0 : Nat) : Bool :=
  match s with
  | [] =>
    if pos = 0 ∨ (n = 0 ∧ val > 2) ∨ (n = 1 ∧ d1 < 2 ∧ val ≥ 40) ∨ (n = 1 ∧ val > U32_MAX - 40 * d1) then false
    else n + 1 ≥ 2
  | c :: rest =>
    if c.toNat = 46 then
      if pos = 0 ∨ (n = 0 ∧ val > 2) ∨ (n = 1 ∧ d1 < 2 ∧ val ≥ 40) ∨ (n = 1 ∧ val > U32_MAX - 40 * d1) then false
      else oidLoop rest 0 (if n = 0 then val else d1) 0 (n + 1) 0
    else
      if c.toNat < 48 ∨ c.toNat > 57 ∨ (pos = 1 ∧ c0 = 48) ∨ val > U32_MAX / 10 ∨
         (val = U32_MAX / 10 ∧ c.toNat - 48 > U32_MAX % 10) then false
      else oidLoop rest ((val * 10 + (c.toNat - 48)) % U32) d1 (pos + 1) n (if pos = 0 then c.toNat else c0)

def oidIsValid (oid : List UInt8) : Bool := oidLoop oid 0 0 0 0 0

/-- number of 7-bit groups: `for (; t; t >>= 7, count++);` -/
def sidLen (t : Nat) : Nat := if _h : t = 0 then 0 else 1 + sidLen (t / 128)
termination_by t
decreasing_by omega

/-- `while (pos--) t >>= 7, der[pos] = 128 | (t & 127);` -/
def sidHi : Nat → Nat → List UInt8
  | 0, _ => []
  | n + 1, v => sidHi n (v / 128) ++ [oct (128 + v % 128)]

def derSIDEnc (val : Nat) : List UInt8 :=
  let count := if val = 0 then 1 else sidLen val
  sidHi (count - 1) (val / 128) ++ [oct (val % 128)]

/-- the `while (1)` loop of derOIDEnc over the characters after "d1." -/
def oidEncLoop (s : List UInt8) (d1 val : Nat) (acc : List UInt8) : List UInt8 :=
  match s with
  | [] => acc ++ derSIDEnc (if d1 ≠ 3 then (val + 40 * d1) % U32 else val)
  | c :: rest =>
    if c.toNat = 46 then
      oidEncLoop rest 3 0 (acc ++ derSIDEnc (if d1 ≠ 3 then (val + 40 * d1) % U32 else val))
    else oidEncLoop rest d1 ((val * 10 + (c.toNat - 48)) % U32) acc

def derOIDEnc (oid : List UInt8) : R (List UInt8) :=
  if !oidIsValid oid then .err else
  match oid with
  | c0 :: _ :: rest => derEnc 6 (oidEncLoop rest (c0.toNat - 48) 0 [])
  | _ => .oob

/-- `do t /= 10, count++; while (t > 0);` -/
def decLen (t : Nat) : Nat := if _h : t < 10 then 1 else 1 + decLen (t / 10)
termination_by t
decreasing_by omega

def decChars : Nat → Nat → List UInt8
  | 0, _ => []
  | n + 1, v => decChars n (v / 10) ++ [oct (48 + v % 10)]

/-- derSIDDec(oid, val): the decimal characters of val -/
def derSIDDec (val : Nat) : List UInt8 := decChars (decLen val) val

/-- the sid loop of derOIDDec: returns (d1, characters written) -/
def oidDecLoop (der : List UInt8) (off l pos val d1 : Nat) (out : List UInt8) : R (Nat × List UInt8) :=
  if _h : pos < l then
    if val / 33554432 ≠ 0 then .err else
    match rd der (off + pos) with
    | .ok b =>
      if val = 0 ∧ b = 128 then .err else
      let val := (val * 128 + b % 128) % U32
      if b / 128 = 0 then
        if d1 = 3 then
          let d := if val < 40 then 0 else if val < 80 then 1 else 2
          let v := if val < 40 then val else if val < 80 then val - 40 else val - 80
          oidDecLoop der off l (pos + 1) 0 0 (out ++ derSIDDec d ++ [46] ++ derSIDDec v)
        else oidDecLoop der off l (pos + 1) 0 d1 (out ++ [46] ++ derSIDDec val)
      else oidDecLoop der off l (pos + 1) val d1 out
    | .err => .err
    | .oob => .oob
  else .ok (d1, out)
termination_by l - pos
decreasing_by all_goals omega

/-- derOIDDec(oid, &len, der, count) = (oid characters, result); len = |oid| -/
def derOIDDec (der : List UInt8) : R (List UInt8 × Nat) :=
  match derDec2 der 6 with
  | .ok (off, l, c) =>
    match oidDecLoop der off l 0 0 3 [] with
    | .ok (d1, out) =>
      if d1 = 3 then .err else
      match rd der (off + (l - 1)) with
      | .ok last => if last / 128 ≠ 0 then .err else .ok (out, c)
      | .err => .err
      | .oob => .oob
    | .err => .err
    | .oob => .oob
  | .err => .err
  | .oob => .oob

/-- derSIDDec2(val, oid + o) after fix-5: number of characters matched -/
def sidCmpLoop (oid : List UInt8) (o : Nat) (t : Nat) : Nat → R Unit
  | 0 => .ok ()
  | pos + 1 =>
    match rdS oid (o + pos) with
    | .ok ch => if ch ≠ 48 + t % 10 then .err else sidCmpLoop oid o (t / 10) pos
    | .err => .err
    | .oob => .oob

def derSIDDec2 (val : Nat) (oid : List UInt8) (o : Nat) : R Nat :=
  let count := decLen val
  if oid.length - o < count then .err else
  match sidCmpLoop oid o val count with
  | .ok () => .ok count
  | .err => .err
  | .oob => .oob

/-- the sid loop of derOIDDec2: returns (d1, position in oid) -/
def oidDec2Loop (der : List UInt8) (off l pos val d1 : Nat) (oid : List UInt8) (o : Nat) : R (Nat × Nat) :=
  if _h : pos < l then
    if val / 33554432 ≠ 0 then .err else
    match rd der (off + pos) with
    | .ok b =>
      if val = 0 ∧ b = 128 then .err else
      let val := (val * 128 + b % 128) % U32
      if b / 128 = 0 then
        let d := if val < 40 then 0 else if val < 80 then 1 else 2
        let v := if d1 = 3 then (if val < 40 then val else if val < 80 then val - 40 else val - 80) else val
        let first : R Nat := if d1 = 3 then
            match derSIDDec2 d oid o with
            | .ok k => .ok (o + k)
            | .err => .err
            | .oob => .oob
          else .ok o
        match first with
        | .ok o1 =>
          match rdS oid o1 with
          | .ok ch =>
            if ch ≠ 46 then .err else
            match derSIDDec2 v oid (o1 + 1) with
            | .ok k => oidDec2Loop der off l (pos + 1) 0 0 oid (o1 + 1 + k)
            | .err => .err
            | .oob => .oob
          | .err => .err
          | .oob => .oob
        | .err => .err
        | .oob => .oob
      else oidDec2Loop der off l (pos + 1) val d1 oid o
    | .err => .err
    | .oob => .oob
  else .ok (d1, o)
termination_by l - pos
decreasing_by all_goals omega

def derOIDDec2 (der : List UInt8) (oid : List UInt8) : R Nat :=
  match derDec2 der 6 with
  | .ok (off, l, c) =>
    match oidDec2Loop der off l 0 0 3 oid 0 with
    | .ok (d1, o) =>
      if d1 = 3 then .err else
      match rd der (off + (l - 1)) with
      | .ok last =>
        if last / 128 ≠ 0 then .err else
        match rdS oid o with
        | .ok ch => if ch ≠ 0 then .err else .ok c
        | .err => .err
        | .oob => .oob
      | .err => .err
      | .oob => .oob
    | .err => .err
    | .oob => .oob
  | .err => .err
  | .oob => .oob

/-- oidFromDER(oid, der, count) = oid characters (the C function returns their number) -/
def oidFromDER (der : List UInt8) : R (List UInt8) :=
  match derOIDDec der with
  | .ok (s, c) => if c ≠ der.length then .err else .ok s
  | .err => .err
  | .oob => .oob

/-! ### apdu.c -/

structure Cmd where
  cla : UInt8
  ins : UInt8
  p1 : UInt8
  p2 : UInt8
  cdf : List UInt8
  rdf_len : Nat
  deriving Repr, DecidableEq

def apduCmdIsValid (c : Cmd) : Bool := c.cdf.length < 65536 ∧ c.rdf_len ≤ 65536

/-- apduCmdEnc(apdu, cmd), pre apduCmdIsValid -/
def apduCmdEnc (c : Cmd) : List UInt8 :=
  let n := c.cdf.length
  let hdr := [c.cla, c.ins, c.p1, c.p2]
  let lc : List UInt8 :=
    if n = 0 then []
    else if n < 256 ∧ c.rdf_len ≤ 256 then oct n :: c.cdf
    else [0, oct (n / 256), oct n] ++ c.cdf
  let le : List UInt8 :=
    if c.rdf_len = 0 then []
    else if c.rdf_len ≤ 256 ∧ n < 256 then [oct c.rdf_len]
    else if n ≠ 0 then [oct (c.rdf_len / 256), oct c.rdf_len]
    else [0, oct (c.rdf_len / 256), oct c.rdf_len]
  hdr ++ lc ++ le

/-- the Lc part of apduCmdDec: (cdf_len_len, cdf_len) from the octets `[count]apdu` after the header -/
def apduLc (a : List UInt8) : R (Nat × Nat) :=
  let count := a.length
  if count = 0 ∨ count = 1 then .ok (0, 0) else
  match rd a 0 with
  | .ok a0 =>
    if count = 3 ∧ a0 = 0 then .ok (0, 0)
    else if a0 ≠ 0 then .ok (1, a0)
    else if count < 3 then .err
    else
      match rd a 1, rd a 2 with
      | .ok a1, .ok a2 =>
        let cdf_len := a1 * 256 + a2
        if cdf_len = 0 then .err else .ok (3, cdf_len)
      | .oob, _ => .oob
      | _, .oob => .oob
      | _, _ => .err
  | .err => .err
  | .oob => .oob

/-- the `switch (count)` of apduCmdDec on the octets left after cdf (after fix-3) -/
def apduLe (a : List UInt8) (cdf_len_len cdf_len : Nat) : R Nat :=
  let count := a.length
  if count = 0 then
    if cdf_len_len = 3 ∧ cdf_len < 256 then .err else .ok 0
  else if count = 1 then
    match rd a 0 with
    | .ok b => if cdf_len_len = 3 then .err else .ok (if b = 0 then 256 else b)
    | .err => .err
    | .oob => .oob
  else if count = 2 then
    match rd a 0, rd a 1 with
    | .ok b0, .ok b1 =>
      let r := if b0 * 256 + b1 = 0 then 65536 else b0 * 256 + b1
      if cdf_len_len ≤ 1 ∨ (cdf_len < 256 ∧ r ≤ 256) then .err else .ok r
    | .oob, _ => .oob
    | _, .oob => .oob
    | _, _ => .err
  else if count = 3 then
    match rd a 0, rd a 1, rd a 2 with
    | .ok b0, .ok b1, .ok b2 =>
      let r := if b1 * 256 + b2 = 0 then 65536 else b1 * 256 + b2
      if b0 ≠ 0 ∨ cdf_len_len ≠ 0 ∨ r ≤ 256 then .err else .ok r
    | .oob, _, _ => .oob
    | _, .oob, _ => .oob
    | _, _, .oob => .oob
    | _, _, _ => .err
  else .err

/-- apduCmdDec(cmd, apdu, count) (after fix-3); `apdu += k, count -= k` is `drop k` -/
def apduCmdDec (apdu : List UInt8) : R Cmd :=
  if apdu.length < 4 then .err else
  match rd apdu 0, rd apdu 1, rd apdu 2, rd apdu 3 with
  | .ok cla, .ok ins, .ok p1, .ok p2 =>
    let a := apdu.drop 4
    match apduLc a with
    | .ok (cdf_len_len, cdf_len) =>
      let a := a.drop cdf_len_len
      if cdf_len > a.length then .err else
      match rdSlice a 0 cdf_len with
      | .ok cdf =>
        match apduLe (a.drop cdf_len) cdf_len_len cdf_len with
        | .ok rdf_len => .ok ⟨oct cla, oct ins, oct p1, oct p2, cdf, rdf_len⟩
        | .err => .err
        | .oob => .oob
      | .err => .err
      | .oob => .oob
    | .err => .err
    | .oob => .oob
  | .oob, _, _, _ => .oob
  | _, .oob, _, _ => .oob
  | _, _, .oob, _ => .oob
  | _, _, _, .oob => .oob
  | _, _, _, _ => .err

structure Resp where
  sw1 : UInt8
  sw2 : UInt8
  rdf : List UInt8
  deriving Repr, DecidableEq

def apduRespEnc (r : Resp) : List UInt8 := r.rdf ++ [r.sw1, r.sw2]

def apduRespDec (apdu : List UInt8) : R Resp :=
  let count := apdu.length
  if count < 2 then .err else
  match rd apdu (count - 2), rd apdu (count - 1), rdSlice apdu 0 (count - 2) with
  | .ok s1, .ok s2, .ok rdf => .ok ⟨oct s1, oct s2, rdf⟩
  | .oob, _, _ => .oob
  | _, .oob, _ => .oob
  | _, _, .oob => .oob
  | _, _, _ => .err

/-! ### hex.c -/

/-- hex_dec_table[c] (0xFF = not a hex digit) -/
def hexDec (c : Nat) : Nat :=
  if 48 ≤ c ∧ c ≤ 57 then c - 48
  else if 65 ≤ c ∧ c ≤ 70 then c - 55
  else if 97 ≤ c ∧ c ≤ 102 then c - 87
  else 255

def hexUpperCh (n : Nat) : UInt8 := if n < 10 then oct (48 + n) else oct (55 + n)
def hexLowerCh (n : Nat) : UInt8 := if n < 10 then oct (48 + n) else oct (87 + n)

def hexIsValid (s : List UInt8) : Bool :=
  if s.length % 2 ≠ 0 then false else s.all (fun c => hexDec c.toNat ≠ 255)

/-- hexFrom(dest, src, count) -/
def hexFrom : List UInt8 → List UInt8
  | [] => []
  | o :: rest => hexUpperCh (o.toNat / 16) :: hexUpperCh (o.toNat % 16) :: hexFrom rest

def hexFromRev (src : List UInt8) : List UInt8 := hexFrom src.reverse

/-- hexToO: `hi << 4 | lo` as an octet -/
def hexToO (c0 c1 : UInt8) : UInt8 := oct (hexDec c0.toNat * 16 + hexDec c1.toNat)

/-- hexTo(dest, src), pre hexIsValid(src) -/
def hexTo : List UInt8 → List UInt8
  | c0 :: c1 :: rest => hexToO c0 c1 :: hexTo rest
  | _ => []

def hexToRev (src : List UInt8) : List UInt8 := (hexTo src).reverse

/-- SAFE(hexEq): accumulate diff over all pairs (reads of buf checked) -/
def hexEqSafe (buf : List UInt8) (hex : List UInt8) : R Bool :=
  let v := hexTo hex
  if buf.length < v.length then .oob else
  .ok ((List.zipWith (fun a b => a.toNat ^^^ b.toNat) (buf.take v.length) v).foldl (· ||| ·) 0 = 0)

/-- FAST(hexEq): stop at the first difference -/
def hexEqFast : List UInt8 → List UInt8 → R Bool
  | _, [] => .ok true
  | [], _ :: _ => .oob
  | b :: bs, v :: vs => if b ≠ v then .ok false else hexEqFast bs vs

/-! ### b64.c -/

/-- b64_dec_table[c] -/
def b64Dec (c : Nat) : Nat :=
  if 65 ≤ c ∧ c ≤ 90 then c - 65
  else if 97 ≤ c ∧ c ≤ 122 then c - 71
  else if 48 ≤ c ∧ c ≤ 57 then c + 4
  else if c = 43 then 62
  else if c = 47 then 63
  else 255

/-- b64_alphabet[n] -/
def b64Ch (n : Nat) : UInt8 :=
  if n < 26 then oct (65 + n) else if n < 52 then oct (71 + n) else if n < 62 then oct (n - 4)
  else if n = 62 then 43 else 47

/-- effective length after the padding step of b64IsValid / b64To -/
def b64Unpad (s : List UInt8) : Nat :=
  let len := s.length
  if len ≠ 0 ∧ s[len - 1]? = some 61 then
    if s[len - 2]? = some 61 then len - 2 else len - 1
  else len

def b64IsValid (s : List UInt8) : Bool :=
  if s.length % 4 ≠ 0 then false else
  let len := b64Unpad s
  if len % 4 = 3 then
    match s[len - 1]? with
    | some c => if b64Dec c.toNat % 4 ≠ 0 then false else (s.take (len - 1)).all (fun c => b64Dec c.toNat ≠ 255)
    | none => false
  else if len % 4 = 2 then
    match s[len - 1]? with
    | some c => if b64Dec c.toNat % 16 ≠ 0 then false else (s.take (len - 1)).all (fun c => b64Dec c.toNat ≠ 255)
    | none => false
  else (s.take len).all (fun c => b64Dec c.toNat ≠ 255)

def b64From : List UInt8 → List UInt8
  | a :: b :: c :: rest =>
    let block := (a.toNat * 256 + b.toNat) * 256 + c.toNat
    b64Ch (block / 262144) :: b64Ch (block / 4096 % 64) :: b64Ch (block / 64 % 64) :: b64Ch (block % 64) :: b64From rest
  | [a, b] =>
    let block := (a.toNat * 256 + b.toNat) * 4
    [b64Ch (block / 4096), b64Ch (block / 64 % 64), b64Ch (block % 64), 61]
  | [a] =>
    let block := a.toNat * 16
    [b64Ch (block / 64), b64Ch (block % 64), 61, 61]
  | [] => []

/-- the decoding loops of b64To over the first `len` characters (table values combined with `|`
    after shifts; for valid characters (< 64) this is `*64 +`) -/
def b64ToAux : List UInt8 → List UInt8
  | a :: b :: c :: d :: rest =>
    let block := ((b64Dec a.toNat * 64 + b64Dec b.toNat) * 64 + b64Dec c.toNat) * 64 + b64Dec d.toNat
    oct (block / 65536) :: oct (block / 256) :: oct block :: b64ToAux rest
  | [a, b, c] =>
    let block := ((b64Dec a.toNat * 64 + b64Dec b.toNat) * 64 + b64Dec c.toNat) / 4
    [oct (block / 256), oct block]
  | [a, b] =>
    let block := (b64Dec a.toNat * 64 + b64Dec b.toNat) / 16
    [oct block]
  | _ => []

/-- b64To(dest, &count, src), pre b64IsValid(src) -/
def b64To (s : List UInt8) : List UInt8 := b64ToAux (s.take (b64Unpad s))

/-! ### dec.c -/

def decIsValid (s : List UInt8) : Bool := s.all (fun c => 48 ≤ c.toNat ∧ c.toNat ≤ 57)

def decCLZ : List UInt8 → Nat
  | c :: rest => if c = 48 then 1 + decCLZ rest else 0
  | [] => 0

/-- decFromU32 / decFromU64: `count` characters, truncating -/
def decFrom (count num : Nat) : List UInt8 := decChars count num

/-- decToU32 (m = 2^32) / decToU64 (m = 2^64): wraps -/
def decTo (m : Nat) (s : List UInt8) : Nat :=
  s.foldl (fun num c => (num * 10 + (c.toNat - 48)) % m) 0

def luhnTable (d : Nat) : Nat := if d < 5 then 2 * d else 2 * d - 9

/-- the loop of decLuhnCalc from the last character: `s` reversed; (cd, odd position?) -/
def luhnSum (first second : Nat → Nat) : List UInt8 → Nat
  | [] => 0
  | [a] => first (a.toNat - 48)
  | a :: b :: rest => first (a.toNat - 48) + second (b.toNat - 48) + luhnSum first second rest

def decLuhnCalc (s : List UInt8) : UInt8 :=
  let cd := luhnSum luhnTable id s.reverse % 10
  oct (cd * 9 % 10 + 48)

def decLuhnVerify (s : List UInt8) : Bool := luhnSum id luhnTable s.reverse % 10 = 0

def dammTable : List (List Nat) := [
  [0, 3, 1, 7, 5, 9, 8, 6, 4, 2],
  [7, 0, 9, 2, 1, 5, 4, 8, 6, 3],
  [4, 2, 0, 6, 8, 7, 1, 3, 5, 9],
  [1, 7, 5, 0, 9, 8, 3, 4, 2, 6],
  [6, 1, 2, 3, 0, 4, 5, 9, 7, 8],
  [3, 6, 7, 4, 2, 0, 9, 5, 8, 1],
  [5, 8, 6, 9, 7, 2, 0, 1, 3, 4],
  [8, 9, 4, 5, 3, 6, 2, 0, 1, 7],
  [9, 4, 3, 8, 6, 1, 7, 2, 0, 5],
  [2, 5, 8, 1, 4, 3, 6, 7, 9, 0]]

def dammStep (cd d : Nat) : Nat := (dammTable.getD cd []).getD d 0

def decDammCalc (s : List UInt8) : UInt8 :=
  oct (s.foldl (fun cd c => dammStep cd (c.toNat - 48)) 0 + 48)

def decDammVerify (s : List UInt8) : Bool := decDammCalc s = 48

end Bee2V.C08

/-
C08 — big-endian value lemmas: the value loops of the decoders compute `beVal`, the encoders'
`beBytes` inverts it, `octLen` is the minimal length.
-/
import Bee2V.C08.Lemmas2
namespace Bee2V.C08

/-- big-endian value of an octet list on top of an accumulator -/
def beVal (bs : List UInt8) (acc : Nat) : Nat := bs.foldl (fun a b => a * 256 + b.toNat) acc

@[simp] theorem beVal_nil (acc : Nat) : beVal [] acc = acc := rfl
@[simp] theorem beVal_cons (b : UInt8) (bs : List UInt8) (acc : Nat) :
    beVal (b :: bs) acc = beVal bs (acc * 256 + b.toNat) := rfl
theorem beVal_append (xs ys : List UInt8) (acc : Nat) : beVal (xs ++ ys) acc = beVal ys (beVal xs acc) := by
  simp [beVal, List.foldl_append]
theorem beVal_snoc (xs : List UInt8) (b : UInt8) (acc : Nat) : beVal (xs ++ [b]) acc = beVal xs acc * 256 + b.toNat := by
  rw [beVal_append]; rfl

theorem beVal_mod (m : Nat) (bs : List UInt8) (acc : Nat) : beVal bs (acc % m) % m = beVal bs acc % m := by
  induction bs generalizing acc with
  | nil => simp
  | cons b bs ih =>
    show beVal bs (acc % m * 256 + b.toNat) % m = beVal bs (acc * 256 + b.toNat) % m
    rw [← ih (acc % m * 256 + b.toNat), ← ih (acc * 256 + b.toNat)]
    have e : (acc % m * 256 + b.toNat) % m = (acc * 256 + b.toNat) % m := by
      rw [Nat.add_mod, Nat.mul_mod, Nat.mod_mod, ← Nat.mul_mod, ← Nat.add_mod]
    rw [e]

/-- value of n octets is below 256^n (on top of acc: below (acc+1)·256^n) -/
theorem beVal_lt (bs : List UInt8) (acc : Nat) : beVal bs acc < (acc + 1) * 256 ^ bs.length := by
  induction bs generalizing acc with
  | nil => simp
  | cons b bs ih =>
    simp only [beVal_cons, List.length_cons]
    have := ih (acc * 256 + b.toNat)
    have hb := UInt8.toNat_lt b
    calc beVal bs (acc * 256 + b.toNat) < (acc * 256 + b.toNat + 1) * 256 ^ bs.length := this
      _ ≤ ((acc + 1) * 256) * 256 ^ bs.length := Nat.mul_le_mul_right _ (by omega)
      _ = (acc + 1) * 256 ^ (bs.length + 1) := by rw [Nat.pow_succ, Nat.mul_assoc, Nat.mul_comm 256]

theorem beVal_ge (bs : List UInt8) (acc : Nat) : acc * 256 ^ bs.length ≤ beVal bs acc := by
  induction bs generalizing acc with
  | nil => simp
  | cons b bs ih =>
    simp only [beVal_cons, List.length_cons]
    calc acc * 256 ^ (bs.length + 1) = (acc * 256) * 256 ^ bs.length := by rw [Nat.pow_succ, Nat.mul_assoc, Nat.mul_comm 256]
      _ ≤ (acc * 256 + b.toNat) * 256 ^ bs.length := Nat.mul_le_mul_right _ (by omega)
      _ ≤ _ := ih _

theorem toNat_oct (v : Nat) : (oct v).toNat = v % 256 := by
  unfold oct
  simp [UInt8.toNat_ofNat']

theorem oct_eq_of_nat (b : UInt8) {n : Nat} (h : n % 256 = b.toNat) : oct n = b := by
  unfold oct; rw [h]; exact UInt8.ofNat_toNat

theorem beBytes_length (n v : Nat) : (beBytes n v).length = n := by
  induction n generalizing v with
  | zero => rfl
  | succ n ih => simp [beBytes, ih]

/-- encoding the value of n octets with n octets gives the octets back -/
theorem beBytes_beVal' (n : Nat) (bs : List UInt8) (hn : bs.length = n) : beBytes n (beVal bs 0) = bs := by
  induction n generalizing bs with
  | zero => cases bs with
    | nil => rfl
    | cons _ _ => simp at hn
  | succ n ih =>
    rcases List.eq_nil_or_concat bs with h | ⟨xs, b, h⟩
    · subst h; simp at hn
    · subst h
      simp at hn
      rw [List.concat_eq_append]
      rw [beBytes, beVal_snoc]
      have hb := UInt8.toNat_lt b
      have h1 : (beVal xs 0 * 256 + b.toNat) / 256 = beVal xs 0 := by omega
      have h2 : oct (beVal xs 0 * 256 + b.toNat) = b := by
        unfold oct
        have : (beVal xs 0 * 256 + b.toNat) % 256 = b.toNat := by omega
        rw [this]; exact UInt8.ofNat_toNat
      rw [h1, h2, ih xs (by omega)]

theorem beBytes_beVal (bs : List UInt8) : beBytes bs.length (beVal bs 0) = bs := beBytes_beVal' _ bs rfl

/-- decoding what `beBytes n` produced gives the value modulo 256^n -/
theorem beVal_beBytes (n v : Nat) : beVal (beBytes n v) 0 = v % 256 ^ n := by
  induction n generalizing v with
  | zero => simp [beBytes, Nat.mod_one]
  | succ n ih =>
    rw [beBytes, beVal_snoc, ih, toNat_oct, Nat.pow_succ, Nat.mul_comm (256 ^ n) 256, Nat.mod_mul]
    omega

theorem octLen_pos {v : Nat} (h : v ≠ 0) : octLen v = 1 + octLen (v / 256) := by
  rw [octLen]; simp [h]
theorem octLen_zero : octLen 0 = 0 := by rw [octLen]; simp

theorem lt_pow_octLen (v : Nat) : v < 256 ^ octLen v := by
  induction v using Nat.strongRecOn with
  | _ v ih =>
    by_cases h : v = 0
    · subst h; simp [octLen_zero]
    · rw [octLen_pos h, Nat.add_comm, Nat.pow_succ]
      have := ih (v / 256) (by omega)
      omega

theorem octLen_mul_add {v : Nat} (hv : v ≠ 0) (c : Nat) (hc : c < 256) : octLen (v * 256 + c) = 1 + octLen v := by
  rw [octLen_pos (by omega)]
  congr 2
  omega

theorem octLen_beVal (bs : List UInt8) (acc : Nat) (h : acc ≠ 0) : octLen (beVal bs acc) = octLen acc + bs.length := by
  induction bs generalizing acc with
  | nil => simp
  | cons b bs ih =>
    simp only [beVal_cons, List.length_cons]
    rw [ih _ (by have := UInt8.toNat_lt b; omega), octLen_mul_add h _ (UInt8.toNat_lt b)]
    omega

theorem octLen_small {v : Nat} (h0 : v ≠ 0) (h : v < 256) : octLen v = 1 := by
  rw [octLen_pos h0, show v / 256 = 0 by omega, octLen_zero]

/-- minimality: a list whose first octet is non-zero has exactly `octLen` = its length -/
theorem octLen_beVal_cons (b : UInt8) (bs : List UInt8) (h : b.toNat ≠ 0) :
    octLen (beVal (b :: bs) 0) = 1 + bs.length := by
  simp only [beVal_cons, Nat.zero_mul, Nat.zero_add]
  rw [octLen_beVal _ _ h, octLen_small h (UInt8.toNat_lt b)]

/-- `beBytes` in cons form -/
theorem beBytes_succ_cons (n v : Nat) : beBytes (n + 1) v = oct (v / 256 ^ n) :: beBytes n v := by
  induction n generalizing v with
  | zero => simp [beBytes]
  | succ n ih =>
    rw [beBytes, ih (v / 256), List.cons_append]
    have e : v / 256 / 256 ^ n = v / 256 ^ (n + 1) := by
      rw [Nat.div_div_eq_div_mul, Nat.pow_succ, Nat.mul_comm]
    rw [e]
    conv => rhs; rw [beBytes]

theorem pow_octLen_le {v : Nat} (h : v ≠ 0) : 256 ^ (octLen v - 1) ≤ v := by
  induction v using Nat.strongRecOn with
  | _ v ih =>
    rw [octLen_pos h]
    by_cases h2 : v / 256 = 0
    · rw [h2, octLen_zero]; simp; try omega
    · have := ih (v / 256) (by omega) h2
      rw [octLen_pos h2] at this ⊢
      simp only [Nat.add_sub_cancel_left] at this ⊢
      rw [Nat.add_comm, Nat.pow_succ]
      omega

/-- the leading octet of the minimal encoding is non-zero -/
theorem beBytes_octLen_head {v : Nat} (h : v ≠ 0) :
    ∃ tl, beBytes (octLen v) v = oct (v / 256 ^ (octLen v - 1)) :: tl ∧ (oct (v / 256 ^ (octLen v - 1))).toNat ≠ 0 ∧
      (oct (v / 256 ^ (octLen v - 1))).toNat = v / 256 ^ (octLen v - 1) := by
  have hp : octLen v = (octLen v - 1) + 1 := by rw [octLen_pos h]; omega
  refine ⟨beBytes (octLen v - 1) v, ?_, ?_, ?_⟩
  · conv => lhs; rw [hp]
    exact beBytes_succ_cons _ _
  all_goals
    rw [toNat_oct]
    have h1 := pow_octLen_le h
    have h2 := lt_pow_octLen v
    have h3 : 256 ^ octLen v = 256 ^ (octLen v - 1) * 256 := by conv => lhs; rw [hp, Nat.pow_succ]
    have hpos : 0 < 256 ^ (octLen v - 1) := Nat.pow_pos (by decide)
    have hq : v / 256 ^ (octLen v - 1) < 256 := by
      rw [Nat.div_lt_iff_lt_mul hpos, Nat.mul_comm]; omega
    have hq1 : 1 ≤ v / 256 ^ (octLen v - 1) := by
      rw [Nat.le_div_iff_mul_le hpos]; omega
    omega

end Bee2V.C08

/-
C08 — hex and base64: canonical direction (re-encoding a decoded valid string gives the string back).
-/
import Bee2V.C08.LemmasText
import Bee2V.C08.Lemmas2
namespace Bee2V.C08

/-! ### hex -/

/-- upper-case form of a hex character -/
def hexUpC (c : UInt8) : UInt8 := if 97 ≤ c.toNat ∧ c.toNat ≤ 102 then oct (c.toNat - 32) else c

theorem hex_digit_inv (c : UInt8) (h : hexDec c.toNat ≠ 255) : hexUpperCh (hexDec c.toNat) = hexUpC c ∧ hexDec c.toNat < 16 := by
  have key : ∀ n ∈ List.range 256, hexDec (UInt8.ofNat n).toNat ≠ 255 →
      hexUpperCh (hexDec (UInt8.ofNat n).toNat) = hexUpC (UInt8.ofNat n) ∧ hexDec (UInt8.ofNat n).toNat < 16 := by decide +kernel
  have := key c.toNat (by simp; exact UInt8.toNat_lt c)
  rw [UInt8.ofNat_toNat] at this
  exact this h

theorem hexIsValid_cons2 (c0 c1 : UInt8) (rest : List UInt8) :
    hexIsValid (c0 :: c1 :: rest) = (decide (hexDec c0.toNat ≠ 255) && (decide (hexDec c1.toNat ≠ 255) && hexIsValid rest)) := by
  unfold hexIsValid
  simp only [List.length_cons, List.all_cons]
  by_cases h : rest.length % 2 ≠ 0
  · rw [if_pos (by omega), if_pos h]; simp
  · rw [if_neg (by omega), if_neg h]

/-- CANONICAL (hex): re-encoding a decoded valid string gives the string in upper case -/
theorem hex_canonical' : ∀ (n : Nat) (s : List UInt8), s.length ≤ n → hexIsValid s = true → hexFrom (hexTo s) = s.map hexUpC := by
  intro n
  induction n using Nat.strongRecOn with
  | _ n ih =>
    intro s hl hv
    match s, hl, hv with
    | [], _, _ => rfl
    | [c], _, hv => unfold hexIsValid at hv; simp at hv
    | c0 :: c1 :: rest, hl, hv =>
      rw [hexIsValid_cons2] at hv
      simp only [Bool.and_eq_true, decide_eq_true_eq] at hv
      obtain ⟨h0, h1, hr⟩ := hv
      obtain ⟨u0, l0⟩ := hex_digit_inv c0 h0
      obtain ⟨u1, l1⟩ := hex_digit_inv c1 h1
      simp only [List.length_cons] at hl
      have := ih (n - 2) (by omega) rest (by omega) hr
      simp only [hexTo, hexFrom, List.map_cons, this]
      have hv : (hexToO c0 c1).toNat = hexDec c0.toNat * 16 + hexDec c1.toNat := by
        unfold hexToO; rw [toNat_oct]; omega
      rw [hv]
      have e1 : (hexDec c0.toNat * 16 + hexDec c1.toNat) / 16 = hexDec c0.toNat := by omega
      have e2 : (hexDec c0.toNat * 16 + hexDec c1.toNat) % 16 = hexDec c1.toNat := by omega
      rw [e1, e2, u0, u1]


/-! ### base64 -/

theorem b64_digit_inv (c : UInt8) (h : b64Dec c.toNat ≠ 255) : b64Ch (b64Dec c.toNat) = c ∧ b64Dec c.toNat < 64 ∧ c ≠ 61 := by
  have key : ∀ n ∈ List.range 256, b64Dec (UInt8.ofNat n).toNat ≠ 255 →
      b64Ch (b64Dec (UInt8.ofNat n).toNat) = UInt8.ofNat n ∧ b64Dec (UInt8.ofNat n).toNat < 64 ∧ UInt8.ofNat n ≠ 61 := by
    decide +kernel
  have := key c.toNat (by simp; exact UInt8.toNat_lt c)
  rw [UInt8.ofNat_toNat] at this
  exact this h

theorem b64Dec_pad : b64Dec (61 : UInt8).toNat = 255 := by decide

/-- validity of a string that continues after a 4-character block -/
theorem b64IsValid_append (q s : List UInt8) (hq : q.length = 4) (hs : 4 ≤ s.length) :
    b64IsValid (q ++ s) = (q.all (fun c => b64Dec c.toNat ≠ 255) && b64IsValid s) := by
  have hun := b64Unpad_append q s (by omega)
  have hu : s.length - 2 ≤ b64Unpad s ∧ b64Unpad s ≤ s.length := by
    unfold b64Unpad; simp only []; split <;> (try split) <;> omega
  unfold b64IsValid
  rw [hun, hq]
  simp only [List.length_append, hq]
  by_cases hm : s.length % 4 ≠ 0
  · rw [if_pos (by omega), if_pos hm]; simp
  · rw [if_neg (by omega), if_neg hm]
    have hget : (q ++ s)[4 + b64Unpad s - 1]? = s[b64Unpad s - 1]? := by
      rw [List.getElem?_append_right (by omega)]; congr 1; omega
    have htake1 : (q ++ s).take (4 + b64Unpad s - 1) = q ++ s.take (b64Unpad s - 1) := by
      rw [List.take_append, List.take_of_length_le (by omega)]; congr 2; omega
    have htake0 : (q ++ s).take (4 + b64Unpad s) = q ++ s.take (b64Unpad s) := by
      rw [List.take_append, List.take_of_length_le (by omega)]; congr 2; omega
    by_cases h3 : b64Unpad s % 4 = 3
    · rw [if_pos (by omega), if_pos h3, hget]
      cases s[b64Unpad s - 1]? with
      | none => simp
      | some c =>
        simp only []
        split
        · simp
        · rw [htake1, List.all_append]
    · rw [if_neg (by omega), if_neg h3]
      by_cases h2 : b64Unpad s % 4 = 2
      · rw [if_pos (by omega), if_pos h2, hget]
        cases s[b64Unpad s - 1]? with
        | none => simp
        | some c =>
          simp only []
          split
          · simp
          · rw [htake1, List.all_append]
      · rw [if_neg (by omega), if_neg h2, htake0, List.all_append]


theorem b64To_append (c0 c1 c2 c3 : UInt8) (s : List UInt8) (hs : 4 ≤ s.length) :
    b64To ([c0, c1, c2, c3] ++ s) = b64ToAux [c0, c1, c2, c3] ++ b64To s := by
  unfold b64To
  rw [b64Unpad_append _ s (by omega)]
  have hu : b64Unpad s ≤ s.length := by unfold b64Unpad; simp only []; split <;> (try split) <;> omega
  simp only [List.length_cons, List.length_nil, List.cons_append, List.nil_append]
  rw [show 0 + 1 + 1 + 1 + 1 + b64Unpad s = b64Unpad s + 1 + 1 + 1 + 1 by omega]
  simp only [List.take_succ_cons]
  rw [b64ToAux_block, b64ToAux_block]
  simp [b64ToAux]

/-- one full block: the three octets re-encode to the four characters -/
theorem b64_block_inv (c0 c1 c2 c3 : UInt8) (h0 : b64Dec c0.toNat ≠ 255) (h1 : b64Dec c1.toNat ≠ 255)
    (h2 : b64Dec c2.toNat ≠ 255) (h3 : b64Dec c3.toNat ≠ 255) (rest : List UInt8) :
    b64From (b64ToAux [c0, c1, c2, c3] ++ rest) = [c0, c1, c2, c3] ++ b64From rest := by
  obtain ⟨i0, l0, _⟩ := b64_digit_inv c0 h0
  obtain ⟨i1, l1, _⟩ := b64_digit_inv c1 h1
  obtain ⟨i2, l2, _⟩ := b64_digit_inv c2 h2
  obtain ⟨i3, l3, _⟩ := b64_digit_inv c3 h3
  rw [b64ToAux_block]
  simp only [b64ToAux, List.cons_append, List.nil_append]
  rw [b64From]
  generalize hb : ((b64Dec c0.toNat * 64 + b64Dec c1.toNat) * 64 + b64Dec c2.toNat) * 64 + b64Dec c3.toNat = blk
  have hblk : blk < 16777216 := by omega
  simp only [toNat_oct]
  have e : (blk / 65536 % 256 * 256 + blk / 256 % 256) * 256 + blk % 256 = blk := by omega
  rw [e]
  have q0 : blk / 262144 = b64Dec c0.toNat := by omega
  have q1 : blk / 4096 % 64 = b64Dec c1.toNat := by omega
  have q2 : blk / 64 % 64 = b64Dec c2.toNat := by omega
  have q3 : blk % 64 = b64Dec c3.toNat := by omega
  rw [q0, q1, q2, q3, i0, i1, i2, i3]


theorem unpad4 (c0 c1 c2 c3 : UInt8) : b64Unpad [c0, c1, c2, c3] = if c3 = 61 then (if c2 = 61 then 2 else 3) else 4 := by
  unfold b64Unpad
  simp only [List.length_cons, List.length_nil]
  by_cases h3 : c3 = 61
  · by_cases h2 : c2 = 61
    · simp [h3, h2]
    · simp [h3, h2]
  · simp [h3]

set_option maxRecDepth 4000 in
/-- the last block (with or without padding) -/
theorem b64_last (c0 c1 c2 c3 : UInt8) (hv : b64IsValid [c0, c1, c2, c3] = true) :
    b64From (b64To [c0, c1, c2, c3]) = [c0, c1, c2, c3] := by
  unfold b64IsValid at hv
  unfold b64To
  rw [unpad4] at hv ⊢
  simp only [List.length_cons, List.length_nil, show (0 + 1 + 1 + 1 + 1) % 4 ≠ 0 ↔ False by simp, if_false] at hv
  by_cases h3 : c3 = 61
  · by_cases h2 : c2 = 61
    · -- "xy=="
      simp only [h3, h2, if_true] at hv ⊢
      simp only [show (2 : Nat) % 4 = 3 ↔ False by decide, show (2 : Nat) % 4 = 2 ↔ True by decide, if_false, if_true,
        show (2 : Nat) - 1 = 1 from rfl, List.getElem?_cons_succ, List.getElem?_cons_zero, List.take_succ_cons, List.take_zero,
        List.all_cons, List.all_nil, Bool.and_true] at hv
      by_cases h16 : b64Dec c1.toNat % 16 ≠ 0
      · rw [if_pos h16] at hv; cases hv
      · rw [if_neg h16] at hv
        have hc0 : b64Dec c0.toNat ≠ 255 := by simpa using hv
        have hc1 : b64Dec c1.toNat ≠ 255 := by omega
        obtain ⟨i0, l0, _⟩ := b64_digit_inv c0 hc0
        obtain ⟨i1, l1, _⟩ := b64_digit_inv c1 hc1
        simp only [List.take_succ_cons, List.take_zero, b64ToAux, b64From, toNat_oct]
        have e1 : (b64Dec c0.toNat * 64 + b64Dec c1.toNat) / 16 % 256 * 16 / 64 = b64Dec c0.toNat := by omega
        have e2 : (b64Dec c0.toNat * 64 + b64Dec c1.toNat) / 16 % 256 * 16 % 64 = b64Dec c1.toNat := by omega
        rw [e1, e2, i0, i1]
    · -- "xyz="
      simp only [h3, h2, if_true, if_false] at hv ⊢
      simp only [show (3 : Nat) % 4 = 3 ↔ True by decide, if_true,
        show (3 : Nat) - 1 = 2 from rfl, List.getElem?_cons_succ, List.getElem?_cons_zero, List.take_succ_cons, List.take_zero,
        List.all_cons, List.all_nil, Bool.and_true] at hv
      by_cases h4 : b64Dec c2.toNat % 4 ≠ 0
      · rw [if_pos h4] at hv; cases hv
      · rw [if_neg h4] at hv
        simp only [Bool.and_eq_true, decide_eq_true_eq] at hv
        have hc2 : b64Dec c2.toNat ≠ 255 := by omega
        obtain ⟨i0, l0, _⟩ := b64_digit_inv c0 hv.1
        obtain ⟨i1, l1, _⟩ := b64_digit_inv c1 hv.2
        obtain ⟨i2, l2, _⟩ := b64_digit_inv c2 hc2
        simp only [List.take_succ_cons, List.take_zero, b64ToAux, b64From, toNat_oct]
        generalize hb : ((b64Dec c0.toNat * 64 + b64Dec c1.toNat) * 64 + b64Dec c2.toNat) / 4 = blk
        have hblk : blk < 65536 := by omega
        have e : (blk / 256 % 256 * 256 + blk % 256) * 4 = (b64Dec c0.toNat * 64 + b64Dec c1.toNat) * 64 + b64Dec c2.toNat := by omega
        rw [e]
        have q0 : ((b64Dec c0.toNat * 64 + b64Dec c1.toNat) * 64 + b64Dec c2.toNat) / 4096 = b64Dec c0.toNat := by omega
        have q1 : ((b64Dec c0.toNat * 64 + b64Dec c1.toNat) * 64 + b64Dec c2.toNat) / 64 % 64 = b64Dec c1.toNat := by omega
        have q2 : ((b64Dec c0.toNat * 64 + b64Dec c1.toNat) * 64 + b64Dec c2.toNat) % 64 = b64Dec c2.toNat := by omega
        rw [q0, q1, q2, i0, i1, i2]
  · simp only [h3, if_false] at hv ⊢
    simp only [show (4 : Nat) % 4 = 3 ↔ False by decide, show (4 : Nat) % 4 = 2 ↔ False by decide, if_false,
      List.take_succ_cons, List.take_zero, List.all_cons, List.all_nil, Bool.and_true, Bool.and_eq_true, decide_eq_true_eq] at hv
    have := b64_block_inv c0 c1 c2 c3 hv.1 hv.2.1 hv.2.2.1 hv.2.2.2 []
    simp only [List.append_nil, b64From] at this
    simp only [List.take_succ_cons, List.take_zero]
    exact this

/-- CANONICAL (base64): b64From (b64To s) = s for every string b64IsValid accepts -/
theorem b64_canonical' : ∀ (n : Nat) (s : List UInt8), s.length ≤ n → b64IsValid s = true → b64From (b64To s) = s := by
  intro n
  induction n using Nat.strongRecOn with
  | _ n ih =>
    intro s hl hv
    match s, hl, hv with
    | [], _, _ => simp [b64To, b64Unpad, b64ToAux, b64From]
    | [_], _, hv => unfold b64IsValid at hv; simp at hv
    | [_, _], _, hv => unfold b64IsValid at hv; simp at hv
    | [_, _, _], _, hv => unfold b64IsValid at hv; simp at hv
    | [c0, c1, c2, c3], _, hv => exact b64_last c0 c1 c2 c3 hv
    | c0 :: c1 :: c2 :: c3 :: x :: rest, hl, hv =>
      have hlen4 : 4 ≤ (x :: rest).length := by
        have hm : (c0 :: c1 :: c2 :: c3 :: x :: rest).length % 4 = 0 := by
          unfold b64IsValid at hv
          by_cases hm : (c0 :: c1 :: c2 :: c3 :: x :: rest).length % 4 ≠ 0
          · rw [if_pos hm] at hv; cases hv
          · omega
        simp only [List.length_cons] at hm ⊢
        omega
      have happ : c0 :: c1 :: c2 :: c3 :: x :: rest = [c0, c1, c2, c3] ++ (x :: rest) := rfl
      rw [happ, b64IsValid_append _ _ rfl hlen4] at hv
      simp only [List.all_cons, List.all_nil, Bool.and_true, Bool.and_eq_true, decide_eq_true_eq] at hv
      obtain ⟨⟨h0, h1, h2, h3⟩, hrest⟩ := hv
      rw [happ, b64To_append c0 c1 c2 c3 _ hlen4, b64_block_inv c0 c1 c2 c3 h0 h1 h2 h3]
      simp only [List.length_cons] at hl
      rw [ih (n - 4) (by omega) (x :: rest) (by simp only [List.length_cons]; omega) hrest]


end Bee2V.C08

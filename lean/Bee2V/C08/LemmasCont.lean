/-
C08 — containers (Model3): a codec built from bounded steps never reads outside the input and
consumes at most the input.
-/
import Bee2V.C08.Model3
import Bee2V.C08.Lemmas
namespace Bee2V.C08

/-- a primitive that never over-reads and consumes at most what it is given -/
def BddPrim {α : Type} (f : List UInt8 → R α) (len : α → Nat) : Prop :=
  ∀ xs, xs.length < W → f xs ≠ .oob ∧ ∀ a, f xs = .ok a → len a ≤ xs.length

def BddStep (s : DStep) : Prop :=
  ∀ st p rest, rest.length < W → s st p rest ≠ .oob ∧ ∀ t st', s st p rest = .ok (t, st') → t ≤ rest.length

theorem runDec_bdd (der : List UInt8) (hlen : der.length < W) (steps : List DStep) (hall : ∀ s ∈ steps, BddStep s)
    (st : DSt) (p : Nat) (hp : p ≤ der.length) :
    runDec der steps st p ≠ .oob ∧ ∀ p' st', runDec der steps st p = .ok (p', st') → p ≤ p' ∧ p' ≤ der.length := by
  induction steps generalizing st p with
  | nil =>
    unfold runDec
    exact ⟨by simp, fun p' st' h => by cases h; exact ⟨Nat.le_refl _, hp⟩⟩
  | cons s ss ih =>
    have hs := hall s (List.mem_cons_self)
    have hss : ∀ s' ∈ ss, BddStep s' := fun s' h => hall s' (List.mem_cons_of_mem _ h)
    have hrl : (der.drop p).length < W := by rw [List.length_drop]; omega
    obtain ⟨hno, hb⟩ := hs st p (der.drop p) hrl
    unfold runDec
    cases hstep : s st p (der.drop p) with
    | ok r =>
      obtain ⟨t, st'⟩ := r
      have ht := hb t st' hstep
      rw [List.length_drop] at ht
      simp only []
      obtain ⟨h1, h2⟩ := ih hss st' (p + t) (by omega)
      exact ⟨h1, fun p' st'' h => by have := h2 p' st'' h; omega⟩
    | err => exact ⟨by simp, fun _ _ h => by cases h⟩
    | oob => exact absurd hstep hno

theorem bdd_dPrim (f : List UInt8 → R Nat) (hf : BddPrim f id) : BddStep (dPrim f) := by
  intro st p rest hl
  obtain ⟨h1, h2⟩ := hf rest hl
  unfold dPrim
  cases hfr : f rest with
  | ok t => exact ⟨by simp, fun t' st' h => by cases h; exact h2 t hfr⟩
  | err => exact ⟨by simp, fun _ _ h => by cases h⟩
  | oob => exact absurd hfr h1

theorem bdd_dOut (f : List UInt8 → R (List UInt8 × Nat)) (hf : BddPrim f Prod.snd) : BddStep (dOut f) := by
  intro st p rest hl
  obtain ⟨h1, h2⟩ := hf rest hl
  unfold dOut
  cases hfr : f rest with
  | ok r => obtain ⟨v, t⟩ := r; exact ⟨by simp, fun t' st' h => by cases h; exact h2 (v, t) hfr⟩
  | err => exact ⟨by simp, fun _ _ h => by cases h⟩
  | oob => exact absurd hfr h1

theorem bdd_dNum (f : List UInt8 → R (Nat × Nat)) (hf : BddPrim f Prod.snd) : BddStep (dNum f) := by
  intro st p rest hl
  obtain ⟨h1, h2⟩ := hf rest hl
  unfold dNum
  cases hfr : f rest with
  | ok r => obtain ⟨v, t⟩ := r; exact ⟨by simp, fun t' st' h => by cases h; exact h2 (v, t) hfr⟩
  | err => exact ⟨by simp, fun _ _ h => by cases h⟩
  | oob => exact absurd hfr h1

theorem bdd_dStart (slot tag : Nat) : BddStep (dStart slot tag) := by
  intro st p rest _
  unfold dStart
  rcases derTSEQDecStart_cases rest tag with e | ⟨a, c, e, hc, _⟩
  · rw [e]; exact ⟨by simp, fun _ _ h => by cases h⟩
  · rw [e]; exact ⟨by simp, fun t st' h => by cases h; exact hc⟩

theorem derTSEQDecStop_cases (pos : Nat) (a : Anchor) : derTSEQDecStop pos a = .err ∨ derTSEQDecStop pos a = .ok () := by
  unfold derTSEQDecStop
  simp only []
  split
  · exact Or.inl rfl
  · split
    · exact Or.inr rfl
    · exact Or.inl rfl

theorem bdd_dStop (slot : Nat) : BddStep (dStop slot) := by
  intro st p rest _
  unfold dStop
  cases st.anchors.find? (fun e => e.1 = slot) with
  | none => exact ⟨by simp, fun _ _ h => by cases h⟩
  | some e =>
    obtain ⟨_, p0, a⟩ := e
    simp only []
    rcases derTSEQDecStop_cases (p - p0) a with e | e
    · rw [e]; exact ⟨by simp, fun _ _ h => by cases h⟩
    · rw [e]; exact ⟨by simp, fun t st' h => by cases h; omega⟩

theorem bdd_dMark (k : Nat) : BddStep (dMark k) := by
  intro st p rest _
  unfold dMark
  exact ⟨by simp, fun t st' h => by cases h; omega⟩

theorem bdd_oidDec2 (oid : List UInt8) : BddPrim (oidDec2 oid) id := by
  intro xs hl
  unfold oidDec2
  rcases derOIDDec2_cases xs oid hl with e | ⟨c, e, hc⟩
  · rw [e]; exact ⟨by simp, fun _ h => by cases h⟩
  · rw [e]; exact ⟨by simp, fun a h => by cases h; exact hc⟩

theorem bdd_dAlt (alts : List (List UInt8 × Nat)) : BddStep (dAlt alts) := by
  induction alts with
  | nil => intro st p rest _; unfold dAlt; exact ⟨by simp, fun _ _ h => by cases h⟩
  | cons x xs ih =>
    obtain ⟨oid, len⟩ := x
    intro st p rest hl
    unfold dAlt
    rcases derOIDDec2_cases rest oid hl with e | ⟨c, e, hc⟩
    · rw [e]; exact ih st p rest hl
    · rw [e]; exact ⟨by simp, fun t st' h => by cases h; exact hc⟩

theorem bdd_dOctLen : BddStep dOctLen := by
  intro st p rest hl
  unfold dOctLen
  cases st.nums with
  | nil => exact ⟨by simp, fun _ _ h => by cases h⟩
  | cons len _ =>
    simp only []
    rcases derTOCTDec2_cases rest 4 len hl with e | ⟨v, c, e, hc⟩
    · rw [e]; exact ⟨by simp, fun _ _ h => by cases h⟩
    · rw [e]; exact ⟨by simp, fun t st' h => by cases h; exact hc⟩

theorem bdd_sizeDec2 (v : Nat) : BddPrim (sizeDec2 v) id := by
  intro xs hl
  unfold sizeDec2 derTSIZEDec2
  rcases derTSIZEDec_cases xs 2 hl with e | ⟨v', c, e, hc⟩
  · rw [e]; exact ⟨by simp, fun _ h => by cases h⟩
  · rw [e]; simp only []
    split
    · exact ⟨by simp, fun _ h => by cases h⟩
    · exact ⟨by simp, fun a h => by cases h; exact hc⟩

theorem bdd_nullDec : BddPrim nullDec id := by
  intro xs hl
  unfold nullDec
  rcases derDec4_cases xs 5 [] hl with e | ⟨c, e, hc⟩
  · rw [e]; exact ⟨by simp, fun _ h => by cases h⟩
  · rw [e]; exact ⟨by simp, fun a h => by cases h; exact hc⟩

theorem bdd_skipDec (tag : Nat) : BddPrim (skipDec tag) id := by
  intro xs hl
  unfold skipDec
  rcases derDec2_cases xs tag hl with e | ⟨off, len, c, e, _, _, _, _, hc⟩
  · rw [e]; exact ⟨by simp, fun _ h => by cases h⟩
  · rw [e]; exact ⟨by simp, fun a h => by cases h; exact hc⟩

theorem bdd_bitDec2 (len : Nat) : BddPrim (bitDec2 len) id := by
  intro xs hl
  unfold bitDec2
  rcases derTBITDec2_cases xs 3 len hl with e | ⟨v, c, e, hc⟩
  · rw [e]; exact ⟨by simp, fun _ h => by cases h⟩
  · rw [e]; exact ⟨by simp, fun a h => by cases h; exact hc⟩

theorem bdd_octDec2 (len : Nat) : BddPrim (fun r => derTOCTDec2 r 4 len) Prod.snd := by
  intro xs hl
  rcases derTOCTDec2_cases xs 4 len hl with e | ⟨v, c, e, hc⟩
  · simp only [e]; exact ⟨by simp, fun _ h => by cases h⟩
  · simp only [e]; exact ⟨by simp, fun a h => by cases h; exact hc⟩

theorem bdd_octDec : BddPrim (fun r => derTOCTDec r 4) Prod.snd := by
  intro xs hl
  rcases derTOCTDec_cases xs 4 hl with e | ⟨v, c, e, hc⟩
  · simp only [e]; exact ⟨by simp, fun _ h => by cases h⟩
  · simp only [e]; exact ⟨by simp, fun a h => by cases h; exact hc⟩

theorem bdd_sizeDec : BddPrim (fun r => derTSIZEDec r 2) Prod.snd := by
  intro xs hl
  rcases derTSIZEDec_cases xs 2 hl with e | ⟨v, c, e, hc⟩
  · simp only [e]; exact ⟨by simp, fun _ h => by cases h⟩
  · simp only [e]; exact ⟨by simp, fun a h => by cases h; exact hc⟩

theorem bdd_dUintP : BddStep dUintP := by
  intro st p rest hl
  unfold dUintP
  rcases derTUINTDec_cases rest 2 hl with e | ⟨v, c, e, hc⟩
  · rw [e]; exact ⟨by simp, fun _ _ h => by cases h⟩
  · rw [e]; simp only []
    split
    · exact ⟨by simp, fun _ _ h => by cases h⟩
    · exact ⟨by simp, fun t st' h => by cases h; exact hc⟩

theorem bdd_dUintLen : BddStep dUintLen := by
  intro st p rest hl
  unfold dUintLen
  cases st.nums with
  | nil => exact ⟨by simp, fun _ _ h => by cases h⟩
  | cons len _ =>
    simp only []
    rcases derTUINTDec2_cases rest 2 len hl with e | ⟨v, c, e, hc, _⟩
    · rw [e]; exact ⟨by simp, fun _ _ h => by cases h⟩
    · rw [e]; exact ⟨by simp, fun t st' h => by cases h; exact hc⟩

theorem bdd_dOpt (f : List UInt8 → R Nat) (hf : BddPrim f id) : BddStep (dOpt f) := by
  intro st p rest hl
  obtain ⟨h1, h2⟩ := hf rest hl
  unfold dOpt
  cases hfr : f rest with
  | ok t => exact ⟨by simp, fun t' st' h => by cases h; exact h2 t hfr⟩
  | err => exact ⟨by simp, fun t' st' h => by cases h; exact Nat.zero_le _⟩
  | oob => exact absurd hfr h1

theorem bdd_bitDec2v (len : Nat) : BddPrim (bitDec2v len) Prod.snd := by
  intro xs hl
  unfold bitDec2v
  rcases derTBITDec2_cases xs 3 len hl with e | ⟨v, c, e, hc⟩
  · rw [e]; exact ⟨by simp, fun _ h => by cases h⟩
  · rw [e]; exact ⟨by simp, fun a h => by cases h; exact hc⟩

end Bee2V.C08

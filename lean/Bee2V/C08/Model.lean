/-
C08 — executable, code-shaped model of src/core/der.c (T, L, TL, TLV, typed values, SEQ anchors).

Conventions
* An input `[count]der` is a `List UInt8`; `count` is its length.  Pointer advance `der + k, count - k`
  is `der.drop k`.  EVERY read of the input goes through `rd`, which is total: a read outside the
  list yields `R.oob`, so an out-of-bounds read of the model is observable (theorems `*_no_oob`).
* `size_t` arithmetic is done in `Nat` and reduced `% W` (W = 2^64) at every place where the C
  arithmetic can wrap (sums, shifts, differences); `u32` arithmetic is reduced `% U32`.
* Bit operations on octets are written arithmetically so that `omega` can reason about them:
  `x & 31` = `x % 32`, `x & 127` = `x % 128`, `x & 128 != 0` = `x / 128 % 2 = 1` (for an octet: `x ≥ 128`),
  `t << 8 | b` = `t * 256 + b` (b < 256).  The correspondence run checks these readings against the
  compiled code.
* `R.err` is the C result `SIZE_MAX` (or FALSE); optional output pointers are modelled as always given.
* The model follows the code of /repo *with docs/C08.fix-1..4.diff applied* (see docs/C08.md).
-/
namespace Bee2V.C08

/-- 2^64: size_t wraps modulo W -/
abbrev W : Nat := 18446744073709551616
abbrev SIZE_MAX : Nat := 18446744073709551615
abbrev U32 : Nat := 4294967296

/-- result of a modelled routine -/
inductive R (α : Type) where
  | ok : α → R α
  | err : R α
  | oob : R α
  deriving Repr, DecidableEq, Inhabited

namespace R
@[inline] def bind {α β} (x : R α) (f : α → R β) : R β :=
  match x with
  | ok a => f a
  | err => err
  | oob => oob
instance : Monad R where
  pure := ok
  bind := bind
def isOk {α} : R α → Bool
  | ok _ => true
  | _ => false
end R

/-- total read of octet `i` of the input; outside the input the model reports `oob` -/
def rd (xs : List UInt8) (i : Nat) : R Nat :=
  match xs[i]? with
  | some b => .ok b.toNat
  | none => .oob

/-- (octet)v -/
def oct (v : Nat) : UInt8 := UInt8.ofNat (v % 256)

/-- `for (; t; ++n, t >>= 8);` — number of significant octets of t (0 for t = 0) -/
def octLen (t : Nat) : Nat := if _h : t = 0 then 0 else 1 + octLen (t / 256)
termination_by t
decreasing_by omega

/-- `while (pos--) der[pos] = (octet)v, v >>= 8;` — n octets, big-endian, truncating -/
def beBytes : Nat → Nat → List UInt8
  | 0, _ => []
  | n + 1, v => beBytes n (v / 256) ++ [oct v]

/-! ### Field T -/

/-- loop of derTIsValid (after fix-1): `for (...; tag > 255; tag >>= 8, r += 7)`; `none` = return FALSE -/
def tValidLoop (tag t b r : Nat) : Option (Nat × Nat × Nat) :=
  if _h : tag > 255 then
    if tag % 256 / 128 = 0 then none
    else tValidLoop (tag / 256) ((t + (tag % 128) * 2 ^ r) % U32) (tag % 128) (r + 7)
  else some (tag, t, b)
termination_by tag
decreasing_by omega

def derTIsValid (tag : Nat) : Bool :=
  if tag < 256 then
    if tag % 32 = 31 then false else true
  else if tag % 256 / 128 = 1 then false
  else
    match tValidLoop (tag / 256) (tag % 128) (tag % 128) 7 with
    | none => false
    | some (tag', t, b) => if t < 31 ∨ b = 0 ∨ tag' % 32 ≠ 31 then false else true

/-- `for (; tag > 255; tag >>= 8);` -/
def firstOct (tag : Nat) : Nat := if _h : tag > 255 then firstOct (tag / 256) else tag
termination_by tag
decreasing_by omega

def derTIsPrimitive (tag : Nat) : Bool := firstOct tag / 32 % 2 = 0
def derTIsConstructive (tag : Nat) : Bool := !derTIsPrimitive tag

def derTEnc (tag : Nat) : R (List UInt8) :=
  if !derTIsValid tag then .err
  else
    let t_count := if octLen tag = 0 then 1 else octLen tag
    .ok (beBytes t_count tag)

/-- the scanning loop of derTDec: `for (t = 0; t_count < count;) {...}` -/
def tDecLoop (der : List UInt8) (count t t_count : Nat) : R (Nat × Nat) :=
  if _h : t_count < count then
    match rd der t_count with
    | .ok b =>
      let t' := (t * 256 + b % 128) % U32
      if b / 128 = 0 then .ok (t', t_count + 1) else tDecLoop der count t' (t_count + 1)
    | .err => .err
    | .oob => .oob
  else .ok (t, t_count)
termination_by count - t_count
decreasing_by omega

/-- `for (t = der[0], pos = 1; pos < t_count; ++pos) t <<= 8, t |= der[pos];` -/
def tagLoop (der : List UInt8) (t_count t pos : Nat) : R Nat :=
  if _h : pos < t_count then
    match rd der pos with
    | .ok b => tagLoop der t_count ((t * 256 + b) % U32) (pos + 1)
    | .err => .err
    | .oob => .oob
  else .ok t
termination_by t_count - pos
decreasing_by omega

/-- derTDec(&tag, der, count) = (tag, t_count) -/
def derTDec (der : List UInt8) : R (Nat × Nat) :=
  if der.length < 1 then .err else
  let count := min 4 der.length
  match rd der 0 with
  | .ok d0 =>
    let tc : R Nat :=
      if d0 % 32 = 31 then
        if count < 2 then .err else
        match rd der 1 with
        | .ok d1 =>
          if d1 % 128 = 0 then .err else
          match tDecLoop der count 0 1 with
          | .ok (t, t_count) =>
            match rd der (t_count - 1) with
            | .ok last => if last / 128 ≠ 0 ∨ t < 31 then .err else .ok t_count
            | .err => .err
            | .oob => .oob
          | .err => .err
          | .oob => .oob
        | .err => .err
        | .oob => .oob
      else .ok 1
    match tc with
    | .ok t_count =>
      match tagLoop der t_count d0 1 with
      | .ok tag => .ok (tag, t_count)
      | .err => .err
      | .oob => .oob
    | .err => .err
    | .oob => .oob
  | .err => .err
  | .oob => .oob

/-! ### Field L -/

def derLEnc (len : Nat) : List UInt8 :=
  if len < 128 then [oct len]
  else oct (octLen len + 128) :: beBytes (octLen len) len

/-- `for (l = 0, r = 1; r < l_count; ++r) l <<= 8, l |= der[r];` -/
def lDecLoop (der : List UInt8) (l_count l r : Nat) : R Nat :=
  if _h : r < l_count then
    match rd der r with
    | .ok b => lDecLoop der l_count ((l * 256 + b) % W) (r + 1)
    | .err => .err
    | .oob => .oob
  else .ok l
termination_by l_count - r
decreasing_by omega

/-- derLDec(&len, der, count) = (len, l_count) -/
def derLDec (der : List UInt8) : R (Nat × Nat) :=
  if der.length < 1 then .err else
  match rd der 0 with
  | .ok d0 =>
    if d0 = 128 ∨ d0 = 255 then .err
    else if d0 < 128 then .ok (d0, 1)
    else
      let r := d0 - 128
      let l_count := 1 + r
      if der.length < l_count ∨ r > 8 then .err else
      match rd der 1 with
      | .ok d1 =>
        if d1 = 0 ∨ (r = 1 ∧ d1 < 128) then .err else
        match lDecLoop der l_count 0 1 with
        | .ok l => if l = SIZE_MAX then .err else .ok (l, l_count)
        | .err => .err
        | .oob => .oob
      | .err => .err
      | .oob => .oob
  | .err => .err
  | .oob => .oob

/-! ### TL, TLV -/

/-- derTLDec(&tag, &len, der, count) = (tag, len, tl_count) -/
def derTLDec (der : List UInt8) : R (Nat × Nat × Nat) :=
  match derTDec der with
  | .ok (tag, t_count) =>
    match derLDec (der.drop t_count) with
    | .ok (l, l_count) =>
      if (t_count + l_count) % W > der.length then .err else .ok (tag, l, (t_count + l_count) % W)
    | .err => .err
    | .oob => .oob
  | .err => .err
  | .oob => .oob

def derTLEnc (tag len : Nat) : R (List UInt8) :=
  match derTEnc tag with
  | .ok t => .ok (t ++ derLEnc len)
  | .err => .err
  | .oob => .oob

def derEnc (tag : Nat) (val : List UInt8) : R (List UInt8) :=
  match derTEnc tag with
  | .ok t => .ok (t ++ derLEnc val.length ++ val)
  | .err => .err
  | .oob => .oob

/-- derDec(&tag, &val, &len, der, count) = (tag, val - der, len, result) -/
def derDec (der : List UInt8) : R (Nat × Nat × Nat × Nat) :=
  match derTLDec der with
  | .ok (tag, len, tl) =>
    if len > (der.length + W - tl) % W then .err else .ok (tag, tl, len, (tl + len) % W)
  | .err => .err
  | .oob => .oob

def derDec2 (der : List UInt8) (tag : Nat) : R (Nat × Nat × Nat) :=
  match derDec der with
  | .ok (t, off, len, c) => if t ≠ tag then .err else .ok (off, len, c)
  | .err => .err
  | .oob => .oob

def derDec3 (der : List UInt8) (tag len : Nat) : R (Nat × Nat) :=
  match derDec der with
  | .ok (t, off, l, c) => if t ≠ tag ∨ l ≠ len then .err else .ok (off, c)
  | .err => .err
  | .oob => .oob

/-- the octets `[len](der + off)` (reads checked) -/
def rdSlice (der : List UInt8) (off len : Nat) : R (List UInt8) :=
  if off + len ≤ der.length then .ok ((der.drop off).take len) else .oob

def derDec4 (der : List UInt8) (tag : Nat) (val : List UInt8) : R Nat :=
  match derDec der with
  | .ok (t, off, l, c) =>
    if t ≠ tag ∨ l ≠ val.length then .err else
    match rdSlice der off l with
    | .ok v => if v = val then .ok c else .err
    | .err => .err
    | .oob => .oob
  | .err => .err
  | .oob => .oob

def derIsValid (der : List UInt8) : R Unit :=
  match derTDec der with
  | .ok (_, t_count) =>
    match derLDec (der.drop t_count) with
    | .ok (len, l_count) => if der.length = (t_count + l_count + len) % W then .ok () else .err
    | .err => .err
    | .oob => .oob
  | .err => .err
  | .oob => .oob

def derIsValid2 (der : List UInt8) (tag : Nat) : R Unit :=
  match derTDec der with
  | .ok (t, t_count) =>
    if t ≠ tag then .err else
    match derLDec (der.drop t_count) with
    | .ok (len, l_count) => if der.length = (t_count + l_count + len) % W then .ok () else .err
    | .err => .err
    | .oob => .oob
  | .err => .err
  | .oob => .oob

def derStartsWith (der : List UInt8) (tag : Nat) : R Unit :=
  match derTDec der with
  | .ok (t, _) => if t = tag then .ok () else .err
  | .err => .err
  | .oob => .oob

/-! ### SIZE -/

/-- `for (; v >= 256; v >>= 8, ++len); len += v >> 7;` starting with len = 1 -/
def sizeLen (v : Nat) : Nat := if _h : v ≥ 256 then 1 + sizeLen (v / 256) else 1 + v / 128
termination_by v
decreasing_by omega

def derTSIZEEnc (tag val : Nat) : R (List UInt8) :=
  match derTEnc tag with
  | .ok t => .ok (t ++ derLEnc (sizeLen val) ++ beBytes (sizeLen val) val)
  | .err => .err
  | .oob => .oob

/-- `for (; pos < len; ++pos) v <<= 8, v |= der[pos];` -/
def sizeLoop (der : List UInt8) (len v pos : Nat) : R Nat :=
  if _h : pos < len then
    match rd der pos with
    | .ok b => sizeLoop der len ((v * 256 + b) % W) (pos + 1)
    | .err => .err
    | .oob => .oob
  else .ok v
termination_by len - pos
decreasing_by omega

/-- derTSIZEDec(&val, der, count, tag) = (val, result) -/
def derTSIZEDec (der : List UInt8) (tag : Nat) : R (Nat × Nat) :=
  match derTDec der with
  | .ok (t, t_count) =>
    if t ≠ tag then .err else
    let der1 := der.drop t_count
    match derLDec der1 with
    | .ok (len, l_count) =>
      if len = 0 ∨ len > 9 then .err else
      let der2 := der1.drop l_count
      if len > der2.length then .err else
      match rd der2 0 with
      | .ok d0 =>
        -- (der[0] & 0x80) || der[0] == 0 && len > 1 && (der[1] & 0x80) == 0 || len == 9 && der[0] != 0
        let c2 : R Bool :=
          if d0 ≥ 128 then .ok true
          else if d0 = 0 ∧ len > 1 then
            match rd der2 1 with
            | .ok d1 => .ok (d1 < 128 ∨ (len = 9 ∧ d0 ≠ 0))
            | .err => .err
            | .oob => .oob
          else .ok (len = 9 ∧ d0 ≠ 0)
        match c2 with
        | .ok bad =>
          if bad then .err else
          match sizeLoop der2 len 0 0 with
          | .ok v => .ok (v, (t_count + l_count + len) % W)
          | .err => .err
          | .oob => .oob
        | .err => .err
        | .oob => .oob
      | .err => .err
      | .oob => .oob
    | .err => .err
    | .oob => .oob
  | .err => .err
  | .oob => .oob

def derTSIZEDec2 (der : List UInt8) (tag val : Nat) : R Nat :=
  match derTSIZEDec der tag with
  | .ok (v, c) => if v ≠ val then .err else .ok c
  | .err => .err
  | .oob => .oob

/-! ### UINT (value = little-endian octets) -/

/-- the C loop literally, on (val, len): drop trailing zero octets while len > 1 -/
def uintStrip (val : List UInt8) : Nat → Nat
  | 0 => 0
  | len + 1 =>
    if len + 1 > 1 ∧ val[len]? = some 0 then uintStrip val len else len + 1

/-- derTUINTEnc(der, tag, val, len), pre len > 0 -/
def derTUINTEnc (tag : Nat) (val : List UInt8) : R (List UInt8) :=
  if val.length = 0 then .oob else
  let len := uintStrip val val.length
  match val[len - 1]? with
  | some top =>
    let ex := if top.toNat ≥ 128 then 1 else 0
    match derTLEnc tag ((len + ex) % W) with
    | .ok tl => .ok (tl ++ (val.take len ++ (if ex = 1 then [0] else [])).reverse)
    | .err => .err
    | .oob => .oob
  | none => .oob

/-- common part of derTUINTDec/derTUINTDec2: (v offset, l, ex, count) -/
def uintCore (der : List UInt8) (tag : Nat) : R (Nat × Nat × Nat × Nat) :=
  match derDec2 der tag with
  | .ok (off, l, c) =>
    if l < 1 then .err else
    match rd der off with
    | .ok v0 =>
      if v0 ≥ 128 then .err
      else if v0 = 0 ∧ l > 1 then
        match rd der (off + 1) with
        | .ok v1 => if v1 < 128 then .err else .ok (off, l, 1, c)
        | .err => .err
        | .oob => .oob
      else .ok (off, l, 0, c)
    | .err => .err
    | .oob => .oob
  | .err => .err
  | .oob => .oob

/-- derTUINTDec(val, &len, der, count, tag) = (val (little-endian), result) -/
def derTUINTDec (der : List UInt8) (tag : Nat) : R (List UInt8 × Nat) :=
  match uintCore der tag with
  | .ok (off, l, ex, c) =>
    match rdSlice der (off + ex) (l - ex) with
    | .ok v => .ok (v.reverse, c)
    | .err => .err
    | .oob => .oob
  | .err => .err
  | .oob => .oob

def derTUINTDec2 (der : List UInt8) (tag len : Nat) : R (List UInt8 × Nat) :=
  match uintCore der tag with
  | .ok (off, l, ex, c) =>
    if l - ex ≠ len then .err else
    match rdSlice der (off + ex) len with
    | .ok v => .ok (v.reverse, c)
    | .err => .err
    | .oob => .oob
  | .err => .err
  | .oob => .oob

/-! ### BIT -/

/-- `o >>= 8 - k; o <<= 8 - k` on an octet (k = len % 8 ≠ 0): keep the k high bits -/
def maskHi (o : UInt8) (k : Nat) : UInt8 := oct (o.toNat / 2 ^ (8 - k) * 2 ^ (8 - k))

/-- derTBITEnc(der, tag, val, len): val has (len + 7) / 8 octets -/
def derTBITEnc (tag : Nat) (val : List UInt8) (len : Nat) : R (List UInt8) :=
  let n := (len + 7) % W / 8
  let vl := (len + 15) % W / 8
  match derTEnc tag with
  | .ok t =>
    match rdSlice val 0 n with
    | .ok v =>
      let body : R (List UInt8) :=
        if len % 8 ≠ 0 then
          match v[len / 8]? with
          | some o => .ok (oct (8 - len % 8) :: (v.take (len / 8) ++ [maskHi o (len % 8)]))
          | none => .oob
        else .ok (0 :: v)
      match body with
      | .ok b => .ok (t ++ derLEnc vl ++ b)
      | .err => .err
      | .oob => .oob
    | .err => .err
    | .oob => .oob
  | .err => .err
  | .oob => .oob

/-- common part of derTBITDec/Dec2 (after fix-2): (offset of v, l, v[0], count) -/
def bitCore (der : List UInt8) (tag : Nat) : R (Nat × Nat × Nat × Nat) :=
  match derDec2 der tag with
  | .ok (off, l, c) =>
    if l < 1 then .err else
    match rd der off with
    | .ok v0 =>
      if v0 > 7 ∨ (v0 ≠ 0 ∧ l = 1) then .err else
      match rd der (off + (l - 1)) with
      | .ok vl => if vl % 2 ^ v0 ≠ 0 then .err else .ok (off, l, v0, c)
      | .err => .err
      | .oob => .oob
    | .err => .err
    | .oob => .oob
  | .err => .err
  | .oob => .oob

/-- derTBITDec(val, &len, der, count, tag) = (val, bit length, result) -/
def derTBITDec (der : List UInt8) (tag : Nat) : R (List UInt8 × Nat × Nat) :=
  match bitCore der tag with
  | .ok (off, l, v0, c) =>
    match rdSlice der (off + 1) (l - 1) with
    | .ok v => .ok (v, ((l - 1) * 8 + W - v0) % W, c)
    | .err => .err
    | .oob => .oob
  | .err => .err
  | .oob => .oob

def derTBITDec2 (der : List UInt8) (tag len : Nat) : R (List UInt8 × Nat) :=
  match bitCore der tag with
  | .ok (off, l, v0, c) =>
    if ((l - 1) * 8) % W ≠ (len + v0) % W then .err else
    match rdSlice der (off + 1) (l - 1) with
    | .ok v => .ok (v, c)
    | .err => .err
    | .oob => .oob
  | .err => .err
  | .oob => .oob

/-! ### OCT -/

def derTOCTDec (der : List UInt8) (tag : Nat) : R (List UInt8 × Nat) :=
  match derDec2 der tag with
  | .ok (off, l, c) =>
    match rdSlice der off l with
    | .ok v => .ok (v, c)
    | .err => .err
    | .oob => .oob
  | .err => .err
  | .oob => .oob

def derTOCTDec2 (der : List UInt8) (tag len : Nat) : R (List UInt8 × Nat) :=
  match derDec3 der tag len with
  | .ok (off, c) =>
    match rdSlice der off len with
    | .ok v => .ok (v, c)
    | .err => .err
    | .oob => .oob
  | .err => .err
  | .oob => .oob

/-! ### PSTR (after fix-4) -/

def isPrintable (ch : Nat) : Bool :=
  (48 ≤ ch ∧ ch ≤ 57) ∨ (65 ≤ ch ∧ ch ≤ 90) ∨ (97 ≤ ch ∧ ch ≤ 122) ∨
  ch = 32 ∨ ch = 39 ∨ ch = 40 ∨ ch = 41 ∨ ch = 43 ∨ ch = 44 ∨ ch = 45 ∨ ch = 46 ∨ ch = 47 ∨
  ch = 58 ∨ ch = 61 ∨ ch = 63

/-- a C string given as the octets before its terminating NUL -/
def strOK (s : List UInt8) : Bool := s.all (fun c => c ≠ 0)

def derTPSTREnc (tag : Nat) (val : List UInt8) : R (List UInt8) :=
  if !(val.all fun c => isPrintable c.toNat) then .err else derEnc tag val

/-- `for (pos = 0; pos < l; ++pos)` check of derTPSTRDec -/
def pstrLoop (der : List UInt8) (off l pos : Nat) : R Unit :=
  if _h : pos < l then
    match rd der (off + pos) with
    | .ok ch => if isPrintable ch then pstrLoop der off l (pos + 1) else .err
    | .err => .err
    | .oob => .oob
  else .ok ()
termination_by l - pos
decreasing_by omega

def derTPSTRDec (der : List UInt8) (tag : Nat) : R (List UInt8 × Nat) :=
  match derDec2 der tag with
  | .ok (off, l, c) =>
    match pstrLoop der off l 0 with
    | .ok () =>
      match rdSlice der off l with
      | .ok v => .ok (v, c)
      | .err => .err
      | .oob => .oob
    | .err => .err
    | .oob => .oob
  | .err => .err
  | .oob => .oob

/-! ### SEQ anchors -/

structure Anchor where
  pos : Nat
  tag : Nat
  len : Nat
  deriving Repr, DecidableEq

/-- derTSEQEncStart(anchor, der, pos, tag): returns the octets written at `pos` -/
def derTSEQEncStart (pos tag : Nat) : R (Anchor × List UInt8) :=
  if !derTIsValid tag ∨ !derTIsConstructive tag then .err else
  match derEnc tag [] with
  | .ok e => .ok (⟨pos, tag, 0⟩, e)
  | .err => .err
  | .oob => .oob

/-- length of the T code without validity check result (derTEnc(0, tag) as used in Stop;
    SIZE_MAX if the tag is invalid) -/
def tEncLen (tag : Nat) : Nat :=
  match derTEnc tag with
  | .ok t => t.length
  | _ => SIZE_MAX

/-- derTSEQEncStop(der, pos, anchor) on the buffer `buf` written so far (|buf| = pos):
    (returned shift, buffer after the stop) -/
def derTSEQEncStop (buf : List UInt8) (a : Anchor) : R (Nat × List UInt8) :=
  let pos := buf.length
  let t_count := tEncLen a.tag
  let l_count := (derLEnc a.len).length
  if (a.pos + t_count + l_count) % W > pos then .err else
  let len := (pos + 3 * W - a.pos - t_count - l_count) % W
  let l_count1 := (derLEnc len).length
  let shift := (l_count1 + W - l_count) % W
  -- memMove(der - len + shift, der - len, len); derLEnc(der - len - l_count, len)
  if len + l_count ≤ pos then
    .ok (shift, buf.take (pos - len - l_count) ++ derLEnc len ++ buf.drop (pos - len))
  else .oob

/-- derTSEQDecStart(anchor, der, count, tag) = (anchor, result) -/
def derTSEQDecStart (der : List UInt8) (tag : Nat) : R (Anchor × Nat) :=
  if !derTIsConstructive tag then .err else
  match derTDec der with
  | .ok (t, t_count) =>
    if t ≠ tag then .err else
    match derLDec (der.drop t_count) with
    | .ok (len, l_count) => .ok (⟨0, t, len⟩, (t_count + l_count) % W)
    | .err => .err
    | .oob => .oob
  | .err => .err
  | .oob => .oob

/-- derTSEQDecStop(der, anchor) with `der - anchor->der = pos`: ok = returns 0 -/
def derTSEQDecStop (pos : Nat) (a : Anchor) : R Unit :=
  let v := (tEncLen a.tag + (derLEnc a.len).length) % W
  if v > pos then .err else
  if pos = (v + a.len) % W then .ok () else .err

end Bee2V.C08

/-
C08 — model, part 3: containers of src/crypto/bpki.c as compositions of the primitive models.

A container codec in the C code is a straight sequence of `derDecStep(<primitive>(ptr, count), ptr, count)`
lines, some of them opening / closing SEQUENCE anchors.  The model keeps exactly that shape: a codec is
a LIST OF STEPS run by a small interpreter (`runDec`); a step sees the state (anchors, outputs so far),
the position `p = ptr - base` and the rest of the input `[count]ptr = der.drop p`, and returns the number
of octets it consumed.  Encoders are lists of steps over an output buffer (`runEnc`) using the
derTSEQEncStart/Stop models.
-/
import Bee2V.C08.Model2
namespace Bee2V.C08

/-- the characters of a C string literal -/
def cstr (s : String) : List UInt8 := s.toUTF8.toList

def oid_bign_pubkey := cstr "1.2.112.0.2.0.34.101.45.2.1"
def oid_bign_curve192v1 := cstr "1.2.112.0.2.0.34.101.45.3.0"
def oid_bign_curve256v1 := cstr "1.2.112.0.2.0.34.101.45.3.1"
def oid_bign_curve384v1 := cstr "1.2.112.0.2.0.34.101.45.3.2"
def oid_bign_curve512v1 := cstr "1.2.112.0.2.0.34.101.45.3.3"
def oid_bign_with_hbelt := cstr "1.2.112.0.2.0.34.101.45.12"
def oid_bels_share := cstr "1.2.112.0.2.0.34.101.60.11"
def oid_bels_m0128v1 := cstr "1.2.112.0.2.0.34.101.60.2.1"
def oid_bels_m0192v1 := cstr "1.2.112.0.2.0.34.101.60.2.2"
def oid_bels_m0256v1 := cstr "1.2.112.0.2.0.34.101.60.2.3"
def oid_id_pbes2 := cstr "1.2.840.113549.1.5.13"
def oid_id_pbkdf2 := cstr "1.2.840.113549.1.5.12"
def oid_belt_kwp256 := cstr "1.2.112.0.2.0.34.101.31.73"
def oid_hmac_hbelt := cstr "1.2.112.0.2.0.34.101.47.12"

/-! ### decoding interpreter -/

structure DSt where
  anchors : List (Nat × Nat × Anchor) := []   -- slot ↦ (position of the SEQUENCE, anchor)
  outs : List (List UInt8) := []              -- octet strings written to output parameters, in order
  nums : List Nat := []                       -- numbers written / remembered (lengths, counters, offsets), newest first
  deriving Repr

/-- one `derDecStep(...)` line: state, position, rest of the input ↦ (consumed, new state) -/
abbrev DStep := DSt → Nat → List UInt8 → R (Nat × DSt)

def runDec (der : List UInt8) : List DStep → DSt → Nat → R (Nat × DSt)
  | [], st, p => .ok (p, st)
  | s :: ss, st, p =>
    match s st p (der.drop p) with
    | .ok (t, st') => runDec der ss st' (p + t)
    | .err => .err
    | .oob => .oob

/-- derDecStep(f(ptr, count), ptr, count) for a primitive that only checks -/
def dPrim (f : List UInt8 → R Nat) : DStep := fun st _ rest =>
  match f rest with
  | .ok t => .ok (t, st)
  | .err => .err
  | .oob => .oob

/-- … for a primitive that also returns an octet string -/
def dOut (f : List UInt8 → R (List UInt8 × Nat)) : DStep := fun st _ rest =>
  match f rest with
  | .ok (v, t) => .ok (t, { st with outs := st.outs ++ [v] })
  | .err => .err
  | .oob => .oob

/-- … for a primitive that also returns a number -/
def dNum (f : List UInt8 → R (Nat × Nat)) : DStep := fun st _ rest =>
  match f rest with
  | .ok (v, t) => .ok (t, { st with nums := v :: st.nums })
  | .err => .err
  | .oob => .oob

/-- derDecStep(derTSEQDecStart(anchor[slot], ptr, count, tag), ptr, count) -/
def dStart (slot tag : Nat) : DStep := fun st p rest =>
  match derTSEQDecStart rest tag with
  | .ok (a, t) => .ok (t, { st with anchors := (slot, p, a) :: st.anchors })
  | .err => .err
  | .oob => .oob

/-- derDecStep(derTSEQDecStop(ptr, anchor[slot]), ptr, count) -/
def dStop (slot : Nat) : DStep := fun st p _ =>
  match st.anchors.find? (fun e => e.1 = slot) with
  | some (_, p0, a) =>
    match derTSEQDecStop (p - p0) a with
    | .ok () => .ok (0, st)
    | .err => .err
    | .oob => .oob
  | none => .err

/-- `if ((t = derOIDDec2(ptr, count, oid_1)) != SIZE_MAX) len = l_1; else if … else return SIZE_MAX;` -/
def dAlt : List (List UInt8 × Nat) → DStep
  | [] => fun _ _ _ => .err
  | (oid, len) :: alts => fun st p rest =>
    match derOIDDec2 rest oid with
    | .ok t => .ok (t, { st with nums := len :: st.nums })
    | .err => dAlt alts st p rest
    | .oob => .oob

/-- derOCTDec2(out, ptr, count, len) with `len` the number remembered last -/
def dOctLen : DStep := fun st _ rest =>
  match st.nums with
  | len :: _ =>
    match derTOCTDec2 rest 4 len with
    | .ok (v, t) => .ok (t, { st with outs := st.outs ++ [v] })
    | .err => .err
    | .oob => .oob
  | [] => .err

/-- `ci->x_offset = ptr - csr - k;` -/
def dMark (k : Nat) : DStep := fun st p _ => .ok (0, { st with nums := (p - k) :: st.nums })

def oidDec2 (oid : List UInt8) : List UInt8 → R Nat := fun r => derOIDDec2 r oid
def sizeDec2 (v : Nat) : List UInt8 → R Nat := fun r => derTSIZEDec2 r 2 v
def nullDec : List UInt8 → R Nat := fun r => derDec4 r 5 []
def skipDec (tag : Nat) : List UInt8 → R Nat := fun r =>
  match derDec2 r tag with
  | .ok (_, _, c) => .ok c
  | .err => .err
  | .oob => .oob
def bitDec2 (len : Nat) : List UInt8 → R Nat := fun r =>
  match derTBITDec2 r 3 len with
  | .ok (_, c) => .ok c
  | .err => .err
  | .oob => .oob

/-! ### bpki.c decoders -/

/-- bpkiPrivkeyDec(privkey, &privkey_len, pki, count) -/
def bpkiPrivkeyDecSteps : List DStep := [
  dStart 0 0x30,
    dPrim (sizeDec2 0),
    dStart 1 0x30,
      dPrim (oidDec2 oid_bign_pubkey),
      dAlt [(oid_bign_curve192v1, 24), (oid_bign_curve256v1, 32), (oid_bign_curve384v1, 48), (oid_bign_curve512v1, 64)],
    dStop 1,
    dOctLen,
  dStop 0]

/-- bpkiShareDec(share, &share_len, pki, count) -/
def bpkiShareDecSteps : List DStep := [
  dStart 0 0x30,
    dPrim (sizeDec2 0),
    dStart 1 0x30,
      dPrim (oidDec2 oid_bels_share),
      dAlt [(oid_bels_m0128v1, 17), (oid_bels_m0192v1, 25), (oid_bels_m0256v1, 33)],
    dStop 1,
    dOctLen,
  dStop 0]

/-- bpkiEdataDec(edata, &edata_len, salt, &iter, epki, count) -/
def bpkiEdataDecSteps : List DStep := [
  dStart 0 0x30,                                   -- EPKI
    dStart 1 0x30,                                 -- EncryptionAlgId
      dPrim (oidDec2 oid_id_pbes2),
      dStart 2 0x30,                               -- PBES2_params
        dStart 3 0x30,                             -- PBKDF2AlgId
          dPrim (oidDec2 oid_id_pbkdf2),
          dStart 4 0x30,                           -- PBKDF2_params
            dOut (fun r => derTOCTDec2 r 4 8),     -- salt
            dNum (fun r => derTSIZEDec r 2),       -- iter
            dStart 5 0x30,                         -- PrfAlgId
              dPrim (oidDec2 oid_hmac_hbelt),
              dPrim nullDec,
            dStop 5,
          dStop 4,
        dStop 3,
        dStart 6 0x30,                             -- BeltKwpAlgId
          dPrim (oidDec2 oid_belt_kwp256),
          dPrim nullDec,
        dStop 6,
      dStop 2,
    dStop 1,
    dOut (fun r => derTOCTDec r 4),                -- encData
  dStop 0]

/-- bpkiCSRDec(ci, csr, count): nums = sig_offset, body_len-end, pubkey_offset, body_offset (newest first) -/
def bpkiCSRDecSteps : List DStep := [
  dStart 0 0x30,                                   -- CertReq
    dMark 0,                                       -- body_offset
    dStart 1 0x30,                                 -- CertReqInfo
      dPrim (sizeDec2 0),
      dPrim (skipDec 0x30),                        -- subject (skipped)
      dStart 2 0x30,                               -- SPKI
        dStart 3 0x30,                             -- AlgId
          dPrim (oidDec2 oid_bign_pubkey),
          dPrim (oidDec2 oid_bign_curve256v1),
        dStop 3,
        dPrim (bitDec2 512),
        dMark 64,                                  -- pubkey_offset
      dStop 2,
      dPrim (skipDec 0xA0),                        -- attributes (skipped)
    dStop 1,
    dMark 0,                                       -- body end
    dStart 3 0x30,                                 -- AlgId (the C code reuses the anchor)
      dPrim (oidDec2 oid_bign_with_hbelt),
      dPrim nullDec,
    dStop 3,
    dPrim (bitDec2 384),
    dMark 48,                                      -- sig_offset
  dStop 0]

def bpkiPrivkeyDec (pki : List UInt8) : R (Nat × DSt) := runDec pki bpkiPrivkeyDecSteps {} 0
def bpkiShareDec (pki : List UInt8) : R (Nat × DSt) := runDec pki bpkiShareDecSteps {} 0
def bpkiEdataDec (epki : List UInt8) : R (Nat × DSt) := runDec epki bpkiEdataDecSteps {} 0
def bpkiCSRDec (csr : List UInt8) : R (Nat × DSt) := runDec csr bpkiCSRDecSteps {} 0

/-! ### encoding interpreter -/

inductive EStep where
  | bytes (e : R (List UInt8))      -- derEncStep(<primitive encoder>(der, …), der, count)
  | start (slot tag : Nat)          -- derEncStep(derTSEQEncStart(anchor[slot], der, count, tag), …)
  | stop (slot : Nat)               -- derEncStep(derTSEQEncStop(der, count, anchor[slot]), …)

def runEnc : List EStep → List UInt8 → List (Nat × Anchor) → R (List UInt8)
  | [], buf, _ => .ok buf
  | .bytes e :: ss, buf, an =>
    match e with
    | .ok b => runEnc ss (buf ++ b) an
    | .err => .err
    | .oob => .oob
  | .start slot tag :: ss, buf, an =>
    match derTSEQEncStart buf.length tag with
    | .ok (a, b) => runEnc ss (buf ++ b) ((slot, a) :: an)
    | .err => .err
    | .oob => .oob
  | .stop slot :: ss, buf, an =>
    match an.find? (fun e => e.1 = slot) with
    | some (_, a) =>
      match derTSEQEncStop buf a with
      | .ok (_, buf') => runEnc ss buf' an
      | .err => .err
      | .oob => .oob
    | none => .err

/-- bpkiPrivkeyEnc(pki, privkey, privkey_len), pre privkey_len ∈ {24, 32, 48, 64} -/
def bpkiPrivkeyEnc (privkey : List UInt8) : R (List UInt8) :=
  runEnc [
    .start 0 0x30,
      .bytes (derTSIZEEnc 2 0),
      .start 1 0x30,
        .bytes (derOIDEnc oid_bign_pubkey),
        .bytes (derOIDEnc (if privkey.length = 24 then oid_bign_curve192v1 else if privkey.length = 32 then oid_bign_curve256v1
          else if privkey.length = 48 then oid_bign_curve384v1 else oid_bign_curve512v1)),
      .stop 1,
      .bytes (derEnc 4 privkey),
    .stop 0] [] []

/-- bpkiShareEnc(pki, share, share_len), pre share_len ∈ {17, 25, 33} -/
def bpkiShareEnc (share : List UInt8) : R (List UInt8) :=
  runEnc [
    .start 0 0x30,
      .bytes (derTSIZEEnc 2 0),
      .start 1 0x30,
        .bytes (derOIDEnc oid_bels_share),
        .bytes (derOIDEnc (if share.length = 17 then oid_bels_m0128v1 else if share.length = 25 then oid_bels_m0192v1
          else oid_bels_m0256v1)),
      .stop 1,
      .bytes (derEnc 4 share),
    .stop 0] [] []

/-- bpkiEdataEnc(epki, edata, edata_len, salt, iter) -/
def bpkiEdataEnc (edata salt : List UInt8) (iter : Nat) : R (List UInt8) :=
  runEnc [
    .start 0 0x30,
      .start 1 0x30,
        .bytes (derOIDEnc oid_id_pbes2),
        .start 2 0x30,
          .start 3 0x30,
            .bytes (derOIDEnc oid_id_pbkdf2),
            .start 4 0x30,
              .bytes (derEnc 4 salt),
              .bytes (derTSIZEEnc 2 iter),
              .start 5 0x30,
                .bytes (derOIDEnc oid_hmac_hbelt),
                .bytes (derEnc 5 []),
              .stop 5,
            .stop 4,
          .stop 3,
          .start 6 0x30,
            .bytes (derOIDEnc oid_belt_kwp256),
            .bytes (derEnc 5 []),
          .stop 6,
        .stop 2,
      .stop 1,
      .bytes (derEnc 4 edata),
    .stop 0] [] []

end Bee2V.C08

namespace Bee2V.C08

/-! ### bign_params.c: bignParamsEnc_internal / bignParamsDec_internal -/

def oid_bign_primefield := cstr "1.2.112.0.2.0.34.101.45.4.1"

/-- `if (derUINTDec(0, &len, ptr, count) == SIZE_MAX || len != 32 && len != 48 && len != 64) return SIZE_MAX;
    params->l = len * 4; derDecStep(derUINTDec(params->p, &len, ptr, count), ptr, count);` -/
def dUintP : DStep := fun st _ rest =>
  match derTUINTDec rest 2 with
  | .ok (v, t) =>
    if v.length ≠ 32 ∧ v.length ≠ 48 ∧ v.length ≠ 64 then .err
    else .ok (t, { st with outs := st.outs ++ [v], nums := v.length :: st.nums })
  | .err => .err
  | .oob => .oob

/-- derUINTDec2(out, ptr, count, len) with `len` the number remembered last -/
def dUintLen : DStep := fun st _ rest =>
  match st.nums with
  | len :: _ =>
    match derTUINTDec2 rest 2 len with
    | .ok (v, t) => .ok (t, { st with outs := st.outs ++ [v] })
    | .err => .err
    | .oob => .oob
  | [] => .err

/-- derDecStep2: an optional element (`if (t != SIZE_MAX) ptr += t, count -= t`) -/
def dOpt (f : List UInt8 → R Nat) : DStep := fun st _ rest =>
  match f rest with
  | .ok t => .ok (t, st)
  | .err => .ok (0, st)
  | .oob => .oob

def bitDec2v (len : Nat) : List UInt8 → R (List UInt8 × Nat) := fun r => derTBITDec2 r 3 len

/-- bignParamsDec_internal: outs = [p, a, b, seed, yG, q], nums = [len] -/
def bignParamsDecSteps : List DStep := [
  dStart 0 0x30,
    dPrim (sizeDec2 1),
    dStart 1 0x30,
      dPrim (oidDec2 oid_bign_primefield),
      dUintP,
    dStop 1,
    dStart 2 0x30,
      dOctLen,
      dOctLen,
      dOut (bitDec2v 64),
    dStop 2,
    dOctLen,
    dUintLen,
    dOpt (sizeDec2 1),
  dStop 0]

def bignParamsDecI (der : List UInt8) : R (Nat × DSt) := runDec der bignParamsDecSteps {} 0

/-- bignParamsDec: the internal decoder must consume the whole input -/
def bignParamsDec (der : List UInt8) : R DSt :=
  match bignParamsDecI der with
  | .ok (c, st) => if c ≠ der.length then .err else .ok st
  | .err => .err
  | .oob => .oob

/-- bignIsOperable on the decoded / given fields (no = l / 4 octets each, little-endian) -/
def bignIsOperable (p a b q : List UInt8) : Bool :=
  (p.headD 0).toNat % 4 = 3 ∧ (q.headD 0).toNat % 2 = 1 ∧ (p.getLastD 0).toNat ≥ 128 ∧ (q.getLastD 0).toNat ≥ 128 ∧
  a.any (· ≠ 0) ∧ b.any (· ≠ 0)

/-- bignParamsEnc_internal(der, params): fields of l / 4 octets -/
def bignParamsEncI (p a b q yG seed : List UInt8) : R (List UInt8) :=
  runEnc [
    .start 0 0x30,
      .bytes (derTSIZEEnc 2 1),
      .start 1 0x30,
        .bytes (derOIDEnc oid_bign_primefield),
        .bytes (derTUINTEnc 2 p),
      .stop 1,
      .start 2 0x30,
        .bytes (derEnc 4 a),
        .bytes (derEnc 4 b),
        .bytes (derTBITEnc 3 seed 64),
      .stop 2,
      .bytes (derEnc 4 yG),
      .bytes (derTUINTEnc 2 q),
    .stop 0] [] []

end Bee2V.C08

/-
C08 — property theorems, part 7: OBJECT IDENTIFIER (der.c derOID*, oid.c) — canonical form.
-/
import Bee2V.C08.LemmasSid
import Bee2V.C08.Model3
namespace Bee2V.C08

/-- CANONICAL (OID): whatever derOIDDec accepts is exactly derOIDEnc of the dotted decimal string it
    returns: the string is valid (oidIsValid), every arc is in its minimal base-128 form, no arc
    overflows 32 bits, the first two arcs are combined as 40·d1 + d2 (needs the F16 fix: no truncated
    last arc, no empty OID). -/
theorem derOIDDec_canonical (der : List UInt8) (hlen : der.length < W) (s : List UInt8) (c : Nat)
    (h : derOIDDec der = .ok (s, c)) : derOIDEnc s = .ok (der.take c) := derOIDDec_canonical' der hlen s c h
example : derOIDDec [0x06, 0x03, 0x2A, 0x92, 0x29, 0x77] = .ok (cstr "1.2.2345", 5) ∧
    derOIDEnc (cstr "1.2.2345") = .ok [0x06, 0x03, 0x2A, 0x92, 0x29] := by decide +kernel

/-- the decoded string is always a valid OID string -/
theorem derOIDDec_valid (der : List UInt8) (hlen : der.length < W) (s : List UInt8) (c : Nat)
    (h : derOIDDec der = .ok (s, c)) : oidIsValid s = true := by
  have := derOIDDec_canonical' der hlen s c h
  unfold derOIDEnc at this
  by_cases hv : oidIsValid s = true
  · exact hv
  · have hf : oidIsValid s = false := by simpa using hv
    rw [hf] at this; simp at this

/-- oidFromDER followed by oidToDER gives back the input (the whole input is the code) -/
theorem oidFromDER_canonical (der : List UInt8) (hlen : der.length < W) (s : List UInt8)
    (h : oidFromDER der = .ok s) : derOIDEnc s = .ok der := by
  unfold oidFromDER at h
  cases hd : derOIDDec der with
  | ok r =>
    obtain ⟨s', c⟩ := r
    rw [hd] at h; simp only [] at h
    by_cases hc : c ≠ der.length
    · rw [if_pos hc] at h; cases h
    · rw [if_neg hc] at h; cases h
      have := derOIDDec_canonical' der hlen s c hd
      rw [this, show c = der.length by omega, List.take_length]
  | err => rw [hd] at h; cases h
  | oob => rw [hd] at h; cases h

/-- ROUND TRIP (OID): whatever derOIDEnc produces for a string decodes back to that string, with any
    continuation (oidIsValid strings: 32-bit arcs in canonical decimal, d1 ≤ 2, d2 < 40 unless d1 = 2) -/
theorem derOID_roundtrip (s e rest : List UInt8) (he : derOIDEnc s = .ok e) (hlen : 13 + e.length + rest.length < W) :
    derOIDDec (e ++ rest) = .ok (s, e.length) := by
  have hv : oidIsValid s = true := by
    unfold derOIDEnc at he
    by_cases hv : oidIsValid s = true
    · exact hv
    · have hf : oidIsValid s = false := by simpa using hv
      rw [hf] at he; simp at he
  obtain ⟨e', he', hd⟩ := derOID_roundtrip' s hv rest (by
    intro V hV
    rw [he] at hV
    have : V.length ≤ e.length := by
      unfold derEnc at hV; rw [derTEnc_ok 6 (by decide)] at hV
      injection hV with hV; rw [hV]; simp; omega
    omega)
  rw [he] at he'; cases he'; exact hd
example : derOIDEnc (cstr "2.999.4294967295") = .ok [0x06, 0x07, 0x88, 0x37, 0x8F, 0xFF, 0xFF, 0xFF, 0x7F] := by
  decide +kernel

/-- derOIDDec2 (the matcher used by the containers) accepts only the code of the given string:
    acceptance implies that derOIDDec decodes the same octets to exactly `oid`, hence the accepted octets
    are derOIDEnc oid -/
theorem derOIDDec2_canonical (der oid : List UInt8) (hlen : der.length < W) (hstr : ∀ b ∈ oid, b ≠ 0) (c : Nat)
    (h : derOIDDec2 der oid = .ok c) : derOIDDec der = .ok (oid, c) ∧ derOIDEnc oid = .ok (der.take c) := by
  have hd := derOIDDec2_eq_dec der oid hlen hstr c h
  exact ⟨hd, derOIDDec_canonical' der hlen oid c hd⟩
example : derOIDDec2 [0x06, 0x03, 0x2A, 0x92, 0x29] (cstr "1.2.2345") = .ok 5 := by decide +kernel

/-! ### SEQ anchors -/

/-- Start + content + Stop writes exactly derEnc tag content after the prefix -/
theorem derTSEQEnc_correct (pre content : List UInt8) (tag : Nat) (a : Anchor) (e0 : List UInt8)
    (hs : derTSEQEncStart pre.length tag = .ok (a, e0)) (htag : tag < U32) (hW : pre.length + content.length + 16 < W) :
    ∃ E, derEnc tag content = .ok E ∧
      derTSEQEncStop (pre ++ e0 ++ content) a = .ok (E.length - e0.length - content.length, pre ++ E) :=
  derTSEQEnc_spec pre content tag a e0 hs htag hW
example : derTSEQEncStart 2 0x30 = .ok (⟨2, 0x30, 0⟩, [0x30, 0x00]) := by decide +kernel

/-- derTSEQDecStop succeeds only exactly behind the declared content (no wrap for huge lengths) -/
theorem derTSEQDec_correct (der : List UInt8) (tag : Nat) (a : Anchor) (k pos : Nat)
    (hs : derTSEQDecStart der tag = .ok (a, k)) (hstop : derTSEQDecStop pos a = .ok ()) :
    pos = k + a.len ∧ a.tag = tag ∧ k ≤ der.length := derTSEQDec_spec der tag a k pos hs hstop
example : derTSEQDecStop 4 ⟨0, 0x30, 2⟩ = .ok () ∧ derTSEQDecStop 3 ⟨0, 0x30, 2⟩ = .err := by decide +kernel

end Bee2V.C08

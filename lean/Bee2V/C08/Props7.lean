/-
C08 — property theorems, part 7: OBJECT IDENTIFIER (der.c derOID*, oid.c) — canonical form.
-/
import Bee2V.C08.LemmasSid
import Bee2V.C08.Model3
namespace Bee2V.C08

/-- CANONICAL (OID): whatever derOIDDec accepts is exactly derOIDEnc of the dotted decimal string it
    returns: the string is valid (oidIsValid), every arc is in its minimal base-128 form, no arc
    overflows 32 bits, the first two arcs are combined as 40·d1 + d2 (needs the F16 fix: no truncated
    last arc, no empty OID). -/
theorem derOIDDec_canonical (der : List UInt8) (hlen : der.length < W) (s : List UInt8) (c : Nat)
    (h : derOIDDec der = .ok (s, c)) : derOIDEnc s = .ok (der.take c) := derOIDDec_canonical' der hlen s c h
example : derOIDDec [0x06, 0x03, 0x2A, 0x92, 0x29, 0x77] = .ok (cstr "1.2.2345", 5) ∧
    derOIDEnc (cstr "1.2.2345") = .ok [0x06, 0x03, 0x2A, 0x92, 0x29] := by decide +kernel

/-- the decoded string is always a valid OID string -/
theorem derOIDDec_valid (der : List UInt8) (hlen : der.length < W) (s : List UInt8) (c : Nat)
    (h : derOIDDec der = .ok (s, c)) : oidIsValid s = true := by
  have := derOIDDec_canonical' der hlen s c h
  unfold derOIDEnc at this
  by_cases hv : oidIsValid s = true
  · exact hv
  · have hf : oidIsValid s = false := by simpa using hv
    rw [hf] at this; simp at this

/-- oidFromDER followed by oidToDER gives back the input (the whole input is the code) -/
theorem oidFromDER_canonical (der : List UInt8) (hlen : der.length < W) (s : List UInt8)
    (h : oidFromDER der = .ok s) : derOIDEnc s = .ok der := by
  unfold oidFromDER at h
  cases hd : derOIDDec der with
  | ok r =>
    obtain ⟨s', c⟩ := r
    rw [hd] at h; simp only [] at h
    by_cases hc : c ≠ der.length
    · rw [if_pos hc] at h; cases h
    · rw [if_neg hc] at h; cases h
      have := derOIDDec_canonical' der hlen s c hd
      rw [this, show c = der.length by omega, List.take_length]
  | err => rw [hd] at h; cases h
  | oob => rw [hd] at h; cases h

end Bee2V.C08

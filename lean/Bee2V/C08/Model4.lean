/-
C08 — model, part 4: btokCVCBodyDec / the parse path of btokCVCUnwrap (src/crypto/btok/btok_cvc.c) WITH the
writes into the destination structure `btok_cvc_t`.

The decoders here return the state also when they fail (`runDecS`), because the C function has already
written the fields decoded before the failing step.  Every write is recorded in `DSt.outs` as
`field id :: octets`; `cvcImage` lays the records out as the structure (every field at its full capacity,
the structure is zeroed first).  Theorem `cvc_writes_within_capacity` (Props9): on every input, successful
or not, every recorded write fits the capacity of its field.
-/
import Bee2V.C08.Model3
namespace Bee2V.C08

def oid_eid_access := cstr "1.2.112.0.2.0.34.101.79.6.1"
def oid_esign_access := cstr "1.2.112.0.2.0.34.101.79.6.2"
def oid_esign_auth_ext := cstr "1.2.112.0.2.0.34.101.79.8.1"

/-- runDec that also returns the state reached when a step fails (the failing step itself writes nothing:
    every DER primitive validates before it copies) -/
def runDecS (der : List UInt8) : List DStep → DSt → Nat → R Nat × DSt
  | [], st, p => (.ok p, st)
  | s :: ss, st, p =>
    match s st p (der.drop p) with
    | .ok (t, st') => runDecS der ss st' (p + t)
    | .err => (.err, st)
    | .oob => (.oob, st)

/-- field ids of btok_cvc_t -/
abbrev fAuthority : Nat := 1
abbrev fHolder : Nat := 2
abbrev fPubkey : Nat := 3
abbrev fHatEid : Nat := 4
abbrev fFrom : Nat := 5
abbrev fUntil : Nat := 6
abbrev fHatEsign : Nat := 7
abbrev fSig : Nat := 8

def wr (st : DSt) (field : Nat) (v : List UInt8) : DSt := { st with outs := st.outs ++ [UInt8.ofNat field :: v] }

/-- `if (derTPSTRDec(0, &len, ptr, count, tag) == SIZE_MAX || len < 8 || len > 12) return SIZE_MAX;
    derDecStep(derTPSTRDec(cvc->name, 0, ptr, count, tag), ptr, count);` — probe, check, then copy -/
def dName (field tag : Nat) : DStep := fun st _ rest =>
  match derTPSTRDec rest tag with
  | .ok (v, t) => if v.length < 8 ∨ v.length > 12 then .err else .ok (t, wr st field v)
  | .err => .err
  | .oob => .oob

/-- the public key BIT STRING: probe, `len ∈ {384, 512, 768, 1024}`, pubkey_len = len / 8, copy -/
def dPubkey : DStep := fun st _ rest =>
  match derTBITDec rest 3 with
  | .ok (v, bl, t) =>
    if bl ≠ 384 ∧ bl ≠ 512 ∧ bl ≠ 768 ∧ bl ≠ 1024 then .err else .ok (t, wr st fPubkey v)
  | .err => .err
  | .oob => .oob

/-- derTOCTDec2(cvc->field, ptr, count, tag, len) -/
def dFix (field tag len : Nat) : DStep := fun st _ rest =>
  match derTOCTDec2 rest tag len with
  | .ok (v, t) => .ok (t, wr st field v)
  | .err => .err
  | .oob => .oob

def sizeTDec2 (tag v : Nat) : List UInt8 → R Nat := fun r => derTSIZEDec2 r tag v

def cvcSteps1 : List DStep := [
  dStart 0 0x7F4E,
  dPrim (sizeTDec2 0x5F29 0),
  dName fAuthority 0x42,
  dStart 1 0x7F49,
  dPrim (oidDec2 oid_bign_pubkey),
  dPubkey,
  dStop 1,
  dName fHolder 0x5F20]

def cvcHat : List DStep := [
  dStart 2 0x7F4C,
  dPrim (oidDec2 oid_eid_access),
  dFix fHatEid 4 5,
  dStop 2]

def cvcDates : List DStep := [dFix fFrom 0x5F25 6, dFix fUntil 0x5F24 6]

def cvcExt : List DStep := [
  dStart 3 0x65,
  dStart 4 0x73,
  dPrim (oidDec2 oid_esign_auth_ext),
  dStart 2 0x7F4C,
  dPrim (oidDec2 oid_esign_access),
  dFix fHatEsign 4 2,
  dStop 2,
  dStop 4,
  dStop 3]

def startsWith (der : List UInt8) (tag : Nat) : Bool :=
  match derStartsWith der tag with
  | .ok () => true
  | _ => false

/-- btokCVCBodyDec(cvc, body, count): (result, state with the writes made) -/
def cvcBodyDecS (body : List UInt8) : R Nat × DSt :=
  match runDecS body cvcSteps1 {} 0 with
  | (.ok p1, st1) =>
    match runDecS body ((if startsWith (body.drop p1) 0x7F4C then cvcHat else []) ++ cvcDates) st1 p1 with
    | (.ok p2, st2) =>
      runDecS body ((if startsWith (body.drop p2) 0x65 then cvcExt else []) ++ [dStop 0]) st2 p2
    | r => r
  | r => r

/-- the parse path of btokCVCUnwrap(cvc, cert, cert_len, 0, 0): (ERR_BAD_FORMAT not returned?, state) -/
def cvcUnwrapS (cert : List UInt8) : Bool × DSt :=
  match derTSEQDecStart cert 0x7F21 with
  | .ok (a, t) =>
    match cvcBodyDecS (cert.drop t) with
    | (.ok bl, st) =>
      let rest := cert.drop (t + bl)
      -- the length of the signature: 34, 48, 72 or 96
      let sl : Option Nat :=
        if (derDec3 rest 0x5F37 34).isOk then some 34 else if (derDec3 rest 0x5F37 48).isOk then some 48
        else if (derDec3 rest 0x5F37 72).isOk then some 72 else if (derDec3 rest 0x5F37 96).isOk then some 96 else none
      match sl with
      | some n =>
        match derTOCTDec2 rest 0x5F37 n with
        | .ok (v, ts) =>
          let st' := wr st fSig v
          match derTSEQDecStop (t + bl + ts) a with
          | .ok () => (decide (t + bl + ts = cert.length), st')
          | _ => (false, st')
        | _ => (false, st)
      | none => (false, st)
    | (_, st) => (false, st)
  | _ => (false, {})

/-- the last record written for a field (none if the field was not written) -/
def fieldOf (st : DSt) (field : Nat) : Option (List UInt8) :=
  (st.outs.reverse.find? (fun e => e.headD 0 = UInt8.ofNat field)).map (fun e => e.drop 1)

/-- the verifying paths of btokCVCUnwrap(cvc, cert, cert_len, pubkey, kl) up to the call of btokVerify: the length
    of the signature comes from the key length (kl = 0: the certificate's own key, `pubkey == cvc->pubkey`);
    `cvc->sig_len` is set before the signature is decoded, so a failed decode leaves sig_len = n over a zero sig -/
def cvcUnwrapKS (cert : List UInt8) (kl : Nat) : DSt :=
  match derTSEQDecStart cert 0x7F21 with
  | .ok (_, t) =>
    match cvcBodyDecS (cert.drop t) with
    | (.ok bl, st) =>
      let pk := if kl = 0 then ((fieldOf st fPubkey).getD []).length else kl
      let n := if pk = 48 then 34 else pk - pk / 4
      match derTOCTDec2 (cert.drop (t + bl)) 0x5F37 n with
      | .ok (v, _) => wr st fSig v
      | _ => wr st fSig (List.replicate n 0)
    | (_, st) => st
  | _ => {}

/-! ### the structure image -/

def padTo (n : Nat) (v : List UInt8) : List UInt8 := (v ++ List.replicate n 0).take n

structure CvcImg where
  authority : List UInt8
  holder : List UInt8
  pubkey : List UInt8
  pubkey_len : Nat
  from_ : List UInt8
  until_ : List UInt8
  hat_eid : List UInt8
  hat_esign : List UInt8
  sig : List UInt8
  sig_len : Nat

def cvcImage (st : DSt) : CvcImg :=
  { authority := padTo 13 ((fieldOf st fAuthority).getD []),
    holder := padTo 13 ((fieldOf st fHolder).getD []),
    pubkey := padTo 128 ((fieldOf st fPubkey).getD []),
    pubkey_len := ((fieldOf st fPubkey).getD []).length,
    from_ := padTo 6 ((fieldOf st fFrom).getD []),
    until_ := padTo 6 ((fieldOf st fUntil).getD []),
    hat_eid := padTo 5 ((fieldOf st fHatEid).getD []),
    hat_esign := padTo 2 ((fieldOf st fHatEsign).getD []),
    sig := padTo 96 ((fieldOf st fSig).getD []),
    sig_len := ((fieldOf st fSig).getD []).length }

/-- capacity of each field of btok_cvc_t (strings: 13 octets including the terminating zero) -/
def capOK (e : List UInt8) : Bool :=
  match e with
  | [] => false
  | f :: v =>
    if f.toNat = fAuthority ∨ f.toNat = fHolder then v.length + 1 ≤ 13
    else if f.toNat = fPubkey then v.length ≤ 128
    else if f.toNat = fHatEid then v.length ≤ 5
    else if f.toNat = fFrom ∨ f.toNat = fUntil then v.length ≤ 6
    else if f.toNat = fHatEsign then v.length ≤ 2
    else if f.toNat = fSig then v.length ≤ 96
    else false

end Bee2V.C08

/-
C08 — property theorems, part 1: every DER decoder of der.c is total (Lean termination), never
reads outside its input (`≠ .oob`) and, when it accepts, consumed ≤ input length.
All statements are over ALL octet strings of ALL lengths < 2^64 (a C object cannot be larger).
Each theorem is followed by an `example` exhibiting a non-trivial accepted input.
-/
import Bee2V.C08.Lemmas
namespace Bee2V.C08

/-! ### T, L, TL, TLV -/

/-- derTDec: no read outside the input; an accepted tag occupies 1..4 octets inside the input. -/
theorem derTDec_no_oob (der : List UInt8) : derTDec der ≠ .oob := by
  rcases derTDec_cases der with e | ⟨_, _, e, _⟩ <;> rw [e] <;> simp

theorem derTDec_bounded (der : List UInt8) (tag k : Nat) (h : derTDec der = .ok (tag, k)) :
    1 ≤ k ∧ k ≤ 4 ∧ k ≤ der.length := by
  rcases derTDec_cases der with e | ⟨t, k', e, h1, h4, hl⟩
  · rw [e] at h; cases h
  · rw [e] at h; cases h; exact ⟨h1, h4, hl⟩
example : derTDec [0x7F, 0x21, 0x00] = .ok (0x7F21, 2) := by decide +kernel

/-- derLDec: no read outside the input; an accepted length field occupies 1..9 octets inside the
    input and is never the error value SIZE_MAX. -/
theorem derLDec_no_oob (der : List UInt8) : derLDec der ≠ .oob := by
  rcases derLDec_cases der with e | ⟨_, _, e, _⟩ <;> rw [e] <;> simp

theorem derLDec_bounded (der : List UInt8) (l k : Nat) (h : derLDec der = .ok (l, k)) :
    1 ≤ k ∧ k ≤ 9 ∧ k ≤ der.length ∧ l < SIZE_MAX := by
  rcases derLDec_cases der with e | ⟨l', k', e, h1, h9, hl, hs⟩
  · rw [e] at h; cases h
  · rw [e] at h; cases h; exact ⟨h1, h9, hl, hs⟩
example : derLDec [0x82, 0x01, 0x00, 0xAA] = .ok (256, 3) := by decide +kernel

theorem derTLDec_no_oob (der : List UInt8) : derTLDec der ≠ .oob := by
  rcases derTLDec_cases der with e | ⟨_, _, _, e, _⟩ <;> rw [e] <;> simp

/-- derTLDec: consumed ≤ input (the sum t_count + l_count does not wrap). -/
theorem derTLDec_bounded (der : List UInt8) (tag l c : Nat) (h : derTLDec der = .ok (tag, l, c)) :
    2 ≤ c ∧ c ≤ 13 ∧ c ≤ der.length ∧ l < SIZE_MAX := by
  rcases derTLDec_cases der with e | ⟨t, l', c', e, h2, h13, hl, hs⟩
  · rw [e] at h; cases h
  · rw [e] at h; cases h; exact ⟨h2, h13, hl, hs⟩
example : derTLDec [0x1F, 0x81, 0x00, 0x82, 0x01, 0x00] = .ok (2064640, 256, 6) := by decide +kernel

theorem derDec_no_oob (der : List UInt8) (hlen : der.length < W) : derDec der ≠ .oob := by
  rcases derDec_cases der hlen with e | ⟨_, _, _, _, e, _⟩ <;> rw [e] <;> simp

/-- derDec: the value lies inside the input and the returned count is exactly |TL| + |V| ≤ input:
    no wrap-around for lengths near SIZE_MAX. -/
theorem derDec_bounded (der : List UInt8) (hlen : der.length < W) (tag off len c : Nat)
    (h : derDec der = .ok (tag, off, len, c)) : c = off + len ∧ c ≤ der.length := by
  rcases derDec_cases der hlen with e | ⟨t, o, l, c', e, _, _, hc, hl⟩
  · rw [e] at h; cases h
  · rw [e] at h; cases h; exact ⟨hc, hl⟩
example : derDec [0x04, 0x01, 0xAA, 0xBB] = .ok (4, 2, 1, 3) := by decide +kernel
/-- the F17 witness: an 8-octet length 0xFF..FA is rejected, not wrapped -/
example : derDec [0x04, 0x88, 0xFF, 0xFF, 0xFF, 0xFF, 0xFF, 0xFF, 0xFF, 0xFA] = .err := by decide +kernel

theorem derDec2_no_oob (der : List UInt8) (tag : Nat) (hlen : der.length < W) : derDec2 der tag ≠ .oob := by
  rcases derDec2_cases der tag hlen with e | ⟨_, _, _, e, _⟩ <;> rw [e] <;> simp
theorem derDec2_bounded (der : List UInt8) (hlen : der.length < W) (tag off len c : Nat)
    (h : derDec2 der tag = .ok (off, len, c)) : c = off + len ∧ c ≤ der.length := by
  rcases derDec2_cases der tag hlen with e | ⟨o, l, c', e, _, _, _, hc, hl⟩
  · rw [e] at h; cases h
  · rw [e] at h; cases h; exact ⟨hc, hl⟩

theorem derDec3_no_oob (der : List UInt8) (tag len : Nat) (hlen : der.length < W) : derDec3 der tag len ≠ .oob := by
  rcases derDec3_cases der tag len hlen with e | ⟨_, _, e, _⟩ <;> rw [e] <;> simp
theorem derDec3_bounded (der : List UInt8) (hlen : der.length < W) (tag len off c : Nat)
    (h : derDec3 der tag len = .ok (off, c)) : c = off + len ∧ c ≤ der.length := by
  rcases derDec3_cases der tag len hlen with e | ⟨o, c', e, _, hc, hl⟩
  · rw [e] at h; cases h
  · rw [e] at h; cases h; exact ⟨hc, hl⟩

theorem derDec4_no_oob (der : List UInt8) (tag : Nat) (val : List UInt8) (hlen : der.length < W) :
    derDec4 der tag val ≠ .oob := by
  rcases derDec4_cases der tag val hlen with e | ⟨_, e, _⟩ <;> rw [e] <;> simp
theorem derDec4_bounded (der : List UInt8) (hlen : der.length < W) (tag : Nat) (val : List UInt8) (c : Nat)
    (h : derDec4 der tag val = .ok c) : c ≤ der.length := by
  rcases derDec4_cases der tag val hlen with e | ⟨c', e, hl⟩
  · rw [e] at h; cases h
  · rw [e] at h; cases h; exact hl
example : derDec4 [0x04, 0x01, 0xAA, 0xBB] 4 [0xAA] = .ok 3 := by decide +kernel

theorem derIsValid_no_oob (der : List UInt8) : derIsValid der ≠ .oob := by
  rcases derIsValid_cases der with e | e <;> rw [e] <;> simp
theorem derIsValid2_no_oob (der : List UInt8) (tag : Nat) : derIsValid2 der tag ≠ .oob := by
  rcases derIsValid2_cases der tag with e | e <;> rw [e] <;> simp
theorem derStartsWith_no_oob (der : List UInt8) (tag : Nat) : derStartsWith der tag ≠ .oob := by
  unfold derStartsWith
  rcases derTDec_cases der with e | ⟨_, _, e, _⟩
  · rw [e]; simp
  · rw [e]; simp only []; split <;> simp

/-! ### typed values -/

theorem derTSIZEDec_no_oob (der : List UInt8) (tag : Nat) (hlen : der.length < W) : derTSIZEDec der tag ≠ .oob := by
  rcases derTSIZEDec_cases der tag hlen with e | ⟨_, _, e, _⟩ <;> rw [e] <;> simp
/-- derTSIZEDec (F15 fixed): the value octets are inside the input -/
theorem derTSIZEDec_bounded (der : List UInt8) (hlen : der.length < W) (tag v c : Nat)
    (h : derTSIZEDec der tag = .ok (v, c)) : c ≤ der.length := by
  rcases derTSIZEDec_cases der tag hlen with e | ⟨v', c', e, hl⟩
  · rw [e] at h; cases h
  · rw [e] at h; cases h; exact hl
example : derTSIZEDec [0x02, 0x02, 0x00, 0x80, 0x55] 2 = .ok (128, 4) := by decide +kernel
/-- the F15 witness `02 05 01` is rejected -/
example : derTSIZEDec [0x02, 0x05, 0x01] 2 = .err := by decide +kernel

theorem derTUINTDec_no_oob (der : List UInt8) (tag : Nat) (hlen : der.length < W) : derTUINTDec der tag ≠ .oob := by
  rcases derTUINTDec_cases der tag hlen with e | ⟨_, _, e, _⟩ <;> rw [e] <;> simp
theorem derTUINTDec_bounded (der : List UInt8) (hlen : der.length < W) (tag : Nat) (v : List UInt8) (c : Nat)
    (h : derTUINTDec der tag = .ok (v, c)) : c ≤ der.length := by
  rcases derTUINTDec_cases der tag hlen with e | ⟨v', c', e, hl⟩
  · rw [e] at h; cases h
  · rw [e] at h; cases h; exact hl
example : derTUINTDec [0x02, 0x02, 0x00, 0xFF] 2 = .ok ([0xFF], 4) := by decide +kernel

theorem derTUINTDec2_no_oob (der : List UInt8) (tag len : Nat) (hlen : der.length < W) : derTUINTDec2 der tag len ≠ .oob := by
  rcases derTUINTDec2_cases der tag len hlen with e | ⟨_, _, e, _⟩ <;> rw [e] <;> simp
/-- derTUINTDec2: consumed ≤ input and exactly `len` octets are written to the output -/
theorem derTUINTDec2_bounded (der : List UInt8) (hlen : der.length < W) (tag len : Nat) (v : List UInt8) (c : Nat)
    (h : derTUINTDec2 der tag len = .ok (v, c)) : c ≤ der.length ∧ v.length = len := by
  rcases derTUINTDec2_cases der tag len hlen with e | ⟨v', c', e, hl, hv⟩
  · rw [e] at h; cases h
  · rw [e] at h; cases h; exact ⟨hl, hv⟩

theorem derTBITDec_no_oob (der : List UInt8) (tag : Nat) (hlen : der.length < W) : derTBITDec der tag ≠ .oob := by
  rcases derTBITDec_cases der tag hlen with e | ⟨_, _, _, e, _⟩ <;> rw [e] <;> simp
theorem derTBITDec_bounded (der : List UInt8) (hlen : der.length < W) (tag : Nat) (v : List UInt8) (bl c : Nat)
    (h : derTBITDec der tag = .ok (v, bl, c)) : c ≤ der.length := by
  rcases derTBITDec_cases der tag hlen with e | ⟨v', b', c', e, hl⟩
  · rw [e] at h; cases h
  · rw [e] at h; cases h; exact hl
example : derTBITDec [0x03, 0x02, 0x07, 0x80] 3 = .ok ([0x80], 1, 4) := by decide +kernel
/-- non-zero unused bits are rejected (fix-2) -/
example : derTBITDec [0x03, 0x02, 0x07, 0xFF] 3 = .err := by decide +kernel

theorem derTBITDec2_no_oob (der : List UInt8) (tag len : Nat) (hlen : der.length < W) : derTBITDec2 der tag len ≠ .oob := by
  rcases derTBITDec2_cases der tag len hlen with e | ⟨_, _, e, _⟩ <;> rw [e] <;> simp
theorem derTBITDec2_bounded (der : List UInt8) (hlen : der.length < W) (tag len : Nat) (v : List UInt8) (c : Nat)
    (h : derTBITDec2 der tag len = .ok (v, c)) : c ≤ der.length := by
  rcases derTBITDec2_cases der tag len hlen with e | ⟨v', c', e, hl⟩
  · rw [e] at h; cases h
  · rw [e] at h; cases h; exact hl

theorem derTOCTDec_no_oob (der : List UInt8) (tag : Nat) (hlen : der.length < W) : derTOCTDec der tag ≠ .oob := by
  rcases derTOCTDec_cases der tag hlen with e | ⟨_, _, e, _⟩ <;> rw [e] <;> simp
theorem derTOCTDec_bounded (der : List UInt8) (hlen : der.length < W) (tag : Nat) (v : List UInt8) (c : Nat)
    (h : derTOCTDec der tag = .ok (v, c)) : c ≤ der.length := by
  rcases derTOCTDec_cases der tag hlen with e | ⟨v', c', e, hl⟩
  · rw [e] at h; cases h
  · rw [e] at h; cases h; exact hl
theorem derTOCTDec2_no_oob (der : List UInt8) (tag len : Nat) (hlen : der.length < W) : derTOCTDec2 der tag len ≠ .oob := by
  rcases derTOCTDec2_cases der tag len hlen with e | ⟨_, _, e, _⟩ <;> rw [e] <;> simp
theorem derTOCTDec2_bounded (der : List UInt8) (hlen : der.length < W) (tag len : Nat) (v : List UInt8) (c : Nat)
    (h : derTOCTDec2 der tag len = .ok (v, c)) : c ≤ der.length := by
  rcases derTOCTDec2_cases der tag len hlen with e | ⟨v', c', e, hl⟩
  · rw [e] at h; cases h
  · rw [e] at h; cases h; exact hl
example : derTOCTDec [0x04, 0x02, 0xAA, 0xBB, 0xCC] 4 = .ok ([0xAA, 0xBB], 4) := by decide +kernel

theorem derTPSTRDec_no_oob (der : List UInt8) (tag : Nat) (hlen : der.length < W) : derTPSTRDec der tag ≠ .oob := by
  rcases derTPSTRDec_cases der tag hlen with e | ⟨_, _, e, _⟩ <;> rw [e] <;> simp
theorem derTPSTRDec_bounded (der : List UInt8) (hlen : der.length < W) (tag : Nat) (v : List UInt8) (c : Nat)
    (h : derTPSTRDec der tag = .ok (v, c)) : c ≤ der.length := by
  rcases derTPSTRDec_cases der tag hlen with e | ⟨v', c', e, hl⟩
  · rw [e] at h; cases h
  · rw [e] at h; cases h; exact hl
example : derTPSTRDec [0x13, 0x02, 0x41, 0x42] 0x13 = .ok ([0x41, 0x42], 4) := by decide +kernel
/-- a zero octet is not printable (fix-4) -/
example : derTPSTRDec [0x13, 0x02, 0x41, 0x00] 0x13 = .err := by decide +kernel

/-! ### OID -/

theorem derOIDDec_no_oob (der : List UInt8) (hlen : der.length < W) : derOIDDec der ≠ .oob := by
  rcases derOIDDec_cases der hlen with e | ⟨_, _, e, _⟩ <;> rw [e] <;> simp
theorem derOIDDec_bounded (der : List UInt8) (hlen : der.length < W) (s : List UInt8) (c : Nat)
    (h : derOIDDec der = .ok (s, c)) : c ≤ der.length := by
  rcases derOIDDec_cases der hlen with e | ⟨s', c', e, hl⟩
  · rw [e] at h; cases h
  · rw [e] at h; cases h; exact hl
example : derOIDDec [0x06, 0x03, 0x2A, 0x92, 0x29] = .ok ([49, 46, 50, 46, 50, 51, 52, 53], 5) := by decide +kernel
/-- F16 witnesses: truncated last arc and empty OID are rejected -/
example : derOIDDec [0x06, 0x03, 0x2A, 0x70, 0x81] = .err := by decide +kernel
example : derOIDDec [0x06, 0x00] = .err := by decide +kernel

/-- derOIDDec2 reads neither outside the DER input nor outside the string `oid`
    (its terminating zero included) — fix-5. -/
theorem derOIDDec2_no_oob (der oid : List UInt8) (hlen : der.length < W) : derOIDDec2 der oid ≠ .oob := by
  rcases derOIDDec2_cases der oid hlen with e | ⟨_, e, _⟩ <;> rw [e] <;> simp
theorem derOIDDec2_bounded (der oid : List UInt8) (hlen : der.length < W) (c : Nat)
    (h : derOIDDec2 der oid = .ok c) : c ≤ der.length := by
  rcases derOIDDec2_cases der oid hlen with e | ⟨c', e, hl⟩
  · rw [e] at h; cases h
  · rw [e] at h; cases h; exact hl
example : derOIDDec2 [0x06, 0x03, 0x2A, 0x92, 0x29] [49, 46, 50, 46, 50, 51, 52, 53] = .ok 5 := by decide +kernel
/-- the fix-5 witness: "1.2.3" against the code of 1.2.2345 is a clean mismatch -/
example : derOIDDec2 [0x06, 0x03, 0x2A, 0x92, 0x29] [49, 46, 50, 46, 51] = .err := by decide +kernel

theorem oidFromDER_no_oob (der : List UInt8) (hlen : der.length < W) : oidFromDER der ≠ .oob := by
  rcases oidFromDER_cases der hlen with e | ⟨_, e⟩ <;> rw [e] <;> simp

/-! ### SEQ anchors -/

theorem derTSEQDecStart_no_oob (der : List UInt8) (tag : Nat) : derTSEQDecStart der tag ≠ .oob := by
  rcases derTSEQDecStart_cases der tag with e | ⟨_, _, e, _⟩ <;> rw [e] <;> simp
theorem derTSEQDecStart_bounded (der : List UInt8) (tag : Nat) (a : Anchor) (c : Nat)
    (h : derTSEQDecStart der tag = .ok (a, c)) : c ≤ der.length ∧ a.tag = tag := by
  rcases derTSEQDecStart_cases der tag with e | ⟨a', c', e, hl, ht⟩
  · rw [e] at h; cases h
  · rw [e] at h; cases h; exact ⟨hl, ht⟩
example : derTSEQDecStart [0x30, 0x02, 0x05, 0x00] 0x30 = .ok (⟨0, 0x30, 2⟩, 2) := by decide +kernel

end Bee2V.C08

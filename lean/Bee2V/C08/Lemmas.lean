/-
C08 — helper lemmas: reads, loops of the T/L parsers (no out-of-bounds read, bounds of the results).
-/
import Bee2V.C08.Model2
namespace Bee2V.C08

/-- `omega` knowing the numerals behind W, SIZE_MAX, U32 -/
macro "omegaW" : tactic => `(tactic|
  ((try simp only [W, SIZE_MAX, U32, U32_MAX] at *); omega))

theorem rd_of_lt {xs : List UInt8} {i : Nat} (h : i < xs.length) : rd xs i = .ok xs[i].toNat := by
  simp [rd, List.getElem?_eq_getElem h]

theorem rd_ok {xs : List UInt8} {i v : Nat} (h : rd xs i = .ok v) : ∃ hi : i < xs.length, v = xs[i].toNat := by
  unfold rd at h
  split at h
  · rename_i b hb
    obtain ⟨hi, hb'⟩ := List.getElem?_eq_some_iff.mp hb
    exact ⟨hi, by cases h; simp [hb']⟩
  · cases h

theorem rd_ok_lt {xs : List UInt8} {i v : Nat} (h : rd xs i = .ok v) : i < xs.length ∧ v < 256 := by
  obtain ⟨hi, hv⟩ := rd_ok h
  exact ⟨hi, by rw [hv]; exact UInt8.toNat_lt _⟩

theorem rd_ne_err (xs : List UInt8) (i : Nat) : rd xs i ≠ .err := by
  unfold rd; split <;> simp

theorem rd_oob {xs : List UInt8} {i : Nat} (h : rd xs i = .oob) : xs.length ≤ i := by
  by_cases hi : i < xs.length
  · rw [rd_of_lt hi] at h; cases h
  · omega

theorem rd_drop (xs : List UInt8) (k i : Nat) : rd (xs.drop k) i = rd xs (k + i) := by
  simp [rd, List.getElem?_drop]

/-! ### loops of derTDec -/

theorem tDecLoop_spec (der : List UInt8) (count t tc : Nat) (hc : count ≤ der.length) (htc : tc ≤ count) :
    ∃ t' k, tDecLoop der count t tc = .ok (t', k) ∧ tc ≤ k ∧ k ≤ count ∧ (tc < count → tc < k) := by
  fun_induction tDecLoop der count t tc with
  | case1 t tc h b hb t' hbrk => exact ⟨_, _, rfl, by omega, by omega, by omega⟩
  | case2 t tc h b hb t' hbrk ih =>
    obtain ⟨t'', k, e, h1, h2, _⟩ := ih (by omega)
    exact ⟨t'', k, e, by omega, h2, by omega⟩
  | case3 t tc h hb => exact absurd hb (rd_ne_err _ _)
  | case4 t tc h hb => have := rd_oob hb; omega
  | case5 t tc h => exact ⟨_, _, rfl, by omega, by omega, by omega⟩

theorem tagLoop_ok (der : List UInt8) (t_count t pos : Nat) (hc : t_count ≤ der.length) :
    ∃ tag, tagLoop der t_count t pos = .ok tag := by
  fun_induction tagLoop der t_count t pos with
  | case1 t pos h b hb ih => exact ih
  | case2 t pos h hb => exact absurd hb (rd_ne_err _ _)
  | case3 t pos h hb => have := rd_oob hb; omega
  | case4 t pos h => exact ⟨_, rfl⟩

theorem derTDec_cases (der : List UInt8) :
    derTDec der = .err ∨ ∃ tag k, derTDec der = .ok (tag, k) ∧ 1 ≤ k ∧ k ≤ 4 ∧ k ≤ der.length := by
  unfold derTDec
  by_cases h0 : der.length < 1
  · simp [h0]
  · have hr0 := rd_of_lt (xs := der) (i := 0) (by omega)
    simp only [h0, if_false, hr0]
    by_cases hl : der[0].toNat % 32 = 31
    · simp only [hl, if_true]
      by_cases h2 : min 4 der.length < 2
      · simp [h2]
      · have hr1 := rd_of_lt (xs := der) (i := 1) (by omega)
        simp only [h2, if_false, hr1]
        by_cases hz : der[1].toNat % 128 = 0
        · simp [hz]
        · simp only [hz, if_false]
          obtain ⟨t', k, e, hk1, hk2, hk3⟩ := tDecLoop_spec der (min 4 der.length) 0 1 (by omega) (by omega)
          rw [e]
          simp only []
          have hrl := rd_of_lt (xs := der) (i := k - 1) (by omega)
          rw [hrl]
          simp only []
          by_cases hc : der[k - 1].toNat / 128 ≠ 0 ∨ t' < 31
          · rw [if_pos hc]; exact Or.inl rfl
          · rw [if_neg hc]; simp only []
            obtain ⟨tag, et⟩ := tagLoop_ok der k der[0].toNat 1 (by omega)
            simp only [et]
            exact Or.inr ⟨tag, k, rfl, by omega, by omega, by omega⟩
    · simp only [hl, if_false]
      obtain ⟨tag, et⟩ := tagLoop_ok der 1 der[0].toNat 1 (by omega)
      simp only [et]
      exact Or.inr ⟨tag, 1, rfl, by omega, by omega, by omega⟩


/-! ### loops of derLDec -/

theorem lDecLoop_ok (der : List UInt8) (l_count l r : Nat) (hc : l_count ≤ der.length) (hl : l < W) :
    ∃ l', lDecLoop der l_count l r = .ok l' ∧ l' < W := by
  fun_induction lDecLoop der l_count l r with
  | case1 l r h b hb ih => exact ih (Nat.mod_lt _ (by decide))
  | case2 l r h hb => exact absurd hb (rd_ne_err _ _)
  | case3 l r h hb => have := rd_oob hb; omega
  | case4 l r h => exact ⟨_, rfl, hl⟩

theorem derLDec_cases (der : List UInt8) :
    derLDec der = .err ∨ ∃ l k, derLDec der = .ok (l, k) ∧ 1 ≤ k ∧ k ≤ 9 ∧ k ≤ der.length ∧ l < SIZE_MAX := by
  unfold derLDec
  by_cases h0 : der.length < 1
  · rw [if_pos h0]; exact Or.inl rfl
  · have hr0 := rd_of_lt (xs := der) (i := 0) (by omegaW)
    have hb0 : der[0].toNat < 256 := UInt8.toNat_lt _
    rw [if_neg h0, hr0]; simp only []
    by_cases h1 : der[0].toNat = 128 ∨ der[0].toNat = 255
    · rw [if_pos h1]; exact Or.inl rfl
    · rw [if_neg h1]
      by_cases h2 : der[0].toNat < 128
      · rw [if_pos h2]; exact Or.inr ⟨_, _, rfl, by omegaW, by omegaW, by omegaW, by omegaW⟩
      · rw [if_neg h2]
        by_cases h3 : der.length < 1 + (der[0].toNat - 128) ∨ der[0].toNat - 128 > 8
        · rw [if_pos h3]; exact Or.inl rfl
        · rw [if_neg h3]
          have hr1 := rd_of_lt (xs := der) (i := 1) (by omegaW)
          rw [hr1]; simp only []
          by_cases h4 : der[1].toNat = 0 ∨ (der[0].toNat - 128 = 1 ∧ der[1].toNat < 128)
          · rw [if_pos h4]; exact Or.inl rfl
          · rw [if_neg h4]
            obtain ⟨l, e, hl⟩ := lDecLoop_ok der (1 + (der[0].toNat - 128)) 0 1 (by omegaW) (by decide)
            rw [e]; simp only []
            by_cases h5 : l = SIZE_MAX
            · rw [if_pos h5]; exact Or.inl rfl
            · rw [if_neg h5]; exact Or.inr ⟨_, _, rfl, by omegaW, by omegaW, by omegaW, by omegaW⟩

theorem derTLDec_cases (der : List UInt8) :
    derTLDec der = .err ∨ ∃ tag l c, derTLDec der = .ok (tag, l, c) ∧ 2 ≤ c ∧ c ≤ 13 ∧ c ≤ der.length ∧ l < SIZE_MAX := by
  unfold derTLDec
  rcases derTDec_cases der with e | ⟨tag, k, e, hk1, hk4, hkl⟩
  · rw [e]; exact Or.inl rfl
  · rw [e]; simp only []
    rcases derLDec_cases (der.drop k) with e2 | ⟨l, k2, e2, h1, h9, hl, hs⟩
    · rw [e2]; exact Or.inl rfl
    · rw [e2]; simp only []
      rw [List.length_drop] at hl
      have hm : (k + k2) % W = k + k2 := Nat.mod_eq_of_lt (by omegaW)
      rw [hm, if_neg (by omegaW)]
      exact Or.inr ⟨_, _, _, rfl, by omegaW, by omegaW, by omegaW, hs⟩

theorem derDec_cases (der : List UInt8) (hlen : der.length < W) :
    derDec der = .err ∨ ∃ tag off len c, derDec der = .ok (tag, off, len, c) ∧ 2 ≤ off ∧ off ≤ 13 ∧
      c = off + len ∧ c ≤ der.length := by
  unfold derDec
  rcases derTLDec_cases der with e | ⟨tag, l, c, e, h2, h13, hl, hs⟩
  · rw [e]; exact Or.inl rfl
  · rw [e]; simp only []
    have hm : (der.length + W - c) % W = der.length - c := by
      have : der.length + W - c = (der.length - c) + W := by omegaW
      rw [this, Nat.add_mod_right]; exact Nat.mod_eq_of_lt (by omegaW)
    rw [hm]
    by_cases h : l > der.length - c
    · rw [if_pos h]; exact Or.inl rfl
    · rw [if_neg h]
      have hm2 : (c + l) % W = c + l := Nat.mod_eq_of_lt (by omegaW)
      rw [hm2]
      exact Or.inr ⟨_, _, _, _, rfl, h2, h13, rfl, by omegaW⟩

/-! ### typed decoders -/

theorem derDec2_cases (der : List UInt8) (tag : Nat) (hlen : der.length < W) :
    derDec2 der tag = .err ∨ ∃ off len c, derDec2 der tag = .ok (off, len, c) ∧ derDec der = .ok (tag, off, len, c) ∧
      2 ≤ off ∧ off ≤ 13 ∧ c = off + len ∧ c ≤ der.length := by
  unfold derDec2
  rcases derDec_cases der hlen with e | ⟨t, off, len, c, e, h2, h13, hc, hl⟩
  · rw [e]; exact Or.inl rfl
  · rw [e]; simp only []
    by_cases ht : t ≠ tag
    · rw [if_pos ht]; exact Or.inl rfl
    · rw [if_neg ht]
      have : t = tag := by omega
      subst this
      exact Or.inr ⟨_, _, _, rfl, rfl, h2, h13, hc, hl⟩

theorem rdSlice_ok {der : List UInt8} {off len : Nat} (h : off + len ≤ der.length) :
    rdSlice der off len = .ok ((der.drop off).take len) := by
  unfold rdSlice; rw [if_pos h]

theorem derTOCTDec_cases (der : List UInt8) (tag : Nat) (hlen : der.length < W) :
    derTOCTDec der tag = .err ∨ ∃ v c, derTOCTDec der tag = .ok (v, c) ∧ c ≤ der.length := by
  unfold derTOCTDec
  rcases derDec2_cases der tag hlen with e | ⟨off, len, c, e, _, h2, h13, hc, hl⟩
  · rw [e]; exact Or.inl rfl
  · rw [e]; simp only []
    rw [rdSlice_ok (by omega)]
    exact Or.inr ⟨_, _, rfl, hl⟩

theorem uintCore_cases (der : List UInt8) (tag : Nat) (hlen : der.length < W) :
    uintCore der tag = .err ∨ ∃ off l ex c, uintCore der tag = .ok (off, l, ex, c) ∧
      derDec der = .ok (tag, off, l, c) ∧ ex ≤ 1 ∧ ex < l ∧ c = off + l ∧ c ≤ der.length := by
  unfold uintCore
  rcases derDec2_cases der tag hlen with e | ⟨off, len, c, e, ed, h2, h13, hc, hl⟩
  · rw [e]; exact Or.inl rfl
  · rw [e]; simp only []
    by_cases h1 : len < 1
    · rw [if_pos h1]; exact Or.inl rfl
    · rw [if_neg h1, rd_of_lt (xs := der) (i := off) (by omega)]; simp only []
      by_cases h2 : der[off].toNat ≥ 128
      · rw [if_pos h2]; exact Or.inl rfl
      · rw [if_neg h2]
        by_cases h3 : der[off].toNat = 0 ∧ len > 1
        · rw [if_pos h3, rd_of_lt (xs := der) (i := off + 1) (by omega)]; simp only []
          by_cases h4 : der[off + 1].toNat < 128
          · rw [if_pos h4]; exact Or.inl rfl
          · rw [if_neg h4]; exact Or.inr ⟨_, _, _, _, rfl, ed, by omega, by omega, hc, hl⟩
        · rw [if_neg h3]; exact Or.inr ⟨_, _, _, _, rfl, ed, by omega, by omega, hc, hl⟩


theorem derTUINTDec_cases (der : List UInt8) (tag : Nat) (hlen : der.length < W) :
    derTUINTDec der tag = .err ∨ ∃ v c, derTUINTDec der tag = .ok (v, c) ∧ c ≤ der.length := by
  unfold derTUINTDec
  rcases uintCore_cases der tag hlen with e | ⟨off, l, ex, c, e, _, h1, h2, hc, hl⟩
  · rw [e]; exact Or.inl rfl
  · rw [e]; simp only []
    rw [rdSlice_ok (by omega)]
    exact Or.inr ⟨_, _, rfl, hl⟩

theorem derTUINTDec2_cases (der : List UInt8) (tag len : Nat) (hlen : der.length < W) :
    derTUINTDec2 der tag len = .err ∨ ∃ v c, derTUINTDec2 der tag len = .ok (v, c) ∧ c ≤ der.length ∧ v.length = len := by
  unfold derTUINTDec2
  rcases uintCore_cases der tag hlen with e | ⟨off, l, ex, c, e, _, h1, h2, hc, hl⟩
  · rw [e]; exact Or.inl rfl
  · rw [e]; simp only []
    by_cases h : l - ex ≠ len
    · rw [if_pos h]; exact Or.inl rfl
    · rw [if_neg h, rdSlice_ok (by omega)]
      refine Or.inr ⟨_, _, rfl, hl, ?_⟩
      simp [List.length_take, List.length_drop]; omega

theorem bitCore_cases (der : List UInt8) (tag : Nat) (hlen : der.length < W) :
    bitCore der tag = .err ∨ ∃ off l v0 c, bitCore der tag = .ok (off, l, v0, c) ∧
      derDec der = .ok (tag, off, l, c) ∧ 1 ≤ l ∧ v0 ≤ 7 ∧ c = off + l ∧ c ≤ der.length := by
  unfold bitCore
  rcases derDec2_cases der tag hlen with e | ⟨off, len, c, e, ed, h2, h13, hc, hl⟩
  · rw [e]; exact Or.inl rfl
  · rw [e]; simp only []
    by_cases h1 : len < 1
    · rw [if_pos h1]; exact Or.inl rfl
    · rw [if_neg h1, rd_of_lt (xs := der) (i := off) (by omega)]; simp only []
      by_cases h2 : der[off].toNat > 7 ∨ (der[off].toNat ≠ 0 ∧ len = 1)
      · rw [if_pos h2]; exact Or.inl rfl
      · rw [if_neg h2, rd_of_lt (xs := der) (i := off + (len - 1)) (by omega)]; simp only []
        by_cases h3 : der[off + (len - 1)].toNat % 2 ^ der[off].toNat ≠ 0
        · rw [if_pos h3]; exact Or.inl rfl
        · rw [if_neg h3]; exact Or.inr ⟨_, _, _, _, rfl, ed, by omega, by omega, hc, hl⟩

theorem derTBITDec_cases (der : List UInt8) (tag : Nat) (hlen : der.length < W) :
    derTBITDec der tag = .err ∨ ∃ v bl c, derTBITDec der tag = .ok (v, bl, c) ∧ c ≤ der.length := by
  unfold derTBITDec
  rcases bitCore_cases der tag hlen with e | ⟨off, l, v0, c, e, _, h1, h7, hc, hl⟩
  · rw [e]; exact Or.inl rfl
  · rw [e]; simp only []
    rw [rdSlice_ok (by omega)]
    exact Or.inr ⟨_, _, _, rfl, hl⟩

theorem derTBITDec2_cases (der : List UInt8) (tag len : Nat) (hlen : der.length < W) :
    derTBITDec2 der tag len = .err ∨ ∃ v c, derTBITDec2 der tag len = .ok (v, c) ∧ c ≤ der.length := by
  unfold derTBITDec2
  rcases bitCore_cases der tag hlen with e | ⟨off, l, v0, c, e, _, h1, h7, hc, hl⟩
  · rw [e]; exact Or.inl rfl
  · rw [e]; simp only []
    by_cases h : ((l - 1) * 8) % W ≠ (len + v0) % W
    · rw [if_pos h]; exact Or.inl rfl
    · rw [if_neg h, rdSlice_ok (by omega)]
      exact Or.inr ⟨_, _, rfl, hl⟩

theorem derDec3_cases (der : List UInt8) (tag len : Nat) (hlen : der.length < W) :
    derDec3 der tag len = .err ∨ ∃ off c, derDec3 der tag len = .ok (off, c) ∧ derDec der = .ok (tag, off, len, c) ∧
      c = off + len ∧ c ≤ der.length := by
  unfold derDec3
  rcases derDec_cases der hlen with e | ⟨t, off, l, c, e, h2, h13, hc, hl⟩
  · rw [e]; exact Or.inl rfl
  · rw [e]; simp only []
    by_cases ht : t ≠ tag ∨ l ≠ len
    · rw [if_pos ht]; exact Or.inl rfl
    · rw [if_neg ht]
      have h1 : t = tag := by omega
      have h2 : l = len := by omega
      subst h1; subst h2
      exact Or.inr ⟨_, _, rfl, rfl, hc, hl⟩

theorem derTOCTDec2_cases (der : List UInt8) (tag len : Nat) (hlen : der.length < W) :
    derTOCTDec2 der tag len = .err ∨ ∃ v c, derTOCTDec2 der tag len = .ok (v, c) ∧ c ≤ der.length := by
  unfold derTOCTDec2
  rcases derDec3_cases der tag len hlen with e | ⟨off, c, e, _, hc, hl⟩
  · rw [e]; exact Or.inl rfl
  · rw [e]; simp only []
    rw [rdSlice_ok (by omega)]
    exact Or.inr ⟨_, _, rfl, hl⟩

theorem derDec4_cases (der : List UInt8) (tag : Nat) (val : List UInt8) (hlen : der.length < W) :
    derDec4 der tag val = .err ∨ ∃ c, derDec4 der tag val = .ok c ∧ c ≤ der.length := by
  unfold derDec4
  rcases derDec_cases der hlen with e | ⟨t, off, l, c, e, h2, h13, hc, hl⟩
  · rw [e]; exact Or.inl rfl
  · rw [e]; simp only []
    by_cases ht : t ≠ tag ∨ l ≠ val.length
    · rw [if_pos ht]; exact Or.inl rfl
    · rw [if_neg ht, rdSlice_ok (by omega)]; simp only []
      split
      · exact Or.inr ⟨_, rfl, hl⟩
      · exact Or.inl rfl

theorem pstrLoop_cases (der : List UInt8) (off l pos : Nat) (h : off + l ≤ der.length) :
    pstrLoop der off l pos = .err ∨ pstrLoop der off l pos = .ok () := by
  fun_induction pstrLoop der off l pos with
  | case1 pos hp ch hr hpr ih => exact ih
  | case2 pos hp ch hr hpr => exact Or.inl rfl
  | case3 pos hp hr => exact absurd hr (rd_ne_err _ _)
  | case4 pos hp hr => have := rd_oob hr; omega
  | case5 pos hp => exact Or.inr rfl

theorem derTPSTRDec_cases (der : List UInt8) (tag : Nat) (hlen : der.length < W) :
    derTPSTRDec der tag = .err ∨ ∃ v c, derTPSTRDec der tag = .ok (v, c) ∧ c ≤ der.length := by
  unfold derTPSTRDec
  rcases derDec2_cases der tag hlen with e | ⟨off, len, c, e, _, h2, h13, hc, hl⟩
  · rw [e]; exact Or.inl rfl
  · rw [e]; simp only []
    rcases pstrLoop_cases der off len 0 (by omega) with e2 | e2
    · rw [e2]; exact Or.inl rfl
    · rw [e2]; simp only []
      rw [rdSlice_ok (by omega)]
      exact Or.inr ⟨_, _, rfl, hl⟩

theorem sizeLoop_ok (der : List UInt8) (len v pos : Nat) (h : len ≤ der.length) :
    ∃ v', sizeLoop der len v pos = .ok v' := by
  fun_induction sizeLoop der len v pos with
  | case1 v pos hp b hr ih => exact ih
  | case2 v pos hp hr => exact absurd hr (rd_ne_err _ _)
  | case3 v pos hp hr => have := rd_oob hr; omega
  | case4 v pos hp => exact ⟨_, rfl⟩


theorem derTSIZEDec_cases (der : List UInt8) (tag : Nat) (_hlen : der.length < W) :
    derTSIZEDec der tag = .err ∨ ∃ v c, derTSIZEDec der tag = .ok (v, c) ∧ c ≤ der.length := by
  unfold derTSIZEDec
  rcases derTDec_cases der with e | ⟨t, k, e, hk1, hk4, hkl⟩
  · rw [e]; exact Or.inl rfl
  · rw [e]; simp only []
    by_cases ht : t ≠ tag
    · rw [if_pos ht]; exact Or.inl rfl
    · rw [if_neg ht]
      rcases derLDec_cases (der.drop k) with e2 | ⟨l, k2, e2, h1, h9, hl, hs⟩
      · rw [e2]; exact Or.inl rfl
      · rw [e2]; simp only []
        by_cases h3 : l = 0 ∨ l > 9
        · rw [if_pos h3]; exact Or.inl rfl
        · rw [if_neg h3]
          by_cases h4 : l > ((der.drop k).drop k2).length
          · rw [if_pos h4]; exact Or.inl rfl
          · rw [if_neg h4]
            have hlen2 : ((der.drop k).drop k2).length = der.length - k - k2 := by simp [List.length_drop]; omega
            rw [rd_of_lt (xs := (der.drop k).drop k2) (i := 0) (by omega)]; simp only []
            obtain ⟨v, ev⟩ := sizeLoop_ok ((der.drop k).drop k2) l 0 0 (by omega)
            have hc : (k + k2 + l) % W = k + k2 + l := Nat.mod_eq_of_lt (by rw [hlen2] at h4; rw [List.length_drop] at hl; omegaW)
            have hb : k + k2 + l ≤ der.length := by rw [hlen2] at h4; rw [List.length_drop] at hl; omega
            simp only [ev, hc]
            by_cases h5 : ((der.drop k).drop k2)[0].toNat ≥ 128
            · rw [if_pos h5]; (split <;> (try split) <;> first | exact Or.inl rfl | exact Or.inr ⟨_, _, rfl, hb⟩ | (rename_i hx; cases hx))
            · rw [if_neg h5]
              by_cases h6 : ((der.drop k).drop k2)[0].toNat = 0 ∧ l > 1
              · rw [if_pos h6, rd_of_lt (xs := (der.drop k).drop k2) (i := 1) (by omega)]; simp only []
                (split <;> (try split) <;> first | exact Or.inl rfl | exact Or.inr ⟨_, _, rfl, hb⟩ | (rename_i hx; cases hx))
              · rw [if_neg h6]; (split <;> (try split) <;> first | exact Or.inl rfl | exact Or.inr ⟨_, _, rfl, hb⟩ | (rename_i hx; cases hx))


theorem oidDecLoop_cases (der : List UInt8) (off l pos val d1 : Nat) (out : List UInt8) (h : off + l ≤ der.length) :
    oidDecLoop der off l pos val d1 out = .err ∨ ∃ d o, oidDecLoop der off l pos val d1 out = .ok (d, o) := by
  fun_induction oidDecLoop der off l pos val d1 out <;> first
    | exact Or.inl rfl
    | assumption
    | exact Or.inr ⟨_, _, rfl⟩
    | (rename_i hr; exact absurd hr (rd_ne_err _ _))
    | (rename_i hr; have := rd_oob hr; omega)

theorem derOIDDec_cases (der : List UInt8) (hlen : der.length < W) :
    derOIDDec der = .err ∨ ∃ s c, derOIDDec der = .ok (s, c) ∧ c ≤ der.length := by
  unfold derOIDDec
  rcases derDec2_cases der 6 hlen with e | ⟨off, len, c, e, _, h2, h13, hc, hl⟩
  · rw [e]; exact Or.inl rfl
  · rw [e]; simp only []
    rcases oidDecLoop_cases der off len 0 0 3 [] (by omega) with e2 | ⟨d, o, e2⟩
    · rw [e2]; exact Or.inl rfl
    · rw [e2]; simp only []
      by_cases hd : d = 3
      · rw [if_pos hd]; exact Or.inl rfl
      · rw [if_neg hd]
        by_cases hz : len = 0
        · -- the loop did not run: d1 stays 3
          subst hz
          rw [oidDecLoop] at e2
          simp at e2
          omega
        · rw [rd_of_lt (xs := der) (i := off + (len - 1)) (by omega)]; simp only []
          split
          · exact Or.inl rfl
          · exact Or.inr ⟨_, _, rfl, hl⟩

theorem oidFromDER_cases (der : List UInt8) (hlen : der.length < W) :
    oidFromDER der = .err ∨ ∃ s, oidFromDER der = .ok s := by
  unfold oidFromDER
  rcases derOIDDec_cases der hlen with e | ⟨s, c, e, _⟩
  · rw [e]; exact Or.inl rfl
  · rw [e]; simp only []
    split
    · exact Or.inl rfl
    · exact Or.inr ⟨_, rfl⟩

theorem rdS_of_le {s : List UInt8} {i : Nat} (h : i ≤ s.length) : ∃ v, rdS s i = .ok v ∧ (v ≠ 0 → i < s.length) := by
  unfold rdS
  by_cases hi : i < s.length
  · rw [if_pos hi, rd_of_lt hi]; exact ⟨_, rfl, fun _ => hi⟩
  · rw [if_neg hi, if_pos (by omega)]; exact ⟨0, rfl, fun h => absurd rfl h⟩

theorem sidCmpLoop_cases (oid : List UInt8) (o t n : Nat) (h : o + n ≤ oid.length) :
    sidCmpLoop oid o t n = .err ∨ sidCmpLoop oid o t n = .ok () := by
  induction n generalizing t with
  | zero => exact Or.inr rfl
  | succ n ih =>
    unfold sidCmpLoop
    obtain ⟨v, ev, _⟩ := rdS_of_le (s := oid) (i := o + n) (by omega)
    rw [ev]; simp only []
    split
    · exact Or.inl rfl
    · exact ih _ (by omega)

theorem derSIDDec2_cases (val : Nat) (oid : List UInt8) (o : Nat) (ho : o ≤ oid.length) :
    derSIDDec2 val oid o = .err ∨ ∃ k, derSIDDec2 val oid o = .ok k ∧ o + k ≤ oid.length := by
  unfold derSIDDec2
  simp only []
  by_cases h : oid.length - o < decLen val
  · rw [if_pos h]; exact Or.inl rfl
  · rw [if_neg h]
    rcases sidCmpLoop_cases oid o val (decLen val) (by omega) with e | e
    · rw [e]; exact Or.inl rfl
    · rw [e]; exact Or.inr ⟨_, rfl, by omega⟩


theorem oidDec2Loop_cases (der : List UInt8) (off l : Nat) (oid : List UInt8) (h : off + l ≤ der.length) :
    ∀ n pos val d1 o, n = l - pos → o ≤ oid.length →
    oidDec2Loop der off l pos val d1 oid o = .err ∨ ∃ d o', oidDec2Loop der off l pos val d1 oid o = .ok (d, o') ∧ o' ≤ oid.length := by
  intro n
  induction n with
  | zero =>
    intro pos val d1 o hn ho
    rw [oidDec2Loop, dif_neg (by omega)]
    exact Or.inr ⟨_, _, rfl, ho⟩
  | succ n ih =>
    intro pos val d1 o hn ho
    rw [oidDec2Loop, dif_pos (by omega)]
    by_cases h1 : val / 33554432 ≠ 0
    · rw [if_pos h1]; exact Or.inl rfl
    · rw [if_neg h1, rd_of_lt (xs := der) (i := off + pos) (by omega)]; simp only []
      by_cases h2 : val = 0 ∧ der[off + pos].toNat = 128
      · rw [if_pos h2]; exact Or.inl rfl
      · rw [if_neg h2]
        by_cases h3 : der[off + pos].toNat / 128 = 0
        · rw [if_pos h3]
          by_cases h4 : d1 = 3
          · simp only [h4, if_true]
            rcases derSIDDec2_cases (if (val * 128 + der[off + pos].toNat % 128) % U32 < 40 then 0 else if (val * 128 + der[off + pos].toNat % 128) % U32 < 80 then 1 else 2) oid o ho with e | ⟨k, e, hk⟩
            · rw [e]; exact Or.inl rfl
            · rw [e]; simp only []
              obtain ⟨v, ev, hv⟩ := rdS_of_le (s := oid) (i := o + k) hk
              rw [ev]; simp only []
              by_cases h5 : v ≠ 46
              · rw [if_pos h5]; exact Or.inl rfl
              · rw [if_neg h5]
                have : o + k < oid.length := hv (by omega)
                rcases derSIDDec2_cases (if (val * 128 + der[off + pos].toNat % 128) % U32 < 40 then (val * 128 + der[off + pos].toNat % 128) % U32 else if (val * 128 + der[off + pos].toNat % 128) % U32 < 80 then (val * 128 + der[off + pos].toNat % 128) % U32 - 40 else (val * 128 + der[off + pos].toNat % 128) % U32 - 80) oid (o + k + 1) (by omega) with e3 | ⟨k3, e3, hk3⟩
                · rw [e3]; exact Or.inl rfl
                · rw [e3]; simp only []
                  exact ih _ _ _ _ (by omega) hk3
          · simp only [h4, if_false]
            obtain ⟨v, ev, hv⟩ := rdS_of_le (s := oid) (i := o) ho
            rw [ev]; simp only []
            by_cases h5 : v ≠ 46
            · rw [if_pos h5]; exact Or.inl rfl
            · rw [if_neg h5]
              have : o < oid.length := hv (by omega)
              rcases derSIDDec2_cases ((val * 128 + der[off + pos].toNat % 128) % U32) oid (o + 1) (by omega) with e3 | ⟨k3, e3, hk3⟩
              · rw [e3]; exact Or.inl rfl
              · rw [e3]; simp only []
                exact ih _ _ _ _ (by omega) hk3
        · rw [if_neg h3]
          exact ih _ _ _ _ (by omega) ho


theorem derOIDDec2_cases (der oid : List UInt8) (hlen : der.length < W) :
    derOIDDec2 der oid = .err ∨ ∃ c, derOIDDec2 der oid = .ok c ∧ c ≤ der.length := by
  unfold derOIDDec2
  rcases derDec2_cases der 6 hlen with e | ⟨off, len, c, e, _, h2, h13, hc, hl⟩
  · rw [e]; exact Or.inl rfl
  · rw [e]; simp only []
    rcases oidDec2Loop_cases der off len oid (by omega) _ 0 0 3 0 rfl (by omega) with e2 | ⟨d, o, e2, ho⟩
    · rw [e2]; exact Or.inl rfl
    · rw [e2]; simp only []
      by_cases hd : d = 3
      · rw [if_pos hd]; exact Or.inl rfl
      · rw [if_neg hd]
        by_cases hz : len = 0
        · subst hz
          rw [oidDec2Loop] at e2
          simp at e2
          omega
        · rw [rd_of_lt (xs := der) (i := off + (len - 1)) (by omega)]; simp only []
          by_cases h5 : der[off + (len - 1)].toNat / 128 ≠ 0
          · rw [if_pos h5]; exact Or.inl rfl
          · rw [if_neg h5]
            obtain ⟨v, ev, _⟩ := rdS_of_le (s := oid) (i := o) ho
            rw [ev]; simp only []
            split
            · exact Or.inl rfl
            · exact Or.inr ⟨_, rfl, hl⟩

theorem derTSEQDecStart_cases (der : List UInt8) (tag : Nat) :
    derTSEQDecStart der tag = .err ∨ ∃ a c, derTSEQDecStart der tag = .ok (a, c) ∧ c ≤ der.length ∧ a.tag = tag := by
  unfold derTSEQDecStart
  split
  · exact Or.inl rfl
  · rcases derTDec_cases der with e | ⟨t, k, e, hk1, hk4, hkl⟩
    · rw [e]; exact Or.inl rfl
    · rw [e]; simp only []
      by_cases ht : t ≠ tag
      · rw [if_pos ht]; exact Or.inl rfl
      · rw [if_neg ht]
        rcases derLDec_cases (der.drop k) with e2 | ⟨l, k2, e2, h1, h9, hl, hs⟩
        · rw [e2]; exact Or.inl rfl
        · rw [e2]; simp only []
          rw [List.length_drop] at hl
          have hm : (k + k2) % W = k + k2 := Nat.mod_eq_of_lt (by omegaW)
          rw [hm]
          exact Or.inr ⟨_, _, rfl, by omega, by simp; omega⟩

theorem derIsValid_cases (der : List UInt8) : derIsValid der = .err ∨ derIsValid der = .ok () := by
  unfold derIsValid
  rcases derTDec_cases der with e | ⟨t, k, e, hk1, hk4, hkl⟩
  · rw [e]; exact Or.inl rfl
  · rw [e]; simp only []
    rcases derLDec_cases (der.drop k) with e2 | ⟨l, k2, e2, h1, h9, hl, hs⟩
    · rw [e2]; exact Or.inl rfl
    · rw [e2]; simp only []
      split
      · exact Or.inr rfl
      · exact Or.inl rfl

theorem derIsValid2_cases (der : List UInt8) (tag : Nat) : derIsValid2 der tag = .err ∨ derIsValid2 der tag = .ok () := by
  unfold derIsValid2
  rcases derTDec_cases der with e | ⟨t, k, e, hk1, hk4, hkl⟩
  · rw [e]; exact Or.inl rfl
  · rw [e]; simp only []
    split
    · exact Or.inl rfl
    · rcases derLDec_cases (der.drop k) with e2 | ⟨l, k2, e2, h1, h9, hl, hs⟩
      · rw [e2]; exact Or.inl rfl
      · rw [e2]; simp only []
        split
        · exact Or.inr rfl
        · exact Or.inl rfl

end Bee2V.C08

/-
C08 — field L: value of the length loop, canonical form, round trip.
-/
import Bee2V.C08.LemmasBE
namespace Bee2V.C08

theorem slice_cons (der : List UInt8) (r lc : Nat) (h1 : r < lc) (h2 : lc ≤ der.length) :
    (der.drop r).take (lc - r) = der[r] :: (der.drop (r + 1)).take (lc - (r + 1)) := by
  rw [List.drop_eq_getElem_cons (by omega)]
  have : lc - r = (lc - (r + 1)) + 1 := by omega
  rw [this, List.take_succ_cons]

/-- the length loop computes the big-endian value of der[r..l_count) on top of l (mod 2^64) -/
theorem lDecLoop_val (der : List UInt8) (l_count l r : Nat) (hc : l_count ≤ der.length) (hr : r ≤ l_count) :
    ∃ v, lDecLoop der l_count l r = .ok v ∧ v % W = beVal ((der.drop r).take (l_count - r)) l % W ∧ (l < W → v < W) := by
  fun_induction lDecLoop der l_count l r with
  | case1 l r h b hb ih =>
    obtain ⟨hi, hbv⟩ := rd_ok hb
    obtain ⟨v, e, hv, hlt⟩ := ih (by omega)
    refine ⟨v, e, ?_, fun _ => hlt (Nat.mod_lt _ (by decide))⟩
    rw [hv, slice_cons der r l_count h hc, beVal_cons, ← hbv, beVal_mod]
  | case2 l r h hb => exact absurd hb (rd_ne_err _ _)
  | case3 l r h hb => have := rd_oob hb; omega
  | case4 l r h =>
    have : l_count - r = 0 := by omega
    exact ⟨l, rfl, by simp [this], fun h => h⟩

theorem pow8 : (256 : Nat) ^ 8 = W := by decide

/-- what derLDec accepts, spelled out -/
theorem derLDec_spec (der : List UInt8) (l k : Nat) (h : derLDec der = .ok (l, k)) :
    (∃ h0 : 0 < der.length, k = 1 ∧ der[0].toNat < 128 ∧ l = der[0].toNat) ∨
    (∃ (r : Nat) (h1 : 1 < der.length), 1 ≤ r ∧ r ≤ 8 ∧ k = 1 + r ∧ k ≤ der.length ∧ der[0].toNat = 128 + r ∧
      der[1].toNat ≠ 0 ∧ (r = 1 → 128 ≤ der[1].toNat) ∧ l = beVal ((der.drop 1).take r) 0 ∧ l ≠ SIZE_MAX) := by
  unfold derLDec at h
  by_cases h0 : der.length < 1
  · rw [if_pos h0] at h; cases h
  · have hr0 := rd_of_lt (xs := der) (i := 0) (by omega)
    have hb0 : der[0].toNat < 256 := UInt8.toNat_lt _
    rw [if_neg h0, hr0] at h; simp only [] at h
    generalize hd0 : der[0].toNat = d0 at h hb0
    by_cases h1 : d0 = 128 ∨ d0 = 255
    · rw [if_pos h1] at h; cases h
    · rw [if_neg h1] at h
      by_cases h2 : d0 < 128
      · rw [if_pos h2] at h; cases h
        exact Or.inl ⟨by omega, rfl, by omega, hd0.symm⟩
      · rw [if_neg h2] at h
        by_cases h3 : der.length < 1 + (d0 - 128) ∨ d0 - 128 > 8
        · rw [if_pos h3] at h; cases h
        · rw [if_neg h3] at h
          have hl1 : 1 < der.length := by omega
          have hr1 := rd_of_lt (xs := der) (i := 1) hl1
          rw [hr1] at h; simp only [] at h
          generalize hd1 : der[1].toNat = d1 at h
          by_cases h4 : d1 = 0 ∨ (d0 - 128 = 1 ∧ d1 < 128)
          · rw [if_pos h4] at h; cases h
          · rw [if_neg h4] at h
            have hkl : 1 + (d0 - 128) ≤ der.length := by omega
            have hr8 : d0 - 128 ≤ 8 := by omega
            have hd0' : d0 = 128 + (d0 - 128) := by omega
            have hmin : d0 - 128 = 1 → 128 ≤ d1 := by omega
            have hr1' : 1 ≤ d0 - 128 := by omega
            generalize d0 - 128 = r at *
            obtain ⟨v, e, hv, hlt⟩ := lDecLoop_val der (1 + r) 0 1 hkl (by omega)
            rw [e] at h; simp only [] at h
            by_cases h5 : v = SIZE_MAX
            · rw [if_pos h5] at h; cases h
            · rw [if_neg h5] at h; cases h
              rw [Nat.add_sub_cancel_left] at hv
              have hlen : ((der.drop 1).take r).length = r := by
                simp [List.length_take]; omega
              have hvW : l < W := hlt (by omegaW)
              have hbW : beVal ((der.drop 1).take r) 0 < W := by
                have hb := beVal_lt ((der.drop 1).take r) 0
                rw [hlen, Nat.zero_add, Nat.one_mul] at hb
                exact Nat.lt_of_lt_of_le hb (Nat.le_trans (Nat.pow_le_pow_right (by omega) hr8) (Nat.le_of_eq pow8))
              rw [Nat.mod_eq_of_lt hvW, Nat.mod_eq_of_lt hbW] at hv
              exact Or.inr ⟨r, hl1, hr1', hr8, rfl, hkl, by omega, by omega, by omega, hv, h5⟩

theorem take_succ_eq (der : List UInt8) (r : Nat) (h : 0 < der.length) :
    der.take (1 + r) = der[0] :: (der.drop 1).take r := by
  cases der with
  | nil => simp at h
  | cons a t => simp [Nat.add_comm 1 r]

/-- CANONICAL: whatever derLDec accepts is exactly the code derLEnc produces for the decoded length -/
theorem derLDec_canonical' (der : List UInt8) (l k : Nat) (h : derLDec der = .ok (l, k)) :
    derLEnc l = der.take k := by
  rcases derLDec_spec der l k h with ⟨h0, hk, hs, hl⟩ | ⟨r, h1, hr1, hr8, hk, hkl, hd0, hd1, hmin, hl, _⟩
  · subst hk; subst hl
    unfold derLEnc
    rw [if_pos hs, oct_toNat]
    cases der with
    | nil => simp at h0
    | cons a t => simp
  · subst hk
    have hlen : ((der.drop 1).take r).length = r := by simp [List.length_take, List.length_drop]; omega
    -- the slice starts with der[1] ≠ 0
    have hsl : (der.drop 1).take r = der[1] :: (der.drop 2).take (r - 1) := by
      have := slice_cons der 1 (1 + r) (by omega) hkl
      rw [show 1 + r - 1 = r by omega, show 1 + r - (1 + 1) = r - 1 by omega] at this
      exact this
    have hol : octLen l = r := by
      rw [hl, hsl, octLen_beVal_cons _ _ hd1]
      have : ((der.drop 2).take (r - 1)).length = r - 1 := by simp [List.length_take, List.length_drop]; omega
      omega
    have hge : 128 ≤ l := by
      rw [hl, hsl, beVal_cons]
      have hge := beVal_ge ((der.drop 2).take (r - 1)) (0 * 256 + der[1].toNat)
      have hl2 : ((der.drop 2).take (r - 1)).length = r - 1 := by simp [List.length_take, List.length_drop]; omega
      rw [hl2] at hge
      by_cases hr : r = 1
      · subst hr; simp at hge ⊢; have := hmin rfl; omega
      · have : 256 ^ 1 ≤ 256 ^ (r - 1) := Nat.pow_le_pow_right (by decide) (by omega)
        have h256 : 1 * 256 ^ (r - 1) ≤ (0 * 256 + der[1].toNat) * 256 ^ (r - 1) := Nat.mul_le_mul_right _ (by omega)
        omega
    unfold derLEnc
    rw [if_neg (by omega), hol]
    have hb : beBytes r l = (der.drop 1).take r := by
      have := beBytes_beVal ((der.drop 1).take r)
      rw [hlen, ← hl] at this; exact this
    rw [hb, take_succ_eq der r (by omega)]
    congr 1
    rw [Nat.add_comm, ← hd0, oct_toNat]

theorem octLen_le8 {l : Nat} (h : l < W) : octLen l ≤ 8 := by
  by_cases h0 : l = 0
  · subst h0; simp [octLen_zero]
  · have h1 := pow_octLen_le h0
    rw [← pow8] at h
    have : 256 ^ (octLen l - 1) < 256 ^ 8 := by omega
    have := (Nat.pow_lt_pow_iff_right (by decide : 1 < 256)).mp this
    omega

theorem derLEnc_length (l : Nat) : (derLEnc l).length = if l < 128 then 1 else 1 + octLen l := by
  unfold derLEnc; split <;> simp [beBytes_length]; omega

/-- ROUND TRIP: every length below SIZE_MAX decodes back from its code, whatever follows -/
theorem derL_roundtrip' (l : Nat) (hl : l < SIZE_MAX) (rest : List UInt8) :
    derLDec (derLEnc l ++ rest) = .ok (l, (derLEnc l).length) := by
  by_cases hs : l < 128
  · have e : derLEnc l = [oct l] := by unfold derLEnc; rw [if_pos hs]
    rw [e]
    unfold derLDec
    have hr0 : rd ([oct l] ++ rest) 0 = .ok l := by
      rw [rd_of_lt (by simp)]; simp [toNat_oct]; omega
    simp only [List.length_append, List.length_singleton, hr0]
    rw [if_neg (by omega), if_neg (by omega), if_pos hs]
  · have hl0 : l ≠ 0 := by omega
    have hW : l < W := by omegaW
    have h8 := octLen_le8 hW
    have h1 : 1 ≤ octLen l := by rw [octLen_pos hl0]; omega
    obtain ⟨tl, htl, hnz, hval⟩ := beBytes_octLen_head hl0
    have e : derLEnc l = oct (octLen l + 128) :: beBytes (octLen l) l := by unfold derLEnc; rw [if_neg hs]
    rw [e]
    have hlen : (oct (octLen l + 128) :: beBytes (octLen l) l ++ rest).length = 1 + octLen l + rest.length := by
      simp [beBytes_length]; omega
    unfold derLDec
    have hr0 : rd (oct (octLen l + 128) :: beBytes (octLen l) l ++ rest) 0 = .ok (octLen l + 128) := by
      rw [rd_of_lt (by simp)]; simp [toNat_oct]; omega
    have hr1 : rd (oct (octLen l + 128) :: beBytes (octLen l) l ++ rest) 1 = .ok (l / 256 ^ (octLen l - 1)) := by
      have e1 : rd (oct (octLen l + 128) :: beBytes (octLen l) l ++ rest) 1 = rd (beBytes (octLen l) l ++ rest) 0 := by
        simp [rd]
      rw [e1, htl]
      simp [rd, hval]
    rw [hlen, if_neg (by omega), hr0]; simp only []
    rw [if_neg (by omega), if_neg (by omega)]
    have hsub : octLen l + 128 - 128 = octLen l := by omega
    rw [hsub, if_neg (by omega), hr1]; simp only []
    have hmin : ¬ (l / 256 ^ (octLen l - 1) = 0 ∨ (octLen l = 1 ∧ l / 256 ^ (octLen l - 1) < 128)) := by
      rw [← hval]
      intro hc
      rcases hc with hc | ⟨hc1, hc2⟩
      · exact hnz hc
      · rw [hval, hc1] at hc2; simp at hc2; omega
    rw [if_neg hmin]
    obtain ⟨v, ev, hv, hlt⟩ := lDecLoop_val (oct (octLen l + 128) :: beBytes (octLen l) l ++ rest) (1 + octLen l) 0 1
      (by rw [hlen]; omega) (by omega)
    rw [ev]; simp only []
    have hslice : (List.drop 1 (oct (octLen l + 128) :: beBytes (octLen l) l ++ rest)).take (1 + octLen l - 1) = beBytes (octLen l) l := by
      simp only [List.cons_append, List.drop_succ_cons, List.drop_zero, Nat.add_sub_cancel_left]
      rw [List.take_append_of_le_length (by rw [beBytes_length]; exact Nat.le_refl _)]
      rw [List.take_of_length_le (by rw [beBytes_length]; exact Nat.le_refl _)]
    rw [hslice, beVal_beBytes, Nat.mod_eq_of_lt (lt_pow_octLen l), Nat.mod_eq_of_lt (hlt (by omegaW)), Nat.mod_eq_of_lt hW] at hv
    subst hv
    rw [if_neg (by omegaW)]
    simp [beBytes_length]; omega

end Bee2V.C08

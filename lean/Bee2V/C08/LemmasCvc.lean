/-
C08 — lemmas for Props9: every write of the CVC decode model (Model4) stays within the capacity of the
destination field of btok_cvc_t — on every path, also on the failing ones.
-/
import Bee2V.C08.Model4
import Bee2V.C08.Lemmas
namespace Bee2V.C08
set_option linter.unusedSimpArgs false

/-! ### lengths of decoded values -/

theorem derTOCTDec2_len {der : List UInt8} {tag len : Nat} {v : List UInt8} {c : Nat} (hlen : der.length < W)
    (h : derTOCTDec2 der tag len = .ok (v, c)) : v.length = len := by
  unfold derTOCTDec2 at h
  rcases derDec3_cases der tag len hlen with e | ⟨off, c', e, _, hc, hl⟩
  · rw [e] at h; cases h
  · rw [e] at h; simp only [] at h
    rw [rdSlice_ok (by omega)] at h
    injection h with h; injection h with hv _
    subst hv
    simp [List.length_take, List.length_drop]; omega

theorem derTBITDec_len {der : List UInt8} {tag : Nat} {v : List UInt8} {bl c : Nat} (hlen : der.length * 8 + 16 < W)
    (h : derTBITDec der tag = .ok (v, bl, c)) : ∃ v0, v0 ≤ 7 ∧ bl = (v.length * 8 + W - v0) % W ∧ v.length * 8 < W := by
  unfold derTBITDec at h
  rcases bitCore_cases der tag (by omega) with e | ⟨off, l, v0, c', e, _, h1, h7, hc, hl⟩
  · rw [e] at h; cases h
  · rw [e] at h; simp only [] at h
    rw [rdSlice_ok (by omega)] at h
    injection h with h; injection h with hv h2; injection h2 with hb _
    subst hv
    have hlv : ((der.drop (off + 1)).take (l - 1)).length = l - 1 := by
      simp [List.length_take, List.length_drop]; omega
    refine ⟨v0, h7, ?_, ?_⟩
    · rw [hlv]; exact hb.symm
    · rw [hlv]; omega

/-! ### invariants of the decode state -/

/-- every recorded write fits its field -/
def CapInv (st : DSt) : Prop := ∀ e ∈ st.outs, capOK e = true

theorem capInv_empty : CapInv {} := by
  intro e he; cases he

theorem capInv_wr {st : DSt} {field : Nat} {v : List UInt8} (h : CapInv st) (hv : capOK (UInt8.ofNat field :: v) = true) :
    CapInv (wr st field v) := by
  intro e he
  simp only [wr, List.mem_append, List.mem_singleton] at he
  rcases he with he | he
  · exact h e he
  · rw [he]; exact hv

/-- a step keeps the invariant whenever it succeeds on an input of at most L octets (a failing step leaves the
    state as it was) -/
def StepInv (L : Nat) (P : DSt → Prop) (s : DStep) : Prop :=
  ∀ st p rest t st', rest.length ≤ L → P st → s st p rest = .ok (t, st') → P st'

def AllInv (L : Nat) (P : DSt → Prop) (steps : List DStep) : Prop := ∀ s ∈ steps, StepInv L P s

theorem AllInv.nil {L : Nat} {P : DSt → Prop} : AllInv L P [] := by intro s hs; cases hs

theorem AllInv.cons {L : Nat} {P : DSt → Prop} {s : DStep} {ss : List DStep} (h : StepInv L P s) (hs : AllInv L P ss) :
    AllInv L P (s :: ss) := by
  intro x hx
  rcases List.mem_cons.mp hx with e | e
  · rw [e]; exact h
  · exact hs x e

theorem AllInv.append {L : Nat} {P : DSt → Prop} {a b : List DStep} (ha : AllInv L P a) (hb : AllInv L P b) :
    AllInv L P (a ++ b) := by
  intro x hx
  rcases List.mem_append.mp hx with e | e
  · exact ha x e
  · exact hb x e

theorem AllInv.ite {L : Nat} {P : DSt → Prop} {c : Bool} {a : List DStep} (ha : AllInv L P a) :
    AllInv L P (if c = true then a else []) := by
  cases c
  · exact AllInv.nil
  · exact ha

/-- the state returned by runDecS — result ok or not — satisfies every invariant its steps keep -/
theorem runDecS_inv (der : List UInt8) (L : Nat) (hL : der.length ≤ L) (P : DSt → Prop) :
    ∀ (steps : List DStep) (st : DSt) (p : Nat), AllInv L P steps → P st → P (runDecS der steps st p).2 := by
  intro steps
  induction steps with
  | nil => intro st p _ h; exact h
  | cons s ss ih =>
    intro st p hall h
    unfold runDecS
    cases hs : s st p (der.drop p) with
    | ok r =>
      obtain ⟨t, st'⟩ := r
      simp only []
      exact ih st' (p + t) (fun x hx => hall x (List.mem_cons_of_mem _ hx))
        (hall s List.mem_cons_self st p _ t st' (by rw [List.length_drop]; omega) h hs)
    | err => exact h
    | oob => exact h

/-! ### the steps of the CVC decoder -/

theorem stepInv_dStart (L : Nat) (P : DSt → Prop) (hP : ∀ st a, P st → P { st with anchors := a }) (slot tag : Nat) :
    StepInv L P (dStart slot tag) := by
  intro st p rest t st' _ h e
  unfold dStart at e
  cases hd : derTSEQDecStart rest tag with
  | ok r =>
    obtain ⟨a, c⟩ := r
    rw [hd] at e; simp only [] at e
    injection e with e; injection e with _ e2
    rw [← e2]; exact hP _ _ h
  | err => rw [hd] at e; cases e
  | oob => rw [hd] at e; cases e

theorem stepInv_dStop (L : Nat) (P : DSt → Prop) (slot : Nat) : StepInv L P (dStop slot) := by
  intro st p rest t st' _ h e
  unfold dStop at e
  split at e
  · split at e
    · injection e with e; injection e with _ e2; rw [← e2]; exact h
    · cases e
    · cases e
  · cases e

theorem stepInv_dPrim (L : Nat) (P : DSt → Prop) (f : List UInt8 → R Nat) : StepInv L P (dPrim f) := by
  intro st p rest t st' _ h e
  unfold dPrim at e
  split at e
  · injection e with e; injection e with _ e2; rw [← e2]; exact h
  · cases e
  · cases e

theorem capInv_anchors : ∀ (st : DSt) (a : List (Nat × Nat × Anchor)), CapInv st → CapInv { st with anchors := a } := by
  intro st a h; exact h

theorem stepInv_dName (L : Nat) (field tag : Nat) (hf : field = fAuthority ∨ field = fHolder) :
    StepInv L CapInv (dName field tag) := by
  intro st p rest t st' _ h e
  unfold dName at e
  split at e
  · next v c _ =>
    by_cases hv : v.length < 8 ∨ v.length > 12
    · rw [if_pos hv] at e; cases e
    · rw [if_neg hv] at e
      injection e with e; injection e with _ e2
      rw [← e2]
      apply capInv_wr h
      have h12 : v.length + 1 ≤ 13 := by omega
      rcases hf with hf | hf <;> subst hf <;> simp [capOK, fAuthority, fHolder, h12]
  · cases e
  · cases e

theorem stepInv_dFix (L : Nat) (hL : L < W) (field tag len : Nat)
    (hcap : ∀ v : List UInt8, v.length = len → capOK (UInt8.ofNat field :: v) = true) :
    StepInv L CapInv (dFix field tag len) := by
  intro st p rest t st' hr h e
  unfold dFix at e
  split at e
  · next v c hd =>
    injection e with e; injection e with _ e2
    rw [← e2]
    exact capInv_wr h (hcap v (derTOCTDec2_len (by omega) hd))
  · cases e
  · cases e

theorem stepInv_dPubkey (L : Nat) (hL : L * 8 + 16 < W) : StepInv L CapInv dPubkey := by
  intro st p rest t st' hr h e
  unfold dPubkey at e
  split at e
  · next v bl c hd =>
    by_cases hb : bl ≠ 384 ∧ bl ≠ 512 ∧ bl ≠ 768 ∧ bl ≠ 1024
    · rw [if_pos hb] at e; cases e
    · rw [if_neg hb] at e
      injection e with e; injection e with _ e2
      rw [← e2]
      obtain ⟨v0, h7, hbl, hv8⟩ := derTBITDec_len (by omega) hd
      have h128 : v.length ≤ 128 := by omegaW
      apply capInv_wr h
      simp [capOK, fAuthority, fHolder, fPubkey, h128]
  · cases e
  · cases e

/-! ### the whole decoders -/

theorem allInv_steps1 (L : Nat) (hL : L * 8 + 16 < W) : AllInv L CapInv cvcSteps1 := by
  unfold cvcSteps1
  refine AllInv.cons (stepInv_dStart L _ capInv_anchors _ _) (AllInv.cons (stepInv_dPrim L _ _)
    (AllInv.cons (stepInv_dName L _ _ (Or.inl rfl)) (AllInv.cons (stepInv_dStart L _ capInv_anchors _ _)
    (AllInv.cons (stepInv_dPrim L _ _) (AllInv.cons (stepInv_dPubkey L hL) (AllInv.cons (stepInv_dStop L _ _)
    (AllInv.cons (stepInv_dName L _ _ (Or.inr rfl)) AllInv.nil)))))))

theorem allInv_hat (L : Nat) (hL : L < W) : AllInv L CapInv cvcHat := by
  unfold cvcHat
  refine AllInv.cons (stepInv_dStart L _ capInv_anchors _ _) (AllInv.cons (stepInv_dPrim L _ _)
    (AllInv.cons (stepInv_dFix L hL _ _ _ ?_) (AllInv.cons (stepInv_dStop L _ _) AllInv.nil)))
  intro v hv; simp [capOK, fAuthority, fHolder, fPubkey, fHatEid, fFrom, fUntil, fHatEsign, fSig, hv]

theorem allInv_dates (L : Nat) (hL : L < W) : AllInv L CapInv cvcDates := by
  unfold cvcDates
  refine AllInv.cons (stepInv_dFix L hL _ _ _ ?_) (AllInv.cons (stepInv_dFix L hL _ _ _ ?_) AllInv.nil)
  · intro v hv; simp [capOK, fAuthority, fHolder, fPubkey, fHatEid, fFrom, fUntil, fHatEsign, fSig, hv]
  · intro v hv; simp [capOK, fAuthority, fHolder, fPubkey, fHatEid, fFrom, fUntil, fHatEsign, fSig, hv]

theorem allInv_ext (L : Nat) (hL : L < W) : AllInv L CapInv cvcExt := by
  unfold cvcExt
  refine AllInv.cons (stepInv_dStart L _ capInv_anchors _ _) (AllInv.cons (stepInv_dStart L _ capInv_anchors _ _)
    (AllInv.cons (stepInv_dPrim L _ _) (AllInv.cons (stepInv_dStart L _ capInv_anchors _ _)
    (AllInv.cons (stepInv_dPrim L _ _) (AllInv.cons (stepInv_dFix L hL _ _ _ ?_)
    (AllInv.cons (stepInv_dStop L _ _) (AllInv.cons (stepInv_dStop L _ _) (AllInv.cons (stepInv_dStop L _ _) AllInv.nil))))))))
  intro v hv; simp [capOK, fAuthority, fHolder, fPubkey, fHatEid, fFrom, fUntil, fHatEsign, fSig, hv]

theorem cvcBodyDecS_capInv (body : List UInt8) (hlen : body.length * 8 + 16 < W) : CapInv (cvcBodyDecS body).2 := by
  have hW : body.length < W := by omega
  unfold cvcBodyDecS
  have h1 := runDecS_inv body body.length (Nat.le_refl _) CapInv cvcSteps1 {} 0 (allInv_steps1 _ hlen) capInv_empty
  generalize runDecS body cvcSteps1 {} 0 = x1 at h1 ⊢
  obtain ⟨r1, st1⟩ := x1
  cases r1 with
  | err => exact h1
  | oob => exact h1
  | ok p1 =>
    simp only []
    have h2 := runDecS_inv body body.length (Nat.le_refl _) CapInv
      ((if startsWith (body.drop p1) 0x7F4C = true then cvcHat else []) ++ cvcDates) st1 p1
      (AllInv.append (AllInv.ite (allInv_hat _ hW)) (allInv_dates _ hW)) h1
    generalize runDecS body ((if startsWith (body.drop p1) 0x7F4C = true then cvcHat else []) ++ cvcDates) st1 p1 = x2 at h2 ⊢
    obtain ⟨r2, st2⟩ := x2
    cases r2 with
    | err => exact h2
    | oob => exact h2
    | ok p2 =>
      simp only []
      exact runDecS_inv body body.length (Nat.le_refl _) CapInv _ st2 p2
        (AllInv.append (AllInv.ite (allInv_ext _ hW)) (AllInv.cons (stepInv_dStop _ _ _) AllInv.nil)) h2

theorem cvcUnwrapS_capInv (cert : List UInt8) (hlen : cert.length * 8 + 16 < W) : CapInv (cvcUnwrapS cert).2 := by
  unfold cvcUnwrapS
  split
  · next a t _ =>
    have hb := cvcBodyDecS_capInv (cert.drop t) (by rw [List.length_drop]; omega)
    generalize cvcBodyDecS (cert.drop t) = xb at hb ⊢
    obtain ⟨rb, st⟩ := xb
    cases rb with
    | err => exact hb
    | oob => exact hb
    | ok bl =>
      simp only []
      split
      · next n hn =>
        have hn' : n = 34 ∨ n = 48 ∨ n = 72 ∨ n = 96 := by
          split at hn
          · injection hn with hn; omega
          · split at hn
            · injection hn with hn; omega
            · split at hn
              · injection hn with hn; omega
              · split at hn
                · injection hn with hn; omega
                · cases hn
        split
        · next v ts hd =>
          have hv : v.length = n := derTOCTDec2_len (by rw [List.length_drop]; omegaW) hd
          have hc : CapInv (wr st fSig v) := by
            apply capInv_wr hb
            have h96 : v.length ≤ 96 := by omega
            simp [capOK, fAuthority, fHolder, fPubkey, fHatEid, fFrom, fUntil, fHatEsign, fSig, h96]
          split <;> exact hc
        · exact hb
      · exact hb
  · exact capInv_empty

theorem cvcUnwrapKS_capInv (cert : List UInt8) (kl : Nat) (hk : kl = 48 ∨ kl = 64 ∨ kl = 96 ∨ kl = 128)
    (hlen : cert.length * 8 + 16 < W) : CapInv (cvcUnwrapKS cert kl) := by
  unfold cvcUnwrapKS
  split
  · next a t _ =>
    have hb := cvcBodyDecS_capInv (cert.drop t) (by rw [List.length_drop]; omega)
    generalize cvcBodyDecS (cert.drop t) = xb at hb ⊢
    obtain ⟨rb, st⟩ := xb
    cases rb with
    | err => exact hb
    | oob => exact hb
    | ok bl =>
      simp only []
      have hk0 : kl ≠ 0 := by omega
      rw [if_neg hk0]
      have hn : (if kl = 48 then 34 else kl - kl / 4) ≤ 96 := by split <;> omega
      generalize (if kl = 48 then 34 else kl - kl / 4) = n at hn ⊢
      split
      · next v ts hd =>
        have hv : v.length = n := derTOCTDec2_len (by rw [List.length_drop]; omegaW) hd
        apply capInv_wr hb
        have h96 : v.length ≤ 96 := by omega
        simp [capOK, fAuthority, fHolder, fPubkey, fHatEid, fFrom, fUntil, fHatEsign, fSig, h96]
      · apply capInv_wr hb
        simp [capOK, fAuthority, fHolder, fPubkey, fHatEid, fFrom, fUntil, fHatEsign, fSig, hn]
  · exact capInv_empty

/-! ### the structure image -/

theorem fieldOf_cap {st : DSt} (h : CapInv st) {f : Nat} {v : List UInt8} (hf : fieldOf st f = some v) :
    capOK (UInt8.ofNat f :: v) = true := by
  unfold fieldOf at hf
  rcases Option.map_eq_some_iff.mp hf with ⟨e, he, hd⟩
  have hp := List.find?_some he
  have hm : e ∈ st.outs := List.mem_reverse.mp (List.mem_of_find?_eq_some he)
  have hc := h e hm
  cases e with
  | nil => simp [capOK] at hc
  | cons x xs =>
    have hx : x = UInt8.ofNat f := by simpa using hp
    have hxs : xs = v := by simpa using hd
    rw [← hx, ← hxs]; exact hc

theorem padTo_length (n : Nat) (v : List UInt8) : (padTo n v).length = n := by
  simp [padTo]

theorem padTo_tail (n i : Nat) (v : List UInt8) (hv : v.length ≤ i) (hi : i < n) : (padTo n v)[i]? = some 0 := by
  unfold padTo
  rw [List.getElem?_take_of_lt hi, List.getElem?_append_right hv, List.getElem?_replicate]
  rw [if_pos (by omega)]

theorem fieldLen_le {st : DSt} (h : CapInv st) (f k : Nat) (hk : ∀ v : List UInt8, capOK (UInt8.ofNat f :: v) = true → v.length ≤ k) :
    ((fieldOf st f).getD []).length ≤ k := by
  cases hf : fieldOf st f with
  | none => simp
  | some v => simp only [Option.getD_some]; exact hk v (fieldOf_cap h hf)

/-- the image of a state whose writes fit: both names are terminated inside their 13 octets, the lengths are
    within the arrays -/
theorem image_ok {st : DSt} (h : CapInv st) :
    (cvcImage st).authority[12]? = some 0 ∧ (cvcImage st).holder[12]? = some 0 ∧
    (cvcImage st).pubkey_len ≤ 128 ∧ (cvcImage st).sig_len ≤ 96 := by
  refine ⟨?_, ?_, ?_, ?_⟩
  · exact padTo_tail 13 12 _ (fieldLen_le h fAuthority 12 (by intro v hv; simp [capOK, fAuthority, fHolder] at hv; omega)) (by omega)
  · exact padTo_tail 13 12 _ (fieldLen_le h fHolder 12 (by intro v hv; simp [capOK, fAuthority, fHolder] at hv; omega)) (by omega)
  · exact fieldLen_le h fPubkey 128 (by intro v hv; simp [capOK, fAuthority, fHolder, fPubkey] at hv; omega)
  · exact fieldLen_le h fSig 96 (by
      intro v hv; simp [capOK, fAuthority, fHolder, fPubkey, fHatEid, fFrom, fUntil, fHatEsign, fSig] at hv; omega)

end Bee2V.C08

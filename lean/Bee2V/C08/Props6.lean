/-
C08 — property theorems, part 6: the bpki.c container decoders (PrivateKeyInfo, share,
EncryptedPrivateKeyInfo, certificate request), modelled as the sequence of `derDecStep` lines of the
C code over the primitive models (Model3.lean): whatever the input, they never read outside it and the
returned length of the code is at most the input length.
-/
import Bee2V.C08.LemmasCont
namespace Bee2V.C08

theorem bpkiPrivkeyDec_steps_bdd : ∀ s ∈ bpkiPrivkeyDecSteps, BddStep s := by
  unfold bpkiPrivkeyDecSteps
  simp only [List.forall_mem_cons, List.not_mem_nil, false_imp_iff, implies_true, and_true]
  exact ⟨bdd_dStart _ _, bdd_dPrim _ (bdd_sizeDec2 _), bdd_dStart _ _, bdd_dPrim _ (bdd_oidDec2 _), bdd_dAlt _,
    bdd_dStop _, bdd_dOctLen, bdd_dStop _⟩

theorem bpkiShareDec_steps_bdd : ∀ s ∈ bpkiShareDecSteps, BddStep s := by
  unfold bpkiShareDecSteps
  simp only [List.forall_mem_cons, List.not_mem_nil, false_imp_iff, implies_true, and_true]
  exact ⟨bdd_dStart _ _, bdd_dPrim _ (bdd_sizeDec2 _), bdd_dStart _ _, bdd_dPrim _ (bdd_oidDec2 _), bdd_dAlt _,
    bdd_dStop _, bdd_dOctLen, bdd_dStop _⟩

theorem bpkiEdataDec_steps_bdd : ∀ s ∈ bpkiEdataDecSteps, BddStep s := by
  unfold bpkiEdataDecSteps
  simp only [List.forall_mem_cons, List.not_mem_nil, false_imp_iff, implies_true, and_true]
  exact ⟨bdd_dStart _ _, bdd_dStart _ _, bdd_dPrim _ (bdd_oidDec2 _), bdd_dStart _ _, bdd_dStart _ _,
    bdd_dPrim _ (bdd_oidDec2 _), bdd_dStart _ _, bdd_dOut _ (bdd_octDec2 8), bdd_dNum _ bdd_sizeDec, bdd_dStart _ _,
    bdd_dPrim _ (bdd_oidDec2 _), bdd_dPrim _ bdd_nullDec, bdd_dStop _, bdd_dStop _, bdd_dStop _, bdd_dStart _ _,
    bdd_dPrim _ (bdd_oidDec2 _), bdd_dPrim _ bdd_nullDec, bdd_dStop _, bdd_dStop _, bdd_dStop _, bdd_dOut _ bdd_octDec,
    bdd_dStop _⟩

theorem bpkiCSRDec_steps_bdd : ∀ s ∈ bpkiCSRDecSteps, BddStep s := by
  unfold bpkiCSRDecSteps
  simp only [List.forall_mem_cons, List.not_mem_nil, false_imp_iff, implies_true, and_true]
  exact ⟨bdd_dStart _ _, bdd_dMark _, bdd_dStart _ _, bdd_dPrim _ (bdd_sizeDec2 _), bdd_dPrim _ (bdd_skipDec _),
    bdd_dStart _ _, bdd_dStart _ _, bdd_dPrim _ (bdd_oidDec2 _), bdd_dPrim _ (bdd_oidDec2 _), bdd_dStop _,
    bdd_dPrim _ (bdd_bitDec2 _), bdd_dMark _, bdd_dStop _, bdd_dPrim _ (bdd_skipDec _), bdd_dStop _, bdd_dMark _,
    bdd_dStart _ _, bdd_dPrim _ (bdd_oidDec2 _), bdd_dPrim _ bdd_nullDec, bdd_dStop _, bdd_dPrim _ (bdd_bitDec2 _),
    bdd_dMark _, bdd_dStop _⟩

/-- bpkiPrivkeyDec: no over-read, returned length ≤ input -/
theorem bpkiPrivkeyDec_bounded (pki : List UInt8) (hlen : pki.length < W) :
    bpkiPrivkeyDec pki ≠ .oob ∧ ∀ c st, bpkiPrivkeyDec pki = .ok (c, st) → c ≤ pki.length := by
  obtain ⟨h1, h2⟩ := runDec_bdd pki hlen _ bpkiPrivkeyDec_steps_bdd {} 0 (Nat.zero_le _)
  exact ⟨h1, fun c st h => (h2 c st h).2⟩
example : (bpkiPrivkeyEnc (List.replicate 32 0x11)).isOk = true := by decide +kernel

theorem bpkiShareDec_bounded (pki : List UInt8) (hlen : pki.length < W) :
    bpkiShareDec pki ≠ .oob ∧ ∀ c st, bpkiShareDec pki = .ok (c, st) → c ≤ pki.length := by
  obtain ⟨h1, h2⟩ := runDec_bdd pki hlen _ bpkiShareDec_steps_bdd {} 0 (Nat.zero_le _)
  exact ⟨h1, fun c st h => (h2 c st h).2⟩

/-- bpkiEdataDec (the parse path of bpkiPrivkeyUnwrap / bpkiShareUnwrap): no over-read, length ≤ input -/
theorem bpkiEdataDec_bounded (epki : List UInt8) (hlen : epki.length < W) :
    bpkiEdataDec epki ≠ .oob ∧ ∀ c st, bpkiEdataDec epki = .ok (c, st) → c ≤ epki.length := by
  obtain ⟨h1, h2⟩ := runDec_bdd epki hlen _ bpkiEdataDec_steps_bdd {} 0 (Nat.zero_le _)
  exact ⟨h1, fun c st h => (h2 c st h).2⟩

/-- bpkiCSRDec (the parse path of bpkiCSRUnwrap / bpkiCSRRewrap): no over-read, length ≤ input -/
theorem bpkiCSRDec_bounded (csr : List UInt8) (hlen : csr.length < W) :
    bpkiCSRDec csr ≠ .oob ∧ ∀ c st, bpkiCSRDec csr = .ok (c, st) → c ≤ csr.length := by
  obtain ⟨h1, h2⟩ := runDec_bdd csr hlen _ bpkiCSRDec_steps_bdd {} 0 (Nat.zero_le _)
  exact ⟨h1, fun c st h => (h2 c st h).2⟩

theorem bignParamsDec_steps_bdd : ∀ s ∈ bignParamsDecSteps, BddStep s := by
  unfold bignParamsDecSteps
  simp only [List.forall_mem_cons, List.not_mem_nil, false_imp_iff, implies_true, and_true]
  exact ⟨bdd_dStart _ _, bdd_dPrim _ (bdd_sizeDec2 _), bdd_dStart _ _, bdd_dPrim _ (bdd_oidDec2 _), bdd_dUintP, bdd_dStop _,
    bdd_dStart _ _, bdd_dOctLen, bdd_dOctLen, bdd_dOut _ (bdd_bitDec2v 64), bdd_dStop _, bdd_dOctLen, bdd_dUintLen,
    bdd_dOpt _ (bdd_sizeDec2 _), bdd_dStop _⟩

/-- bignParamsDec_internal (the parse path of bignParamsDec): no over-read, returned length ≤ input, whatever the
    optional cofactor and the probed length of p are -/
theorem bignParamsDec_bounded (der : List UInt8) (hlen : der.length < W) :
    bignParamsDecI der ≠ .oob ∧ ∀ c st, bignParamsDecI der = .ok (c, st) → c ≤ der.length := by
  obtain ⟨h1, h2⟩ := runDec_bdd der hlen _ bignParamsDec_steps_bdd {} 0 (Nat.zero_le _)
  exact ⟨h1, fun c st h => (h2 c st h).2⟩

end Bee2V.C08

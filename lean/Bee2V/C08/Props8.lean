/-
C08 — property theorems, part 8: container-level round trips (bpki.c) and the nested-SEQUENCE facts they
rest on: decode ∘ encode = id for PrivateKeyInfo, share container and EncryptedPrivateKeyInfo.
-/
import Bee2V.C08.ContCan
namespace Bee2V.C08

/-- the encoder interpreter on a well-formed tree of primitive codes and SEQUENCEs writes exactly the
    nested DER code (every Start/Stop pair becomes `T ‖ L(|content|) ‖ content`) -/
theorem runEnc_tree_code (ts : List Tree) (h : Tree.OkL ts) (buf : List UInt8) (an : List (Nat × Anchor))
    (hW : buf.length + Tree.boundL ts + 16 < W) : runEnc (Tree.stepsL ts) buf an = .ok (buf ++ Tree.codeL ts) :=
  runEnc_tree ts h buf an hW
example : Tree.codeL [.seq 0 48 [.prim [5, 0]]] = [48, 2, 5, 0] := by decide +kernel

/-- bpkiPrivkeyDec (bpkiPrivkeyEnc k) = k, consuming the whole code (24/32/48/64-octet keys) -/
theorem bpkiPrivkey_dec_enc (k pki : List UInt8) (hk : k.length = 24 ∨ k.length = 32 ∨ k.length = 48 ∨ k.length = 64)
    (he : bpkiPrivkeyEnc k = .ok pki) : ∃ st, bpkiPrivkeyDec pki = .ok (pki.length, st) ∧ st.outs = [k] :=
  bpkiPrivkey_roundtrip k pki hk he

/-- bpkiShareDec (bpkiShareEnc s) = s (17/25/33-octet shares) -/
theorem bpkiShare_dec_enc (s pki : List UInt8) (hs : s.length = 17 ∨ s.length = 25 ∨ s.length = 33)
    (he : bpkiShareEnc s = .ok pki) : ∃ st, bpkiShareDec pki = .ok (pki.length, st) ∧ st.outs = [s] :=
  bpkiShare_roundtrip s pki hs he

/-- bpkiEdataDec (bpkiEdataEnc edata salt iter) = (edata, salt, iter) through the seven nested SEQUENCEs -/
theorem bpkiEdata_dec_enc (edata salt e : List UInt8) (iter : Nat) (hsalt : salt.length = 8) (hiter : iter < W)
    (hed : edata.length < 4294967296) (he : bpkiEdataEnc edata salt iter = .ok e) :
    ∃ st, bpkiEdataDec e = .ok (e.length, st) ∧ st.outs = [salt, edata] ∧ st.nums = [iter] :=
  bpkiEdata_roundtrip edata salt e iter hsalt hiter hed he
example : (bpkiEdataEnc [1, 2, 3] [1, 2, 3, 4, 5, 6, 7, 8] 10000).isOk = true := by decide +kernel

/-- the OID matcher accepts the code of its string, whatever follows -/
theorem derOIDDec2_accepts_code (oid e rest : List UInt8) (he : derOIDEnc oid = .ok e)
    (hlen : 13 + e.length + rest.length < W) : derOIDDec2 (e ++ rest) oid = .ok e.length :=
  derOIDDec2_roundtrip oid e rest he hlen

/-! ### canonical direction -/

/-- an accepted PrivateKeyInfo is exactly bpkiPrivkeyEnc of the key it yields -/
theorem bpkiPrivkey_enc_dec (x : List UInt8) (hl : x.length < W) (c : Nat) (st : DSt) (h : bpkiPrivkeyDec x = .ok (c, st)) :
    c ≤ x.length ∧ ∃ k, st.outs = [k] ∧ (k.length = 24 ∨ k.length = 32 ∨ k.length = 48 ∨ k.length = 64) ∧
      bpkiPrivkeyEnc k = .ok (x.take c) := bpkiPrivkey_canonical x hl c st h

/-- an accepted share container is exactly bpkiShareEnc of the share it yields -/
theorem bpkiShare_enc_dec (x : List UInt8) (hl : x.length < W) (c : Nat) (st : DSt) (h : bpkiShareDec x = .ok (c, st)) :
    c ≤ x.length ∧ ∃ k, st.outs = [k] ∧ (k.length = 17 ∨ k.length = 25 ∨ k.length = 33) ∧
      bpkiShareEnc k = .ok (x.take c) := bpkiShare_canonical x hl c st h

/-- an accepted EncryptedPrivateKeyInfo is exactly bpkiEdataEnc of the (edata, salt, iter) it yields: all seven
    nested SEQUENCE lengths are forced (the seeded defect C08-m3 — Stop on the wrong anchor — contradicts this) -/
theorem bpkiEdata_enc_dec (x : List UInt8) (hl : x.length < 4294967296) (c : Nat) (st : DSt)
    (h : bpkiEdataDec x = .ok (c, st)) :
    c ≤ x.length ∧ ∃ edata salt iter, st.outs = [salt, edata] ∧ st.nums = [iter] ∧
      bpkiEdataEnc edata salt iter = .ok (x.take c) := bpkiEdata_canonical x hl c st h

end Bee2V.C08

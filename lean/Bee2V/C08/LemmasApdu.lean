/-
C08 — APDU commands: shape of what apduCmdDec accepts, canonical form, round trip.
-/
import Bee2V.C08.LemmasTyped
namespace Bee2V.C08

/-- what the Lc parser returns, by the shape of the octets after the header -/
theorem apduLc_spec (a : List UInt8) (cll cl : Nat) (h : apduLc a = .ok (cll, cl)) :
    (cll = 0 ∧ cl = 0 ∧ (a.length ≤ 1 ∨ ∃ y z, a = [0, y, z])) ∨
    (cll = 1 ∧ ∃ x t, a = x :: t ∧ x.toNat ≠ 0 ∧ cl = x.toNat ∧ t ≠ []) ∨
    (cll = 3 ∧ ∃ y z w t, a = 0 :: y :: z :: w :: t ∧ cl = y.toNat * 256 + z.toNat ∧ cl ≠ 0) := by
  unfold apduLc at h
  match a, h with
  | [], h => simp at h; exact Or.inl ⟨h.1.symm, h.2.symm, Or.inl (by simp)⟩
  | [x], h => simp at h; exact Or.inl ⟨h.1.symm, h.2.symm, Or.inl (by simp)⟩
  | [x, y], h =>
    simp [rd] at h
    split at h
    · simp at h
    · rename_i hx
      simp at h
      exact Or.inr (Or.inl ⟨h.1.symm, x, [y], rfl, by simpa using hx, h.2.symm, by simp⟩)
  | [x, y, z], h =>
    simp [rd] at h
    by_cases hx : x.toNat = 0
    · simp [hx] at h
      exact Or.inl ⟨h.1.symm, h.2.symm, Or.inr ⟨y, z, by rw [toNat_zero_eq x hx]⟩⟩
    · simp [hx] at h
      exact Or.inr (Or.inl ⟨h.1.symm, x, [y, z], rfl, hx, h.2.symm, by simp⟩)
  | x :: y :: z :: w :: t, h =>
    simp [rd] at h
    by_cases hx : x.toNat = 0
    · simp [hx] at h
      split at h
      · simp at h
      · split at h
        · cases h
        · rename_i hnz
          simp at h
          refine Or.inr (Or.inr ⟨h.1.symm, y, z, w, t, by rw [toNat_zero_eq x hx], h.2.symm, ?_⟩)
          rw [← h.2]; omega
    · simp [hx] at h
      exact Or.inr (Or.inl ⟨h.1.symm, x, y :: z :: w :: t, rfl, hx, h.2.symm, by simp⟩)

theorem apduLc_no_oob (a : List UInt8) : apduLc a ≠ .oob := by
  unfold apduLc
  match a with
  | [] => simp
  | [x] => simp
  | [x, y] => simp [rd]; split <;> simp
  | [x, y, z] => simp [rd]; split <;> (try split) <;> simp
  | x :: y :: z :: w :: t => simp [rd]; split <;> (try split) <;> (try split) <;> simp

theorem apduLe_spec (a : List UInt8) (cll cl r : Nat) (h : apduLe a cll cl = .ok r) :
    (a = [] ∧ r = 0 ∧ ¬(cll = 3 ∧ cl < 256)) ∨
    (∃ b, a = [b] ∧ cll ≠ 3 ∧ r = if b.toNat = 0 then 256 else b.toNat) ∨
    (∃ b0 b1, a = [b0, b1] ∧ ¬ cll ≤ 1 ∧ r = (if b0.toNat * 256 + b1.toNat = 0 then 65536 else b0.toNat * 256 + b1.toNat) ∧
        ¬(cl < 256 ∧ r ≤ 256)) ∨
    (∃ b1 b2, a = [0, b1, b2] ∧ cll = 0 ∧ r = (if b1.toNat * 256 + b2.toNat = 0 then 65536 else b1.toNat * 256 + b2.toNat) ∧
        r > 256) := by
  unfold apduLe at h
  match a, h with
  | [], h =>
    simp only [List.length_nil, if_true] at h
    split at h
    · cases h
    · rename_i hc; cases h; exact Or.inl ⟨rfl, rfl, hc⟩
  | [b], h =>
    simp [rd] at h
    split at h
    · cases h
    · rename_i hc; cases h
      exact Or.inr (Or.inl ⟨b, rfl, hc, rfl⟩)
  | [b0, b1], h =>
    by_cases hz : b0.toNat * 256 + b1.toNat = 0
    · simp [rd, hz] at h
      have h0 : b0.toNat = 0 ∧ b1.toNat = 0 := by omega
      (try simp [h0.1, h0.2] at h)
      split at h
      · cases h
      · rename_i hc; cases h
        exact Or.inr (Or.inr (Or.inl ⟨b0, b1, rfl, by omega, by rw [if_pos hz], by omega⟩))
    · simp [rd] at h
      have hz' : ¬ (b0.toNat * 256 = 0 ∧ b1.toNat = 0) := by omega
      simp only [hz', if_false] at h
      split at h
      · cases h
      · rename_i hc; cases h
        exact Or.inr (Or.inr (Or.inl ⟨b0, b1, rfl, by omega, by rw [if_neg hz], by omega⟩))
  | [b0, b1, b2], h =>
    by_cases hz : b1.toNat * 256 + b2.toNat = 0
    · simp [rd] at h
      have h0 : b1.toNat = 0 ∧ b2.toNat = 0 := by omega
      (try simp [h0.1, h0.2] at h)
      split at h
      · cases h
      · rename_i hc; cases h
        simp at hc
        exact Or.inr (Or.inr (Or.inr ⟨b1, b2, by rw [toNat_zero_eq b0 hc.1], hc.2, by rw [if_pos hz], by omega⟩))
    · simp [rd] at h
      have hz' : ¬ (b1.toNat * 256 = 0 ∧ b2.toNat = 0) := by omega
      simp only [hz', if_false] at h
      split at h
      · cases h
      · rename_i hc; cases h
        simp at hc
        exact Or.inr (Or.inr (Or.inr ⟨b1, b2, by rw [toNat_zero_eq b0 hc.1], hc.2.1, by rw [if_neg hz], by omega⟩))
  | _ :: _ :: _ :: _ :: _, h => simp at h

theorem apduLe_no_oob (a : List UInt8) (cll cl : Nat) : apduLe a cll cl ≠ .oob := by
  unfold apduLe
  match a with
  | [] => simp; split <;> simp
  | [b] => simp [rd]; split <;> simp
  | [b0, b1] => simp [rd]; split <;> (try split) <;> simp
  | [b0, b1, b2] => simp [rd]; split <;> (try split) <;> simp
  | _ :: _ :: _ :: _ :: _ => simp

theorem apduCmdDec_cases (apdu : List UInt8) : apduCmdDec apdu = .err ∨ ∃ cmd, apduCmdDec apdu = .ok cmd := by
  unfold apduCmdDec
  by_cases h4 : apdu.length < 4
  · rw [if_pos h4]; exact Or.inl rfl
  · rw [if_neg h4, rd_of_lt (xs := apdu) (i := 0) (by omega), rd_of_lt (xs := apdu) (i := 1) (by omega),
      rd_of_lt (xs := apdu) (i := 2) (by omega), rd_of_lt (xs := apdu) (i := 3) (by omega)]
    simp only []
    cases hlc : apduLc (apdu.drop 4) with
    | ok p =>
      obtain ⟨cll, cl⟩ := p
      simp only []
      by_cases hgt : cl > ((apdu.drop 4).drop cll).length
      · rw [if_pos hgt]; exact Or.inl rfl
      · rw [if_neg hgt, rdSlice_ok (by omega)]; simp only []
        cases hle : apduLe ((List.drop cll (List.drop 4 apdu)).drop cl) cll cl with
        | ok r => exact Or.inr ⟨_, rfl⟩
        | err => exact Or.inl rfl
        | oob => exact absurd hle (apduLe_no_oob _ _ _)
    | err => exact Or.inl rfl
    | oob => exact absurd hlc (apduLc_no_oob _)

/-- the parts of an accepted command -/
theorem apduCmdDec_parts (apdu : List UInt8) (cmd : Cmd) (h : apduCmdDec apdu = .ok cmd) :
    ∃ c i p1 p2 body cll cl, apdu = c :: i :: p1 :: p2 :: body ∧ cmd.cla = c ∧ cmd.ins = i ∧ cmd.p1 = p1 ∧ cmd.p2 = p2 ∧
      apduLc body = .ok (cll, cl) ∧ cl ≤ (body.drop cll).length ∧ cmd.cdf = (body.drop cll).take cl ∧
      apduLe ((body.drop cll).drop cl) cll cl = .ok cmd.rdf_len := by
  match apdu, h with
  | [], h => simp [apduCmdDec] at h
  | [_], h => simp [apduCmdDec] at h
  | [_, _], h => simp [apduCmdDec] at h
  | [_, _, _], h => simp [apduCmdDec] at h
  | c :: i :: p1 :: p2 :: body, h =>
    unfold apduCmdDec at h
    rw [if_neg (by simp)] at h
    simp only [rd, List.getElem?_cons_zero, List.getElem?_cons_succ, List.drop_succ_cons, List.drop_zero] at h
    cases hlc : apduLc body with
    | ok p =>
      obtain ⟨cll, cl⟩ := p
      rw [hlc] at h; simp only [] at h
      by_cases hgt : cl > (body.drop cll).length
      · rw [if_pos hgt] at h; cases h
      · rw [if_neg hgt, rdSlice_ok (by omega)] at h; simp only [] at h
        cases hle : apduLe ((List.drop cll body).drop cl) cll cl with
        | ok r =>
          rw [hle] at h; simp only [] at h
          cases h
          exact ⟨c, i, p1, p2, body, cll, cl, rfl, oct_toNat c, oct_toNat i, oct_toNat p1, oct_toNat p2, hlc, by omega,
            by simp, hle⟩
        | err => rw [hle] at h; cases h
        | oob => rw [hle] at h; cases h
    | err => rw [hlc] at h; cases h
    | oob => rw [hlc] at h; cases h


theorem oct_eq_of_toNat (b : UInt8) (n : Nat) (h : n % 256 = b.toNat) : oct n = b := by
  unfold oct; rw [h]; exact UInt8.ofNat_toNat

set_option maxRecDepth 8000 in
/-- CANONICAL (command APDU): the accepted octets are exactly apduCmdEnc of the decoded command -/
theorem apduCmdDec_canonical' (apdu : List UInt8) (cmd : Cmd) (h : apduCmdDec apdu = .ok cmd) :
    apduCmdEnc cmd = apdu := by
  obtain ⟨c, i, p1, p2, body, cll, cl, hap, hc, hi, hp1, hp2, hlc, hcl, hcdf, hle⟩ := apduCmdDec_parts apdu cmd h
  obtain ⟨cla, ins, q1, q2, cdf, rdf⟩ := cmd
  simp only at hc hi hp1 hp2 hcdf hle
  subst hc hi hp1 hp2 hap
  unfold apduCmdEnc
  simp only [List.cons_append, List.nil_append, List.cons.injEq, true_and]
  have hcdfl : cdf.length = cl := by rw [hcdf, List.length_take]; omega
  rcases apduLc_spec body cll cl hlc with ⟨h0, hcl0, hshape⟩ | ⟨h1, x, t, hb, hx, hclx, htne⟩ | ⟨h3, y, z, w, t, hb, hclv, hclnz⟩
  · -- no Lc
    subst h0; subst hcl0
    simp only [List.drop_zero, List.take_zero] at hcdf hle
    subst hcdf
    simp only [List.length_nil, if_true, List.nil_append]
    rcases apduLe_spec body 0 0 rdf hle with ⟨hb, hr, _⟩ | ⟨b, hb, _, hr⟩ | ⟨b0, b1, _, hc, _⟩ | ⟨b1, b2, hb, _, hr, hgt⟩
    · subst hb; subst hr; simp
    · subst hb; subst hr
      have hb := UInt8.toNat_lt b
      by_cases hz : b.toNat = 0
      · simp [hz]; exact (oct_eq_of_toNat b 256 (by omega))
      · simp [hz]; rw [if_pos (by omega)]; simp; exact oct_toNat b
    · omega
    · subst hb
      have h1 := UInt8.toNat_lt b1
      have h2 := UInt8.toNat_lt b2
      rw [if_neg (by omega), if_neg (by omega), if_neg (by simp)]
      simp only [List.cons.injEq, true_and, and_true]
      subst hr
      by_cases hz : b1.toNat * 256 + b2.toNat = 0
      · rw [if_pos hz]
        exact ⟨oct_eq_of_toNat b1 _ (by omega), oct_eq_of_toNat b2 _ (by omega)⟩
      · rw [if_neg hz]
        exact ⟨oct_eq_of_toNat b1 _ (by omega), oct_eq_of_toNat b2 _ (by omega)⟩
  · -- short Lc
    subst h1; subst hb
    simp only [List.drop_succ_cons, List.drop_zero] at hcdf hle hcl
    have hxl := UInt8.toNat_lt x
    rw [hcdfl, if_neg (by omega)]
    rcases apduLe_spec _ 1 cl rdf hle with ⟨hb, hr, _⟩ | ⟨b, hb, _, hr⟩ | ⟨b0, b1, _, hc, _⟩ | ⟨b1, b2, _, hc, _⟩
    · subst hr
      rw [if_pos (by omega)]
      simp only [if_true, List.append_nil, List.cons.injEq]
      refine ⟨by rw [hclx]; exact oct_toNat x, ?_⟩
      rw [hcdf]
      have := List.take_append_drop cl t
      rw [hb, List.append_nil] at this; exact this
    · have hbl := UInt8.toNat_lt b
      have hr256 : rdf ≤ 256 ∧ rdf ≠ 0 := by subst hr; split <;> omega
      rw [if_pos (by omega), if_neg hr256.2, if_pos (by omega)]
      simp only [List.cons_append, List.cons.injEq]
      refine ⟨by rw [hclx]; exact oct_toNat x, ?_⟩
      have := List.take_append_drop cl t
      rw [hb] at this
      rw [hcdf]
      conv => rhs; rw [← this]
      congr 2
      subst hr
      by_cases hz : b.toNat = 0
      · rw [if_pos hz]; exact oct_eq_of_toNat b 256 (by omega)
      · rw [if_neg hz]; exact oct_toNat b
    · omega
    · omega
  · -- extended Lc
    subst h3; subst hb
    simp only [List.drop_succ_cons, List.drop_zero] at hcdf hle hcl
    have hy := UInt8.toNat_lt y
    have hz := UInt8.toNat_lt z
    rw [hcdfl, if_neg hclnz]
    rcases apduLe_spec _ 3 cl rdf hle with ⟨hb, hr, hnot⟩ | ⟨b, _, hc, _⟩ | ⟨b0, b1, hb, _, hr, hnot⟩ | ⟨b1, b2, _, hc, _⟩
    · subst hr
      have hge : ¬ cl < 256 := fun h => hnot ⟨rfl, h⟩
      rw [if_neg (by omega)]
      simp only [if_true, List.append_nil, List.cons_append, List.nil_append, List.cons.injEq, true_and]
      refine ⟨oct_eq_of_toNat y _ (by omega), oct_eq_of_toNat z _ (by omega), ?_⟩
      rw [hcdf]
      have := List.take_append_drop cl (w :: t)
      rw [hb, List.append_nil] at this; exact this
    · omega
    · have hb0 := UInt8.toNat_lt b0
      have hb1 := UInt8.toNat_lt b1
      have hrnz : rdf ≠ 0 := by subst hr; split <;> omega
      rw [if_neg (by omega), if_neg hrnz, if_neg (by omega), if_pos hclnz]
      simp only [List.cons_append, List.nil_append, List.cons.injEq, true_and]
      refine ⟨oct_eq_of_toNat y _ (by omega), oct_eq_of_toNat z _ (by omega), ?_⟩
      have := List.take_append_drop cl (w :: t)
      rw [hb] at this
      rw [hcdf]
      conv => rhs; rw [← this]
      congr 1
      simp only [List.cons.injEq, and_true]
      subst hr
      by_cases hzz : b0.toNat * 256 + b1.toNat = 0
      · rw [if_pos hzz]; exact ⟨oct_eq_of_toNat b0 _ (by omega), oct_eq_of_toNat b1 _ (by omega)⟩
      · rw [if_neg hzz]; exact ⟨oct_eq_of_toNat b0 _ (by omega), oct_eq_of_toNat b1 _ (by omega)⟩
    · omega


theorem apduLc_short (x : UInt8) (t : List UInt8) (hx : x.toNat ≠ 0) (ht : t ≠ []) :
    apduLc (x :: t) = .ok (1, x.toNat) := by
  unfold apduLc
  match t, ht with
  | [y], _ => simp [rd, hx]
  | [y, z], _ => simp [rd, hx]
  | y :: z :: w :: t', _ => simp [rd, hx]

theorem apduLc_ext (y z w : UInt8) (t : List UInt8) (h : y.toNat * 256 + z.toNat ≠ 0) :
    apduLc (0 :: y :: z :: w :: t) = .ok (3, y.toNat * 256 + z.toNat) := by
  unfold apduLc
  simp [rd]
  rw [if_neg (by omega), if_neg (by omega)]

theorem apduLe_nil (cll cl : Nat) (h : ¬(cll = 3 ∧ cl < 256)) : apduLe [] cll cl = .ok 0 := by
  unfold apduLe; simp only [List.length_nil, if_true]; rw [if_neg h]

theorem apduLe_one (b : UInt8) (cll cl : Nat) (h : cll ≠ 3) :
    apduLe [b] cll cl = .ok (if b.toNat = 0 then 256 else b.toNat) := by
  unfold apduLe; simp [rd, h]

theorem apduLe_two (b0 b1 : UInt8) (cll cl r : Nat) (hr : r = if b0.toNat * 256 + b1.toNat = 0 then 65536 else b0.toNat * 256 + b1.toNat)
    (h : ¬(cll ≤ 1 ∨ (cl < 256 ∧ r ≤ 256))) : apduLe [b0, b1] cll cl = .ok r := by
  unfold apduLe
  simp only [List.length_cons, List.length_nil, rd, List.getElem?_cons_zero, List.getElem?_cons_succ]
  simp only [show (0 + 1 + 1 = 0) = False by simp, show (0 + 1 + 1 = 1) = False by simp, if_false, if_true, ← hr]
  rw [if_neg h]

theorem apduLe_three (b1 b2 : UInt8) (cl r : Nat) (hr : r = if b1.toNat * 256 + b2.toNat = 0 then 65536 else b1.toNat * 256 + b2.toNat)
    (h : r > 256) : apduLe [0, b1, b2] 0 cl = .ok r := by
  unfold apduLe
  simp only [List.length_cons, List.length_nil, rd, List.getElem?_cons_zero, List.getElem?_cons_succ]
  simp only [show (0 + 1 + 1 + 1 = 0) = False by simp, show (0 + 1 + 1 + 1 = 1) = False by simp,
    show (0 + 1 + 1 + 1 = 2) = False by simp, if_false, if_true, ← hr]
  rw [if_neg (by simp; omega)]


theorem apduCmdDec_cons (c i p1 p2 : UInt8) (body : List UInt8) (cll cl r : Nat)
    (hlc : apduLc body = .ok (cll, cl)) (hcl : cl ≤ (body.drop cll).length)
    (hle : apduLe ((body.drop cll).drop cl) cll cl = .ok r) :
    apduCmdDec (c :: i :: p1 :: p2 :: body) = .ok ⟨c, i, p1, p2, (body.drop cll).take cl, r⟩ := by
  unfold apduCmdDec
  rw [if_neg (by simp)]
  simp only [rd, List.getElem?_cons_zero, List.getElem?_cons_succ, List.drop_succ_cons, List.drop_zero]
  rw [hlc]; simp only []
  rw [if_neg (by omega), rdSlice_ok (by omega)]; simp only []
  rw [hle]; simp only [List.drop_zero, oct_toNat]

set_option maxRecDepth 8000 in
/-- ROUND TRIP (command APDU) -/
theorem apduCmd_roundtrip' (cmd : Cmd) (hv : apduCmdIsValid cmd = true) : apduCmdDec (apduCmdEnc cmd) = .ok cmd := by
  obtain ⟨c, i, p1, p2, cdf, rdf⟩ := cmd
  unfold apduCmdIsValid at hv
  simp only [decide_eq_true_eq] at hv
  obtain ⟨hn, hr⟩ := hv
  unfold apduCmdEnc
  simp only [List.cons_append, List.nil_append]
  by_cases h0 : cdf.length = 0
  · -- no data
    have hcdf : cdf = [] := List.eq_nil_of_length_eq_zero h0
    subst hcdf
    simp only [List.length_nil, if_true, List.nil_append]
    by_cases hr0 : rdf = 0
    · subst hr0
      simp only [if_true]
      have := apduCmdDec_cons c i p1 p2 [] 0 0 0 (by unfold apduLc; simp) (by simp) (apduLe_nil 0 0 (by omega))
      simpa using this
    · rw [if_neg hr0]
      by_cases hs : rdf ≤ 256
      · rw [if_pos ⟨hs, by omega⟩]
        have hle := apduLe_one (oct rdf) 0 0 (by omega)
        have hval : (if (oct rdf).toNat = 0 then 256 else (oct rdf).toNat) = rdf := by
          rw [toNat_oct]; split <;> omega
        rw [hval] at hle
        have := apduCmdDec_cons c i p1 p2 [oct rdf] 0 0 rdf (by unfold apduLc; simp) (by simp) (by simpa using hle)
        simpa using this
      · rw [if_neg (by omega), if_neg (by simp)]
        have hle := apduLe_three (oct (rdf / 256)) (oct rdf) 0 rdf (by
          rw [toNat_oct, toNat_oct]; split <;> omega) (by omega)
        have hlc : apduLc [0, oct (rdf / 256), oct rdf] = .ok (0, 0) := by unfold apduLc; simp [rd]
        have := apduCmdDec_cons c i p1 p2 [0, oct (rdf / 256), oct rdf] 0 0 rdf hlc (by simp) (by simpa using hle)
        simpa using this
  · rw [if_neg h0]
    have hne : cdf ≠ [] := fun h => h0 (by rw [h]; rfl)
    by_cases hsh : cdf.length < 256 ∧ rdf ≤ 256
    · -- short form
      rw [if_pos hsh]
      have hx : (oct cdf.length).toNat = cdf.length := by rw [toNat_oct]; omega
      by_cases hr0 : rdf = 0
      · subst hr0
        simp only [if_true, List.append_nil]
        have hlc := apduLc_short (oct cdf.length) cdf (by omega) hne
        rw [hx] at hlc
        have := apduCmdDec_cons c i p1 p2 (oct cdf.length :: cdf) 1 cdf.length 0 hlc (by simp)
          (by simp; exact apduLe_nil 1 _ (by omega))
        simpa using this
      · rw [if_neg hr0, if_pos ⟨hsh.2, hsh.1⟩]
        have hlc := apduLc_short (oct cdf.length) (cdf ++ [oct rdf]) (by omega) (by simp)
        rw [hx] at hlc
        have hle := apduLe_one (oct rdf) 1 cdf.length (by omega)
        have hval : (if (oct rdf).toNat = 0 then 256 else (oct rdf).toNat) = rdf := by
          rw [toNat_oct]; split <;> omega
        rw [hval] at hle
        have := apduCmdDec_cons c i p1 p2 (oct cdf.length :: (cdf ++ [oct rdf])) 1 cdf.length rdf hlc (by simp)
          (by simpa using hle)
        simpa using this
    · -- extended form
      rw [if_neg hsh]
      obtain ⟨w, t, hwt⟩ : ∃ w t, cdf = w :: t := by
        cases cdf with
        | nil => exact absurd rfl hne
        | cons w t => exact ⟨w, t, rfl⟩
      have hy : (oct (cdf.length / 256)).toNat = cdf.length / 256 := by rw [toNat_oct]; omega
      have hz : (oct cdf.length).toNat = cdf.length % 256 := toNat_oct _
      have hclv : (oct (cdf.length / 256)).toNat * 256 + (oct cdf.length).toNat = cdf.length := by rw [hy, hz]; omega
      by_cases hr0 : rdf = 0
      · subst hr0
        simp only [if_true, List.append_nil, List.cons_append, List.nil_append]
        have hlc := apduLc_ext (oct (cdf.length / 256)) (oct cdf.length) w t (by rw [hclv]; omega)
        rw [hclv, ← hwt] at hlc
        have := apduCmdDec_cons c i p1 p2 (0 :: oct (cdf.length / 256) :: oct cdf.length :: cdf) 3 cdf.length 0 hlc (by simp)
          (by simp; exact apduLe_nil 3 _ (by omega))
        simpa using this
      · rw [if_neg hr0, if_neg (by omega), if_pos h0]
        simp only [List.cons_append, List.nil_append]
        have hlc := apduLc_ext (oct (cdf.length / 256)) (oct cdf.length) w (t ++ [oct (rdf / 256), oct rdf]) (by rw [hclv]; omega)
        rw [hclv] at hlc
        have hle := apduLe_two (oct (rdf / 256)) (oct rdf) 3 cdf.length rdf (by
          rw [toNat_oct, toNat_oct]; split <;> omega) (by omega)
        have := apduCmdDec_cons c i p1 p2 (0 :: oct (cdf.length / 256) :: oct cdf.length :: (cdf ++ [oct (rdf / 256), oct rdf]))
          3 cdf.length rdf (by rw [hwt] at hlc ⊢; simpa using hlc) (by simp) (by simpa using hle)
        simpa using this


end Bee2V.C08

/-
C08 — containers (bpki.c): decode ∘ encode = id for PrivateKeyInfo, share and EncryptedPrivateKeyInfo, by
composing the acceptance lemmas of the primitive steps through the nested SEQUENCEs (Nested.lean).
-/
import Bee2V.C08.Nested
import Bee2V.C08.LemmasSid
namespace Bee2V.C08

/-! ### leaves -/

theorem acc_bound {der : List UInt8} {p : Nat} {C rest : List UInt8} (hd : der.drop p = C ++ rest) (hl : der.length + 64 < W) :
    64 + C.length + rest.length < W := by
  have : (der.drop p).length ≤ der.length := by simp [List.length_drop]
  rw [hd] at this; simp at this; omega

theorem Acc.prim (f : List UInt8 → R Nat) (C : List UInt8)
    (hf : ∀ rest, 64 + C.length + rest.length < W → f (C ++ rest) = .ok C.length) :
    Acc [dPrim f] C (fun _ => True) (fun _ st => st) [] := by
  constructor
  · intro der p rest st more hd hl _
    simp only [List.cons_append, List.nil_append, runDec, dPrim]
    rw [hd, hf rest (acc_bound hd hl)]
  · intro _ _ _ _; rfl

theorem Acc.out (f : List UInt8 → R (List UInt8 × Nat)) (C v : List UInt8)
    (hf : ∀ rest, 64 + C.length + rest.length < W → f (C ++ rest) = .ok (v, C.length)) :
    Acc [dOut f] C (fun _ => True) (fun _ st => { st with outs := st.outs ++ [v] }) [] := by
  constructor
  · intro der p rest st more hd hl _
    simp only [List.cons_append, List.nil_append, runDec, dOut]
    rw [hd, hf rest (acc_bound hd hl)]
  · intro _ _ _ _; rfl

theorem Acc.num (f : List UInt8 → R (Nat × Nat)) (C : List UInt8) (v : Nat)
    (hf : ∀ rest, 64 + C.length + rest.length < W → f (C ++ rest) = .ok (v, C.length)) :
    Acc [dNum f] C (fun _ => True) (fun _ st => { st with nums := v :: st.nums }) [] := by
  constructor
  · intro der p rest st more hd hl _
    simp only [List.cons_append, List.nil_append, runDec, dNum]
    rw [hd, hf rest (acc_bound hd hl)]
  · intro _ _ _ _; rfl

/-- codes of the primitives -/
def sizeCode (tag v : Nat) : List UInt8 := beBytes (tCount tag) tag ++ derLEnc (sizeLen v) ++ beBytes (sizeLen v) v
def tlvCode (tag : Nat) (v : List UInt8) : List UInt8 := beBytes (tCount tag) tag ++ derLEnc v.length ++ v

theorem derTSIZEEnc_eq (tag v : Nat) (hv : derTIsValid tag = true) : derTSIZEEnc tag v = .ok (sizeCode tag v) := by
  unfold derTSIZEEnc sizeCode; rw [derTEnc_ok tag hv]

theorem sizeDec2_code (v : Nat) (hv : v < W) (rest : List UInt8) : sizeDec2 v (sizeCode 2 v ++ rest) = .ok (sizeCode 2 v).length := by
  obtain ⟨e, he, hd⟩ := derTSIZE_roundtrip' 2 v (by decide) (by decide) hv rest
  rw [derTSIZEEnc_eq 2 v (by decide)] at he; cases he
  unfold sizeDec2 derTSIZEDec2
  rw [hd]; simp

theorem sizeDec_code (v : Nat) (hv : v < W) (rest : List UInt8) :
    derTSIZEDec (sizeCode 2 v ++ rest) 2 = .ok (v, (sizeCode 2 v).length) := by
  obtain ⟨e, he, hd⟩ := derTSIZE_roundtrip' 2 v (by decide) (by decide) hv rest
  rw [derTSIZEEnc_eq 2 v (by decide)] at he; cases he
  exact hd

theorem tlv_dec (tag : Nat) (v rest : List UInt8) (hv : derTIsValid tag = true) (hlt : tag < U32)
    (hl : 13 + v.length + rest.length < W) :
    derDec (tlvCode tag v ++ rest) = .ok (tag, (tlvCode tag v).length - v.length, v.length, (tlvCode tag v).length) ∧
      ((tlvCode tag v ++ rest).drop ((tlvCode tag v).length - v.length)).take v.length = v := by
  obtain ⟨e, he, hd, hs⟩ := derEnc_roundtrip' tag v hv hlt rest hl
  rw [derEnc_eq tag v hv] at he; cases he
  exact ⟨hd, hs⟩

theorem tlvCode_length (tag : Nat) (v : List UInt8) : v.length ≤ (tlvCode tag v).length := by
  unfold tlvCode; simp; omega

theorem octDec2_code (v rest : List UInt8) (hl : 13 + v.length + rest.length < W) :
    derTOCTDec2 (tlvCode 4 v ++ rest) 4 v.length = .ok (v, (tlvCode 4 v).length) := by
  obtain ⟨hd, hs⟩ := tlv_dec 4 v rest (by decide) (by decide) hl
  unfold derTOCTDec2 derDec3
  rw [hd]; simp only []
  rw [if_neg (by simp)]; simp only []
  rw [rdSlice_ok (by have := tlvCode_length 4 v; simp; omega), hs]

theorem octDec_code (v rest : List UInt8) (hl : 13 + v.length + rest.length < W) :
    derTOCTDec (tlvCode 4 v ++ rest) 4 = .ok (v, (tlvCode 4 v).length) := by
  obtain ⟨hd, hs⟩ := tlv_dec 4 v rest (by decide) (by decide) hl
  unfold derTOCTDec
  rw [derDec2_of_derDec _ _ _ _ _ hd]; simp only []
  rw [rdSlice_ok (by have := tlvCode_length 4 v; simp; omega), hs]

theorem dec4_code (tag : Nat) (v rest : List UInt8) (hv : derTIsValid tag = true) (hlt : tag < U32)
    (hl : 13 + v.length + rest.length < W) : derDec4 (tlvCode tag v ++ rest) tag v = .ok (tlvCode tag v).length := by
  obtain ⟨hd, hs⟩ := tlv_dec tag v rest hv hlt hl
  unfold derDec4
  rw [hd]; simp only []
  rw [if_neg (by simp)]
  rw [rdSlice_ok (by have := tlvCode_length tag v; simp; omega), hs]
  simp

theorem nullDec_code (rest : List UInt8) (hl : 13 + rest.length < W) : nullDec (tlvCode 5 [] ++ rest) = .ok (tlvCode 5 []).length := by
  unfold nullDec
  exact dec4_code 5 [] rest (by decide) (by decide) (by simpa using hl)

theorem oidDec2_code (oid e : List UInt8) (he : derOIDEnc oid = .ok e) (rest : List UInt8) (hl : 13 + e.length + rest.length < W) :
    oidDec2 oid (e ++ rest) = .ok e.length := by
  unfold oidDec2; exact derOIDDec2_roundtrip oid e rest he hl

/-- another string never matches the code of `oid` -/
theorem oidDec2_mismatch (oid oid' e : List UInt8) (he : derOIDEnc oid = .ok e) (hne : oid' ≠ oid)
    (hstr : ∀ b ∈ oid', b ≠ 0) (hstr0 : ∀ b ∈ oid, b ≠ 0) (rest : List UInt8) (hl : 13 + e.length + rest.length < W) :
    derOIDDec2 (e ++ rest) oid' = .err := by
  rcases derOIDDec2_cases (e ++ rest) oid' (by simp; omega) with h | ⟨c, h, _⟩
  · exact h
  · exfalso
    have h1 := derOIDDec2_eq_dec (e ++ rest) oid' (by simp; omega) hstr c h
    have h2 := derOIDDec2_eq_dec (e ++ rest) oid (by simp; omega)
      hstr0 e.length (derOIDDec2_roundtrip oid e rest he hl)
    rw [h1] at h2
    injection h2 with h2; injection h2 with h3 _
    exact hne h3


/-- code of an OID string (empty if the string is not valid) -/
def oidCode (oid : List UInt8) : List UInt8 :=
  match derOIDEnc oid with
  | .ok e => e
  | _ => []

theorem oidCode_ok (oid : List UInt8) (h : (derOIDEnc oid).isOk = true) : derOIDEnc oid = .ok (oidCode oid) := by
  unfold oidCode
  cases hd : derOIDEnc oid with
  | ok e => rfl
  | err => rw [hd] at h; cases h
  | oob => rw [hd] at h; cases h

theorem Acc.oid (oid : List UInt8) (h : (derOIDEnc oid).isOk = true) :
    Acc [dPrim (oidDec2 oid)] (oidCode oid) (fun _ => True) (fun _ st => st) [] :=
  Acc.prim _ _ (fun rest hl => oidDec2_code oid _ (oidCode_ok oid h) rest (by omega))

theorem Acc.octLen (v : List UInt8) :
    Acc [dOctLen] (tlvCode 4 v) (fun st => st.nums.head? = some v.length)
      (fun _ st => { st with outs := st.outs ++ [v] }) [] := by
  constructor
  · intro der p rest st more hd hl hp
    simp only [List.cons_append, List.nil_append, runDec, dOctLen]
    cases hn : st.nums with
    | nil => rw [hn] at hp; simp at hp
    | cons len tl =>
      rw [hn] at hp; simp at hp
      subst hp
      simp only []
      rw [hd, octDec2_code v rest (by have := acc_bound hd hl; have := tlvCode_length 4 v; omega)]
  · intro _ _ _ _; rfl

/-- the OID alternatives: the entries before the matching one fail, the matching one is taken -/
theorem dAlt_hit (pre : List (List UInt8 × Nat)) (oid : List UInt8) (len : Nat) (post : List (List UInt8 × Nat))
    (h : (derOIDEnc oid).isOk = true) (hstr0 : ∀ b ∈ oid, b ≠ 0)
    (hpre : ∀ x ∈ pre, x.1 ≠ oid ∧ ∀ b ∈ x.1, b ≠ 0) (st : DSt) (p : Nat) (rest : List UInt8)
    (hl : 13 + (oidCode oid).length + rest.length < W) :
    dAlt (pre ++ (oid, len) :: post) st p (oidCode oid ++ rest) = .ok ((oidCode oid).length, { st with nums := len :: st.nums }) := by
  induction pre with
  | nil =>
    simp only [List.nil_append, dAlt]
    rw [derOIDDec2_roundtrip oid _ rest (oidCode_ok oid h) hl]
  | cons x xs ih =>
    obtain ⟨o', l'⟩ := x
    simp only [List.cons_append, dAlt]
    have hx := hpre (o', l') (by simp)
    rw [oidDec2_mismatch oid o' _ (oidCode_ok oid h) hx.1 hx.2 hstr0 rest hl]
    exact ih (fun y hy => hpre y (by simp [hy]))

theorem Acc.alt (pre : List (List UInt8 × Nat)) (oid : List UInt8) (len : Nat) (post : List (List UInt8 × Nat))
    (h : (derOIDEnc oid).isOk = true) (hstr0 : ∀ b ∈ oid, b ≠ 0)
    (hpre : ∀ x ∈ pre, x.1 ≠ oid ∧ ∀ b ∈ x.1, b ≠ 0) :
    Acc [dAlt (pre ++ (oid, len) :: post)] (oidCode oid) (fun _ => True)
      (fun _ st => { st with nums := len :: st.nums }) [] := by
  constructor
  · intro der p rest st more hd hl _
    simp only [List.cons_append, List.nil_append, runDec]
    rw [hd, dAlt_hit pre oid len post h hstr0 hpre st p rest (by have := acc_bound hd hl; omega)]
  · intro _ _ _ _; rfl


/-! ### PrivateKeyInfo and share -/

theorem v48 : derTIsValid 48 = true := by decide +kernel
theorem c48 : derTIsConstructive 48 = true := by decide +kernel
theorem l48 : 48 < U32 := by decide

/-- PrivateKeyInfo / share: SEQ { SIZE(0), SEQ { OID(alg), OID(curve) }, OCT(key) } -/
def pkiTree (alg curve : List UInt8) (k : List UInt8) : Tree :=
  .seq 0 48 [.prim (sizeCode 2 0), .seq 1 48 [.prim (oidCode alg), .prim (oidCode curve)], .prim (tlvCode 4 k)]

theorem pkiTree_ok (alg curve k : List UInt8) : Tree.OkL [pkiTree alg curve k] := by
  simp only [pkiTree, Tree.OkL, Tree.Ok, Tree.slotsL, Tree.slots, and_true, true_and]
  refine ⟨v48, c48, l48, by simp, v48, c48, l48, by simp⟩

/-- the code of the tree, associated as the acceptance combinators build it -/
def pkiCode (alg curve k : List UInt8) : List UInt8 :=
  beBytes (tCount 48) 48 ++
    derLEnc (sizeCode 2 0 ++ (beBytes (tCount 48) 48 ++ derLEnc (oidCode alg ++ oidCode curve).length ++ (oidCode alg ++ oidCode curve) ++ tlvCode 4 k)).length ++
    (sizeCode 2 0 ++ (beBytes (tCount 48) 48 ++ derLEnc (oidCode alg ++ oidCode curve).length ++ (oidCode alg ++ oidCode curve) ++ tlvCode 4 k))

theorem pkiTree_code (alg curve k : List UInt8) : Tree.codeL [pkiTree alg curve k] = pkiCode alg curve k := by
  simp only [pkiTree, pkiCode, Tree.codeL, Tree.code, List.append_nil, List.append_assoc]

/-- the decoder steps of a PrivateKeyInfo-like container accept the code of the tree and output the key -/
theorem pki_acc (alg curve k : List UInt8) (pre post : List (List UInt8 × Nat))
    (halg : (derOIDEnc alg).isOk = true) (hcurve : (derOIDEnc curve).isOk = true) (hstr0 : ∀ b ∈ curve, b ≠ 0)
    (hpre : ∀ x ∈ pre, x.1 ≠ curve ∧ ∀ b ∈ x.1, b ≠ 0) :
    ∃ f u, Acc [dStart 0 48, dPrim (sizeDec2 0), dStart 1 48, dPrim (oidDec2 alg), dAlt (pre ++ (curve, k.length) :: post),
        dStop 1, dOctLen, dStop 0] (pkiCode alg curve k) (fun _ => True) f u ∧ ∀ p st, (f p st).outs = st.outs ++ [k] := by
  have a1 := Acc.append (Acc.oid alg halg) (Acc.alt pre curve k.length post hcurve hstr0 hpre) (fun _ _ _ => trivial)
  have s1 := Acc.seq 1 48 a1 v48 c48 l48 (by simp) (fun _ _ _ _ => trivial)
  have a2 := Acc.append s1 (Acc.octLen k) (fun p st _ => by simp)
  have a3 := Acc.append (Acc.prim (sizeDec2 0) (sizeCode 2 0) (fun rest _ => sizeDec2_code 0 (by decide) rest)) a2
    (fun _ _ _ => trivial)
  have s0 := Acc.seq 0 48 a3 v48 c48 l48 (by simp) (fun _ _ _ _ => trivial)
  exact ⟨_, _, s0, fun p st => rfl⟩


theorem tlvCode_le (tag : Nat) (v : List UInt8) (hlt : tag < U32) (hv : v.length < W) : (tlvCode tag v).length ≤ 13 + v.length := by
  unfold tlvCode
  have h4 := tCount_le4 tag hlt
  have h9 := derLEnc_le9 v.length hv
  simp [beBytes_length]; omega

theorem sizeCode20_len : (sizeCode 2 0).length = 3 := by decide +kernel

theorem pki_enc (alg curve k : List UInt8) (halg : (derOIDEnc alg).isOk = true) (hcurve : (derOIDEnc curve).isOk = true)
    (hs : (oidCode alg).length + (oidCode curve).length + k.length < 4294967296) :
    runEnc [.start 0 48, .bytes (derTSIZEEnc 2 0), .start 1 48, .bytes (derOIDEnc alg), .bytes (derOIDEnc curve), .stop 1,
      .bytes (derEnc 4 k), .stop 0] [] [] = .ok (pkiCode alg curve k) := by
  rw [derTSIZEEnc_eq 2 0 (by decide), oidCode_ok alg halg, oidCode_ok curve hcurve, derEnc_eq 4 k (by decide)]
  have hsteps : [EStep.start 0 48, .bytes (.ok (sizeCode 2 0)), .start 1 48, .bytes (.ok (oidCode alg)), .bytes (.ok (oidCode curve)), .stop 1,
      .bytes (.ok (beBytes (tCount 4) 4 ++ derLEnc k.length ++ k)), .stop 0] = Tree.stepsL [pkiTree alg curve k] := by
    simp [Tree.stepsL, Tree.steps, pkiTree, tlvCode]
  rw [hsteps, runEnc_tree [pkiTree alg curve k] (pkiTree_ok alg curve k) [] []
    (by
      have := tlvCode_le 4 k (by decide) (by omegaW)
      simp only [pkiTree, Tree.boundL, Tree.bound, List.length_nil, sizeCode20_len]
      omegaW),
    List.nil_append, pkiTree_code]


theorem pkiCode_len (alg curve k : List UInt8) (hs : (oidCode alg).length + (oidCode curve).length + k.length < 4294967296) :
    (pkiCode alg curve k).length ≤ 4294967296 + 64 := by
  rw [← pkiTree_code]
  have hb : Tree.boundL [pkiTree alg curve k] ≤ 4294967296 + 60 := by
    have := tlvCode_le 4 k (by decide) (by omegaW)
    simp only [pkiTree, Tree.boundL, Tree.bound, List.length_nil, sizeCode20_len]
    omega
  have := Tree.codeL_le [pkiTree alg curve k] (pkiTree_ok alg curve k) (by omegaW)
  omega

/-- generic round trip of a PrivateKeyInfo-like container -/
theorem pki_roundtrip_gen (alg curve k : List UInt8) (pre post : List (List UInt8 × Nat))
    (halg : (derOIDEnc alg).isOk = true) (hcurve : (derOIDEnc curve).isOk = true) (hstr0 : ∀ b ∈ curve, b ≠ 0)
    (hpre : ∀ x ∈ pre, x.1 ≠ curve ∧ ∀ b ∈ x.1, b ≠ 0)
    (hs : (oidCode alg).length + (oidCode curve).length + k.length < 4294967296) :
    ∃ st, runDec (pkiCode alg curve k) [dStart 0 48, dPrim (sizeDec2 0), dStart 1 48, dPrim (oidDec2 alg),
        dAlt (pre ++ (curve, k.length) :: post), dStop 1, dOctLen, dStop 0] {} 0 = .ok ((pkiCode alg curve k).length, st) ∧
      st.outs = [k] := by
  obtain ⟨f, u, hacc, hout⟩ := pki_acc alg curve k pre post halg hcurve hstr0 hpre
  have hl := pkiCode_len alg curve k hs
  have := hacc.run (pkiCode alg curve k) 0 [] {} [] (by simp) (by omegaW) trivial
  rw [List.append_nil] at this
  refine ⟨f 0 {}, ?_, by rw [hout]; rfl⟩
  rw [this]; simp [runDec]

theorem ok_pubkey : (derOIDEnc oid_bign_pubkey).isOk = true := by decide +kernel
theorem ok_c192 : (derOIDEnc oid_bign_curve192v1).isOk = true := by decide +kernel
theorem ok_c256 : (derOIDEnc oid_bign_curve256v1).isOk = true := by decide +kernel
theorem ok_c384 : (derOIDEnc oid_bign_curve384v1).isOk = true := by decide +kernel
theorem ok_c512 : (derOIDEnc oid_bign_curve512v1).isOk = true := by decide +kernel
theorem len_pubkey : (oidCode oid_bign_pubkey).length = 12 := by decide +kernel
theorem len_c192 : (oidCode oid_bign_curve192v1).length = 12 := by decide +kernel
theorem len_c256 : (oidCode oid_bign_curve256v1).length = 12 := by decide +kernel
theorem len_c384 : (oidCode oid_bign_curve384v1).length = 12 := by decide +kernel
theorem len_c512 : (oidCode oid_bign_curve512v1).length = 12 := by decide +kernel

/-- ROUND TRIP (PrivateKeyInfo): bpkiPrivkeyDec ∘ bpkiPrivkeyEnc = id for the four key lengths -/
theorem bpkiPrivkey_roundtrip (k pki : List UInt8) (hk : k.length = 24 ∨ k.length = 32 ∨ k.length = 48 ∨ k.length = 64)
    (he : bpkiPrivkeyEnc k = .ok pki) : ∃ st, bpkiPrivkeyDec pki = .ok (pki.length, st) ∧ st.outs = [k] := by
  unfold bpkiPrivkeyEnc at he
  unfold bpkiPrivkeyDec bpkiPrivkeyDecSteps
  rcases hk with h | h | h | h
  · rw [if_pos h, pki_enc _ _ k ok_pubkey ok_c192 (by rw [len_pubkey, len_c192]; omega)] at he
    cases he
    have := pki_roundtrip_gen oid_bign_pubkey oid_bign_curve192v1 k []
      [(oid_bign_curve256v1, 32), (oid_bign_curve384v1, 48), (oid_bign_curve512v1, 64)] ok_pubkey ok_c192 (by decide +kernel)
      (by simp) (by rw [len_pubkey, len_c192]; omega)
    rw [h] at this
    exact this
  · rw [if_neg (by omega), if_pos h, pki_enc _ _ k ok_pubkey ok_c256 (by rw [len_pubkey, len_c256]; omega)] at he
    cases he
    have := pki_roundtrip_gen oid_bign_pubkey oid_bign_curve256v1 k [(oid_bign_curve192v1, 24)]
      [(oid_bign_curve384v1, 48), (oid_bign_curve512v1, 64)] ok_pubkey ok_c256 (by decide +kernel)
      (by decide +kernel) (by rw [len_pubkey, len_c256]; omega)
    rw [h] at this
    exact this
  · rw [if_neg (by omega), if_neg (by omega), if_pos h, pki_enc _ _ k ok_pubkey ok_c384 (by rw [len_pubkey, len_c384]; omega)] at he
    cases he
    have := pki_roundtrip_gen oid_bign_pubkey oid_bign_curve384v1 k [(oid_bign_curve192v1, 24), (oid_bign_curve256v1, 32)]
      [(oid_bign_curve512v1, 64)] ok_pubkey ok_c384 (by decide +kernel)
      (by decide +kernel) (by rw [len_pubkey, len_c384]; omega)
    rw [h] at this
    exact this
  · rw [if_neg (by omega), if_neg (by omega), if_neg (by omega), pki_enc _ _ k ok_pubkey ok_c512 (by rw [len_pubkey, len_c512]; omega)] at he
    cases he
    have := pki_roundtrip_gen oid_bign_pubkey oid_bign_curve512v1 k
      [(oid_bign_curve192v1, 24), (oid_bign_curve256v1, 32), (oid_bign_curve384v1, 48)] [] ok_pubkey ok_c512 (by decide +kernel)
      (by decide +kernel) (by rw [len_pubkey, len_c512]; omega)
    rw [h] at this
    exact this


theorem ok_share : (derOIDEnc oid_bels_share).isOk = true := by decide +kernel
theorem ok_m128 : (derOIDEnc oid_bels_m0128v1).isOk = true := by decide +kernel
theorem ok_m192 : (derOIDEnc oid_bels_m0192v1).isOk = true := by decide +kernel
theorem ok_m256 : (derOIDEnc oid_bels_m0256v1).isOk = true := by decide +kernel
theorem len_share : (oidCode oid_bels_share).length = 11 := by decide +kernel
theorem len_m128 : (oidCode oid_bels_m0128v1).length = 12 := by decide +kernel
theorem len_m192 : (oidCode oid_bels_m0192v1).length = 12 := by decide +kernel
theorem len_m256 : (oidCode oid_bels_m0256v1).length = 12 := by decide +kernel

/-- ROUND TRIP (share container): bpkiShareDec ∘ bpkiShareEnc = id for the three share lengths -/
theorem bpkiShare_roundtrip (k pki : List UInt8) (hk : k.length = 17 ∨ k.length = 25 ∨ k.length = 33)
    (he : bpkiShareEnc k = .ok pki) : ∃ st, bpkiShareDec pki = .ok (pki.length, st) ∧ st.outs = [k] := by
  unfold bpkiShareEnc at he
  unfold bpkiShareDec bpkiShareDecSteps
  rcases hk with h | h | h
  · rw [if_pos h, pki_enc _ _ k ok_share ok_m128 (by rw [len_share, len_m128]; omega)] at he
    cases he
    have := pki_roundtrip_gen oid_bels_share oid_bels_m0128v1 k []
      [(oid_bels_m0192v1, 25), (oid_bels_m0256v1, 33)] ok_share ok_m128 (by decide +kernel)
      (by simp) (by rw [len_share, len_m128]; omega)
    rw [h] at this
    exact this
  · rw [if_neg (by omega), if_pos h, pki_enc _ _ k ok_share ok_m192 (by rw [len_share, len_m192]; omega)] at he
    cases he
    have := pki_roundtrip_gen oid_bels_share oid_bels_m0192v1 k [(oid_bels_m0128v1, 17)]
      [(oid_bels_m0256v1, 33)] ok_share ok_m192 (by decide +kernel)
      (by decide +kernel) (by rw [len_share, len_m192]; omega)
    rw [h] at this
    exact this
  · rw [if_neg (by omega), if_neg (by omega), pki_enc _ _ k ok_share ok_m256 (by rw [len_share, len_m256]; omega)] at he
    cases he
    have := pki_roundtrip_gen oid_bels_share oid_bels_m0256v1 k [(oid_bels_m0128v1, 17), (oid_bels_m0192v1, 25)]
      [] ok_share ok_m256 (by decide +kernel)
      (by decide +kernel) (by rw [len_share, len_m256]; omega)
    rw [h] at this
    exact this


/-! ### EncryptedPrivateKeyInfo -/

theorem Acc.cast {S : List DStep} {C C' : List UInt8} {pre : DSt → Prop} {f : Nat → DSt → DSt} {u : List Nat}
    (h : Acc S C pre f u) (hC : C = C') : Acc S C' pre f u := hC ▸ h

theorem ok_pbes2 : (derOIDEnc oid_id_pbes2).isOk = true := by decide +kernel
theorem ok_pbkdf2 : (derOIDEnc oid_id_pbkdf2).isOk = true := by decide +kernel
theorem ok_hmac : (derOIDEnc oid_hmac_hbelt).isOk = true := by decide +kernel
theorem ok_kwp : (derOIDEnc oid_belt_kwp256).isOk = true := by decide +kernel
theorem len_pbes2 : (oidCode oid_id_pbes2).length = 11 := by decide +kernel
theorem len_pbkdf2 : (oidCode oid_id_pbkdf2).length = 11 := by decide +kernel
theorem len_hmac : (oidCode oid_hmac_hbelt).length = 11 := by decide +kernel
theorem len_kwp : (oidCode oid_belt_kwp256).length = 11 := by decide +kernel

/-- EncryptedPrivateKeyInfo as a tree -/
def edataTree (edata salt : List UInt8) (iter : Nat) : Tree :=
  .seq 0 48 [
    .seq 1 48 [
      .prim (oidCode oid_id_pbes2),
      .seq 2 48 [
        .seq 3 48 [
          .prim (oidCode oid_id_pbkdf2),
          .seq 4 48 [
            .prim (tlvCode 4 salt),
            .prim (sizeCode 2 iter),
            .seq 5 48 [.prim (oidCode oid_hmac_hbelt), .prim (tlvCode 5 [])]]],
        .seq 6 48 [.prim (oidCode oid_belt_kwp256), .prim (tlvCode 5 [])]]],
    .prim (tlvCode 4 edata)]

theorem edataTree_ok (edata salt : List UInt8) (iter : Nat) : Tree.OkL [edataTree edata salt iter] := by
  simp [edataTree, Tree.OkL, Tree.Ok, Tree.slotsL, Tree.slots, v48, c48, l48]

set_option maxRecDepth 8000 in
/-- the decoder steps accept the code of the tree and output salt, iter, edata -/
theorem edata_acc (edata salt : List UInt8) (iter : Nat) (hsalt : salt.length = 8) (hiter : iter < W) :
    ∃ f u, Acc bpkiEdataDecSteps (Tree.codeL [edataTree edata salt iter]) (fun _ => True) f u ∧
      ∀ p st, (f p st).outs = st.outs ++ [salt, edata] ∧ (f p st).nums = iter :: st.nums := by
  have null := Acc.prim nullDec (tlvCode 5 []) (fun rest hl => nullDec_code rest (by omega))
  have prf := Acc.seq 5 48 (Acc.append (Acc.oid _ ok_hmac) null (fun _ _ _ => trivial)) v48 c48 l48 (by simp) (fun _ _ _ _ => trivial)
  have lsalt := Acc.out (fun r => derTOCTDec2 r 4 8) (tlvCode 4 salt) salt
    (fun rest hl => by have := octDec2_code salt rest (by have := tlvCode_length 4 salt; omega); rw [hsalt] at this; exact this)
  have liter := Acc.num (fun r => derTSIZEDec r 2) (sizeCode 2 iter) iter (fun rest _ => sizeDec_code iter hiter rest)
  have params := Acc.seq 4 48 (Acc.append lsalt (Acc.append liter prf (fun _ _ _ => trivial)) (fun _ _ _ => trivial))
    v48 c48 l48 (by simp) (fun _ _ _ _ => trivial)
  have pbkdf2 := Acc.seq 3 48 (Acc.append (Acc.oid _ ok_pbkdf2) params (fun _ _ _ => trivial)) v48 c48 l48 (by simp)
    (fun _ _ _ _ => trivial)
  have kwp := Acc.seq 6 48 (Acc.append (Acc.oid _ ok_kwp) null (fun _ _ _ => trivial)) v48 c48 l48 (by simp) (fun _ _ _ _ => trivial)
  have pbes2 := Acc.seq 2 48 (Acc.append pbkdf2 kwp (fun _ _ _ => trivial)) v48 c48 l48 (by simp) (fun _ _ _ _ => trivial)
  have encalg := Acc.seq 1 48 (Acc.append (Acc.oid _ ok_pbes2) pbes2 (fun _ _ _ => trivial)) v48 c48 l48 (by simp)
    (fun _ _ _ _ => trivial)
  have ledata := Acc.out (fun r => derTOCTDec r 4) (tlvCode 4 edata) edata
    (fun rest hl => octDec_code edata rest (by have := tlvCode_length 4 edata; omega))
  have epki := Acc.seq 0 48 (Acc.append encalg ledata (fun _ _ _ => trivial)) v48 c48 l48 (by simp) (fun _ _ _ _ => trivial)
  refine ⟨_, _, Acc.cast epki (by simp only [edataTree, Tree.codeL, Tree.code, List.append_nil, List.append_assoc]), ?_⟩
  intro p st
  exact ⟨by simp, rfl⟩


theorem sizeCode2_le (v : Nat) (hv : v < W) : (sizeCode 2 v).length ≤ 11 := by
  unfold sizeCode
  have h9 := sizeLen_le9 hv
  have hl := derLEnc_le9 (sizeLen v) (by omegaW)
  have h1 : tCount 2 = 1 := by decide +kernel
  have hle : (derLEnc (sizeLen v)).length = 1 := by rw [derLEnc_length, if_pos (by omega)]
  simp only [List.length_append, beBytes_length, h1, hle]
  omega

theorem null_len : (tlvCode 5 []).length = 2 := by decide +kernel

theorem edata_enc (edata salt : List UInt8) (iter : Nat) (hsalt : salt.length = 8) (hiter : iter < W)
    (he : edata.length < 4294967296) :
    bpkiEdataEnc edata salt iter = .ok (Tree.codeL [edataTree edata salt iter]) := by
  unfold bpkiEdataEnc
  rw [oidCode_ok _ ok_pbes2, oidCode_ok _ ok_pbkdf2, oidCode_ok _ ok_hmac, oidCode_ok _ ok_kwp,
    derEnc_eq 4 salt (by decide), derEnc_eq 4 edata (by decide), derEnc_eq 5 [] (by decide), derTSIZEEnc_eq 2 iter (by decide)]
  have hsteps : [EStep.start 0 0x30, .start 1 0x30, .bytes (.ok (oidCode oid_id_pbes2)), .start 2 0x30, .start 3 0x30,
      .bytes (.ok (oidCode oid_id_pbkdf2)), .start 4 0x30, .bytes (.ok (beBytes (tCount 4) 4 ++ derLEnc salt.length ++ salt)),
      .bytes (.ok (sizeCode 2 iter)), .start 5 0x30, .bytes (.ok (oidCode oid_hmac_hbelt)),
      .bytes (.ok (beBytes (tCount 5) 5 ++ derLEnc ([] : List UInt8).length ++ [])), .stop 5, .stop 4, .stop 3, .start 6 0x30,
      .bytes (.ok (oidCode oid_belt_kwp256)), .bytes (.ok (beBytes (tCount 5) 5 ++ derLEnc ([] : List UInt8).length ++ [])), .stop 6,
      .stop 2, .stop 1, .bytes (.ok (beBytes (tCount 4) 4 ++ derLEnc edata.length ++ edata)), .stop 0] =
      Tree.stepsL [edataTree edata salt iter] := by
    simp [Tree.stepsL, Tree.steps, edataTree, tlvCode]
  rw [hsteps, runEnc_tree [edataTree edata salt iter] (edataTree_ok edata salt iter) [] []
    (by
      have h1 := tlvCode_le 4 edata (by decide) (by omegaW)
      have h2 := tlvCode_le 4 salt (by decide) (by omegaW)
      have h3 := sizeCode2_le iter hiter
      simp only [edataTree, Tree.boundL, Tree.bound, List.length_nil, len_pbes2, len_pbkdf2, len_hmac, len_kwp, null_len]
      omegaW),
    List.nil_append]

/-- ROUND TRIP (EncryptedPrivateKeyInfo): bpkiEdataDec ∘ bpkiEdataEnc = id on (edata, salt, iter) -/
theorem bpkiEdata_roundtrip (edata salt e : List UInt8) (iter : Nat) (hsalt : salt.length = 8) (hiter : iter < W)
    (hed : edata.length < 4294967296) (he : bpkiEdataEnc edata salt iter = .ok e) :
    ∃ st, bpkiEdataDec e = .ok (e.length, st) ∧ st.outs = [salt, edata] ∧ st.nums = [iter] := by
  rw [edata_enc edata salt iter hsalt hiter hed] at he
  cases he
  obtain ⟨f, u, hacc, hout⟩ := edata_acc edata salt iter hsalt hiter
  have hlen : (Tree.codeL [edataTree edata salt iter]).length + 64 < W := by
    have h1 := tlvCode_le 4 edata (by decide) (by omegaW)
    have h2 := tlvCode_le 4 salt (by decide) (by omegaW)
    have h3 := sizeCode2_le iter hiter
    have hb : Tree.boundL [edataTree edata salt iter] ≤ 4294967296 + 400 := by
      simp only [edataTree, Tree.boundL, Tree.bound, List.length_nil, len_pbes2, len_pbkdf2, len_hmac, len_kwp, null_len]
      omega
    have := Tree.codeL_le [edataTree edata salt iter] (edataTree_ok edata salt iter) (by omegaW)
    omegaW
  have := hacc.run (Tree.codeL [edataTree edata salt iter]) 0 [] {} [] (by simp) hlen trivial
  rw [List.append_nil] at this
  unfold bpkiEdataDec
  refine ⟨f 0 {}, ?_, by rw [(hout 0 {}).1]; rfl, by rw [(hout 0 {}).2]⟩
  rw [this]; simp [runDec]


/-! ### length of the PrivateKeyInfo / share codes -/

theorem pkiCode_len_le (alg curve k : List UInt8) (hs : (oidCode alg).length + (oidCode curve).length + k.length < 4294967296) :
    (pkiCode alg curve k).length ≤ 42 + (oidCode alg).length + (oidCode curve).length + k.length := by
  rw [← pkiTree_code]
  have hb : Tree.boundL [pkiTree alg curve k] ≤ 42 + (oidCode alg).length + (oidCode curve).length + k.length := by
    have := tlvCode_le 4 k (by decide) (by omegaW)
    simp only [pkiTree, Tree.boundL, Tree.bound, List.length_nil, sizeCode20_len]
    omega
  have := Tree.codeL_le [pkiTree alg curve k] (pkiTree_ok alg curve k) (by omegaW)
  omega

/-- the PrivateKeyInfo code is at most 100 octets longer than the key -/
theorem bpkiPrivkeyEnc_len (k pki : List UInt8) (hk : k.length = 24 ∨ k.length = 32 ∨ k.length = 48 ∨ k.length = 64)
    (he : bpkiPrivkeyEnc k = .ok pki) : pki.length ≤ k.length + 100 := by
  unfold bpkiPrivkeyEnc at he
  rcases hk with h | h | h | h
  · rw [if_pos h, pki_enc _ _ k ok_pubkey ok_c192 (by rw [len_pubkey, len_c192]; omega)] at he
    cases he
    have := pkiCode_len_le oid_bign_pubkey oid_bign_curve192v1 k (by rw [len_pubkey, len_c192]; omega)
    rw [len_pubkey, len_c192] at this; omega
  · rw [if_neg (by omega), if_pos h, pki_enc _ _ k ok_pubkey ok_c256 (by rw [len_pubkey, len_c256]; omega)] at he
    cases he
    have := pkiCode_len_le oid_bign_pubkey oid_bign_curve256v1 k (by rw [len_pubkey, len_c256]; omega)
    rw [len_pubkey, len_c256] at this; omega
  · rw [if_neg (by omega), if_neg (by omega), if_pos h, pki_enc _ _ k ok_pubkey ok_c384 (by rw [len_pubkey, len_c384]; omega)] at he
    cases he
    have := pkiCode_len_le oid_bign_pubkey oid_bign_curve384v1 k (by rw [len_pubkey, len_c384]; omega)
    rw [len_pubkey, len_c384] at this; omega
  · rw [if_neg (by omega), if_neg (by omega), if_neg (by omega), pki_enc _ _ k ok_pubkey ok_c512 (by rw [len_pubkey, len_c512]; omega)] at he
    cases he
    have := pkiCode_len_le oid_bign_pubkey oid_bign_curve512v1 k (by rw [len_pubkey, len_c512]; omega)
    rw [len_pubkey, len_c512] at this; omega

/-- the share container code is at most 100 octets longer than the share -/
theorem bpkiShareEnc_len (k pki : List UInt8) (hk : k.length = 17 ∨ k.length = 25 ∨ k.length = 33)
    (he : bpkiShareEnc k = .ok pki) : pki.length ≤ k.length + 100 := by
  unfold bpkiShareEnc at he
  rcases hk with h | h | h
  · rw [if_pos h, pki_enc _ _ k ok_share ok_m128 (by rw [len_share, len_m128]; omega)] at he
    cases he
    have := pkiCode_len_le oid_bels_share oid_bels_m0128v1 k (by rw [len_share, len_m128]; omega)
    rw [len_share, len_m128] at this; omega
  · rw [if_neg (by omega), if_pos h, pki_enc _ _ k ok_share ok_m192 (by rw [len_share, len_m192]; omega)] at he
    cases he
    have := pkiCode_len_le oid_bels_share oid_bels_m0192v1 k (by rw [len_share, len_m192]; omega)
    rw [len_share, len_m192] at this; omega
  · rw [if_neg (by omega), if_neg (by omega), pki_enc _ _ k ok_share ok_m256 (by rw [len_share, len_m256]; omega)] at he
    cases he
    have := pkiCode_len_le oid_bels_share oid_bels_m0256v1 k (by rw [len_share, len_m256]; omega)
    rw [len_share, len_m256] at this; omega

end Bee2V.C08

/-
C08 — containers (bpki.c): decode ∘ encode = id for PrivateKeyInfo, share and EncryptedPrivateKeyInfo, by
composing the acceptance lemmas of the primitive steps through the nested SEQUENCEs (Nested.lean).
-/
import Bee2V.C08.Nested
import Bee2V.C08.LemmasSid
namespace Bee2V.C08

/-! ### leaves -/

theorem acc_bound {der : List UInt8} {p : Nat} {C rest : List UInt8} (hd : der.drop p = C ++ rest) (hl : der.length + 64 < W) :
    64 + C.length + rest.length < W := by
  have : (der.drop p).length ≤ der.length := by simp [List.length_drop]
  rw [hd] at this; simp at this; omega

theorem Acc.prim (f : List UInt8 → R Nat) (C : List UInt8)
    (hf : ∀ rest, 64 + C.length + rest.length < W → f (C ++ rest) = .ok C.length) :
    Acc [dPrim f] C (fun _ => True) (fun _ st => st) [] := by
  constructor
  · intro der p rest st more hd hl _
    simp only [List.cons_append, List.nil_append, runDec, dPrim]
    rw [hd, hf rest (acc_bound hd hl)]
  · intro _ _ _ _; rfl

theorem Acc.out (f : List UInt8 → R (List UInt8 × Nat)) (C v : List UInt8)
    (hf : ∀ rest, 64 + C.length + rest.length < W → f (C ++ rest) = .ok (v, C.length)) :
    Acc [dOut f] C (fun _ => True) (fun _ st => { st with outs := st.outs ++ [v] }) [] := by
  constructor
  · intro der p rest st more hd hl _
    simp only [List.cons_append, List.nil_append, runDec, dOut]
    rw [hd, hf rest (acc_bound hd hl)]
  · intro _ _ _ _; rfl

theorem Acc.num (f : List UInt8 → R (Nat × Nat)) (C : List UInt8) (v : Nat)
    (hf : ∀ rest, 64 + C.length + rest.length < W → f (C ++ rest) = .ok (v, C.length)) :
    Acc [dNum f] C (fun _ => True) (fun _ st => { st with nums := v :: st.nums }) [] := by
  constructor
  · intro der p rest st more hd hl _
    simp only [List.cons_append, List.nil_append, runDec, dNum]
    rw [hd, hf rest (acc_bound hd hl)]
  · intro _ _ _ _; rfl

/-- codes of the primitives -/
def sizeCode (tag v : Nat) : List UInt8 := beBytes (tCount tag) tag ++ derLEnc (sizeLen v) ++ beBytes (sizeLen v) v
def tlvCode (tag : Nat) (v : List UInt8) : List UInt8 := beBytes (tCount tag) tag ++ derLEnc v.length ++ v

theorem derTSIZEEnc_eq (tag v : Nat) (hv : derTIsValid tag = true) : derTSIZEEnc tag v = .ok (sizeCode tag v) := by
  unfold derTSIZEEnc sizeCode; rw [derTEnc_ok tag hv]

theorem sizeDec2_code (v : Nat) (hv : v < W) (rest : List UInt8) : sizeDec2 v (sizeCode 2 v ++ rest) = .ok (sizeCode 2 v).length := by
  obtain ⟨e, he, hd⟩ := derTSIZE_roundtrip' 2 v (by decide) (by decide) hv rest
  rw [derTSIZEEnc_eq 2 v (by decide)] at he; cases he
  unfold sizeDec2 derTSIZEDec2
  rw [hd]; simp

theorem sizeDec_code (v : Nat) (hv : v < W) (rest : List UInt8) :
    derTSIZEDec (sizeCode 2 v ++ rest) 2 = .ok (v, (sizeCode 2 v).length) := by
  obtain ⟨e, he, hd⟩ := derTSIZE_roundtrip' 2 v (by decide) (by decide) hv rest
  rw [derTSIZEEnc_eq 2 v (by decide)] at he; cases he
  exact hd

theorem tlv_dec (tag : Nat) (v rest : List UInt8) (hv : derTIsValid tag = true) (hlt : tag < U32)
    (hl : 13 + v.length + rest.length < W) :
    derDec (tlvCode tag v ++ rest) = .ok (tag, (tlvCode tag v).length - v.length, v.length, (tlvCode tag v).length) ∧
      ((tlvCode tag v ++ rest).drop ((tlvCode tag v).length - v.length)).take v.length = v := by
  obtain ⟨e, he, hd, hs⟩ := derEnc_roundtrip' tag v hv hlt rest hl
  rw [derEnc_eq tag v hv] at he; cases he
  exact ⟨hd, hs⟩

theorem tlvCode_length (tag : Nat) (v : List UInt8) : v.length ≤ (tlvCode tag v).length := by
  unfold tlvCode; simp; omega

theorem octDec2_code (v rest : List UInt8) (hl : 13 + v.length + rest.length < W) :
    derTOCTDec2 (tlvCode 4 v ++ rest) 4 v.length = .ok (v, (tlvCode 4 v).length) := by
  obtain ⟨hd, hs⟩ := tlv_dec 4 v rest (by decide) (by decide) hl
  unfold derTOCTDec2 derDec3
  rw [hd]; simp only []
  rw [if_neg (by simp)]; simp only []
  rw [rdSlice_ok (by have := tlvCode_length 4 v; simp; omega), hs]

theorem octDec_code (v rest : List UInt8) (hl : 13 + v.length + rest.length < W) :
    derTOCTDec (tlvCode 4 v ++ rest) 4 = .ok (v, (tlvCode 4 v).length) := by
  obtain ⟨hd, hs⟩ := tlv_dec 4 v rest (by decide) (by decide) hl
  unfold derTOCTDec
  rw [derDec2_of_derDec _ _ _ _ _ hd]; simp only []
  rw [rdSlice_ok (by have := tlvCode_length 4 v; simp; omega), hs]

theorem dec4_code (tag : Nat) (v rest : List UInt8) (hv : derTIsValid tag = true) (hlt : tag < U32)
    (hl : 13 + v.length + rest.length < W) : derDec4 (tlvCode tag v ++ rest) tag v = .ok (tlvCode tag v).length := by
  obtain ⟨hd, hs⟩ := tlv_dec tag v rest hv hlt hl
  unfold derDec4
  rw [hd]; simp only []
  rw [if_neg (by simp)]
  rw [rdSlice_ok (by have := tlvCode_length tag v; simp; omega), hs]
  simp

theorem nullDec_code (rest : List UInt8) (hl : 13 + rest.length < W) : nullDec (tlvCode 5 [] ++ rest) = .ok (tlvCode 5 []).length := by
  unfold nullDec
  exact dec4_code 5 [] rest (by decide) (by decide) (by simpa using hl)

theorem oidDec2_code (oid e : List UInt8) (he : derOIDEnc oid = .ok e) (rest : List UInt8) (hl : 13 + e.length + rest.length < W) :
    oidDec2 oid (e ++ rest) = .ok e.length := by
  unfold oidDec2; exact derOIDDec2_roundtrip oid e rest he hl

/-- another string never matches the code of `oid` -/
theorem oidDec2_mismatch (oid oid' e : List UInt8) (he : derOIDEnc oid = .ok e) (hne : oid' ≠ oid)
    (hstr : ∀ b ∈ oid', b ≠ 0) (hstr0 : ∀ b ∈ oid, b ≠ 0) (rest : List UInt8) (hl : 13 + e.length + rest.length < W) :
    derOIDDec2 (e ++ rest) oid' = .err := by
  rcases derOIDDec2_cases (e ++ rest) oid' (by simp; omega) with h | ⟨c, h, _⟩
  · exact h
  · exfalso
    have h1 := derOIDDec2_eq_dec (e ++ rest) oid' (by simp; omega) hstr c h
    have h2 := derOIDDec2_eq_dec (e ++ rest) oid (by simp; omega)
      hstr0 e.length (derOIDDec2_roundtrip oid e rest he hl)
    rw [h1] at h2
    injection h2 with h2; injection h2 with h3 _
    exact hne h3


/-- code of an OID string (empty if the string is not valid) -/
def oidCode (oid : List UInt8) : List UInt8 :=
  match derOIDEnc oid with
  | .ok e => e
  | _ => []

theorem oidCode_ok (oid : List UInt8) (h : (derOIDEnc oid).isOk = true) : derOIDEnc oid = .ok (oidCode oid) := by
  unfold oidCode
  cases hd : derOIDEnc oid with
  | ok e => rfl
  | err => rw [hd] at h; cases h
  | oob => rw [hd] at h; cases h

theorem Acc.oid (oid : List UInt8) (h : (derOIDEnc oid).isOk = true) :
    Acc [dPrim (oidDec2 oid)] (oidCode oid) (fun _ => True) (fun _ st => st) [] :=
  Acc.prim _ _ (fun rest hl => oidDec2_code oid _ (oidCode_ok oid h) rest (by omega))

theorem Acc.octLen (v : List UInt8) :
    Acc [dOctLen] (tlvCode 4 v) (fun st => st.nums.head? = some v.length)
      (fun _ st => { st with outs := st.outs ++ [v] }) [] := by
  constructor
  · intro der p rest st more hd hl hp
    simp only [List.cons_append, List.nil_append, runDec, dOctLen]
    cases hn : st.nums with
    | nil => rw [hn] at hp; simp at hp
    | cons len tl =>
      rw [hn] at hp; simp at hp
      subst hp
      simp only []
      rw [hd, octDec2_code v rest (by have := acc_bound hd hl; have := tlvCode_length 4 v; omega)]
  · intro _ _ _ _; rfl

/-- the OID alternatives: the entries before the matching one fail, the matching one is taken -/
theorem dAlt_hit (pre : List (List UInt8 × Nat)) (oid : List UInt8) (len : Nat) (post : List (List UInt8 × Nat))
    (h : (derOIDEnc oid).isOk = true) (hstr0 : ∀ b ∈ oid, b ≠ 0)
    (hpre : ∀ x ∈ pre, x.1 ≠ oid ∧ ∀ b ∈ x.1, b ≠ 0) (st : DSt) (p : Nat) (rest : List UInt8)
    (hl : 13 + (oidCode oid).length + rest.length < W) :
    dAlt (pre ++ (oid, len) :: post) st p (oidCode oid ++ rest) = .ok ((oidCode oid).length, { st with nums := len :: st.nums }) := by
  induction pre with
  | nil =>
    simp only [List.nil_append, dAlt]
    rw [derOIDDec2_roundtrip oid _ rest (oidCode_ok oid h) hl]
  | cons x xs ih =>
    obtain ⟨o', l'⟩ := x
    simp only [List.cons_append, dAlt]
    have hx := hpre (o', l') (by simp)
    rw [oidDec2_mismatch oid o' _ (oidCode_ok oid h) hx.1 hx.2 hstr0 rest hl]
    exact ih (fun y hy => hpre y (by simp [hy]))

theorem Acc.alt (pre : List (List UInt8 × Nat)) (oid : List UInt8) (len : Nat) (post : List (List UInt8 × Nat))
    (h : (derOIDEnc oid).isOk = true) (hstr0 : ∀ b ∈ oid, b ≠ 0)
    (hpre : ∀ x ∈ pre, x.1 ≠ oid ∧ ∀ b ∈ x.1, b ≠ 0) :
    Acc [dAlt (pre ++ (oid, len) :: post)] (oidCode oid) (fun _ => True)
      (fun _ st => { st with nums := len :: st.nums }) [] := by
  constructor
  · intro der p rest st more hd hl _
    simp only [List.cons_append, List.nil_append, runDec]
    rw [hd, dAlt_hit pre oid len post h hstr0 hpre st p rest (by have := acc_bound hd hl; omega)]
  · intro _ _ _ _; rfl


end Bee2V.C08

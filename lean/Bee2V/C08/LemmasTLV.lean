/-
C08 — composition: T, TL, TLV canonical form and round trips.
-/
import Bee2V.C08.LemmasT
namespace Bee2V.C08

theorem derTDec_canonical' (der : List UInt8) (tag k : Nat) (h : derTDec der = .ok (tag, k)) :
    derTEnc tag = .ok (der.take k) :=
  TForm_enc der tag k (derTDec_spec der tag k h)

theorem derTEnc_ok (tag : Nat) (hv : derTIsValid tag = true) : derTEnc tag = .ok (beBytes (tCount tag) tag) := by
  unfold derTEnc tCount
  rw [hv]; rfl

theorem derTEnc_valid (tag : Nat) (e : List UInt8) (h : derTEnc tag = .ok e) :
    derTIsValid tag = true ∧ e = beBytes (tCount tag) tag := by
  unfold derTEnc at h
  by_cases hv : derTIsValid tag = true
  · rw [hv] at h
    simp only [Bool.not_true, Bool.false_eq_true, if_false] at h
    cases h
    exact ⟨hv, rfl⟩
  · have : derTIsValid tag = false := by simpa using hv
    rw [this] at h
    simp at h

theorem derT_roundtrip' (tag : Nat) (hv : derTIsValid tag = true) (hlt : tag < U32) (rest : List UInt8) :
    derTDec (beBytes (tCount tag) tag ++ rest) = .ok (tag, tCount tag) :=
  derTDec_of_TForm _ _ _ (TForm_of_valid tag hv hlt rest)

theorem tCount_le4 (tag : Nat) (hlt : tag < U32) : 1 ≤ tCount tag ∧ tCount tag ≤ 4 := by
  unfold tCount
  by_cases h0 : tag = 0
  · subst h0; rw [octLen_zero]; simp
  · have h1 : 1 ≤ octLen tag := by rw [octLen_pos h0]; omega
    have h2 := pow_octLen_le h0
    have : 256 ^ (octLen tag - 1) < 256 ^ 4 := by
      have : (256 : Nat) ^ 4 = U32 := by decide
      omega
    have := (Nat.pow_lt_pow_iff_right (by decide : 1 < 256)).mp this
    rw [if_neg (by omega)]
    omega

/-! ### TL -/

theorem derTLDec_parts (der : List UInt8) (tag l c : Nat) (h : derTLDec der = .ok (tag, l, c)) :
    ∃ k k2, derTDec der = .ok (tag, k) ∧ derLDec (der.drop k) = .ok (l, k2) ∧ c = k + k2 ∧ c ≤ der.length := by
  unfold derTLDec at h
  rcases derTDec_cases der with e | ⟨t, k, e, hk1, hk4, hkl⟩
  · rw [e] at h; cases h
  · rw [e] at h; simp only [] at h
    rcases derLDec_cases (der.drop k) with e2 | ⟨l', k2, e2, h1, h9, hl, hs⟩
    · rw [e2] at h; cases h
    · rw [e2] at h; simp only [] at h
      rw [List.length_drop] at hl
      have hm : (k + k2) % W = k + k2 := Nat.mod_eq_of_lt (by omegaW)
      rw [hm, if_neg (by omega)] at h
      cases h
      exact ⟨k, k2, e, e2, rfl, by omega⟩

theorem derTLDec_canonical' (der : List UInt8) (tag l c : Nat) (h : derTLDec der = .ok (tag, l, c)) :
    derTLEnc tag l = .ok (der.take c) := by
  obtain ⟨k, k2, e1, e2, hc, _⟩ := derTLDec_parts der tag l c h
  unfold derTLEnc
  rw [derTDec_canonical' der tag k e1]; simp only []
  rw [derLDec_canonical' _ l k2 e2, hc, List.take_add]

theorem derTL_roundtrip' (tag l : Nat) (hv : derTIsValid tag = true) (hlt : tag < U32) (hl : l < SIZE_MAX)
    (rest : List UInt8) :
    ∃ e, derTLEnc tag l = .ok e ∧ derTLDec (e ++ rest) = .ok (tag, l, e.length) := by
  refine ⟨beBytes (tCount tag) tag ++ derLEnc l, ?_, ?_⟩
  · unfold derTLEnc; rw [derTEnc_ok tag hv]
  · unfold derTLDec
    rw [List.append_assoc, derT_roundtrip' tag hv hlt (derLEnc l ++ rest)]; simp only []
    have hd : List.drop (tCount tag) (beBytes (tCount tag) tag ++ (derLEnc l ++ rest)) = derLEnc l ++ rest := by
      rw [List.drop_append_of_le_length (by rw [beBytes_length]; exact Nat.le_refl _)]
      rw [List.drop_of_length_le (by rw [beBytes_length]; exact Nat.le_refl _)]; rfl
    rw [hd, derL_roundtrip' l hl rest]; simp only []
    have h4 := tCount_le4 tag hlt
    have hll : (derLEnc l).length ≤ 9 := by
      rw [derLEnc_length]; split
      · omega
      · have := octLen_le8 (l := l) (by omegaW); omega
    have hm : (tCount tag + (derLEnc l).length) % W = tCount tag + (derLEnc l).length := Nat.mod_eq_of_lt (by omegaW)
    rw [hm, if_neg (by simp [beBytes_length])]
    simp [beBytes_length]

/-! ### TLV -/

theorem derDec_parts (der : List UInt8) (hlen : der.length < W) (tag off len c : Nat)
    (h : derDec der = .ok (tag, off, len, c)) :
    derTLDec der = .ok (tag, len, off) ∧ c = off + len ∧ c ≤ der.length := by
  unfold derDec at h
  rcases derTLDec_cases der with e | ⟨t, l, c', e, h2, h13, hl, hs⟩
  · rw [e] at h; cases h
  · rw [e] at h; simp only [] at h
    have hm : (der.length + W - c') % W = der.length - c' := by
      have : der.length + W - c' = (der.length - c') + W := by omega
      rw [this, Nat.add_mod_right]; exact Nat.mod_eq_of_lt (by omega)
    rw [hm] at h
    by_cases hgt : l > der.length - c'
    · rw [if_pos hgt] at h; cases h
    · rw [if_neg hgt] at h
      have hm2 : (c' + l) % W = c' + l := Nat.mod_eq_of_lt (by omega)
      rw [hm2] at h
      cases h
      exact ⟨e, rfl, by omega⟩

/-- CANONICAL (TLV): the accepted octets are exactly derEnc of the decoded tag and value -/
theorem derDec_canonical' (der : List UInt8) (hlen : der.length < W) (tag off len c : Nat)
    (h : derDec der = .ok (tag, off, len, c)) :
    derEnc tag ((der.drop off).take len) = .ok (der.take c) := by
  obtain ⟨htl, hc, hcl⟩ := derDec_parts der hlen tag off len c h
  have hcan := derTLDec_canonical' der tag len off htl
  unfold derTLEnc at hcan
  unfold derEnc
  cases hT : derTEnc tag with
  | ok t =>
    rw [hT] at hcan; simp only [] at hcan ⊢
    have hvl : ((der.drop off).take len).length = len := by
      simp [List.length_take]; omega
    rw [hvl]
    injection hcan with hcan
    rw [hcan, hc, List.take_add]
  | err => rw [hT] at hcan; cases hcan
  | oob => rw [hT] at hcan; cases hcan

/-- ROUND TRIP (TLV): derDec (derEnc tag val ++ rest) gives back tag, the position and the length of val -/
theorem derEnc_roundtrip' (tag : Nat) (val : List UInt8) (hv : derTIsValid tag = true) (hlt : tag < U32)
    (rest : List UInt8) (hlen : 13 + val.length + rest.length < W) :
    ∃ e, derEnc tag val = .ok e ∧
      derDec (e ++ rest) = .ok (tag, e.length - val.length, val.length, e.length) ∧
      ((e ++ rest).drop (e.length - val.length)).take val.length = val := by
  obtain ⟨tl, htl, hdec⟩ := derTL_roundtrip' tag val.length hv hlt (by omegaW) (val ++ rest)
  unfold derTLEnc at htl
  rw [derTEnc_ok tag hv] at htl; simp only [] at htl
  injection htl with htl
  have h4 := tCount_le4 tag hlt
  have hll : (derLEnc val.length).length ≤ 9 := by
    rw [derLEnc_length]; split
    · omega
    · have := octLen_le8 (l := val.length) (by omegaW); omega
  have htll : tl.length = tCount tag + (derLEnc val.length).length := by
    rw [← htl]; simp [beBytes_length]
  refine ⟨tl ++ val, ?_, ?_, ?_⟩
  · unfold derEnc; rw [derTEnc_ok tag hv]; simp only []; rw [htl]
  · unfold derDec
    rw [List.append_assoc, hdec]; simp only []
    have hL : (tl ++ (val ++ rest)).length = tl.length + val.length + rest.length := by simp; omega
    have hm : ((tl ++ (val ++ rest)).length + W - tl.length) % W = val.length + rest.length := by
      rw [hL]
      have : tl.length + val.length + rest.length + W - tl.length = (val.length + rest.length) + W := by omega
      rw [this, Nat.add_mod_right]; exact Nat.mod_eq_of_lt (by omega)
    rw [hm, if_neg (by omega)]
    have hm2 : (tl.length + val.length) % W = tl.length + val.length := Nat.mod_eq_of_lt (by omega)
    rw [hm2]
    simp
  · simp only [List.length_append, Nat.add_sub_cancel]
    rw [List.append_assoc, List.drop_append_of_le_length (Nat.le_refl _), List.drop_of_length_le (Nat.le_refl _)]
    simp

end Bee2V.C08

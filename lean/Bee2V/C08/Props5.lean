/-
C08 — property theorems, part 5: base64, decimal strings, check digits (b64.c, dec.c).
-/
import Bee2V.C08.LemmasText2
namespace Bee2V.C08

/-- b64To ∘ b64From = id on every octet string (all three padding forms) -/
theorem b64_roundtrip (v : List UInt8) : b64To (b64From v) = v := b64_roundtrip' v
example : b64From [0x41, 0x42] = [81, 85, 73, 61] ∧ b64To [81, 85, 73, 61] = [0x41, 0x42] := by decide

/-- decToU32 / decToU64 (m = 2^32 / 2^64) read back what decFromU32 / decFromU64 printed:
    the number modulo 10^count (the documented truncation) and modulo the word size -/
theorem decTo_decFrom (m count n : Nat) : decTo m (decFrom count n) = n % 10 ^ count % m :=
  decTo_decFrom' m count n
example : decFrom 5 123 = [48, 48, 49, 50, 51] ∧ decTo U32 [48, 48, 49, 50, 51] = 123 := by decide

/-- what decFrom prints is a valid decimal string -/
theorem decFrom_isValid (count n : Nat) : decIsValid (decFrom count n) = true := decFrom_valid count n

/-- Luhn: Verify accepts the string extended by the digit Calc returned -/
theorem decLuhn_calc_verify (s : List UInt8) : decLuhnVerify (s ++ [decLuhnCalc s]) = true := luhn_calc_verify s
example : decLuhnCalc [55, 57, 57, 50, 55, 51, 57, 56, 55, 49] = 51 := by decide

/-- Damm: Verify accepts the string extended by the digit Calc returned -/
theorem decDamm_calc_verify (s : List UInt8) (hv : decIsValid s = true) :
    decDammVerify (s ++ [decDammCalc s]) = true := damm_calc_verify s hv
example : decDammCalc [53, 55, 50] = 52 := by decide

/-- CANONICAL (hex): hexFrom (hexTo s) is s in upper case, for every string hexIsValid accepts
    (hexFrom always writes upper-case digits; both cases are accepted on input) -/
theorem hex_canonical (s : List UInt8) (hv : hexIsValid s = true) : hexFrom (hexTo s) = s.map hexUpC :=
  hex_canonical' s.length s (Nat.le_refl _) hv
example : hexIsValid [48, 97, 70, 102] = true ∧ hexFrom (hexTo [48, 97, 70, 102]) = [48, 65, 70, 70] := by decide

/-- CANONICAL (base64): b64From (b64To s) = s for every string b64IsValid accepts (the padding bits of
    the last block must be zero, so the accepted text is the only text of its octets) -/
theorem b64_canonical (s : List UInt8) (hv : b64IsValid s = true) : b64From (b64To s) = s :=
  b64_canonical' s.length s (Nat.le_refl _) hv
example : b64IsValid [81, 85, 73, 61] = true ∧ b64IsValid [81, 85, 74, 61] = false := by decide

end Bee2V.C08

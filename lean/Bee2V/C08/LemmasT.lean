/-
C08 — field T: what derTDec accepts (spelled out octet by octet), derTIsValid of the decoded tag,
canonical form and round trip.
-/
import Bee2V.C08.LemmasL
namespace Bee2V.C08

theorem tDecLoop_step (der : List UInt8) (count t tc b : Nat) (h : tc < count) (hb : rd der tc = .ok b) :
    tDecLoop der count t tc =
      if b / 128 = 0 then .ok ((t * 256 + b % 128) % U32, tc + 1)
      else tDecLoop der count ((t * 256 + b % 128) % U32) (tc + 1) := by
  rw [tDecLoop, dif_pos h, hb]

theorem tDecLoop_stop (der : List UInt8) (count t tc : Nat) (h : ¬ tc < count) :
    tDecLoop der count t tc = .ok (t, tc) := by
  rw [tDecLoop, dif_neg h]

theorem tagLoop_step (der : List UInt8) (tc t pos b : Nat) (h : pos < tc) (hb : rd der pos = .ok b) :
    tagLoop der tc t pos = tagLoop der tc ((t * 256 + b) % U32) (pos + 1) := by
  rw [tagLoop, dif_pos h, hb]

theorem tagLoop_stop (der : List UInt8) (tc t pos : Nat) (h : ¬ pos < tc) : tagLoop der tc t pos = .ok t := by
  rw [tagLoop, dif_neg h]

theorem tValidLoop_step (tag t b r : Nat) (h : tag > 255) (hb : tag % 256 / 128 ≠ 0) :
    tValidLoop tag t b r = tValidLoop (tag / 256) ((t + (tag % 128) * 2 ^ r) % U32) (tag % 128) (r + 7) := by
  rw [tValidLoop, dif_pos h, if_neg hb]

theorem tValidLoop_none (tag t b r : Nat) (h : tag > 255) (hb : tag % 256 / 128 = 0) :
    tValidLoop tag t b r = none := by
  rw [tValidLoop, dif_pos h, if_pos hb]

theorem tValidLoop_stop (tag t b r : Nat) (h : ¬ tag > 255) : tValidLoop tag t b r = some (tag, t, b) := by
  rw [tValidLoop, dif_neg h]

theorem tagv2 (d0 d1 : Nat) (h0 : d0 < 256) (h1 : d1 < 256) :
    (d0 * 256 + d1) % 4294967296 = d0 * 256 + d1 := by omega
theorem tagv3 (d0 d1 d2 : Nat) (h0 : d0 < 256) (h1 : d1 < 256) (h2 : d2 < 256) :
    ((d0 * 256 + d1) % 4294967296 * 256 + d2) % 4294967296 = (d0 * 256 + d1) * 256 + d2 := by omega
theorem tagv4 (d0 d1 d2 d3 : Nat) (h0 : d0 < 256) (h1 : d1 < 256) (h2 : d2 < 256) (h3 : d3 < 256) :
    (((d0 * 256 + d1) % 4294967296 * 256 + d2) % 4294967296 * 256 + d3) % 4294967296 =
      ((d0 * 256 + d1) * 256 + d2) * 256 + d3 := by omega

/-- the accepted tag forms, octet by octet (d_i = value of octet i) -/
def TForm (der : List UInt8) (tag k : Nat) : Prop :=
  ∃ d0, rd der 0 = .ok d0 ∧
    ((k = 1 ∧ d0 % 32 ≠ 31 ∧ tag = d0) ∨
     (d0 % 32 = 31 ∧ ∃ d1, rd der 1 = .ok d1 ∧ d1 % 128 ≠ 0 ∧
       ((k = 2 ∧ d1 < 128 ∧ 31 ≤ d1 ∧ tag = d0 * 256 + d1) ∨
        (128 ≤ d1 ∧ ∃ d2, rd der 2 = .ok d2 ∧
          ((k = 3 ∧ d2 < 128 ∧ tag = (d0 * 256 + d1) * 256 + d2) ∨
           (128 ≤ d2 ∧ ∃ d3, rd der 3 = .ok d3 ∧ k = 4 ∧ d3 < 128 ∧
              tag = ((d0 * 256 + d1) * 256 + d2) * 256 + d3))))))

theorem derTDec_spec (der : List UInt8) (tag k : Nat) (h : derTDec der = .ok (tag, k)) : TForm der tag k := by
  unfold derTDec at h
  by_cases h0 : der.length < 1
  · rw [if_pos h0] at h; cases h
  · rw [if_neg h0] at h
    have hr0 := rd_of_lt (xs := der) (i := 0) (by omega)
    have hb0 : der[0].toNat < 256 := UInt8.toNat_lt _
    generalize der[0].toNat = d0 at hr0 hb0
    rw [hr0] at h; simp only [] at h
    refine ⟨d0, hr0, ?_⟩
    by_cases hl : d0 % 32 = 31
    · rw [if_pos hl] at h
      right
      refine ⟨hl, ?_⟩
      by_cases h2 : min 4 der.length < 2
      · rw [if_pos h2] at h; cases h
      · rw [if_neg h2] at h
        have hr1 := rd_of_lt (xs := der) (i := 1) (by omega)
        have hb1 : der[1].toNat < 256 := UInt8.toNat_lt _
        generalize der[1].toNat = d1 at hr1 hb1
        rw [hr1] at h; simp only [] at h
        by_cases hz : d1 % 128 = 0
        · rw [if_pos hz] at h; cases h
        · rw [if_neg hz] at h
          refine ⟨d1, hr1, hz, ?_⟩
          rw [tDecLoop_step der _ 0 1 d1 (by omega) hr1] at h
          generalize ht1 : (0 * 256 + d1 % 128) % U32 = t1 at h
          have ht1' : t1 = d1 % 128 := by omegaW
          by_cases c1 : d1 / 128 = 0
          · -- two octets
            rw [if_pos c1] at h; simp only [] at h
            rw [show (2 : Nat) - 1 = 1 from rfl, hr1] at h; simp only [] at h
            by_cases c2 : d1 / 128 ≠ 0 ∨ t1 < 31
            · rw [if_pos c2] at h; cases h
            · rw [if_neg c2] at h; simp only [] at h
              rw [tagLoop_step der 2 d0 1 d1 (by omega) hr1, tagLoop_stop der 2 _ 2 (by omega)] at h
              cases h
              left
              exact ⟨rfl, by omega, by omega, tagv2 d0 d1 hb0 hb1⟩
          · rw [if_neg c1] at h
            right
            refine ⟨by omega, ?_⟩
            by_cases h3 : 2 < min 4 der.length
            · have hr2 := rd_of_lt (xs := der) (i := 2) (by omega)
              have hb2 : der[2].toNat < 256 := UInt8.toNat_lt _
              generalize der[2].toNat = d2 at hr2 hb2
              refine ⟨d2, hr2, ?_⟩
              rw [tDecLoop_step der _ _ 2 d2 h3 hr2] at h
              generalize ht2 : (t1 * 256 + d2 % 128) % U32 = t2 at h
              have ht2' : 31 ≤ t2 := by omegaW
              by_cases c2 : d2 / 128 = 0
              · rw [if_pos c2] at h; simp only [] at h
                rw [show (3 : Nat) - 1 = 2 from rfl, hr2] at h; simp only [] at h
                rw [if_neg (by omega)] at h; simp only [] at h
                rw [tagLoop_step der 3 d0 1 d1 (by omega) hr1, tagLoop_step der 3 _ 2 d2 (by omega) hr2,
                  tagLoop_stop der 3 _ 3 (by omega)] at h
                cases h
                left
                exact ⟨rfl, by omega, tagv3 d0 d1 d2 hb0 hb1 hb2⟩
              · rw [if_neg c2] at h
                right
                refine ⟨by omega, ?_⟩
                by_cases h4 : 3 < min 4 der.length
                · have hr3 := rd_of_lt (xs := der) (i := 3) (by omega)
                  have hb3 : der[3].toNat < 256 := UInt8.toNat_lt _
                  generalize der[3].toNat = d3 at hr3 hb3
                  refine ⟨d3, hr3, ?_⟩
                  rw [tDecLoop_step der _ _ 3 d3 h4 hr3] at h
                  generalize ht3 : (t2 * 256 + d3 % 128) % U32 = t3 at h
                  have ht3' : 31 ≤ t3 := by omegaW
                  by_cases c3 : d3 / 128 = 0
                  · rw [if_pos c3] at h; simp only [] at h
                    rw [show (4 : Nat) - 1 = 3 from rfl, hr3] at h; simp only [] at h
                    rw [if_neg (by omega)] at h; simp only [] at h
                    rw [tagLoop_step der 4 d0 1 d1 (by omega) hr1, tagLoop_step der 4 _ 2 d2 (by omega) hr2,
                      tagLoop_step der 4 _ 3 d3 (by omega) hr3, tagLoop_stop der 4 _ 4 (by omega)] at h
                    cases h
                    exact ⟨rfl, by omega, tagv4 d0 d1 d2 d3 hb0 hb1 hb2 hb3⟩
                  · rw [if_neg c3, tDecLoop_stop der _ _ 4 (by omega)] at h; simp only [] at h
                    rw [show (4 : Nat) - 1 = 3 from rfl, hr3] at h; simp only [] at h
                    rw [if_pos (Or.inl c3)] at h; cases h
                · rw [tDecLoop_stop der _ _ 3 h4] at h; simp only [] at h
                  rw [show (3 : Nat) - 1 = 2 from rfl, hr2] at h; simp only [] at h
                  rw [if_pos (Or.inl c2)] at h; cases h
            · rw [tDecLoop_stop der _ _ 2 h3] at h; simp only [] at h
              rw [show (2 : Nat) - 1 = 1 from rfl, hr1] at h; simp only [] at h
              rw [if_pos (Or.inl c1)] at h; cases h
    · rw [if_neg hl] at h; simp only [] at h
      rw [tagLoop_stop der 1 d0 1 (by omega)] at h
      cases h
      left
      exact ⟨rfl, hl, rfl⟩

theorem two7 : (2 : Nat) ^ 7 = 128 := by decide
theorem two14 : (2 : Nat) ^ (7 + 7) = 16384 := by decide

set_option maxRecDepth 8000 in
theorem TForm_valid (der : List UInt8) (tag k : Nat) (h : TForm der tag k) : derTIsValid tag = true := by
  obtain ⟨d0, hr0, h⟩ := h
  have hb0 := (rd_ok_lt hr0).2
  rcases h with ⟨_, hl, ht⟩ | ⟨hl, d1, hr1, hz, h⟩
  · subst ht
    unfold derTIsValid
    rw [if_pos hb0, if_neg hl]
  · have hb1 := (rd_ok_lt hr1).2
    rcases h with ⟨_, h128, h31, ht⟩ | ⟨h128, d2, hr2, h⟩
    · subst ht
      unfold derTIsValid
      have e1 : (d0 * 256 + d1) / 256 = d0 := by omega
      have e2 : (d0 * 256 + d1) % 128 = d1 := by omega
      rw [if_neg (by omega), if_neg (by omega), e1, e2, tValidLoop_stop _ _ _ _ (by omega)]
      simp only []
      rw [if_neg (by omega)]
    · have hb2 := (rd_ok_lt hr2).2
      rcases h with ⟨_, h2, ht⟩ | ⟨h2, d3, hr3, _, h3, ht⟩
      · subst ht
        unfold derTIsValid
        have e1 : ((d0 * 256 + d1) * 256 + d2) / 256 = d0 * 256 + d1 := by omega
        have e2 : ((d0 * 256 + d1) * 256 + d2) % 128 = d2 := by omega
        have e3 : (d0 * 256 + d1) / 256 = d0 := by omega
        have e4 : (d0 * 256 + d1) % 128 = d1 % 128 := by omega
        rw [if_neg (by omega), if_neg (by omega), e1, e2,
          tValidLoop_step _ _ _ _ (by omega) (by omega), e3, e4, tValidLoop_stop _ _ _ _ (by omega)]
        simp only []
        rw [two7, if_neg (by omegaW)]
      · have hb3 := (rd_ok_lt hr3).2
        subst ht
        unfold derTIsValid
        have e1 : (((d0 * 256 + d1) * 256 + d2) * 256 + d3) / 256 = (d0 * 256 + d1) * 256 + d2 := by omega
        have e2 : (((d0 * 256 + d1) * 256 + d2) * 256 + d3) % 128 = d3 := by omega
        have e3 : ((d0 * 256 + d1) * 256 + d2) / 256 = d0 * 256 + d1 := by omega
        have e4 : ((d0 * 256 + d1) * 256 + d2) % 128 = d2 % 128 := by omega
        have e5 : (d0 * 256 + d1) / 256 = d0 := by omega
        have e6 : (d0 * 256 + d1) % 128 = d1 % 128 := by omega
        rw [if_neg (by omega), if_neg (by omega), e1, e2,
          tValidLoop_step _ _ _ _ (by omega) (by omega), e3, e4,
          tValidLoop_step _ _ _ _ (by omega) (by omega), e5, e6, tValidLoop_stop _ _ _ _ (by omega)]
        simp only []
        rw [two7, two14, if_neg (by omegaW)]


theorem rd_zero_cons {der : List UInt8} {d : Nat} (h : rd der 0 = .ok d) : ∃ x tl, der = x :: tl ∧ x.toNat = d := by
  cases der with
  | nil => simp [rd] at h
  | cons x tl => exact ⟨x, tl, rfl, by simpa [rd] using h⟩

theorem rd_succ_cons (x : UInt8) (tl : List UInt8) (i : Nat) : rd (x :: tl) (i + 1) = rd tl i := by simp [rd]

set_option maxRecDepth 8000 in
/-- CANONICAL (T): the accepted octets are exactly the code of the decoded tag -/
theorem TForm_enc (der : List UInt8) (tag k : Nat) (h : TForm der tag k) : derTEnc tag = .ok (der.take k) := by
  have hv := TForm_valid der tag k h
  unfold derTEnc
  rw [hv]; simp only [Bool.not_true, Bool.false_eq_true, if_false]
  obtain ⟨d0, hr0, h⟩ := h
  obtain ⟨x0, r0, e0, hx0⟩ := rd_zero_cons hr0
  subst e0
  have hb0 := UInt8.toNat_lt x0
  rcases h with ⟨hk, hl, ht⟩ | ⟨hl, d1, hr1, hz, h⟩
  · subst hk; subst ht; subst hx0
    have hol : (if octLen x0.toNat = 0 then 1 else octLen x0.toNat) = 1 := by
      by_cases hz : x0.toNat = 0
      · rw [hz, octLen_zero]; rfl
      · rw [octLen_small hz hb0]; rfl
    rw [hol]
    have := beBytes_beVal' 1 [x0] rfl
    simp only [beVal_cons, beVal_nil, Nat.zero_mul, Nat.zero_add] at this
    rw [this]; simp
  · rw [rd_succ_cons] at hr1
    obtain ⟨x1, r1, e1, hx1⟩ := rd_zero_cons hr1
    subst e1
    have hb1 := UInt8.toNat_lt x1
    have h0 : x0.toNat ≠ 0 := by omega
    rcases h with ⟨hk, h128, h31, ht⟩ | ⟨h128, d2, hr2, h⟩
    · subst hk; subst ht; subst hx0; subst hx1
      have hol : octLen (x0.toNat * 256 + x1.toNat) = 2 := by
        rw [octLen_mul_add h0 _ hb1, octLen_small h0 hb0]
      rw [hol]; simp only [show (2:Nat) ≠ 0 by decide, if_false]
      have := beBytes_beVal' 2 [x0, x1] rfl
      simp only [beVal_cons, beVal_nil, Nat.zero_mul, Nat.zero_add] at this
      rw [this]; simp
    · rw [rd_succ_cons, rd_succ_cons] at hr2
      obtain ⟨x2, r2, e2, hx2⟩ := rd_zero_cons hr2
      subst e2
      have hb2 := UInt8.toNat_lt x2
      rcases h with ⟨hk, h2, ht⟩ | ⟨h2, d3, hr3, hk, h3, ht⟩
      · subst hk; subst ht; subst hx0; subst hx1; subst hx2
        have hol : octLen ((x0.toNat * 256 + x1.toNat) * 256 + x2.toNat) = 3 := by
          rw [octLen_mul_add (by omega) _ hb2, octLen_mul_add h0 _ hb1, octLen_small h0 hb0]
        rw [hol]; simp only [show (3:Nat) ≠ 0 by decide, if_false]
        have := beBytes_beVal' 3 [x0, x1, x2] rfl
        simp only [beVal_cons, beVal_nil, Nat.zero_mul, Nat.zero_add] at this
        rw [this]; simp
      · rw [rd_succ_cons, rd_succ_cons, rd_succ_cons] at hr3
        obtain ⟨x3, r3, e3, hx3⟩ := rd_zero_cons hr3
        subst e3
        have hb3 := UInt8.toNat_lt x3
        subst hk; subst ht; subst hx0; subst hx1; subst hx2; subst hx3
        have hol : octLen (((x0.toNat * 256 + x1.toNat) * 256 + x2.toNat) * 256 + x3.toNat) = 4 := by
          rw [octLen_mul_add (by omega) _ hb3, octLen_mul_add (by omega) _ hb2, octLen_mul_add h0 _ hb1, octLen_small h0 hb0]
        rw [hol]; simp only [show (4:Nat) ≠ 0 by decide, if_false]
        have := beBytes_beVal' 4 [x0, x1, x2, x3] rfl
        simp only [beVal_cons, beVal_nil, Nat.zero_mul, Nat.zero_add] at this
        rw [this]; simp


set_option maxRecDepth 8000 in
/-- converse of derTDec_spec: every listed form is accepted with exactly that tag and length -/
theorem derTDec_of_TForm (der : List UInt8) (tag k : Nat) (h : TForm der tag k) : derTDec der = .ok (tag, k) := by
  obtain ⟨d0, hr0, h⟩ := h
  have hl0 := (rd_ok_lt hr0).1
  have hb0 := (rd_ok_lt hr0).2
  unfold derTDec
  rw [if_neg (by omega), hr0]; simp only []
  rcases h with ⟨hk, hl, ht⟩ | ⟨hl, d1, hr1, hz, h⟩
  · subst hk; subst ht
    rw [if_neg hl]; simp only []
    rw [tagLoop_stop der 1 _ 1 (by omega)]
  · have hl1 := (rd_ok_lt hr1).1
    have hb1 := (rd_ok_lt hr1).2
    rw [if_pos hl, if_neg (by omega), hr1]; simp only []
    rw [if_neg hz, tDecLoop_step der _ 0 1 d1 (by omega) hr1]
    generalize ht1 : (0 * 256 + d1 % 128) % U32 = t1
    have ht1' : t1 = d1 % 128 := by omegaW
    rcases h with ⟨hk, h128, h31, ht⟩ | ⟨h128, d2, hr2, h⟩
    · subst hk; subst ht
      rw [if_pos (by omega)]; simp only []
      rw [show (2 : Nat) - 1 = 1 from rfl, hr1]; simp only []
      rw [if_neg (by omega)]; simp only []
      rw [tagLoop_step der 2 d0 1 d1 (by omega) hr1, tagLoop_stop der 2 _ 2 (by omega)]
      show R.ok ((d0 * 256 + d1) % 4294967296, 2) = _
      rw [tagv2 d0 d1 hb0 hb1]
    · have hl2 := (rd_ok_lt hr2).1
      have hb2 := (rd_ok_lt hr2).2
      rw [if_neg (by omega), tDecLoop_step der _ _ 2 d2 (by omega) hr2]
      generalize ht2 : (t1 * 256 + d2 % 128) % U32 = t2
      have ht2' : 31 ≤ t2 := by omegaW
      rcases h with ⟨hk, h2, ht⟩ | ⟨h2, d3, hr3, hk, h3, ht⟩
      · subst hk; subst ht
        rw [if_pos (by omega)]; simp only []
        rw [show (3 : Nat) - 1 = 2 from rfl, hr2]; simp only []
        rw [if_neg (by omega)]; simp only []
        rw [tagLoop_step der 3 d0 1 d1 (by omega) hr1, tagLoop_step der 3 _ 2 d2 (by omega) hr2,
          tagLoop_stop der 3 _ 3 (by omega)]
        show R.ok (((d0 * 256 + d1) % 4294967296 * 256 + d2) % 4294967296, 3) = _
        rw [tagv3 d0 d1 d2 hb0 hb1 hb2]
      · have hl3 := (rd_ok_lt hr3).1
        have hb3 := (rd_ok_lt hr3).2
        subst hk; subst ht
        rw [if_neg (by omega), tDecLoop_step der _ _ 3 d3 (by omega) hr3]
        generalize ht3 : (t2 * 256 + d3 % 128) % U32 = t3
        have ht3' : 31 ≤ t3 := by omegaW
        rw [if_pos (by omega)]; simp only []
        rw [show (4 : Nat) - 1 = 3 from rfl, hr3]; simp only []
        rw [if_neg (by omega)]; simp only []
        rw [tagLoop_step der 4 d0 1 d1 (by omega) hr1, tagLoop_step der 4 _ 2 d2 (by omega) hr2,
          tagLoop_step der 4 _ 3 d3 (by omega) hr3, tagLoop_stop der 4 _ 4 (by omega)]
        show R.ok ((((d0 * 256 + d1) % 4294967296 * 256 + d2) % 4294967296 * 256 + d3) % 4294967296, 4) = _
        rw [tagv4 d0 d1 d2 d3 hb0 hb1 hb2 hb3]


theorem octLen_r2 {v : Nat} (h1 : 256 ≤ v) (h2 : v < 65536) : octLen v = 2 := by
  rw [octLen_pos (by omega), octLen_small (by omega) (by omega)]
theorem octLen_r3 {v : Nat} (h1 : 65536 ≤ v) (h2 : v < 16777216) : octLen v = 3 := by
  rw [octLen_pos (by omega), octLen_r2 (by omega) (by omega)]
theorem octLen_r4 {v : Nat} (h1 : 16777216 ≤ v) (h2 : v < 4294967296) : octLen v = 4 := by
  rw [octLen_pos (by omega), octLen_r3 (by omega) (by omega)]

/-- number of octets derTEnc writes -/
def tCount (tag : Nat) : Nat := if octLen tag = 0 then 1 else octLen tag

set_option maxRecDepth 8000 in
/-- a valid tag, encoded and followed by anything, has one of the accepted forms -/
theorem TForm_of_valid (tag : Nat) (hv : derTIsValid tag = true) (hlt : tag < U32) (rest : List UInt8) :
    TForm (beBytes (tCount tag) tag ++ rest) tag (tCount tag) := by
  unfold derTIsValid at hv
  by_cases h1 : tag < 256
  · rw [if_pos h1] at hv
    have hl : tag % 32 ≠ 31 := by
      intro hc; rw [if_pos hc] at hv; cases hv
    have hk : tCount tag = 1 := by
      unfold tCount
      by_cases hz : tag = 0
      · rw [hz, octLen_zero]; rfl
      · rw [octLen_small hz h1]; rfl
    rw [hk]
    refine ⟨tag, ?_, Or.inl ⟨rfl, hl, rfl⟩⟩
    show rd ([oct tag] ++ rest) 0 = _
    simp [rd, toNat_oct]; omega
  · rw [if_neg h1] at hv
    by_cases hlast : tag % 256 / 128 = 1
    · rw [if_pos hlast] at hv; cases hv
    · rw [if_neg hlast] at hv
      by_cases r2 : tag < 65536
      · -- two octets
        rw [tValidLoop_stop _ _ _ _ (by omega)] at hv; simp only [] at hv
        have hc : ¬ (tag % 128 < 31 ∨ tag % 128 = 0 ∨ tag / 256 % 32 ≠ 31) := by
          intro hc; rw [if_pos hc] at hv; cases hv
        have hk : tCount tag = 2 := by unfold tCount; rw [octLen_r2 (by omega) r2]; rfl
        rw [hk]
        refine ⟨tag / 256, ?_, Or.inr ⟨by omega, tag % 256, ?_, by omega, Or.inl ⟨rfl, by omega, by omega, by omega⟩⟩⟩
        · show rd ([oct (tag / 256), oct tag] ++ rest) 0 = _
          simp [rd, toNat_oct]; omega
        · show rd ([oct (tag / 256), oct tag] ++ rest) 1 = _
          simp [rd, toNat_oct]
      · by_cases hm1 : tag / 256 % 256 / 128 = 0
        · rw [tValidLoop_none _ _ _ _ (by omega) hm1] at hv; cases hv
        · rw [tValidLoop_step _ _ _ _ (by omega) hm1] at hv
          by_cases r3 : tag < 16777216
          · rw [tValidLoop_stop _ _ _ _ (by omega)] at hv; simp only [] at hv
            have hc : ¬ (tag / 256 % 128 = 0 ∨ tag / 256 / 256 % 32 ≠ 31) := by
              intro hc
              rw [if_pos (by rcases hc with hc | hc; exact Or.inr (Or.inl hc); exact Or.inr (Or.inr hc))] at hv
              cases hv
            have hk : tCount tag = 3 := by unfold tCount; rw [octLen_r3 (by omega) r3]; rfl
            rw [hk]
            refine ⟨tag / 65536, ?_, Or.inr ⟨by omega, tag / 256 % 256, ?_, by omega, Or.inr ⟨by omega, tag % 256, ?_,
              Or.inl ⟨rfl, by omega, by omega⟩⟩⟩⟩
            · show rd ([oct (tag / 256 / 256), oct (tag / 256), oct tag] ++ rest) 0 = _
              simp [rd, toNat_oct]; omega
            · show rd ([oct (tag / 256 / 256), oct (tag / 256), oct tag] ++ rest) 1 = _
              simp [rd, toNat_oct]
            · show rd ([oct (tag / 256 / 256), oct (tag / 256), oct tag] ++ rest) 2 = _
              simp [rd, toNat_oct]
          · by_cases hm2 : tag / 256 / 256 % 256 / 128 = 0
            · rw [tValidLoop_none _ _ _ _ (by omega) hm2] at hv; cases hv
            · rw [tValidLoop_step _ _ _ _ (by omega) hm2, tValidLoop_stop _ _ _ _ (by omegaW)] at hv
              simp only [] at hv
              have hc : ¬ (tag / 256 / 256 % 128 = 0 ∨ tag / 256 / 256 / 256 % 32 ≠ 31) := by
                intro hc
                rw [if_pos (by rcases hc with hc | hc; exact Or.inr (Or.inl hc); exact Or.inr (Or.inr hc))] at hv
                cases hv
              have hk : tCount tag = 4 := by unfold tCount; rw [octLen_r4 (by omega) (by omegaW)]; rfl
              rw [hk]
              refine ⟨tag / 16777216, ?_, Or.inr ⟨by omega, tag / 65536 % 256, ?_, by omega, Or.inr ⟨by omega, tag / 256 % 256, ?_,
                Or.inr ⟨by omega, tag % 256, ?_, rfl, by omega, by omega⟩⟩⟩⟩
              · show rd ([oct (tag / 256 / 256 / 256), oct (tag / 256 / 256), oct (tag / 256), oct tag] ++ rest) 0 = _
                simp [rd, toNat_oct]; omegaW
              · show rd ([oct (tag / 256 / 256 / 256), oct (tag / 256 / 256), oct (tag / 256), oct tag] ++ rest) 1 = _
                simp [rd, toNat_oct]; omega
              · show rd ([oct (tag / 256 / 256 / 256), oct (tag / 256 / 256), oct (tag / 256), oct tag] ++ rest) 2 = _
                simp [rd, toNat_oct]
              · show rd ([oct (tag / 256 / 256 / 256), oct (tag / 256 / 256), oct (tag / 256), oct tag] ++ rest) 3 = _
                simp [rd, toNat_oct]


end Bee2V.C08

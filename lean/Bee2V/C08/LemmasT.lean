/-
C08 — field T: what derTDec accepts (spelled out octet by octet), derTIsValid of the decoded tag,
canonical form and round trip.
-/
import Bee2V.C08.LemmasL
namespace Bee2V.C08

theorem tDecLoop_step (der : List UInt8) (count t tc b : Nat) (h : tc < count) (hb : rd der tc = .ok b) :
    tDecLoop der count t tc =
      if b / 128 = 0 then .ok ((t * 256 + b % 128) % U32, tc + 1)
      else tDecLoop der count ((t * 256 + b % 128) % U32) (tc + 1) := by
  rw [tDecLoop, dif_pos h, hb]

theorem tDecLoop_stop (der : List UInt8) (count t tc : Nat) (h : ¬ tc < count) :
    tDecLoop der count t tc = .ok (t, tc) := by
  rw [tDecLoop, dif_neg h]

theorem tagLoop_step (der : List UInt8) (tc t pos b : Nat) (h : pos < tc) (hb : rd der pos = .ok b) :
    tagLoop der tc t pos = tagLoop der tc ((t * 256 + b) % U32) (pos + 1) := by
  rw [tagLoop, dif_pos h, hb]

theorem tagLoop_stop (der : List UInt8) (tc t pos : Nat) (h : ¬ pos < tc) : tagLoop der tc t pos = .ok t := by
  rw [tagLoop, dif_neg h]

theorem tValidLoop_step (tag t b r : Nat) (h : tag > 255) (hb : tag % 256 / 128 ≠ 0) :
    tValidLoop tag t b r = tValidLoop (tag / 256) ((t + (tag % 128) * 2 ^ r) % U32) (tag % 128) (r + 7) := by
  rw [tValidLoop, dif_pos h, if_neg hb]

theorem tValidLoop_none (tag t b r : Nat) (h : tag > 255) (hb : tag % 256 / 128 = 0) :
    tValidLoop tag t b r = none := by
  rw [tValidLoop, dif_pos h, if_pos hb]

theorem tValidLoop_stop (tag t b r : Nat) (h : ¬ tag > 255) : tValidLoop tag t b r = some (tag, t, b) := by
  rw [tValidLoop, dif_neg h]

theorem tagv2 (d0 d1 : Nat) (h0 : d0 < 256) (h1 : d1 < 256) :
    (d0 * 256 + d1) % 4294967296 = d0 * 256 + d1 := by omega
theorem tagv3 (d0 d1 d2 : Nat) (h0 : d0 < 256) (h1 : d1 < 256) (h2 : d2 < 256) :
    ((d0 * 256 + d1) % 4294967296 * 256 + d2) % 4294967296 = (d0 * 256 + d1) * 256 + d2 := by omega
theorem tagv4 (d0 d1 d2 d3 : Nat) (h0 : d0 < 256) (h1 : d1 < 256) (h2 : d2 < 256) (h3 : d3 < 256) :
    (((d0 * 256 + d1) % 4294967296 * 256 + d2) % 4294967296 * 256 + d3) % 4294967296 =
      ((d0 * 256 + d1) * 256 + d2) * 256 + d3 := by omega

/-- the accepted tag forms, octet by octet (d_i = value of octet i) -/
def TForm (der : List UInt8) (tag k : Nat) : Prop :=
  ∃ d0, rd der 0 = .ok d0 ∧
    ((k = 1 ∧ d0 % 32 ≠ 31 ∧ tag = d0) ∨
     (d0 % 32 = 31 ∧ ∃ d1, rd der 1 = .ok d1 ∧ d1 % 128 ≠ 0 ∧
       ((k = 2 ∧ d1 < 128 ∧ 31 ≤ d1 ∧ tag = d0 * 256 + d1) ∨
        (128 ≤ d1 ∧ ∃ d2, rd der 2 = .ok d2 ∧
          ((k = 3 ∧ d2 < 128 ∧ tag = (d0 * 256 + d1) * 256 + d2) ∨
           (128 ≤ d2 ∧ ∃ d3, rd der 3 = .ok d3 ∧ k = 4 ∧ d3 < 128 ∧
              tag = ((d0 * 256 + d1) * 256 + d2) * 256 + d3))))))

theorem derTDec_spec (der : List UInt8) (tag k : Nat) (h : derTDec der = .ok (tag, k)) : TForm der tag k := by
  unfold derTDec at h
  by_cases h0 : der.length < 1
  · rw [if_pos h0] at h; cases h
  · rw [if_neg h0] at h
    have hr0 := rd_of_lt (xs := der) (i := 0) (by omega)
    have hb0 : der[0].toNat < 256 := UInt8.toNat_lt _
    generalize der[0].toNat = d0 at hr0 hb0
    rw [hr0] at h; simp only [] at h
    refine ⟨d0, hr0, ?_⟩
    by_cases hl : d0 % 32 = 31
    · rw [if_pos hl] at h
      right
      refine ⟨hl, ?_⟩
      by_cases h2 : min 4 der.length < 2
      · rw [if_pos h2] at h; cases h
      · rw [if_neg h2] at h
        have hr1 := rd_of_lt (xs := der) (i := 1) (by omega)
        have hb1 : der[1].toNat < 256 := UInt8.toNat_lt _
        generalize der[1].toNat = d1 at hr1 hb1
        rw [hr1] at h; simp only [] at h
        by_cases hz : d1 % 128 = 0
        · rw [if_pos hz] at h; cases h
        · rw [if_neg hz] at h
          refine ⟨d1, hr1, hz, ?_⟩
          rw [tDecLoop_step der _ 0 1 d1 (by omega) hr1] at h
          generalize ht1 : (0 * 256 + d1 % 128) % U32 = t1 at h
          have ht1' : t1 = d1 % 128 := by omegaW
          by_cases c1 : d1 / 128 = 0
          · -- two octets
            rw [if_pos c1] at h; simp only [] at h
            rw [show (2 : Nat) - 1 = 1 from rfl, hr1] at h; simp only [] at h
            by_cases c2 : d1 / 128 ≠ 0 ∨ t1 < 31
            · rw [if_pos c2] at h; cases h
            · rw [if_neg c2] at h; simp only [] at h
              rw [tagLoop_step der 2 d0 1 d1 (by omega) hr1, tagLoop_stop der 2 _ 2 (by omega)] at h
              cases h
              left
              exact ⟨rfl, by omega, by omega, tagv2 d0 d1 hb0 hb1⟩
          · rw [if_neg c1] at h
            right
            refine ⟨by omega, ?_⟩
            by_cases h3 : 2 < min 4 der.length
            · have hr2 := rd_of_lt (xs := der) (i := 2) (by omega)
              have hb2 : der[2].toNat < 256 := UInt8.toNat_lt _
              generalize der[2].toNat = d2 at hr2 hb2
              refine ⟨d2, hr2, ?_⟩
              rw [tDecLoop_step der _ _ 2 d2 h3 hr2] at h
              generalize ht2 : (t1 * 256 + d2 % 128) % U32 = t2 at h
              have ht2' : 31 ≤ t2 := by omegaW
              by_cases c2 : d2 / 128 = 0
              · rw [if_pos c2] at h; simp only [] at h
                rw [show (3 : Nat) - 1 = 2 from rfl, hr2] at h; simp only [] at h
                rw [if_neg (by omega)] at h; simp only [] at h
                rw [tagLoop_step der 3 d0 1 d1 (by omega) hr1, tagLoop_step der 3 _ 2 d2 (by omega) hr2,
                  tagLoop_stop der 3 _ 3 (by omega)] at h
                cases h
                left
                exact ⟨rfl, by omega, tagv3 d0 d1 d2 hb0 hb1 hb2⟩
              · rw [if_neg c2] at h
                right
                refine ⟨by omega, ?_⟩
                by_cases h4 : 3 < min 4 der.length
                · have hr3 := rd_of_lt (xs := der) (i := 3) (by omega)
                  have hb3 : der[3].toNat < 256 := UInt8.toNat_lt _
                  generalize der[3].toNat = d3 at hr3 hb3
                  refine ⟨d3, hr3, ?_⟩
                  rw [tDecLoop_step der _ _ 3 d3 h4 hr3] at h
                  generalize ht3 : (t2 * 256 + d3 % 128) % U32 = t3 at h
                  have ht3' : 31 ≤ t3 := by omegaW
                  by_cases c3 : d3 / 128 = 0
                  · rw [if_pos c3] at h; simp only [] at h
                    rw [show (4 : Nat) - 1 = 3 from rfl, hr3] at h; simp only [] at h
                    rw [if_neg (by omega)] at h; simp only [] at h
                    rw [tagLoop_step der 4 d0 1 d1 (by omega) hr1, tagLoop_step der 4 _ 2 d2 (by omega) hr2,
                      tagLoop_step der 4 _ 3 d3 (by omega) hr3, tagLoop_stop der 4 _ 4 (by omega)] at h
                    cases h
                    exact ⟨rfl, by omega, tagv4 d0 d1 d2 d3 hb0 hb1 hb2 hb3⟩
                  · rw [if_neg c3, tDecLoop_stop der _ _ 4 (by omega)] at h; simp only [] at h
                    rw [show (4 : Nat) - 1 = 3 from rfl, hr3] at h; simp only [] at h
                    rw [if_pos (Or.inl c3)] at h; cases h
                · rw [tDecLoop_stop der _ _ 3 h4] at h; simp only [] at h
                  rw [show (3 : Nat) - 1 = 2 from rfl, hr2] at h; simp only [] at h
                  rw [if_pos (Or.inl c2)] at h; cases h
            · rw [tDecLoop_stop der _ _ 2 h3] at h; simp only [] at h
              rw [show (2 : Nat) - 1 = 1 from rfl, hr1] at h; simp only [] at h
              rw [if_pos (Or.inl c1)] at h; cases h
    · rw [if_neg hl] at h; simp only [] at h
      rw [tagLoop_stop der 1 d0 1 (by omega)] at h
      cases h
      left
      exact ⟨rfl, hl, rfl⟩

end Bee2V.C08

/-
C08 — property theorems, part 4: command APDUs (apdu.c) — no over-read, canonical form, round trip.
-/
import Bee2V.C08.LemmasApdu
namespace Bee2V.C08

/-- apduCmdDec never reads outside its input (whatever Lc/Le forms the octets pretend to have) -/
theorem apduCmdDec_no_oob (apdu : List UInt8) : apduCmdDec apdu ≠ .oob := by
  rcases apduCmdDec_cases apdu with e | ⟨_, e⟩ <;> rw [e] <;> simp
/-- the command of the seeded over-read (Lc announces one octet more than present): rejected, and — by the theorem
    above — without a read outside the input, although the model copies the data field before it decodes Le -/
example : apduCmdDec [0x00, 0xA4, 0x04, 0x04, 0x05, 0x11, 0x22, 0x33, 0x44] = .err := by decide +kernel

/-- the data field of an accepted command lies inside the input -/
theorem apduCmdDec_bounded (apdu : List UInt8) (cmd : Cmd) (h : apduCmdDec apdu = .ok cmd) :
    4 + cmd.cdf.length ≤ apdu.length ∧ cmd.rdf_len ≤ 65536 := by
  obtain ⟨c, i, p1, p2, body, cll, cl, hap, _, _, _, _, _, hcl, hcdf, hle⟩ := apduCmdDec_parts apdu cmd h
  subst hap
  constructor
  · rw [hcdf]; simp [List.length_take]; omega
  · rcases apduLe_spec _ _ _ _ hle with ⟨_, hr, _⟩ | ⟨b, _, _, hr⟩ | ⟨b0, b1, _, _, hr, _⟩ | ⟨b1, b2, _, _, hr, _⟩
    · omega
    · have := UInt8.toNat_lt b; rw [hr]; split <;> omega
    · have := UInt8.toNat_lt b0; have := UInt8.toNat_lt b1; rw [hr]; split <;> omega
    · have := UInt8.toNat_lt b1; have := UInt8.toNat_lt b2; rw [hr]; split <;> omega

/-- CANONICAL: an accepted command re-encodes to exactly the accepted octets (needs fix-3: no
    extended Lc = 0, no extended Lc < 256 without Le) -/
theorem apduCmdDec_canonical (apdu : List UInt8) (cmd : Cmd) (h : apduCmdDec apdu = .ok cmd) :
    apduCmdEnc cmd = apdu := apduCmdDec_canonical' apdu cmd h
example : apduCmdDec [0x00, 0xA4, 0x04, 0x0C, 0x02, 0x01, 0x02, 0x00] = .ok ⟨0x00, 0xA4, 0x04, 0x0C, [0x01, 0x02], 256⟩ := by
  decide +kernel
/-- the fix-3 witnesses are rejected -/
example : apduCmdDec [0, 1, 2, 3, 0, 0, 0, 1, 1] = .err := by decide +kernel
example : apduCmdDec [0, 1, 2, 3, 0, 0, 2, 9, 9] = .err := by decide +kernel

/-- ROUND TRIP: every valid command (cdf_len < 65536, rdf_len ≤ 65536) decodes back from its code -/
theorem apduCmd_roundtrip (cmd : Cmd) (hv : apduCmdIsValid cmd = true) : apduCmdDec (apduCmdEnc cmd) = .ok cmd :=
  apduCmd_roundtrip' cmd hv
example : apduCmdIsValid ⟨0, 0xA4, 4, 0x0C, [], 65536⟩ = true ∧ apduCmdEnc ⟨0, 0xA4, 4, 0x0C, [], 65536⟩ = [0, 0xA4, 4, 0x0C, 0, 0, 0] := by
  decide

end Bee2V.C08

import Bee2V.C07.Blob
import Bee2V.Base.Proto
/-!
C07 driver, blob layer: runs the CODE model `Blob.C` (page size of the configuration: 1 under the
-DBEE2_VERIF hook, 1024 as shipped) on an op sequence and prints what the caller sees.

  `blob <tok> ...`   tokens:  p<N>x<K> (harness only: recycle K heap chunks of N octets filled with 0x88)
     c<h><N> create   r<h><N> resize   f<h><V> fill all   w<h><off>,<len>,<v> write   z<h> wipe
     y<d><s> d <- blobCopy(d, s)   x<h> close   q compare (blobCmp sign, blobEq)         h, d, s in {a, b}
  output: per token (except p) `a<size>:<fnv1a> b<size>:<fnv1a>` (`*` instead of the hash while the handle
  holds memWipe residue), joined by `;`, then ` | A=<hex> B=<hex>`.
A `junk` cell (uninitialised heap) would print as `??` — the theorems say it never does.
-/
namespace Bee2V.C07.DrvBlob
open Bee2V.Proto Bee2V.C07.Blob

def fnv (bs : List UInt8) : Nat :=
  bs.foldl (fun h b => ((h ^^^ b.toNat) * 16777619) % 4294967296) 2166136261

def cellsBytes (cs : List Cell) : Option (List UInt8) :=
  cs.mapM fun c => match c with | .val b => some b | _ => none

def parseH : Char → Option H | 'a' => some .a | 'b' => some .b | _ => none

inductive Tok where
  | op (o : Op) | cmp | poison

def parseTok (t : String) : Option Tok :=
  match t.toList with
  | 'p' :: _ => some .poison
  | ['q'] => some .cmp
  | 'c' :: h :: r => do let h ← parseH h; let n ← (String.ofList r).toNat?; pure (.op (.create h n))
  | 'r' :: h :: r => do let h ← parseH h; let n ← (String.ofList r).toNat?; pure (.op (.resize h n))
  | 'f' :: h :: r => do let h ← parseH h; let n ← (String.ofList r).toNat?; pure (.op (.fill h n))
  | 'w' :: h :: r => do
    let h ← parseH h
    match (String.ofList r).splitOn "," with
    | [a, b, c] => do let a ← a.toNat?; let b ← b.toNat?; let c ← c.toNat?; pure (.op (.write h a b c))
    | _ => none
  | ['z', h] => do let h ← parseH h; pure (.op (.wipe h))
  | ['y', d, s] => do let d ← parseH d; let s ← parseH s; pure (.op (.copy d s))
  | ['x', h] => do let h ← parseH h; pure (.op (.close h))
  | _ => none

structure D where
  st : C.St
  da : Bool      -- handle a holds memWipe residue
  db : Bool

def D.dirty (d : D) : H → Bool | .a => d.da | .b => d.db
def D.setDirty (d : D) (h : H) (v : Bool) : D := match h with | .a => { d with da := v } | .b => { d with db := v }

def showH (tag : String) (b : Option C.Blk) (dirty : Bool) : String :=
  let cs := C.view b
  if dirty then s!"{tag}{cs.length}:*"
  else match cellsBytes cs with
    | some bs => s!"{tag}{cs.length}:{fnv bs}"
    | none => s!"{tag}{cs.length}:??"

def showHex (b : Option C.Blk) (dirty : Bool) : String :=
  if dirty then "*" else
  match cellsBytes (C.view b) with
  | some bs => toHex bs
  | none => "??"

def cmpBytes : List UInt8 → List UInt8 → Int
  | [], [] => 0
  | x :: xs, y :: ys => if x < y then -1 else if x > y then 1 else cmpBytes xs ys
  | [], _ => -1
  | _, [] => 1

def stepD (P : Nat) (d : D) (o : Op) : D :=
  let st := C.step P d.st o
  let d1 : D := { d with st := st }
  -- memWipe residue bookkeeping (same rules as in the harness)
  let d2 := match o with
    | .wipe h => d1.setDirty h (C.bsize (st.get h) > 0)
    | .create h _ => d1.setDirty h false
    | .close h => d1.setDirty h false
    | .fill h _ => d1.setDirty h false
    | .copy x y => if x = y then d1 else d1.setDirty x (d.dirty y && C.bsize (st.get x) > 0)
    | .resize h _ => if C.bsize (st.get h) = 0 then d1.setDirty h false else d1
    | .write _ _ _ _ => d1
  d2

def handle (P : Nat) (toks : List String) : String :=
  match toks.mapM parseTok with
  | none => "bad-op"
  | some ts =>
    let (d, outs) := ts.foldl (fun (acc : D × List String) t =>
      let (d, outs) := acc
      match t with
      | .poison => (d, outs)
      | .cmp =>
        let rec_ :=
          if d.da || d.db then "q*"
          else match cellsBytes (C.view d.st.a), cellsBytes (C.view d.st.b) with
            | some x, some y =>
              let c : Int := if x.length ≠ y.length then (if x.length < y.length then -1 else 1) else cmpBytes x y
              s!"q{c}{if x == y then 1 else 0}"
            | _, _ => "q??"
        (d, outs ++ [rec_])
      | .op o =>
        let d' := stepD P d o
        (d', outs ++ [showH "a" d'.st.a d'.da ++ " " ++ showH "b" d'.st.b d'.db])) (⟨⟨none, none⟩, false, false⟩, [])
    String.intercalate ";" outs ++ " | A=" ++ showHex d.st.a d.da ++ " B=" ++ showHex d.st.b d.db

end Bee2V.C07.DrvBlob

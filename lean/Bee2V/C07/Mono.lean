/-
C07 — monotonicity lemmas about the REGENERATED size functions (hand-written proofs, re-checked whenever the
generated definitions change).  They are used as hints by the generated obligations of functions that call a
constructor with a run-time normalised length (zzPowerMod, priIsSGPrime: no' = wwOctetSize(mod) <= O_OF_W(n)).
-/
import Bee2V.Gen.C07DeepW64
import Bee2V.Gen.C07DeepW32
import Bee2V.C07.Tactic

namespace Bee2V.Gen.C07.W64

/-- zmCreate_keep is monotone in the octet length of the modulus -/
theorem zmCreate_keep_mono (a b : Nat) (h : a ≤ b) : zmCreate_keep a ≤ zmCreate_keep b := by
  simp only [zmCreate_keep, zmCreatePlain_keep, zmCreateCrand_keep, zmCreateBarr_keep, zmCreateMont_keep]
  have : (a + 8 - 1) / 8 ≤ (b + 8 - 1) / 8 := by omega
  generalize (a + 8 - 1) / 8 = na at *
  generalize (b + 8 - 1) / 8 = nb at *
  omega

/-- zmCreate_deep is monotone in the octet length of the modulus -/
theorem zmCreate_deep_mono (a b : Nat) (h : a ≤ b) : zmCreate_deep a ≤ zmCreate_deep b := by
  simp only [zmCreate_deep, zmCreateBarr_deep, zmCreateCrand_deep, zmCreateMont_deep, zmCreatePlain_deep, zmDivMont_deep,
    zmDiv_deep, zmFromMont_deep, zmInvMont_deep, zmInv_deep, zmMulBarr_deep, zmMulCrand_deep, zmMulMont_deep, zmMul_deep,
    zmSqrBarr_deep, zmSqrCrand_deep, zmSqrMont_deep, zmSqr_deep, zmToMont_deep, zzAlmostInvMod_deep, zzDivMod_deep,
    zzDiv_deep, zzInvMod_deep, zzMod_deep, zzMul_deep, zzRedBarrStart_deep, zzRedBarr_deep, zzRedCrand_deep,
    zzRedMont_deep, zzRed_deep, zzSqr_deep]
  have : (a + 8 - 1) / 8 ≤ (b + 8 - 1) / 8 := by omega
  generalize (a + 8 - 1) / 8 = na at *
  generalize (b + 8 - 1) / 8 = nb at *
  omega

/-- qrPower_deep is monotone in the ring size n and in the ring's depth -/
theorem qrPower_deep_mono (n1 n2 m r1 r2 : Nat) (hn : n1 ≤ n2) (hr : r1 ≤ r2) :
    qrPower_deep n1 m r1 ≤ qrPower_deep n2 m r2 := by
  simp only [qrPower_deep]
  have := Nat.mul_le_mul_right (1 <<< (qrCalcSlideWidth m - 1)) hn
  omega

end Bee2V.Gen.C07.W64

namespace Bee2V.Gen.C07.W32

/-- zmCreate_keep is monotone in the octet length of the modulus -/
theorem zmCreate_keep_mono (a b : Nat) (h : a ≤ b) : zmCreate_keep a ≤ zmCreate_keep b := by
  simp only [zmCreate_keep, zmCreatePlain_keep, zmCreateCrand_keep, zmCreateBarr_keep, zmCreateMont_keep]
  have : (a + 4 - 1) / 4 ≤ (b + 4 - 1) / 4 := by omega
  generalize (a + 4 - 1) / 4 = na at *
  generalize (b + 4 - 1) / 4 = nb at *
  omega

/-- zmCreate_deep is monotone in the octet length of the modulus -/
theorem zmCreate_deep_mono (a b : Nat) (h : a ≤ b) : zmCreate_deep a ≤ zmCreate_deep b := by
  simp only [zmCreate_deep, zmCreateBarr_deep, zmCreateCrand_deep, zmCreateMont_deep, zmCreatePlain_deep, zmDivMont_deep,
    zmDiv_deep, zmFromMont_deep, zmInvMont_deep, zmInv_deep, zmMulBarr_deep, zmMulCrand_deep, zmMulMont_deep, zmMul_deep,
    zmSqrBarr_deep, zmSqrCrand_deep, zmSqrMont_deep, zmSqr_deep, zmToMont_deep, zzAlmostInvMod_deep, zzDivMod_deep,
    zzDiv_deep, zzInvMod_deep, zzMod_deep, zzMul_deep, zzRedBarrStart_deep, zzRedBarr_deep, zzRedCrand_deep,
    zzRedMont_deep, zzRed_deep, zzSqr_deep]
  have : (a + 4 - 1) / 4 ≤ (b + 4 - 1) / 4 := by omega
  generalize (a + 4 - 1) / 4 = na at *
  generalize (b + 4 - 1) / 4 = nb at *
  omega

/-- qrPower_deep is monotone in the ring size n and in the ring's depth -/
theorem qrPower_deep_mono (n1 n2 m r1 r2 : Nat) (hn : n1 ≤ n2) (hr : r1 ≤ r2) :
    qrPower_deep n1 m r1 ≤ qrPower_deep n2 m r2 := by
  simp only [qrPower_deep]
  have := Nat.mul_le_mul_right (1 <<< (qrCalcSlideWidth m - 1)) hn
  omega

end Bee2V.Gen.C07.W32

/-
C07 — the tactic that discharges the generated size obligations (`Bee2V.Gen.C07Use*`).

Every obligation is an inequality between Nat expressions built from + * / max min
if-then-else and the generated size functions.  `c07_use [top] [all]`:
  1. unfold only the functions of the right-hand side (the declared depth) and keep the
     callees' declared depths as atoms (the compositional reading) — then `omega`;
  2. otherwise unfold everything except the size functions of the object constructors
     (gfpCreate_deep, ecpCreateJ_deep, ...: atoms constrained by the post-condition hypotheses);
     otherwise unfold every (non-recursive) size function that occurs — then `omega`;
  3. otherwise additionally normalise products (distribute, AC) so that the non-linear
     atoms of both sides coincide — then `omega`.
No Mathlib.
-/
namespace Bee2V.C07

theorem and_of (a b : Prop) (ha : a) (hb : b) : a ∧ b := ⟨ha, hb⟩

/-- `x + k - 1` as the macros W_OF_O/W_OF_B spell it -> `x + (k-1)` (one normal form for omega's atoms) -/
theorem n64 (x : Nat) : x + 64 - 1 = x + 63 := by omega
theorem n32 (x : Nat) : x + 32 - 1 = x + 31 := by omega
theorem n8 (x : Nat) : x + 8 - 1 = x + 7 := by omega
theorem n4 (x : Nat) : x + 4 - 1 = x + 3 := by omega

syntax "c07_arith" : tactic
macro_rules
  | `(tactic| c07_arith) => `(tactic|
      first
        | omega
        | (split <;> c07_arith)
        | (simp only [List.foldl, List.take, Nat.reduceDiv, Nat.reduceAdd, Nat.reduceMul, Nat.reduceSub, Nat.reduceMod] at *; omega)
        | (simp only [Nat.add_mul, Nat.mul_add, Nat.mul_assoc, Nat.mul_comm, Nat.mul_left_comm,
                      Nat.add_assoc, Nat.zero_add, Nat.add_zero, Nat.mul_one, Nat.one_mul] at *; omega))

syntax "c07_use" "[" Lean.Parser.Tactic.simpLemma,* "]" "[" Lean.Parser.Tactic.simpLemma,* "]" "[" Lean.Parser.Tactic.simpLemma,* "]" : tactic
macro_rules
  | `(tactic| c07_use [$top,*] [$mid,*] [$all,*]) => `(tactic|
      (repeat' (apply And.intro)) <;>
      first
        | omega
        | (simp only [$top,*]; omega)
        | (simp only [$top,*]; c07_arith)
        | (simp only [$mid,*, Bee2V.C07.n64, Bee2V.C07.n32, Bee2V.C07.n8, Bee2V.C07.n4] at *; omega)
        | (simp only [$mid,*, Bee2V.C07.n64, Bee2V.C07.n32, Bee2V.C07.n8, Bee2V.C07.n4] at *; c07_arith)
        | (simp only [$all,*]; c07_arith)
        | (simp only [$all,*] at *; c07_arith))

end Bee2V.C07

import Bee2V.C07.Drv
open Bee2V.C07.Drv

partial def loop (hin hout : IO.FS.Stream) (w32 : Bool) : IO Unit := do
  let line ← hin.getLine
  if line.isEmpty then return ()
  let toks := line.trimAscii.toString.splitOn " "
  match toks with
  | ["cfg", "W32"] => hout.putStrLn "cfg"; loop hin hout true
  | ["cfg", "W64"] => hout.putStrLn "cfg"; loop hin hout false
  | _ => hout.putStrLn (handle w32 toks); loop hin hout w32

/-- driver executable of area C07 (`drv_c07`) -/
def main : IO Unit := do
  let hin ← IO.getStdin
  let hout ← IO.getStdout
  loop hin hout false
  hout.flush

import Bee2V.C07.Drv
import Bee2V.C07.DrvBlob
open Bee2V.C07.Drv

/-- `cfg W64` / `cfg W32`: word size of the hooked builds (BLOB_PAGE_SIZE 1); `cfg PLAIN`: the shipped
page-rounded configuration (BLOB_PAGE_SIZE 1024, 64-bit words) -/
partial def loop (hin hout : IO.FS.Stream) (w32 : Bool) (page : Nat) : IO Unit := do
  let line ← hin.getLine
  if line.isEmpty then return ()
  let toks := line.trimAscii.toString.splitOn " "
  match toks with
  | ["cfg", "W32"] => hout.putStrLn "cfg"; loop hin hout true 1
  | ["cfg", "W64"] => hout.putStrLn "cfg"; loop hin hout false 1
  | ["cfg", "PLAIN"] => hout.putStrLn "cfg"; loop hin hout false 1024
  | "blob" :: rest => hout.putStrLn (Bee2V.C07.DrvBlob.handle page rest); loop hin hout w32 page
  | _ => hout.putStrLn (handle w32 toks); loop hin hout w32 page

/-- driver executable of area C07 (`drv_c07`) -/
def main : IO Unit := do
  let hin ← IO.getStdin
  let hout ← IO.getStdout
  loop hin hout false 1
  hout.flush

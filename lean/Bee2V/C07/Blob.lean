/-
C07 — the blob layer (src/core/blob.c) as a state machine.  Executable, no Mathlib.

Two models:
  * CODE model (`Blob.C.*`): mirrors blob.c statement by statement.  A blob is a heap block of
    `actual P size = pageCount P size * P` octets (P = BLOB_PAGE_SIZE: 1024 as shipped, 1 under the
    verification hook -DBEE2_VERIF), a header of `hdr` octets holding the size, and the data region.
    Heap cells are `val b` (an octet written by the library or the caller), `junk` (fresh from
    malloc / the tail realloc adds: uninitialised or recycled heap) or `wiped` (left by memWipe:
    defined but unspecified).  `malloc` returns junk, `realloc` keeps the common prefix and adds
    junk, `memSetZero` writes `val 0`, shrinking leaves the old octets where they are.
  * SPEC model (`Blob.S.*`): what blob.h documents — a blob is a list of cells; create = zeros,
    growth appends zeros, shrinking truncates, copy = contents of the source; no page size.
The theorems (PropsBlob.lean) show that for EVERY page size P >= 1 the caller-visible part of the
code model equals the spec model after any sequence of operations.
-/
namespace Bee2V.C07.Blob

inductive Cell where
  | val (b : UInt8)
  | junk
  | wiped
  deriving DecidableEq, Repr, Inhabited

/-- sizeof(size_t): the size header in front of the data -/
def hdr : Nat := 8

/-- fill pattern shared with the harness: never zero -/
def pat (v i : Nat) : UInt8 := UInt8.ofNat ((v + 7 * i) % 255 + 1)

inductive H where | a | b
  deriving DecidableEq, Repr

inductive Op where
  | create (h : H) (n : Nat)
  | resize (h : H) (n : Nat)
  | fill (h : H) (v : Nat)                 -- caller writes every visible octet
  | write (h : H) (off len v : Nat)        -- caller writes [off, off+len) (clipped to the size)
  | wipe (h : H)
  | copy (dst src : H)                     -- dst <- blobCopy(dst, src)
  | close (h : H)
  deriving Repr

/-! ### code model -/
namespace C

structure Blk where
  size : Nat
  cap : Nat                -- octets of the data region actually allocated
  mem : Nat → Cell

def pageCount (P size : Nat) : Nat := (size + hdr + P - 1) / P
def actual (P size : Nat) : Nat := pageCount P size * P
/-- data capacity of a block allocated for `size` -/
def capOf (P size : Nat) : Nat := actual P size - hdr

def setZero (m : Nat → Cell) (off len : Nat) : Nat → Cell :=
  fun i => if off ≤ i ∧ i < off + len then Cell.val 0 else m i

/-- realloc: the common prefix is kept, what is added is junk -/
def realloc (m : Nat → Cell) (oldCap newCap : Nat) : Nat → Cell :=
  fun i => if i < oldCap ∧ i < newCap then m i else Cell.junk

/-- blobCreate -/
def create (P size : Nat) : Option Blk :=
  if size = 0 then none
  else some { size := size, cap := capOf P size, mem := setZero (fun _ => Cell.junk) 0 size }

/-- blobResize -/
def resize (P : Nat) (b : Option Blk) (size : Nat) : Option Blk :=
  match b with
  | none => create P size
  | some blk =>
    if size = 0 then none                       -- blobClose
    else
      let old_size := blk.size
      -- перераспределить память?
      let cap1 := if actual P blk.size ≠ actual P size then capOf P size else blk.cap
      let mem1 := if actual P blk.size ≠ actual P size then realloc blk.mem blk.cap (capOf P size) else blk.mem
      -- *ptr = size; if (size > old_size) memSetZero(blob + old_size, size - old_size)
      let mem2 := if size > old_size then setZero mem1 old_size (size - old_size) else mem1
      some { size := size, cap := cap1, mem := mem2 }

/-- blobWipe -/
def wipe (b : Option Blk) : Option Blk :=
  b.map fun blk => { blk with mem := fun i => if i < blk.size then Cell.wiped else blk.mem i }

/-- the caller writes `f i` to every i in [off, off+len) inside the blob -/
def write (b : Option Blk) (off len : Nat) (f : Nat → UInt8) : Option Blk :=
  b.map fun blk => { blk with mem := fun i => if off ≤ i ∧ i < off + len ∧ i < blk.size then Cell.val (f i) else blk.mem i }

def bsize (b : Option Blk) : Nat := match b with | none => 0 | some blk => blk.size

/-- blobCopy(dest, src) for two different handles:
   `if (dest == src) return dest;` (only possible when both are null) `size = blobSize(src);
   dest = blobResize(dest, size); if (dest) memCopy(dest, src, size);` -/
def copy (P : Nat) (dest src : Option Blk) : Option Blk :=
  match src with
  | none => match dest with
    | none => none                              -- dest == src == 0
    | some _ => resize P dest 0                 -- blobResize(dest, 0) closes dest
  | some s =>
    match resize P dest s.size with
    | some d => some { d with mem := fun i => if i < s.size then s.mem i else d.mem i }
    | none => none

structure St where
  a : Option Blk
  b : Option Blk

def St.get (s : St) : H → Option Blk | .a => s.a | .b => s.b
def St.set (s : St) (h : H) (v : Option Blk) : St := match h with | .a => { s with a := v } | .b => { s with b := v }

def step (P : Nat) (s : St) : Op → St
  | .create h n => s.set h (create P n)        -- the harness closes an open handle first (Op.close)
  | .resize h n => s.set h (resize P (s.get h) n)
  | .fill h v => s.set h (write (s.get h) 0 (bsize (s.get h)) (pat v))
  | .write h off len v => s.set h (write (s.get h) off len (pat v))
  | .wipe h => s.set h (wipe (s.get h))
  | .copy d sr => if d = sr then s else s.set d (copy P (s.get d) (s.get sr))
  | .close h => s.set h none

def run (P : Nat) (ops : List Op) : St := ops.foldl (step P) ⟨none, none⟩

/-- what the caller sees of one handle: the first `size` cells -/
def view (b : Option Blk) : List Cell :=
  match b with | none => [] | some blk => (List.range blk.size).map blk.mem

end C

/-! ### spec model (blob.h) -/
namespace S

abbrev Blob := List Cell        -- [] is the null blob (blobCreate(0) = 0, blobSize(0) = 0)

def create (n : Nat) : Blob := List.replicate n (Cell.val 0)
def resize (b : Blob) (n : Nat) : Blob := b.take n ++ List.replicate (n - b.length) (Cell.val 0)
def wipe (b : Blob) : Blob := List.replicate b.length Cell.wiped
def write (b : Blob) (off len : Nat) (f : Nat → UInt8) : Blob :=
  b.mapIdx fun i c => if off ≤ i ∧ i < off + len then Cell.val (f i) else c
def copy (_dest src : Blob) : Blob := src

structure St where
  a : Blob
  b : Blob

def St.get (s : St) : H → Blob | .a => s.a | .b => s.b
def St.set (s : St) (h : H) (v : Blob) : St := match h with | .a => { s with a := v } | .b => { s with b := v }

def step (s : St) : Op → St
  | .create h n => s.set h (create n)
  | .resize h n => s.set h (resize (s.get h) n)
  | .fill h v => s.set h (write (s.get h) 0 (s.get h).length (pat v))
  | .write h off len v => s.set h (write (s.get h) off len (pat v))
  | .wipe h => s.set h (wipe (s.get h))
  | .copy d sr => if d = sr then s else s.set d (copy (s.get d) (s.get sr))
  | .close h => s.set h []

def run (ops : List Op) : St := ops.foldl step ⟨[], []⟩

end S

/-! ### the seeded defect class, as a model (for the sensitivity examples) -/
namespace Bad
open C
/-- blobResize with the zero-fill moved inside the reallocating branch -/
def resize (P : Nat) (b : Option Blk) (size : Nat) : Option Blk :=
  match b with
  | none => create P size
  | some blk =>
    if size = 0 then none
    else
      if actual P blk.size ≠ actual P size then
        let mem1 := realloc blk.mem blk.cap (capOf P size)
        some { size := size, cap := capOf P size,
               mem := if size > blk.size then setZero mem1 blk.size (size - blk.size) else mem1 }
      else some { size := size, cap := blk.cap, mem := blk.mem }
end Bad

end Bee2V.C07.Blob

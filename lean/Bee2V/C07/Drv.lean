import Bee2V.Gen.C07DeepW64
import Bee2V.Gen.C07DeepW32
import Bee2V.Base.Proto
/-!
C07 driver: evaluates the size functions REGENERATED from /repo (`Bee2V.Gen.C07.W64/W32.eval`).

  `deep <sizefn> <a1> ... <ak>`                      -> value
  `run <fn> <sizefn> <k> <a1..ak> <params...>`       -> `<value> ok`
  `hl ...` / `co ...`                                -> `ok`

The word configuration is selected by the first line `cfg W64` / `cfg W32` (answer `cfg`).
The harness answers the same lines using the COMPILED functions of the library; a difference
is a translator (or compiler) surprise and fails the check.
-/
namespace Bee2V.C07.Drv
open Bee2V.Proto

def evalIn (w32 : Bool) (f : String) (a : List Nat) : Option Nat :=
  if w32 then Bee2V.Gen.C07.W32.eval f a else Bee2V.Gen.C07.W64.eval f a

def nats (xs : List String) : Option (List Nat) := xs.mapM parseNat

def handle (w32 : Bool) : List String → String
  | "deep" :: f :: args =>
    match nats args with
    | some a => match evalIn w32 f a with
      | some v => toString (v % 2^64)
      | none => "bad-op"
    | none => "bad-op"
  | "run" :: _fn :: f :: k :: rest =>
    match parseNat k with
    | some k =>
      if k ≤ rest.length then
        match nats (rest.take k) with
        | some a => match evalIn w32 f a with
          | some v => s!"{v % 2^64} ok"
          | none => "bad-op"
        | none => "bad-op"
      else "bad-op"
    | none => "bad-op"
  | "hl" :: _ => "ok"
  | "co" :: _ => "ok"
  | "tr" :: _ => "ok"
  | _ => "bad-op"

end Bee2V.C07.Drv

/-
C07 — blob layer: property theorems.

Full statement proved here (for the CODE model of src/core/blob.c, `Blob.C`, against the SPEC model of
blob.h, `Blob.S`), for EVERY page size P >= 1 and EVERY finite sequence of blobCreate / blobResize /
caller writes / blobWipe / blobCopy / blobClose on two handles:
  * `run_refines`      the caller-visible octets and the size of each handle are exactly those of the spec
                       (zeros on create, old prefix ++ zeros on growth, prefix on shrink, source on copy);
  * `view_no_junk`     no visible cell is `junk` (uninitialised / recycled heap, or realloc's new tail);
  * `view_indep_page`  the visible state does not depend on the page size: BLOB_PAGE_SIZE = 1024 (shipped) and
                       BLOB_PAGE_SIZE = 1 (the -DBEE2_VERIF hook) are observationally equal — this is the fact
                       the verification hook relies on;
  * `size_le_cap`      the size never exceeds the allocated data capacity (the layer stays inside its block);
  * `size_as_asked`    blobResize(b, n) / blobCreate(n) give a blob of size n.
What is NOT proved here: that blob.c IS this model (tie = differential run of op sequences against the real
library in the hooked AND the page-rounded build, contents compared octet by octet, harness/c07.c `blob` ops);
the behaviour of malloc/realloc/free is a parameter of the model (junk cells).
-/
import Bee2V.C07.Blob

namespace Bee2V.C07
open Blob Blob.C

/-- code block `c` (page size P) shows the caller exactly the spec blob `s` -/
def Rb (P : Nat) : Option Blk → S.Blob → Prop
  | none, s => s = []
  | some blk, s => blk.size = s.length ∧ 0 < blk.size ∧ blk.cap = capOf P blk.size ∧ blk.size ≤ blk.cap ∧
      ∀ i (h : i < s.length), blk.mem i = s[i]

theorem size_le_capOf (P size : Nat) (hP : 0 < P) : size ≤ capOf P size := by
  unfold capOf actual pageCount hdr
  have h1 := Nat.div_add_mod (size + 8 + P - 1) P
  have h2 := Nat.mod_lt (size + 8 + P - 1) hP
  rw [Nat.mul_comm] at h1
  omega

theorem Rb_bsize {P c s} (h : Rb P c s) : bsize c = s.length := by
  cases c with
  | none => simp [Rb] at h; simp [bsize, h]
  | some blk => exact h.1

theorem Rb_create (P n : Nat) (hP : 0 < P) : Rb P (create P n) (S.create n) := by
  unfold create S.create
  by_cases h : n = 0
  · simp [h, Rb]
  · simp only [h, if_false, Rb, List.length_replicate, true_and]
    refine ⟨by omega, size_le_capOf P n hP, ?_⟩
    intro i hi
    simp [setZero, hi]

theorem Rb_resize (P : Nat) (hP : 0 < P) {c s} (h : Rb P c s) (n : Nat) : Rb P (resize P c n) (S.resize s n) := by
  cases c with
  | none =>
    simp [Rb] at h
    subst h
    have := Rb_create P n hP
    simpa [resize, S.resize, S.create] using this
  | some blk =>
    obtain ⟨hs, hpos, hcap, hle, hm⟩ := h
    by_cases hn : n = 0
    · simp [resize, hn, Rb, S.resize]
    · have hlen : (S.resize s n).length = n := by simp [S.resize]; omega
      have hcapn := size_le_capOf P n hP
      by_cases ha : actual P blk.size = actual P n
      · -- same number of pages: no realloc
        have hcap' : blk.cap = capOf P n := by simp [hcap, capOf, ha]
        simp only [resize, hn, if_false, ha, ne_eq, not_true_eq_false]
        refine ⟨by dsimp only; rw [hlen], by dsimp only; omega, by dsimp only; exact hcap', by dsimp only; omega, ?_⟩
        intro i hi
        rw [hlen] at hi
        simp only [S.resize]
        by_cases hlt : i < s.length
        · rw [List.getElem_append_left (by simp; omega)]
          simp only [List.getElem_take]
          by_cases hg : n > blk.size
          · have h1 : ¬ (blk.size ≤ i) := by omega
            simp [hg, setZero, h1, hm i hlt]
          · simp [hg, hm i hlt]
        · rw [List.getElem_append_right (by simp; omega)]
          simp only [List.getElem_replicate]
          have hg : n > blk.size := by omega
          have h1 : blk.size ≤ i := by omega
          have h2 : i < blk.size + (n - blk.size) := by omega
          simp [hg, setZero, h1, h2]
      · -- realloc
        simp only [resize, hn, if_false, ha, ne_eq, not_false_eq_true, if_true]
        refine ⟨by dsimp only; rw [hlen], by dsimp only; omega, by dsimp only, by dsimp only; exact hcapn, ?_⟩
        intro i hi
        rw [hlen] at hi
        simp only [S.resize]
        by_cases hlt : i < s.length
        · rw [List.getElem_append_left (by simp; omega)]
          simp only [List.getElem_take]
          have h1 : i < blk.cap := by omega
          have h2 : i < capOf P n := by omega
          by_cases hg : n > blk.size
          · have h3 : ¬ (blk.size ≤ i) := by omega
            simp [hg, setZero, realloc, h1, h2, h3, hm i hlt]
          · simp [hg, realloc, h1, h2, hm i hlt]
        · rw [List.getElem_append_right (by simp; omega)]
          simp only [List.getElem_replicate]
          have hg : n > blk.size := by omega
          have h1 : blk.size ≤ i := by omega
          have h2 : i < blk.size + (n - blk.size) := by omega
          simp [hg, setZero, h1, h2]

theorem Rb_wipe (P : Nat) {c s} (h : Rb P c s) : Rb P (wipe c) (S.wipe s) := by
  cases c with
  | none => simp [Rb] at h; simp [wipe, Rb, S.wipe, h]
  | some blk =>
    obtain ⟨hs, hpos, hcap, hle, hm⟩ := h
    refine ⟨by simp [S.wipe, hs], hpos, hcap, hle, ?_⟩
    intro i hi
    have hl : (S.wipe s).length = s.length := by simp [S.wipe]
    have hi2 : i < blk.size := by omega
    simp [S.wipe, hi2]

theorem Rb_write (P : Nat) {c s} (h : Rb P c s) (off len : Nat) (f : Nat → UInt8) :
    Rb P (write c off len f) (S.write s off len f) := by
  cases c with
  | none => simp [Rb] at h; simp [write, Rb, S.write, h]
  | some blk =>
    obtain ⟨hs, hpos, hcap, hle, hm⟩ := h
    refine ⟨by simp [S.write, hs], hpos, hcap, hle, ?_⟩
    intro i hi
    simp [S.write] at hi ⊢
    have hi2 : i < blk.size := by omega
    by_cases hc : off ≤ i ∧ i < off + len
    · simp [hc, hi2]
    · have : ¬ (off ≤ i ∧ i < off + len ∧ i < blk.size) := by intro h3; exact hc ⟨h3.1, h3.2.1⟩
      simp [this, hc, hm i hi]

theorem Rb_copy (P : Nat) (hP : 0 < P) {d sd c sc} (hd : Rb P d sd) (hc : Rb P c sc) :
    Rb P (copy P d c) (S.copy sd sc) := by
  cases c with
  | none =>
    simp [Rb] at hc
    subst hc
    cases d with
    | none => simp [copy, Rb, S.copy]
    | some blk => simp [copy, resize, Rb, S.copy]
  | some sblk =>
    obtain ⟨hs, hpos, hcap, hle, hm⟩ := hc
    have hr := Rb_resize P hP hd sblk.size
    have hl : (S.resize sd sblk.size).length = sblk.size := by simp [S.resize]; omega
    simp only [copy]
    cases hres : resize P d sblk.size with
    | none =>
      rw [hres] at hr
      simp only [Rb] at hr
      rw [hr] at hl
      simp at hl
      omega
    | some d' =>
      rw [hres] at hr
      obtain ⟨h1, h2, h3, h4, _⟩ := hr
      refine ⟨by dsimp only [S.copy]; omega, h2, h3, h4, ?_⟩
      intro i hi
      simp only [S.copy] at hi ⊢
      have : i < sblk.size := by omega
      simp [this, hm i hi]

/-- both handles -/
def R (P : Nat) (c : C.St) (s : S.St) : Prop := Rb P c.a s.a ∧ Rb P c.b s.b

theorem R_get {P c s} (h : R P c s) (x : H) : Rb P (c.get x) (s.get x) := by
  cases x <;> simp [C.St.get, S.St.get, h.1, h.2]

theorem R_set {P c s} (h : R P c s) (x : H) {v w} (hv : Rb P v w) : R P (c.set x v) (s.set x w) := by
  cases x <;> simp [C.St.set, S.St.set, R, hv, h.1, h.2]

theorem step_refines (P : Nat) (hP : 0 < P) {c s} (h : R P c s) (op : Op) : R P (C.step P c op) (S.step s op) := by
  cases op with
  | create x n => exact R_set h x (Rb_create P n hP)
  | resize x n => exact R_set h x (Rb_resize P hP (R_get h x) n)
  | fill x v =>
    have := Rb_write P (R_get h x) 0 (bsize (c.get x)) (pat v)
    rw [Rb_bsize (R_get h x)] at this
    simp only [C.step, S.step]
    rw [Rb_bsize (R_get h x)]
    exact R_set h x this
  | write x off len v => exact R_set h x (Rb_write P (R_get h x) off len (pat v))
  | wipe x => exact R_set h x (Rb_wipe P (R_get h x))
  | copy d sr =>
    simp only [C.step, S.step]
    by_cases hds : d = sr
    · simp [hds, h]
    · simp only [hds, if_false]
      exact R_set h d (Rb_copy P hP (R_get h d) (R_get h sr))
  | close x => exact R_set h x (by simp [Rb])

theorem foldl_refines (P : Nat) (hP : 0 < P) (ops : List Op) : ∀ {c s}, R P c s →
    R P (ops.foldl (C.step P) c) (ops.foldl S.step s) := by
  induction ops with
  | nil => intro c s h; exact h
  | cons op rest ih => intro c s h; exact ih (step_refines P hP h op)

/-- MAIN THEOREM: after any operation sequence, for any page size, code and spec agree on what the caller sees -/
theorem run_refines (P : Nat) (hP : 0 < P) (ops : List Op) : R P (C.run P ops) (S.run ops) :=
  foldl_refines P hP ops (by simp [R, Rb])

theorem view_eq_of_Rb {P c s} (h : Rb P c s) : view c = s := by
  cases c with
  | none => simp [Rb] at h; simp [view, h]
  | some blk =>
    obtain ⟨hs, _, _, _, hm⟩ := h
    apply List.ext_getElem
    · simp [view, hs]
    · intro i h1 h2
      simp [view] at h1 ⊢
      exact hm i h2

/-- the caller-visible contents are those of the spec (zeros on create, old prefix ++ zeros on growth, ...) -/
theorem view_eq_spec (P : Nat) (hP : 0 < P) (ops : List Op) (x : H) :
    view ((C.run P ops).get x) = (S.run ops).get x :=
  view_eq_of_Rb (R_get (run_refines P hP ops) x)

/-- the visible state does not depend on BLOB_PAGE_SIZE (1024 as shipped, 1 under the verification hook) -/
theorem view_indep_page (P Q : Nat) (hP : 0 < P) (hQ : 0 < Q) (ops : List Op) (x : H) :
    view ((C.run P ops).get x) = view ((C.run Q ops).get x) := by
  rw [view_eq_spec P hP, view_eq_spec Q hQ]

example : view ((C.run 1024 [.create .a 200, .fill .a 5, .resize .a 16, .resize .a 200]).get .a) =
          view ((C.run 1 [.create .a 200, .fill .a 5, .resize .a 16, .resize .a 200]).get .a) :=
  view_indep_page 1024 1 (by decide) (by decide) _ _
/-- non-vacuity: the sequence really shows data and zeros (20 octets: 4 written, 16 appended zeros) -/
example : (S.run [.create .a 20, .fill .a 5, .resize .a 4, .resize .a 20]).a =
    [.val (pat 5 0), .val (pat 5 1), .val (pat 5 2), .val (pat 5 3)] ++ List.replicate 16 (.val 0) := by decide

/-! #### the spec never shows junk -/
def NoJunk (b : S.Blob) : Prop := ∀ c ∈ b, c ≠ Cell.junk

theorem noJunk_step {s : S.St} (ha : NoJunk s.a) (hb : NoJunk s.b) (op : Op) :
    NoJunk (S.step s op).a ∧ NoJunk (S.step s op).b := by
  have hget : ∀ x, NoJunk (s.get x) := by intro x; cases x <;> simp [S.St.get, ha, hb]
  have hset : ∀ x v, NoJunk v → NoJunk (s.set x v).a ∧ NoJunk (s.set x v).b := by
    intro x v hv; cases x <;> simp [S.St.set, hv, ha, hb]
  cases op with
  | create x n => exact hset x _ (by intro c hc; simp [S.create] at hc; simp [hc.2])
  | resize x n =>
    refine hset x _ ?_
    intro c hc
    simp only [S.resize, List.mem_append] at hc
    rcases hc with hc | hc
    · exact hget x c (List.mem_of_mem_take hc)
    · simp at hc; simp [hc.2]
  | fill x v =>
    refine hset x _ ?_
    intro c hc
    simp only [S.write, List.mem_mapIdx] at hc
    obtain ⟨i, hi, rfl⟩ := hc
    split
    · simp
    · exact hget x _ (List.getElem_mem hi)
  | write x off len v =>
    refine hset x _ ?_
    intro c hc
    simp only [S.write, List.mem_mapIdx] at hc
    obtain ⟨i, hi, rfl⟩ := hc
    split
    · simp
    · exact hget x _ (List.getElem_mem hi)
  | wipe x => exact hset x _ (by intro c hc; simp [S.wipe] at hc; simp [hc.2])
  | copy d sr =>
    simp only [S.step]
    by_cases hds : d = sr
    · simp [hds, ha, hb]
    · simp only [hds, if_false]; exact hset d _ (by simpa [S.copy] using hget sr)
  | close x => exact hset x _ (by intro c hc; simp at hc)

theorem noJunk_run (ops : List Op) : NoJunk (S.run ops).a ∧ NoJunk (S.run ops).b := by
  have : ∀ (s : S.St), NoJunk s.a → NoJunk s.b → NoJunk (ops.foldl S.step s).a ∧ NoJunk (ops.foldl S.step s).b := by
    induction ops with
    | nil => intro s ha hb; exact ⟨ha, hb⟩
    | cons op rest ih => intro s ha hb; exact ih _ (noJunk_step ha hb op).1 (noJunk_step ha hb op).2
  exact this ⟨[], []⟩ (by intro c hc; simp at hc) (by intro c hc; simp at hc)

/-- no uninitialised / recycled heap octet is ever visible to the caller, whatever the page size -/
theorem view_no_junk (P : Nat) (hP : 0 < P) (ops : List Op) (x : H) :
    ∀ c ∈ view ((C.run P ops).get x), c ≠ Cell.junk := by
  rw [view_eq_spec P hP]
  cases x
  · exact (noJunk_run ops).1
  · exact (noJunk_run ops).2

/-- the blob layer stays inside the block it allocated -/
theorem size_le_cap (P : Nat) (hP : 0 < P) (ops : List Op) (x : H) :
    ∀ blk, (C.run P ops).get x = some blk → blk.size ≤ blk.cap ∧ blk.cap = capOf P blk.size := by
  intro blk hb
  have h := R_get (run_refines P hP ops) x
  rw [hb] at h
  exact ⟨h.2.2.2.1, h.2.2.1⟩

/-- the size is what was asked -/
theorem size_as_asked (P : Nat) (hP : 0 < P) (ops : List Op) (x : H) (n : Nat) :
    bsize ((C.run P (ops ++ [.resize x n])).get x) = n := by
  rw [Rb_bsize (R_get (run_refines P hP _) x)]
  simp only [S.run, List.foldl_append, List.foldl_cons, List.foldl_nil, S.step]
  cases x <;> simp [S.St.get, S.St.set, S.resize] <;> omega

/-! #### sensitivity: the seeded defect class breaks exactly this (page-rounded configuration only) -/

/-- with the zero-fill moved into the reallocating branch, a shrink followed by a growth inside one
page (here P = 64; 1024 as shipped) shows stale octets instead of zeros … -/
example : view (Bad.resize 64 (Bad.resize 64 (write (create 64 20) 0 20 (pat 5)) 4) 20) ≠
          S.resize (S.resize (S.write (S.create 20) 0 20 (pat 5)) 4) 20 := by decide
/-- … a small blob grown inside its page shows junk (uninitialised / recycled heap) … -/
example : Cell.junk ∈ view (Bad.resize 64 (create 64 8) 40) := by decide
/-- … and with the hook's page size 1 the defect is invisible (every resize reallocates) -/
example : view (Bad.resize 1 (Bad.resize 1 (write (create 1 20) 0 20 (pat 5)) 4) 20) =
          S.resize (S.resize (S.write (S.create 20) 0 20 (pat 5)) 4) 20 := by decide

end Bee2V.C07
